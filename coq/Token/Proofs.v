(** * Token: identity, authority, supply cap, burn tally, fee split (C09) — lemmas over [step]/[run]
    of Token/Model.v *)
From Irismod Require Import Token.Model Token.ProofsBank Token.ProofsLossLess.

Local Open Scope Z_scope.

(** ** vocabulary *)
Definition same_identity (t t' : token) : Prop :=
  t_symbol t' = t_symbol t /\ t_minunit t' = t_minunit t /\ t_scale t' = t_scale t /\ t_initial t' = t_initial t.

Definition same_gov (t t' : token) : Prop :=
  t_max t' = t_max t /\ t_mintable t' = t_mintable t /\ t_owner t' = t_owner t /\ t_name t' = t_name t.

(** [m] is an edit or an ownership transfer of token [t] signed by [t]'s current owner *)
Definition authorised (m : msg) (t : token) : Prop :=
  match m with
  | Edit owner sym _ _ _ => owner = t_owner t /\ sym = t_symbol t
  | Transfer src _ sym => src = t_owner t /\ sym = t_symbol t
  | _ => False
  end.

(** the registry is consistent: a token is filed under its own symbol, its min unit points back to
    it, and every min-unit entry points to a token with that min unit *)
Record IdInv (s : state) : Prop := {
  id_sym : forall sym t, get sym (tokens s) = Some t -> t_symbol t = sym /\ get (t_minunit t) (minunits s) = Some sym;
  id_mu : forall mu sym, get mu (minunits s) = Some sym -> exists t, get sym (tokens s) = Some t /\ t_minunit t = mu }.

(** a token's ERC20 contract stays, or (from none) becomes the next fresh contract id *)
Notation nc s := (next_contract s, contracts s).

Definition contract_step (s s' : state) (sym : name) (c c' : Z) : Prop :=
  (c' = c /\ nc s' = nc s)
  \/ (c = 0 /\ c' = next_contract s /\ next_contract s' = next_contract s + 1
      /\ contracts s' = if next_contract s =? 0 then contracts s else set (next_contract s) sym (contracts s)).

(** a new token comes from an issue or an ERC20 deployment, with the scale the message names *)
Definition new_token_of (m : msg) (t : token) : Prop :=
  match m with
  | Issue _ _ _ _ scale _ _ _ => t_scale t = scale
  | Deploy _ _ _ _ scale => t_scale t = scale
  | _ => False
  end.

(** how one successful message may change the registry *)
Inductive tok_step (m : msg) (s s' : state) : Prop :=
| TSsame : tokens s' = tokens s -> minunits s' = minunits s -> nc s' = nc s -> tok_step m s s'
| TSupd sym t t' :
    get sym (tokens s) = Some t -> tokens s' = set sym t' (tokens s) -> minunits s' = minunits s ->
    same_identity t t' -> (same_gov t t' \/ authorised m t) ->
    contract_step s s' sym (t_contract t) (t_contract t') -> tok_step m s s'
| TSnew t :
    get (t_symbol t) (tokens s) = None -> get (t_minunit t) (minunits s) = None ->
    tokens s' = set (t_symbol t) t (tokens s) -> minunits s' = set (t_minunit t) (t_symbol t) (minunits s) ->
    contract_step s s' (t_symbol t) 0 (t_contract t) -> new_token_of m t -> tok_step m s s'.

Lemma bank_only_next s s' : bank_only s s' -> nc s' = nc s.
Proof. intros (B & S & -> & _ & _). reflexivity. Qed.

Lemma upsert_fields s t :
  tokens (upsert_token s t) = set (t_symbol t) t (tokens s)
  /\ minunits (upsert_token s t) = set (t_minunit t) (t_symbol t) (minunits s)
  /\ bank (upsert_token s t) = bank s /\ supply (upsert_token s t) = supply s
  /\ burned (upsert_token s t) = burned s /\ erc20 (upsert_token s t) = erc20 s
  /\ pars (upsert_token s t) = pars s /\ registry (upsert_token s t) = registry s
  /\ next_contract (upsert_token s t) = next_contract s /\ evm_mode (upsert_token s t) = evm_mode s.
Proof. unfold upsert_token. destruct (t_contract t =? 0); simpl; repeat split. Qed.

Lemma exec_inv s m s' : exec s m = ROk s' -> validate_basic m = true /\ handle s m = ROk s'.
Proof. unfold exec. destruct (validate_basic m); [auto|discriminate]. Qed.

Lemma token_by_minunit_spec s mu t : IdInv s -> token_by_minunit s mu = Some t ->
  exists sym, get mu (minunits s) = Some sym /\ get sym (tokens s) = Some t /\ t_symbol t = sym /\ t_minunit t = mu.
Proof.
  intros I. unfold token_by_minunit, token_by_symbol. destruct (get mu (minunits s)) as [sym|] eqn:E; [|discriminate].
  intros Ht. exists sym. destruct (id_sym s I sym t Ht) as [Hs Hm].
  destruct (id_mu s I mu sym E) as (t0 & Ht0 & Hmu). rewrite Ht in Ht0. inversion Ht0; subst t0.
  repeat split; assumption.
Qed.

Lemma get_token_reg s d t : IdInv s -> get_token s d = Some t -> has (t_minunit t) (minunits s) = true.
Proof.
  intros I. unfold get_token, token_by_symbol. destruct (get d (tokens s)) as [t0|] eqn:E.
  - intros H. inversion H; subst t0. apply has_true. exists d. apply (id_sym s I d t E).
  - intros H. apply token_by_minunit_spec in H; [|assumption]. destruct H as (sym & Hm & _ & _ & Hmu).
    apply has_true. exists sym. rewrite Hmu. exact Hm.
Qed.

Lemma to_min_coin_reg s p amount d x : IdInv s -> to_min_coin s p amount = ROk (d, x) -> has d (minunits s) = true.
Proof.
  intros I. unfold to_min_coin. destruct (get_token s (p_fee_denom p)) as [t|] eqn:E; [|discriminate].
  destruct (negb (eqb (t_symbol t) (p_fee_denom p))); [discriminate|]. intros H. inversion H; subst.
  eapply get_token_reg; eassumption.
Qed.

Lemma issue_fee_reg s sym d x : IdInv s -> issue_fee s sym = ROk (d, x) -> has d (minunits s) = true.
Proof. intros I. unfold issue_fee. destruct (calc_issue_fee (pars s) sym); [|discriminate]. apply to_min_coin_reg. assumption. Qed.

Lemma mint_fee_reg s sym d x : IdInv s -> mint_fee s sym = ROk (d, x) -> has d (minunits s) = true.
Proof. intros I. unfold mint_fee. destruct (calc_issue_fee (pars s) sym); [|discriminate]. apply to_min_coin_reg. assumption. Qed.

(** ** decomposition of the C09 handlers *)
Lemma do_issue_inv s owner sym minu nm scale initial max mintable s' :
  do_issue s owner sym minu nm scale initial max mintable = ROk s' ->
  exists fd famt s1 s3,
    blocked owner = false
    /\ issue_fee s sym = ROk (fd, famt) /\ fee_handler s owner (fd, famt) = ROk s1
    /\ get sym (tokens s) = None /\ get minu (minunits s) = None
    /\ bank_mint (upsert_token s1 (mkToken sym minu scale initial (effective_max max initial mintable) mintable owner 0 nm))
                 minu (initial * pow10 scale) = ROk s3
    /\ bank_pay s3 owner minu (initial * pow10 scale) = ROk s'.
Proof.
  unfold do_issue. intros H. inv_if H. inv_bind H. destruct x as [fd famt]. inv_bind H.
  pose proof (fee_handler_effect _ _ _ _ _ E1) as (Hbo & _).
  apply bank_only_fields in Hbo. destruct Hbo as (Ht & Hm & _).
  inv_if H. inv_if H. cbv zeta in H. inv_bind H.
  rewrite Ht in E2. rewrite Hm in E3. apply has_false in E2. apply has_false in E3.
  exists fd, famt, x, x0. repeat split; assumption.
Qed.

Lemma do_edit_inv s owner sym nm max mintable s' :
  do_edit s owner sym nm max mintable = ROk s' ->
  exists t, get sym (tokens s) = Some t /\ owner = t_owner t
    /\ (0 < max -> supply_of s (t_minunit t) <= max * pow10 (t_scale t))
    /\ s' = upd_tokens s (set sym (mkToken (t_symbol t) (t_minunit t) (t_scale t) (t_initial t)
                                            (if 0 <? max then max else t_max t)
                                            (if mintable =? 0 then t_mintable t else (mintable =? 1))
                                            (t_owner t) (t_contract t) (if nm =? 0 then t_name t else nm)) (tokens s)).
Proof.
  unfold do_edit, token_by_symbol. intros H. destruct (get sym (tokens s)) as [t|] eqn:E; [|discriminate].
  inv_if H. inv_if H. inv_if H. cbv zeta in H. inversion H. exists t.
  apply Bool.negb_false_iff in E0. apply Z.eqb_eq in E0.
  repeat split; try assumption; try reflexivity.
  intros Hmax. apply Bool.andb_false_iff in E1. destruct E1 as [E1|E1].
  - apply Z.ltb_ge in E1. lia.
  - apply Bool.negb_false_iff in E1. unfold edit_max_ok in E1. apply Bool.negb_true_iff in E1. apply Z.ltb_ge in E1. exact E1.
Qed.

Lemma do_mint_inv s owner receiver denom amt s' : IdInv s ->
  do_mint s owner receiver denom amt = ROk s' ->
  exists sym fd famt s1 t s2,
    let recipient := if receiver =? -2 then owner else receiver in
    blocked recipient = false
    /\ get denom (minunits s) = Some sym /\ get sym (tokens s) = Some t /\ t_minunit t = denom /\ t_symbol t = sym
    /\ mint_fee s sym = ROk (fd, famt) /\ fee_handler s owner (fd, famt) = ROk s1
    /\ owner = t_owner t /\ t_mintable t = true
    /\ supply_of s1 denom + amt <= t_max t * pow10 (t_scale t)
    /\ bank_mint s1 denom amt = ROk s2 /\ bank_pay s2 recipient denom amt = ROk s'.
Proof.
  intros I. unfold do_mint. cbv zeta. intros H. inv_if H.
  destruct (get denom (minunits s)) as [sym|] eqn:Em; [|discriminate].
  inv_bind H. destruct x as [fd famt]. inv_bind H.
  pose proof (fee_handler_effect _ _ _ _ _ E1) as (Hbo & _).
  apply bank_only_fields in Hbo. destruct Hbo as (Ht & Hm & _).
  destruct (token_by_minunit x denom) as [t|] eqn:Et; [|discriminate].
  assert (Et' : token_by_minunit s denom = Some t).
  { unfold token_by_minunit, token_by_symbol in *. rewrite Ht, Hm in Et. exact Et. }
  destruct (token_by_minunit_spec s denom t I Et') as (sym' & Hm' & Hts & Hsy & Hmu).
  assert (Heq : sym' = sym) by congruence. rewrite Heq in *. clear Heq Hm'.
  inv_if H. inv_if H. inv_if H. inv_bind H.
  apply Bool.negb_false_iff in E2. apply Z.eqb_eq in E2.
  apply Bool.negb_false_iff in E3. apply Z.ltb_ge in E4. rewrite Hmu in E4.
  exists sym, fd, famt, x, t, x0. repeat split; try assumption. lia.
Qed.

Lemma do_burn_inv s sender denom amt s' :
  do_burn s sender denom amt = ROk s' ->
  exists t s1, token_by_minunit s denom = Some t
    /\ bank_send s sender MODULE denom amt = ROk s1
    /\ bank_burn (upd_burned s1 (set denom (burned_of s1 denom + amt) (burned s1))) denom amt = ROk s'.
Proof.
  unfold do_burn. intros H. destruct (token_by_minunit s denom) as [t|] eqn:E; [|discriminate].
  inv_bind H. cbv zeta in H. exists t, x. repeat split; assumption.
Qed.

Lemma do_transfer_inv s src dst sym s' :
  do_transfer s src dst sym = ROk s' ->
  exists t, blocked dst = false /\ get sym (tokens s) = Some t /\ src = t_owner t
    /\ s' = upd_owned (upd_tokens s (set sym (mkToken (t_symbol t) (t_minunit t) (t_scale t) (t_initial t) (t_max t)
                                                       (t_mintable t) dst (t_contract t) (t_name t)) (tokens s)))
                      (add_owned dst sym (del_owned src sym (owned s))).
Proof.
  unfold do_transfer, token_by_symbol. intros H. inv_if H. destruct (get sym (tokens s)) as [t|] eqn:Et; [|discriminate].
  inv_if H. cbv zeta in H. inversion H. apply Bool.negb_false_iff in E0. apply Z.eqb_eq in E0.
  exists t. repeat split; assumption.
Qed.

Lemma do_hook_inv s c from to amt s' :
  do_hook s c from to amt = ROk s' ->
  exists sym t s2, amt <= erc20_bal s c from /\ get c (contracts s) = Some sym /\ get sym (tokens s) = Some t
    /\ p_erc20 (pars s) = true /\ valid_addr to = true /\ amt <> 0
    /\ bank_mint (upd_erc20 s (set (c, from) (erc20_bal s c from - amt) (erc20 s))) (t_minunit t) amt = ROk s2
    /\ bank_pay s2 to (t_minunit t) amt = ROk s'.
Proof.
  unfold do_hook, token_by_symbol. intros H. inv_if H. destruct (get c (contracts s)) as [sym|] eqn:Ec; [|discriminate].
  destruct (get sym (tokens s)) as [t|] eqn:Et; [|discriminate].
  inv_if H. inv_if H. inv_if H. cbv zeta in H. inv_bind H.
  apply Z.ltb_ge in E. apply Bool.negb_false_iff in E0. apply Bool.negb_false_iff in E1. apply Z.eqb_neq in E2.
  exists sym, t, x. repeat split; assumption.
Qed.

Lemma do_hook_frame s c from to amt s' : do_hook s c from to amt = ROk s' ->
  tokens s' = tokens s /\ minunits s' = minunits s /\ nc s' = nc s /\ burned s' = burned s /\ registry s' = registry s.
Proof.
  intros H. apply do_hook_inv in H. destruct H as (sym0 & t & s2 & _ & _ & _ & _ & _ & _ & Hm & Hp).
  pose proof (bank_only_next _ _ (bank_mint_only _ _ _ _ Hm)) as Hn1.
  pose proof (bank_only_next _ _ (bank_pay_only _ _ _ _ _ Hp)) as Hn2.
  apply bank_mint_only, bank_only_fields in Hm. destruct Hm as (Ht1 & Hm1 & _ & _ & Hb1 & _ & _ & Hr1 & _).
  apply bank_pay_only, bank_only_fields in Hp. destruct Hp as (Ht2 & Hm2 & _ & _ & Hb2 & _ & _ & Hr2 & _).
  simpl in *. repeat split; congruence.
Qed.

Lemma do_hook_multi_frame evs : forall s s', do_hook_multi s evs = ROk s' ->
  tokens s' = tokens s /\ minunits s' = minunits s /\ nc s' = nc s /\ burned s' = burned s /\ registry s' = registry s.
Proof.
  induction evs as [|[[[c from] to] amt] r IH]; simpl; intros s s' H.
  - inversion H. repeat split.
  - inv_bind H. apply do_hook_frame in E. apply IH in H.
    destruct E as (A1 & A2 & A3 & A4 & A5). destruct H as (B1 & B2 & B3 & B4 & B5). repeat split; congruence.
Qed.

Lemma do_upgrade_inv s auth s' : do_upgrade s auth = ROk s' -> s' = s.
Proof. unfold do_upgrade. intros H. inv_if H. inv_if H. inv_if H. inv_if H. inversion H. reflexivity. Qed.

(** ** how each message changes the registry *)
Lemma bank_only_tok_same m s s' : bank_only s s' -> tok_step m s s'.
Proof. intros H. pose proof (bank_only_next _ _ H). apply bank_only_fields in H. destruct H as (Ht & Hm & _). apply TSsame; assumption. Qed.

Lemma do_deploy_tok s auth nm sym minu scale s' : IdInv s ->
  do_deploy s auth nm sym minu scale = ROk s' -> tok_step (Deploy auth nm sym minu scale) s s'.
Proof.
  intros I. unfold do_deploy. intros H. inv_if H. cbv zeta in H.
  destruct (has minu (minunits s)) eqn:Eh.
  - destruct (token_by_minunit s minu) as [t|] eqn:Et; cbn [bind] in H; [|discriminate].
    inv_if H. inv_if H. inv_if H. inv_if H. inversion H.
    destruct (token_by_minunit_spec s minu t I Et) as (sym0 & Hm & Hts & Hsy & Hmu).
    set (t' := mkToken (t_symbol t) (t_minunit t) (t_scale t) (t_initial t) (t_max t) (t_mintable t) (t_owner t) (next_contract s) (t_name t)).
    destruct (upsert_fields s t') as (Hut & Hum & _).
    apply TSupd with (sym := sym0) (t := t) (t' := t').
    + assumption.
    + simpl. rewrite Hut. simpl. rewrite Hsy. reflexivity.
    + simpl. rewrite Hum. simpl. rewrite Hmu, Hsy. apply set_same_id. assumption.
    + repeat split.
    + left. repeat split.
    + right. apply Bool.negb_false_iff, Z.eqb_eq in E0. split; [assumption|]. split; [reflexivity|]. split; [reflexivity|].
      simpl. unfold upsert_token. simpl. rewrite Hsy. destruct (next_contract s =? 0); reflexivity.
  - destruct (has sym (tokens s)) eqn:Es; cbn [bind] in H; [discriminate|].
    inv_if H. inv_if H. inv_if H. inv_if H. inversion H.
    set (t' := mkToken sym minu scale 0 0 true MODULE (next_contract s) nm).
    destruct (upsert_fields s t') as (Hut & Hum & _).
    apply has_false in Eh. apply has_false in Es.
    apply TSnew with (t := t'); simpl; try assumption.
    + right. split; [reflexivity|]. split; [reflexivity|]. split; [reflexivity|].
      unfold upsert_token. simpl. destruct (next_contract s =? 0); reflexivity.
    + reflexivity.
Qed.

Lemma do_swapfee_only s sender receiver denom amt s' :
  do_swapfee s sender receiver denom amt = ROk s' -> bank_only s s'.
Proof.
  unfold do_swapfee. intros H. inv_if H.
  destruct (token_by_minunit s denom) as [tb|]; [|discriminate].
  destruct (get (t_minunit tb) (registry s)) as [[target ratio]|]; [|discriminate].
  destruct (token_by_minunit s target) as [tm|]; [|discriminate].
  inv_if H.
  destruct (lossless_swap amt ratio (t_scale tb) (t_scale tm)) as [b mt].
  inv_if H. inv_bind H. inv_bind H. inv_bind H.
  eapply bank_only_trans; [eapply bank_send_only; eassumption|].
  eapply bank_only_trans; [eapply bank_burn_only; eassumption|].
  eapply bank_only_trans; [eapply bank_mint_only; eassumption|eapply bank_pay_only; eassumption].
Qed.

Lemma handle_tok_step s m s' : IdInv s -> handle s m = ROk s' -> tok_step m s s'.
Proof.
  intros I H. destruct m; simpl in H.
  - (* Issue *)
    apply do_issue_inv in H. destruct H as (fd & famt & s1 & s3 & _ & _ & Hf & Hs & Hm & Hmint & Hpay).
    pose proof (fee_handler_effect _ _ _ _ _ Hf) as (Hbo & _).
    apply bank_only_fields in Hbo. destruct Hbo as (Ht1 & Hm1 & _).
    pose proof (bank_only_next _ _ (bank_mint_only _ _ _ _ Hmint)) as Hn3.
    pose proof (bank_only_next _ _ (bank_pay_only _ _ _ _ _ Hpay)) as Hn'.
    pose proof (bank_only_next _ _ (proj1 (fee_handler_effect _ _ _ _ _ Hf))) as Hn1.
    apply bank_mint_only, bank_only_fields in Hmint. destruct Hmint as (Ht3 & Hm3 & _).
    apply bank_pay_only, bank_only_fields in Hpay. destruct Hpay as (Ht' & Hm' & _).
    set (t := mkToken sym minu scale initial (effective_max max initial mintable) mintable owner 0 nm) in *.
    destruct (upsert_fields s1 t) as (Hut & Hum & _ & _ & _ & _ & _ & _ & Hun & _).
    apply TSnew with (t := t); simpl; try assumption.
    + rewrite Ht', Ht3, Hut, Ht1. reflexivity.
    + rewrite Hm', Hm3, Hum, Hm1. reflexivity.
    + left. split; [reflexivity|]. rewrite Hn', Hn3. transitivity (nc s1); [reflexivity|exact Hn1].
    + reflexivity.
  - (* Edit *)
    apply do_edit_inv in H. destruct H as (t & Ht & Ho & _ & ->).
    eapply TSupd with (sym := sym) (t := t); [eassumption|reflexivity|reflexivity|repeat split| |left; split; reflexivity].
    right. simpl. split; [assumption|]. symmetry. apply (id_sym s I sym t Ht).
  - (* Mint *)
    apply do_mint_inv in H; [|assumption].
    destruct H as (sy & fd & famt & s1 & t & s2 & _ & _ & _ & _ & _ & _ & Hf & _ & _ & _ & Hmint & Hpay).
    pose proof (fee_handler_effect _ _ _ _ _ Hf) as (Hbo & _).
    apply bank_only_tok_same.
    eapply bank_only_trans; [eassumption|].
    eapply bank_only_trans; [eapply bank_mint_only; eassumption|eapply bank_pay_only; eassumption].
  - (* Burn *)
    apply do_burn_inv in H. destruct H as (t & s1 & _ & Hs & Hb).
    pose proof (bank_only_next _ _ (bank_send_only _ _ _ _ _ _ Hs)) as Hn1.
    pose proof (bank_only_next _ _ (bank_burn_only _ _ _ _ Hb)) as Hn2. simpl in Hn2.
    apply bank_send_only, bank_only_fields in Hs. destruct Hs as (Ht1 & Hm1 & _).
    apply bank_burn_only, bank_only_fields in Hb. destruct Hb as (Ht2 & Hm2 & _). simpl in Ht2, Hm2.
    apply TSsame; congruence.
  - (* Transfer *)
    apply do_transfer_inv in H. destruct H as (t & _ & Ht & Ho & ->).
    eapply TSupd with (sym := sym) (t := t); [eassumption|reflexivity|reflexivity|repeat split| |left; split; reflexivity].
    right. simpl. split; [assumption|]. symmetry. apply (id_sym s I sym t Ht).
  - (* SwapFee *)
    apply bank_only_tok_same. eapply do_swapfee_only; eassumption.
  - (* Deploy *)
    eapply do_deploy_tok; eassumption.
  - (* ToErc20 *)
    unfold do_to_erc20 in H. inv_if H. destruct (token_by_minunit s denom) as [t|]; [|discriminate].
    inv_if H. inv_bind H. inv_bind H. inv_if H. inversion H.
    pose proof (bank_only_next _ _ (bank_send_only _ _ _ _ _ _ E1)) as Hn1.
    pose proof (bank_only_next _ _ (bank_burn_only _ _ _ _ E2)) as Hn2.
    apply bank_send_only, bank_only_fields in E1. destruct E1 as (Ht1 & Hm1 & _).
    apply bank_burn_only, bank_only_fields in E2. destruct E2 as (Ht2 & Hm2 & _).
    apply TSsame; simpl; congruence.
  - (* FromErc20 *)
    unfold do_from_erc20 in H. inv_if H. destruct (token_by_minunit s denom) as [t|]; [|discriminate].
    inv_if H. inv_if H. inv_if H. cbv zeta in H. inv_bind H.
    pose proof (bank_only_next _ _ (bank_mint_only _ _ _ _ E3)) as Hn1.
    pose proof (bank_only_next _ _ (bank_pay_only _ _ _ _ _ H)) as Hn2.
    apply bank_mint_only, bank_only_fields in E3. destruct E3 as (Ht1 & Hm1 & _).
    apply bank_pay_only, bank_only_fields in H. destruct H as (Ht2 & Hm2 & _).
    apply TSsame; simpl in *; congruence.
  - (* SetParams *)
    unfold do_set_params in H. inv_if H. inv_if H. inversion H. apply TSsame; reflexivity.
  - (* EvmMode *)
    inversion H. apply TSsame; reflexivity.
  - (* HookToNative *)
    apply do_hook_inv in H. destruct H as (sym0 & t & s2 & _ & _ & _ & _ & _ & _ & Hm & Hp).
    pose proof (bank_only_next _ _ (bank_mint_only _ _ _ _ Hm)) as Hn1.
    pose proof (bank_only_next _ _ (bank_pay_only _ _ _ _ _ Hp)) as Hn2.
    apply bank_mint_only, bank_only_fields in Hm. destruct Hm as (Ht1 & Hm1 & _).
    apply bank_pay_only, bank_only_fields in Hp. destruct Hp as (Ht2 & Hm2 & _).
    apply TSsame; simpl in *; congruence.
  - (* UpgradeErc20 *)
    apply do_upgrade_inv in H. subst s'. apply TSsame; reflexivity.
  - (* HookMulti *)
    apply do_hook_multi_frame in H. destruct H as (Ht & Hm & Hn & _). apply TSsame; assumption.
Qed.

(** ** the registry invariant is preserved by every message *)
Lemma tok_step_IdInv m s s' : IdInv s -> tok_step m s s' -> IdInv s'.
Proof.
  intros I [Ht Hm _ | sym t t' Hg Ht Hm (Hsy & Hmu & _) _ _ | t Hs Hmn Ht Hm _ _].
  - constructor; rewrite Ht, Hm; apply I.
  - destruct (id_sym s I sym t Hg) as [Hts Htm].
    constructor; rewrite Ht, Hm.
    + intros sym0 t0. rewrite get_set. destruct (eqb sym0 sym) eqn:E.
      * apply eqb_eq in E. subst sym0. intros H0. inversion H0; subst t0. rewrite Hsy, Hmu. split; assumption.
      * apply (id_sym s I).
    + intros mu sym0 H0. destruct (id_mu s I mu sym0 H0) as (t0 & Ht0 & Hmu0).
      rewrite get_set. destruct (eqb sym0 sym) eqn:E.
      * apply eqb_eq in E. subst sym0. rewrite Hg in Ht0. inversion Ht0; subst t0. exists t'. split; [reflexivity|congruence].
      * exists t0. split; assumption.
  - constructor; rewrite Ht, Hm.
    + intros sym0 t0. rewrite get_set. destruct (eqb sym0 (t_symbol t)) eqn:E.
      * apply eqb_eq in E. subst sym0. intros H0. inversion H0; subst t0. split; [reflexivity|apply get_set_same].
      * intros H0. destruct (id_sym s I sym0 t0 H0) as [Hs0 Hm0]. split; [assumption|].
        rewrite get_set_other; [assumption|]. intros Heq. rewrite Heq in Hm0. congruence.
    + intros mu sym0. rewrite get_set. destruct (eqb mu (t_minunit t)) eqn:E.
      * apply eqb_eq in E. subst mu. intros H0. inversion H0; subst sym0. exists t. split; [apply get_set_same|reflexivity].
      * intros H0. destruct (id_mu s I mu sym0 H0) as (t0 & Ht0 & Hmu0). exists t0. split; [|assumption].
        rewrite get_set_other; [assumption|]. intros Heq. subst sym0. congruence.
Qed.

Lemma step_cases s m : (exists s', exec s m = ROk s' /\ step s m = s') \/ ((forall s', exec s m <> ROk s') /\ step s m = s).
Proof.
  unfold step. destruct (exec s m) eqn:E; [left; eauto|right|right]; split; try reflexivity; intros s' H; discriminate.
Qed.

Lemma step_IdInv s m : IdInv s -> IdInv (step s m).
Proof.
  intros I. destruct (step_cases s m) as [(s' & E & ->)|[_ ->]]; [|assumption].
  apply exec_inv in E. destruct E as [_ E]. eapply tok_step_IdInv; [eassumption|]. eapply handle_tok_step; eassumption.
Qed.

Lemma run_IdInv ms : forall s, IdInv s -> IdInv (run s ms).
Proof. induction ms as [|m ms IH]; intros s I; simpl; [assumption|]. apply IH. apply step_IdInv. assumption. Qed.

(** ** identity: bindings are permanent; governed fields change only by the owner's own messages *)
Lemma step_token s m sym t : IdInv s -> get sym (tokens s) = Some t ->
  exists t', get sym (tokens (step s m)) = Some t' /\ same_identity t t'
             /\ (same_gov t t' \/ (authorised m t /\ step_code s m = 0)).
Proof.
  intros I Hg.
  assert (Hrefl : exists t', get sym (tokens s) = Some t' /\ same_identity t t' /\ (same_gov t t' \/ (authorised m t /\ step_code s m = 0))).
  { exists t. split; [assumption|]. split; [repeat split|left; repeat split]. }
  destruct (step_cases s m) as [(s' & E & ->)|[_ ->]]; [|assumption].
  assert (Hc : step_code s m = 0) by (unfold step_code; rewrite E; reflexivity).
  apply exec_inv in E. destruct E as [_ E].
  destruct (handle_tok_step s m s' I E) as [Ht Hm _ | sym0 t0 t' Hg0 Ht Hm Hid Hgov _ | t0 Hs Hmn Ht Hm _ _].
  - rewrite Ht. assumption.
  - rewrite Ht, get_set. destruct (eqb sym sym0) eqn:Es.
    + apply eqb_eq in Es. subst sym0. rewrite Hg in Hg0. inversion Hg0; subst t0.
      exists t'. split; [reflexivity|]. split; [assumption|]. destruct Hgov; [left|right]; auto.
    + assumption.
  - rewrite Ht, get_set. destruct (eqb sym (t_symbol t0)) eqn:Es.
    + apply eqb_eq in Es. subst sym. congruence.
    + assumption.
Qed.

Lemma same_identity_trans a b c : same_identity a b -> same_identity b c -> same_identity a c.
Proof. unfold same_identity. intuition congruence. Qed.

Lemma run_token ms : forall s sym t, IdInv s -> get sym (tokens s) = Some t ->
  exists t', get sym (tokens (run s ms)) = Some t' /\ same_identity t t'.
Proof.
  induction ms as [|m ms IH]; intros s sym t I Hg; simpl.
  - exists t. split; [assumption|repeat split].
  - destruct (step_token s m sym t I Hg) as (t1 & Hg1 & Hid1 & _).
    destruct (IH (step s m) sym t1 (step_IdInv s m I) Hg1) as (t2 & Hg2 & Hid2).
    exists t2. split; [assumption|]. eapply same_identity_trans; eassumption.
Qed.

Lemma step_minunit s m mu sym : IdInv s -> get mu (minunits s) = Some sym -> get mu (minunits (step s m)) = Some sym.
Proof.
  intros I Hg. destruct (step_cases s m) as [(s' & E & ->)|[_ ->]]; [|assumption].
  apply exec_inv in E. destruct E as [_ E].
  destruct (handle_tok_step s m s' I E) as [Ht Hm _ | sym0 t0 t' Hg0 Ht Hm Hid Hgov _ | t0 Hs Hmn Ht Hm _ _]; rewrite Hm; try assumption.
  rewrite get_set_other; [assumption|]. intros Heq. subst mu. congruence.
Qed.

Lemma run_minunit ms : forall s mu sym, IdInv s -> get mu (minunits s) = Some sym -> get mu (minunits (run s ms)) = Some sym.
Proof.
  induction ms as [|m ms IH]; intros s mu sym I Hg; simpl; [assumption|].
  apply IH; [apply step_IdInv; assumption|apply step_minunit; assumption].
Qed.

Lemma minunit_injective s sym1 sym2 t1 t2 : IdInv s ->
  get sym1 (tokens s) = Some t1 -> get sym2 (tokens s) = Some t2 -> t_minunit t1 = t_minunit t2 -> sym1 = sym2.
Proof.
  intros I H1 H2 Heq. destruct (id_sym s I _ _ H1) as [_ M1]. destruct (id_sym s I _ _ H2) as [_ M2].
  rewrite Heq in M1. congruence.
Qed.

Lemma issue_never_rebinds s owner sym minu nm scale initial max mintable s' :
  exec s (Issue owner sym minu nm scale initial max mintable) = ROk s' ->
  get sym (tokens s) = None /\ get minu (minunits s) = None.
Proof.
  intros E. apply exec_inv in E. destruct E as [_ E]. simpl in E. apply do_issue_inv in E.
  destruct E as (? & ? & ? & ? & _ & _ & _ & Hs & Hm & _). split; assumption.
Qed.

(** ** authority *)
Lemma edit_needs_owner s owner sym nm max mintable s' :
  exec s (Edit owner sym nm max mintable) = ROk s' -> exists t, get sym (tokens s) = Some t /\ owner = t_owner t.
Proof.
  intros E. apply exec_inv in E. destruct E as [_ E]. simpl in E. apply do_edit_inv in E.
  destruct E as (t & Ht & Ho & _). eauto.
Qed.

Lemma transfer_needs_owner s src dst sym s' :
  exec s (Transfer src dst sym) = ROk s' ->
  exists t t', get sym (tokens s) = Some t /\ src = t_owner t /\ dst <> src
               /\ get sym (tokens s') = Some t' /\ t_owner t' = dst.
Proof.
  intros E. apply exec_inv in E. destruct E as [V E]. simpl in E. apply do_transfer_inv in E.
  destruct E as (t & _ & Ht & Ho & ->). eexists t, _. split; [assumption|]. split; [assumption|].
  split.
  - simpl in V. intros Heq. subst dst.
    destruct (valid_addr src && valid_addr src) eqn:Ev; simpl in V; [|discriminate].
    rewrite Z.eqb_refl in V. simpl in V. discriminate.
  - split; [simpl; apply get_set_same|reflexivity].
Qed.

Lemma mint_needs_owner_and_mintable s owner receiver denom amt s' : IdInv s ->
  exec s (Mint owner receiver denom amt) = ROk s' ->
  exists t, token_by_minunit s denom = Some t /\ owner = t_owner t /\ t_mintable t = true.
Proof.
  intros I E. apply exec_inv in E. destruct E as [_ E]. simpl in E. apply do_mint_inv in E; [|assumption].
  destruct E as (sym & fd & famt & s1 & t & s2 & _ & Hm & Ht & _ & _ & _ & _ & Ho & Hmt & _).
  exists t. split; [|split; assumption]. unfold token_by_minunit, token_by_symbol. rewrite Hm. exact Ht.
Qed.

(** ** supply cap *)
Definition SupReg (s : state) : Prop := forall d, supply_of s d <> 0 -> has d (minunits s) = true.
Definition CapOK (s : state) : Prop :=
  forall sym t, get sym (tokens s) = Some t -> supply_of s (t_minunit t) <= t_max t * pow10 (t_scale t).

(** every message except the two that mint without looking at the cap *)
Definition cap_checked (m : msg) : bool :=
  match m with FromErc20 _ _ _ _ | SwapFee _ _ _ _ | HookToNative _ _ _ _ | HookMulti _ => false | _ => true end.

Lemma pow10_nonneg n : 0 <= pow10 n.
Proof. unfold pow10. apply Z.pow_nonneg. lia. Qed.

Lemma cap_frame s s' :
  tokens s' = tokens s -> (forall d, supply_of s' d <= supply_of s d) -> CapOK s -> CapOK s'.
Proof. intros Ht Hs C sym t Hg. rewrite Ht in Hg. specialize (C sym t Hg). specialize (Hs (t_minunit t)). lia. Qed.

Lemma supreg_frame s s' :
  (forall d, has d (minunits s) = true -> has d (minunits s') = true) ->
  (forall d, supply_of s' d <> supply_of s d -> has d (minunits s') = true) -> SupReg s -> SupReg s'.
Proof.
  intros Hm Hs R d Hd. destruct (Z.eq_dec (supply_of s' d) (supply_of s d)) as [E|E]; [|auto].
  apply Hm, R. congruence.
Qed.

Lemma ind_nonneg b x : 0 <= x -> 0 <= ind b x.
Proof. unfold ind. destruct b; lia. Qed.

Lemma handle_cap s m s' : IdInv s -> SupReg s -> CapOK s -> cap_checked m = true -> validate_basic m = true ->
  handle s m = ROk s' -> SupReg s' /\ CapOK s'.
Proof.
  intros I R C Hc V H. destruct m; simpl in H; try discriminate Hc.
  - (* Issue *)
    apply do_issue_inv in H. destruct H as (fd & famt & s1 & s3 & _ & Hfee & Hf & Hs & Hm & Hmint & Hpay).
    pose proof (fee_handler_effect _ _ _ _ _ Hf) as (Hbo & Htax & _ & Hsup1 & _).
    apply bank_only_fields in Hbo. destruct Hbo as (Ht1 & Hm1 & _).
    set (t := mkToken sym minu scale initial (effective_max max initial mintable) mintable owner 0 nm) in *.
    destruct (upsert_fields s1 t) as (Hut & Hum & _ & Hus & _).
    pose proof (bank_mint_sup _ _ _ _ Hmint) as Hsup3.
    pose proof (bank_pay_sup _ _ _ _ _ Hpay) as Hsup'.
    pose proof (bank_mint_inv _ _ _ _ Hmint) as [Hx _].
    apply bank_mint_only, bank_only_fields in Hmint. destruct Hmint as (Ht3 & Hm3 & _).
    apply bank_pay_only, bank_only_fields in Hpay. destruct Hpay as (Ht' & Hm' & _).
    assert (Hfd : has fd (minunits s) = true) by (eapply issue_fee_reg; eassumption).
    assert (HS : forall d, supply_of s' d = supply_of s d - ind (eqb d fd) (famt - tax_of s famt) + ind (eqb d minu) (initial * pow10 scale)).
    { intros d. rewrite Hsup', Hsup3. unfold supply_of at 1. rewrite Hus. fold (supply_of s1 d). rewrite Hsup1. reflexivity. }
    assert (HM : minunits s' = set minu sym (minunits s)) by (rewrite Hm', Hm3, Hum, Hm1; reflexivity).
    assert (HT : tokens s' = set sym t (tokens s)) by (rewrite Ht', Ht3, Hut, Ht1; reflexivity).
    assert (Hmin0 : supply_of s minu = 0).
    { destruct (Z.eq_dec (supply_of s minu) 0) as [Ez|Ez]; [assumption|]. apply R in Ez. apply has_true in Ez. destruct Ez. congruence. }
    split.
    + intros d Hd. rewrite HM, has_set. destruct (eqb d minu) eqn:E1; [reflexivity|]. simpl.
      rewrite HS, E1 in Hd. unfold ind at 2 in Hd.
      destruct (eqb d fd) eqn:E2; [apply eqb_eq in E2; subst; assumption|]. unfold ind in Hd. apply R. lia.
    + intros sym0 t0. rewrite HT, get_set. destruct (eqb sym0 sym) eqn:E.
      * intros H0. inversion H0; subst t0. simpl. rewrite HS, eqb_refl, Hmin0. unfold ind at 2.
        pose proof (ind_nonneg (eqb minu fd) (famt - tax_of s famt) ltac:(lia)).
        (* initial <= effective_max *)
        simpl in V. repeat (apply Bool.andb_true_iff in V; destruct V as [V ?]).
        match goal with Hneg : negb (effective_max max initial mintable <? initial) = true |- _ =>
          apply Bool.negb_true_iff, Z.ltb_ge in Hneg; pose proof (pow10_nonneg scale);
          assert (initial * pow10 scale <= effective_max max initial mintable * pow10 scale) by (apply Z.mul_le_mono_nonneg_r; assumption) end.
        lia.
      * intros H0. destruct (id_sym s I sym0 t0 H0) as [_ Hm0].
        assert (Hne : eqb (t_minunit t0) minu = false).
        { apply eqb_false_iff. intros Heq. rewrite Heq in Hm0. congruence. }
        rewrite HS, Hne. unfold ind at 2.
        pose proof (ind_nonneg (eqb (t_minunit t0) fd) (famt - tax_of s famt) ltac:(lia)).
        specialize (C sym0 t0 H0). lia.
  - (* Edit *)
    apply do_edit_inv in H. destruct H as (t & Ht & Ho & Hmax & ->). split.
    + exact R.
    + intros sym0 t0. simpl. rewrite get_set. destruct (eqb sym0 sym) eqn:E.
      * intros H0. inversion H0; subst t0. simpl. unfold supply_of. simpl. fold (supply_of s (t_minunit t)).
        destruct (0 <? max) eqn:Em; [apply Hmax; apply Z.ltb_lt; assumption|apply (C sym t Ht)].
      * apply C.
  - (* Mint *)
    apply do_mint_inv in H; [|assumption].
    destruct H as (sy & fd & famt & s1 & t & s2 & _ & Hmu & Ht & Htm & Hts & Hfee & Hf & _ & _ & Hroom & Hmint & Hpay).
    pose proof (fee_handler_effect _ _ _ _ _ Hf) as (Hbo & Htax & _ & Hsup1 & _).
    apply bank_only_fields in Hbo. destruct Hbo as (Ht1 & Hm1 & _).
    pose proof (bank_mint_sup _ _ _ _ Hmint) as Hsup2.
    pose proof (bank_pay_sup _ _ _ _ _ Hpay) as Hsup'.
    pose proof (bank_mint_inv _ _ _ _ Hmint) as [Hx _].
    apply bank_mint_only, bank_only_fields in Hmint. destruct Hmint as (Ht2 & Hm2 & _).
    apply bank_pay_only, bank_only_fields in Hpay. destruct Hpay as (Ht' & Hm' & _).
    assert (Hfd : has fd (minunits s) = true) by (eapply mint_fee_reg; eassumption).
    assert (HM : minunits s' = minunits s) by congruence.
    assert (HT : tokens s' = tokens s) by congruence.
    split.
    + apply supreg_frame with s; [rewrite HM; auto| |assumption].
      intros d Hd. rewrite HM. rewrite Hsup', Hsup2, Hsup1 in Hd.
      destruct (eqb d denom) eqn:E1; [apply eqb_eq in E1; subst d; apply has_true; eauto|].
      destruct (eqb d fd) eqn:E2; [apply eqb_eq in E2; subst; assumption|]. unfold ind in Hd. lia.
    + intros sym0 t0. rewrite HT. intros H0. rewrite Hsup', Hsup2.
      destruct (eqb (t_minunit t0) denom) eqn:E1.
      * apply eqb_eq in E1. assert (sym0 = sy).
        { eapply minunit_injective; [eassumption|eassumption|eassumption|congruence]. }
        subst sym0. rewrite Ht in H0. inversion H0; subst t0. rewrite E1. unfold ind. lia.
      * unfold ind at 1. rewrite Hsup1.
        pose proof (ind_nonneg (eqb (t_minunit t0) fd) (famt - tax_of s famt) ltac:(lia)).
        specialize (C sym0 t0 H0). lia.
  - (* Burn *)
    apply do_burn_inv in H. destruct H as (t & s1 & Ht & Hs & Hb).
    destruct (token_by_minunit_spec s denom t I Ht) as (sy & Hmu & _).
    pose proof (bank_send_sup _ _ _ _ _ _ Hs) as Hsup1.
    pose proof (bank_burn_sup _ _ _ _ Hb) as Hsup2.
    pose proof (bank_burn_inv _ _ _ _ Hb) as [Hx _].
    apply bank_send_only, bank_only_fields in Hs. destruct Hs as (Ht1 & Hm1 & _).
    apply bank_burn_only, bank_only_fields in Hb. destruct Hb as (Ht2 & Hm2 & _). simpl in Ht2, Hm2.
    assert (HS : forall d, supply_of s' d = supply_of s d - ind (eqb d denom) amt).
    { intros d. rewrite Hsup2. unfold supply_of at 1. simpl. fold (supply_of s1 d). rewrite Hsup1. reflexivity. }
    split.
    + apply supreg_frame with s; [intros d; rewrite Hm2, Hm1; auto| |assumption].
      intros d Hd. rewrite Hm2, Hm1. rewrite HS in Hd.
      destruct (eqb d denom) eqn:E1; [apply eqb_eq in E1; subst d; apply has_true; eauto|]. unfold ind in Hd. lia.
    + apply cap_frame with s; [congruence| |assumption].
      intros d. rewrite HS. pose proof (ind_nonneg (eqb d denom) amt ltac:(lia)). lia.
  - (* Transfer *)
    apply do_transfer_inv in H. destruct H as (t & _ & Ht & Ho & ->). split.
    + exact R.
    + intros sym0 t0. simpl. rewrite get_set. destruct (eqb sym0 sym) eqn:E.
      * intros H0. inversion H0; subst t0. simpl. apply (C sym t Ht).
      * apply C.
  - (* Deploy *)
    unfold do_deploy in H. inv_if H. cbv zeta in H.
    destruct (has minu (minunits s)) eqn:Eh.
    + destruct (token_by_minunit s minu) as [t|] eqn:Et; cbn [bind] in H; [|discriminate].
      inv_if H. inv_if H. inv_if H. inv_if H. inversion H.
      destruct (token_by_minunit_spec s minu t I Et) as (sym0 & Hm & Hts & Hsy & Hmu).
      set (t' := mkToken (t_symbol t) (t_minunit t) (t_scale t) (t_initial t) (t_max t) (t_mintable t) (t_owner t) (next_contract s) (t_name t)).
      destruct (upsert_fields s t') as (Hut & Hum & _ & Hus & _).
      assert (HM : minunits (upsert_token s t') = minunits s).
      { rewrite Hum. simpl. rewrite Hmu, Hsy. apply set_same_id. assumption. }
      split.
      * intros d. unfold supply_of. simpl. rewrite Hus, HM. apply R.
      * intros sym1 t1. unfold supply_of. simpl. rewrite Hus, Hut. simpl. rewrite get_set.
        destruct (eqb sym1 (t_symbol t)) eqn:Eq1.
        -- intros H0. inversion H0; subst t1. simpl. rewrite <- Hsy in Hts. apply (C _ _ Hts).
        -- apply C.
    + destruct (has sym (tokens s)) eqn:Es; cbn [bind] in H; [discriminate|].
      inv_if H. inv_if H. inv_if H. inv_if H. inversion H.
      set (t' := mkToken sym minu scale 0 0 true MODULE (next_contract s) nm).
      destruct (upsert_fields s t') as (Hut & Hum & _ & Hus & _).
      apply has_false in Eh. apply has_false in Es.
      assert (Hmin0 : supply_of s minu = 0).
      { destruct (Z.eq_dec (supply_of s minu) 0) as [Ez|Ez]; [assumption|]. apply R in Ez. apply has_true in Ez. destruct Ez. congruence. }
      split.
      * intros d. unfold supply_of. simpl. rewrite Hus, Hum. simpl. rewrite has_set. intros Hd.
        apply R in Hd. rewrite Hd. apply Bool.orb_true_r.
      * intros sym1 t1. unfold supply_of. simpl. rewrite Hus, Hut. simpl. rewrite get_set.
        destruct (eqb sym1 sym) eqn:Eq1.
        -- intros H0. inversion H0; subst t1. simpl. fold (supply_of s minu). rewrite Hmin0. lia.
        -- apply C.
  - (* ToErc20 *)
    unfold do_to_erc20 in H. inv_if H. destruct (token_by_minunit s denom) as [t|] eqn:Et; [|discriminate].
    inv_if H. inv_bind H. inv_bind H. inv_if H. inversion H.
    destruct (token_by_minunit_spec s denom t I Et) as (sy & Hmu & _).
    pose proof (bank_send_sup _ _ _ _ _ _ E1) as Hsup1.
    pose proof (bank_burn_sup _ _ _ _ E2) as Hsup2.
    pose proof (bank_burn_inv _ _ _ _ E2) as [Hx _].
    apply bank_send_only, bank_only_fields in E1. destruct E1 as (Ht1 & Hm1 & _).
    apply bank_burn_only, bank_only_fields in E2. destruct E2 as (Ht2 & Hm2 & _).
    assert (HS : forall d, supply_of (upd_erc20 x0 (set (t_contract t, receiver) (erc20_bal x0 (t_contract t) receiver + amt) (erc20 x0))) d
                           = supply_of s d - ind (eqb d denom) amt).
    { intros d. unfold supply_of at 1. simpl. fold (supply_of x0 d). rewrite Hsup2, Hsup1. reflexivity. }
    split.
    + apply supreg_frame with s; [intros d; simpl; rewrite Hm2, Hm1; auto| |assumption].
      intros d Hd. simpl. rewrite Hm2, Hm1. rewrite HS in Hd.
      destruct (eqb d denom) eqn:E5; [apply eqb_eq in E5; subst d; apply has_true; eauto|]. unfold ind in Hd. lia.
    + apply cap_frame with s; [simpl; congruence| |assumption].
      intros d. rewrite HS. pose proof (ind_nonneg (eqb d denom) amt ltac:(lia)). lia.
  - (* SetParams *)
    unfold do_set_params in H. inv_if H. inv_if H. inversion H. split; assumption.
  - (* EvmMode *)
    inversion H. split; assumption.
  - (* UpgradeErc20 *)
    apply do_upgrade_inv in H. subst s'. split; assumption.
Qed.

Record CapInv (s : state) : Prop := { cap_id : IdInv s; cap_reg : SupReg s; cap_ok : CapOK s }.

Lemma step_CapInv s m : cap_checked m = true -> CapInv s -> CapInv (step s m).
Proof.
  intros Hc [I R C]. destruct (step_cases s m) as [(s' & E & ->)|[_ ->]]; [|constructor; assumption].
  pose proof (step_IdInv s m I) as I'. unfold step in I'. rewrite E in I'.
  apply exec_inv in E. destruct E as [V E].
  destruct (handle_cap s m s' I R C Hc V E). constructor; assumption.
Qed.

Lemma run_CapInv ms : forall s, forallb cap_checked ms = true -> CapInv s -> CapInv (run s ms).
Proof.
  induction ms as [|m ms IH]; intros s Hc Inv; simpl; [assumption|].
  simpl in Hc. apply Bool.andb_true_iff in Hc. destruct Hc as [Hm Hms].
  apply IH; [assumption|apply step_CapInv; assumption].
Qed.

Lemma genesis_CapInv p balances stake_supply reg :
  stake_supply <= MAXU64 -> CapInv (genesis p balances stake_supply reg).
Proof.
  intros Hs. constructor.
  - constructor.
    + intros sym t. unfold genesis. simpl. destruct (eq_dec sym STAKE) as [->|]; [|discriminate].
      intros H. inversion H. split; reflexivity.
    + intros mu sym. unfold genesis. simpl. destruct (eq_dec mu STAKE) as [->|]; [|discriminate].
      intros H. inversion H. exists native_token. split; reflexivity.
  - intros d. unfold supply_of, genesis, getz, has. simpl.
    destruct (eq_dec d STAKE) as [->|]; [reflexivity|]. intros H. exfalso. apply H. reflexivity.
  - intros sym t. unfold genesis. simpl. destruct (eq_dec sym STAKE) as [->|]; [|discriminate].
    intros H. inversion H. unfold supply_of, getz. simpl. unfold pow10. simpl. unfold MAXU64 in Hs. lia.
Qed.

(** a successful edit never leaves the maximum below what circulates *)
Lemma edit_cap_not_below_circulation s owner sym nm max mintable s' :
  exec s (Edit owner sym nm max mintable) = ROk s' -> 0 < max ->
  exists t', get sym (tokens s') = Some t' /\ t_max t' = max
             /\ supply_of s' (t_minunit t') <= max * pow10 (t_scale t').
Proof.
  intros E Hmax. apply exec_inv in E. destruct E as [_ E]. simpl in E. apply do_edit_inv in E.
  destruct E as (t & Ht & Ho & Hm & ->). eexists. split; [simpl; apply get_set_same|].
  simpl. assert (Hlt : (0 <? max) = true) by (apply Z.ltb_lt; assumption). rewrite Hlt.
  split; [reflexivity|]. apply Hm. assumption.
Qed.

(** the conversions do bypass the cap: burn natively into ERC20, lower the maximum, convert back *)
Lemma cap_not_preserved_by_conversions :
  exists p ms, let s0 := genesis p [((0, STAKE), 1000000)] 1000000 [] in
    CapInv s0 /\ ~ CapOK (run s0 ms).
Proof.
  exists (mkParams 0 0 1 STAKE true true).
  exists [Issue 0 (0, 3) (6, 4) 1 0 0 10 true; Mint 0 (-2) (6, 4) 10; Deploy GOV 1 (0, 3) (6, 4) 0;
          ToErc20 0 0 (6, 4) 5; Edit 0 (0, 3) 0 5 0; FromErc20 0 0 (6, 4) 5].
  cbv zeta. split; [apply genesis_CapInv; unfold MAXU64; lia|].
  intros C. specialize (C (0, 3)). vm_compute in C. specialize (C _ eq_refl). apply C. reflexivity.
Qed.

(** ** burn tally *)
Definition burn_amount (s : state) (m : msg) (d : name) : Z :=
  match m with
  | Burn _ d' amt => if (step_code s m =? 0) && eqb d d' then amt else 0
  | _ => 0
  end.

Fixpoint burnt_in (s : state) (ms : list msg) (d : name) : Z :=
  match ms with [] => 0 | m :: r => burn_amount s m d + burnt_in (step s m) r d end.

Lemma burned_of_bank_only s s' d : bank_only s s' -> burned_of s' d = burned_of s d.
Proof. intros H. apply bank_only_fields in H. destruct H as (_ & _ & _ & _ & Hb & _). unfold burned_of. rewrite Hb. reflexivity. Qed.

Lemma step_burned s m d : IdInv s -> burned_of (step s m) d = burned_of s d + burn_amount s m d.
Proof.
  intros I. unfold burn_amount, step_code, step.
  destruct (exec s m) as [s'| |] eqn:E; try (destruct m; simpl; lia).
  apply exec_inv in E. destruct E as [_ E].
  destruct m; simpl in E; simpl; try rewrite Z.add_0_r.
  - apply do_issue_inv in E. destruct E as (fd & famt & s1 & s3 & _ & _ & Hf & _ & _ & Hmint & Hpay).
    pose proof (fee_handler_effect _ _ _ _ _ Hf) as (Hbo & _).
    rewrite (burned_of_bank_only _ _ d (bank_pay_only _ _ _ _ _ Hpay)), (burned_of_bank_only _ _ d (bank_mint_only _ _ _ _ Hmint)).
    unfold burned_of. match goal with |- context [upsert_token ?a ?b] => destruct (upsert_fields a b) as (_ & _ & _ & _ & Hub & _) end.
    rewrite Hub. apply (burned_of_bank_only _ _ d Hbo).
  - apply do_edit_inv in E. destruct E as (t & _ & _ & _ & ->). reflexivity.
  - apply do_mint_inv in E; [|assumption].
    destruct E as (sy & fd & famt & s1 & t & s2 & _ & _ & _ & _ & _ & _ & Hf & _ & _ & _ & Hmint & Hpay).
    pose proof (fee_handler_effect _ _ _ _ _ Hf) as (Hbo & _).
    rewrite (burned_of_bank_only _ _ d (bank_pay_only _ _ _ _ _ Hpay)), (burned_of_bank_only _ _ d (bank_mint_only _ _ _ _ Hmint)).
    apply (burned_of_bank_only _ _ d Hbo).
  - apply do_burn_inv in E. destruct E as (t & s1 & _ & Hs & Hb).
    rewrite (burned_of_bank_only _ _ d (bank_burn_only _ _ _ _ Hb)).
    pose proof (burned_of_bank_only _ _ denom (bank_send_only _ _ _ _ _ _ Hs)) as H1.
    pose proof (burned_of_bank_only _ _ d (bank_send_only _ _ _ _ _ _ Hs)) as H2.
    unfold burned_of at 1. simpl. rewrite getz_set.
    destruct (eqb d denom) eqn:Ed; [apply eqb_eq in Ed; subst d; lia|]. fold (burned_of s1 d). lia.
  - apply do_transfer_inv in E. destruct E as (t & _ & _ & _ & ->). reflexivity.
  - apply (burned_of_bank_only _ _ d (do_swapfee_only _ _ _ _ _ _ E)).
  - unfold do_deploy in E. inv_if E. cbv zeta in E.
    destruct (has minu (minunits s)).
    + destruct (token_by_minunit s minu) as [t|]; cbn [bind] in E; [|discriminate].
      inv_if E. inv_if E. inv_if E. inv_if E. inversion E. unfold burned_of. simpl.
      match goal with |- context [upsert_token ?a ?b] => destruct (upsert_fields a b) as (_ & _ & _ & _ & Hub & _) end.
      rewrite Hub. reflexivity.
    + destruct (has sym (tokens s)); cbn [bind] in E; [discriminate|].
      inv_if E. inv_if E. inv_if E. inv_if E. inversion E. unfold burned_of. simpl.
      match goal with |- context [upsert_token ?a ?b] => destruct (upsert_fields a b) as (_ & _ & _ & _ & Hub & _) end.
      rewrite Hub. reflexivity.
  - unfold do_to_erc20 in E. inv_if E. destruct (token_by_minunit s denom) as [t|]; [|discriminate].
    inv_if E. inv_bind E. inv_bind E. inv_if E. inversion E. unfold burned_of at 1. simpl. fold (burned_of x0 d).
    rewrite (burned_of_bank_only _ _ d (bank_burn_only _ _ _ _ E3)). apply (burned_of_bank_only _ _ d (bank_send_only _ _ _ _ _ _ E2)).
  - unfold do_from_erc20 in E. inv_if E. destruct (token_by_minunit s denom) as [t|]; [|discriminate].
    inv_if E. inv_if E. inv_if E. cbv zeta in E. inv_bind E.
    rewrite (burned_of_bank_only _ _ d (bank_pay_only _ _ _ _ _ E)), (burned_of_bank_only _ _ d (bank_mint_only _ _ _ _ E4)). reflexivity.
  - unfold do_set_params in E. inv_if E. inv_if E. inversion E. reflexivity.
  - inversion E. reflexivity.
  - apply do_hook_inv in E. destruct E as (sym0 & t & s2 & _ & _ & _ & _ & _ & _ & Hm & Hp).
    rewrite (burned_of_bank_only _ _ d (bank_pay_only _ _ _ _ _ Hp)), (burned_of_bank_only _ _ d (bank_mint_only _ _ _ _ Hm)). reflexivity.
  - apply do_upgrade_inv in E. subst s'. reflexivity.
  - apply do_hook_multi_frame in E. destruct E as (_ & _ & _ & Hb & _). unfold burned_of. rewrite Hb. reflexivity.
Qed.

Lemma run_burned ms : forall s d, IdInv s -> burned_of (run s ms) d = burned_of s d + burnt_in s ms d.
Proof.
  induction ms as [|m ms IH]; intros s d I; simpl; [lia|].
  rewrite IH by (apply step_IdInv; assumption). rewrite step_burned by assumption. lia.
Qed.

(** a successful burn takes exactly the amount from the sender and out of circulation *)
Lemma burn_exact s sender denom amt s' :
  exec s (Burn sender denom amt) = ROk s' -> sender <> MODULE ->
  burned_of s' denom = burned_of s denom + amt
  /\ supply_of s' denom = supply_of s denom - amt
  /\ balance s' sender denom = balance s sender denom - amt
  /\ (forall d, balance s' MODULE d = balance s MODULE d).
Proof.
  intros E Hne. apply exec_inv in E. destruct E as [_ E]. simpl in E.
  apply do_burn_inv in E. destruct E as (t & s1 & _ & Hs & Hb).
  pose proof (bank_send_sup _ _ _ _ _ _ Hs) as Hsup1. pose proof (bank_burn_sup _ _ _ _ Hb) as Hsup2.
  pose proof (bank_send_bal _ _ _ _ _ _ Hs) as Hbal1. pose proof (bank_burn_bal _ _ _ _ Hb) as Hbal2.
  pose proof (burned_of_bank_only _ _ denom (bank_send_only _ _ _ _ _ _ Hs)) as Hb1.
  pose proof (burned_of_bank_only _ _ denom (bank_burn_only _ _ _ _ Hb)) as Hb2.
  assert (Hsm : eqb (sender, denom) (MODULE, denom) = false) by (apply eqb_false_iff; intros Heq; inversion Heq; contradiction).
  repeat split.
  - rewrite Hb2. unfold burned_of at 1. simpl. rewrite getz_set_same. lia.
  - rewrite Hsup2. unfold supply_of at 1. simpl. fold (supply_of s1 denom). rewrite Hsup1, eqb_refl. reflexivity.
  - rewrite Hbal2. unfold balance at 1. simpl. fold (balance s1 sender denom). rewrite Hbal1, Hsm, eqb_refl. unfold ind. lia.
  - intros d. rewrite Hbal2. unfold balance at 1. simpl. fold (balance s1 MODULE d). rewrite Hbal1.
    assert (Hms : eqb (MODULE, d) (sender, denom) = false) by (apply eqb_false_iff; intros Heq; inversion Heq; congruence).
    rewrite Hms. unfold ind. destruct (eqb (MODULE, d) (MODULE, denom)); lia.
Qed.

(** ** fee split *)
Lemma issue_fee_split s owner sym minu nm scale initial max mintable s' :
  exec s (Issue owner sym minu nm scale initial max mintable) = ROk s' -> owner <> MODULE ->
  exists fd famt, issue_fee s sym = ROk (fd, famt) /\
    let tax := tax_of s famt in
    0 <= tax <= famt
    /\ (forall d, balance s' MODULE d = balance s MODULE d)
    /\ (fd <> minu ->
        balance s' owner fd = balance s owner fd - famt
        /\ balance s' FEECOL fd = balance s FEECOL fd + tax
        /\ supply_of s' fd = supply_of s fd - (famt - tax)).
Proof.
  intros E Hne. apply exec_inv in E. destruct E as [_ E]. simpl in E.
  apply do_issue_inv in E. destruct E as (fd & famt & s1 & s3 & Hblk & Hfee & Hf & _ & _ & Hmint & Hpay).
  exists fd, famt. split; [assumption|]. cbv zeta.
  pose proof (fee_handler_effect _ _ _ _ _ Hf) as (_ & Htax & _ & Hsup1 & Hbal1).
  pose proof (bank_mint_sup _ _ _ _ Hmint) as Hsup3. pose proof (bank_pay_sup _ _ _ _ _ Hpay) as Hsup'.
  pose proof (bank_mint_bal _ _ _ _ Hmint) as Hbal3. pose proof (bank_pay_bal _ _ _ _ _ Hpay) as Hbal'.
  match goal with _ : bank_mint (upsert_token ?a ?b) _ _ = _ |- _ => destruct (upsert_fields a b) as (_ & _ & Hubk & Hus & _); set (s2 := upsert_token a b) in * end.
  assert (HB2 : forall a d, balance s2 a d = balance s1 a d) by (intros; unfold balance; rewrite Hubk; reflexivity).
  assert (HS2 : forall d, supply_of s2 d = supply_of s1 d) by (intros; unfold supply_of; rewrite Hus; reflexivity).
  assert (Hom : forall d d' : name, eqb (owner, d) (MODULE, d') = false) by (intros; apply eqb_false_iff; intros Heq; inversion Heq; contradiction).
  assert (Hmo : forall d d' : name, eqb (MODULE, d) (owner, d') = false) by (intros; apply eqb_false_iff; intros Heq; inversion Heq; congruence).
  assert (Hof : owner <> FEECOL) by (intros ->; discriminate Hblk).
  assert (Hmf : forall d d' : name, eqb (MODULE, d) (FEECOL, d') = false) by (intros; apply eqb_false_iff; intros Heq; inversion Heq).
  split; [assumption|]. split.
  - intros d. rewrite Hbal', Hbal3, HB2, Hbal1, Hmo, Hmo, Hmf. unfold ind. destruct (eqb (MODULE, d) (MODULE, minu)); lia.
  - intros Hfm.
    assert (Hx : forall a, eqb (a, fd) (MODULE, minu) = false) by (intros; apply eqb_false_iff; intros Heq; inversion Heq; contradiction).
    assert (Hy : forall a, eqb (a, fd) (owner, minu) = false) by (intros; apply eqb_false_iff; intros Heq; inversion Heq; contradiction).
    repeat split.
    + rewrite Hbal', Hbal3, HB2, Hbal1, Hx, Hy, eqb_refl.
      assert (Hz : eqb (owner, fd) (FEECOL, fd) = false) by (apply eqb_false_iff; intros Heq; inversion Heq; contradiction).
      rewrite Hz. unfold ind. lia.
    + rewrite Hbal', Hbal3, HB2, Hbal1, Hx, Hy, eqb_refl.
      assert (Hz : eqb (FEECOL, fd) (owner, fd) = false) by (apply eqb_false_iff; intros Heq; inversion Heq; congruence).
      rewrite Hz. unfold ind. lia.
    + rewrite Hsup', Hsup3, HS2, Hsup1, eqb_refl.
      assert (Hz : eqb fd minu = false) by (apply eqb_false_iff; assumption). rewrite Hz. unfold ind. lia.
Qed.

Lemma mint_fee_split s owner receiver denom amt s' : IdInv s ->
  exec s (Mint owner receiver denom amt) = ROk s' -> owner <> MODULE -> owner <> FEECOL ->
  let recipient := if receiver =? -2 then owner else receiver in
  recipient <> MODULE ->
  exists sym fd famt, get denom (minunits s) = Some sym /\ mint_fee s sym = ROk (fd, famt) /\
    let tax := tax_of s famt in
    0 <= tax <= famt
    /\ (forall d, balance s' MODULE d = balance s MODULE d)
    /\ (fd <> denom ->
        balance s' owner fd = balance s owner fd - famt
        /\ balance s' FEECOL fd = balance s FEECOL fd + tax
        /\ supply_of s' fd = supply_of s fd - (famt - tax)).
Proof.
  intros I E Hne Hof. cbv zeta. intros Hrm. apply exec_inv in E. destruct E as [_ E]. simpl in E.
  apply do_mint_inv in E; [|assumption].
  destruct E as (sym & fd & famt & s1 & t & s2 & Hblk & Hmu & _ & _ & _ & Hfee & Hf & _ & _ & _ & Hmint & Hpay).
  cbv zeta in Hblk, Hpay. set (recipient := if receiver =? -2 then owner else receiver) in *.
  exists sym, fd, famt. split; [assumption|]. split; [assumption|].
  pose proof (fee_handler_effect _ _ _ _ _ Hf) as (_ & Htax & _ & Hsup1 & Hbal1).
  pose proof (bank_mint_sup _ _ _ _ Hmint) as Hsup2. pose proof (bank_pay_sup _ _ _ _ _ Hpay) as Hsup'.
  pose proof (bank_mint_bal _ _ _ _ Hmint) as Hbal2. pose proof (bank_pay_bal _ _ _ _ _ Hpay) as Hbal'.
  assert (Hmo : forall d d' : name, eqb (MODULE, d) (owner, d') = false) by (intros; apply eqb_false_iff; intros Heq; inversion Heq; congruence).
  assert (Hmr : forall d d' : name, eqb (MODULE, d) (recipient, d') = false) by (intros; apply eqb_false_iff; intros Heq; inversion Heq; congruence).
  assert (Hmf : forall d d' : name, eqb (MODULE, d) (FEECOL, d') = false) by (intros; apply eqb_false_iff; intros Heq; inversion Heq).
  split; [assumption|]. split.
  - intros d. rewrite Hbal', Hbal2, Hbal1, Hmo, Hmr, Hmf. unfold ind. destruct (eqb (MODULE, d) (MODULE, denom)); lia.
  - intros Hfm.
    assert (Hx : forall a, eqb (a, fd) (MODULE, denom) = false) by (intros; apply eqb_false_iff; intros Heq; inversion Heq; contradiction).
    assert (Hy : forall a, eqb (a, fd) (recipient, denom) = false) by (intros; apply eqb_false_iff; intros Heq; inversion Heq; contradiction).
    repeat split.
    + rewrite Hbal', Hbal2, Hbal1, Hx, Hy, eqb_refl.
      assert (Hz : eqb (owner, fd) (FEECOL, fd) = false) by (apply eqb_false_iff; intros Heq; inversion Heq; contradiction).
      rewrite Hz. unfold ind. lia.
    + rewrite Hbal', Hbal2, Hbal1, Hx, Hy, eqb_refl.
      assert (Hz : eqb (FEECOL, fd) (owner, fd) = false) by (apply eqb_false_iff; intros Heq; inversion Heq; congruence).
      rewrite Hz. unfold ind. lia.
    + rewrite Hsup', Hsup2, Hsup1, eqb_refl.
      assert (Hz : eqb fd denom = false) by (apply eqb_false_iff; assumption). rewrite Hz. unfold ind. lia.
Qed.

(** ** ERC20 contract ids are handed out once: no two tokens share a contract, and the contract
    index points to the token that carries the contract *)
Record CtrInv (s : state) : Prop := {
  ctr_pos : 0 < next_contract s;
  ctr_lt : forall sym t, get sym (tokens s) = Some t -> t_contract t < next_contract s;
  ctr_inj : forall sym1 sym2 t1 t2, get sym1 (tokens s) = Some t1 -> get sym2 (tokens s) = Some t2 ->
    t_contract t1 = t_contract t2 -> t_contract t1 <> 0 -> sym1 = sym2;
  ctr_idx : forall c sym, get c (contracts s) = Some sym ->
    c <> 0 /\ exists t, get sym (tokens s) = Some t /\ t_contract t = c }.

Lemma ctr_update s s' sym t' : CtrInv s -> tokens s' = set sym t' (tokens s) ->
  (((exists t, get sym (tokens s) = Some t /\ t_contract t' = t_contract t) \/ (get sym (tokens s) = None /\ t_contract t' = 0))
   /\ next_contract s' = next_contract s /\ contracts s' = contracts s)
  \/ ((get sym (tokens s) = None \/ exists t, get sym (tokens s) = Some t /\ t_contract t = 0)
      /\ t_contract t' = next_contract s /\ next_contract s' = next_contract s + 1
      /\ contracts s' = set (next_contract s) sym (contracts s)) ->
  CtrInv s'.
Proof.
  intros [P L J X] Ht Hc. constructor.
  - destruct Hc as [(_ & Hn & _)|(_ & _ & Hn & _)]; rewrite Hn; lia.
  - intros sym0 t0. rewrite Ht, get_set. destruct (eqb sym0 sym) eqn:E.
    + intros H0. inversion H0; subst t0.
      destruct Hc as [([(t & Hg & Hc)|[_ Hz]] & Hn & _)|(_ & Hc & Hn & _)]; rewrite Hn.
      * rewrite Hc. apply (L sym t Hg).
      * lia.
      * lia.
    + intros H0. specialize (L _ _ H0). destruct Hc as [(_ & Hn & _)|(_ & _ & Hn & _)]; rewrite Hn; lia.
  - intros sym1 sym2 t1 t2. rewrite Ht, !get_set.
    destruct (eqb sym1 sym) eqn:E1; destruct (eqb sym2 sym) eqn:E2.
    + apply eqb_eq in E1. apply eqb_eq in E2. congruence.
    + intros H1 H2 Heq Hnz. inversion H1; subst t1. exfalso.
      destruct Hc as [([(t & Hg & Hc)|[_ Hz]] & Hn & _)|(_ & Hc & Hn & _)].
      * apply eqb_neq in E2. apply E2. symmetry. apply (J sym sym2 t t2 Hg H2); congruence.
      * congruence.
      * specialize (L _ _ H2). lia.
    + intros H1 H2 Heq Hnz. inversion H2; subst t2. exfalso.
      destruct Hc as [([(t & Hg & Hc)|[_ Hz]] & Hn & _)|(_ & Hc & Hn & _)].
      * apply eqb_neq in E1. apply E1. apply (J sym1 sym t1 t H1 Hg); congruence.
      * congruence.
      * specialize (L _ _ H1). lia.
    + apply J.
  - intros c0 sym0. rewrite Ht.
    destruct Hc as [(Hold & _ & Hcs)|(Hold & Hc & _ & Hcs)]; rewrite Hcs.
    + intros H0. destruct (X _ _ H0) as (Hnz & t0 & Hg0 & Hc0). split; [assumption|].
      rewrite get_set. destruct (eqb sym0 sym) eqn:E.
      * apply eqb_eq in E. subst sym0. exists t'. split; [reflexivity|].
        destruct Hold as [(t & Hg & Hc)|[Hnone _]]; congruence.
      * exists t0. split; assumption.
    + rewrite get_set. destruct (eqb c0 (next_contract s)) eqn:Ec.
      * apply eqb_eq in Ec. subst c0. intros H0. inversion H0; subst sym0. split; [lia|].
        exists t'. split; [apply get_set_same|assumption].
      * intros H0. destruct (X _ _ H0) as (Hnz & t0 & Hg0 & Hc0). split; [assumption|].
        rewrite get_set. destruct (eqb sym0 sym) eqn:E.
        -- apply eqb_eq in E. subst sym0. exfalso.
           destruct Hold as [Hnone|(t & Hg & Hz)]; congruence.
        -- exists t0. split; assumption.
Qed.

Lemma tok_step_CtrInv m s s' : CtrInv s -> tok_step m s s' -> CtrInv s'.
Proof.
  intros C [Ht Hm Hn | sym t t' Hg Ht Hm _ _ Hc | t Hs Hmn Ht Hm Hc _].
  - injection Hn as Hn1 Hn2. destruct C as [P L J X]. constructor; rewrite ?Ht, ?Hn1, ?Hn2; assumption.
  - apply (ctr_update s s' sym t' C Ht). destruct Hc as [[Hc Hn]|(Hz & Hc & Hn & Hcs)].
    + injection Hn as Hn1 Hn2. left. split; [left; exists t; split; assumption|split; assumption].
    + right. split; [right; exists t; split; assumption|]. split; [assumption|]. split; [assumption|].
      rewrite Hcs. pose proof (ctr_pos s C). destruct (next_contract s =? 0) eqn:E0; [apply Z.eqb_eq in E0; lia|reflexivity].
  - apply (ctr_update s s' (t_symbol t) t C Ht). destruct Hc as [[Hc Hn]|(Hz & Hc & Hn & Hcs)].
    + injection Hn as Hn1 Hn2. left. split; [right; split; assumption|split; assumption].
    + right. split; [left; assumption|]. split; [assumption|]. split; [assumption|].
      rewrite Hcs. pose proof (ctr_pos s C). destruct (next_contract s =? 0) eqn:E0; [apply Z.eqb_eq in E0; lia|reflexivity].
Qed.

Lemma step_CtrInv s m : IdInv s -> CtrInv s -> CtrInv (step s m).
Proof.
  intros I C. destruct (step_cases s m) as [(s' & E & ->)|[_ ->]]; [|assumption].
  apply exec_inv in E. destruct E as [_ E]. eapply tok_step_CtrInv; [eassumption|]. eapply handle_tok_step; eassumption.
Qed.

(** ** strangers cannot govern: over a history in which the token's owner signs no edit and no
    transfer, the governed fields (maximum, mintable flag, owner, name) stay as they are *)
Definition signs (a : acct) (m : msg) : Prop :=
  match m with
  | Edit owner _ _ _ _ => owner = a
  | Transfer src _ _ => src = a
  | _ => False
  end.

Lemma same_gov_trans a b c : same_gov a b -> same_gov b c -> same_gov a c.
Proof. unfold same_gov. intuition congruence. Qed.

Lemma authorised_signs m t : authorised m t -> signs (t_owner t) m.
Proof. destruct m; simpl; tauto. Qed.

Lemma run_strangers ms : forall s sym t, IdInv s -> get sym (tokens s) = Some t ->
  Forall (fun m => ~ signs (t_owner t) m) ms ->
  exists t', get sym (tokens (run s ms)) = Some t' /\ same_identity t t' /\ same_gov t t'.
Proof.
  induction ms as [|m ms IH]; intros s sym t I Hg Hf; simpl.
  - exists t. split; [assumption|]. split; repeat split.
  - inversion Hf as [|? ? Hm Hms]; subst.
    destruct (step_token s m sym t I Hg) as (t1 & Hg1 & Hid1 & Hgov1).
    assert (G1 : same_gov t t1).
    { destruct Hgov1 as [G|[A _]]; [assumption|]. exfalso. apply Hm. apply authorised_signs. assumption. }
    assert (Ho : t_owner t1 = t_owner t) by apply G1.
    rewrite <- Ho in Hms.
    destruct (IH (step s m) sym t1 (step_IdInv s m I) Hg1 Hms) as (t2 & Hg2 & Hid2 & G2).
    exists t2. split; [assumption|]. split; [eapply same_identity_trans|eapply same_gov_trans]; eassumption.
Qed.

(** ** the comparison made by EditToken at the pinned commit (before the [fix:]): the circulating
    amount was first rounded down to whole units *)
Definition edit_max_ok_v0 (max scale issued : Z) : bool := negb (max <? Z.quot issued (pow10 scale)).

Lemma edit_max_v0_accepts_below_circulation :
  exists max scale issued, 0 < max /\ 0 <= scale <= 18 /\
    edit_max_ok_v0 max scale issued = true /\ max * pow10 scale < issued.
Proof. exists 10, 6, 10500000. repeat split; try lia; vm_compute; reflexivity. Qed.

Lemma edit_max_ok_sound max scale issued : edit_max_ok max scale issued = true <-> issued <= max * pow10 scale.
Proof. unfold edit_max_ok. rewrite Bool.negb_true_iff, Z.ltb_ge. reflexivity. Qed.

(** outcome codes along a history (for the examples) *)
Fixpoint codes (s : state) (ms : list msg) : list Z :=
  match ms with [] => [] | m :: r => step_code s m :: codes (step s m) r end.
