(** * Token: correspondence check and the C09 / C10 trace predicates, evaluated by [vm_compute]
    on the cases the harness writes.  Depends on [Token/Model.v] only. *)
From Irismod Require Export Token.Model.

(** what the implementation showed after a step (and once at genesis) *)
Record obs := mkObs {
  o_code : Z;                               (* 0 ok, 1 rejected, 2 abort *)
  o_tokens : list token;                    (* Tokens query (all) *)
  o_minunits : list (name * name);          (* raw index 0x02: min unit -> symbol *)
  o_owned : list (acct * name);             (* raw index 0x03: (owner, symbol) *)
  o_contracts : list (Z * name);            (* raw index 0x06: contract -> symbol *)
  o_burned : list (name * Z);               (* TotalBurn query *)
  o_supply : list (name * Z);               (* bank supply of every denom of the universe (non-zero ones) *)
  o_bal : list ((acct * name) * Z);         (* bank balance of every account x denom of the universe (non-zero ones) *)
  o_erc20 : list ((Z * acct) * Z);          (* ERC20 double: every contract x holder (non-zero ones) *)
  o_params : params                         (* Params query *)
}.

Record case := mkCase {
  c_params : params;
  c_balances : list ((acct * name) * Z);
  c_stake_supply : Z;
  c_registry : list (name * (name * Z));
  c_obs0 : obs;                             (* observation at genesis *)
  c_steps : list (msg * obs)
}.

(** monomorphic constructors for the case files (no implicit arguments: they elaborate ten times
    faster than nested polymorphic pairs) *)
Definition N (i l : Z) : name := (i, l).
Definition BE (a i l x : Z) : (acct * name) * Z := ((a, (i, l)), x).
Definition SE (i l x : Z) : name * Z := ((i, l), x).
Definition ME (i l i' l' : Z) : name * name := ((i, l), (i', l')).
Definition OE (a i l : Z) : acct * name := (a, (i, l)).
Definition CE (c i l : Z) : Z * name := (c, (i, l)).
Definition EE (c h x : Z) : (Z * acct) * Z := ((c, h), x).
Definition RE (i l i' l' r : Z) : name * (name * Z) := ((i, l), ((i', l'), r)).
Definition ST (m : msg) (o : obs) : msg * obs := (m, o).

#[export] Instance EqDec_token : EqDec token.
Proof. intros x y. decide equality; try apply eq_dec. Defined.
#[export] Instance EqDec_params : EqDec params.
Proof. intros x y. decide equality; try apply eq_dec. Defined.

(** ** correspondence: every listed observation equals the model's, and the model has no more
    tokens / index entries / tallies than were listed *)
Definition len {A} (l : list A) : Z := Z.of_nat (length l).

Definition nonzero {K} (m : list (K * Z)) : Z := len (filter (fun kv => negb (snd kv =? 0)) m).

Definition corr_obs (s : state) (code : Z) (o : obs) : bool :=
  (o_code o =? code)
  && forallb (fun t => eqb (get (t_symbol t) (tokens s)) (Some t)) (o_tokens o)
  && (len (o_tokens o) =? len (tokens s))
  && forallb (fun '(mu, sym) => eqb (get mu (minunits s)) (Some sym)) (o_minunits o)
  && (len (o_minunits o) =? len (minunits s))
  && forallb (fun p => existsb (eqb p) (owned s)) (o_owned o)
  && (len (o_owned o) =? len (owned s))
  && forallb (fun '(c, sym) => eqb (get c (contracts s)) (Some sym)) (o_contracts o)
  && (len (o_contracts o) =? len (contracts s))
  && forallb (fun '(d, x) => eqb (get d (burned s)) (Some x)) (o_burned o)
  && (len (o_burned o) =? len (burned s))
  && forallb (fun '(d, x) => supply_of s d =? x) (o_supply o)
  && (len (o_supply o) =? nonzero (supply s))
  && forallb (fun '((a, d), x) => balance s a d =? x) (o_bal o)
  && (len (o_bal o) =? nonzero (bank s))
  && forallb (fun '((c, h), x) => erc20_bal s c h =? x) (o_erc20 o)
  && (len (o_erc20 o) =? nonzero (erc20 s))
  && eqb (o_params o) (pars s).

(** ** reading the implementation's observations *)
Definition otoken (o : obs) (sym : name) : option token :=
  find (fun t => eqb (t_symbol t) sym) (o_tokens o).
Definition otoken_mu (o : obs) (mu : name) : option token :=
  match get mu (o_minunits o) with Some sym => otoken o sym | None => None end.
Definition oget_token (o : obs) (d : name) : option token :=
  match otoken o d with Some t => Some t | None => otoken_mu o d end.
Definition osupply (o : obs) (d : name) : Z := getz d (o_supply o).
Definition obal (o : obs) (a : acct) (d : name) : Z := getz (a, d) (o_bal o).
Definition oburned (o : obs) (d : name) : Z := getz d (o_burned o).
Definition oerc20 (o : obs) (c : Z) (h : acct) : Z := getz (c, h) (o_erc20 o).
Definition oerc20_total (o : obs) (c : Z) : Z :=
  zsum (map (fun '((c', _), x) => if c' =? c then x else 0) (o_erc20 o)).

Fixpoint nodupb {A} `{EqDec A} (l : list A) : bool :=
  match l with [] => true | x :: l' => negb (existsb (eqb x) l') && nodupb l' end.

(** first failing clause: 0 = none *)
Fixpoint first_code (l : list (bool * Z)) : Z :=
  match l with [] => 0 | (b, c) :: l' => if b then first_code l' else c end.

(** ** C09 on the implementation's own observations ([p] before the step, [o] after it) *)

(** 1: circulating supply within the cap, for every token *)
Definition c09_cap (o : obs) : bool :=
  forallb (fun t => osupply o (t_minunit t) <=? t_max t * pow10 (t_scale t)) (o_tokens o).

(** 2: symbols and min units identify one token each, and a binding once made stays *)
Definition c09_identity (p o : obs) : bool :=
  nodupb (map t_symbol (o_tokens o)) && nodupb (map t_minunit (o_tokens o))
  && forallb (fun t => eqb (get (t_minunit t) (o_minunits o)) (Some (t_symbol t))) (o_tokens o)
  && forallb (fun t => match otoken o (t_symbol t) with
                       | Some t' => eqb (t_minunit t') (t_minunit t) && (t_scale t' =? t_scale t)
                       | None => false end) (o_tokens p)
  && forallb (fun '(mu, sym) => eqb (get mu (o_minunits o)) (Some sym)) (o_minunits p).

(** 3: only the owner governs: a token record changes only through a successful message signed
    by its owner before the step; the supply of a token's min unit grows only by the owner's mint *)
Definition signer_of (m : msg) : option (acct * name * bool) :=   (* signer, target, target is a min unit *)
  match m with
  | Edit owner sym _ _ _ => Some (owner, sym, false)
  | Transfer src _ sym => Some (src, sym, false)
  | Mint owner _ denom _ => Some (owner, denom, true)
  | _ => None
  end.

Definition c09_authority (p o : obs) (m : msg) : bool :=
  forallb (fun t =>
    match otoken o (t_symbol t) with
    | None => false
    | Some t' =>
        (eqb t t'
         || match m with
            | Edit owner sym _ _ _ => (o_code o =? 0) && (owner =? t_owner t) && eqb sym (t_symbol t) && (t_owner t' =? t_owner t)
            | Transfer src dst sym => (o_code o =? 0) && (src =? t_owner t) && eqb sym (t_symbol t) && (t_owner t' =? dst)
                                      && (t_max t' =? t_max t) && Bool.eqb (t_mintable t') (t_mintable t)
            | _ => false
            end)
        && ((osupply o (t_minunit t) <=? osupply p (t_minunit t))
            || match m with
               | Mint owner _ denom _ => (o_code o =? 0) && (owner =? t_owner t) && eqb denom (t_minunit t)
               | _ => false
               end)
    end) (o_tokens p).

(** 4: a non-mintable token is never minted *)
Definition c09_mintable (p o : obs) (m : msg) : bool :=
  match m with
  | Mint _ _ denom _ =>
      match otoken_mu p denom with
      | Some t => t_mintable t || negb (o_code o =? 0)
      | None => negb (o_code o =? 0)
      end
  | _ => true
  end.

(** 5: burned amounts tallied exactly (and taken out of circulation exactly) *)
Definition c09_tally (p o : obs) (m : msg) : bool :=
  let delta d := match m with Burn _ d' amt => if eqb d d' && (o_code o =? 0) then amt else 0 | _ => 0 end in
  let ok d := (oburned o d =? oburned p d + delta d) && ((delta d =? 0) || (osupply o d =? osupply p d - delta d)) in
  forallb (fun '(d, _) => ok d) (o_burned o) && forallb (fun '(d, _) => ok d) (o_burned p)
  && match m with Burn _ d _ => ok d | _ => true end.

(** 6: the issue / mint fee: what the owner paid is split between the fee collector
    ([floor (paid * tax)]) and burning, and the module account keeps nothing *)
Definition fee_payer (m : msg) : option (acct * name * acct) :=   (* payer, denom created, who receives it *)
  match m with
  | Issue owner _ minu _ _ _ _ _ => Some (owner, minu, owner)
  | Mint owner receiver denom _ => Some (owner, denom, if receiver =? -2 then owner else receiver)
  | _ => None
  end.

Definition c09_fee (p o : obs) (m : msg) : bool :=
  match fee_payer m with
  | Some (payer, d, recv) =>
      if negb (o_code o =? 0) then true
      else
        match oget_token p (p_fee_denom (o_params p)) with
        | None => false
        | Some ft =>
            let fd := t_minunit ft in
            if eqb fd d || (recv =? MODULE) || (recv =? FEECOL) then true
            else
              let paid := obal p payer fd - obal o payer fd in
              let tax := obal o FEECOL fd - obal p FEECOL fd in
              let burnt := osupply p fd - osupply o fd in
              (0 <=? paid) && (paid =? tax + burnt)
              && (tax =? dec_truncate_int (dec_mul (dec_of_int paid) (p_tax (o_params p))))
              && forallb (fun '((a, d'), x) => negb (a =? MODULE) || (x =? obal p MODULE d')) (o_bal o)
              && forallb (fun '((a, d'), x) => negb (a =? MODULE) || (x =? obal o MODULE d')) (o_bal p)
        end
  | None => true
  end.

(** a failed message changes nothing *)
Definition same_state (p o : obs) : bool :=
  eqb (o_tokens p) (o_tokens o) && eqb (o_minunits p) (o_minunits o) && eqb (o_owned p) (o_owned o)
  && eqb (o_contracts p) (o_contracts o) && eqb (o_burned p) (o_burned o) && eqb (o_supply p) (o_supply o)
  && eqb (o_bal p) (o_bal o) && eqb (o_erc20 p) (o_erc20 o) && eqb (o_params p) (o_params o).

Definition holds_C09 (p o : obs) (m : msg) : Z :=
  first_code [ (c09_cap o, 1); (c09_identity p o, 2); (c09_authority p o m, 3); (c09_mintable p o m, 4);
               (c09_tally p o m, 5); (c09_fee p o m, 6); ((o_code o =? 0) || same_state p o, 7) ].

(** ** C10 on the implementation's own observations *)
Definition others_unchanged_bal (p o : obs) (a : acct) (d : name) : bool :=
  forallb (fun '((a', d'), x) => (eqb (a', d') (a, d)) || (x =? obal p a' d')) (o_bal o)
  && forallb (fun '((a', d'), x) => (eqb (a', d') (a, d)) || (x =? obal o a' d')) (o_bal p).
Definition others_unchanged_supply (p o : obs) (d : name) : bool :=
  forallb (fun '(d', x) => eqb d' d || (x =? osupply p d')) (o_supply o)
  && forallb (fun '(d', x) => eqb d' d || (x =? osupply o d')) (o_supply p).
Definition others_unchanged_erc20 (p o : obs) (c : Z) (h : acct) : bool :=
  forallb (fun '((c', h'), x) => eqb (c', h') (c, h) || (x =? oerc20 p c' h')) (o_erc20 o)
  && forallb (fun '((c', h'), x) => eqb (c', h') (c, h) || (x =? oerc20 o c' h')) (o_erc20 p).

(** exactness of a fee-token swap result [(b, m)] for an offer [amt] *)
Definition swap_codes (amt ratio si so b m : Z) : list (bool * Z) :=
  [ ((0 <=? b) && (b <=? amt) && (0 <=? m), 4);
    (mint_le_worthb b m ratio si so, 5);
    (negb (ratio =? P18) || ((b * pow10 so =? m * pow10 si) && (amt - b <? pow10 (Z.max 0 (si - so)))), 6) ].

Definition holds_C10 (reg : list (name * (name * Z))) (p o : obs) (m : msg) : Z :=
  match m with
  | ToErc20 sender receiver denom amt =>
      if o_code o =? 0 then
        match otoken_mu p denom with
        | None => 1
        | Some t =>
            let c := t_contract t in
            first_code [ (negb (c =? 0), 1);
                         (osupply o denom =? osupply p denom - amt, 1);
                         (obal o sender denom =? obal p sender denom - amt, 1);
                         (oerc20 o c receiver =? oerc20 p c receiver + amt, 1);
                         (oerc20_total o c =? oerc20_total p c + amt, 1);
                         (others_unchanged_bal p o sender denom && others_unchanged_supply p o denom
                          && others_unchanged_erc20 p o c receiver, 1) ]
        end
      else if same_state p o then 0 else 3
  | FromErc20 sender receiver denom amt =>
      if o_code o =? 0 then
        match otoken_mu p denom with
        | None => 2
        | Some t =>
            let c := t_contract t in
            first_code [ (negb (c =? 0), 2);
                         (osupply o denom =? osupply p denom + amt, 2);
                         (obal o receiver denom =? obal p receiver denom + amt, 2);
                         (oerc20 o c sender =? oerc20 p c sender - amt, 2);
                         (0 <=? oerc20 o c sender, 2);
                         (oerc20_total o c =? oerc20_total p c - amt, 2);
                         (others_unchanged_bal p o receiver denom && others_unchanged_supply p o denom
                          && others_unchanged_erc20 p o c sender, 2) ]
        end
      else if same_state p o then 0 else 3
  | SwapFee sender receiver denom amt =>
      if o_code o =? 0 then
        match otoken_mu p denom with
        | None => 4
        | Some tb =>
            match get (t_minunit tb) reg with
            | None => 4
            | Some (target, ratio) =>
                (* the scale that counts is that of the token whose MIN UNIT is the minted denom (a token
                   whose SYMBOL happens to be that string is a different token) *)
                match otoken_mu p target with
                | None => 7
                | Some tm =>
                    if eqb target denom then 0
                    else
                      let b := osupply p denom - osupply o denom in
                      let mt := osupply o target - osupply p target in
                      let recv := if receiver =? -2 then sender else receiver in
                      first_code (swap_codes amt ratio (t_scale tb) (t_scale tm) b mt
                                  ++ [ (obal o sender denom =? obal p sender denom - b, 4);
                                       (obal o recv target =? obal p recv target + mt, 5) ])
                end
            end
        end
      else if same_state p o then 0 else 3
  | HookToNative c from to amt =>
      if o_code o =? 0 then
        match get c (o_contracts p) with
        | None => 2
        | Some sym =>
            match otoken p sym with
            | None => 2
            | Some t =>
                let denom := t_minunit t in
                first_code [ (t_contract t =? c, 2);
                             (osupply o denom =? osupply p denom + amt, 2);
                             (obal o to denom =? obal p to denom + amt, 2);
                             (oerc20 o c from =? oerc20 p c from - amt, 2);
                             (0 <=? oerc20 o c from, 2);
                             (oerc20_total o c =? oerc20_total p c - amt, 2);
                             (others_unchanged_bal p o to denom && others_unchanged_supply p o denom
                              && others_unchanged_erc20 p o c from, 2) ]
            end
        end
      else if same_state p o then 0 else 3
  | HookMulti _ =>
      (* several swap-to-native events in one EVM transaction: for every token bound to a contract,
         native supply + ERC20 total is what it was (every burned event was minted natively) *)
      if o_code o =? 0 then
        (if forallb (fun t => (t_contract t =? 0)
                              || (osupply o (t_minunit t) + oerc20_total o (t_contract t)
                                  =? osupply p (t_minunit t) + oerc20_total p (t_contract t))) (o_tokens p)
         then 0 else 2)
      else if same_state p o then 0 else 3
  | Deploy _ _ _ _ _ | UpgradeErc20 _ _ =>
      (* administrative messages move no value on either side *)
      if o_code o =? 0 then
        (if eqb (o_supply p) (o_supply o) && eqb (o_bal p) (o_bal o) && eqb (o_erc20 p) (o_erc20 o) then 0 else 8)
      else if same_state p o then 0 else 3
  | _ => if (o_code o =? 0) || same_state p o then 0 else 3
  end.

(** ** the loop *)
Fixpoint check_from (prop : obs -> obs -> msg -> Z) (s : state) (p : obs) (c : list (msg * obs)) (i : Z)
    (corr pidx pcode : Z) : Z * Z * Z :=
  match c with
  | [] => (corr, pidx, pcode)
  | (m, o) :: rest =>
      let s' := step s m in
      let corr' := if (corr <? 0) && negb (corr_obs s' (step_code s m) o) then i else corr in
      let code := prop p o m in
      let '(pidx', pcode') := if (pidx <? 0) && negb (code =? 0) then (i, code) else (pidx, pcode) in
      check_from prop s' o rest (i + 1) corr' pidx' pcode'
  end.

Definition check_with (prop : case -> obs -> obs -> msg -> Z) (c : case) : Z * Z * Z :=
  let s0 := genesis (c_params c) (c_balances c) (c_stake_supply c) (c_registry c) in
  let corr0 := if corr_obs s0 0 (c_obs0 c) then -1 else 0 in
  check_from (prop c) s0 (c_obs0 c) (c_steps c) 1 corr0 (-1) 0.

(** (index of the first diverging step (0 = genesis) or -1, index of the first step violating
    the property or -1, clause code) *)
Definition check_case_C09 : case -> Z * Z * Z := check_with (fun _ => holds_C09).
Definition check_case_C10 : case -> Z * Z * Z := check_with (fun c => holds_C10 (c_registry c)).

(** ** the pure-function stream: [LossLessSwap] called directly *)
Definition fncase := (Z * Z * Z * Z * (Z * Z))%type.   (* input, ratio, scale_in, scale_out, (burn, mint) shown *)

Definition check_lossless (c : fncase) : Z * Z * Z :=
  let '(input, ratio, si, so, (b, m)) := c in
  let corr := if eqb (lossless_swap input ratio si so) (b, m) then -1 else 0 in
  let code := first_code (swap_codes input ratio si so b m) in
  (corr, if code =? 0 then -1 else 0, code).
