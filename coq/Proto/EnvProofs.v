(** * The codec environment depends on the descriptors only through [norm] (property C20):
      two families that carry the same normalised descriptors drive the SAME encoder and decoder. *)
From Irismod Require Import Proto.Desc Proto.Wire Proto.WireEnv.
Open Scope N_scope.

(** decidable equality of codec environments (for the finite comparison of the imported messages) *)
Fixpoint value_eq_dec (a b : value) {struct a} : {a = b} + {a <> b}.
Proof.
  decide equality; try apply N.eq_dec; try (apply list_eq_dec; apply N.eq_dec).
  apply list_eq_dec. intros [n1 v1] [n2 v2].
  destruct (N.eq_dec n1 n2) as [En|En]; [|right; congruence].
  destruct (value_eq_dec v1 v2) as [Ev|Ev]; [left; congruence|right; congruence].
Defined.

#[export] Instance EqDec_value : EqDec value := value_eq_dec.
#[export] Instance EqDec_skind : EqDec skind.
Proof. intros x y. unfold EqDec in *. decide equality. Defined.
#[export] Instance EqDec_wkind : EqDec wkind.
Proof. intros x y. unfold EqDec in *. decide equality; apply eq_dec. Defined.
#[export] Instance EqDec_nnkind : EqDec nnkind.
Proof. intros x y. unfold EqDec in *. decide equality; apply eq_dec. Defined.
#[export] Instance EqDec_wfield : EqDec wfield.
Proof. intros x y. unfold EqDec in *. decide equality; apply eq_dec. Defined.
#[export] Instance EqDec_wmsg : EqDec wmsg.
Proof. intros x y. unfold EqDec in *. decide equality; apply eq_dec. Defined.

Lemma all_msgs_norm : forall fs, all_msgs (norm fs) = all_msgs fs.
Proof.
  induction fs as [|f r IH]; [reflexivity|].
  unfold all_msgs, norm in *. simpl. rewrite IH. reflexivity.
Qed.

Theorem same_descriptors_same_codec_lemma : forall (gogo : bool) (fs1 fs2 : list file),
  norm fs1 = norm fs2 -> wire_env gogo fs1 = wire_env gogo fs2.
Proof.
  intros gogo fs1 fs2 H. unfold wire_env.
  rewrite <- (all_msgs_norm fs1), <- (all_msgs_norm fs2), H. reflexivity.
Qed.

Lemma all_msgs_app : forall a b, all_msgs (a ++ b) = all_msgs a ++ all_msgs b.
Proof. intros. unfold all_msgs. apply flat_map_app. Qed.

Lemma wire_env_app : forall g a b, wire_env g (a ++ b) = wire_env g a ++ wire_env g b.
Proof. intros. unfold wire_env. rewrite all_msgs_app, map_app. reflexivity. Qed.
