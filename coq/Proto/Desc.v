(** * Protobuf descriptors as data (property C20, part (a)).

    The neutral data model into which the translator ([harness/cmd/proto descriptors]) prints
    what BOTH generated families register (gogoproto registry / protobuf-go global registry)
    and what the text of [proto/irismod/**/*.proto] says.  No proofs about the data here:
    only the types, their decidable equality, the projections that the theorems of
    [Props/C20.v] compare, and the signer-resolution rule of the SDK. *)
From Coq Require Export String Ascii NArith.
From Irismod Require Export Base.Prelude.

#[export] Instance EqDec_N : EqDec N := N.eq_dec.
#[export] Instance EqDec_string : EqDec string := string_dec.

(** one option in wire form: field number of the option (extension), wire type, payload in hex;
    options of one descriptor are sorted by number by the translator *)
Record opt := mkOpt { o_num : N; o_wt : N; o_hex : string }.

(** [f_kind] is [FieldDescriptorProto.Type] (1 double .. 18 sint64), [f_label] 1 optional,
    2 required, 3 repeated, [f_type] the full type name (".pkg.Msg") of message/enum fields *)
Record field := mkField {
  f_name : string; f_num : N; f_kind : N; f_label : N; f_type : string; f_json : string;
  f_p3opt : bool; f_oneof : option N; f_def : string; f_opts : list opt }.

Record enumval := mkEV { ev_name : string; ev_num : Z; ev_opts : list opt }.
Record enum := mkEnum { e_full : string; e_values : list enumval; e_opts : list opt }.

(** messages are flattened by the translator: nested messages (here only map entries) follow
    their parent, every message carries its full name *)
Record message := mkMsg {
  m_full : string; m_fields : list field; m_oneofs : list string; m_opts : list opt }.

Record method := mkMethod {
  md_name : string; md_in : string; md_out : string; md_cs : bool; md_ss : bool; md_opts : list opt }.
Record service := mkSvc { s_full : string; s_methods : list method; s_opts : list opt }.

Record file := mkFile {
  fl_name : string; fl_pkg : string; fl_syntax : string; fl_deps : list string;
  fl_msgs : list message; fl_enums : list enum; fl_services : list service;
  fl_opts : list opt }.

#[export] Instance EqDec_opt : EqDec opt.
Proof. intros x y. unfold EqDec in *. decide equality; apply eq_dec. Defined.
#[export] Instance EqDec_field : EqDec field.
Proof. intros x y. unfold EqDec in *. decide equality; apply eq_dec. Defined.
#[export] Instance EqDec_enumval : EqDec enumval.
Proof. intros x y. unfold EqDec in *. decide equality; apply eq_dec. Defined.
#[export] Instance EqDec_enum : EqDec enum.
Proof. intros x y. unfold EqDec in *. decide equality; apply eq_dec. Defined.
#[export] Instance EqDec_message : EqDec message.
Proof. intros x y. unfold EqDec in *. decide equality; apply eq_dec. Defined.
#[export] Instance EqDec_method : EqDec method.
Proof. intros x y. unfold EqDec in *. decide equality; apply eq_dec. Defined.
#[export] Instance EqDec_service : EqDec service.
Proof. intros x y. unfold EqDec in *. decide equality; apply eq_dec. Defined.
#[export] Instance EqDec_file : EqDec file.
Proof. intros x y. unfold EqDec in *. decide equality; apply eq_dec. Defined.

(** ** Normalisation: file-level (code generator) options are dropped, as the property allows;
    nothing else is. *)
Definition norm_file (f : file) : file :=
  mkFile (fl_name f) (fl_pkg f) (fl_syntax f) (fl_deps f) (fl_msgs f) (fl_enums f) (fl_services f) [].
Definition norm (fs : list file) : list file := map norm_file fs.

Definition mem_str (s : string) (l : list string) : bool := existsb (fun x => eqb x s) l.

(** the files for which the gogoproto family is generated at all: scripts/protocgen.sh skips
    every .proto file without [option go_package] (the app-config [module/v1/module.proto]
    objects, which exist in the api/ family only) *)
Definition in_scope (scope : list string) (fs : list file) : list file :=
  filter (fun f => mem_str (fl_name f) scope) fs.

(** ** Lookup *)
Definition all_msgs (fs : list file) : list message := flat_map fl_msgs fs.
Definition all_services (fs : list file) : list service := flat_map fl_services fs.

Fixpoint find_msg (full : string) (ms : list message) : option message :=
  match ms with
  | [] => None
  | m :: r => if eqb (m_full m) full then Some m else find_msg full r
  end.

Fixpoint find_field (name : string) (fs : list field) : option field :=
  match fs with
  | [] => None
  | f :: r => if eqb (f_name f) name then Some f else find_field name r
  end.

(** ** Hex payloads *)
Definition hexval (c : ascii) : N :=
  let n := N_of_ascii c in
  if (48 <=? n)%N && (n <=? 57)%N then n - 48
  else if (97 <=? n)%N && (n <=? 102)%N then n - 87 else 0.

Fixpoint unhex (s : string) : string :=
  match s with
  | String a (String b r) => String (ascii_of_N (hexval a * 16 + hexval b)) (unhex r)
  | _ => EmptyString
  end.

Fixpoint unhex_bytes (s : string) : list N :=
  match s with
  | String a (String b r) => (hexval a * 16 + hexval b)%N :: unhex_bytes r
  | _ => []
  end.

Definition opt_payloads (num : N) (os : list opt) : list string :=
  map o_hex (filter (fun o => N.eqb (o_num o) num) os).

Definition OPT_SIGNER : N := 11110000.      (* cosmos.msg.v1.signer  (MessageOptions) *)
Definition OPT_MSG_SERVICE : N := 11110000. (* cosmos.msg.v1.service (ServiceOptions) *)
Definition OPT_NULLABLE : N := 65001.       (* gogoproto.nullable *)
Definition OPT_CUSTOMTYPE : N := 65003.     (* gogoproto.customtype *)
Definition OPT_STDTIME : N := 65010.
Definition OPT_STDDURATION : N := 65011.
Definition OPT_MAP_ENTRY : N := 7.          (* MessageOptions.map_entry *)

Definition m_signers (m : message) : list string := map unhex (opt_payloads OPT_SIGNER (m_opts m)).

Definition is_msg_service (s : service) : bool :=
  existsb (fun h => eqb h "01"%string) (opt_payloads OPT_MSG_SERVICE (s_opts s)).

(** full type name ".pkg.Msg" -> "pkg.Msg" *)
Definition undot (s : string) : string :=
  match s with String "."%char r => r | _ => s end.

(** the transaction messages: request types of the services marked [cosmos.msg.v1.service] *)
Definition tx_messages (fs : list file) : list string :=
  flat_map (fun s => if is_msg_service s then map (fun md => undot (md_in md)) (s_methods s) else [])
           (all_services fs).

(** ** The SDK's signer rule (x/tx/signing: [getSignersFieldNames] + [makeGetSignersFunc]):
    a message declares signer field names; each must exist and be a string (the address;
    [repeated string] allowed), or a message-typed field whose message itself declares
    signers that resolve, recursively.  [fuel] bounds the nesting (the SDK bounds it by
    its own MaxRecursionDepth = 32). *)
Definition K_STRING : N := 9.
Definition K_MESSAGE : N := 11.

Fixpoint resolves_b (fuel : nat) (ms : list message) (full : string) : bool :=
  match fuel with
  | O => false
  | S fuel' =>
      match find_msg full ms with
      | None => false
      | Some m =>
          match m_signers m with
          | [] => false
          | sgs =>
              forallb (fun sg =>
                match find_field sg (m_fields m) with
                | None => false
                | Some f =>
                    if N.eqb (f_kind f) K_STRING then true
                    else if N.eqb (f_kind f) K_MESSAGE then resolves_b fuel' ms (undot (f_type f))
                    else false
                end) sgs
          end
      end
  end.

(** the same rule as a relation (what [resolves_b] decides) *)
Inductive resolves (ms : list message) : string -> Prop :=
| resolves_intro : forall full m,
    find_msg full ms = Some m ->
    m_signers m <> [] ->
    (forall sg, In sg (m_signers m) ->
       exists f, find_field sg (m_fields m) = Some f /\
         (f_kind f = K_STRING \/ (f_kind f = K_MESSAGE /\ resolves ms (undot (f_type f))))) ->
    resolves ms full.

(** ** The table compared with the .proto text *)
Inductive srow :=
| RFile (file pkg : string)
| RMsg (file msg : string)
| RField (msg name : string) (num : N) (ty : string) (rep : bool) (json : string)
| RSigner (msg signer : string)
| REnum (file en : string)
| REnumVal (en name : string) (num : Z)
| RSvc (file svc : string) (msgsvc : bool)
| RMethod (svc name input output : string) (cs ss : bool)
| ROpt (owner : string) (num wt : N) (hex : string)
| RUnsupported (file : string) (line : N) (what : string).  (* source side only: a construct the
                                                               extractor does not understand *)

#[export] Instance EqDec_srow : EqDec srow.
Proof. intros x y. unfold EqDec in *. decide equality; apply eq_dec. Defined.

Definition kind_name (k : N) : string :=
  match k with
  | 1 => "double" | 2 => "float" | 3 => "int64" | 4 => "uint64" | 5 => "int32"
  | 6 => "fixed64" | 7 => "fixed32" | 8 => "bool" | 9 => "string" | 10 => "group"
  | 12 => "bytes" | 13 => "uint32" | 15 => "sfixed32" | 16 => "sfixed64"
  | 17 => "sint32" | 18 => "sint64" | _ => "?"
  end%N%string.

Definition field_type_text (f : field) : string :=
  if N.eqb (f_kind f) 11 || N.eqb (f_kind f) 14 then f_type f else kind_name (f_kind f).

(** protoc's default json name of a field (ToJsonName): underscores are dropped and the
    character after one is upper-cased *)
Definition upper_ascii (c : ascii) : ascii :=
  let n := N_of_ascii c in
  if (97 <=? n)%N && (n <=? 122)%N then ascii_of_N (n - 32) else c.

Fixpoint json_camel (up : bool) (s : string) : string :=
  match s with
  | EmptyString => EmptyString
  | String c r =>
      if Ascii.eqb c "_"%char then json_camel true r
      else String (if up then upper_ascii c else c) (json_camel false r)
  end.

(** the source table as the extractor writes it carries the json name only where the text spells
    one ([json_name = "..."]); [src_norm] fills in protoc's default everywhere else *)
Definition src_norm (rows : list srow) : list srow :=
  map (fun r => match r with
                | RField m n num ty rep j =>
                    RField m n num ty rep (if eqb j EmptyString then json_camel false n else j)
                | _ => r
                end) rows.

(** options of one declaration, in the order the translator sorts them (by number); [agg] lists
    per kind of declaration the numbers of message-valued options, compared by presence only *)
Definition opt_rows (agg : list (string * N)) (kind owner : string) (os : list opt) : list srow :=
  map (fun o => ROpt (kind ++ " " ++ owner) (o_num o) (o_wt o)
                 (if existsb (fun p => eqb (fst p) kind && N.eqb (snd p) (o_num o)) agg
                  then EmptyString else o_hex o)) os.

Definition msg_rows (agg : list (string * N)) (fname : string) (m : message) : list srow :=
  RMsg fname (m_full m)
  :: map (RSigner (m_full m)) (m_signers m)
  ++ opt_rows agg "msg" (m_full m) (m_opts m)
  ++ flat_map (fun f => RField (m_full m) (f_name f) (f_num f) (field_type_text f) (N.eqb (f_label f) 3) (f_json f)
                        :: opt_rows agg "field" (m_full m ++ "." ++ f_name f) (f_opts f)) (m_fields m).

Definition enum_rows (agg : list (string * N)) (fname : string) (e : enum) : list srow :=
  REnum fname (e_full e) :: opt_rows agg "enum" (e_full e) (e_opts e)
  ++ flat_map (fun v => REnumVal (e_full e) (ev_name v) (ev_num v)
                        :: opt_rows agg "enumval" (e_full e ++ "." ++ ev_name v) (ev_opts v)) (e_values e).

Definition svc_rows (agg : list (string * N)) (fname : string) (s : service) : list srow :=
  RSvc fname (s_full s) (is_msg_service s) :: opt_rows agg "svc" (s_full s) (s_opts s)
  ++ flat_map (fun md => RMethod (s_full s) (md_name md) (md_in md) (md_out md) (md_cs md) (md_ss md)
                         :: opt_rows agg "method" (s_full s ++ "." ++ md_name md) (md_opts md)) (s_methods s).

Definition file_rows (agg : list (string * N)) (f : file) : list srow :=
  RFile (fl_name f) (fl_pkg f)
  :: flat_map (msg_rows agg (fl_name f)) (fl_msgs f)
  ++ flat_map (enum_rows agg (fl_name f)) (fl_enums f)
  ++ flat_map (svc_rows agg (fl_name f)) (fl_services f).

Definition desc_rows (agg : list (string * N)) (fs : list file) : list srow := flat_map (file_rows agg) fs.

(** ** The gRPC service descriptors of the generated Go code ([grpc.ServiceDesc]): service name,
    the .proto file named in its metadata, and per method (name, request type the handler
    decodes, client streaming, server streaming) - and the same table projected from the file
    descriptors *)
Record gsvc := mkGSvc { g_name : string; g_file : string; g_methods : list (string * string * bool * bool) }.

#[export] Instance EqDec_gsvc : EqDec gsvc.
Proof. intros x y. unfold EqDec in *. decide equality; apply eq_dec. Defined.

Definition grpc_proj (fs : list file) : list gsvc :=
  flat_map (fun f => map (fun s => mkGSvc (s_full s) (fl_name f)
                                     (map (fun md => (md_name md,
                                                      (if md_cs md || md_ss md then EmptyString else undot (md_in md)),
                                                      md_cs md, md_ss md)) (s_methods s)))
                         (fl_services f)) fs.

(** ** The wire-relevant projection of the dependency messages (Coin, PageRequest, Any, ...)
    that are generated by other repositories: name, number, kind, label, type *)
Definition wire_proj (fs : list file) : list (string * list (N * N * N * string)) :=
  map (fun m => (m_full m, map (fun f => (f_num f, f_kind f, f_label f, f_type f)) (m_fields m))) (all_msgs fs).
