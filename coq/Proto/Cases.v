(** * C20: the vocabulary of the wire case files the driver writes.

    Kept apart from [Proto/Check.v] so that neither the check functions nor [Props/C20.v] depend on
    the primitive 63-bit integers: they are only a compact carrier for the byte strings of the
    cases (a hex string literal costs the type checker ~20 term nodes per byte, a chunk 2 nodes per
    7 bytes), decoded to [list N] by [vm_compute] before [check_wire] sees them. *)
From Irismod Require Export Proto.Check.
From Coq Require Export Uint63.
Open Scope N_scope.

(** byte strings as the driver writes them: [len] bytes, in big-endian chunks of 7 bytes held in
    primitive 63-bit integers (the last chunk holds the remaining [len mod 7] bytes).  A string
    literal costs the type checker ~20 term nodes per byte, a chunk 2 nodes per 7 bytes. *)
Fixpoint bits_to_N (k : nat) (i : int) : N :=
  match k with
  | O => 0
  | S k' => let r := bits_to_N k' (Uint63.lsr i 1%uint63) in
            if Uint63.is_even i then N.double r else N.succ_double r
  end.

(** the [k] low bytes of [c], most significant first, in front of [acc] *)
Fixpoint be_bytes (k : nat) (c : int) (acc : list N) : list N :=
  match k with
  | O => acc
  | S k' => be_bytes k' (Uint63.lsr c 8%uint63) (bits_to_N 8 (Uint63.land c 255%uint63) :: acc)
  end.

Fixpoint chunk_bytes (len : N) (cs : list int) : list N :=
  match cs with
  | [] => []
  | c :: r =>
      let k := N.min 7 len in
      be_bytes (N.to_nat k) c (chunk_bytes (len - k) r)
  end.

Definition BY (len : N) (cs : list int) : list N := chunk_bytes len cs.
Arguments BY len%N cs%uint63.
Definition VY (len : N) (cs : list int) : value := VBytes (BY len cs).
Arguments VY len%N cs%uint63.

