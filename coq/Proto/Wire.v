(** * Protobuf wire format, descriptor driven (property C20, part (b)): definitions.

    Executable model of the proto3 binary encoding for the fragment that occurs under
    [proto/irismod] and in the messages it imports (census by the translator, re-checked on
    every run by [Props/C20.v: fragment_covers_all_fields]):

      - varint scalars: int32, int64, uint32, uint64, bool, enum   (wire type 0)
      - length-delimited: string, bytes, nested message, map<string,_> (= repeated entry
        message with fields 1 and 2), packed repeated varint scalars (wire type 2)
      - repeated fields (one wire entry per element), fields in number order,
        proto3 omission of default scalars, explicit presence of messages.

    NOT in the fragment (no occurrence): oneof, proto3 optional, groups, sint32/64 (zig-zag),
    fixed32/64, sfixed32/64, float, double, unknown fields, extensions, non-minimal varints.

    Bytes are [N] (each < 256).  A value is a tree that mirrors the wire: a message is the list
    of its PRESENT fields in wire order, a repeated field occurs once per element.  [enc] needs
    no descriptor (the tree says what is present); the descriptor drives the decoder [dec_fields]
    (is a length-delimited payload bytes, a message or packed varints?), the typing judgement
    [typedb], the canonical-form judgement [canonb], and the model [fill] of what the gogoproto
    family adds when it marshals ((gogoproto.nullable)=false / customtype fields are always
    emitted).  [encode] = [enc] guarded by [typedb && canonb]. *)
From Coq Require Export String.
From Coq Require Export List NArith Bool.
From Coq Require Import Lia.
Export ListNotations.
Open Scope list_scope.
Open Scope N_scope.

(** ** Varints (base 128, little endian, continuation bit 128) *)

Fixpoint varint_fuel (fuel : nat) (n : N) : list N :=
  match fuel with
  | O => [n]
  | S f => if n <? 128 then [n] else (n mod 128 + 128) :: varint_fuel f (n / 128)
  end.

(** [N.size_nat n] (the number of bits of [n]) steps always suffice: each step removes 7 bits *)
Definition varint (n : N) : list N := varint_fuel (N.size_nat n) n.

Fixpoint read_varint (bs : list N) : option (N * list N) :=
  match bs with
  | [] => None
  | b :: r =>
      if b <? 128 then Some (b, r)
      else if 256 <=? b then None
      else match read_varint r with
           | Some (hi, r') => Some (b - 128 + 128 * hi, r')
           | None => None
           end
  end.

(** ** Values *)
Inductive value :=
| VInt (n : N)                     (* varint scalar: the 64-bit two's complement pattern *)
| VBytes (b : list N)              (* string / bytes *)
| VPacked (ns : list N)            (* packed repeated varint scalars *)
| VMsg (fs : list (N * value)).    (* present fields in wire order: (number, value) *)

Definition wire_type (v : value) : N := match v with VInt _ => 0 | _ => 2 end.
Definition tag (num : N) (v : value) : list N := varint (num * 8 + wire_type v).
Definition len_delim (p : list N) : list N := varint (N.of_nat (length p)) ++ p.

(** payload of a value; [enc_fields] is the body of a message *)
Fixpoint enc (v : value) : list N :=
  match v with
  | VInt n => varint n
  | VBytes b => b
  | VPacked ns => flat_map varint ns
  | VMsg fs =>
      (fix go (l : list (N * value)) : list N :=
         match l with
         | [] => []
         | (num, x) :: r =>
             (tag num x ++ match x with VInt _ => enc x | _ => len_delim (enc x) end) ++ go r
         end) fs
  end.

Definition enc_entry (p : N * value) : list N :=
  tag (fst p) (snd p) ++ match snd p with VInt _ => enc (snd p) | _ => len_delim (enc (snd p)) end.
Definition enc_fields (fs : list (N * value)) : list N := flat_map enc_entry fs.

(** ** Wire-level descriptors *)
Inductive skind := S64 | SU32 | SI32 | SBool.
Inductive wkind :=
| WVarint (s : skind)
| WBytes
| WPacked (s : skind)
| WMsg (name : string)
| WUnsupported.

(** what the gogoproto family emits for the field when it is ABSENT *)
Inductive nnkind :=
| NNo                      (* nothing (as protobuf-go) *)
| NNMsg                    (* (gogoproto.nullable)=false message field: the empty message, filled *)
| NNConst (v : value).     (* customtype Int/Dec: "0";  non-nullable stdtime: 0001-01-01T00:00:00Z *)

Record wfield := mkWF { wf_num : N; wf_kind : wkind; wf_rep : bool; wf_nn : nnkind }.
Record wmsg := mkWM { wm_fields : list wfield; wm_entry : bool }.
Definition env := list (string * wmsg).

Fixpoint lookup (name : string) (e : env) : option wmsg :=
  match e with
  | [] => None
  | (n, m) :: r => if String.eqb n name then Some m else lookup name r
  end.

Fixpoint find_wf (num : N) (fs : list wfield) : option wfield :=
  match fs with
  | [] => None
  | f :: r => if wf_num f =? num then Some f else find_wf num r
  end.

(** ** Decoder, fuel = number of input bytes (every step consumes at least the tag byte) *)
Definition split_at (n : N) (bs : list N) : option (list N * list N) :=
  let k := N.to_nat n in
  if Nat.ltb (length bs) k then None else Some (firstn k bs, skipn k bs).

Fixpoint read_varints (fuel : nat) (bs : list N) : option (list N) :=
  match bs with
  | [] => Some []
  | _ =>
      match fuel with
      | O => None
      | S f =>
          match read_varint bs with
          | Some (n, r) => option_map (cons n) (read_varints f r)
          | None => None
          end
      end
  end.

Fixpoint dec_fields (fuel : nat) (e : env) (m : wmsg) (bs : list N) : option (list (N * value)) :=
  match bs with
  | [] => Some []
  | _ =>
      match fuel with
      | O => None
      | S f =>
          match read_varint bs with
          | None => None
          | Some (t, r) =>
              let num := t / 8 in
              let wt := t mod 8 in
              match find_wf num (wm_fields m) with
              | None => None
              | Some wf =>
                  if wt =? 0 then
                    match wf_kind wf with
                    | WVarint _ =>
                        match read_varint r with
                        | None => None
                        | Some (n, r') => option_map (cons (num, VInt n)) (dec_fields f e m r')
                        end
                    | _ => None
                    end
                  else if wt =? 2 then
                    match read_varint r with
                    | None => None
                    | Some (len, r1) =>
                        match split_at len r1 with
                        | None => None
                        | Some (p, r') =>
                            match wf_kind wf with
                            | WBytes => option_map (cons (num, VBytes p)) (dec_fields f e m r')
                            | WPacked _ =>
                                match read_varints f p with
                                | None => None
                                | Some ns => option_map (cons (num, VPacked ns)) (dec_fields f e m r')
                                end
                            | WMsg name =>
                                match lookup name e with
                                | None => None
                                | Some m' =>
                                    match dec_fields f e m' p with
                                    | None => None
                                    | Some fs => option_map (cons (num, VMsg fs)) (dec_fields f e m r')
                                    end
                                end
                            | _ => None
                            end
                        end
                    end
                  else None
              end
          end
      end
  end.

Definition decode (e : env) (name : string) (bs : list N) : option value :=
  match lookup name e with
  | None => None
  | Some m => option_map VMsg (dec_fields (length bs) e m bs)
  end.

(** ** Typing: the tree has the shape the descriptor prescribes *)
Definition two64 : N := 18446744073709551616.

Definition in_range (s : skind) (n : N) : bool :=
  match s with
  | S64 => n <? two64
  | SU32 => n <? 4294967296
  | SI32 => (n <? 2147483648) || ((two64 - 2147483648 <=? n) && (n <? two64))
  | SBool => n <? 2
  end.

Definition is_nil {A} (l : list A) : bool := match l with [] => true | _ => false end.

Fixpoint typedb (e : env) (k : wkind) (v : value) : bool :=
  match k, v with
  | WVarint s, VInt n => in_range s n
  | WBytes, VBytes b => forallb (fun x => x <? 256) b
  | WPacked s, VPacked ns => negb (is_nil ns) && forallb (in_range s) ns
  | WMsg name, VMsg fs =>
      match lookup name e with
      | None => false
      | Some m =>
          (fix go (l : list (N * value)) : bool :=
             match l with
             | [] => true
             | (num, x) :: r =>
                 match find_wf num (wm_fields m) with
                 | None => false
                 | Some wf => typedb e (wf_kind wf) x && go r
                 end
             end) fs
      end
  | _, _ => false
  end.

(** ** Canonical form: what a proto3 serialiser emits for a message value.
    Fields by ascending number (equal numbers only for a repeated non-packed field); outside
    map entries a singular scalar/string/bytes field is present only when it is not the
    default; a map entry carries exactly its key (1) and value (2). *)
Definition is_default (v : value) : bool :=
  match v with VInt 0 => true | VBytes [] => true | _ => false end.

Definition is_packed (k : wkind) : bool := match k with WPacked _ => true | _ => false end.

Fixpoint sortedb (m : wmsg) (fs : list (N * value)) : bool :=
  match fs with
  | [] => true
  | (n1, _) :: r =>
      match r with
      | [] => true
      | (n2, _) :: _ =>
          ((n1 <? n2) ||
           ((n1 =? n2) && match find_wf n1 (wm_fields m) with
                          | Some wf => wf_rep wf && negb (is_packed (wf_kind wf))
                          | None => false
                          end)) && sortedb m r
      end
  end.

Definition entry_shape (fs : list (N * value)) : bool :=
  match fs with
  | [(1, _); (2, _)] => true
  | _ => false
  end.

Fixpoint canonb (e : env) (k : wkind) (v : value) : bool :=
  match k, v with
  | WMsg name, VMsg fs =>
      match lookup name e with
      | None => false
      | Some m =>
          sortedb m fs && (if wm_entry m then entry_shape fs else true) &&
          (fix go (l : list (N * value)) : bool :=
             match l with
             | [] => true
             | (num, x) :: r =>
                 match find_wf num (wm_fields m) with
                 | None => false
                 | Some wf =>
                     (wm_entry m || wf_rep wf || negb (is_default x))
                     && canonb e (wf_kind wf) x && go r
                 end
             end) fs
      end
  | _, _ => true
  end.

(** the encoder of the model: defined on well-typed canonical values of message [name] *)
Definition encode (e : env) (name : string) (v : value) : option (list N) :=
  if typedb e (WMsg name) v && canonb e (WMsg name) v then Some (enc v) else None.

(** ** What the gogoproto family marshals: absent non-nullable fields are filled in.
    [fuel] bounds the nesting depth (value depth + descriptor depth). *)
Definition has_field (n : N) (fs : list (N * value)) : bool := existsb (fun p => fst p =? n) fs.

Fixpoint insert_sorted (n : N) (v : value) (fs : list (N * value)) : list (N * value) :=
  match fs with
  | [] => [(n, v)]
  | (m, x) :: r => if n <? m then (n, v) :: fs else (m, x) :: insert_sorted n v r
  end.

Definition has_default (wf : wfield) : bool :=
  negb (wf_rep wf) && match wf_nn wf with NNo => false | _ => true end.

Fixpoint fill (fuel : nat) (e : env) (k : wkind) (v : value) : value :=
  match fuel with
  | O => v
  | S f =>
      match k, v with
      | WMsg name, VMsg fs =>
          match lookup name e with
          | None => v
          | Some m =>
              let fs1 := map (fun p => (fst p, match find_wf (fst p) (wm_fields m) with
                                               | Some wf => fill f e (wf_kind wf) (snd p)
                                               | None => snd p
                                               end)) fs in
              VMsg (fold_left
                      (fun acc wf =>
                         if has_default wf && negb (has_field (wf_num wf) acc) then
                           match wf_nn wf with
                           | NNo => acc
                           | NNMsg => insert_sorted (wf_num wf) (fill f e (wf_kind wf) (VMsg [])) acc
                           | NNConst c => insert_sorted (wf_num wf) c acc
                           end
                         else acc)
                      (wm_fields m) fs1)
          end
      | _, _ => v
      end
  end.

(** every non-nullable field of every (sub)message is present *)
Fixpoint populatedb (fuel : nat) (e : env) (k : wkind) (v : value) : bool :=
  match fuel with
  | O => true
  | S f =>
      match k, v with
      | WMsg name, VMsg fs =>
          match lookup name e with
          | None => true
          | Some m =>
              forallb (fun wf => negb (has_default wf) || has_field (wf_num wf) fs) (wm_fields m)
              && forallb (fun p => match find_wf (fst p) (wm_fields m) with
                                   | Some wf => populatedb f e (wf_kind wf) (snd p)
                                   | None => true
                                   end) fs
          end
      | _, _ => true
      end
  end.

(** the gogoproto family's marshaller, as modelled *)
Definition gogo_enc (fuel : nat) (e : env) (name : string) (v : value) : list N :=
  enc (fill fuel e (WMsg name) v).
