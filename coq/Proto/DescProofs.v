(** * Soundness of the decidable checks on descriptors (property C20, part (a)).
    General lemmas: they hold for every descriptor set, the regenerated data only enters in
    [Props/C20.v] through [vm_compute] on the boolean side. *)
From Irismod Require Import Proto.Desc.

(** boolean equality of the [EqDec] class decides equality (used for descriptor sets, rows, ...) *)
Lemma dec_eq_sound {A} `{EqDec A} (x y : A) : Prelude.eqb x y = true -> x = y.
Proof. intros E. apply (proj1 (eqb_true_iff _ _)). exact E. Qed.

Lemma mem_str_sound (s : string) (l : list string) : mem_str s l = true -> In s l.
Proof.
  unfold mem_str. intros E. apply existsb_exists in E. destruct E as [x [Hin Hx]].
  apply (proj1 (eqb_true_iff _ _)) in Hx. subst x. exact Hin.
Qed.

Lemma forallb_In {A} (p : A -> bool) (l : list A) : forallb p l = true -> forall x, In x l -> p x = true.
Proof. intros E x Hin. rewrite forallb_forall in E. apply E. exact Hin. Qed.

(** the boolean signer check implies the SDK rule, for any fuel it succeeded with *)
Lemma resolves_sound : forall (fuel : nat) (ms : list message) (full : string),
  resolves_b fuel ms full = true -> resolves ms full.
Proof.
  induction fuel as [|fuel IH]; intros ms full Hb; [discriminate|].
  cbn [resolves_b] in Hb.
  destruct (find_msg full ms) as [m|] eqn:Hm; [|discriminate].
  assert (Hall : m_signers m <> [] /\
                 forall sg, In sg (m_signers m) ->
                   match find_field sg (m_fields m) with
                   | None => false
                   | Some f =>
                       if N.eqb (f_kind f) K_STRING then true
                       else if N.eqb (f_kind f) K_MESSAGE then resolves_b fuel ms (undot (f_type f))
                       else false
                   end = true).
  { destruct (m_signers m) as [|s0 sr]; [discriminate|].
    split; [discriminate|]. intros sg Hin. exact (forallb_In _ _ Hb sg Hin). }
  destruct Hall as [Hne Hall].
  apply resolves_intro with (m := m).
  - exact Hm.
  - exact Hne.
  - intros sg Hin. pose proof (Hall sg Hin) as Hsg.
    destruct (find_field sg (m_fields m)) as [f|]; [|discriminate].
    exists f. split; [reflexivity|].
    destruct (N.eqb (f_kind f) K_STRING) eqn:E1.
    + left. apply N.eqb_eq. exact E1.
    + destruct (N.eqb (f_kind f) K_MESSAGE) eqn:E2; [|discriminate].
      right. split; [apply N.eqb_eq; exact E2|]. apply IH. exact Hsg.
Qed.

(** a resolved signer names an existing field (so the SDK's GetSigners cannot fail on a
    missing field), at the top level of the message *)
Lemma resolves_field_exists : forall ms full, resolves ms full ->
  exists m, find_msg full ms = Some m /\ m_signers m <> [] /\
    forall sg, In sg (m_signers m) -> exists f, find_field sg (m_fields m) = Some f.
Proof.
  intros ms full Hr. destruct Hr as [full m Hm Hne Hall].
  exists m. split; [exact Hm|]. split; [exact Hne|].
  intros sg Hin. destruct (Hall sg Hin) as [f [Hf _]]. exists f. exact Hf.
Qed.
