(** * From descriptors to the wire model's environment (property C20).

    [wire_env] turns the messages of a descriptor set into the [env] of [Proto/Wire.v].  The set
    of fields for which the gogoproto family behaves differently from protobuf-go is COMPUTED
    here from the options the descriptors carry:

      - (gogoproto.nullable) = false  (option 65001, payload 00) on a singular message field:
        the field is a Go struct value, always marshalled ([NNMsg]); with (gogoproto.stdtime)
        the zero [time.Time] is 0001-01-01T00:00:00Z ([NNConst] of that Timestamp);
      - (gogoproto.customtype) = cosmossdk.io/math.Int / LegacyDec (option 65003) with
        nullable = false: a nil value marshals as the numeral "0" ([NNConst]);
      - the same customtype on a field whose declared type is NOT string/bytes
        ([kind_mismatch]): the gogoproto family puts a numeral where the descriptor (and the
        api/ family) has a message. *)
From Irismod Require Import Proto.Desc Proto.Wire.
Open Scope N_scope.

Definition has_opt (num : N) (hex : string) (os : list opt) : bool :=
  existsb (fun o => (o_num o =? num) && String.eqb (o_hex o) hex) os.

Definition customtypes (f : field) : list string := map unhex (opt_payloads OPT_CUSTOMTYPE (f_opts f)).

Definition is_numeral_type (s : string) : bool :=
  String.eqb s "cosmossdk.io/math.Int"%string || String.eqb s "cosmossdk.io/math.LegacyDec"%string
  || String.eqb s "github.com/cosmos/cosmos-sdk/types.Int"%string || String.eqb s "github.com/cosmos/cosmos-sdk/types.Dec"%string.

Definition numeral_custom (f : field) : bool := existsb is_numeral_type (customtypes f).
Definition nullable_false (f : field) : bool := has_opt OPT_NULLABLE "00" (f_opts f).
Definition is_rep (f : field) : bool := f_label f =? 3.
Definition is_bytes_kind (f : field) : bool := (f_kind f =? 9) || (f_kind f =? 12).

(** customtype numeral on a field that is not declared string/bytes *)
Definition kind_mismatch (f : field) : bool := numeral_custom f && negb (is_bytes_kind f).

Definition skind_of (k : N) : option skind :=
  match k with
  | 3 | 4 => Some S64
  | 5 | 14 => Some SI32
  | 13 => Some SU32
  | 8 => Some SBool
  | _ => None
  end.

(** [gogo = true]: the field kinds as the gogoproto family's marshalling code treats them *)
Definition wkind_of (gogo : bool) (f : field) : wkind :=
  if f_p3opt f then WUnsupported
  else match f_oneof f with
  | Some _ => WUnsupported
  | None =>
      if gogo && kind_mismatch f then WBytes
      else if is_bytes_kind f then WBytes
      else if f_kind f =? 11 then WMsg (undot (f_type f))
      else match skind_of (f_kind f) with
           | Some s => if is_rep f then (if has_opt 2 "00" (f_opts f) then WUnsupported else WPacked s)
                       else WVarint s
           | None => WUnsupported
           end
  end.

(** 0001-01-01T00:00:00Z as google.protobuf.Timestamp: seconds = -62135596800 (two's complement) *)
Definition zero_time : value := VMsg [(1, VInt (two64 - 62135596800))].

Definition nn_of (f : field) : nnkind :=
  if is_rep f || negb (nullable_false f) then NNo
  else if numeral_custom f then NNConst (VBytes [48])
  else if f_kind f =? 11 then
    (if has_opt OPT_STDTIME "01" (f_opts f) then NNConst zero_time else NNMsg)
  else NNo.

Definition wfield_of (gogo : bool) (f : field) : wfield :=
  mkWF (f_num f) (wkind_of gogo f) (is_rep f) (nn_of f).

Definition wmsg_of (gogo : bool) (m : message) : wmsg :=
  mkWM (map (wfield_of gogo) (m_fields m)) (has_opt OPT_MAP_ENTRY "01" (m_opts m)).

Definition wire_env (gogo : bool) (fs : list file) : env :=
  map (fun m => (m_full m, wmsg_of gogo m)) (all_msgs fs).

(** the computed sets that identify the known findings *)
Definition nonnullable_fields (fs : list file) : list (string * string) :=
  flat_map (fun m => flat_map (fun f => match nn_of f with NNo => [] | _ => [(m_full m, f_name f)] end) (m_fields m))
           (all_msgs fs).

Definition mismatch_fields (fs : list file) : list (string * string) :=
  flat_map (fun m => flat_map (fun f => if kind_mismatch f then [(m_full m, f_name f)] else []) (m_fields m))
           (all_msgs fs).

Definition map_fields (fs : list file) : list (string * string) :=
  let entries := map m_full (filter (fun m => has_opt OPT_MAP_ENTRY "01" (m_opts m)) (all_msgs fs)) in
  flat_map (fun m => flat_map (fun f => if (f_kind f =? 11) && mem_str (undot (f_type f)) entries
                                        then [(m_full m, f_name f)] else []) (m_fields m))
           (all_msgs fs).

(** every field of every message is inside the fragment of [Proto/Wire.v] *)
Definition unsupported_fields (fs : list file) : list (string * string) :=
  flat_map (fun m => flat_map (fun f => match wkind_of false f with WUnsupported => [(m_full m, f_name f)] | _ => [] end)
                              (m_fields m))
           (all_msgs fs).
