(** * What the gogoproto family emits is a fixed point (property C20, part (c), the true half of
      the refuted round trip): after ONE pass through the gogoproto marshaller every non-nullable
      field is present, so from there on both families reproduce the bytes exactly. *)
From Irismod Require Import Proto.Wire Proto.WireProofs.
From Coq Require Import Lia PeanoNat.
Open Scope N_scope.

(** ** Well-formed environments: field numbers are unique inside a message, and the constants the
    gogoproto family writes for absent fields are themselves fully populated. *)
Fixpoint nodup_nums (l : list N) : bool :=
  match l with
  | [] => true
  | n :: r => negb (existsb (fun x => x =? n) r) && nodup_nums r
  end.

Definition const_ok (fuel : nat) (e : env) (wf : wfield) : bool :=
  match wf_nn wf with
  | NNConst c => populatedb fuel e (wf_kind wf) c
  | _ => true
  end.

Definition msg_ok (fuel : nat) (e : env) (m : wmsg) : bool :=
  nodup_nums (map wf_num (wm_fields m)) && forallb (const_ok fuel e) (wm_fields m).

Definition env_ok (fuel : nat) (e : env) : bool := forallb (fun p => msg_ok fuel e (snd p)) e.

Lemma lookup_In : forall name (e : env) m, lookup name e = Some m -> In (name, m) e.
Proof.
  intros name e. induction e as [|[n x] r IH]; intros m H; [discriminate H|].
  cbn [lookup] in H. destruct (String.eqb n name) eqn:E.
  - injection H as H. subst x. apply String.eqb_eq in E. subst n. left. reflexivity.
  - right. apply IH. exact H.
Qed.

Lemma env_ok_lookup : forall fuel e name m,
  env_ok fuel e = true -> lookup name e = Some m -> msg_ok fuel e m = true.
Proof.
  intros fuel e name m Hok Hl. unfold env_ok in Hok. rewrite forallb_forall in Hok.
  exact (Hok _ (lookup_In _ _ _ Hl)).
Qed.

Lemma find_wf_nodup : forall (l : list wfield) (wf : wfield),
  nodup_nums (map wf_num l) = true -> In wf l -> find_wf (wf_num wf) l = Some wf.
Proof.
  induction l as [|x r IH]; intros wf Hn Hin; [destruct Hin|].
  cbn [map nodup_nums] in Hn. apply andb_prop in Hn. destruct Hn as [Hx Hr].
  cbn [find_wf]. destruct Hin as [Heq|Hin].
  - subst x. rewrite N.eqb_refl. reflexivity.
  - destruct (wf_num x =? wf_num wf) eqn:E; [|apply IH; assumption].
    exfalso. apply N.eqb_eq in E.
    assert (Hex : existsb (fun y => y =? wf_num x) (map wf_num r) = true).
    { apply existsb_exists. exists (wf_num wf). split; [apply in_map; exact Hin|].
      apply N.eqb_eq. symmetry. exact E. }
    rewrite Hex in Hx. discriminate Hx.
Qed.

(** ** more fuel only makes [populatedb] stronger *)
Lemma populatedb_S : forall (f : nat) (e : env) (k : wkind) (v : value),
  populatedb (S f) e k v = true -> populatedb f e k v = true.
Proof.
  induction f as [|f IH]; intros e k v H; [reflexivity|].
  cbn [populatedb] in H. cbn [populatedb].
  destruct k as [s| |s|name|]; try reflexivity.
  destruct v as [n|b|ns|fs]; try reflexivity.
  destruct (lookup name e) as [m|]; [|reflexivity].
  apply andb_prop in H. destruct H as [H1 H2].
  apply andb_true_intro. split; [exact H1|].
  rewrite forallb_forall in H2. apply forallb_forall. intros p Hp.
  specialize (H2 p Hp).
  destruct (find_wf (fst p) (wm_fields m)) as [wf|]; [|reflexivity].
  apply IH. exact H2.
Qed.

Lemma populatedb_le : forall (g f : nat) (e : env) (k : wkind) (v : value),
  (f <= g)%nat -> populatedb g e k v = true -> populatedb f e k v = true.
Proof.
  induction g as [|g IH]; intros f e k v Hle H.
  - assert (f = O) by lia. subst f. reflexivity.
  - destruct (Nat.eq_dec f (S g)) as [->|Hne]; [exact H|].
    apply IH; [lia|]. apply populatedb_S. exact H.
Qed.

(** ** [insert_sorted] and the fold of [fill] *)
Lemma has_field_insert_same : forall n v fs, has_field n (insert_sorted n v fs) = true.
Proof.
  intros n v fs. induction fs as [|[m x] r IH]; cbn [insert_sorted].
  - unfold has_field. cbn. rewrite N.eqb_refl. reflexivity.
  - destruct (n <? m).
    + unfold has_field. cbn. rewrite N.eqb_refl. reflexivity.
    + unfold has_field in *. cbn [existsb fst]. rewrite IH. apply orb_true_r.
Qed.

Lemma has_field_insert_mono : forall k n v fs,
  has_field k fs = true -> has_field k (insert_sorted n v fs) = true.
Proof.
  intros k n v fs. induction fs as [|[m x] r IH]; intros H; [discriminate H|].
  cbn [insert_sorted]. destruct (n <? m).
  - unfold has_field in *. cbn [existsb] in *. rewrite H. apply orb_true_r.
  - unfold has_field in *. cbn [existsb fst] in *.
    apply orb_true_iff in H. destruct H as [H|H].
    + rewrite H. reflexivity.
    + rewrite (IH H). apply orb_true_r.
Qed.

Lemma Forall_insert : forall (P : N * value -> Prop) n v fs,
  P (n, v) -> Forall P fs -> Forall P (insert_sorted n v fs).
Proof.
  intros P n v fs Hp. induction fs as [|[m x] r IH]; intros Hf; cbn [insert_sorted].
  - constructor; [exact Hp|constructor].
  - destruct (n <? m).
    + constructor; assumption.
    + inversion Hf; subst. constructor; [assumption|]. apply IH. assumption.
Qed.

Section Fold.
  Variables (f : nat) (e : env).
  Definition fill_step (acc : list (N * value)) (wf : wfield) : list (N * value) :=
    if has_default wf && negb (has_field (wf_num wf) acc) then
      match wf_nn wf with
      | NNo => acc
      | NNMsg => insert_sorted (wf_num wf) (fill f e (wf_kind wf) (VMsg [])) acc
      | NNConst c => insert_sorted (wf_num wf) c acc
      end
    else acc.

  Lemma fill_step_mono : forall k acc wf,
    has_field k acc = true -> has_field k (fill_step acc wf) = true.
  Proof.
    intros k acc wf H. unfold fill_step.
    destruct (has_default wf && negb (has_field (wf_num wf) acc)); [|exact H].
    destruct (wf_nn wf); [exact H| |]; apply has_field_insert_mono; exact H.
  Qed.

  Lemma fold_mono : forall l k acc,
    has_field k acc = true -> has_field k (fold_left fill_step l acc) = true.
  Proof.
    induction l as [|wf l IH]; intros k acc H; [exact H|].
    cbn [fold_left]. apply IH. apply fill_step_mono. exact H.
  Qed.

  Lemma fill_step_has : forall acc wf,
    has_default wf = true -> has_field (wf_num wf) (fill_step acc wf) = true.
  Proof.
    intros acc wf Hd. unfold fill_step. rewrite Hd. cbn [andb].
    destruct (has_field (wf_num wf) acc) eqn:Hf; cbn [negb]; [exact Hf|].
    unfold has_default in Hd. apply andb_prop in Hd. destruct Hd as [_ Hd].
    destruct (wf_nn wf); [discriminate Hd| |]; apply has_field_insert_same.
  Qed.

  Lemma fold_has : forall l acc wf,
    In wf l -> has_default wf = true -> has_field (wf_num wf) (fold_left fill_step l acc) = true.
  Proof.
    induction l as [|x l IH]; intros acc wf Hin Hd; [destruct Hin|].
    cbn [fold_left]. destruct Hin as [->|Hin].
    - apply fold_mono. apply fill_step_has. exact Hd.
    - apply IH; assumption.
  Qed.

  Lemma fold_Forall : forall (P : N * value -> Prop) l acc,
    (forall wf, In wf l -> wf_nn wf = NNMsg -> P (wf_num wf, fill f e (wf_kind wf) (VMsg []))) ->
    (forall wf c, In wf l -> wf_nn wf = NNConst c -> P (wf_num wf, c)) ->
    Forall P acc -> Forall P (fold_left fill_step l acc).
  Proof.
    intros P. induction l as [|x l IH]; intros acc H1 H2 Ha; [exact Ha|].
    cbn [fold_left]. apply IH.
    - intros wf Hin. apply H1. right. exact Hin.
    - intros wf c Hin. apply H2. right. exact Hin.
    - unfold fill_step. destruct (has_default x && negb (has_field (wf_num x) acc)); [|exact Ha].
      destruct (wf_nn x) as [| |c] eqn:En; [exact Ha| |].
      + apply Forall_insert; [|exact Ha]. apply H1; [left; reflexivity|exact En].
      + apply Forall_insert; [|exact Ha]. apply (H2 x c); [left; reflexivity|exact En].
  Qed.
End Fold.

(** ** the main lemma *)
Lemma fill_populated : forall (fuel : nat) (e : env), env_ok fuel e = true ->
  forall (f : nat), (f <= fuel)%nat -> forall (k : wkind) (v : value),
  populatedb f e k (fill f e k v) = true.
Proof.
  intros fuel e Hok. induction f as [|f IH]; intros Hle k v; [reflexivity|].
  cbn [fill].
  destruct k as [s| |s|name|]; try reflexivity.
  destruct v as [n|b|ns|fs]; try reflexivity.
  destruct (lookup name e) as [m|] eqn:Hl; [|cbn [populatedb]; rewrite Hl; reflexivity].
  cbv zeta.
  set (fs1 := map (fun p : N * value =>
                     (fst p, match find_wf (fst p) (wm_fields m) with
                             | Some wf => fill f e (wf_kind wf) (snd p)
                             | None => snd p
                             end)) fs).
  change (fold_left _ (wm_fields m) fs1) with (fold_left (fill_step f e) (wm_fields m) fs1).
  cbn [populatedb]. rewrite Hl.
  pose proof (env_ok_lookup _ _ _ _ Hok Hl) as Hm. unfold msg_ok in Hm.
  apply andb_prop in Hm. destruct Hm as [Hnd Hc]. rewrite forallb_forall in Hc.
  apply andb_true_intro. split.
  - apply forallb_forall. intros wf Hin.
    destruct (has_default wf) eqn:Hd; [|reflexivity]. cbn [negb orb].
    apply fold_has; assumption.
  - apply forallb_forall. apply Forall_forall.
    apply fold_Forall.
    + intros wf Hin _. cbn [fst snd]. rewrite (find_wf_nodup _ _ Hnd Hin). apply IH. lia.
    + intros wf c Hin En. cbn [fst snd]. rewrite (find_wf_nodup _ _ Hnd Hin).
      specialize (Hc wf Hin). unfold const_ok in Hc. rewrite En in Hc.
      apply (populatedb_le fuel); [lia|exact Hc].
    + apply Forall_forall. intros p Hp. unfold fs1 in Hp. apply in_map_iff in Hp.
      destruct Hp as [[num x] [Heq _]]. subst p. cbn [fst snd].
      destruct (find_wf num (wm_fields m)) as [wf|]; [|reflexivity].
      apply IH. lia.
Qed.

(** ** [fill] preserves typing in an environment whose emitted defaults are well typed *)
Definition default_typed (e : env) (wf : wfield) : bool :=
  match wf_nn wf with
  | NNo => true
  | NNMsg => match wf_kind wf with
             | WMsg nm => match lookup nm e with Some _ => true | None => false end
             | _ => false
             end
  | NNConst c => typedb e (wf_kind wf) c
  end.

Definition env_typed (e : env) : bool :=
  forallb (fun p => nodup_nums (map wf_num (wm_fields (snd p))) && forallb (default_typed e) (wm_fields (snd p))) e.

Lemma fill_typed : forall (e : env), env_typed e = true ->
  forall (f : nat) (k : wkind) (v : value), typedb e k v = true -> typedb e k (fill f e k v) = true.
Proof.
  intros e Hok. induction f as [|f IH]; intros k v Ht; [exact Ht|].
  cbn [fill].
  destruct k as [s| |s|name|]; try exact Ht.
  destruct v as [n|b|ns|fs]; try exact Ht.
  destruct (lookup name e) as [m|] eqn:Hl; [|exact Ht].
  cbv zeta.
  set (fs1 := map (fun p : N * value =>
                     (fst p, match find_wf (fst p) (wm_fields m) with
                             | Some wf => fill f e (wf_kind wf) (snd p)
                             | None => snd p
                             end)) fs).
  change (fold_left _ (wm_fields m) fs1) with (fold_left (fill_step f e) (wm_fields m) fs1).
  rewrite typedb_WMsg in Ht. rewrite Hl in Ht.
  rewrite typedb_WMsg. rewrite Hl.
  unfold env_typed in Hok. rewrite forallb_forall in Hok.
  pose proof (Hok _ (lookup_In _ _ _ Hl)) as Hm. cbn [snd] in Hm.
  apply andb_prop in Hm. destruct Hm as [Hnd Hd]. rewrite forallb_forall in Hd.
  unfold typed_fields in *. rewrite forallb_forall in Ht.
  apply forallb_forall. apply Forall_forall.
  apply (fold_Forall f e (fun p => match find_wf (fst p) (wm_fields m) with
                                   | Some wf => typedb e (wf_kind wf) (snd p)
                                   | None => false
                                   end = true)).
  - intros wf Hin En. cbn [fst snd]. rewrite (find_wf_nodup _ _ Hnd Hin).
    apply IH. specialize (Hd wf Hin). unfold default_typed in Hd. rewrite En in Hd.
    destruct (wf_kind wf) as [s| |s|nm|]; try discriminate Hd.
    rewrite typedb_WMsg. destruct (lookup nm e); [reflexivity|discriminate Hd].
  - intros wf c Hin En. cbn [fst snd]. rewrite (find_wf_nodup _ _ Hnd Hin).
    specialize (Hd wf Hin). unfold default_typed in Hd. rewrite En in Hd. exact Hd.
  - apply Forall_forall. intros p Hp. unfold fs1 in Hp. apply in_map_iff in Hp.
    destruct Hp as [[num x] [Heq Hin]]. subst p. cbn [fst snd].
    specialize (Ht _ Hin). cbn [fst snd] in Ht.
    destruct (find_wf num (wm_fields m)) as [wf|]; [|discriminate Ht].
    apply IH. exact Ht.
Qed.

(** The strongest true variant of the cross-family round trip when non-nullable fields may be
    absent: what the gogoproto family emits ([v'] = the value with its absent non-nullable fields
    filled in) is fully populated, hence re-encoded byte for byte by the gogoproto family, and decoded
    to [v'] by the plain proto3 decoder both families share. *)
Theorem roundtrip_absent_partial_lemma : forall (fuel : nat) (e : env) (name : string) (v : value),
  env_ok fuel e = true -> env_typed e = true ->
  typedb e (WMsg name) v = true ->
  let v' := fill fuel e (WMsg name) v in
  gogo_enc fuel e name v = enc v'
  /\ populatedb fuel e (WMsg name) v' = true
  /\ gogo_enc fuel e name v' = enc v'
  /\ decode e name (enc v') = Some v'.
Proof.
  intros fuel e name v Hok Hty Htv v'.
  assert (Ht : typedb e (WMsg name) v' = true) by (apply fill_typed; assumption).
  assert (Hp : populatedb fuel e (WMsg name) v' = true)
    by (apply (fill_populated fuel e Hok fuel (le_n fuel))).
  split; [reflexivity|]. split; [exact Hp|].
  destruct (roundtrip_populated_lemma fuel e name v' Ht Hp) as [H1 [_ H3]].
  split; assumption.
Qed.
