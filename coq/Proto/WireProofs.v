(** * Protobuf wire format (property C20, part (b)): proofs about [Proto/Wire.v].

    - [varint_roundtrip], [read_varints_roundtrip]: the varint layer.
    - [dec_enc_fields], [decode_encode_lemma]: decoding the encoding of a well-typed value
      gives the value back.
    - [populated_fill], [roundtrip_populated_lemma]: on a populated value the gogoproto
      family's marshaller is [enc].
    - [encode_decode_lemma]: the guarded encoder is inverted by the decoder.
    - strict decoder: [strict_implies_decode], [encode_canonical_lemma] (re-encoding a
      strictly decoded input gives the input back, byte for byte). *)
From Irismod Require Import Proto.Wire.
From Coq Require Import String Lia ZArith Znat NArith Bool List.
Import ListNotations.
Open Scope list_scope.
Open Scope N_scope.

(** ** Varints *)

(** [lia] does not know [N.div]/[N.modulo]: abstract quotient and remainder first *)
Ltac abs_divmod n d :=
  let q := fresh "q" in
  let r := fresh "r" in
  let Hq := fresh "Hq" in
  let Hr := fresh "Hr" in
  remember (n / d) as q eqn:Hq; remember (n mod d) as r eqn:Hr; clear Hq Hr.

Lemma size_nat_gt : forall n, n < 2 ^ N.of_nat (N.size_nat n).
Proof.
  intros [|p].
  - reflexivity.
  - cbn [N.size_nat].
    induction p as [p IH|p IH|].
    + cbn [Pos.size_nat]. rewrite Nat2N.inj_succ, N.pow_succ_r'.
      change (N.pos p~1) with (2 * N.pos p + 1). lia.
    + cbn [Pos.size_nat]. rewrite Nat2N.inj_succ, N.pow_succ_r'.
      change (N.pos p~0) with (2 * N.pos p). lia.
    + reflexivity.
Qed.

Lemma div128_lt : forall f n, n < 2 ^ N.of_nat (S f) -> n / 128 < 2 ^ N.of_nat f.
Proof.
  intros f n Hn.
  rewrite Nat2N.inj_succ, N.pow_succ_r' in Hn.
  apply N.div_lt_upper_bound; lia.
Qed.

Lemma read_varint_fuel : forall fuel n rest,
  n < 2 ^ N.of_nat fuel -> read_varint (varint_fuel fuel n ++ rest) = Some (n, rest).
Proof.
  induction fuel as [|f IH]; intros n rest Hn.
  - change (2 ^ N.of_nat 0) with 1 in Hn.
    assert (Hz : n = 0) by lia. subst n. reflexivity.
  - cbn [varint_fuel]. destruct (n <? 128) eqn:E.
    + cbn [app read_varint]. rewrite E. reflexivity.
    + apply N.ltb_ge in E.
      cbn [app read_varint].
      assert (Hm : n mod 128 < 128) by (apply N.mod_lt; discriminate).
      assert (Hd : n = 128 * (n / 128) + n mod 128) by (apply N.div_mod').
      assert (E1 : (n mod 128 + 128 <? 128) = false)
        by (apply N.ltb_ge; abs_divmod n 128; lia).
      assert (E2 : (256 <=? n mod 128 + 128) = false)
        by (apply N.leb_gt; abs_divmod n 128; lia).
      rewrite E1, E2.
      rewrite IH by (apply div128_lt; exact Hn).
      f_equal. f_equal. abs_divmod n 128. lia.
Qed.

Theorem varint_roundtrip : forall (n : N) (rest : list N),
  read_varint (varint n ++ rest) = Some (n, rest).
Proof.
  intros n rest. unfold varint. apply read_varint_fuel. apply size_nat_gt.
Qed.

Lemma varint_fuel_nonempty : forall fuel n, varint_fuel fuel n <> [].
Proof.
  intros [|f] n; cbn [varint_fuel]; [discriminate|].
  destruct (n <? 128); discriminate.
Qed.

Lemma varint_nonempty : forall n, varint n <> [].
Proof. intros n. apply varint_fuel_nonempty. Qed.

Lemma varint_length : forall n, (1 <= length (varint n))%nat.
Proof.
  intros n. pose proof (varint_nonempty n) as H.
  destruct (varint n); [congruence|cbn [length]; lia].
Qed.

Lemma varint_fuel_bytes : forall fuel n,
  n < 2 ^ N.of_nat fuel -> Forall (fun b => b < 256) (varint_fuel fuel n).
Proof.
  induction fuel as [|f IH]; intros n Hn.
  - change (2 ^ N.of_nat 0) with 1 in Hn. cbn [varint_fuel]. constructor; [lia|constructor].
  - cbn [varint_fuel]. destruct (n <? 128) eqn:E.
    + apply N.ltb_lt in E. constructor; [lia|constructor].
    + assert (Hm : n mod 128 < 128) by (apply N.mod_lt; discriminate).
      constructor; [abs_divmod n 128; lia|]. apply IH. apply div128_lt. exact Hn.
Qed.

Lemma varint_bytes : forall n, Forall (fun b => b < 256) (varint n).
Proof. intros n. apply varint_fuel_bytes. apply size_nat_gt. Qed.

Lemma read_varints_roundtrip : forall (ns : list N) (fuel : nat),
  (length (flat_map varint ns) <= fuel)%nat -> read_varints fuel (flat_map varint ns) = Some ns.
Proof.
  induction ns as [|n ns IH]; intros fuel Hl.
  - destruct fuel; reflexivity.
  - cbn [flat_map] in *.
    rewrite app_length in Hl. pose proof (varint_length n) as H1.
    destruct fuel as [|f]; [lia|].
    destruct (varint n ++ flat_map varint ns) as [|b0 bs0] eqn:Hbs.
    + apply app_eq_nil in Hbs. destruct Hbs as [Hbs _]. exfalso. exact (varint_nonempty n Hbs).
    + cbn [read_varints]. rewrite <- Hbs. rewrite varint_roundtrip.
      rewrite IH by lia. reflexivity.
Qed.

(** ** Encoder: the nested fixpoint is [enc_fields] *)

Lemma enc_VMsg : forall fs, enc (VMsg fs) = enc_fields fs.
Proof.
  induction fs as [|[num x] r IH]; [reflexivity|].
  change (enc (VMsg ((num, x) :: r)))
    with ((tag num x ++ match x with VInt _ => enc x | _ => len_delim (enc x) end) ++ enc (VMsg r)).
  rewrite IH. reflexivity.
Qed.

(** ** Typing of a field list *)

Definition typed_fields (e : env) (m : wmsg) (fs : list (N * value)) : bool :=
  forallb (fun p => match find_wf (fst p) (wm_fields m) with
                    | Some wf => typedb e (wf_kind wf) (snd p)
                    | None => false
                    end) fs.

Lemma typedb_WMsg : forall e name fs,
  typedb e (WMsg name) (VMsg fs) =
  match lookup name e with Some m => typed_fields e m fs | None => false end.
Proof.
  intros e name fs. cbn [typedb]. destruct (lookup name e) as [m|]; [|reflexivity].
  induction fs as [|[num x] r IH]; [reflexivity|].
  cbn [typed_fields forallb fst snd].
  destruct (find_wf num (wm_fields m)) as [wf|]; [|reflexivity].
  f_equal. exact IH.
Qed.

Lemma typedb_WMsg_iff : forall e name fs,
  typedb e (WMsg name) (VMsg fs) = true <->
  exists m, lookup name e = Some m /\ typed_fields e m fs = true.
Proof.
  intros e name fs. rewrite typedb_WMsg. split.
  - destruct (lookup name e) as [m|]; [|discriminate].
    intros H. exists m. split; [reflexivity|exact H].
  - intros [m [Hm H]]. rewrite Hm. exact H.
Qed.

(** ** Tag arithmetic, splitting *)

Lemma tag_div : forall num w, w < 8 -> (num * 8 + w) / 8 = num.
Proof.
  intros num w Hw. symmetry. apply N.div_unique with (r := w); [exact Hw|lia].
Qed.

Lemma tag_mod : forall num w, w < 8 -> (num * 8 + w) mod 8 = w.
Proof.
  intros num w Hw. symmetry. apply N.mod_unique with (q := num); [exact Hw|lia].
Qed.

Lemma split_at_app : forall (p rest : list N),
  split_at (N.of_nat (length p)) (p ++ rest) = Some (p, rest).
Proof.
  intros p rest. unfold split_at. rewrite Nat2N.id.
  assert (Hlt : Nat.ltb (length (p ++ rest)) (length p) = false).
  { apply Nat.ltb_ge. rewrite app_length. lia. }
  rewrite Hlt.
  rewrite firstn_app, Nat.sub_diag, firstn_all, firstn_O, app_nil_r.
  rewrite skipn_app, Nat.sub_diag, skipn_all, skipn_O. reflexivity.
Qed.

Lemma wire_type_lt : forall v, wire_type v < 8.
Proof. intros [n|b|ns|fs]; cbn [wire_type]; lia. Qed.

(** ** Decoding an encoding *)

Lemma dec_enc_fields : forall (e : env) (fs : list (N * value)) (m : wmsg),
  typed_fields e m fs = true ->
  forall fuel, (length (enc_fields fs) <= fuel)%nat ->
  dec_fields fuel e m (enc_fields fs) = Some fs.
Proof.
  intros e fs m Ht fuel. revert fs m Ht.
  induction fuel as [|f IH]; intros fs m Ht Hl.
  - destruct fs as [|[num v] r]; [reflexivity|].
    exfalso. unfold enc_fields in Hl. cbn [flat_map] in Hl.
    unfold enc_entry in Hl. cbn [fst snd] in Hl. unfold tag in Hl.
    rewrite !app_length in Hl.
    pose proof (varint_length (num * 8 + wire_type v)). lia.
  - destruct fs as [|[num v] r]; [reflexivity|].
    cbn [typed_fields forallb fst snd] in Ht.
    destruct (find_wf num (wm_fields m)) as [wf|] eqn:Hwf; [|discriminate].
    apply andb_prop in Ht. destruct Ht as [Htv Htr].
    change (forallb _ r) with (typed_fields e m r) in Htr.
    change (enc_fields ((num, v) :: r)) with (enc_entry (num, v) ++ enc_fields r) in *.
    unfold enc_entry in *. cbn [fst snd] in *. unfold tag in *.
    rewrite <- app_assoc in *.
    pose proof (varint_length (num * 8 + wire_type v)) as Hlt.
    rewrite app_length in Hl.
    set (t := num * 8 + wire_type v) in *.
    destruct (varint t ++ _) as [|b0 bs0] eqn:Hbs in |- *.
    { apply app_eq_nil in Hbs. destruct Hbs as [Hbs _]. exfalso. exact (varint_nonempty t Hbs). }
    cbn [dec_fields]. rewrite <- Hbs. clear Hbs b0 bs0.
    rewrite varint_roundtrip. cbv zeta. subst t.
    rewrite tag_div, tag_mod by (apply wire_type_lt).
    rewrite Hwf.
    destruct v as [n|b|ns|fs']; cbn [wire_type] in *.
    + (* varint scalar *)
      change (0 =? 0) with true. cbv iota.
      destruct (wf_kind wf) eqn:Hk; cbn [typedb] in Htv; try discriminate Htv.
      cbn [enc] in *.
      rewrite app_length in Hl.
      rewrite varint_roundtrip.
      rewrite IH; [reflexivity|exact Htr|lia].
    + (* bytes *)
      change (2 =? 0) with false. change (2 =? 2) with true. cbv iota.
      destruct (wf_kind wf) eqn:Hk; cbn [typedb] in Htv; try discriminate Htv.
      cbn [enc] in *. unfold len_delim in *. rewrite <- app_assoc.
      rewrite !app_length in Hl.
      rewrite varint_roundtrip, split_at_app.
      rewrite IH; [reflexivity|exact Htr|lia].
    + (* packed *)
      change (2 =? 0) with false. change (2 =? 2) with true. cbv iota.
      destruct (wf_kind wf) eqn:Hk; cbn [typedb] in Htv; try discriminate Htv.
      cbn [enc] in *. unfold len_delim in *. rewrite <- app_assoc.
      rewrite !app_length in Hl.
      rewrite varint_roundtrip, split_at_app.
      rewrite read_varints_roundtrip by lia.
      rewrite IH; [reflexivity|exact Htr|lia].
    + (* nested message *)
      change (2 =? 0) with false. change (2 =? 2) with true. cbv iota.
      destruct (wf_kind wf) eqn:Hk; try (cbn [typedb] in Htv; discriminate Htv).
      rewrite typedb_WMsg in Htv.
      destruct (lookup name e) as [m'|] eqn:Hm'; [|discriminate].
      rewrite enc_VMsg in *. unfold len_delim in *. rewrite <- app_assoc.
      rewrite !app_length in Hl.
      rewrite varint_roundtrip, split_at_app.
      rewrite (IH fs' m' Htv) by lia.
      rewrite IH; [reflexivity|exact Htr|lia].
Qed.

Theorem decode_encode_lemma : forall (e : env) (name : string) (v : value),
  typedb e (WMsg name) v = true -> decode e name (enc v) = Some v.
Proof.
  intros e name v Ht.
  destruct v as [n|b|ns|fs]; try (cbn [typedb] in Ht; discriminate Ht).
  rewrite typedb_WMsg in Ht. unfold decode.
  destruct (lookup name e) as [m|]; [|discriminate].
  rewrite enc_VMsg. rewrite (dec_enc_fields e fs m Ht) by lia. reflexivity.
Qed.

(** ** The gogoproto family's marshaller on populated values *)

Lemma fold_left_id : forall (A B : Type) (F : A -> B -> A) (l : list B) (acc : A),
  (forall x, In x l -> F acc x = acc) -> fold_left F l acc = acc.
Proof.
  intros A B F l acc. induction l as [|x l IH]; intros H; [reflexivity|].
  cbn [fold_left]. rewrite (H x (in_eq x l)). apply IH.
  intros y Hy. apply H. right. exact Hy.
Qed.

Lemma populated_fill : forall (fuel : nat) (e : env) (k : wkind) (v : value),
  populatedb fuel e k v = true -> fill fuel e k v = v.
Proof.
  induction fuel as [|f IH]; intros e k v Hp; [reflexivity|].
  cbn [populatedb] in Hp. cbn [fill].
  destruct k as [s| |s|name|]; try reflexivity.
  destruct v as [n|b|ns|fs]; try reflexivity.
  destruct (lookup name e) as [m|]; [|reflexivity].
  apply andb_prop in Hp. destruct Hp as [H1 H2].
  rewrite forallb_forall in H1. rewrite forallb_forall in H2.
  cbv zeta.
  assert (Hmap : map (fun p : N * value =>
                        (fst p, match find_wf (fst p) (wm_fields m) with
                                | Some wf => fill f e (wf_kind wf) (snd p)
                                | None => snd p
                                end)) fs = fs).
  { rewrite <- (map_id fs) at 2. apply map_ext_in.
    intros [num x] Hin. cbn [fst snd]. f_equal.
    specialize (H2 _ Hin). cbn [fst snd] in H2.
    destruct (find_wf num (wm_fields m)) as [wf|]; [|reflexivity].
    apply IH. exact H2. }
  rewrite Hmap. f_equal.
  apply fold_left_id.
  intros wf Hin. specialize (H1 _ Hin).
  destruct (has_default wf); destruct (has_field (wf_num wf) fs); try reflexivity.
  discriminate H1.
Qed.

Theorem roundtrip_populated_lemma : forall (fuel : nat) (e : env) (name : string) (v : value),
  typedb e (WMsg name) v = true -> populatedb fuel e (WMsg name) v = true ->
  gogo_enc fuel e name v = enc v
  /\ decode e name (gogo_enc fuel e name v) = Some v
  /\ decode e name (enc v) = Some v.
Proof.
  intros fuel e name v Ht Hp.
  assert (Hg : gogo_enc fuel e name v = enc v).
  { unfold gogo_enc. rewrite (populated_fill fuel e (WMsg name) v Hp). reflexivity. }
  split; [exact Hg|]. rewrite Hg.
  split; apply decode_encode_lemma; exact Ht.
Qed.

Theorem encode_decode_lemma : forall e name v bs,
  encode e name v = Some bs -> decode e name bs = Some v.
Proof.
  intros e name v bs H. unfold encode in H.
  destruct (typedb e (WMsg name) v) eqn:Ht; [|discriminate H].
  destruct (canonb e (WMsg name) v); [|discriminate H].
  cbn [andb] in H. injection H as H. subst bs.
  apply decode_encode_lemma. exact Ht.
Qed.

(** ** A strict decoder: minimal varints only.  What it accepts re-encodes to the input. *)

(** like [read_varint], but an encoding of more than one byte whose last byte is 0 is
    rejected (the value read after a continuation byte must not be 0) *)
Fixpoint read_varint_strict (bs : list N) : option (N * list N) :=
  match bs with
  | [] => None
  | b :: r =>
      if b <? 128 then Some (b, r)
      else if 256 <=? b then None
      else match read_varint_strict r with
           | Some (hi, r') => if hi =? 0 then None else Some (b - 128 + 128 * hi, r')
           | None => None
           end
  end.

(** [bs] is exactly one minimal varint *)
Definition minimal_varint (bs : list N) : bool :=
  match read_varint_strict bs with
  | Some (_, []) => true
  | _ => false
  end.

Fixpoint read_varints_strict (fuel : nat) (bs : list N) : option (list N) :=
  match bs with
  | [] => Some []
  | _ =>
      match fuel with
      | O => None
      | S f =>
          match read_varint_strict bs with
          | Some (n, r) => option_map (cons n) (read_varints_strict f r)
          | None => None
          end
      end
  end.

Fixpoint dec_fields_strict (fuel : nat) (e : env) (m : wmsg) (bs : list N)
  : option (list (N * value)) :=
  match bs with
  | [] => Some []
  | _ =>
      match fuel with
      | O => None
      | S f =>
          match read_varint_strict bs with
          | None => None
          | Some (t, r) =>
              let num := t / 8 in
              let wt := t mod 8 in
              match find_wf num (wm_fields m) with
              | None => None
              | Some wf =>
                  if wt =? 0 then
                    match wf_kind wf with
                    | WVarint _ =>
                        match read_varint_strict r with
                        | None => None
                        | Some (n, r') =>
                            option_map (cons (num, VInt n)) (dec_fields_strict f e m r')
                        end
                    | _ => None
                    end
                  else if wt =? 2 then
                    match read_varint_strict r with
                    | None => None
                    | Some (len, r1) =>
                        match split_at len r1 with
                        | None => None
                        | Some (p, r') =>
                            match wf_kind wf with
                            | WBytes =>
                                option_map (cons (num, VBytes p)) (dec_fields_strict f e m r')
                            | WPacked _ =>
                                match read_varints_strict f p with
                                | None => None
                                | Some ns =>
                                    option_map (cons (num, VPacked ns))
                                               (dec_fields_strict f e m r')
                                end
                            | WMsg name =>
                                match lookup name e with
                                | None => None
                                | Some m' =>
                                    match dec_fields_strict f e m' p with
                                    | None => None
                                    | Some fs =>
                                        option_map (cons (num, VMsg fs))
                                                   (dec_fields_strict f e m r')
                                    end
                                end
                            | _ => None
                            end
                        end
                    end
                  else None
              end
          end
      end
  end.

(** [injection] may reduce arithmetic in the equations it produces; these do not *)
Lemma some_inj : forall (A : Type) (a b : A), Some a = Some b -> a = b.
Proof. intros A a b H. inversion H. reflexivity. Qed.

Lemma some_pair_inj : forall (A B : Type) (a c : A) (b d : B),
  Some (a, b) = Some (c, d) -> a = c /\ b = d.
Proof. intros A B a c b d H. inversion H. split; reflexivity. Qed.

(** *** strict implies lenient *)

Lemma read_varint_strict_sound : forall bs x,
  read_varint_strict bs = Some x -> read_varint bs = Some x.
Proof.
  induction bs as [|b r IH]; intros x H; [discriminate H|].
  cbn [read_varint_strict] in H. cbn [read_varint].
  destruct (b <? 128); [exact H|].
  destruct (256 <=? b); [discriminate H|].
  destruct (read_varint_strict r) as [[hi r']|]; [|discriminate H].
  rewrite (IH _ eq_refl).
  destruct (hi =? 0); [discriminate H|exact H].
Qed.

Lemma read_varints_strict_sound : forall fuel bs ns,
  read_varints_strict fuel bs = Some ns -> read_varints fuel bs = Some ns.
Proof.
  induction fuel as [|f IH]; intros bs ns H.
  - destruct bs; [exact H|discriminate H].
  - destruct bs as [|b0 bs0]; [exact H|].
    cbn [read_varints_strict] in H. cbn [read_varints].
    destruct (read_varint_strict (b0 :: bs0)) as [[n r]|] eqn:Hn; [|discriminate H].
    rewrite (read_varint_strict_sound _ _ Hn).
    destruct (read_varints_strict f r) as [l|] eqn:Hr; [|discriminate H].
    rewrite (IH _ _ Hr). exact H.
Qed.

Theorem strict_implies_decode : forall fuel e m bs fs,
  dec_fields_strict fuel e m bs = Some fs -> dec_fields fuel e m bs = Some fs.
Proof.
  induction fuel as [|f IH]; intros e m bs fs H.
  - destruct bs; [exact H|discriminate H].
  - destruct bs as [|b0 bs0]; [exact H|].
    cbn [dec_fields_strict] in H. cbn [dec_fields].
    destruct (read_varint_strict (b0 :: bs0)) as [[t r]|] eqn:Ht; [|discriminate H].
    rewrite (read_varint_strict_sound _ _ Ht).
    cbv zeta in *.
    destruct (find_wf (t / 8) (wm_fields m)) as [wf|]; [|discriminate H].
    destruct (t mod 8 =? 0).
    + destruct (wf_kind wf); try discriminate H.
      destruct (read_varint_strict r) as [[n r']|] eqn:Hn; [|discriminate H].
      rewrite (read_varint_strict_sound _ _ Hn).
      destruct (dec_fields_strict f e m r') as [fs'|] eqn:Hr; [|discriminate H].
      rewrite (IH _ _ _ _ Hr). exact H.
    + destruct (t mod 8 =? 2); [|discriminate H].
      destruct (read_varint_strict r) as [[len r1]|] eqn:Hn; [|discriminate H].
      rewrite (read_varint_strict_sound _ _ Hn).
      destruct (split_at len r1) as [[p r']|]; [|discriminate H].
      destruct (wf_kind wf) as [s| |s|name|]; try discriminate H.
      * destruct (dec_fields_strict f e m r') as [fs'|] eqn:Hr; [|discriminate H].
        rewrite (IH _ _ _ _ Hr). exact H.
      * destruct (read_varints_strict f p) as [ns|] eqn:Hp; [|discriminate H].
        rewrite (read_varints_strict_sound _ _ _ Hp).
        destruct (dec_fields_strict f e m r') as [fs'|] eqn:Hr; [|discriminate H].
        rewrite (IH _ _ _ _ Hr). exact H.
      * destruct (lookup name e) as [m'|]; [|discriminate H].
        destruct (dec_fields_strict f e m' p) as [fs1|] eqn:Hp; [|discriminate H].
        rewrite (IH _ _ _ _ Hp).
        destruct (dec_fields_strict f e m r') as [fs'|] eqn:Hr; [|discriminate H].
        rewrite (IH _ _ _ _ Hr). exact H.
Qed.

(** *** what the strict decoder accepts is what the encoder writes *)

Lemma read_varint_strict_fuel : forall bs n r,
  read_varint_strict bs = Some (n, r) ->
  forall fuel, n < 2 ^ N.of_nat fuel -> bs = varint_fuel fuel n ++ r.
Proof.
  induction bs as [|b bs IH]; intros n r H fuel Hn; [discriminate H|].
  cbn [read_varint_strict] in H.
  destruct (b <? 128) eqn:E.
  - injection H as H1 H2. subst b bs.
    destruct fuel as [|f]; cbn [varint_fuel]; [reflexivity|]. rewrite E. reflexivity.
  - destruct (256 <=? b) eqn:E2; [discriminate H|].
    destruct (read_varint_strict bs) as [[hi r']|] eqn:Hr; [|discriminate H].
    destruct (hi =? 0) eqn:Ez; [discriminate H|].
    apply some_pair_inj in H. destruct H as [H1 H2]. subst r'.
    apply N.ltb_ge in E. apply N.leb_gt in E2. apply N.eqb_neq in Ez.
    assert (Hmod : n mod 128 = b - 128).
    { symmetry. apply N.mod_unique with (q := hi); lia. }
    assert (Hdiv : n / 128 = hi).
    { symmetry. apply N.div_unique with (r := b - 128); lia. }
    destruct fuel as [|f].
    + change (2 ^ N.of_nat 0) with 1 in Hn. lia.
    + cbn [varint_fuel].
      assert (E3 : (n <? 128) = false) by (apply N.ltb_ge; lia).
      rewrite E3, Hmod, Hdiv.
      replace (b - 128 + 128) with b by lia.
      cbn [app]. f_equal.
      apply IH; [reflexivity|]. rewrite <- Hdiv. apply div128_lt. exact Hn.
Qed.

Lemma read_varint_strict_canon : forall bs n r,
  read_varint_strict bs = Some (n, r) -> bs = varint n ++ r.
Proof.
  intros bs n r H. unfold varint.
  apply (read_varint_strict_fuel bs n r H). apply size_nat_gt.
Qed.

(** and conversely: the strict reader accepts every [varint] *)
Lemma read_varint_strict_fuel_complete : forall fuel n rest,
  n < 2 ^ N.of_nat fuel -> read_varint_strict (varint_fuel fuel n ++ rest) = Some (n, rest).
Proof.
  induction fuel as [|f IH]; intros n rest Hn.
  - change (2 ^ N.of_nat 0) with 1 in Hn.
    assert (Hz : n = 0) by lia. subst n. reflexivity.
  - cbn [varint_fuel]. destruct (n <? 128) eqn:E.
    + cbn [app read_varint_strict]. rewrite E. reflexivity.
    + apply N.ltb_ge in E.
      cbn [app read_varint_strict].
      assert (Hm : n mod 128 < 128) by (apply N.mod_lt; discriminate).
      assert (Hd : n = 128 * (n / 128) + n mod 128) by (apply N.div_mod').
      assert (E1 : (n mod 128 + 128 <? 128) = false)
        by (apply N.ltb_ge; abs_divmod n 128; lia).
      assert (E2 : (256 <=? n mod 128 + 128) = false)
        by (apply N.leb_gt; abs_divmod n 128; lia).
      assert (E3 : (n / 128 =? 0) = false)
        by (apply N.eqb_neq; abs_divmod n 128; lia).
      rewrite E1, E2.
      rewrite IH by (apply div128_lt; exact Hn).
      rewrite E3.
      f_equal. f_equal. abs_divmod n 128. lia.
Qed.

Lemma read_varint_strict_varint : forall n rest,
  read_varint_strict (varint n ++ rest) = Some (n, rest).
Proof.
  intros n rest. unfold varint. apply read_varint_strict_fuel_complete. apply size_nat_gt.
Qed.

Lemma minimal_varint_varint : forall n, minimal_varint (varint n) = true.
Proof.
  intros n. unfold minimal_varint.
  rewrite <- (app_nil_r (varint n)). rewrite read_varint_strict_varint. reflexivity.
Qed.

Lemma read_varints_strict_canon : forall fuel bs ns,
  read_varints_strict fuel bs = Some ns -> flat_map varint ns = bs.
Proof.
  induction fuel as [|f IH]; intros bs ns H.
  - destruct bs; [|discriminate H]. injection H as H. subst ns. reflexivity.
  - destruct bs as [|b0 bs0].
    { injection H as H. subst ns. reflexivity. }
    cbn [read_varints_strict] in H.
    destruct (read_varint_strict (b0 :: bs0)) as [[n r]|] eqn:Hn; [|discriminate H].
    apply read_varint_strict_canon in Hn. rewrite Hn.
    destruct (read_varints_strict f r) as [l|] eqn:Hr; [|discriminate H].
    cbn [option_map] in H. apply some_inj in H. subst ns.
    cbn [flat_map]. rewrite (IH _ _ Hr). reflexivity.
Qed.

Lemma split_at_inv : forall len bs p r,
  split_at len bs = Some (p, r) -> bs = p ++ r /\ N.of_nat (length p) = len.
Proof.
  intros len bs p r H. unfold split_at in H.
  destruct (Nat.ltb (length bs) (N.to_nat len)) eqn:E; [discriminate H|].
  apply Nat.ltb_ge in E. injection H as H1 H2. subst p r. split.
  - symmetry. apply firstn_skipn.
  - rewrite firstn_length_le by exact E. apply N2Nat.id.
Qed.

Lemma enc_fields_cons : forall p r, enc_fields (p :: r) = enc_entry p ++ enc_fields r.
Proof. reflexivity. Qed.

Theorem encode_canonical_lemma : forall fuel e m bs fs,
  dec_fields_strict fuel e m bs = Some fs -> enc_fields fs = bs.
Proof.
  induction fuel as [|f IH]; intros e m bs fs H.
  - destruct bs; [|discriminate H]. injection H as H. subst fs. reflexivity.
  - destruct bs as [|b0 bs0].
    { injection H as H. subst fs. reflexivity. }
    cbn [dec_fields_strict] in H.
    destruct (read_varint_strict (b0 :: bs0)) as [[t r]|] eqn:Ht; [|discriminate H].
    apply read_varint_strict_canon in Ht. rewrite Ht. clear Ht b0 bs0.
    cbv zeta in H.
    destruct (find_wf (t / 8) (wm_fields m)) as [wf|]; [|discriminate H].
    assert (Htd : t = t / 8 * 8 + t mod 8) by (rewrite N.mul_comm; apply N.div_mod').
    destruct (t mod 8 =? 0) eqn:E0.
    + apply N.eqb_eq in E0. rewrite E0 in Htd.
      destruct (wf_kind wf); try discriminate H.
      destruct (read_varint_strict r) as [[n r']|] eqn:Hn; [|discriminate H].
      apply read_varint_strict_canon in Hn. subst r.
      destruct (dec_fields_strict f e m r') as [fs'|] eqn:Hr; [|discriminate H].
      cbn [option_map] in H. apply some_inj in H. subst fs.
      rewrite enc_fields_cons, (IH _ _ _ _ Hr).
      unfold enc_entry, tag. cbn [fst snd wire_type enc].
      rewrite <- Htd, <- app_assoc. reflexivity.
    + destruct (t mod 8 =? 2) eqn:E2; [|discriminate H].
      apply N.eqb_eq in E2. rewrite E2 in Htd.
      destruct (read_varint_strict r) as [[len r1]|] eqn:Hn; [|discriminate H].
      apply read_varint_strict_canon in Hn. subst r.
      destruct (split_at len r1) as [[p r']|] eqn:Hs; [|discriminate H].
      apply split_at_inv in Hs. destruct Hs as [Hr1 Hlen]. subst r1.
      destruct (wf_kind wf) as [s| |s|name|]; try discriminate H.
      * destruct (dec_fields_strict f e m r') as [fs'|] eqn:Hr; [|discriminate H].
        cbn [option_map] in H. apply some_inj in H. subst fs.
        rewrite enc_fields_cons, (IH _ _ _ _ Hr).
        unfold enc_entry, tag, len_delim. cbn [fst snd wire_type enc].
        rewrite <- Htd, Hlen, <- !app_assoc. reflexivity.
      * destruct (read_varints_strict f p) as [ns|] eqn:Hp; [|discriminate H].
        apply read_varints_strict_canon in Hp.
        destruct (dec_fields_strict f e m r') as [fs'|] eqn:Hr; [|discriminate H].
        cbn [option_map] in H. apply some_inj in H. subst fs.
        rewrite enc_fields_cons, (IH _ _ _ _ Hr).
        unfold enc_entry, tag, len_delim. cbn [fst snd wire_type enc].
        rewrite Hp, <- Htd, Hlen, <- !app_assoc. reflexivity.
      * destruct (lookup name e) as [m'|]; [|discriminate H].
        destruct (dec_fields_strict f e m' p) as [fs1|] eqn:Hp; [|discriminate H].
        apply IH in Hp.
        destruct (dec_fields_strict f e m r') as [fs'|] eqn:Hr; [|discriminate H].
        cbn [option_map] in H. apply some_inj in H. subst fs.
        rewrite enc_fields_cons, (IH _ _ _ _ Hr).
        unfold enc_entry, tag, len_delim. cbn [fst snd wire_type].
        rewrite enc_VMsg, Hp, <- Htd, Hlen, <- !app_assoc. reflexivity.
Qed.

(** the strict decoder accepts every encoding of a well-typed value *)
Lemma read_varints_strict_roundtrip : forall (ns : list N) (fuel : nat),
  (length (flat_map varint ns) <= fuel)%nat ->
  read_varints_strict fuel (flat_map varint ns) = Some ns.
Proof.
  induction ns as [|n ns IH]; intros fuel Hl.
  - destruct fuel; reflexivity.
  - cbn [flat_map] in *.
    rewrite app_length in Hl. pose proof (varint_length n) as H1.
    destruct fuel as [|f]; [lia|].
    destruct (varint n ++ flat_map varint ns) as [|b0 bs0] eqn:Hbs.
    + apply app_eq_nil in Hbs. destruct Hbs as [Hbs _]. exfalso. exact (varint_nonempty n Hbs).
    + cbn [read_varints_strict]. rewrite <- Hbs. rewrite read_varint_strict_varint.
      rewrite IH by lia. reflexivity.
Qed.

Lemma dec_strict_enc_fields : forall (e : env) (fs : list (N * value)) (m : wmsg),
  typed_fields e m fs = true ->
  forall fuel, (length (enc_fields fs) <= fuel)%nat ->
  dec_fields_strict fuel e m (enc_fields fs) = Some fs.
Proof.
  intros e fs m Ht fuel. revert fs m Ht.
  induction fuel as [|f IH]; intros fs m Ht Hl.
  - destruct fs as [|[num v] r]; [reflexivity|].
    exfalso. unfold enc_fields in Hl. cbn [flat_map] in Hl.
    unfold enc_entry in Hl. cbn [fst snd] in Hl. unfold tag in Hl.
    rewrite !app_length in Hl.
    pose proof (varint_length (num * 8 + wire_type v)). lia.
  - destruct fs as [|[num v] r]; [reflexivity|].
    cbn [typed_fields forallb fst snd] in Ht.
    destruct (find_wf num (wm_fields m)) as [wf|] eqn:Hwf; [|discriminate].
    apply andb_prop in Ht. destruct Ht as [Htv Htr].
    change (forallb _ r) with (typed_fields e m r) in Htr.
    change (enc_fields ((num, v) :: r)) with (enc_entry (num, v) ++ enc_fields r) in *.
    unfold enc_entry in *. cbn [fst snd] in *. unfold tag in *.
    rewrite <- app_assoc in *.
    pose proof (varint_length (num * 8 + wire_type v)) as Hlt.
    rewrite app_length in Hl.
    set (t := num * 8 + wire_type v) in *.
    destruct (varint t ++ _) as [|b0 bs0] eqn:Hbs in |- *.
    { apply app_eq_nil in Hbs. destruct Hbs as [Hbs _]. exfalso. exact (varint_nonempty t Hbs). }
    cbn [dec_fields_strict]. rewrite <- Hbs. clear Hbs b0 bs0.
    rewrite read_varint_strict_varint. cbv zeta. subst t.
    rewrite tag_div, tag_mod by (apply wire_type_lt).
    rewrite Hwf.
    destruct v as [n|b|ns|fs']; cbn [wire_type] in *.
    + change (0 =? 0) with true. cbv iota.
      destruct (wf_kind wf) eqn:Hk; cbn [typedb] in Htv; try discriminate Htv.
      cbn [enc] in *.
      rewrite app_length in Hl.
      rewrite read_varint_strict_varint.
      rewrite IH; [reflexivity|exact Htr|lia].
    + change (2 =? 0) with false. change (2 =? 2) with true. cbv iota.
      destruct (wf_kind wf) eqn:Hk; cbn [typedb] in Htv; try discriminate Htv.
      cbn [enc] in *. unfold len_delim in *. rewrite <- app_assoc.
      rewrite !app_length in Hl.
      rewrite read_varint_strict_varint, split_at_app.
      rewrite IH; [reflexivity|exact Htr|lia].
    + change (2 =? 0) with false. change (2 =? 2) with true. cbv iota.
      destruct (wf_kind wf) eqn:Hk; cbn [typedb] in Htv; try discriminate Htv.
      cbn [enc] in *. unfold len_delim in *. rewrite <- app_assoc.
      rewrite !app_length in Hl.
      rewrite read_varint_strict_varint, split_at_app.
      rewrite read_varints_strict_roundtrip by lia.
      rewrite IH; [reflexivity|exact Htr|lia].
    + change (2 =? 0) with false. change (2 =? 2) with true. cbv iota.
      destruct (wf_kind wf) eqn:Hk; try (cbn [typedb] in Htv; discriminate Htv).
      rewrite typedb_WMsg in Htv.
      destruct (lookup name e) as [m'|] eqn:Hm'; [|discriminate].
      rewrite enc_VMsg in *. unfold len_delim in *. rewrite <- app_assoc.
      rewrite !app_length in Hl.
      rewrite read_varint_strict_varint, split_at_app.
      rewrite (IH fs' m' Htv) by lia.
      rewrite IH; [reflexivity|exact Htr|lia].
Qed.

Print Assumptions decode_encode_lemma.
Print Assumptions roundtrip_populated_lemma.
Print Assumptions strict_implies_decode.
Print Assumptions encode_canonical_lemma.
