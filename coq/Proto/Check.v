(** * C20: what is evaluated by [vm_compute] on the cases the driver writes.

    Depends on the definitions only ([Desc], [Wire], [WireEnv], the regenerated
    [Gen/Descriptors.v]) - not on any proof - so it still runs when an obligation breaks and
    can then name the failing (file, message, field).

    Two kinds of cases:
    - static cases ([scase]): one per file / message / enum / service / transaction message /
      source file; they re-evaluate, item by item, exactly what the theorems
      [families_agree], [every_msg_registered], [signer_well_formed], [proto_sources_agree]
      state about the whole descriptor set;
    - wire cases ([wcase]): a message name, a value tree, and the bytes both generated
      families produced for it (and for each other's output). *)
From Irismod Require Export Proto.Desc Proto.Wire Proto.WireEnv Gen.Descriptors.
Open Scope N_scope.

Definition seqb := String.eqb.

(** ** Static cases *)
Inductive scase :=
| SFile (name : string)          (* file-level data other than options: package, syntax, imports *)
| SMsg (file full : string)      (* a message (fields, numbers, types, labels, json names, options) *)
| SEnum (file full : string)
| SSvc (file full : string)
| STx (full : string)            (* a transaction message: registered, signer resolves *)
| SSrc (file : string)           (* the .proto text against the descriptors *)
| SDep (full : string)           (* an imported message (Coin, PageRequest, ...): wire projection *)
| SGrpc (full : string)          (* the grpc.ServiceDesc of a service, in both families' Go code *)
| SNone.

Definition find_file (name : string) (fs : list file) : option file :=
  find (fun f => seqb (fl_name f) name) fs.

Definition scoped_pulsar : list file := in_scope gogo_scope pulsar_files.

Fixpoint first_diff {A} (eq : A -> A -> bool) (a b : list A) (i : Z) : Z :=
  match a, b with
  | [], [] => (-1)%Z
  | x :: a', y :: b' => if eq x y then first_diff eq a' b' (i + 1)%Z else i
  | _, _ => i
  end.

Definition opt_diff {A} (eq : A -> A -> Z) (a b : option A) : Z :=
  match a, b with
  | Some x, Some y => eq x y
  | None, None => (-1)%Z
  | _, _ => 0%Z
  end.

(** index of the first differing field (or of the message header: number of fields) *)
Definition msg_diff (a b : message) : Z :=
  let d := first_diff (fun x y : field => Prelude.eqb x y) (m_fields a) (m_fields b) 0%Z in
  if (0 <=? d)%Z then d
  else if Prelude.eqb a b then (-1)%Z else Z.of_nat (length (m_fields a)).

Definition in_gogo_scope (file : string) : bool := mem_str file gogo_scope.

Definition check_static (c : scase) : Z * Z * Z :=
  match c with
  | SFile name =>
      if in_gogo_scope name then
        let hdr f := (fl_name f, fl_pkg f, fl_syntax f, fl_deps f,
                      map m_full (fl_msgs f), map e_full (fl_enums f), map s_full (fl_services f)) in
        let d := opt_diff (fun x y => if Prelude.eqb (hdr x) (hdr y) then (-1)%Z else 0%Z)
                          (find_file name gogo_files) (find_file name pulsar_files) in
        (-1, d, 10)%Z
      else
        (* api-only file: must exist in the api family and must not exist in the other *)
        match find_file name gogo_files, find_file name pulsar_files with
        | None, Some _ => (-1, -1, 10)%Z
        | _, _ => (-1, 0, 10)%Z
        end
  | SMsg file full =>
      if in_gogo_scope file then
        (-1, opt_diff msg_diff (find_msg full (all_msgs gogo_files)) (find_msg full (all_msgs pulsar_files)), 11)%Z
      else (-1, -1, 11)%Z
  | SEnum file full =>
      if in_gogo_scope file then
        let fe fs := find (fun e => seqb (e_full e) full) (flat_map fl_enums fs) in
        (-1, opt_diff (fun x y : enum => if Prelude.eqb x y then (-1)%Z else 0%Z) (fe gogo_files) (fe pulsar_files), 12)%Z
      else (-1, -1, 12)%Z
  | SSvc file full =>
      if in_gogo_scope file then
        let fsv fs := find (fun s => seqb (s_full s) full) (all_services fs) in
        (-1, opt_diff (fun x y : service =>
                         let d := first_diff (fun a b : method => Prelude.eqb a b) (s_methods x) (s_methods y) 0%Z in
                         if (0 <=? d)%Z then d else if Prelude.eqb x y then (-1)%Z else Z.of_nat (length (s_methods x)))
                      (fsv gogo_files) (fsv pulsar_files), 13)%Z
      else (-1, -1, 13)%Z
  | STx full =>
      let reg := mem_str (String "/" full) registered_msgs in
      let sg := resolves_b 8 (all_msgs gogo_files) full && resolves_b 8 (all_msgs pulsar_files) full in
      if negb reg then (-1, 0, 20)%Z else if negb sg then (-1, 1, 21)%Z else (-1, -1, 20)%Z
  | SSrc file =>
      let of_file rows := filter (fun r => match r with
                                           | RFile f _ | RMsg f _ | REnum f _ | RSvc f _ _ | RUnsupported f _ _ => seqb f file
                                           | _ => false end) rows in
      (* rows of one file: from its RFile row up to the next RFile row *)
      let fix take (on : bool) (rows : list srow) : list srow :=
        match rows with
        | [] => []
        | r :: rest =>
            match r with
            | RFile f _ => if seqb f file then r :: take true rest else take false rest
            | _ => if on then r :: take on rest else take on rest
            end
        end in
      let a := take false (src_norm source_rows) in
      let b := take false (desc_rows aggregate_opts pulsar_files) in
      ((-1)%Z, first_diff (fun x y : srow => Prelude.eqb x y) a b 0%Z, 30%Z)
  | SDep full =>
      let pr fs := find (fun p => seqb (fst p) full) (wire_proj fs) in
      (-1, opt_diff (fun x y => if Prelude.eqb x y then (-1)%Z else 0%Z) (pr gogo_deps) (pr pulsar_deps), 14)%Z
  | SGrpc full =>
      let fg (l : list gsvc) := find (fun g => seqb (g_name g) full) l in
      let want := fg (grpc_proj pulsar_files) in
      let same (a b : option gsvc) :=
        match a, b with
        | Some x, Some y =>
            if Prelude.eqb x y then (-1)%Z
            else let d := first_diff (fun p q : string * string * bool * bool => Prelude.eqb p q)
                                     (g_methods x) (g_methods y) 0%Z in
                 if (0 <=? d)%Z then d else Z.of_nat (length (g_methods x))
        | None, None => (-1)%Z
        | _, _ => 0%Z
        end in
      let dg := same (fg gogo_grpc) want in
      let dp := same (fg pulsar_grpc) want in
      (-1, (if (0 <=? dg)%Z then dg else dp), 15)%Z
  | SNone => (-1, -1, 0)%Z
  end.

(** ** Wire cases *)
Record wcase := mkW {
  w_mode : N;           (* 0 populated, 1 absent non-nullable, 2 map with several entries, 3 kind mismatch *)
  w_msg : string;
  w_val : value;
  w_pb : list N;        (* protobuf-go (api/ family) marshalled the value *)
  w_gb : list N;        (* gogoproto family decoded [w_pb] and marshalled it *)
  w_g2b : list N;       (* gogoproto family decoded [w_gb] and marshalled again *)
  w_p2b : list N;       (* api/ family decoded [w_gb] and marshalled it *)
  w_eqp : bool;         (* api/ family: decoded [w_gb] equals the original message (proto.Equal) *)
  w_unstable : bool;    (* repeated marshalling by the gogoproto family gave different bytes *)
  w_err : N             (* bit mask of build / marshal / unmarshal errors *)
}.

Definition VB (hex : string) : value := VBytes (unhex_bytes hex).

Definition penv : env := wire_env false (pulsar_files ++ pulsar_deps).
Definition genv : env := wire_env true (gogo_files ++ gogo_deps).
(** the api/ family's descriptors read the way the gogoproto code generator reads them (the
    customtype option is carried by both families' descriptors) *)
Definition penv_g : env := wire_env true (pulsar_files ++ pulsar_deps).
Definition FUEL : nat := 40.

(** some map field of the value (at any depth) has two or more entries *)
Definition is_map_field (e : env) (m : wmsg) (num : N) : bool :=
  match find_wf num (wm_fields m) with
  | Some wf => match wf_kind wf with
               | WMsg nm => match lookup nm e with Some m' => wm_entry m' | None => false end
               | _ => false
               end
  | None => false
  end.

Fixpoint multi_map (fuel : nat) (e : env) (k : wkind) (v : value) : bool :=
  match fuel with
  | O => false
  | S f =>
      match k, v with
      | WMsg name, VMsg fs =>
          match lookup name e with
          | None => false
          | Some m =>
              (fix go (l : list (N * value)) : bool :=
                 match l with
                 | (n1, _) :: r =>
                     match r with
                     | (n2, _) :: _ => ((n1 =? n2) && is_map_field e m n1) || go r
                     | [] => false
                     end
                 | [] => false
                 end) fs
              || existsb (fun p => match find_wf (fst p) (wm_fields m) with
                                   | Some wf => multi_map f e (wf_kind wf) (snd p)
                                   | None => false
                                   end) fs
          end
      | _, _ => false
      end
  end.

Fixpoint bytes_eqb (a b : list N) : bool :=
  match a, b with
  | [], [] => true
  | x :: a', y :: b' => (x =? y) && bytes_eqb a' b'
  | _, _ => false
  end.

Definition obytes_eqb (a : option (list N)) (b : list N) : bool :=
  match a with Some x => bytes_eqb x b | None => false end.

Fixpoint value_eqb (a b : value) {struct a} : bool :=
  match a, b with
  | VInt x, VInt y => x =? y
  | VBytes x, VBytes y => bytes_eqb x y
  | VPacked x, VPacked y => bytes_eqb x y
  | VMsg x, VMsg y =>
      (fix go (l1 l2 : list (N * value)) : bool :=
         match l1, l2 with
         | [], [] => true
         | (n1, v1) :: r1, (n2, v2) :: r2 => (n1 =? n2) && value_eqb v1 v2 && go r1 r2
         | _, _ => false
         end) x y
  | _, _ => false
  end.

(** the model of the gogoproto family's marshaller *)
Definition model_gogo (name : string) (v : value) : option (list N) :=
  match encode genv name v with
  | Some _ => Some (gogo_enc FUEL genv name v)
  | None => None
  end.

(** [holds_C20] on what the two implementations did with one value: both families produce the
    same bytes, each re-encodes the other's bytes to the same bytes, the decoded message is
    equal, no error, stable output *)
Definition holds_C20 (c : wcase) : bool :=
  let pb := w_pb c in
  let gb := w_gb c in
  (w_err c =? 0) && bytes_eqb pb gb && bytes_eqb (w_g2b c) pb
  && bytes_eqb (w_p2b c) gb && w_eqp c && negb (w_unstable c).

Definition check_wire (c : wcase) : Z * Z * Z :=
  let name := w_msg c in
  let v := w_val c in
  let pb := w_pb c in
  let gb := w_gb c in
  let g2b := w_g2b c in
  let p2b := w_p2b c in
  let holds := holds_C20 c in
  if w_mode c =? 3 then
    (* the value is typed as the gogoproto family sees the message (numeral in place of a message) *)
    let corr := obytes_eqb (encode genv name v) gb && bytes_eqb g2b gb in
    (* known only when the SOLE difference is the customtype reading of the field: the api/
       family's descriptors, read as the gogoproto generator reads them, give the same bytes *)
    let known := corr && obytes_eqb (encode penv_g name v) gb && negb (typedb penv (WMsg name) v) in
    ((if corr then -1 else 0), (if holds then -1 else 0), (if known then 4 else 2))%Z
  else
    let differ := negb (bytes_eqb pb gb) in
    let corr :=
      obytes_eqb (encode penv name v) pb
      && obytes_eqb (model_gogo name v) gb
      && bytes_eqb g2b gb && bytes_eqb p2b gb
      && Bool.eqb (w_eqp c) (negb differ) && (w_err c =? 0)
      && match decode penv name pb with Some v' => value_eqb v' v | None => false end
      && match decode genv name gb with
         | Some v' => value_eqb v' (fill FUEL genv (WMsg name) v)
         | None => false
         end in
    let code :=
      if holds then 0%Z
      else if corr && differ && negb (w_unstable c) then 1%Z        (* only absent non-nullable fields differ *)
      else if corr && negb differ && w_unstable c && multi_map FUEL genv (WMsg name) v
           then 3%Z                                                   (* only the order of map entries differs *)
      else 2%Z in
    ((if corr then -1 else 0), (if holds then -1 else 0), code)%Z.
