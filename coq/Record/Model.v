(** * Record module: executable model (modules/record/keeper/{keeper,msg_server}.go)

    A record is (tx hash, contents, creator).  [AddRecord] stores the record under
    [tmhash(record bytes ++ be32 counter)] and increments a global counter (a [uint32],
    never reset).  The hash is modelled as an injective function, so the id *is* its
    pre-image [(record, counter)]; the harness checks on every creation that the real id
    is the SHA-256 of exactly that pre-image. *)
From Irismod Require Export Base.Prelude.

(** interned strings: 0 is the empty string *)
Definition content := (Z * Z * Z * Z)%type.          (* digest, digest_algo, uri, meta *)
Definition rec := (Z * list content * Z)%type.        (* tx hash, contents, creator *)
Definition rid := (rec * Z)%type.                     (* pre-image of the id: record, counter *)

Record state := mkState { store : amap rid rec; counter : Z }.

Definition init : state := mkState [] 0.

Definition msg := (Z * list content)%type.            (* creator (-1: not an address), contents *)

Definition content_ok (c : content) : bool :=
  let '(d, a, _, _) := c in negb (d =? 0) && negb (a =? 0).

(** MsgCreateRecord.ValidateBasic *)
Definition msg_ok (m : msg) : bool :=
  let '(creator, cs) := m in
  match cs with [] => false | _ => (0 <=? creator) && forallb content_ok cs end.

Definition two32 : Z := 4294967296.

(** Keeper.AddRecord *)
Definition add_record (s : state) (r : rec) : state * rid :=
  let id := (r, counter s) in
  (mkState (set id r (store s)) ((counter s + 1) mod two32), id).

(** msgServer.CreateRecord (after ValidateBasic) *)
Definition exec_msg (s : state) (txh : Z) (m : msg) : option (state * (rid * rec)) :=
  if msg_ok m then
    let '(creator, cs) := m in
    let r := (txh, cs, creator) in
    let '(s', id) := add_record s r in Some (s', (id, r))
  else None.

(** all messages of a transaction, or nothing *)
Fixpoint exec_msgs (s : state) (txh : Z) (ms : list msg) : option (state * list (rid * rec)) :=
  match ms with
  | [] => Some (s, [])
  | m :: ms' =>
      match exec_msg s txh m with
      | None => None
      | Some (s1, c) =>
          match exec_msgs s1 txh ms' with
          | None => None
          | Some (s2, cs) => Some (s2, c :: cs)
          end
      end
  end.

Inductive step := Tx (txh : Z) (ms : list msg) | Block.

(** state after the step and the (id, record) pairs it created (none if rolled back) *)
Definition exec_step (s : state) (st : step) : state * list (rid * rec) :=
  match st with
  | Tx txh ms => match exec_msgs s txh ms with Some r => r | None => (s, []) end
  | Block => (s, [])
  end.

Definition step_ok (s : state) (st : step) : bool :=
  match st with
  | Tx txh ms => match exec_msgs s txh ms with Some _ => true | None => false end
  | Block => true
  end.

Fixpoint run (s : state) (steps : list step) : state :=
  match steps with
  | [] => s
  | st :: rest => run (fst (exec_step s st)) rest
  end.

(** every (id, record) created along a history, in order *)
Fixpoint created (s : state) (steps : list step) : list (rid * rec) :=
  match steps with
  | [] => []
  | st :: rest => snd (exec_step s st) ++ created (fst (exec_step s st)) rest
  end.

Definition query (s : state) (id : rid) : option rec := get id (store s).
