(** * Record: correspondence check and the C19 trace predicate, evaluated by [vm_compute]
    on the cases the harness writes.

    The check is generic in the type [I] of implementation-side ids: the harness uses
    interned numbers ([I := Z]: equal bytes <-> equal number); [Record/Sound.v] instantiates
    it with the model's own ids to prove that every trace of the model passes. *)
From Irismod Require Export Record.Model.

Section Check.
  Context {I : Type} `{EqDec I}.

  (** what the implementation showed after a step *)
  Record obs := mkObs {
    o_code : Z;                         (* 0 ok, 1 rejected, 2 abort *)
    o_ids : list I;                     (* ids returned *)
    o_counter : Z;                      (* IntraTxCounter afterwards *)
    o_reads : list (I * option rec)     (* query by every id returned so far *)
  }.

  (** bookkeeping: implementation id, model id, submitted record *)
  Definition known := list (I * rid * rec).

  Fixpoint zip3 (iids : list I) (cs : list (rid * rec)) : known :=
    match iids, cs with
    | i :: iids', (m, r) :: cs' => (i, m, r) :: zip3 iids' cs'
    | _, _ => []
    end.

  Definition lookup_read (i : I) (reads : list (I * option rec)) : option (option rec) := get i reads.

  (** correspondence of one step: outcome kind, counter, number of ids, and every read-back
      equal to the model's query under the model's id *)
  Definition corr_step (s s' : state) (st : step) (cs : list (rid * rec)) (o : obs) (kn : known) : bool :=
    (o_code o =? (if step_ok s st then 0 else 1))
    && (o_counter o =? counter s')
    && (Z.of_nat (length (o_ids o)) =? Z.of_nat (length cs))
    && forallb (fun '(i, m, _) =>
          match lookup_read i (o_reads o) with
          | Some v => eqb v (query s' m)
          | None => false
          end) kn.

  (** the property on the implementation's own observations: every id ever returned reads
      back exactly the submitted record, and no id was returned twice *)
  Fixpoint nodupb (l : list I) : bool :=
    match l with [] => true | x :: l' => negb (existsb (eqb x) l') && nodupb l' end.

  Definition prop_step (o : obs) (kn : known) : bool :=
    nodupb (map (fun '(i, _, _) => i) kn)
    && forallb (fun '(i, _, r) =>
          match lookup_read i (o_reads o) with
          | Some (Some r') => eqb r' r
          | _ => false
          end) kn.

  Fixpoint check_from (s : state) (kn : known) (c : list (step * obs)) (i : Z) (corr prop : Z) : Z * Z :=
    match c with
    | [] => (corr, prop)
    | (st, o) :: rest =>
        let '(s', cs) := exec_step s st in
        let kn' := kn ++ zip3 (o_ids o) cs in
        let corr' := if (corr <? 0) && negb (corr_step s s' st cs o kn') then i else corr in
        let prop' := if (prop <? 0) && negb (prop_step o kn') then i else prop in
        check_from s' kn' rest (i + 1) corr' prop'
    end.
End Check.
Arguments obs : clear implicits.
Arguments known : clear implicits.

(** initial value of the counter (the harness may preset it near 2^32 to exercise the wrap) and the steps *)
Definition case := (Z * list (step * obs Z))%type.

(** (index of the first diverging step or -1, index of the first step violating C19 or -1,
    violated clause: always 0 here) *)
Definition check_case (c : case) : Z * Z * Z :=
  let '(c0, steps) := c in
  let '(corr, prop) := check_from (mkState [] (c0 mod two32)) [] steps 0 (-1) (-1) in (corr, prop, 0).
