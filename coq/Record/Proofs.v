(** * Record: proofs for C19 (immutability and uniqueness of record ids) *)
From Irismod Require Import Record.Model.
From Coq Require Import ZifyBool.
Ltac Zify.zify_post_hook ::= Z.div_mod_to_equations.

(** ** The store only ever maps an id to the record inside that id *)
Definition StoreInv (s : state) : Prop := forall id r, get id (store s) = Some r -> r = fst id.

Lemma StoreInv_init : StoreInv init.
Proof. intros id r H; discriminate H. Qed.

Lemma add_record_inv s r : StoreInv s -> StoreInv (fst (add_record s r)).
Proof.
  intros Hs id r' Hg. unfold add_record in Hg; simpl in Hg.
  destruct (eq_dec id (r, counter s)) as [->|Hne].
  - rewrite get_set_same in Hg. simpl. congruence.
  - rewrite get_set_other in Hg by exact Hne. exact (Hs _ _ Hg).
Qed.

Lemma add_record_keeps s r id v :
  StoreInv s -> get id (store s) = Some v -> get id (store (fst (add_record s r))) = Some v.
Proof.
  intros Hs Hg. unfold add_record; simpl.
  destruct (eq_dec id (r, counter s)) as [->|Hne].
  - rewrite get_set_same. rewrite (Hs _ _ Hg). reflexivity.
  - rewrite get_set_other by exact Hne. exact Hg.
Qed.

Lemma add_record_reads s r : get (snd (add_record s r)) (store (fst (add_record s r))) = Some r.
Proof. unfold add_record; simpl. apply get_set_same. Qed.

Lemma exec_msg_spec s txh m s' id r :
  exec_msg s txh m = Some (s', (id, r)) ->
  msg_ok m = true /\ r = (txh, snd m, fst m) /\ s' = fst (add_record s r) /\ id = snd (add_record s r).
Proof.
  unfold exec_msg. destruct (msg_ok m); [|discriminate]. destruct m as [creator cs].
  simpl. intros H; inversion H; subst. auto.
Qed.

Lemma exec_msgs_inv ms : forall s txh s' cs,
  exec_msgs s txh ms = Some (s', cs) -> StoreInv s ->
  StoreInv s'
  /\ (forall id v, get id (store s) = Some v -> get id (store s') = Some v)
  /\ (forall id r, In (id, r) cs -> get id (store s') = Some r).
Proof.
  induction ms as [|m ms IH]; simpl; intros s txh s' cs H Hs.
  - inversion H; subst. repeat split; auto. intros ? ? [].
  - destruct (exec_msg s txh m) as [[s1 [id1 r1]]|] eqn:E1; [|discriminate].
    destruct (exec_msgs s1 txh ms) as [[s2 cs2]|] eqn:E2; [|discriminate].
    inversion H; subst; clear H.
    apply exec_msg_spec in E1. destruct E1 as (_ & _ & -> & ->).
    pose proof (add_record_inv s r1 Hs) as Hs1.
    destruct (IH _ _ _ _ E2 Hs1) as (Hs2 & Hkeep & Hnew).
    repeat split; auto.
    + intros id v Hg. apply Hkeep. apply add_record_keeps; assumption.
    + intros id r [Heq|Hin].
      * inversion Heq; subst. apply Hkeep. apply add_record_reads.
      * apply Hnew; assumption.
Qed.

Lemma exec_step_inv s st :
  StoreInv s ->
  StoreInv (fst (exec_step s st))
  /\ (forall id v, get id (store s) = Some v -> get id (store (fst (exec_step s st))) = Some v)
  /\ (forall id r, In (id, r) (snd (exec_step s st)) -> get id (store (fst (exec_step s st))) = Some r).
Proof.
  intros Hs. destruct st as [txh ms|]; simpl.
  - destruct (exec_msgs s txh ms) as [[s' cs]|] eqn:E; simpl.
    + exact (exec_msgs_inv _ _ _ _ _ E Hs).
    + repeat split; auto. intros ? ? [].
  - repeat split; auto. intros ? ? [].
Qed.

Lemma run_inv steps : forall s, StoreInv s ->
  StoreInv (run s steps)
  /\ (forall id v, get id (store s) = Some v -> get id (store (run s steps)) = Some v).
Proof.
  induction steps as [|st rest IH]; simpl; intros s Hs; [auto|].
  destruct (exec_step_inv s st Hs) as (H1 & H2 & _).
  destruct (IH _ H1) as (H3 & H4). split; auto.
Qed.

Lemma run_app a b s : run s (a ++ b) = run (run s a) b.
Proof. revert s. induction a as [|x a IH]; simpl; intros s; auto. Qed.

(** *** a created record can be read back, unchanged, in every later state *)
Lemma read_back_forever_lemma s0 pre st post id r :
  StoreInv s0 ->
  In (id, r) (snd (exec_step (run s0 pre) st)) ->
  query (run s0 (pre ++ st :: post)) id = Some r.
Proof.
  intros H0 Hin. unfold query. rewrite run_app. simpl.
  destruct (run_inv pre s0 H0) as (Hpre & _).
  destruct (exec_step_inv (run s0 pre) st Hpre) as (Hst & _ & Hnew).
  destruct (run_inv post _ Hst) as (_ & Hkeep).
  apply Hkeep. apply Hnew. exact Hin.
Qed.

(** *** what a transaction records is exactly what was submitted *)
Lemma exec_msgs_contents ms : forall s txh s' cs,
  exec_msgs s txh ms = Some (s', cs) ->
  map snd cs = map (fun m : msg => (txh, snd m, fst m)) ms
  /\ Forall (fun c : rid * rec => fst (fst c) = snd c) cs.
Proof.
  induction ms as [|m ms IH]; simpl; intros s txh s' cs H.
  - inversion H; subst. split; [reflexivity|constructor].
  - destruct (exec_msg s txh m) as [[s1 [id1 r1]]|] eqn:E1; [|discriminate].
    destruct (exec_msgs s1 txh ms) as [[s2 cs2]|] eqn:E2; [|discriminate].
    inversion H; subst; clear H.
    apply exec_msg_spec in E1. destruct E1 as (_ & -> & _ & ->).
    destruct (IH _ _ _ _ E2) as (Hm & Hf). split.
    + simpl. f_equal. exact Hm.
    + constructor; [reflexivity|exact Hf].
Qed.

(** ** Uniqueness of ids *)

(** the counters handed out by [n] consecutive creations starting at [c] *)
Fixpoint ctrs (c : Z) (n : nat) : list Z :=
  match n with O => [] | S n' => c :: ctrs ((c + 1) mod two32) n' end.

Lemma ctrs_In n : forall c x, 0 <= c < two32 -> In x (ctrs c n) ->
  exists i, 0 <= i < Z.of_nat n /\ x = (c + i) mod two32.
Proof.
  induction n as [|n IH]; simpl; intros c x Hc Hin; [tauto|].
  destruct Hin as [<-|Hin].
  - exists 0. split; [lia|]. rewrite Z.add_0_r. symmetry. apply Z.mod_small. exact Hc.
  - assert (Hc1 : 0 <= (c + 1) mod two32 < two32) by (apply Z.mod_pos_bound; reflexivity).
    destruct (IH _ _ Hc1 Hin) as (i & Hi & ->).
    exists (i + 1). split; [lia|].
    rewrite Zplus_mod_idemp_l. f_equal. lia.
Qed.

Lemma ctrs_NoDup n : forall c, 0 <= c < two32 -> Z.of_nat n <= two32 -> NoDup (ctrs c n).
Proof.
  induction n as [|n IH]; simpl; intros c Hc Hn; constructor.
  - intros Hin.
    assert (Hc1 : 0 <= (c + 1) mod two32 < two32) by (apply Z.mod_pos_bound; reflexivity).
    destruct (ctrs_In _ _ _ Hc1 Hin) as (i & Hi & Heq).
    rewrite Zplus_mod_idemp_l in Heq. unfold two32 in *. lia.
  - apply IH; [apply Z.mod_pos_bound; reflexivity|lia].
Qed.

Lemma exec_msgs_ctrs ms : forall s txh s' cs,
  exec_msgs s txh ms = Some (s', cs) ->
  map (fun c : rid * rec => snd (fst c)) cs = ctrs (counter s) (length ms)
  /\ Forall (fun c : rid * rec => fst (fst (fst (fst c))) = txh) cs.
Proof.
  induction ms as [|m ms IH]; simpl; intros s txh s' cs H.
  - inversion H; subst. split; [reflexivity|constructor].
  - destruct (exec_msg s txh m) as [[s1 [id1 r1]]|] eqn:E1; [|discriminate].
    destruct (exec_msgs s1 txh ms) as [[s2 cs2]|] eqn:E2; [|discriminate].
    inversion H; subst; clear H.
    apply exec_msg_spec in E1. destruct E1 as (_ & -> & -> & ->).
    destruct (IH _ _ _ _ E2) as (Hm & Hf). split.
    + simpl. f_equal. exact Hm.
    + constructor; [reflexivity|exact Hf].
Qed.

Lemma counter_range_msgs ms : forall s txh s' cs,
  exec_msgs s txh ms = Some (s', cs) -> 0 <= counter s < two32 -> 0 <= counter s' < two32.
Proof.
  induction ms as [|m ms IH]; simpl; intros s txh s' cs H Hc.
  - inversion H; subst; exact Hc.
  - destruct (exec_msg s txh m) as [[s1 [id1 r1]]|] eqn:E1; [|discriminate].
    destruct (exec_msgs s1 txh ms) as [[s2 cs2]|] eqn:E2; [|discriminate].
    inversion H; subst; clear H.
    apply exec_msg_spec in E1. destruct E1 as (_ & _ & -> & _).
    apply (IH _ _ _ _ E2). simpl. apply Z.mod_pos_bound. reflexivity.
Qed.

Lemma counter_range_step s st : 0 <= counter s < two32 -> 0 <= counter (fst (exec_step s st)) < two32.
Proof.
  intros Hc. destruct st as [txh ms|]; simpl; [|exact Hc].
  destruct (exec_msgs s txh ms) as [[s' cs]|] eqn:E; simpl; [|exact Hc].
  exact (counter_range_msgs _ _ _ _ _ E Hc).
Qed.

(** tx hashes of a history, and the guard under which uniqueness is claimed: distinct
    transactions have distinct hashes and one transaction holds at most 2^32 records *)
Definition tx_hashes (steps : list step) : list Z :=
  flat_map (fun st => match st with Tx h _ => [h] | Block => [] end) steps.

Definition small_txs (steps : list step) : Prop :=
  Forall (fun st => match st with Tx _ ms => Z.of_nat (length ms) <= two32 | Block => True end) steps.

Definition id_txh (id : rid) : Z := fst (fst (fst id)).

Lemma NoDup_map_inv_fun {A B} (f : A -> B) (l : list A) : NoDup (map f l) -> NoDup l.
Proof.
  induction l as [|x l IH]; simpl; intros H; constructor; inversion H; subst; auto.
  intros Hin. apply H2. apply in_map. exact Hin.
Qed.

Lemma step_ids_NoDup s st :
  0 <= counter s < two32 ->
  match st with Tx _ ms => Z.of_nat (length ms) <= two32 | Block => True end ->
  NoDup (map fst (snd (exec_step s st))).
Proof.
  intros Hc Hsmall. destruct st as [txh ms|]; simpl; [|constructor].
  destruct (exec_msgs s txh ms) as [[s' cs]|] eqn:E; simpl; [|constructor].
  destruct (exec_msgs_ctrs _ _ _ _ _ E) as (Hm & _).
  apply (NoDup_map_inv_fun snd). rewrite map_map.
  rewrite Hm. apply ctrs_NoDup; assumption.
Qed.

Lemma step_ids_txh s st id :
  In id (map fst (snd (exec_step s st))) -> match st with Tx h _ => id_txh id = h | Block => False end.
Proof.
  destruct st as [txh ms|]; simpl; [|tauto].
  destruct (exec_msgs s txh ms) as [[s' cs]|] eqn:E; simpl; [|tauto].
  destruct (exec_msgs_ctrs _ _ _ _ _ E) as (_ & Hf).
  intros Hin. apply in_map_iff in Hin. destruct Hin as (c & <- & Hc).
  rewrite Forall_forall in Hf. exact (Hf _ Hc).
Qed.

Lemma created_ids_txh steps : forall s id,
  In id (map fst (created s steps)) -> In (id_txh id) (tx_hashes steps).
Proof.
  induction steps as [|st rest IH]; simpl; intros s id Hin; [tauto|].
  rewrite map_app in Hin. apply in_app_or in Hin. apply in_or_app. destruct Hin as [Hin|Hin].
  - left. apply step_ids_txh in Hin. destruct st; [left; congruence|tauto].
  - right. exact (IH _ _ Hin).
Qed.

Lemma ids_pairwise_distinct_lemma steps : forall s,
  0 <= counter s < two32 -> NoDup (tx_hashes steps) -> small_txs steps ->
  NoDup (map fst (created s steps)).
Proof.
  induction steps as [|st rest IH]; simpl; intros s Hc Hnd Hsm; [constructor|].
  inversion Hsm as [|? ? Hst Hrest]; subst.
  rewrite map_app.
  assert (Hnd2 : NoDup (tx_hashes rest)).
  { destruct st; simpl in Hnd; [inversion Hnd; assumption|assumption]. }
  pose proof (IH (fst (exec_step s st)) (counter_range_step s st Hc) Hnd2 Hrest) as IHr.
  pose proof (step_ids_NoDup s st Hc Hst) as Hhere.
  clear IH.
  pose proof (fun id => step_ids_txh s st id) as Htx.
  revert Hhere Htx. generalize (map fst (snd (exec_step s st))) as here.
  intros here Hhere Htx.
  induction here as [|x here IHh]; simpl; [exact IHr|].
  inversion Hhere; subst. constructor.
  - intros Hin. apply in_app_or in Hin. destruct Hin as [Hin|Hin]; [contradiction|].
    apply created_ids_txh in Hin.
    specialize (Htx x (or_introl eq_refl)).
    destruct st as [h ms|]; [|contradiction].
    simpl in Hnd. inversion Hnd; subst. congruence.
  - apply IHh; auto. intros y Hy. apply Htx. right. exact Hy.
Qed.


(** ** Uniqueness from the counter alone (no hypothesis on transaction hashes)

    Messages executed outside a transaction (e.g. by a governance proposal) all see the same,
    empty, tx bytes; byte-identical records created that way are told apart only by the counter.
    As long as fewer than 2^32 records are created in the whole history the counters — hence
    the ids — are pairwise distinct, whatever the tx hashes are. *)
Definition id_ctr (id : rid) : Z := snd id.

Lemma exec_msgs_counter ms : forall s txh s' cs,
  exec_msgs s txh ms = Some (s', cs) -> 0 <= counter s < two32 ->
  length cs = length ms /\ counter s' = (counter s + Z.of_nat (length ms)) mod two32.
Proof.
  induction ms as [|m ms IH]; simpl; intros s txh s' cs H Hc.
  - inversion H; subst. split; [reflexivity|]. rewrite Z.add_0_r. symmetry. apply Z.mod_small. exact Hc.
  - destruct (exec_msg s txh m) as [[s1 [id1 r1]]|] eqn:E1; [|discriminate].
    destruct (exec_msgs s1 txh ms) as [[s2 cs2]|] eqn:E2; [|discriminate].
    inversion H; subst; clear H.
    apply exec_msg_spec in E1. destruct E1 as (_ & _ & -> & _).
    assert (Hc1 : 0 <= counter (fst (add_record s r1)) < two32) by (simpl; apply Z.mod_pos_bound; reflexivity).
    destruct (IH _ _ _ _ E2 Hc1) as (Hl & Hctr). split; [simpl; congruence|].
    rewrite Hctr. cbn [counter add_record fst]. rewrite Zplus_mod_idemp_l. f_equal.
    rewrite Zpos_P_of_succ_nat. lia.
Qed.

Lemma ctrs_app c n m : 0 <= c < two32 ->
  ctrs c (n + m) = ctrs c n ++ ctrs ((c + Z.of_nat n) mod two32) m.
Proof.
  revert c. induction n as [|n IH]; intros c Hc.
  - simpl. rewrite Z.add_0_r, Z.mod_small by exact Hc. reflexivity.
  - change (S n + m)%nat with (S (n + m)). cbn [ctrs].
    rewrite IH by (apply Z.mod_pos_bound; reflexivity). rewrite Zplus_mod_idemp_l.
    replace (c + 1 + Z.of_nat n) with (c + Z.of_nat (S n)) by (rewrite Nat2Z.inj_succ; lia).
    reflexivity.
Qed.

Lemma created_ctrs steps : forall s,
  0 <= counter s < two32 ->
  map id_ctr (map fst (created s steps)) = ctrs (counter s) (length (created s steps)).
Proof.
  induction steps as [|st rest IH]; simpl; intros s Hc; [reflexivity|].
  rewrite !map_app, app_length.
  pose proof (counter_range_step s st Hc) as Hc'.
  rewrite (IH _ Hc'). rewrite ctrs_app by exact Hc.
  destruct st as [txh ms|]; simpl.
  - destruct (exec_msgs s txh ms) as [[s' cs]|] eqn:E; simpl.
    + destruct (exec_msgs_ctrs _ _ _ _ _ E) as (Hm & _).
      destruct (exec_msgs_counter _ _ _ _ _ E Hc) as (Hl & Hctr).
      rewrite map_map. unfold id_ctr. rewrite Hm, Hl, Hctr. reflexivity.
    + rewrite Z.add_0_r, Z.mod_small by exact Hc. reflexivity.
  - rewrite Z.add_0_r, Z.mod_small by exact Hc. reflexivity.
Qed.

Lemma ids_distinct_by_counter_lemma steps s :
  0 <= counter s < two32 ->
  Z.of_nat (length (created s steps)) <= two32 ->
  NoDup (map fst (created s steps)).
Proof.
  intros Hc Hn. apply (NoDup_map_inv_fun id_ctr).
  rewrite created_ctrs by exact Hc. apply ctrs_NoDup; assumption.
Qed.
