(** * Record: every trace of the model passes the check.

    [model_trace] renders what the MODEL itself would show (ids = the model's ids).  For every
    history satisfying the guard of C19 the checker answers (-1, -1) on it: the decidable trace
    predicate that is evaluated on the implementation's observations is a consequence of the
    theorems, not an independent guess. *)
From Irismod Require Import Record.Model Record.Proofs Record.Check.

Definition kn_of (cs : list (rid * rec)) : known rid := map (fun '(m, r) => (m, m, r)) cs.
Definition kn_ids (kn : known rid) : list rid := map (fun '(i, _, _) => i) kn.

Definition model_obs (s s' : state) (st : step) (cs : list (rid * rec)) (kn' : known rid) : obs rid :=
  mkObs (if step_ok s st then 0 else 1) (map fst cs) (counter s')
        (map (fun i => (i, query s' i)) (kn_ids kn')).

Fixpoint model_trace (s : state) (kn : known rid) (steps : list step) : list (step * obs rid) :=
  match steps with
  | [] => []
  | st :: rest =>
      let '(s', cs) := exec_step s st in
      let kn' := kn ++ kn_of cs in
      (st, model_obs s s' st cs kn') :: model_trace s' kn' rest
  end.

Lemma zip3_self cs : zip3 (map fst cs) cs = kn_of cs.
Proof. induction cs as [|[m r] cs IH]; simpl; [reflexivity|]. f_equal. exact IH. Qed.

Lemma kn_ids_app a b : kn_ids (a ++ b) = kn_ids a ++ kn_ids b.
Proof. unfold kn_ids. apply map_app. Qed.

Lemma kn_ids_of cs : kn_ids (kn_of cs) = map fst cs.
Proof. unfold kn_ids, kn_of. rewrite map_map. apply map_ext. intros [m r]. reflexivity. Qed.

Lemma get_map_self {A B} `{EqDec A} (f : A -> B) (l : list A) (i : A) :
  In i l -> get i (map (fun x => (x, f x)) l) = Some (f i).
Proof.
  induction l as [|x l IH]; simpl; [tauto|].
  intros Hin. destruct (eq_dec i x) as [->|Hne]; [reflexivity|].
  destruct Hin as [Heq|Hin]; [congruence|]. exact (IH Hin).
Qed.

Lemma nodupb_NoDup {A} `{EqDec A} (l : list A) : NoDup l -> nodupb l = true.
Proof.
  induction 1 as [|x l Hnotin Hnd IH]; simpl; [reflexivity|].
  rewrite IH, andb_true_r. apply negb_true_iff.
  destruct (existsb (eqb x) l) eqn:E; [|reflexivity].
  apply existsb_exists in E. destruct E as (y & Hy & Heq).
  apply (proj1 (eqb_true_iff x y)) in Heq. subst. contradiction.
Qed.

Lemma NoDup_app_l {A} (a b : list A) : NoDup (a ++ b) -> NoDup a.
Proof.
  induction a as [|x a IH]; simpl; intros Hnd; [constructor|].
  inversion Hnd; subst. constructor; [|auto].
  intros Hin. apply H1. apply in_or_app. left. exact Hin.
Qed.

(** state of the bookkeeping between two steps *)
Definition KnInv (s : state) (kn : known rid) : Prop :=
  forall i m r, In (i, m, r) kn -> i = m /\ get m (store s) = Some r.

Lemma KnInv_step s st kn :
  StoreInv s -> KnInv s kn ->
  KnInv (fst (exec_step s st)) (kn ++ kn_of (snd (exec_step s st))).
Proof.
  intros Hs Hk i m r Hin.
  destruct (exec_step_inv s st Hs) as (_ & Hkeep & Hnew).
  apply in_app_or in Hin. destruct Hin as [Hin|Hin].
  - destruct (Hk _ _ _ Hin) as [-> Hg]. split; [reflexivity|]. apply Hkeep. exact Hg.
  - unfold kn_of in Hin. apply in_map_iff in Hin. destruct Hin as ([m' r'] & Heq & Hin).
    inversion Heq; subst. split; [reflexivity|]. apply Hnew. exact Hin.
Qed.

Lemma model_step_passes s st kn :
  StoreInv s -> KnInv s kn ->
  NoDup (kn_ids kn ++ map fst (snd (exec_step s st))) ->
  let s' := fst (exec_step s st) in let cs := snd (exec_step s st) in
  let kn' := kn ++ kn_of cs in
  corr_step s s' st cs (model_obs s s' st cs kn') kn' = true
  /\ prop_step (model_obs s s' st cs kn') kn' = true.
Proof.
  intros Hs Hk Hnd s' cs kn'.
  pose proof (KnInv_step s st kn Hs Hk) as Hk'. fold s' cs kn' in Hk'.
  assert (Hreads : forall i m r, In (i, m, r) kn' ->
            lookup_read i (o_reads (model_obs s s' st cs kn')) = Some (query s' i)).
  { intros i m r Hin. unfold lookup_read, model_obs; simpl.
    apply (get_map_self (fun i => query s' i)).
    unfold kn_ids. apply in_map_iff. exists (i, m, r). split; [reflexivity|exact Hin]. }
  split.
  - unfold corr_step.
    apply andb_true_iff; split; [apply andb_true_iff; split; [apply andb_true_iff; split|]|].
    + unfold model_obs; simpl. apply Z.eqb_refl.
    + unfold model_obs; simpl. apply Z.eqb_refl.
    + unfold model_obs; simpl. rewrite map_length. apply Z.eqb_refl.
    + apply forallb_forall. intros [[i m] r] Hin.
      rewrite (Hreads _ _ _ Hin). destruct (Hk' _ _ _ Hin) as [-> _]. apply eqb_refl.
  - unfold prop_step. apply andb_true_iff. split.
    + apply nodupb_NoDup. fold (kn_ids kn'). unfold kn'. rewrite kn_ids_app, kn_ids_of. exact Hnd.
    + apply forallb_forall. intros [[i m] r] Hin.
      rewrite (Hreads _ _ _ Hin). destruct (Hk' _ _ _ Hin) as [-> Hg].
      unfold query. rewrite Hg. apply eqb_refl.
Qed.

Lemma check_from_model steps : forall s kn i,
  StoreInv s -> KnInv s kn ->
  NoDup (kn_ids kn ++ map fst (created s steps)) ->
  check_from s kn (model_trace s kn steps) i (-1) (-1) = (-1, -1).
Proof.
  induction steps as [|st rest IH]; intros s kn i Hs Hk Hnd; [reflexivity|].
  simpl model_trace. simpl in Hnd. rewrite map_app, app_assoc in Hnd.
  destruct (exec_step s st) as [s' cs] eqn:E.
  assert (Es : s' = fst (exec_step s st)) by (rewrite E; reflexivity).
  assert (Ec : cs = snd (exec_step s st)) by (rewrite E; reflexivity).
  simpl check_from. rewrite E. rewrite zip3_self.
  pose proof (model_step_passes s st kn Hs Hk) as Hpass.
  rewrite <- Ec, <- Es in Hpass. simpl in Hpass.
  destruct (Hpass (NoDup_app_l _ _ Hnd)) as (Hc & Hp).
  rewrite Hc, Hp. simpl.
  apply IH.
  - rewrite Es. apply (exec_step_inv s st Hs).
  - rewrite Es, Ec. apply KnInv_step; assumption.
  - rewrite kn_ids_app, kn_ids_of. exact Hnd.
Qed.

(** *** the model's own trace of any guarded history passes both checks *)
Lemma model_passes_check_lemma (c0 : Z) (steps : list step) :
  0 <= c0 < two32 -> NoDup (tx_hashes steps) -> small_txs steps ->
  check_from (mkState [] c0) [] (model_trace (mkState [] c0) [] steps) 0 (-1) (-1) = (-1, -1).
Proof.
  intros Hc Hnd Hsm. apply check_from_model.
  - intros id r Hg. discriminate Hg.
  - intros i m r [].
  - simpl. apply ids_pairwise_distinct_lemma; assumption.
Qed.
