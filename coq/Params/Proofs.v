(** * C16: proofs

    1. arithmetic of the fee split ([LegacyDec] product of an integer amount and a rate);
    2. per module: [validate p = Ok] implies that no modelled parameter-consuming path reaches an
       abort point (coinswap / farm / token under the additional [*_small] hypothesis, which the
       [*_refuted] lemmas show to be necessary);
    3. the update: only the authority / genesis changes a stored set, and only to a set that validates;
    4. histories: the invariant "every stored set validates (and is small)" and, from it, "no
       operation aborts after any history". *)
From Irismod Require Export Params.Model Gen.ParamsDefaults Params.Check.
From Coq Require Import ZifyBool.
Local Open Scope Z_scope.

(** ** 1. Arithmetic *)
Lemma P18_pos : 0 < P18. Proof. reflexivity. Qed.
Lemma two255_bound : two255 * P18 + P18 < two315. Proof. vm_compute. reflexivity. Qed.

Lemma chop_round_mul_P18 k : chop_round (k * P18) = k.
Proof.
  unfold chop_round. destruct (k * P18 <? 0) eqn:E.
  - replace (- (k * P18)) with ((- k) * P18) by ring.
    unfold chop_round_pos. rewrite Z.div_mul, Z.mod_mul by discriminate.
    change (0 =? 0) with true. cbv iota. lia.
  - unfold chop_round_pos. rewrite Z.div_mul, Z.mod_mul by discriminate. reflexivity.
Qed.

(** [NewDecFromInt(a).Mul(r)] is exact: the scaled integer [a * r] *)
Lemma dec_mul_of_int a r : dec_mul (dec_of_int a) r = a * r.
Proof.
  unfold dec_mul, dec_of_int. replace (a * P18 * r) with (a * r * P18) by ring.
  apply chop_round_mul_P18.
Qed.

Lemma dec_ok_small x : 0 <= x <= two255 * P18 + P18 -> dec_ok x = true.
Proof.
  intros Hx. unfold dec_ok. apply Z.ltb_lt. rewrite Z.abs_eq by lia.
  pose proof two255_bound. lia.
Qed.

Lemma mul_rate_bounds a t :
  0 <= a < two255 -> 0 <= t <= P18 -> 0 <= a * t <= two255 * P18 + P18.
Proof.
  intros Ha Ht. split; [apply Z.mul_nonneg_nonneg; lia|].
  assert (a * t <= a * P18) by (apply Z.mul_le_mono_nonneg_l; lia).
  assert (a * P18 <= two255 * P18) by (apply Z.mul_le_mono_nonneg_r; [unfold P18|]; lia).
  unfold P18 in *. lia.
Qed.

(** the tax [floor(a * t)] of an amount [a >= 0] at a rate [0 <= t <= 1] lies in [0, a] *)
Lemma tax_bounds a t :
  0 <= a -> 0 <= t <= P18 -> 0 <= dec_truncate_int (a * t) <= a.
Proof.
  intros Ha Ht.
  assert (H0 : 0 <= a * t) by (apply Z.mul_nonneg_nonneg; lia).
  rewrite dec_truncate_int_nonneg by assumption. split.
  - apply Z.div_pos; [assumption|reflexivity].
  - replace a with (a * P18 / P18) at 2 by (apply Z.div_mul; discriminate).
    apply Z.div_le_mono; [reflexivity|]. apply Z.mul_le_mono_nonneg_l; lia.
Qed.

(** The fee split never aborts for a valid denom, an amount in [0, 2^255) and a rate in [0, 1]. *)
Lemma fee_split_no_panic w a t bal :
  0 <= a < two255 -> 0 <= t <= P18 -> forall why, fee_split w true a (Some t) bal <> Panic why.
Proof.
  intros Ha Ht why. unfold fee_split. cbv zeta. rewrite dec_mul_of_int.
  rewrite (dec_ok_small (a * t)) by (apply mul_rate_bounds; assumption).
  cbn [negb].
  pose proof (tax_bounds a t ltac:(lia) Ht) as [Hq0 Hqa].
  destruct (dec_truncate_int (a * t) <? 0) eqn:E1; [lia|].
  destruct (a - dec_truncate_int (a * t) <? 0) eqn:E2; [lia|].
  destruct (bal <? a); discriminate.
Qed.

(** ** 2. Per module: a validated set never makes a modelled path abort *)

(** destructs the scrutinee at the head of a hypothesis [H : (if/match ...) = Ok]; the branches that
    end in [Rej] / [Abort] close by [discriminate], so exactly one goal stays *)
Ltac peel H :=
  match type of H with
  | (if negb ?c then _ else _) = _ => let E := fresh "E" in destruct c eqn:E; cbn [negb] in H; [|discriminate H]
  | (if ?c then _ else _) = _ => let E := fresh "E" in destruct c eqn:E; [discriminate H|]
  | match ?x with _ => _ end = _ => let E := fresh "E" in destruct x eqn:E; try discriminate H
  end.

(** *** coinswap *)
Lemma validate_cs_facts p :
  validate_cs p = Ok ->
  exists f a t u, cs_fee p = Some f /\ 0 < f < P18 /\ denom_valid (c_denom (cs_pcf p)) = true
    /\ c_amt (cs_pcf p) = Some a /\ 0 < a < two255 /\ cs_tax p = Some t /\ 0 < t < P18
    /\ cs_uni p = Some u /\ 0 <= u < P18.
Proof.
  unfold validate_cs, in_open01. intros H.
  destruct (cs_fee p) as [f|]; [|discriminate H]. peel H. peel H.
  destruct (c_amt (cs_pcf p)) as [a|]; [|discriminate H]. peel H. peel H. peel H.
  destruct (cs_tax p) as [t|]; [|discriminate H]. peel H.
  destruct (cs_uni p) as [u|]; [|discriminate H]. peel H.
  exists f, a, t, u. repeat split; try reflexivity; try assumption; lia.
Qed.

Lemma cs_no_panic p o r :
  validate_cs p = Ok -> cs_op_wf o -> cs_path p o = Some r -> res_outcome r <> Abort.
Proof.
  intros Hv Hwf Hp.
  destruct (validate_cs_facts p Hv) as (f & a & t & u & Hf & Hfr & Hd & Ha & Hap & Ht & Htr & Hu & Hur).
  assert (Hnp : forall w, r <> Panic w); [|destruct r; simpl; try discriminate; exfalso; eapply Hnp; reflexivity].
  intros w.
  destruct o as [bs bf bt s0 t0|x X Y bal|y X Y mx|x T L bal|d T L held|]; simpl in Hp; [| | | | |discriminate Hp];
    injection Hp as <-.
  - (* create pool *)
    unfold cs_create. rewrite Ha, Hd, Ht.
    pose proof (fee_split_no_panic 100 a t bf ltac:(lia) ltac:(lia)) as Hfs.
    destruct (fee_split 100 true a (Some t) bf) eqn:Efs; try discriminate.
    + destruct (_ || _); discriminate.
    + exfalso. eapply Hfs. reflexivity.
  - (* sell *)
    unfold cs_sell. simpl in Hwf. rewrite Hf.
    destruct ((X <=? 0) || (Y <=? 0)) eqn:Eg; [discriminate|]. cbv zeta.
    assert (0 < X * P18 + x * (P18 - f)).
    { assert (0 <= x * (P18 - f)) by (apply Z.mul_nonneg_nonneg; lia).
      assert (0 < X * P18) by (apply Z.mul_pos_pos; [lia|reflexivity]). lia. }
    destruct (X * P18 + x * (P18 - f) =? 0) eqn:E0; [lia|].
    repeat match goal with |- context [if ?c then _ else _] => destruct c end; discriminate.
  - (* buy *)
    unfold cs_buy. simpl in Hwf. rewrite Hf.
    destruct ((X <=? 0) || (Y <=? 0)) eqn:Eg; [discriminate|].
    destruct (Y <=? y) eqn:Ey; [discriminate|]. cbv zeta.
    assert (Hden : 0 < (Y - y) * (P18 - f)) by (apply Z.mul_pos_pos; lia).
    destruct ((Y - y) * (P18 - f) =? 0) eqn:E0; [lia|].
    destruct (mx <? _); [discriminate|].
    assert (0 <= Z.quot (X * y * P18) ((Y - y) * (P18 - f))).
    { apply Z.quot_pos; [|lia]. apply Z.mul_nonneg_nonneg; [apply Z.mul_nonneg_nonneg; lia|unfold P18; lia]. }
    destruct (_ <? 0) eqn:En; [lia|discriminate].
  - (* add unilateral *)
    unfold cs_add_uni. simpl in Hwf. destruct Hwf as (Hx & HT & HL). rewrite Hu. cbv zeta.
    assert (HPT : 0 < P18 * T) by (apply Z.mul_pos_pos; [reflexivity|lia]).
    destruct (P18 * T =? 0) eqn:E0; [lia|].
    assert (0 <= Z.quot ((P18 * T + (P18 - u) * x) * L * L) (P18 * T)).
    { apply Z.quot_pos; [|lia].
      assert (0 <= (P18 - u) * x) by (apply Z.mul_nonneg_nonneg; lia).
      apply Z.mul_nonneg_nonneg; [apply Z.mul_nonneg_nonneg|]; lia. }
    destruct (_ <? 0) eqn:En; [lia|].
    repeat match goal with |- context [if ?c then _ else _] => destruct c end; discriminate.
  - (* remove unilateral *)
    unfold cs_remove_uni. simpl in Hwf. rewrite Hu.
    destruct (L <? d) eqn:E1; [discriminate|]. destruct (L =? d) eqn:E2; [discriminate|].
    destruct (T <? 1) eqn:E3; [discriminate|]. cbv zeta.
    assert (0 < L * L * P18) by (apply Z.mul_pos_pos; [apply Z.mul_pos_pos; lia|reflexivity]).
    destruct (L * L * P18 =? 0) eqn:E0; [lia|].
    repeat match goal with |- context [if ?c then _ else _] => destruct c end; discriminate.
Qed.

(** *** farm *)
Lemma validate_fm_facts p :
  validate_fm p = Ok ->
  exists a t, denom_valid (c_denom (fm_pcf p)) = true /\ c_amt (fm_pcf p) = Some a /\ 0 <= a < two255
    /\ fm_tax p = Some t /\ 0 < t < P18.
Proof.
  unfold validate_fm, in_open01. intros H. peel H.
  destruct (c_amt (fm_pcf p)) as [a|]; [|discriminate H]. peel H. peel H.
  destruct (fm_tax p) as [t|]; [|discriminate H]. peel H.
  exists a, t. repeat split; try reflexivity; try assumption; lia.
Qed.

Lemma fm_no_panic p o r :
  validate_fm p = Ok -> fm_path p o = Some r -> res_outcome r <> Abort.
Proof.
  intros Hv Hp.
  destruct (validate_fm_facts p Hv) as (a & t & Hd & Ha & Hap & Ht & Htr).
  destruct o as [n bf|n|]; simpl in Hp; [| |discriminate Hp]; injection Hp as <-.
  2:{ unfold fm_create_cp. destruct (fm_maxcat p <? n); discriminate. }
  unfold fm_create. destruct (fm_maxcat p <? n); [discriminate|]. rewrite Ha, Hd, Ht.
  pose proof (fee_split_no_panic 200 a t bf ltac:(lia) ltac:(lia)) as Hfs.
  destruct (fee_split 200 true a (Some t) bf) eqn:Efs; try discriminate.
  exfalso. eapply Hfs. reflexivity.
Qed.

(** *** htlc *)
Definition asset_ok (a : asset) : Prop :=
  htlc_denom_ok (a_denom a) = true
  /\ (exists l, a_limit a = Some l /\ 0 <= l) /\ (exists b, a_tbl a = Some b /\ 0 <= b)
  /\ (exists f m, a_fixed a = Some f /\ 0 <= f /\ a_min a = Some m /\ 0 < m /\ f + m < two256) /\ (exists x, a_max a = Some x).

Lemma validate_assets_ok l : forall seen, validate_assets seen l = Ok -> Forall asset_ok l.
Proof.
  induction l as [|a l IH]; intros seen H; [constructor|].
  cbn [validate_assets] in H. peel H.
  destruct (a_limit a) as [lim|] eqn:El; [|discriminate H]. peel H.
  destruct (a_tbl a) as [tbl|] eqn:Et; [|discriminate H]. peel H. peel H. peel H. peel H.
  destruct (a_fixed a) as [fx|] eqn:Ef; [|discriminate H]. peel H. peel H. peel H. peel H.
  destruct (a_min a) as [mn|] eqn:Em; [|discriminate H]. peel H.
  destruct (a_max a) as [mx|] eqn:Ex; [|discriminate H]. peel H. peel H. peel H.
  constructor; [|exact (IH _ H)].
  unfold asset_ok. rewrite El, Et, Ef, Em, Ex.
  assert (fx + mn < two256).
  { match goal with E : int_ok (fx + mn) = true |- _ => unfold int_ok in E; apply Z.ltb_lt in E; rewrite Z.abs_eq in E by lia; exact E end. }
  split; [assumption|]. split; [exists lim; split; [reflexivity|lia]|]. split; [exists tbl; split; [reflexivity|lia]|].
  split; [exists fx, mn; repeat split; try reflexivity; lia|exists mx; reflexivity].
Qed.

Lemma find_asset_ok d p a : Forall asset_ok p -> find_asset d p = Some a -> asset_ok a.
Proof.
  intros HF Hf. unfold find_asset in Hf. apply find_some in Hf. destruct Hf as [Hin _].
  rewrite Forall_forall in HF. exact (HF a Hin).
Qed.

Lemma limit_coin_ok w o x : o = Some x -> 0 <= x -> limit_coin w o = inl x.
Proof. intros -> Hx. unfold limit_coin. destruct (x <? 0) eqn:E; [lia|reflexivity]. Qed.

Lemma htlc_denom_valid d : htlc_denom_ok d = true -> denom_valid d = true.
Proof. unfold htlc_denom_ok, denom_valid. lia. Qed.

Lemma ht_no_panic p o r :
  validate_ht p = Ok -> ht_path p o = Some r -> res_outcome r <> Abort.
Proof.
  intros Hv Hp. apply validate_assets_ok in Hv.
  assert (Hnp : forall w, r <> Panic w); [|destruct r; simpl; try discriminate; exfalso; eapply Hnp; reflexivity].
  intros w.
  destruct o as [|d amt sd to lock s bal|d amt s|]; simpl in Hp; [| | |discriminate Hp]; injection Hp as <-.
  - (* begin blocker *)
    unfold ht_begin.
    assert (He : existsb (fun a => negb (denom_valid (a_denom a))) p = false).
    { apply not_true_is_false. intros He. apply existsb_exists in He. destruct He as (a & Hin & Hb).
      rewrite Forall_forall in Hv. destruct (Hv a Hin) as (Hd & _).
      rewrite (htlc_denom_valid _ Hd) in Hb. discriminate Hb. }
    rewrite He. discriminate.
  - (* create *)
    unfold ht_create. destruct (find_asset d p) as [a|] eqn:Ef; [|discriminate].
    destruct (find_asset_ok d p a Hv Ef) as (_ & (lim & El & Hl) & (tbl & Et & Htb) & (fx & mn & Efx & Hfx & Em & Hmn & Hsum) & (mx & Ex)).
    assert (Hio : int_ok (fx + mn) = true).
    { unfold int_ok. apply Z.ltb_lt. rewrite Z.abs_eq by lia. exact Hsum. }
    rewrite Em, Ex, Efx, Hio, (limit_coin_ok 313 _ lim El Hl), (limit_coin_ok 315 _ tbl Et Htb). cbn [negb].
    destruct s as [[[[inc out] cur] tlc]|];
      repeat match goal with |- context [if ?c then _ else _] => destruct c end; discriminate.
  - (* claim, incoming *)
    unfold ht_claim_in. destruct s as [[[[inc out] cur] tlc]|]; [|discriminate].
    destruct (inc - amt <? 0); [discriminate|].
    destruct (find_asset d p) as [a|] eqn:Ef; [|discriminate].
    destruct (find_asset_ok d p a Hv Ef) as (_ & (lim & El & Hl) & (tbl & Et & Htb) & _).
    rewrite (limit_coin_ok 313 _ lim El Hl), (limit_coin_ok 315 _ tbl Et Htb).
    repeat match goal with |- context [if ?c then _ else _] => destruct c end; discriminate.
Qed.

(** *** service *)
Lemma validate_sv_facts p :
  validate_sv p = Ok ->
  exists s t, 0 < sv_mult p /\ sv_slash p = Some s /\ 0 <= s <= P18 /\ sv_tax p = Some t /\ 0 <= t < P18
    /\ denom_valid (sv_base p) = true.
Proof.
  unfold validate_sv. intros H. peel H. peel H.
  destruct (coins_validate (sv_mindep p)); try discriminate H.
  destruct (sv_slash p) as [s|]; [|discriminate H]. peel H.
  destruct (sv_tax p) as [t|]; [|discriminate H]. peel H. peel H. peel H. peel H. peel H.
  exists s, t. repeat split; try reflexivity; try assumption; lia.
Qed.

Lemma sv_deposit_enough_ok p price dep :
  0 < sv_mult p -> 0 <= price -> exists b, sv_deposit_enough p price dep = inr b.
Proof.
  intros Hm Hp. unfold sv_deposit_enough. cbv zeta.
  assert (0 <= price * sv_mult p) by (apply Z.mul_nonneg_nonneg; lia).
  destruct (negb (int_ok (price * sv_mult p))); [eexists; reflexivity|].
  destruct (price * sv_mult p <? 0) eqn:En; [lia|]. eexists. reflexivity.
Qed.

Lemma sv_no_panic p o r :
  validate_sv p = Ok -> sv_op_wf o -> sv_path p o = Some r -> res_outcome r <> Abort.
Proof.
  intros Hv Hwf Hp.
  destruct (validate_sv_facts p Hv) as (s & t & Hm & Hs & Hsr & Ht & Htr & Hd).
  assert (Hnp : forall w, r <> Panic w); [|destruct r; simpl; try discriminate; exfalso; eapply Hnp; reflexivity].
  intros w.
  destruct o as [price dep qos bal pd|to|fee esc|deps|av price dep add qos bal|av price dep add bal|av dep dis now
                 |cm cap to ct cf tot bat|];
    simpl in Hp; try discriminate Hp; injection Hp as <-.
  - (* bind *)
    unfold sv_bind. simpl in Hwf.
    destruct (sv_deposit_enough_ok p price dep Hm Hwf) as [b ->].
    repeat match goal with |- context [if ?c then _ else _] => destruct c end; discriminate.
  - (* call *)
    unfold sv_call. repeat match goal with |- context [if ?c then _ else _] => destruct c end; discriminate.
  - (* respond *)
    unfold sv_respond. simpl in Hwf. rewrite Ht. cbv zeta. rewrite dec_mul_of_int.
    rewrite (dec_ok_small (fee * t)) by (apply mul_rate_bounds; lia). cbn [negb].
    pose proof (tax_bounds fee t ltac:(lia) ltac:(lia)) as [Hq0 Hqa].
    destruct (dec_truncate_int (fee * t) <? 0) eqn:E1; [lia|].
    repeat match goal with |- context [if ?c then _ else _] => destruct c end; discriminate.
  - (* end blocker: slashing of the bindings whose requests expired *)
    simpl in Hwf. unfold sv_blocks.
    assert (Hstep : forall d, 0 <= d < two255 -> sv_slash_why p d = 0 /\ 0 <= d - sv_slashed p d < two255).
    { intros d Hd0. unfold sv_slash_why, sv_slashed. rewrite Hs. cbv zeta. rewrite dec_mul_of_int.
      rewrite (dec_ok_small (d * s)) by (apply mul_rate_bounds; lia). cbn [negb]. rewrite Hd. cbn [negb].
      pose proof (tax_bounds d s ltac:(lia) ltac:(lia)) as [Hq0 Hq1].
      destruct (dec_truncate_int (d * s) <? 0) eqn:E1; [lia|].
      destruct (d <? dec_truncate_int (d * s)) eqn:E2; split; try reflexivity; lia. }
    assert (Hgen : forall rq cur,
               Forall (fun r => 0 <= snd r < two255) rq ->
               (forall pv d, get pv cur = Some d -> 0 <= d < two255) ->
               sv_blocks_from p cur rq <> Panic w).
    { induction rq as [|[pv d0] rest IH]; intros cur HF Hinv; [discriminate|].
      inversion HF as [|? ? Hd0 Hrest]; subst. simpl in Hd0. cbn [sv_blocks_from].
      assert (Hdr : 0 <= match get pv cur with Some d => d | None => d0 end < two255).
      { destruct (get pv cur) as [d|] eqn:Eg; [exact (Hinv pv d Eg)|exact Hd0]. }
      destruct (Hstep _ Hdr) as [Hw0 Hnew]. cbv zeta. rewrite Hw0. change (0 =? 0) with true. cbv iota.
      apply IH; [exact Hrest|].
      intros pv' d' Hg. destruct (Z.eq_dec pv' pv) as [->|Hne].
      - rewrite get_set_same in Hg. injection Hg as <-. exact Hnew.
      - rewrite get_set_other in Hg by exact Hne. exact (Hinv pv' d' Hg). }
    apply Hgen; [exact Hwf|]. intros pv d Hg. discriminate Hg.
  - (* update binding *)
    unfold sv_update. simpl in Hwf. cbv zeta.
    destruct (sv_deposit_enough_ok p price (dep + add) Hm Hwf) as [b ->].
    repeat match goal with |- context [if ?c then _ else _] => destruct c end; discriminate.
  - (* enable binding *)
    unfold sv_enable. simpl in Hwf.
    destruct (sv_deposit_enough_ok p price (dep + add) Hm Hwf) as [b ->].
    repeat match goal with |- context [if ?c then _ else _] => destruct c end; discriminate.
  - (* refund deposit *)
    unfold sv_refund. repeat match goal with |- context [if ?c then _ else _] => destruct c end; discriminate.
  - (* update request context *)
    unfold sv_update_ctx. cbv zeta.
    repeat match goal with |- context [if ?c then _ else _] => destruct c end; discriminate.
Qed.

(** *** token *)
Lemma validate_tk_facts p :
  validate_tk p = Ok ->
  exists t r a, tk_tax p = Some t /\ 0 <= t <= P18 /\ tk_ratio p = Some r /\ 0 <= r <= P18
    /\ denom_valid (c_denom (tk_fee p)) = true /\ c_amt (tk_fee p) = Some a /\ 0 <= a < two195.
Proof.
  unfold validate_tk, rate_closed01. intros H.
  destruct (tk_tax p) as [t|]; [|discriminate H]. peel H.
  destruct (tk_ratio p) as [r|]; [|discriminate H]. peel H. peel H.
  destruct (c_amt (tk_fee p)) as [a|]; [|discriminate H]. peel H. peel H.
  exists t, r, a. repeat split; try reflexivity; try assumption; lia.
Qed.

(** [NewDecFromInt(a).Quo(F)] for a fee factor [F >= 1]: between 0 and [a] (as a decimal) *)
Lemma dec_quo_factor_bounds a F :
  0 <= a -> P18 <= F -> 0 <= dec_quo (dec_of_int a) F <= a * P18.
Proof.
  intros Ha HF. unfold dec_quo, dec_of_int.
  assert (HP : 0 < P18) by reflexivity.
  assert (Hn : 0 <= a * P18 * P36) by (unfold P36; repeat apply Z.mul_nonneg_nonneg; lia).
  rewrite Z.quot_div_nonneg by lia.
  set (v := a * P18 * P36 / F).
  assert (Hv0 : 0 <= v) by (apply Z.div_pos; lia).
  assert (Hv1 : v <= a * P36).
  { replace (a * P36) with (a * P18 * P36 / P18).
    - apply Z.div_le_compat_l; lia.
    - replace (a * P18 * P36) with (a * P36 * P18) by ring. apply Z.div_mul. discriminate. }
  unfold chop_round. destruct (v <? 0) eqn:E; [lia|].
  pose proof (chop_round_pos_bounds v Hv0) as [_ Hub].
  pose proof (chop_round_pos_nonneg v Hv0) as Hlb.
  split; [assumption|].
  assert (chop_round_pos v * P18 < (a * P18 + 1) * P18).
  { unfold P36 in Hv1. unfold half18, P18 in *. lia. }
  assert (chop_round_pos v < a * P18 + 1) by (apply Z.mul_lt_mono_pos_r with (p := P18); assumption).
  lia.
Qed.

Lemma two195_two255 : two195 < two255. Proof. vm_compute. reflexivity. Qed.

Lemma tk_issue_fee_spec p F a :
  denom_valid (c_denom (tk_fee p)) = true -> c_amt (tk_fee p) = Some a -> 0 <= a < two195 -> P18 <= F ->
  tk_issue_fee p F = inl Reject \/ exists fee, tk_issue_fee p F = inr fee /\ 1 <= fee < two195.
Proof.
  intros Hd Ha Har HF. unfold tk_issue_fee. rewrite Ha, Hd.
  destruct (F =? 0) eqn:E0; [unfold P18 in HF; lia|]. cbv zeta.
  pose proof (dec_quo_factor_bounds a F ltac:(lia) HF) as [Hq0 Hq1].
  pose proof two195_two255 as H95.
  set (q := dec_quo (dec_of_int a) F) in *.
  assert (Hqb : q <= two255 * P18) by (assert (a * P18 <= two255 * P18) by (apply Z.mul_le_mono_nonneg_r; [unfold P18|]; lia); lia).
  rewrite (dec_ok_small q) by (unfold P18 in *; lia). cbn [negb].
  destruct (negb (tk_registered (c_denom (tk_fee p)))); [left; reflexivity|right].
  eexists. split; [reflexivity|].
  destruct (P18 <? q) eqn:Eq.
  - rewrite dec_truncate_int_nonneg by assumption.
    assert (1 <= q / P18) by (apply Z.div_le_lower_bound; [reflexivity|lia]).
    assert (q / P18 <= a).
    { apply Z.le_trans with (a * P18 / P18); [apply Z.div_le_mono; [reflexivity|assumption]|].
      rewrite Z.div_mul by discriminate. lia. }
    lia.
  - unfold two195. simpl. lia.
Qed.

(** an amount below 2^195 in the main unit stays below 2^255 in the min unit of any scale <= 18 *)
Lemma to_min_bounds x sc : 0 <= x < two195 -> 0 <= sc <= 18 -> 0 <= to_min x sc < two255.
Proof.
  intros Hx Hs. unfold to_min.
  assert (H1 : 0 < 10 ^ sc) by (apply Z.pow_pos_nonneg; lia).
  assert (H2 : 10 ^ sc <= 10 ^ 18) by (apply Z.pow_le_mono_r; lia).
  assert (H3 : two195 * 10 ^ 18 < two255) by (vm_compute; reflexivity).
  split; [apply Z.mul_nonneg_nonneg; lia|].
  assert (x * 10 ^ sc <= x * 10 ^ 18) by (apply Z.mul_le_mono_nonneg_l; lia).
  assert (x * 10 ^ 18 <= two195 * 10 ^ 18) by (apply Z.mul_le_mono_nonneg_r; lia).
  lia.
Qed.

Lemma to_min_ok_small x sc : 0 <= x < two195 -> 0 <= sc <= 18 -> to_min_ok x sc = true.
Proof.
  intros Hx Hs. pose proof (to_min_bounds x sc Hx Hs) as Hb. unfold to_min in Hb.
  unfold to_min_ok. apply dec_ok_small.
  assert (x * 10 ^ sc * P18 <= two255 * P18) by (apply Z.mul_le_mono_nonneg_r; [unfold P18|]; lia).
  assert (0 <= x * 10 ^ sc * P18) by (apply Z.mul_nonneg_nonneg; [|unfold P18]; lia). unfold P18 in *. lia.
Qed.

Lemma tk_no_panic p o r :
  validate_tk p = Ok -> tk_op_wf o -> tk_path p o = Some r -> res_outcome r <> Abort.
Proof.
  intros Hv Hwf Hp.
  destruct (validate_tk_facts p Hv) as (t & ra & a & Ht & Htr & Hr & Hrr & Hd & Ha & Hap).
  assert (Hnp : forall w, r <> Panic w); [|destruct r; simpl; try discriminate; exfalso; eapply Hnp; reflexivity].
  intros w.
  destruct o as [F sc bal|F sc bal|c|c am b|c am b|]; simpl in Hp; try discriminate Hp; injection Hp as <-; simpl in Hwf.
  3:{ unfold tk_deploy. repeat match goal with |- context [if ?c then _ else _] => destruct c end; discriminate. }
  3:{ unfold tk_swap_to. repeat match goal with |- context [if ?c then _ else _] => destruct c end; discriminate. }
  3:{ unfold tk_swap_from. repeat match goal with |- context [if ?c then _ else _] => destruct c end; discriminate. }
  all: destruct Hwf as [HF Hsc];
       destruct (tk_issue_fee_spec p F a Hd Ha Hap HF) as [Hrej|(fee & Hfee & Hfr)].
  - unfold tk_issue. rewrite Hrej. discriminate.
  - unfold tk_issue. rewrite Hfee, (to_min_ok_small fee sc ltac:(lia) Hsc), Ht. cbn [negb].
    apply fee_split_no_panic; [apply to_min_bounds; lia|lia].
  - unfold tk_mint. rewrite Hrej. discriminate.
  - unfold tk_mint. rewrite Hfee, Hr. cbv zeta. rewrite dec_mul_of_int.
    pose proof two195_two255.
    rewrite (dec_ok_small (fee * ra)) by (apply mul_rate_bounds; lia). cbn [negb].
    pose proof (tax_bounds fee ra ltac:(lia) Hrr) as [Hq0 Hqa].
    destruct (dec_truncate_int (fee * ra) <? 0) eqn:E1; [lia|].
    rewrite to_min_ok_small by lia. cbn [negb]. rewrite Ht.
    apply fee_split_no_panic; [apply to_min_bounds; lia|lia].
Qed.

(** ** 3. The update (the same skeleton [update_with] for the five modules) *)
Section Update.
  Context {P : Type}.
  Variable validate : P -> outcome.
  Variable gx mx : P -> bool.
  Notation upd := (update_with validate gx mx).

  (** either nothing is stored, or the sender was privileged, the set validates, and exactly the
      submitted set is stored *)
  Lemma update_with_cases via p cur :
    snd (upd via p cur) = cur /\ (fst (upd via p cur) = Ok -> False)
    \/ via <> 1 /\ validate p = Ok /\ upd via p cur = (Ok, p).
  Proof.
    unfold update_with. destruct (validate p) eqn:Ev.
    - destruct (via =? 1) eqn:E1; [left; simpl; split; [reflexivity|discriminate]|].
      destruct (via =? 2); [destruct (gx p)|destruct (mx p)];
        try (left; simpl; split; [reflexivity|discriminate]); right; repeat split; lia.
    - left. simpl. split; [reflexivity|]. destruct (via =? 2); discriminate.
    - left. simpl. split; [reflexivity|discriminate].
  Qed.

  (** an accepted update also passed the module-specific condition of its path *)
  Lemma update_accepted_extra via p cur :
    fst (upd via p cur) = Ok -> (if via =? 2 then gx p else mx p) = true.
  Proof.
    unfold update_with. destruct (validate p); [|destruct (via =? 2); discriminate|discriminate].
    destruct (via =? 1); [discriminate|].
    destruct (via =? 2); [destruct (gx p)|destruct (mx p)]; simpl; intros H; congruence.
  Qed.

  Lemma update_unprivileged p cur : snd (upd 1 p cur) = cur.
  Proof. destruct (update_with_cases 1 p cur) as [[H _]|[H _]]; [exact H|congruence]. Qed.

  Lemma update_invalid via p cur :
    validate p <> Ok -> snd (upd via p cur) = cur /\ fst (upd via p cur) <> Ok.
  Proof.
    intros Hn. destruct (update_with_cases via p cur) as [[H1 H2]|(_ & Hv & _)]; [|contradiction].
    split; [exact H1|exact H2].
  Qed.

  Lemma update_accepted via p cur :
    fst (upd via p cur) = Ok -> via <> 1 /\ validate p = Ok /\ snd (upd via p cur) = p.
  Proof.
    intros Ho. destruct (update_with_cases via p cur) as [[_ H2]|(Hvia & Hv & He)]; [contradiction|].
    rewrite He. auto.
  Qed.

  Lemma update_keeps (Q : P -> Prop) via p cur : Q cur -> (validate p = Ok -> Q p) -> Q (snd (upd via p cur)).
  Proof.
    intros Hc Hp. destruct (update_with_cases via p cur) as [[H1 _]|(_ & Hv & He)].
    - rewrite H1. exact Hc.
    - rewrite He. simpl. exact (Hp Hv).
  Qed.
End Update.

(** *** genesis in two stages *)
Lemma init_genesis_guarded {P} (vg sp : P -> outcome) gx p cur :
  vg p <> Ok \/ sp p <> Ok ->
  snd (init_genesis vg sp gx p cur) = cur /\ fst (init_genesis vg sp gx p cur) <> Ok.
Proof.
  intros H. unfold init_genesis.
  destruct (vg p); destruct (sp p); try (destruct (gx p)); simpl; try (split; [reflexivity|discriminate]);
    destruct H; congruence.
Qed.

Lemma init_genesis_accepted {P} (vg sp : P -> outcome) gx p cur :
  fst (init_genesis vg sp gx p cur) = Ok -> vg p = Ok /\ sp p = Ok /\ snd (init_genesis vg sp gx p cur) = p.
Proof.
  unfold init_genesis. destruct (vg p); destruct (sp p); try (destruct (gx p)); simpl; intros H;
    try discriminate H; auto.
Qed.

(** [update_with ... 2] (the via = 2 branch used by the histories) is the two-stage genesis whenever
    the first stage accepts at least what the second accepts *)
Lemma update_genesis_is_two_stage {P} (validate vg : P -> outcome) gx mx p cur :
  (validate p = Ok -> vg p = Ok) ->
  snd (update_with validate gx mx 2 p cur) = snd (init_genesis vg validate gx p cur)
  /\ (fst (update_with validate gx mx 2 p cur) = Ok <-> fst (init_genesis vg validate gx p cur) = Ok).
Proof.
  intros Hsub. unfold update_with, init_genesis. change (2 =? 1) with false. change (2 =? 2) with true.
  destruct (validate p) eqn:Ev.
  - rewrite (Hsub eq_refl). destruct (gx p); simpl; split; try reflexivity; split; auto; discriminate.
  - destruct (vg p); simpl; split; try reflexivity; split; discriminate.
  - destruct (vg p); simpl; split; try reflexivity; split; discriminate.
Qed.

(** farm: what ValidateGenesis checks is implied by Params.Validate *)
Lemma vg_fm_weaker p : validate_fm p = Ok -> vg_fm p = Ok.
Proof.
  intros Hv. destruct (validate_fm_facts p Hv) as (a & t & Hd & Ha & Hap & _).
  unfold vg_fm. rewrite Hd, Ha. cbn [negb]. destruct (a <? 0) eqn:E; [lia|reflexivity].
Qed.

(** ... and strictly weaker: a tax rate of 2 passes ValidateGenesis and is rejected by SetParams only *)
Lemma vg_fm_single_guard :
  let p := mkFm (mkCoin 1 (Some 5000)) 2 (Some 2000000000000000000) in
  vg_fm p = Ok /\ validate_fm p = Rej /\ init_genesis vg_fm validate_fm (fun _ => true) p fm_defaults = (Abort, fm_defaults).
Proof. cbv zeta. repeat split; vm_compute; reflexivity. Qed.

(** ** 4. Histories *)
Definition submitted_valid (st : pstep) : Prop :=
  match st with
  | UpdCS _ p => validate_cs p = Ok | UpdFM _ p => validate_fm p = Ok | UpdHT _ p => validate_ht p = Ok
  | UpdSV _ p => validate_sv p = Ok | UpdTK _ p => validate_tk p = Ok
  | _ => False
  end.

Lemma unprivileged_step_keeps_state s st : unprivileged st = true -> pstep_state s st = s.
Proof.
  destruct s; destruct st; simpl; intros Hu; try reflexivity;
    apply Z.eqb_eq in Hu; subst via;
    unfold update_cs, update_fm, update_ht, update_sv, update_tk; rewrite update_unprivileged; reflexivity.
Qed.

Lemma unprivileged_history_keeps_state h : forall s, forallb unprivileged h = true -> run s h = s.
Proof.
  unfold run. induction h as [|st h IH]; intros s Hall; [reflexivity|].
  simpl in Hall. apply andb_true_iff in Hall. destruct Hall as [H1 H2].
  simpl. rewrite (unprivileged_step_keeps_state s st H1). exact (IH s H2).
Qed.

(** a step that is not an ACCEPTED update leaves the five stored sets as they are; an accepted update
    comes from the authority (or genesis) and submits a set that validates *)
Lemma step_not_accepted_keeps_state s st : upd_outcome s st <> Some Ok -> pstep_state s st = s.
Proof.
  destruct s; destruct st; simpl; intros Hn; try reflexivity;
    unfold update_cs, update_fm, update_ht, update_sv, update_tk in *;
    match goal with |- context [update_with ?v ?g ?mx ?via ?p ?cur] =>
      destruct (update_with_cases v g mx via p cur) as [[H1 _]|(_ & _ & He)];
        [rewrite H1; reflexivity|rewrite He in Hn; simpl in Hn; congruence] end.
Qed.

Lemma step_accepted_is_privileged_and_valid s st :
  upd_outcome s st = Some Ok -> unprivileged st = false /\ submitted_valid st.
Proof.
  destruct st; simpl; intros Ho; try discriminate Ho; injection Ho as Ho;
    unfold update_cs, update_fm, update_ht, update_sv, update_tk in *;
    apply update_accepted in Ho; destruct Ho as (Hvia & Hv & _); (split; [lia|exact Hv]).
Qed.

Lemma step_keeps_valid s st : ps_valid s -> ps_valid (pstep_state s st).
Proof.
  intros (H1 & H2 & H3 & H4 & H5).
  destruct st; simpl; unfold ps_valid; simpl; repeat split; try assumption;
    unfold update_cs, update_fm, update_ht, update_sv, update_tk; apply update_keeps; auto.
Qed.

Lemma run_keeps_valid h : forall s, ps_valid s -> ps_valid (run s h).
Proof.
  unfold run. induction h as [|st h IH]; intros s Hs; [exact Hs|].
  simpl. apply IH. apply step_keeps_valid. exact Hs.
Qed.

(** token: the stored issue fee is always denominated in a registered symbol (what InitGenesis asserts
    when an exported genesis is imported) *)
Lemma step_keeps_fee_registered s st :
  tk_fee_registered (ps_tk s) = true -> tk_fee_registered (ps_tk (pstep_state s st)) = true.
Proof.
  intros Hs. destruct st; simpl; try exact Hs.
  unfold update_tk.
  destruct (update_with_cases validate_tk tk_fee_registered tk_fee_registered via p (ps_tk s)) as [[H1 _]|(_ & _ & He)].
  - rewrite H1. exact Hs.
  - pose proof (update_accepted_extra validate_tk tk_fee_registered tk_fee_registered via p (ps_tk s)) as Hx.
    rewrite He in *. simpl in *. specialize (Hx eq_refl). destruct (via =? 2); exact Hx.
Qed.

Lemma run_keeps_fee_registered h : forall s,
  tk_fee_registered (ps_tk s) = true -> tk_fee_registered (ps_tk (run s h)) = true.
Proof.
  unfold run. induction h as [|st h IH]; intros s Hs; [exact Hs|].
  simpl. apply IH. apply step_keeps_fee_registered. exact Hs.
Qed.

Lemma defaults_validate_lemma :
  validate_cs cs_defaults = Ok /\ validate_fm fm_defaults = Ok /\ validate_ht ht_defaults = Ok
  /\ validate_sv sv_defaults = Ok /\ validate_tk tk_defaults = Ok.
Proof. repeat split; vm_compute; reflexivity. Qed.

Lemma init_valid : ps_valid ps_init.
Proof. exact defaults_validate_lemma. Qed.

(** in a state whose stored sets validate, no well-formed operation aborts *)
Lemma op_no_abort s st r :
  ps_valid s -> step_wf st -> op_result s st = Some r -> res_outcome r <> Abort.
Proof.
  intros (V1 & V2 & V3 & V4 & V5) Hwf Hr.
  destruct st; simpl in Hr; try discriminate Hr; simpl in Hwf.
  - eapply cs_no_panic; eassumption.
  - eapply fm_no_panic; eassumption.
  - eapply ht_no_panic; eassumption.
  - eapply sv_no_panic; eassumption.
  - eapply tk_no_panic; eassumption.
Qed.

Lemma no_operation_aborts_lemma h st r :
  step_wf st -> op_result (run ps_init h) st = Some r -> res_outcome r <> Abort.
Proof.
  intros Hst. apply op_no_abort; [|exact Hst].
  apply run_keeps_valid. exact init_valid.
Qed.
