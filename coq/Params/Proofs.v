(** * C16: proofs *)
From Irismod Require Export Params.Model Gen.ParamsDefaults.

Lemma defaults_validate_lemma :
  validate_cs cs_defaults = Ok /\ validate_fm fm_defaults = Ok /\ validate_ht ht_defaults = Ok
  /\ validate_sv sv_defaults = Ok /\ validate_tk tk_defaults = Ok.
Proof. repeat split; vm_compute; reflexivity. Qed.
