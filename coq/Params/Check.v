(** * C16: correspondence check and trace predicate, evaluated by [vm_compute] on the cases the
    harness writes.

    A case = one module, one submitted parameter set, how it was submitted, what the implementation
    showed (result of [Params.Validate] called directly, outcome of the update, parameters stored
    before and after) and the operations executed afterwards with their outcome kinds under the
    submitted set and -- the same operations on a second chain -- under the default parameters. *)
From Irismod Require Export Params.Model Gen.ParamsDefaults.

Record mcase (P O : Type) := mkCase {
  k_via : Z;                 (* 0 authority message, 1 message by somebody else, 2 InitGenesis *)
  k_params : P;              (* submitted *)
  k_val : Z;                 (* Params.Validate(): 0 nil, 1 error, 2 panic *)
  k_upd : Z;                 (* outcome of the update: 0 ok, 1 rejected, 2 abort *)
  k_before : P;              (* stored parameters (query) before ... *)
  k_after : P;               (* ... and after the update *)
  k_ops : list (O * Z * O * Z)   (* operation with the state it met + outcome, under the set; same under the defaults *)
}.
Arguments mkCase {P O}.
Arguments k_via {P O}. Arguments k_params {P O}. Arguments k_val {P O}. Arguments k_upd {P O}.
Arguments k_before {P O}. Arguments k_after {P O}. Arguments k_ops {P O}.

Inductive case :=
| CaseCS (c : mcase cs_params cs_op)
| CaseFM (c : mcase fm_params fm_op)
| CaseHT (c : mcase ht_params ht_op)
| CaseSV (c : mcase sv_params sv_op)
| CaseTK (c : mcase tk_params tk_op).

#[export] Instance EqDec_coin : EqDec coin.
Proof. intros x y. decide equality; apply eq_dec. Defined.
#[export] Instance EqDec_cs : EqDec cs_params.
Proof. intros x y. decide equality; apply eq_dec. Defined.
#[export] Instance EqDec_fm : EqDec fm_params.
Proof. intros x y. decide equality; apply eq_dec. Defined.
#[export] Instance EqDec_asset : EqDec asset.
Proof. intros x y. decide equality; apply eq_dec. Defined.
#[export] Instance EqDec_sv : EqDec sv_params.
Proof. intros x y. decide equality; apply eq_dec. Defined.
#[export] Instance EqDec_tk : EqDec tk_params.
Proof. intros x y. decide equality; apply eq_dec. Defined.

Section Generic.
  Context {P O : Type} `{EqDec P}.
  Variable validate : P -> outcome.
  Variable update : Z -> P -> P -> outcome * P.
  Variable path : P -> O -> option res.
  Variable defaults : P.
  Variable base : Z.
  Variable blocker : O -> bool.   (* the operation is a run of begin / end blockers *)

  (** step 0: the model's validation, update outcome and stored value agree with what was seen.
      Validation and update are compared as ACCEPTED / NOT ACCEPTED: whether a set that is not accepted
      fails with an error or with a panic inside validation (nil decimal) is immaterial to C16, and
      depends on the order of the checks in [Validate()] when two fields are bad at once. *)
  Definition corr_update (c : mcase P O) : bool :=
    let '(o, st) := update (k_via c) (k_params c) (k_before c) in
    eqb (k_before c) defaults
    && Bool.eqb (outcome_code (validate (k_params c)) =? 0) (k_val c =? 0)
    && Bool.eqb (outcome_code o =? 0) (k_upd c =? 0)
    && eqb (k_after c) st.

  Definition agrees (p : P) (o : O) (code : Z) : bool :=
    match path p o with Some r => res_code r =? code | None => true end.

  Definition corr_op (pset : P) (e : O * Z * O * Z) : bool :=
    let '(os, cs, od, cd) := e in agrees pset os cs && agrees defaults od cd.

  (** the property on the implementation's own observations.
      clause 1: a message not signed by the authority changed the parameters;
      clause 2: a set that the module's validation does not accept was stored;
      clause 3 (operations): under an accepted set an operation aborted that does not abort under the defaults *)
  Definition prop_update (c : mcase P O) : Z :=
    if (k_via c =? 1) && negb (eqb (k_after c) (k_before c)) then 1
    else if negb (k_val c =? 0) && negb (eqb (k_after c) (k_before c)) then 2
    else 0.

  Definition prop_op (e : O * Z * O * Z) : bool :=
    let '(_, cs, _, cd) := e in negb ((cs =? 2) && negb (cd =? 2)).

  Definition abort_code (pset : P) (e : O * Z * O * Z) : Z :=
    let '(os, _, _, _) := e in
    match path pset os with
    | Some (Panic w) => w
    | _ => if blocker os then base + 98 else base + 99
    end.

  Fixpoint check_ops (pset : P) (l : list (O * Z * O * Z)) (i corr prop code : Z) : Z * Z * Z :=
    match l with
    | [] => (corr, prop, code)
    | e :: rest =>
        let corr' := if (corr <? 0) && negb (corr_op pset e) then i else corr in
        let bad := (prop <? 0) && negb (prop_op e) in
        check_ops pset rest (i + 1) corr' (if bad then i else prop) (if bad then abort_code pset e else code)
    end.

  Definition check_mcase (c : mcase P O) : Z * Z * Z :=
    let corr0 := if corr_update c then -1 else 0 in
    let cl := prop_update c in
    let prop0 := if cl =? 0 then -1 else 0 in
    let code0 := if cl =? 0 then 0 else base + 90 + cl in      (* x91 / x92: apart from the abort codes x01.. *)
    check_ops (k_after c) (k_ops c) 1 corr0 prop0 code0.
End Generic.

(** (index of the first step where model and implementation differ or -1, index of the first step
    where C16 fails on the implementation's own observations or -1, clause code) *)
Definition check_case (c : case) : Z * Z * Z :=
  match c with
  | CaseCS c => check_mcase validate_cs update_cs cs_path cs_defaults 100 (fun _ => false) c
  | CaseFM c => check_mcase validate_fm update_fm fm_path fm_defaults 200 (fun _ => false) c
  | CaseHT c => check_mcase validate_ht update_ht ht_path ht_defaults 300 (fun o => match o with HtBegin => true | _ => false end) c
  | CaseSV c => check_mcase validate_sv update_sv sv_path sv_defaults 400 (fun o => match o with SvBlocks _ => true | _ => false end) c
  | CaseTK c => check_mcase validate_tk update_tk tk_path tk_defaults 500 (fun _ => false) c
  end.

(** the chain state after genesis with the regenerated default parameters *)
Definition ps_init : pstate := mkPS cs_defaults fm_defaults ht_defaults sv_defaults tk_defaults.
