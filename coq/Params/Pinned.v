(** * C16: the validators and the one handler of the PINNED commit (before any repair), and the
    witnesses that refute "validated => no abort" there.

    These definitions restate the code as it was at the pinned irismod commit; they were tied to that
    code by the correspondence check of rounds 1-2 (the replays are kept in [corpus/C16]) and are no
    longer evaluated against the repaired tree.  The handlers of coinswap, farm, htlc and token are
    unchanged by the repairs, so the paths are those of [Params/Model.v]; service [GetMinDeposit]
    multiplied with the panicking [Int.Mul]. *)
From Irismod Require Export Params.Model.
Local Open Scope Z_scope.

(** coinswap [Params.Validate]: only [IsPositive] on the creation fee *)
Definition validate_cs_pinned (p : cs_params) : outcome :=
  match cs_fee p with
  | None => Abort
  | Some f =>
      if negb (in_open01 f) then Rej
      else match c_amt (cs_pcf p) with
           | None => Abort                                   (* PoolCreationFee.IsPositive on nil *)
           | Some a =>
               if negb (0 <? a) then Rej
               else match cs_tax p with
                    | None => Abort
                    | Some t =>
                        if negb (in_open01 t) then Rej
                        else match cs_uni p with
                             | None => Abort
                             | Some u => if negb ((0 <=? u) && (u <? P18)) then Rej else Ok
                             end
                    end
           end
  end.

(** farm [Params.Validate]: the creation fee only, the tax rate never validated *)
Definition validate_fm_pinned (p : fm_params) : outcome :=
  if negb (denom_valid (c_denom (fm_pcf p))) then Rej
  else match c_amt (fm_pcf p) with
       | None => Rej
       | Some a => if a <? 0 then Rej else Ok
       end.

(** htlc [validateAssetParams] *)
Fixpoint validate_assets_pinned (seen : list Z) (l : list asset) : outcome :=
  match l with
  | [] => Ok
  | a :: rest =>
      if negb (htlc_denom_ok (a_denom a)) then Rej
      else match a_limit a with
      | None => Abort                                        (* Limit.IsNegative on nil *)
      | Some lim =>
      if lim <? 0 then Rej
      else match a_tbl a with
      | None => Abort
      | Some tbl =>
      if tbl <? 0 then Rej
      else if lim <? tbl then Rej
      else if existsb (Z.eqb (a_denom a)) seen then Rej
      else if a_deputy a <? 0 then Rej
      else match a_fixed a with
      | None => Abort
      | Some f =>
      if f <? 0 then Rej
      else if a_minlock a <? MinTimeLock then Rej
      else if MaxTimeLock <? a_maxlock a then Rej
      else if a_maxlock a <? a_minlock a then Rej
      else match a_min a with
      | None => Abort
      | Some mn =>
      if negb (0 <? mn) then Rej
      else match a_max a with
      | None => Abort
      | Some mx =>
      if negb (0 <? mx) then Rej
      else if mx <? mn then Rej
      else validate_assets_pinned (a_denom a :: seen) rest
      end end end end end
  end.
Definition validate_ht_pinned (p : ht_params) : outcome := validate_assets_pinned [] p.

(** token [Params.Validate]: [IsNegative] on the base fee *)
Definition validate_tk_pinned (p : tk_params) : outcome :=
  match tk_tax p with
  | None => Abort
  | Some t =>
  if negb (rate_closed01 t) then Rej
  else match tk_ratio p with
  | None => Abort
  | Some r =>
  if negb (rate_closed01 r) then Rej
  else match c_amt (tk_fee p) with
  | None => Abort                                            (* IssueTokenBaseFee.IsNegative on nil *)
  | Some a =>
  if a <? 0 then Rej
  else if negb ((tk_beacon p =? 0) || (tk_beacon p =? 1)) then Rej
  else Ok
  end end end.

(** service keeper.GetMinDeposit with [basePrice.Mul(minDepositMultiple)] *)
Definition sv_bind_pinned (p : sv_params) (price deposit qos bal : Z) : res :=
  if negb (sv_base p =? 1) then Reject
  else if (sv_maxto p) mod two64 <? qos then Reject
  else
    let m0 := price * sv_mult p in
    if negb (int_ok m0) then Panic 402                       (* "integer overflow" *)
    else match sv_deposit_enough p price deposit with
         | inl w => Panic w
         | inr false => Reject
         | inr true => if bal <? deposit then Reject else Done
         end.

(** ** Witnesses *)
Definition cs_big : cs_params :=
  mkCs (Some 3000000000000000) (mkCoin 1 (Some (2 ^ 256 - 1))) (Some 900000000000000000) (Some 2000000000000000).
Definition cs_bad_denom : cs_params :=
  mkCs (Some 3000000000000000) (mkCoin 3 (Some 5000)) (Some 400000000000000000) (Some 2000000000000000).
Definition fm_big : fm_params := mkFm (mkCoin 1 (Some (2 ^ 256 - 1))) 2 (Some 900000000000000000).
Definition fm_tax2 : fm_params := mkFm (mkCoin 1 (Some 5000)) 2 (Some 2000000000000000000).
Definition ht_big : ht_params :=
  [mkAsset 10 (Some 1000000000) false 3600 (Some 50000000) true 2 (Some (2 ^ 256 - 1)) (Some 2000) (Some 100000000) 50 34560].
Definition sv_big : sv_params :=
  mkSv 100 (2 ^ 62) [mkCoin 1 (Some 5000)] (Some 50000000000000000) (Some 1000000000000000) 1296000000000000 432000000000000 4000 1 false.
Definition tk_big : tk_params :=
  mkTk (Some 400000000000000000) (mkCoin 1 (Some (2 ^ 256 - 1))) (Some 100000000000000000) true 0.
Definition tk_bad_denom : tk_params :=
  mkTk (Some 400000000000000000) (mkCoin 0 (Some 60000)) (Some 100000000000000000) true 0.

(** accepted at the pinned commit, and the handler aborts; rejected by the repaired validators *)
Lemma cs_pinned_refuted :
  validate_cs_pinned cs_big = Ok /\ cs_path cs_big (CsCreatePool 0 0 0 1 1) = Some (Panic 103)
  /\ validate_cs_pinned cs_bad_denom = Ok /\ cs_path cs_bad_denom (CsCreatePool 1000000 0 1000000 10 10) = Some (Panic 104)
  /\ validate_cs cs_big = Rej /\ validate_cs cs_bad_denom = Rej.
Proof. repeat split; vm_compute; reflexivity. Qed.

Lemma fm_pinned_refuted :
  validate_fm_pinned fm_big = Ok /\ fm_path fm_big (FmCreatePool 1 0) = Some (Panic 203)
  /\ validate_fm_pinned fm_tax2 = Ok /\ fm_path fm_tax2 (FmCreatePool 1 1000000) = Some (Panic 206)
  /\ validate_fm fm_big = Rej /\ validate_fm fm_tax2 = Rej.
Proof. repeat split; vm_compute; reflexivity. Qed.

Lemma ht_pinned_refuted :
  validate_ht_pinned ht_big = Ok
  /\ ht_path ht_big (HtCreate 10 72339 1 2 61 (Some (0, 0, 0, 0)) 100000) = Some (Panic 318)
  /\ validate_ht ht_big = Rej.
Proof. repeat split; vm_compute; reflexivity. Qed.

Lemma sv_pinned_refuted :
  validate_sv sv_big = Ok
  /\ sv_bind_pinned sv_big (2 ^ 200) 5000 3 1000000 = Panic 402
  /\ sv_bind_pinned (mkSv 100 1000 [mkCoin 1 (Some 5000)] (Some 50000000000000000) (Some 1000000000000000) 1296000000000000 432000000000000 4000 1 false) (2 ^ 200) 5000 3 1000000 = Reject
  /\ sv_path sv_big (SvBind (2 ^ 200) 5000 3 1000000 1) = Some Reject.
Proof. repeat split; vm_compute; reflexivity. Qed.

Lemma tk_pinned_refuted :
  validate_tk_pinned tk_big = Ok /\ tk_path tk_big (TkIssue P18 0 0) = Some (Panic 503)
  /\ validate_tk_pinned tk_bad_denom = Ok /\ tk_path tk_bad_denom (TkIssue P18 0 1000000) = Some (Panic 504)
  /\ validate_tk tk_big = Rej /\ validate_tk tk_bad_denom = Rej.
Proof. repeat split; vm_compute; reflexivity. Qed.
