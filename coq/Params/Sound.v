(** * C16: the correspondence check is sound with respect to the theorems.

    If, on a case, the implementation's observations AGREE with the model everywhere (first
    component of [check_case] = -1), the submitted set and the operations satisfy the side conditions
    of the no-abort theorems, and every operation of the case is a modelled one, then the property
    predicate evaluated on the implementation's own observations holds (second component = -1).
    In other words: with a faithful model, an alarm of the property clauses can only come from a
    behaviour that the theorems exclude -- the check never demands more than what is proved. *)
From Irismod Require Export Params.Proofs.
From Coq Require Import ZifyBool.
Local Open Scope Z_scope.

Section CheckSound.
  Context {P O : Type} `{EqDec P}.
  Variable validate : P -> outcome.
  Variable gx mx : P -> bool.
  Variable path : P -> O -> option res.
  Variable defaults : P.
  Variable base : Z.
  Variable blocker : O -> bool.
  Variable small : P -> Prop.
  Variable wf : O -> Prop.
  Hypothesis Hdef_valid : validate defaults = Ok.
  Hypothesis Hdef_small : small defaults.
  Hypothesis Hna : forall p o r,
    validate p = Ok -> small p -> wf o -> path p o = Some r -> res_outcome r <> Abort.

  Notation upd := (update_with validate gx mx).
  Notation cops := (check_ops path defaults base blocker).

  Definition op_of (e : O * Z * O * Z) : O := let '(os, _, _, _) := e in os.

  Lemma corr_update_facts (c : mcase P O) :
    corr_update validate upd defaults c = true ->
    k_before c = defaults
    /\ (outcome_code (validate (k_params c)) =? 0) = (k_val c =? 0)
    /\ k_after c = snd (upd (k_via c) (k_params c) (k_before c)).
  Proof.
    unfold corr_update. destruct (upd (k_via c) (k_params c) (k_before c)) as [o st] eqn:Eu.
    intros Hc. apply andb_true_iff in Hc. destruct Hc as [Hc H4].
    apply andb_true_iff in Hc. destruct Hc as [Hc H3].
    apply andb_true_iff in Hc. destruct Hc as [H1 H2].
    apply (proj1 (eqb_true_iff _ _)) in H1. apply (proj1 (eqb_true_iff _ _)) in H4. simpl. split; [exact H1|]. split; [apply Bool.eqb_prop; exact H2|exact H4].
  Qed.

  Lemma corr_update_prop (c : mcase P O) : corr_update validate upd defaults c = true -> prop_update c = 0.
  Proof.
    intros Hc. destruct (corr_update_facts c Hc) as (Hb & Hv & Ha).
    unfold prop_update.
    destruct (update_with_cases validate gx mx (k_via c) (k_params c) (k_before c)) as [[Hs _]|(Hvia & Hok & He)].
    - rewrite Hs in Ha. rewrite Ha, eqb_refl. cbn [negb]. rewrite !andb_false_r. reflexivity.
    - assert (k_via c =? 1 = false) as -> by lia.
      rewrite Hok in Hv. simpl in Hv. rewrite <- Hv. reflexivity.
  Qed.

  Lemma corr_update_after (c : mcase P O) :
    corr_update validate upd defaults c = true -> small (k_params c) ->
    validate (k_after c) = Ok /\ small (k_after c).
  Proof.
    intros Hc Hs. destruct (corr_update_facts c Hc) as (Hb & _ & Ha).
    rewrite Ha, Hb. split; apply update_keeps; auto.
  Qed.

  (** once a divergence index is recorded it is never overwritten *)
  Lemma check_ops_corr_stays pset l : forall i corr prop code,
    0 <= corr -> fst (fst (cops pset l i corr prop code)) = corr.
  Proof.
    induction l as [|e l IH]; intros i corr prop code Hc; [reflexivity|].
    cbn [check_ops]. assert (corr <? 0 = false) as -> by lia. cbn [andb]. apply IH. exact Hc.
  Qed.

  Lemma check_ops_sound pset l :
    validate pset = Ok -> small pset ->
    Forall (fun e => wf (op_of e) /\ path pset (op_of e) <> None) l ->
    forall i corr code, 0 <= i ->
      fst (fst (cops pset l i corr (-1) code)) = -1 -> snd (fst (cops pset l i corr (-1) code)) = -1.
  Proof.
    intros Hv Hs. induction l as [|e l IH]; intros Hall i corr code Hi Hfin; [reflexivity|].
    inversion Hall as [|? ? [Hwf Hmod] Hrest]; subst.
    cbn [check_ops] in *.
    destruct (corr <? 0) eqn:Ec.
    2:{ cbn [andb] in Hfin. assert (Hc0 : 0 <= corr) by lia. rewrite (check_ops_corr_stays pset l _ corr _ _ Hc0) in Hfin. lia. }
    destruct (corr_op path defaults pset e) eqn:Eo.
    2:{ cbn [andb negb] in Hfin. rewrite (check_ops_corr_stays pset l _ i _ _ Hi) in Hfin. lia. }
    cbn [andb negb] in *.
    assert (Hp : prop_op e = true).
    { destruct e as [[[os cs] od] cd]. simpl in Hwf, Hmod. unfold corr_op in Eo.
      apply andb_true_iff in Eo. destruct Eo as [Ea _]. unfold agrees in Ea.
      destruct (path pset os) as [r|] eqn:Er; [|congruence].
      pose proof (Hna pset os r Hv Hs Hwf Er) as Hnab.
      unfold prop_op. apply Z.eqb_eq in Ea. unfold res_code in Ea.
      destruct (res_outcome r); [| |congruence]; simpl in Ea; subst cs; reflexivity. }
    rewrite Hp in *. cbn [negb] in *. change ((-1 <? 0) && false) with false in *. cbv iota in *.
    apply IH; [exact Hrest|lia|exact Hfin].
  Qed.

  (** *** the model's own observations pass the check *)
  Definition path_code (pset : P) (o : O) : Z := match path pset o with Some r => res_code r | None => 0 end.
  Definition model_op (pset : P) (o : O) : O * Z * O * Z := (o, path_code pset o, o, path_code defaults o).
  Definition model_mcase (via : Z) (p : P) (ops : list O) : mcase P O :=
    mkCase via p (outcome_code (validate p)) (outcome_code (fst (upd via p defaults))) defaults
           (snd (upd via p defaults)) (map (model_op (snd (upd via p defaults))) ops).

  Lemma check_ops_id pset l : forall i corr prop code,
    Forall (fun e => corr_op path defaults pset e = true /\ prop_op e = true) l ->
    cops pset l i corr prop code = (corr, prop, code).
  Proof.
    induction l as [|e l IH]; intros i corr prop code Hall; [reflexivity|].
    inversion Hall as [|? ? [Hc Hp] Hrest]; subst. cbn [check_ops]. rewrite Hc, Hp. cbn [negb].
    rewrite !andb_false_r. apply IH. exact Hrest.
  Qed.

  Lemma model_mcase_passes via p ops :
    small p -> Forall wf ops ->
    check_mcase validate upd path defaults base blocker (model_mcase via p ops) = (-1, -1, 0).
  Proof.
    intros Hs Hwf. unfold check_mcase.
    assert (Hcu : corr_update validate upd defaults (model_mcase via p ops) = true).
    { unfold corr_update, model_mcase. cbn [k_via k_params k_before k_val k_upd k_after].
      destruct (upd via p defaults) as [o st]. simpl. rewrite !eqb_refl, !Bool.eqb_reflx. reflexivity. }
    rewrite Hcu, (corr_update_prop _ Hcu). change (0 =? 0) with true. cbv iota.
    destruct (corr_update_after _ Hcu Hs) as [Hv Hsm].
    apply check_ops_id. cbn [k_ops k_after model_mcase] in *.
    set (st := snd (upd via p defaults)) in *. clear Hcu.
    induction ops as [|o ops IH]; [constructor|].
    inversion Hwf as [|? ? Ho Hrest]; subst. constructor; [|exact (IH Hrest)].
    split.
    - unfold corr_op, model_op, agrees, path_code.
      destruct (path st o); destruct (path defaults o); rewrite ?Z.eqb_refl; reflexivity.
    - unfold prop_op, model_op, path_code. destruct (path st o) as [r|] eqn:Er; [|reflexivity].
      pose proof (Hna st o r Hv Hsm Ho Er) as Hnab. unfold res_code.
      destruct (res_outcome r); simpl; try reflexivity. congruence.
  Qed.

  Theorem check_mcase_sound (c : mcase P O) :
    small (k_params c) ->
    Forall (fun e => wf (op_of e) /\ path (k_after c) (op_of e) <> None) (k_ops c) ->
    fst (fst (check_mcase validate upd path defaults base blocker c)) = -1 ->
    snd (fst (check_mcase validate upd path defaults base blocker c)) = -1.
  Proof.
    intros Hs Hall Hfin. unfold check_mcase in *.
    destruct (corr_update validate upd defaults c) eqn:Ec.
    2:{ rewrite (check_ops_corr_stays (k_after c) (k_ops c) _ 0 _ _ (Z.le_refl 0)) in Hfin. lia. }
    rewrite (corr_update_prop c Ec) in *. change (0 =? 0) with true in *. cbv iota in *.
    destruct (corr_update_after c Ec Hs) as [Hv Hsm].
    apply check_ops_sound; [exact Hv|exact Hsm|exact Hall|lia|exact Hfin].
  Qed.
End CheckSound.

(** side conditions of a case, per module: every operation is a modelled one and well formed *)
Definition mcase_wf {P O} (path : P -> O -> option res) (wf : O -> Prop) (c : mcase P O) : Prop :=
  Forall (fun e => wf (op_of e) /\ path (k_after c) (op_of e) <> None) (k_ops c).

Definition case_wf (c : case) : Prop :=
  match c with
  | CaseCS c => mcase_wf cs_path cs_op_wf c
  | CaseFM c => mcase_wf fm_path (fun _ => True) c
  | CaseHT c => mcase_wf ht_path (fun _ => True) c
  | CaseSV c => mcase_wf sv_path sv_op_wf c
  | CaseTK c => mcase_wf tk_path tk_op_wf c
  end.

Lemma agreement_implies_property_lemma c :
  case_wf c -> fst (fst (check_case c)) = -1 -> snd (fst (check_case c)) = -1.
Proof.
  destruct (defaults_validate_lemma) as (D1 & D2 & D3 & D4 & D5).
  destruct c as [c|c|c|c|c]; intros Hall; simpl.
  - apply check_mcase_sound with (small := fun _ => True) (wf := cs_op_wf); auto.
    intros; eapply cs_no_panic; eassumption.
  - apply check_mcase_sound with (small := fun _ => True) (wf := fun _ => True); auto.
    intros; eapply fm_no_panic; eassumption.
  - apply check_mcase_sound with (small := fun _ => True) (wf := fun _ => True); auto.
    intros; eapply ht_no_panic; eassumption.
  - apply check_mcase_sound with (small := fun _ => True) (wf := sv_op_wf); auto.
    intros; eapply sv_no_panic; eassumption.
  - apply check_mcase_sound with (small := fun _ => True) (wf := tk_op_wf); auto.
    intros; eapply tk_no_panic; eassumption.
Qed.

(** ** The model's own observations pass the check: for every module, every way of submitting, every
    submitted set and every list of well-formed operations, the case built from the MODEL's outcomes
    evaluates to (-1, -1, 0). *)
Inductive mspec :=
| MCS (via : Z) (p : cs_params) (ops : list cs_op)
| MFM (via : Z) (p : fm_params) (ops : list fm_op)
| MHT (via : Z) (p : ht_params) (ops : list ht_op)
| MSV (via : Z) (p : sv_params) (ops : list sv_op)
| MTK (via : Z) (p : tk_params) (ops : list tk_op).

Definition model_case_of (m : mspec) : case :=
  match m with
  | MCS via p ops => CaseCS (model_mcase validate_cs (fun _ => true) (fun _ => true) cs_path cs_defaults via p ops)
  | MFM via p ops => CaseFM (model_mcase validate_fm (fun _ => true) (fun _ => true) fm_path fm_defaults via p ops)
  | MHT via p ops => CaseHT (model_mcase validate_ht (fun _ => true) (fun _ => true) ht_path ht_defaults via p ops)
  | MSV via p ops => CaseSV (model_mcase validate_sv (fun _ => true) (fun _ => true) sv_path sv_defaults via p ops)
  | MTK via p ops => CaseTK (model_mcase validate_tk tk_fee_registered tk_fee_registered tk_path tk_defaults via p ops)
  end.

Definition mspec_wf (m : mspec) : Prop :=
  match m with
  | MCS _ _ ops => Forall cs_op_wf ops
  | MSV _ _ ops => Forall sv_op_wf ops
  | MTK _ _ ops => Forall tk_op_wf ops
  | _ => True
  end.

Lemma model_passes_check_lemma m : mspec_wf m -> check_case (model_case_of m) = (-1, -1, 0).
Proof.
  destruct (defaults_validate_lemma) as (D1 & D2 & D3 & D4 & D5).
  destruct m as [via p ops|via p ops|via p ops|via p ops|via p ops]; intros Hwf; simpl.
  - apply model_mcase_passes with (small := fun _ => True) (wf := cs_op_wf); auto.
    intros; eapply cs_no_panic; eassumption.
  - apply model_mcase_passes with (small := fun _ => True) (wf := fun _ => True); auto.
    + intros; eapply fm_no_panic; eassumption.
    + clear. induction ops; constructor; auto.
  - apply model_mcase_passes with (small := fun _ => True) (wf := fun _ => True); auto.
    + intros; eapply ht_no_panic; eassumption.
    + clear. induction ops; constructor; auto.
  - apply model_mcase_passes with (small := fun _ => True) (wf := sv_op_wf); auto.
    intros; eapply sv_no_panic; eassumption.
  - apply model_mcase_passes with (small := fun _ => True) (wf := tk_op_wf); auto.
    intros; eapply tk_no_panic; eassumption.
Qed.
