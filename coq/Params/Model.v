(** * Parameters of coinswap, farm, htlc, service and token: executable model (property C16)

    Per module M: the parameter record (decimal / integer fields are [option Z]: [None] = the Go
    field is nil, which makes the library's comparisons and arithmetic panic), [validate_M]
    mirroring [Params.Validate()] branch by branch (of the FIXED code: the three repo commits
    "fix: farm / coinswap / token Params.Validate ..."), the update by message / by genesis, and every
    parameter-consuming arithmetic path of the handlers and blockers with its abort points
    explicit ([Panic why], [why] naming the Go expression that panics).

    Decimals are the integer scaled by 10^18 ([Base/Dec.v]).  Denominations are classes:
    0 = "", 3 = "!bad" and 12 = "htlt!x" (98 = any other invalid string) are invalid; 1 = "stake" (the bond denom,
    held by every actor, a registered token); 2 = "tcoin" (valid, nobody holds it, not a registered
    token); 10, 11 = "htltbnb", "htltinc" (the only classes acceptable as HTLC assets); 99 = any
    other valid denom; 4 = "btc" (valid, held by everybody); 5 = "feetok" (symbol of an issued token of scale 6); 6 = "ufeetok" (its min unit: a valid denom, not a symbol).  Among the valid classes that can occur together in one coin set (1, 2) the
    numeric order is the lexicographic order of the strings. *)
From Irismod Require Export Base.Prelude Base.Dec.

(** ** Results *)
Inductive res := Done | Reject | Panic (why : Z).

Definition res_outcome (r : res) : outcome :=
  match r with Done => Ok | Reject => Rej | Panic _ => Abort end.
Definition res_code (r : res) : Z := outcome_code (res_outcome r).
Definition res_why (r : res) : Z := match r with Panic w => w | _ => 0 end.

(** ** Shared vocabulary *)
Record coin := mkCoin { c_denom : Z; c_amt : option Z }.

Definition denom_valid (d : Z) : bool := negb ((d =? 0) || (d =? 3) || (d =? 12) || (d =? 98)).

(** [LegacyDec] results are checked against 315 bits ([maxDecBitLen]) *)
Definition two315 : Z := 2 ^ 315.
Definition dec_ok (d : Z) : bool := Z.abs d <? two315.

Definition in_open01 (x : Z) : bool := (0 <? x) && (x <? P18).

(** amount bounds of the validators: [Amount.BigInt().BitLen() > 255] (coinswap, farm) / [> 195] (token) *)
Definition two255 : Z := 2 ^ 255.
Definition two195 : Z := 2 ^ 195.

(** The fee split shared by coinswap [DeductPoolCreationFee], farm [DeductPoolCreationFee] and
    token [feeHandler]:
      tax  := NewCoin(denom, NewDecFromInt(amt).Mul(rate).TruncateInt())
      burn := NewCoins(fee.Sub(tax));  send fee from the payer;  tax to the collector;  burn.
    [w] is the base of the abort codes, [bal] the payer's balance in the fee denom. *)
Definition fee_split (w : Z) (dvalid : bool) (amt : Z) (rate : option Z) (bal : Z) : res :=
  match rate with
  | None => Panic (w + 2)                                   (* Mul on a nil decimal *)
  | Some r =>
      let m := dec_mul (dec_of_int amt) r in
      if negb (dec_ok m) then Panic (w + 3)                 (* "Int overflow" in LegacyDec.Mul *)
      else
        let tax := dec_truncate_int m in
        if negb dvalid then Panic (w + 4)                   (* NewCoin: invalid denom *)
        else if tax <? 0 then Panic (w + 5)                 (* NewCoin: negative coin amount *)
        else if amt - tax <? 0 then Panic (w + 6)           (* Coin.Sub: negative coin amount *)
        else if bal <? amt then Reject                      (* insufficient funds *)
        else Done
  end.

(** [Coins.Validate] (cosmos-sdk types/coin.go): first coin, then the others against the last denom *)
Fixpoint coins_validate_from (low : Z) (l : list coin) : outcome :=
  match l with
  | [] => Ok
  | c :: rest =>
      if negb (denom_valid (c_denom c)) then Rej
      else if c_denom c <? low then Rej
      else if c_denom c =? low then Rej
      else match c_amt c with
           | None => Abort                                   (* IsPositive on a nil amount *)
           | Some a => if negb (0 <? a) then Rej else coins_validate_from (c_denom c) rest
           end
  end.

Definition coins_validate (l : list coin) : outcome :=
  match l with
  | [] => Ok
  | c :: rest =>
      if negb (denom_valid (c_denom c)) then Rej
      else match c_amt c with
           | None => Abort
           | Some a => if negb (0 <? a) then Rej else coins_validate_from (c_denom c) rest
           end
  end.

Definition amt_or0 (o : option Z) : Z := match o with Some a => a | None => 0 end.

Fixpoint coins_amount_of (d : Z) (l : list coin) : Z :=
  match l with
  | [] => 0
  | c :: rest => if c_denom c =? d then amt_or0 (c_amt c) else coins_amount_of d rest
  end.

(** ** Update of a module's parameters.
    [via]: 0 = MsgUpdateParams signed by the authority, 1 = by anybody else, 2 = InitGenesis.
    Message: ValidateBasic runs [Params.Validate] first (a panic there aborts the message before the
    authority is even compared), then the handler compares the authority, then [SetParams] validates
    again and stores.  Genesis: any failure is a panic of InitGenesis.
    [genesis_extra] / [msg_extra]: a module-specific condition checked by InitGenesis after SetParams /
    by the message handler between the authority comparison and SetParams (token: the issue fee is
    denominated in a registered symbol; an ordinary rejection of the message, a panic of genesis). *)
Definition update_with {P : Type} (validate : P -> outcome) (genesis_extra msg_extra : P -> bool)
           (via : Z) (p cur : P) : outcome * P :=
  match validate p with
  | Abort => (Abort, cur)
  | Rej => (if via =? 2 then Abort else Rej, cur)
  | Ok =>
      if via =? 1 then (Rej, cur)
      else if via =? 2 then (if genesis_extra p then (Ok, p) else (Abort, cur))
      else if msg_extra p then (Ok, p) else (Rej, cur)
  end.

(** *** InitGenesis in two stages.
    Every module's InitGenesis first calls its [ValidateGenesis] (a failure is a panic), then
    [SetParams], which validates again; [vg] / [sp] are what each stage checks about the parameters,
    [gx] a module-specific condition afterwards (token: the fee denom is a registered symbol).
      module    ValidateGenesis checks                          SetParams checks
      coinswap  Params.Validate() (types/genesis.go, last)      Params.Validate()
      farm      ValidateCoins("PoolCreationFee", fee) ONLY      Params.Validate()   <- the tax rate and the
                (types/genesis.go; no call of Params.Validate)                         255-bit bound are rejected
                                                                                       by SetParams alone
      htlc      Params.Validate() (first)                       Params.Validate()
      service   Params.Validate() (first)                       Params.Validate()
      token     Params.Validate() (first)                       Params.Validate() *)
Definition init_genesis {P : Type} (vg sp : P -> outcome) (gx : P -> bool) (p cur : P) : outcome * P :=
  match vg p with
  | Ok => match sp p with
          | Ok => if gx p then (Ok, p) else (Abort, cur)
          | _ => (Abort, cur)
          end
  | _ => (Abort, cur)
  end.

(** ** coinswap  (modules/coinswap/types/params.go, keeper/{fees,swap,keeper}.go) *)
Record cs_params := mkCs { cs_fee : option Z; cs_pcf : coin; cs_tax : option Z; cs_uni : option Z }.

(** [Params.Validate] *)
Definition validate_cs (p : cs_params) : outcome :=
  match cs_fee p with
  | None => Abort
  | Some f =>
      if negb (in_open01 f) then Rej
      else if negb (denom_valid (c_denom (cs_pcf p))) then Rej   (* PoolCreationFee.Validate(): denom *)
      else match c_amt (cs_pcf p) with
           | None => Rej                                     (* ... "amount is nil" (coinswap fix; was a panic in IsPositive) *)
           | Some a =>
               if a <? 0 then Rej                            (* ... negative amount *)
               else if two255 <=? a then Rej                 (* more than 255 bits (overflow fix) *)
               else if negb (0 <? a) then Rej                (* IsPositive *)
               else match cs_tax p with
                    | None => Abort
                    | Some t =>
                        if negb (in_open01 t) then Rej
                        else match cs_uni p with
                             | None => Abort
                             | Some u => if negb ((0 <=? u) && (u <? P18)) then Rej else Ok
                             end
                    end
           end
  end.

Definition update_cs := update_with validate_cs (fun _ => true) (fun _ => true).

Inductive cs_op :=
| CsCreatePool (bal_std bal_fee bal_tok s t : Z)   (* MsgAddLiquidity on a pool that does not exist yet *)
| CsSell (x X Y bal : Z)                           (* sell exactly x for at least 1; X / Y = input / output reserve *)
| CsBuy (y X Y maxin : Z)                          (* buy exactly y paying at most maxin (= the buyer's balance) *)
| CsAddUni (x T L bal : Z)                         (* add x one-sidedly; T = that reserve (> 0), L = LPT supply *)
| CsRemoveUni (d T L held : Z)                     (* burn d LPT for at least 1 of the reserve T *)
| CsOther.

(** keeper.AddLiquidity (pool absent) -> DeductPoolCreationFee, then the deposit *)
Definition cs_create (p : cs_params) (bal_std bal_fee bal_tok s t : Z) : res :=
  match c_amt (cs_pcf p) with
  | None => Panic 101                                        (* NewDecFromInt on a nil amount *)
  | Some a =>
      match fee_split 100 (denom_valid (c_denom (cs_pcf p))) a (cs_tax p) bal_fee with
      | Done =>
          let std_left := if c_denom (cs_pcf p) =? 1 then bal_std - a else bal_std in
          if (std_left <? s) || (bal_tok <? t) then Reject else Done
      | r => r
      end
  end.

(** swap.go calculateWithExactInput + GetInputPrice + TradeExactInputForOutput (min output 1) *)
Definition cs_sell (p : cs_params) (x X Y bal : Z) : res :=
  if (X <=? 0) || (Y <=? 0) then Reject
  else match cs_fee p with
       | None => Panic 111                                   (* OneDec.Sub(nil) *)
       | Some f =>
           let delta := P18 - f in
           let xin := x * delta in
           let den := X * P18 + xin in
           if den =? 0 then Panic 112                        (* Int.Quo: division by zero *)
           else
             let bought := Z.quot (xin * Y) den in
             if bought <? 1 then Reject
             else if bal <? x then Reject
             else if Y <? bought then Reject
             else Done
       end.

(** swap.go calculateWithExactOutput + GetOutputPrice + TradeInputForExactOutput *)
Definition cs_buy (p : cs_params) (y X Y maxin : Z) : res :=
  if (X <=? 0) || (Y <=? 0) then Reject
  else if Y <=? y then Reject
  else match cs_fee p with
       | None => Panic 121
       | Some f =>
           let delta := P18 - f in
           let den := (Y - y) * delta in
           if den =? 0 then Panic 122                        (* division by zero: fee = 1 *)
           else
             let sold := Z.quot (X * y * P18) den + 1 in
             if maxin <? sold then Reject
             else if sold <? 0 then Panic 123                (* NewCoin: negative amount *)
             else Done
       end.

(** keeper.AddUnilateralLiquidity (min liquidity 1) *)
Definition cs_add_uni (p : cs_params) (x T L bal : Z) : res :=
  match cs_uni p with
  | None => Panic 131
  | Some u =>
      let delta := P18 - u in
      if P18 * T =? 0 then Panic 132                         (* division by the token reserve *)
      else
        let sq := Z.quot ((P18 * T + delta * x) * L * L) (P18 * T) in
        if sq <? 0 then Panic 133                            (* big.Int.Sqrt of a negative number *)
        else
          let mint := Z.sqrt sq - L in
          if mint <? 1 then Reject
          else if bal <? x then Reject
          else Done
  end.

(** keeper.RemoveUnilateralLiquidity (min token 1) *)
Definition cs_remove_uni (p : cs_params) (d T L held : Z) : res :=
  if L <? d then Reject
  else if L =? d then Reject
  else if T <? 1 then Reject
  else match cs_uni p with
       | None => Panic 141
       | Some u =>
           let delta := P18 - u in
           let den := L * L * P18 in
           if den =? 0 then Panic 142
           else
             let target := Z.quot ((L + L - d) * d * T * delta) den in
             if target <? 1 then Reject
             else if held <? d then Reject
             else if T <? target then Reject
             else Done
       end.

Definition cs_path (p : cs_params) (o : cs_op) : option res :=
  match o with
  | CsCreatePool a b c s t => Some (cs_create p a b c s t)
  | CsSell x X Y bal => Some (cs_sell p x X Y bal)
  | CsBuy y X Y m => Some (cs_buy p y X Y m)
  | CsAddUni x T L bal => Some (cs_add_uni p x T L bal)
  | CsRemoveUni d T L h => Some (cs_remove_uni p d T L h)
  | CsOther => None
  end.

(** ** farm  (modules/farm/types/params.go, keeper/{fees,msg_server}.go) *)
Record fm_params := mkFm { fm_pcf : coin; fm_maxcat : Z; fm_tax : option Z }.

(** [Params.Validate]: the creation fee ([Coin.IsValid]: nil amount is an ordinary error), then
    [validateTaxRate] (farm fix; the unfixed code never validated the tax rate) *)
Definition validate_fm (p : fm_params) : outcome :=
  if negb (denom_valid (c_denom (fm_pcf p))) then Rej
  else match c_amt (fm_pcf p) with
       | None => Rej
       | Some a =>
           if a <? 0 then Rej
           else if two255 <=? a then Rej                     (* more than 255 bits (overflow fix) *)
           else match fm_tax p with
                | None => Abort                              (* TaxRate.GT on a nil decimal *)
                | Some t => if negb (in_open01 t) then Rej else Ok
                end
       end.

Definition update_fm := update_with validate_fm (fun _ => true) (fun _ => true).

(** farm types.ValidateGenesis: [ValidateCoins("PoolCreationFee", fee)] = [sdk.NewCoins(fee).Validate()];
    [NewCoins] panics on an invalid denom, a nil or a negative amount; nothing else about the parameters *)
Definition vg_fm (p : fm_params) : outcome :=
  if negb (denom_valid (c_denom (fm_pcf p))) then Abort
  else match c_amt (fm_pcf p) with
       | None => Abort
       | Some a => if a <? 0 then Abort else Ok
       end.

Inductive fm_op :=
| FmCreatePool (ncat bal_fee : Z)
| FmCreateCP (ncat : Z)     (* MsgCreatePoolWithCommunityPool: reward categories of a proposal whose funds, LP token
                               and deposit are in order (the driver makes sure of that) *)
| FmOther.

(** msgServer.CreatePool -> keeper.CreatePool -> DeductPoolCreationFee *)
Definition fm_create (p : fm_params) (ncat bal_fee : Z) : res :=
  if fm_maxcat p <? ncat then Reject
  else match c_amt (fm_pcf p) with
       | None => Panic 201
       | Some a => fee_split 200 (denom_valid (c_denom (fm_pcf p))) a (fm_tax p) bal_fee
       end.

(** msgServer.CreatePoolWithCommunityPool: the category limit; no creation fee on this path *)
Definition fm_create_cp (p : fm_params) (ncat : Z) : res :=
  if fm_maxcat p <? ncat then Reject else Done.

Definition fm_path (p : fm_params) (o : fm_op) : option res :=
  match o with
  | FmCreatePool n b => Some (fm_create p n b)
  | FmCreateCP n => Some (fm_create_cp p n)
  | FmOther => None
  end.

(** ** htlc  (modules/htlc/types/params.go, keeper/{htlc,asset}.go, abci.go) *)
Record asset := mkAsset {
  a_denom : Z; a_limit : option Z; a_tl : bool; a_period : Z; a_tbl : option Z; a_active : bool;
  a_deputy : Z;                          (* actor index; -1 = not a bech32 address *)
  a_fixed : option Z; a_min : option Z; a_max : option Z; a_minlock : Z; a_maxlock : Z }.
Definition ht_params := list asset.

Definition htlc_denom_ok (d : Z) : bool := (d =? 10) || (d =? 11).
Definition MinTimeLock : Z := 50.
Definition MaxTimeLock : Z := 34560.

(** [validateAssetParams]: one asset after the other, [seen] = denoms of the earlier ones *)
Fixpoint validate_assets (seen : list Z) (l : list asset) : outcome :=
  match l with
  | [] => Ok
  | a :: rest =>
      if negb (htlc_denom_ok (a_denom a)) then Rej
      else match a_limit a with
      | None => Abort                                        (* Limit.IsNegative on nil *)
      | Some lim =>
      if lim <? 0 then Rej
      else match a_tbl a with
      | None => Abort
      | Some tbl =>
      if tbl <? 0 then Rej
      else if lim <? tbl then Rej
      else if existsb (Z.eqb (a_denom a)) seen then Rej
      else if a_deputy a <? 0 then Rej
      else match a_fixed a with
      | None => Abort
      | Some f =>
      if f <? 0 then Rej
      else if a_minlock a <? MinTimeLock then Rej
      else if MaxTimeLock <? a_maxlock a then Rej
      else if a_maxlock a <? a_minlock a then Rej
      else match a_min a with
      | None => Abort
      | Some mn =>
      if negb (0 <? mn) then Rej
      else match a_max a with
      | None => Abort
      | Some mx =>
      if negb (0 <? mx) then Rej
      else if mx <? mn then Rej
      else if negb (int_ok (f + mn)) then Rej                (* FixedFee.SafeAdd(MinSwapAmount) fails (overflow fix) *)
      else validate_assets (a_denom a :: seen) rest
      end end end end end
  end.

Definition validate_ht (p : ht_params) : outcome := validate_assets [] p.
Definition update_ht := update_with validate_ht (fun _ => true) (fun _ => true).

(** asset supply as stored: incoming, outgoing, current, time-limited current; None = no record yet *)
Definition supply := option (Z * Z * Z * Z).

Inductive ht_op :=
| HtBegin                                                    (* begin-blocker(s) *)
| HtCreate (d amt sender to lock : Z) (s : supply) (bal : Z) (* MsgCreateHTLC with transfer = true *)
| HtClaimIn (d amt : Z) (s : supply)                         (* MsgClaimHTLC of an incoming transfer *)
| HtOther.

Definition find_asset (d : Z) (p : ht_params) : option asset := find (fun a => a_denom a =? d) p.

(** NewCoin(denom, limit) inside the supply checks: nil and negative amounts panic *)
Definition limit_coin (w : Z) (o : option Z) : Z + Z :=      (* inl amount | inr why *)
  match o with
  | None => inr w
  | Some x => if x <? 0 then inr (w + 1) else inl x
  end.

(** keeper.createHTLT *)
Definition ht_create (p : ht_params) (d amt sender to lock : Z) (s : supply) (bal : Z) : res :=
  match find_asset d p with
  | None => Reject
  | Some a =>
      if negb (a_active a) then Reject
      else match a_min a, a_max a with
      | None, _ => Panic 311                                 (* Int.LT(nil) *)
      | _, None => Panic 312
      | Some mn, Some mx =>
      if (amt <? mn) || (mx <? amt) then Reject
      else if sender =? a_deputy a then
        (* incoming *)
        if to =? a_deputy a then Reject
        else match s with
        | None => Reject                                     (* asset supply not found *)
        | Some (inc, out, cur, tlc) =>
            match limit_coin 313 (a_limit a) with
            | inr w => Panic w
            | inl lim =>
                if lim <? cur + inc + amt then Reject
                else if a_tl a then
                  match limit_coin 315 (a_tbl a) with
                  | inr w => Panic w
                  | inl tbl => if tbl <? tlc + inc + amt then Reject else Done
                  end
                else Done
            end
        end
      else
        (* outgoing *)
        if negb (to =? a_deputy a) then Reject
        else if (lock <? a_minlock a) || (a_maxlock a <? lock) then Reject
        else match a_fixed a with
        | None => Panic 317                                  (* FixedFee.Add on nil *)
        | Some f =>
            if negb (int_ok (f + mn)) then Panic 318         (* FixedFee.Add(MinSwapAmount): "integer overflow" *)
            else if amt <? f + mn then Reject
            else match s with
            | None => Reject
            | Some (inc, out, cur, tlc) =>
                if cur <? out + amt then Reject
                else if bal <? amt then Reject
                else Done
            end
        end
      end
  end.

(** keeper.claimHTLT, incoming: DecrementIncomingAssetSupply, IncrementCurrentAssetSupply, mint, send *)
Definition ht_claim_in (p : ht_params) (d amt : Z) (s : supply) : res :=
  match s with
  | None => Reject
  | Some (inc, out, cur, tlc) =>
      if inc - amt <? 0 then Reject
      else match find_asset d p with
      | None => Reject
      | Some a =>
          match limit_coin 313 (a_limit a) with
          | inr w => Panic w
          | inl lim =>
              if lim <? cur + amt then Reject
              else if a_tl a then
                match limit_coin 315 (a_tbl a) with
                | inr w => Panic w
                | inl tbl => if tbl <? tlc + amt then Reject else Done
                end
              else Done
          end
      end
  end.

(** abci.go BeginBlocker -> UpdateTimeBasedSupplyLimits: NewCoin(asset.Denom, 0) per asset *)
Definition ht_begin (p : ht_params) : res :=
  if existsb (fun a => negb (denom_valid (a_denom a))) p then Panic 301 else Done.

Definition ht_path (p : ht_params) (o : ht_op) : option res :=
  match o with
  | HtBegin => Some (ht_begin p)
  | HtCreate d amt sd to lock s bal => Some (ht_create p d amt sd to lock s bal)
  | HtClaimIn d amt s => Some (ht_claim_in p d amt s)
  | HtOther => None
  end.

(** ** service  (modules/service/types/params.go, keeper/{binding,invocation,fees}.go, abci.go) *)
Record sv_params := mkSv {
  sv_maxto : Z; sv_mult : Z; sv_mindep : list coin; sv_tax : option Z; sv_slash : option Z;
  sv_complaint : Z; sv_arbitr : Z; sv_txsize : Z; sv_base : Z; sv_restricted : bool }.

Definition validate_sv (p : sv_params) : outcome :=
  if sv_maxto p <=? 0 then Rej
  else if sv_mult p <=? 0 then Rej
  else match coins_validate (sv_mindep p) with
  | Abort => Abort
  | Rej => Rej
  | Ok =>
  match sv_slash p with
  | None => Abort
  | Some s =>
  if (s <? 0) || (P18 <? s) then Rej
  else match sv_tax p with
  | None => Abort
  | Some t =>
  if (t <? 0) || (P18 <=? t) then Rej
  else if sv_complaint p <=? 0 then Rej
  else if sv_arbitr p <=? 0 then Rej
  else if sv_txsize p =? 0 then Rej
  else if negb (denom_valid (sv_base p)) then Rej
  else Ok
  end end end.

Definition update_sv := update_with validate_sv (fun _ => true) (fun _ => true).

Inductive sv_op :=
| SvBind (price deposit qos bal pd : Z)  (* MsgBindService: price (in denom class pd) and deposit in stake *)
| SvCall (timeout : Z)                   (* MsgCallService, fee cap in stake *)
| SvRespond (fee esc : Z)                (* MsgRespondService: request fee, balance of the request escrow *)
| SvBlocks (reqs : list (Z * Z))         (* end-blockers: the requests that expire, in order: (provider, deposit of its
                                            binding before the blocks) *)
| SvUpdate (avail : bool) (price dep add qos bal : Z)
                                         (* MsgUpdateServiceBinding (no new pricing / options): the binding met
                                            (available, stored price and deposit in stake), deposit added, new QoS (0 = keep) *)
| SvEnable (avail : bool) (price dep add bal : Z)   (* MsgEnableServiceBinding *)
| SvRefund (avail : bool) (dep disabled now : Z)    (* MsgRefundServiceDeposit: disabled / block time in unix ns *)
| SvUpdateCtx (completed : bool) (cap timeout ctx_timeout ctx_freq total batch : Z)
                                         (* MsgUpdateRequestContext of a context the consumer created: new fee cap in
                                            stake (0 = none), new timeout (0 = keep), repeated total, and the context met *)
| SvOther.

Definition two64 : Z := 18446744073709551616.

(** keeper.GetMinDeposit for a price in the base denom, then [deposit.IsAllGTE(minDeposit)]:
    [inl why] = abort, [inr b] = whether a deposit of [dep] (base denom) suffices *)
Definition sv_deposit_enough (p : sv_params) (price dep : Z) : Z + bool :=
  let m0 := price * sv_mult p in
  if negb (int_ok m0) then inr false                         (* basePrice.SafeMul(minDepositMultiple) fails: an error (overflow fix) *)
  else if m0 <? 0 then inl 401                               (* NewCoin(base, price * multiple) negative *)
  else
    let pst := coins_amount_of 1 (sv_mindep p) in
    let other := existsb (fun c => negb (c_denom c =? 1)) (sv_mindep p) in
    let use_param := negb (m0 =? 0) && (m0 <? pst) in
    inr (if use_param then (pst <=? dep) && negb other else m0 <=? dep).

(** keeper.AddServiceBinding: validateDeposit, QoS, ParsePricing (restricted fee denom), GetMinDeposit
    (a price in another denom needs an exchange rate: none is registered), deposit >= minimum *)
Definition sv_bind (p : sv_params) (price deposit qos bal pd : Z) : res :=
  if negb (sv_base p =? 1) then Reject                       (* deposit only accepts the base denom *)
  else if (sv_maxto p) mod two64 <? qos then Reject          (* qos > uint64(maxReqTimeout) *)
  else if sv_restricted p && negb (pd =? sv_base p) then Reject   (* validatePricing: service fee only accepts the base denom *)
  else if negb (pd =? sv_base p) && negb (price =? 0) then Reject (* GetExchangeRate fails *)
  else match sv_deposit_enough p price deposit with
       | inl w => Panic w
       | inr false => Reject
       | inr true => if bal <? deposit then Reject else Done
       end.

(** keeper.UpdateServiceBinding with empty pricing and options *)
Definition sv_update (p : sv_params) (avail : bool) (price dep add qos bal : Z) : res :=
  if negb (qos =? 0) && ((sv_maxto p) mod two64 <? qos) then Reject
  else if negb (add =? 0) && negb (sv_base p =? 1) then Reject   (* validateDeposit *)
  else
    let updated := negb (qos =? 0) || negb (add =? 0) in
    let pay := if bal <? add then Reject else Done in
    if avail && updated then
      match sv_deposit_enough p price (dep + add) with
      | inl w => Panic w
      | inr false => Reject
      | inr true => pay
      end
    else pay.

(** keeper.EnableServiceBinding *)
Definition sv_enable (p : sv_params) (avail : bool) (price dep add bal : Z) : res :=
  if avail then Reject
  else if negb (add =? 0) && negb (sv_base p =? 1) then Reject
  else match sv_deposit_enough p price (dep + add) with
       | inl w => Panic w
       | inr false => Reject
       | inr true => if bal <? add then Reject else Done
       end.

(** keeper.RefundDeposit: refundable from disabledTime + arbitration limit + complaint retrospect *)
Definition sv_refund (p : sv_params) (avail : bool) (dep disabled now : Z) : res :=
  if avail then Reject
  else if dep =? 0 then Reject
  else if now <? disabled + sv_arbitr p + sv_complaint p then Reject
  else Done.

(** keeper.UpdateRequestContext (context not created by a module) *)
Definition sv_update_ctx (p : sv_params) (completed : bool) (cap timeout ctx_timeout ctx_freq total batch : Z) : res :=
  if completed then Reject
  else if negb (cap =? 0) && negb (sv_base p =? 1) then Reject   (* validateServiceFeeCap *)
  else if sv_maxto p <? timeout then Reject
  else
    let t := if timeout =? 0 then ctx_timeout else timeout in
    if ctx_freq <? t mod two64 then Reject                       (* repeatedFreq < uint64(timeout) *)
    else if (1 <=? total) && (total <? batch) then Reject
    else Done.

(** keeper.CreateRequestContext *)
Definition sv_call (p : sv_params) (timeout : Z) : res :=
  if negb (sv_base p =? 1) then Reject
  else if sv_maxto p <? timeout then Reject
  else Done.

(** keeper.AddResponse -> AddEarnedFee *)
Definition sv_respond (p : sv_params) (fee esc : Z) : res :=
  match sv_tax p with
  | None => Panic 411
  | Some t =>
      let m := dec_mul (dec_of_int fee) t in
      if negb (dec_ok m) then Panic 412
      else
        let tax := dec_truncate_int m in
        if tax <? 0 then Panic 413                           (* NewCoin: negative amount *)
        else if esc <? tax then Reject
        else if fee - tax <? 0 then Reject
        else Done
  end.

(** keeper.Slash for one expired request (errors are dropped by the end-blocker, panics are not) *)
Definition sv_slash_why (p : sv_params) (dep : Z) : Z :=
  match sv_slash p with
  | None => 421
  | Some s =>
      let m := dec_mul (dec_of_int dep) s in
      if negb (dec_ok m) then 422
      else if negb (denom_valid (sv_base p)) then 424
      else if dec_truncate_int m <? 0 then 423
      else 0
  end.

(** what one slash takes from a deposit [dep] ([Deposit.AmountOf(base)], 0 for an emptied deposit):
    [floor(dep * fraction)]; if that exceeded the deposit, [SafeSub] reports an error and nothing changes *)
Definition sv_slashed (p : sv_params) (dep : Z) : Z :=
  match sv_slash p with
  | None => 0
  | Some s => let x := dec_truncate_int (dec_mul (dec_of_int dep) s) in if dep <? x then 0 else x
  end.

(** the end blocker over the expired requests, in processing order: (provider, deposit of its binding
    BEFORE the blocks ran).  A binding slashed earlier in the same run is met with what is left -- with
    a fraction of exactly 1 the second expired request of a provider meets an EMPTY deposit (amount 0). *)
Fixpoint sv_blocks_from (p : sv_params) (cur : amap Z Z) (reqs : list (Z * Z)) : res :=
  match reqs with
  | [] => Done
  | (pv, d0) :: rest =>
      let d := match get pv cur with Some d => d | None => d0 end in
      if sv_slash_why p d =? 0 then sv_blocks_from p (set pv (d - sv_slashed p d) cur) rest
      else Panic (sv_slash_why p d)
  end.
Definition sv_blocks (p : sv_params) (reqs : list (Z * Z)) : res := sv_blocks_from p [] reqs.

Definition sv_path (p : sv_params) (o : sv_op) : option res :=
  match o with
  | SvBind pr dep q b pd => Some (sv_bind p pr dep q b pd)
  | SvUpdate av pr dep add q b => Some (sv_update p av pr dep add q b)
  | SvEnable av pr dep add b => Some (sv_enable p av pr dep add b)
  | SvRefund av dep dis now => Some (sv_refund p av dep dis now)
  | SvUpdateCtx c cap t ct cf tot bat => Some (sv_update_ctx p c cap t ct cf tot bat)
  | SvCall t => Some (sv_call p t)
  | SvRespond f e => Some (sv_respond p f e)
  | SvBlocks ds => Some (sv_blocks p ds)
  | SvOther => None
  end.

(** ** token  (modules/token/types/v1/params.go, keeper/fees.go) *)
Record tk_params := mkTk { tk_tax : option Z; tk_fee : coin; tk_ratio : option Z; tk_erc20 : bool;
                           tk_beacon : Z (* 0 empty, 1 a hex address, 2 anything else *) }.

Definition rate_closed01 (x : Z) : bool := negb ((P18 <? x) || (x <? 0)).

Definition validate_tk (p : tk_params) : outcome :=
  match tk_tax p with
  | None => Abort
  | Some t =>
  if negb (rate_closed01 t) then Rej
  else match tk_ratio p with
  | None => Abort
  | Some r =>
  if negb (rate_closed01 r) then Rej
  else if negb (denom_valid (c_denom (tk_fee p))) then Rej   (* IssueTokenBaseFee.Validate(): denom (token fix) *)
  else match c_amt (tk_fee p) with
  | None => Rej                                              (* ... "amount is nil" (was a panic in IsNegative) *)
  | Some a =>
  if a <? 0 then Rej
  else if two195 <=? a then Rej                              (* more than 195 bits (overflow fix) *)
  else if negb ((tk_beacon p =? 0) || (tk_beacon p =? 1)) then Rej
  else Ok
  end end end.

(** the symbols registered in the token module: 1 = the native token (scale 0), 5 = "feetok", a token of
    scale 6 that the driver issues before the parameters are touched *)
Definition tk_registered (d : Z) : bool := (d =? 1) || (d =? 5).

(** token InitGenesis (a panic) and, since "fix: token MsgUpdateParams rejects an issue fee denominated in
    an unregistered symbol", the message handler (an ordinary rejection) additionally require the fee
    denom to be a registered SYMBOL ([HasSymbol]: a registered min unit such as 6 = "ufeetok" does not count) *)
Definition tk_fee_registered (p : tk_params) : bool := tk_registered (c_denom (tk_fee p)).
Definition update_tk := update_with validate_tk tk_fee_registered tk_fee_registered.

Inductive tk_op :=
| TkIssue (factor scale bal : Z)   (* MsgIssueToken: fee factor of the symbol (decimal), scale of the fee token,
                                     owner's balance in the fee token's min unit *)
| TkMint (factor scale bal : Z)    (* MsgMintToken *)
| TkDeploy (has_contract : bool)             (* MsgDeployERC20 by the authority for an existing token *)
| TkSwapTo (has_contract : bool) (amt bal : Z)    (* MsgSwapToERC20: amount / sender balance in the token's min unit *)
| TkSwapFrom (has_contract : bool) (amt ebal : Z) (* MsgSwapFromERC20: amount / sender balance on the ERC20 side *)
| TkOther.

(** keeper.calcTokenIssueFee, GetToken(fee denom): the issue fee in the fee token's min unit
    *)
Definition tk_issue_fee (p : tk_params) (F : Z) : res + Z :=
  match c_amt (tk_fee p) with
  | None => inl (Panic 501)
  | Some a =>
      if F =? 0 then inl (Panic 502)                         (* Quo: division by zero *)
      else
        let q := dec_quo (dec_of_int a) F in
        if negb (dec_ok q) then inl (Panic 503)              (* "Int overflow" in LegacyDec.Quo *)
        else
          let fee := if P18 <? q then dec_truncate_int q else 1 in
          if negb (denom_valid (c_denom (tk_fee p))) then inl (Panic 504)   (* NewCoin: invalid denom *)
          else if negb (tk_registered (c_denom (tk_fee p))) then inl Reject (* token does not exist *)
          else inr fee
  end.

(** Token.ToMinCoin of the fee token (scale [s] <= 18): [amount.Mul(10^s)] as LegacyDec, truncated *)
Definition to_min_ok (x s : Z) : bool := dec_ok (x * 10 ^ s * P18).
Definition to_min (x s : Z) : Z := x * 10 ^ s.

(** msgServer.IssueToken -> DeductIssueTokenFee *)
Definition tk_issue (p : tk_params) (F s bal : Z) : res :=
  match tk_issue_fee p F with
  | inl r => r
  | inr fee =>
      if negb (to_min_ok fee s) then Panic 505
      else fee_split 510 true (to_min fee s) (tk_tax p) bal
  end.

(** msgServer.MintToken -> DeductMintTokenFee *)
Definition tk_mint (p : tk_params) (F s bal : Z) : res :=
  match tk_issue_fee p F with
  | inl r => r
  | inr fee =>
      match tk_ratio p with
      | None => Panic 521
      | Some r =>
          let m := dec_mul (dec_of_int fee) r in
          if negb (dec_ok m) then Panic 522
          else
            let mf := dec_truncate_int m in
            if mf <? 0 then Panic 523                        (* NewDecCoinFromDec: negative amount *)
            else if negb (to_min_ok mf s) then Panic 524
            else fee_split 530 true (to_min mf s) (tk_tax p) bal
      end
  end.

(** keeper.DeployERC20: contract already bound, the ERC20 switch, the beacon (the EVM behind the
    interface is the harness's mock: a deployment with a beacon succeeds) *)
Definition tk_deploy (p : tk_params) (has_contract : bool) : res :=
  if has_contract then Reject
  else if negb (tk_erc20 p) then Reject
  else if tk_beacon p =? 0 then Reject
  else Done.

(** keeper.SwapToERC20 / SwapFromERC20 (receiver is not an existing account) *)
Definition tk_swap_to (p : tk_params) (has_contract : bool) (amt bal : Z) : res :=
  if negb (tk_erc20 p) then Reject
  else if negb has_contract then Reject
  else if bal <? amt then Reject
  else Done.
Definition tk_swap_from (p : tk_params) (has_contract : bool) (amt ebal : Z) : res :=
  if negb (tk_erc20 p) then Reject
  else if negb has_contract then Reject
  else if ebal <? amt then Reject
  else Done.

Definition tk_path (p : tk_params) (o : tk_op) : option res :=
  match o with
  | TkDeploy c => Some (tk_deploy p c)
  | TkSwapTo c a b => Some (tk_swap_to p c a b)
  | TkSwapFrom c a b => Some (tk_swap_from p c a b)
  | TkIssue f sc b => Some (tk_issue p f sc b)
  | TkMint f sc b => Some (tk_mint p f sc b)
  | TkOther => None
  end.

(** ** The five parameter records as one chain state, and histories over it.
    A step is either an attempt to update one module's parameters ([via] as above) or one operation
    of a module, which reads that module's STORED parameters.  The operations carry the part of the
    chain state they meet (reserves, balances, supplies ...) as arguments: the parameter-consuming
    paths above are functions of the stored parameters and of those values only. *)
Record pstate := mkPS {
  ps_cs : cs_params; ps_fm : fm_params; ps_ht : ht_params; ps_sv : sv_params; ps_tk : tk_params }.

Inductive pstep :=
| UpdCS (via : Z) (p : cs_params) | UpdFM (via : Z) (p : fm_params) | UpdHT (via : Z) (p : ht_params)
| UpdSV (via : Z) (p : sv_params) | UpdTK (via : Z) (p : tk_params)
| OpCS (o : cs_op) | OpFM (o : fm_op) | OpHT (o : ht_op) | OpSV (o : sv_op) | OpTK (o : tk_op).

(** state after the step *)
Definition pstep_state (s : pstate) (st : pstep) : pstate :=
  match st with
  | UpdCS via p => mkPS (snd (update_cs via p (ps_cs s))) (ps_fm s) (ps_ht s) (ps_sv s) (ps_tk s)
  | UpdFM via p => mkPS (ps_cs s) (snd (update_fm via p (ps_fm s))) (ps_ht s) (ps_sv s) (ps_tk s)
  | UpdHT via p => mkPS (ps_cs s) (ps_fm s) (snd (update_ht via p (ps_ht s))) (ps_sv s) (ps_tk s)
  | UpdSV via p => mkPS (ps_cs s) (ps_fm s) (ps_ht s) (snd (update_sv via p (ps_sv s))) (ps_tk s)
  | UpdTK via p => mkPS (ps_cs s) (ps_fm s) (ps_ht s) (ps_sv s) (snd (update_tk via p (ps_tk s)))
  | _ => s
  end.

(** outcome of an update step ([None] for operations) *)
Definition upd_outcome (s : pstate) (st : pstep) : option outcome :=
  match st with
  | UpdCS via p => Some (fst (update_cs via p (ps_cs s)))
  | UpdFM via p => Some (fst (update_fm via p (ps_fm s)))
  | UpdHT via p => Some (fst (update_ht via p (ps_ht s)))
  | UpdSV via p => Some (fst (update_sv via p (ps_sv s)))
  | UpdTK via p => Some (fst (update_tk via p (ps_tk s)))
  | _ => None
  end.

(** result of an operation step under the stored parameters ([None]: an update, or an operation
    whose path does not read parameters / is not modelled) *)
Definition op_result (s : pstate) (st : pstep) : option res :=
  match st with
  | OpCS o => cs_path (ps_cs s) o
  | OpFM o => fm_path (ps_fm s) o
  | OpHT o => ht_path (ps_ht s) o
  | OpSV o => sv_path (ps_sv s) o
  | OpTK o => tk_path (ps_tk s) o
  | _ => None
  end.

Definition run (s : pstate) (h : list pstep) : pstate := fold_left pstep_state h s.

(** an update step that is neither a message signed by the authority (via = 0) nor genesis (via = 2) *)
Definition unprivileged (st : pstep) : bool :=
  match st with
  | UpdCS via _ | UpdFM via _ | UpdHT via _ | UpdSV via _ | UpdTK via _ => via =? 1
  | _ => true
  end.

(** every stored set is one the module's validation accepts *)
Definition ps_valid (s : pstate) : Prop :=
  validate_cs (ps_cs s) = Ok /\ validate_fm (ps_fm s) = Ok /\ validate_ht (ps_ht s) = Ok
  /\ validate_sv (ps_sv s) = Ok /\ validate_tk (ps_tk s) = Ok.

(** *** Side conditions of the no-abort theorems.

    (1) What [ValidateBasic] and the bank guarantee about operation inputs: amounts are positive,
    reserves of an existing pool are positive, and amounts taken from the chain (request fees,
    deposits) are below 2^255 -- above that the SAME operation overflows under the default
    parameters as well. *)
Definition cs_op_wf (o : cs_op) : Prop :=
  match o with
  | CsSell x _ _ _ => 0 <= x
  | CsBuy y _ _ _ => 0 <= y
  | CsAddUni x T L _ => 0 <= x /\ 0 < T /\ 0 <= L
  | CsRemoveUni d _ _ _ => 0 < d
  | _ => True
  end.

Definition sv_op_wf (o : sv_op) : Prop :=
  match o with
  | SvBind price _ _ _ _ | SvUpdate _ price _ _ _ _ | SvEnable _ price _ _ _ => 0 <= price
  | SvRespond fee _ => 0 <= fee < two255
  | SvBlocks reqs => Forall (fun r => 0 <= snd r < two255) reqs
  | _ => True
  end.

(** the fee factor of a symbol of 3..64 characters lies in [1.00, 205.14] *)
Definition tk_op_wf (o : tk_op) : Prop :=
  match o with
  | TkIssue F sc _ | TkMint F sc _ => P18 <= F /\ 0 <= sc <= 18
  | _ => True
  end.

Definition step_wf (st : pstep) : Prop :=
  match st with
  | OpCS o => cs_op_wf o | OpSV o => sv_op_wf o | OpTK o => tk_op_wf o
  | _ => True
  end.
