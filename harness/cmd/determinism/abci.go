package main

// The ABCI stream: the same history executed through the real ABCI surface of the full SimApp
// (InitChain with one fixed genesis document, FinalizeBlock with SIGNED transactions through the
// ante handlers, Commit) by
//
//	replica A: one process-lifetime app object over an in-memory database;
//	replica B: an app over an on-disk goleveldb that is CLOSED AND RE-OPENED FROM DISK at block
//	           boundaries (a crash/restart at every boundary; every 8th inside a long idle run).
//
// Observed per block: the app hash returned by FinalizeBlock (covers every store of every module,
// SDK modules included), code / codespace / data digest / gas used of every transaction, and after
// Commit the digest of each irismod store and the balances; finally the exported genesis of the
// ten modules.  Both replicas run in one process on the same genesis bytes, so the comparison
// includes nothing that legitimately differs.

import (
	"crypto/sha256"
	"encoding/hex"
	"encoding/json"
	"fmt"
	"math/rand"
	"os"
	"path/filepath"
	"sync/atomic"
	"time"

	"cosmossdk.io/log"
	abci "github.com/cometbft/cometbft/abci/types"
	cmted25519 "github.com/cometbft/cometbft/crypto/ed25519"
	tmproto "github.com/cometbft/cometbft/proto/tendermint/types"
	cmttypes "github.com/cometbft/cometbft/types"
	dbm "github.com/cosmos/cosmos-db"
	"github.com/cosmos/cosmos-sdk/baseapp"
	"github.com/cosmos/cosmos-sdk/client/flags"
	"github.com/cosmos/cosmos-sdk/codec"
	cryptotypes "github.com/cosmos/cosmos-sdk/crypto/types"
	"github.com/cosmos/cosmos-sdk/crypto/keys/secp256k1"
	"github.com/cosmos/cosmos-sdk/server"
	simtestutil "github.com/cosmos/cosmos-sdk/testutil/sims"
	sdk "github.com/cosmos/cosmos-sdk/types"
	authtypes "github.com/cosmos/cosmos-sdk/x/auth/types"
	banktypes "github.com/cosmos/cosmos-sdk/x/bank/types"
	"github.com/cosmos/gogoproto/proto"

	"mods.irisnet.org/e2e"
	htlctypes "mods.irisnet.org/modules/htlc/types"
	servicetypes "mods.irisnet.org/modules/service/types"
	tokenkeeper "mods.irisnet.org/modules/token/keeper"
	tokenv1 "mods.irisnet.org/modules/token/types/v1"
	"mods.irisnet.org/simapp"

	"verifharness/lib"
)

const abciChainID = "verif-c11"

var abciDirSeq int64

type abciNode struct {
	node          // e (App, Ctx for reads, Actors, Height, Time) + the keepers handed out by depinject
	db   dbm.DB
	dir  string // "" = in-memory
	home string
	keys map[string]cryptotypes.PrivKey
}

func abciKeys() ([]sdk.AccAddress, map[string]cryptotypes.PrivKey) {
	var addrs []sdk.AccAddress
	keys := map[string]cryptotypes.PrivKey{}
	for i := 0; i < nActors; i++ {
		k := secp256k1.GenPrivKeyFromSecret([]byte(fmt.Sprintf("verif-abci-actor-%d", i)))
		a := sdk.AccAddress(k.PubKey().Address())
		addrs = append(addrs, a)
		keys[a.String()] = k
	}
	return addrs, keys
}

// open builds an app object over n.db (loading the latest committed version, if any).
func (n *abciNode) open() {
	opts := simtestutil.AppOptionsMap{flags.FlagHome: n.home, server.FlagInvCheckPeriod: uint(0)}
	app := simapp.NewSimApp(log.NewNopLogger(), n.db, nil, true,
		simapp.DepinjectOptions{Config: e2e.AppConfig,
			Providers: []interface{}{tokenkeeper.ProvideMockEVM(), tokenkeeper.ProvideMockICS20()},
			Consumers: []interface{}{&n.mk, &n.sk, &n.ok, &n.tk}},
		opts, baseapp.SetChainID(abciChainID))
	if n.e == nil {
		n.e = &lib.Env{Blockers: lib.IrisModules}
	}
	n.e.App = app
	n.configureSwapRegistry()
}

func newABCINode(onDisk bool, start time.Time) *abciNode {
	n := &abciNode{}
	base := filepath.Join(verifRoot(), "build", "c11", "tmp", fmt.Sprintf("%d-%d", os.Getpid(), atomic.AddInt64(&abciDirSeq, 1)))
	n.home = filepath.Join(base, "home")
	_ = os.MkdirAll(n.home, 0o755)
	if onDisk {
		n.dir = filepath.Join(base, "data")
		db, err := dbm.NewGoLevelDB("application", n.dir, nil)
		if err != nil {
			panic(err)
		}
		n.db = db
	} else {
		n.dir = ""
		n.db = dbm.NewMemDB()
	}
	n.open()
	addrs, keys := abciKeys()
	n.e.Actors, n.keys = addrs, keys
	n.e.Height, n.e.Time = 0, start
	return n
}

func (n *abciNode) cleanup() {
	_ = n.e.App.Close()
	_ = os.RemoveAll(filepath.Dir(n.home))
}

// restart: close the database and the app object, re-open both from disk.
func (n *abciNode) restart() {
	if n.dir == "" {
		return
	}
	if err := n.e.App.Close(); err != nil {
		panic(err)
	}
	db, err := dbm.NewGoLevelDB("application", n.dir, nil)
	if err != nil {
		panic(err)
	}
	n.db = db
	n.open()
	if got := n.e.App.LastBlockHeight(); got != n.e.Height {
		panic(fmt.Sprintf("restart from disk: last committed height %d, expected %d", got, n.e.Height))
	}
	n.readCtx()
}

// readCtx: a context over the committed state, stamped with the header of the NEXT block (messages
// are built for the block they will execute in).
func (n *abciNode) readCtx() {
	n.e.Ctx = n.e.App.NewUncachedContext(false, tmproto.Header{Height: n.e.Height, Time: n.e.Time, ChainID: abciChainID})
}

// abciGenesis: ONE genesis document (bytes) for both replicas: default genesis of every module,
// a fixed validator, the funded actors, unrestricted service fee denoms.
func abciGenesis(app *simapp.SimApp, actors []sdk.AccAddress) []byte {
	gs := app.DefaultGenesis()
	valPub := cmted25519.GenPrivKeyFromSecret([]byte("verif-c11-validator")).PubKey()
	valSet := cmttypes.NewValidatorSet([]*cmttypes.Validator{cmttypes.NewValidator(valPub, 1)})
	bal := actorBalances()
	var accs []authtypes.GenesisAccount
	var bals []banktypes.Balance
	for _, a := range actors {
		accs = append(accs, authtypes.NewBaseAccountWithAddress(a))
		bals = append(bals, banktypes.Balance{Address: a.String(), Coins: bal})
	}
	gs2, err := simtestutil.GenesisStateWithValSet(app.AppCodec(), gs, valSet, accs, bals...)
	if err != nil {
		panic(err)
	}
	gs2 = tweakGenesis(app.AppCodec(), gs2, actors[0])
	bz, err := json.MarshalIndent(gs2, "", " ")
	if err != nil {
		panic(err)
	}
	return bz
}

type abciRun struct {
	*runState
	an      *abciNode
	pending []Step
	memo    *rand.Rand
}

// runABCI executes the history on one replica.  genesis == nil: build it from this replica's app.
func runABCI(h History, onDisk bool, start time.Time, genesis []byte) (*replicaOut, []byte) {
	out := &replicaOut{Stats: map[string]int{}, Touched: map[string]bool{}}
	an := newABCINode(onDisk, start)
	defer an.cleanup()
	if genesis == nil {
		genesis = abciGenesis(an.e.App, an.e.Actors)
	}
	if _, err := an.e.App.InitChain(&abci.RequestInitChain{ChainId: abciChainID, Time: start, InitialHeight: 1,
		Validators: []abci.ValidatorUpdate{}, ConsensusParams: simtestutil.DefaultConsensusParams, AppStateBytes: genesis}); err != nil {
		panic("InitChain: " + err.Error())
	}
	r := &abciRun{runState: &runState{n: &an.node, out: out, h: h, tokenOwner: map[string]string{}}, an: an, memo: rand.New(rand.NewSource(11))}
	// block 1 is empty: it commits the genesis state (messages are built by reading committed state)
	r.block(nil, false)
	for _, st := range h.Steps {
		switch st.Op {
		case "block":
			r.block(r.pending, onDisk)
			r.pending = nil
		case "blocks":
			r.block(r.pending, onDisk)
			r.pending = nil
			for k := uint64(1); k < st.N; k++ {
				r.block(nil, onDisk && k%8 == 0)
			}
			out.Steps = append(out.Steps, fmt.Sprintf("%d blocks -> height %d", st.N, an.e.Height))
		default:
			r.pending = append(r.pending, st)
		}
	}
	r.block(r.pending, onDisk)
	var ex, exl []string
	for _, m := range lib.IrisModules {
		ex = append(ex, "export:"+an.exportModule(m))
		exl = append(exl, "exported genesis of "+m)
	}
	out.Blocks = append(out.Blocks, ex)
	out.Labels = append(out.Labels, exl)
	io, il := importObservations(an, out, genesis, ex)
	out.Blocks = append(out.Blocks, io)
	out.Labels = append(out.Labels, il)
	return out, genesis
}

// importObservations: the whole application state is exported the way `simd export` does it
// (ExportAppStateAndValidators) and imported into a FRESH in-memory app (InitChain, one empty block,
// Commit).  Observed: the exported bytes, the import outcome, the app hash and the irismod store
// digests of the imported node.  Replica A imports A's export, replica B imports B's: InitGenesis /
// ValidateGenesis of every module (the sanctioned map ranges of the service and random genesis code
// among them) must produce the same stores from the same bytes.
func importObservations(an *abciNode, out *replicaOut, genesis []byte, exported []string) (obs, lab []string) {
	add := func(l, v string) { obs, lab = append(obs, v), append(lab, l) }
	exp, err := an.e.App.ExportAppStateAndValidators(false, nil, nil)
	if err != nil {
		add("export of the application state", "appexport:error:"+err.Error())
		lib.Stat(out.Stats, "import:export-error")
		return
	}
	d := sha256.Sum256(exp.AppState)
	add("exported application state", "appexport:"+hex.EncodeToString(d[:12]))
	n2 := newABCINode(false, an.e.Time)
	defer n2.cleanup()
	outcome := func() (res string) {
		defer func() {
			if r := recover(); r != nil {
				res = "panic"
				if debugErrors {
					res += ": " + fmt.Sprint(r)
				}
			}
		}()
		cp := exp.ConsensusParams
		if _, err := n2.e.App.InitChain(&abci.RequestInitChain{ChainId: abciChainID, Time: an.e.Time, InitialHeight: exp.Height,
			Validators: []abci.ValidatorUpdate{}, ConsensusParams: &cp, AppStateBytes: exp.AppState}); err != nil {
			if debugErrors {
				return "error: " + err.Error()
			}
			return "error"
		}
		resp, err := n2.e.App.FinalizeBlock(&abci.RequestFinalizeBlock{Height: exp.Height, Time: an.e.Time.Add(5 * time.Second)})
		if err != nil {
			return "finalize-error"
		}
		if _, err := n2.e.App.Commit(); err != nil {
			return "commit-error"
		}
		return "ok:" + hex.EncodeToString(resp.AppHash)
	}()
	add("import of the exported state into a fresh node", "import:"+outcome)
	if len(outcome) >= 2 && outcome[:2] == "ok" {
		lib.Stat(out.Stats, "import:ok")
		n2.e.Height, n2.e.Time = exp.Height, an.e.Time.Add(5*time.Second)
		n2.readCtx()
		for _, m := range lib.IrisModules {
			add("imported store "+m, "istore:"+m+":"+storeDigest(n2.e.Ctx, n2.e.App.GetKey(m)))
		}
	} else {
		lib.Stat(out.Stats, "import:failed")
		out.Steps = append(out.Steps, "import of the exported state failed: "+outcome)
	}
	// Module by module (a whole-state import stops at the first module that rejects its own export —
	// those are export/import findings of property C12, not of this one): on a fresh node initialised
	// with the ORIGINAL genesis, InitGenesis(exported genesis of m) on a branch of the state.
	n3 := newABCINode(false, an.e.Time)
	defer n3.cleanup()
	if _, err := n3.e.App.InitChain(&abci.RequestInitChain{ChainId: abciChainID, Time: an.e.Time, InitialHeight: 1,
		Validators: []abci.ValidatorUpdate{}, ConsensusParams: simtestutil.DefaultConsensusParams, AppStateBytes: genesis}); err != nil {
		panic("InitChain: " + err.Error())
	}
	if _, err := n3.e.App.FinalizeBlock(&abci.RequestFinalizeBlock{Height: 1, Time: an.e.Time}); err != nil {
		panic(err)
	}
	if _, err := n3.e.App.Commit(); err != nil {
		panic(err)
	}
	n3.e.Height = 1
	n3.readCtx()
	for i, m := range lib.IrisModules {
		js := exported[i][len("export:"):]
		cctx, _ := n3.e.Ctx.CacheContext()
		res := func() (res string) {
			defer func() {
				if r := recover(); r != nil {
					res = "panic"
					if debugErrors {
						res += ": " + fmt.Sprint(r)
					}
				}
			}()
			mod, ok := n3.e.App.ModuleManager.Modules[m].(genesisImporter)
			if !ok {
				fmt.Fprintln(os.Stderr, "determinism: module "+m+" has no InitGenesis(ctx, cdc, json) []ValidatorUpdate; adapt the harness")
				os.Exit(3)
			}
			mod.InitGenesis(cctx, n3.e.App.AppCodec(), json.RawMessage(js))
			return "ok"
		}()
		lib.Stat(out.Stats, "import-module:"+res[:2])
		v := "imod:" + m + ":" + res
		if res == "ok" { // after a panic the partial writes are not an observable
			v += ":" + storeDigest(cctx, n3.e.App.GetKey(m))
		}
		add("import of the exported genesis of "+m, v)
	}
	return
}

type genesisImporter interface {
	InitGenesis(sdk.Context, codec.JSONCodec, json.RawMessage) []abci.ValidatorUpdate
}

// block: build and sign the pending steps against the committed state, FinalizeBlock, Commit,
// observe, optionally restart from disk.
func (r *abciRun) block(steps []Step, restartAfter bool) {
	an := r.an
	e := an.e
	dt := time.Duration(r.h.Dt) * time.Second
	if e.Height == 0 {
		dt = 0
	}
	e.Height++
	e.Time = e.Time.Add(dt)
	an.readCtx()
	r.out.Steps = append(r.out.Steps, fmt.Sprintf("-- block %d (t=%d)", e.Height, e.Time.Unix()))
	app := e.App
	seqs := map[string]uint64{}
	var txs [][]byte
	var ops []Step
	var mods []string
	var msgs []sdk.Msg
	for _, st := range steps {
		msg, mod := r.build(st)
		if msg == nil {
			r.obs(st.Op, "skip")
			lib.Stat(r.out.Stats, "res:skip")
			continue
		}
		signers, _, err := app.AppCodec().GetMsgV1Signers(msg)
		if err != nil || len(signers) != 1 {
			r.obs(st.Op, "skip")
			lib.Stat(r.out.Stats, "res:skip")
			continue
		}
		addr := sdk.AccAddress(signers[0])
		priv, ok := an.keys[addr.String()]
		if !ok {
			r.obs(st.Op, "skip")
			lib.Stat(r.out.Stats, "res:skip")
			continue
		}
		acc := app.AccountKeeper.GetAccount(e.Ctx, addr)
		if acc == nil {
			panic("actor account missing")
		}
		if _, ok := seqs[addr.String()]; !ok {
			seqs[addr.String()] = acc.GetSequence()
		}
		tx, err := simtestutil.GenSignedMockTx(r.memo, app.TxConfig(), []sdk.Msg{msg}, sdk.Coins{sdk.NewInt64Coin("stake", 0)},
			simtestutil.DefaultGenTxGas, abciChainID, []uint64{acc.GetAccountNumber()}, []uint64{seqs[addr.String()]}, priv)
		if err != nil {
			panic(err)
		}
		seqs[addr.String()]++
		bz, err := app.TxConfig().TxEncoder()(tx)
		if err != nil {
			panic(err)
		}
		txs = append(txs, bz)
		ops = append(ops, st)
		mods = append(mods, mod)
		msgs = append(msgs, msg)
	}
	resp, err := app.FinalizeBlock(&abci.RequestFinalizeBlock{Height: e.Height, Time: e.Time, Txs: txs})
	if err != nil {
		// a failing begin/end blocker halts the chain: observed as such (both replicas must agree)
		r.obs("finalize-block outcome", "fb:error")
		r.out.Blocks = append(r.out.Blocks, r.cur)
		r.out.Labels = append(r.out.Labels, r.lab)
		r.cur, r.lab = nil, nil
		r.out.Steps = append(r.out.Steps, "FinalizeBlock failed: "+err.Error())
		lib.Stat(r.out.Stats, "fb:error")
		e.Height--
		return
	}
	for i, tr := range resp.TxResults {
		st := ops[i]
		d := sha256.Sum256(tr.Data)
		r.obs(st.Op, fmt.Sprintf("tx:%s:%d:%s:%s:%d", st.Op, tr.Code, tr.Codespace, hex.EncodeToString(d[:8]), tr.GasUsed))
		lib.Stat(r.out.Stats, "op:"+st.Op)
		kind := "ok"
		if tr.Code != 0 {
			kind = "rej"
		}
		lib.Stat(r.out.Stats, "res:"+kind)
		line := fmt.Sprintf("%s a=%d b=%d c=%d n=%d -> %s code=%d/%s gas=%d", st.Op, st.A, st.B, st.C, st.N, kind, tr.Code, tr.Codespace, tr.GasUsed)
		if debugErrors && tr.Code != 0 {
			line += "  [" + tr.Log + "]"
		}
		r.out.Steps = append(r.out.Steps, line)
		if tr.Code != 0 {
			continue
		}
		r.out.Touched[mods[i]] = true
		switch m := msgs[i].(type) {
		case *tokenv1.MsgIssueToken:
			r.tokenOwner[m.Symbol] = m.Owner
		case *tokenv1.MsgTransferTokenOwner:
			r.tokenOwner[m.Symbol] = m.DstOwner
		case *servicetypes.MsgCallService:
			var td sdk.TxMsgData
			if proto.Unmarshal(tr.Data, &td) == nil && len(td.MsgResponses) == 1 {
				var cr servicetypes.MsgCallServiceResponse
				if proto.Unmarshal(td.MsgResponses[0].Value, &cr) == nil {
					r.ctxs = append(r.ctxs, ctxRef{id: cr.RequestContextId, consumer: m.Consumer})
				}
			}
		case *htlctypes.MsgCreateHTLC:
			var td sdk.TxMsgData
			if proto.Unmarshal(tr.Data, &td) == nil && len(td.MsgResponses) == 1 {
				var cr htlctypes.MsgCreateHTLCResponse
				if proto.Unmarshal(td.MsgResponses[0].Value, &cr) == nil {
					r.htlcs = append(r.htlcs, htlcRef{id: cr.Id, secret: secretOf(st), to: st.B})
				}
			}
		}
	}
	for _, ev := range resp.Events {
		switch ev.Type {
		case "new_batch", "new_batch_request", "complete_batch", "refund_htlc", "generate_random", "pause_context", "complete_context", "service_slash", "set_feed":
			r.out.EndBlockTransitions++
			lib.Stat(r.out.Stats, "blk-event:"+ev.Type)
		}
	}
	r.obs("app hash", "apphash:"+hex.EncodeToString(resp.AppHash))
	if _, err := app.Commit(); err != nil {
		panic(err)
	}
	if restartAfter {
		an.restart()
		lib.Stat(r.out.Stats, "restart-from-disk")
	} else {
		an.readCtx()
	}
	e = an.e
	for _, m := range lib.IrisModules {
		r.obs("store "+m, "store:"+m+":"+storeDigest(e.Ctx, e.App.GetKey(m)))
	}
	r.obs("balances of actors and module accounts", "bal:"+r.n.balancesDigest())
	r.out.Blocks = append(r.out.Blocks, r.cur)
	r.out.Labels = append(r.out.Labels, r.lab)
	r.cur, r.lab = nil, nil
}
