package main

import (
	"crypto/sha256"
	"encoding/binary"
	"encoding/hex"
	"encoding/json"
	"fmt"
	"os"
	"sort"
	"strings"
	"time"

	sdkmath "cosmossdk.io/math"
	storetypes "cosmossdk.io/store/types"
	"github.com/cosmos/cosmos-sdk/codec"
	sdk "github.com/cosmos/cosmos-sdk/types"
	banktypes "github.com/cosmos/cosmos-sdk/x/bank/types"
	"github.com/cosmos/gogoproto/proto"

	coinswaptypes "mods.irisnet.org/modules/coinswap/types"
	farmtypes "mods.irisnet.org/modules/farm/types"
	htlctypes "mods.irisnet.org/modules/htlc/types"
	mtkeeper "mods.irisnet.org/modules/mt/keeper"
	mttypes "mods.irisnet.org/modules/mt/types"
	nfttypes "mods.irisnet.org/modules/nft/types"
	oraclekeeper "mods.irisnet.org/modules/oracle/keeper"
	oracletypes "mods.irisnet.org/modules/oracle/types"
	randomtypes "mods.irisnet.org/modules/random/types"
	recordtypes "mods.irisnet.org/modules/record/types"
	servicekeeper "mods.irisnet.org/modules/service/keeper"
	servicetypes "mods.irisnet.org/modules/service/types"
	tokenkeeper "mods.irisnet.org/modules/token/keeper"
	tokenv1 "mods.irisnet.org/modules/token/types/v1"
	"mods.irisnet.org/simapp"

	"verifharness/lib"
)

const (
	nActors   = 6
	priceFeed = "testdenom1-stake" // the pair the service module asks the oracle for
	rawDenom  = "testdenom1"
)

var debugErrors bool

// ---------------------------------------------------------------------------------------------
// generator

// The first part of every history is a fixed skeleton that brings the oracle price feed to life
// (service definition + binding, feed creation and start, the request batch opened by the
// end-blocker, the provider's response aggregated into a feed value) and then uses it (a binding
// priced in a foreign denom, a service call whose batch is priced by the end-blocker).  Random
// operations over the other modules are interleaved everywhere.
func genHistory(r *lib.Rand, tier, mode string) History {
	h := History{Mode: mode, Dt: 5, BigDtAt: -1}
	extra := func(n int) {
		for k := 0; k < n; k++ {
			h.Steps = append(h.Steps, randomOp(r))
		}
	}
	add := func(s ...Step) { h.Steps = append(h.Steps, s...) }
	blk := Step{Op: "block"}
	nx := 2
	if tier == "thorough" {
		nx = 4
	}
	// prelude: the objects later operations refer to (tokens, classes, pools), in a random order
	pre := []Step{
		// scale = N % 7: kitty 6, doggo 2, lion 4 (the fee-token swap pairs connect different scales)
		{Op: "token.issue", A: r.Intn(nActors), B: 0, N: uint64(6 + 7*r.Intn(100))},
		{Op: "token.issue", A: r.Intn(nActors), B: 1, N: uint64(2 + 7*r.Intn(100))},
		{Op: "token.issue", A: r.Intn(nActors), B: 2, N: uint64(4 + 7*r.Intn(100))},
		{Op: "nft.issue", A: r.Intn(nActors), B: 0}, {Op: "nft.issue", A: r.Intn(nActors), B: 1},
		{Op: "mt.issue", A: r.Intn(nActors)}, {Op: "mt.issue", A: r.Intn(nActors)},
		{Op: "coinswap.add", A: r.Intn(nActors), B: 0, N: uint64(100000 + r.Intn(100000))},
		{Op: "coinswap.add", A: r.Intn(nActors), B: 1, N: uint64(100000 + r.Intn(100000))},
	}
	for i := len(pre) - 1; i > 0; i-- {
		j := r.Intn(i + 1)
		pre[i], pre[j] = pre[j], pre[i]
	}
	add(pre...)
	add(randomServiceSetup(r)...)
	for k := 0; k < 6; k++ {
		add(Step{Op: "mt.mint", A: r.Intn(nActors), B: r.Intn(3), C: r.Intn(nActors), N: uint64(3 * (1 + r.Intn(300)))})
	}
	add(Step{Op: "farm.create", A: r.Intn(nActors), B: 0, N: uint64(1 + r.Intn(20))})
	extra(r.Intn(nx + 1))
	add(Step{Op: "service.define", A: 0, B: 0}, Step{Op: "service.bind", A: 1, B: 0, C: 0, N: uint64(1 + r.Intn(3))})
	extra(r.Intn(nx + 1))
	add(Step{Op: "oracle.createfeed", A: 0, B: 0, C: r.Intn(3), N: uint64(2 + r.Intn(3))}, Step{Op: "oracle.startfeed", A: 0, B: 0})
	extra(r.Intn(nx + 1))
	// fee-token swaps through a registered pair (residue-leaving amounts); the same pair again later
	add(Step{Op: "token.swapfee", A: r.Intn(nActors), B: 0, C: r.Intn(nActors), N: uint64(1 + r.Intn(10_000_000))},
		Step{Op: "token.swapfee", A: r.Intn(nActors), B: 1, C: r.Intn(nActors), N: uint64(1 + r.Intn(5000))})
	// oracle random requests: each picks one of the three providers of the random service
	for k := 0; k < 3; k++ {
		add(Step{Op: "random.oracle", A: r.Intn(nActors), N: uint64(1 + r.Intn(3))})
	}
	add(blk)
	add(Step{Op: "service.respond", A: 1, B: r.Intn(4), N: uint64(1 + r.Intn(900))})
	extra(r.Intn(nx + 2))
	add(blk)
	extra(r.Intn(nx + 2))
	add(Step{Op: "service.define", A: 2, B: 1}, Step{Op: "service.bind", A: 3, B: 1, C: 1, N: uint64(10 + r.Intn(90))})
	add(Step{Op: "service.call", A: 2, B: 1, C: 3, N: uint64(r.Intn(2))})
	extra(r.Intn(nx + 2))
	add(blk)
	add(Step{Op: "service.respond", A: 3, B: 0, N: 1})
	extra(r.Intn(nx + 2))
	add(blk)
	// tail: more random traffic, responses, and sometimes a long run of blocks (HTLC expiry, feed batches)
	nt := 2 + r.Intn(4)
	for k := 0; k < nt; k++ {
		extra(1 + r.Intn(nx+2))
		if r.Chance(1, 2) {
			add(Step{Op: "service.respond", A: []int{1, 3, 4}[r.Intn(3)], B: r.Intn(4), N: uint64(1 + r.Intn(900))})
		}
		if r.Chance(1, 3) {
			add(Step{Op: "service.call", A: 2, B: 1, C: 3, N: uint64(r.Intn(2))})
		}
		if r.Chance(1, 2) {
			add(Step{Op: "random.oracle", A: r.Intn(nActors), N: uint64(1 + r.Intn(3))})
		}
		if r.Chance(2, 3) {
			add(Step{Op: "token.swapfee", A: r.Intn(nActors), B: r.Intn(2), C: r.Intn(nActors), N: uint64(1 + r.Intn(10_000_000))})
		}
		add(blk)
	}
	if r.Chance(1, 3) {
		add(Step{Op: "blocks", N: uint64(50 + r.Intn(12))})
		extra(1 + r.Intn(3))
		add(blk)
	}
	if mode == "clock" && r.Chance(1, 3) {
		// also let the BLOCK-time age of the feed value cross five minutes somewhere after the value exists
		h.BigDtAt = 2 + r.Intn(3)
	}
	return h
}

// genServiceStress: the service-stress family.  What it adds to the general histories:
//   - MUTATE-THEN-REJECT messages: MsgUpdateServiceBinding raising the price without raising the
//     deposit — UpdateServiceBinding stores the new pricing BEFORE the minimum-deposit check rejects the
//     message — followed (in the same block or, across a block boundary where replica B restarts, in the
//     next one) by calls to that provider whose fee depends on the pricing;
//   - an UNDER-FUNDED consumer (actor 5, left with about 2.5 prices) issuing 3..5 calls in one block, some
//     of them repeated with the same frequency, so that several request batches of one consumer fall due
//     in the same end-blocker and only some can be paid (the others are paused);
//   - pause / start / kill of request contexts in the block their batch is due; top-ups and restarts.
//
// Observed as everywhere: service store digest (contexts, requests, fees), balances of all actors.
func genServiceStress(r *lib.Rand, tier, mode string) History {
	h := History{Mode: mode, Dt: 5, BigDtAt: -1}
	add := func(s ...Step) { h.Steps = append(h.Steps, s...) }
	blk := Step{Op: "block"}
	extra := func(n int) {
		for k := 0; k < n; k++ {
			add(randomOp(r))
		}
	}
	// a little of the other modules (the non-triviality rule wants >= 5 modules)
	add(Step{Op: "token.issue", A: r.Intn(nActors), B: 0, N: uint64(6 + 7*r.Intn(100))},
		Step{Op: "token.issue", A: r.Intn(nActors), B: 1, N: uint64(2 + 7*r.Intn(100))},
		Step{Op: "token.swapfee", A: r.Intn(nActors), B: 0, C: r.Intn(nActors), N: uint64(1 + r.Intn(10_000_000))},
		Step{Op: "nft.issue", A: r.Intn(nActors), B: 0}, Step{Op: "mt.issue", A: r.Intn(nActors)},
		Step{Op: "record.create", A: r.Intn(nActors), N: uint64(r.Intn(9))},
		Step{Op: "coinswap.add", A: r.Intn(nActors), B: 0, N: uint64(100000 + r.Intn(100000))},
		Step{Op: "random.request", A: r.Intn(nActors), N: uint64(1 + r.Intn(4))})
	add(randomServiceSetup(r)...)
	add(Step{Op: "random.oracle", A: r.Intn(nActors), N: uint64(1 + r.Intn(4))}, Step{Op: "random.oracle", A: r.Intn(nActors), N: uint64(1 + r.Intn(4))})
	p3, p4 := uint64(5+r.Intn(11)), uint64(5+r.Intn(11))
	add(Step{Op: "service.define", A: 2, B: 1},
		Step{Op: "service.bind", A: 3, B: 1, C: 0, N: p3}, Step{Op: "service.bind", A: 4, B: 1, C: 0, N: p4})
	// consumer 5 keeps about 2.5 prices
	add(Step{Op: "bank.leave", A: 5, B: 0, N: 2*p3 + uint64(r.Intn(int(p3)+1))})
	add(blk)
	rounds := 3 + r.Intn(3)
	for k := 0; k < rounds; k++ {
		prov := 3 + r.Intn(2)
		switch r.Weighted(4, 1, 1) {
		case 0: // price raise without deposit: stored, then rejected by the minimum-deposit check
			add(Step{Op: "service.update", A: prov, B: 1, C: 0, N: uint64(200 + r.Intn(700))})
		case 1: // price raise with a sufficient additional deposit: accepted
			add(Step{Op: "service.update", A: prov, B: 1, C: 1, N: uint64(10 + r.Intn(30))})
		default: // lower price: accepted
			add(Step{Op: "service.update", A: prov, B: 1, C: 0, N: uint64(1 + r.Intn(9))})
		}
		if r.Chance(1, 2) {
			add(blk) // the restart of replica B falls between the update and the calls
		}
		// the rich consumer calls the provider whose pricing was just touched
		add(Step{Op: "service.call2", A: 2, B: 1, C: prov - 3, N: uint64(r.Intn(2))})
		// the poor consumer issues several calls in this block
		nc := 3 + r.Intn(3)
		rep := uint64(r.Intn(2)) // all repeated with one frequency, or none
		for c := 0; c < nc; c++ {
			add(Step{Op: "service.call2", A: 5, B: 1, C: r.Intn(4), N: rep + 2*uint64(r.Intn(2))})
		}
		extra(r.Intn(3))
		if r.Chance(1, 2) { // pause / kill / start in the block the batches are due
			add(Step{Op: []string{"service.pause", "service.kill", "service.start"}[r.Intn(3)], B: r.Intn(30)})
		}
		add(blk)
		add(Step{Op: "service.respond", A: 3, B: r.Intn(4), N: uint64(1 + r.Intn(900))},
			Step{Op: "service.respond", A: 4, B: r.Intn(4), N: uint64(1 + r.Intn(900))})
		if r.Chance(1, 2) { // top up the poor consumer a little and restart something that was paused
			add(Step{Op: "bank.send", A: 0, B: 5, N: p3 + uint64(r.Intn(int(2*p3)))})
			add(Step{Op: "service.start", B: r.Intn(30)}, Step{Op: "service.start", B: r.Intn(30)})
		}
		extra(r.Intn(2))
		add(blk)
	}
	// repeated contexts started together fall due together again
	add(Step{Op: "blocks", N: uint64(8 + r.Intn(12))})
	add(Step{Op: "service.call2", A: 2, B: 1, C: 2, N: 0}, Step{Op: "service.withdraw", A: 3})
	add(blk)
	return h
}

// randomServiceSetup: the "random" service definition with THREE provider bindings (actors 1, 3, 4), so
// that the provider an oracle random request picks (random keeper RequestService: index into the
// binding list drawn from a PRNG seeded with chain data) is a real choice.
func randomServiceSetup(r *lib.Rand) []Step {
	return []Step{{Op: "service.define", A: r.Intn(nActors), B: 3},
		{Op: "service.bind", A: 1, B: 3, C: 0, N: uint64(1 + r.Intn(5))},
		{Op: "service.bind", A: 3, B: 3, C: 0, N: uint64(1 + r.Intn(5))},
		{Op: "service.bind", A: 4, B: 3, C: 0, N: uint64(1 + r.Intn(5))}}
}

// htltOp: a cross-chain create whose timestamp sits inside the admission window [-15 min, +30 min) of
// the BLOCK time, or within two seconds of either edge (both sides).
func htltOp(r *lib.Rand) Step {
	t := int64(r.Intn(600)) - 300
	switch r.Intn(4) {
	case 0:
		t = -900 + int64(r.Intn(5)) - 2
	case 1:
		t = 1800 + int64(r.Intn(5)) - 2
	}
	return Step{Op: "htlc.htlt", A: r.Intn(nActors), B: r.Intn(4) / 3, C: r.Intn(2), N: uint64(1 + r.Intn(500)), T: t}
}

// genClockWindows (clock stream, family "htlt"): in the FIRST block — whose time is the host clock at
// the start of replica A — cross-chain creates with timestamps 4 s inside the past edge (T = -d+4) and
// 4 s outside the future edge (T = +d+4) for every duration constant d the translator found, and a few
// around the edges relative to block time; then claims and more blocks.  See execReplicas for the
// schedule of the two replicas.
func genClockWindows(r *lib.Rand, tier string) History {
	h := History{Mode: "clock", Dt: 5, BigDtAt: -1, Family: "htlt"}
	n := uint64(1)
	for _, d := range clockDurations() {
		for _, t := range []int64{-d + 4, d + 4} {
			h.Steps = append(h.Steps, Step{Op: "htlc.htlt", A: 1 + r.Intn(nActors-1), B: 0, C: r.Intn(2), N: n, T: t})
			n++
			if r.Chance(1, 2) {
				h.Steps = append(h.Steps, Step{Op: "htlc.htlt", A: 1 + r.Intn(nActors-1), B: 1, C: r.Intn(2), N: n, T: t})
				n++
			}
		}
	}
	h.Steps = append(h.Steps, Step{Op: "block"})
	for k := 0; k < 3; k++ {
		h.Steps = append(h.Steps, htltOp(r), Step{Op: "htlc.claim", A: r.Intn(nActors), B: r.Intn(8), N: uint64(1 + r.Intn(4))})
	}
	h.Steps = append(h.Steps, Step{Op: "block"}, randomOp(r), randomOp(r), Step{Op: "block"})
	return h
}

func randomOp(r *lib.Rand) Step {
	a, b := r.Intn(nActors), r.Intn(nActors)
	switch r.Weighted(4, 4, 5, 3, 3, 4, 3, 3, 2) {
	case 0: // token
		switch r.Weighted(3, 3, 2, 1, 1, 3) {
		case 5:
			return Step{Op: "token.swapfee", A: a, B: r.Intn(2), C: b, N: uint64(1 + r.Intn(10_000_000))}
		case 0:
			return Step{Op: "token.issue", A: a, B: r.Intn(3), N: uint64(1 + r.Intn(1000))}
		case 1:
			return Step{Op: "token.mint", A: a, B: r.Intn(3), C: b, N: uint64(1 + r.Intn(500))}
		case 2:
			return Step{Op: "token.burn", A: a, B: r.Intn(3), N: uint64(1 + r.Intn(50))}
		case 3:
			return Step{Op: "token.edit", A: a, B: r.Intn(3), N: uint64(2000 + r.Intn(100000))}
		default:
			return Step{Op: "token.transfer", A: a, B: r.Intn(3), C: b}
		}
	case 1: // nft
		switch r.Weighted(2, 4, 2, 1, 1) {
		case 0:
			return Step{Op: "nft.issue", A: a, B: r.Intn(3)}
		case 1:
			return Step{Op: "nft.mint", A: a, B: r.Intn(3), C: b, N: uint64(r.Intn(6))}
		case 2:
			return Step{Op: "nft.transfer", A: a, B: r.Intn(3), C: b, N: uint64(r.Intn(6))}
		case 3:
			return Step{Op: "nft.edit", A: a, B: r.Intn(3), N: uint64(r.Intn(6))}
		default:
			return Step{Op: "nft.burn", A: a, B: r.Intn(3), N: uint64(r.Intn(6))}
		}
	case 2: // mt
		switch r.Weighted(2, 5, 3, 1) {
		case 0:
			return Step{Op: "mt.issue", A: a}
		case 1:
			return Step{Op: "mt.mint", A: a, B: r.Intn(3), C: b, N: uint64(1 + r.Intn(1000))}
		case 2:
			return Step{Op: "mt.transfer", A: a, B: r.Intn(3), C: b, N: uint64(1 + r.Intn(20))}
		default:
			return Step{Op: "mt.burn", A: a, B: r.Intn(3), N: uint64(1 + r.Intn(5))}
		}
	case 3:
		return Step{Op: "record.create", A: a, N: uint64(r.Intn(18))}
	case 4: // htlc
		if r.Chance(1, 4) {
			return htltOp(r)
		}
		if r.Chance(3, 5) {
			return Step{Op: "htlc.create", A: a, B: b, C: r.Intn(3), N: uint64(1 + r.Intn(500))}
		}
		return Step{Op: "htlc.claim", A: a, B: r.Intn(4), N: uint64(r.Intn(5))}
	case 5: // coinswap
		switch r.Weighted(4, 4, 1) {
		case 0:
			return Step{Op: "coinswap.add", A: a, B: r.Intn(2), N: uint64(1000 + r.Intn(100000))}
		case 1:
			return Step{Op: "coinswap.swap", A: a, B: r.Intn(2), C: r.Intn(2), N: uint64(10 + r.Intn(1000))}
		default:
			return Step{Op: "coinswap.remove", A: a, B: r.Intn(2), N: uint64(1 + r.Intn(500))}
		}
	case 6: // farm
		switch r.Weighted(2, 4, 2, 2) {
		case 0:
			return Step{Op: "farm.create", A: a, B: r.Intn(2), N: uint64(1 + r.Intn(20))}
		case 1:
			return Step{Op: "farm.stake", A: a, B: r.Intn(2), N: uint64(1 + r.Intn(300))}
		case 2:
			return Step{Op: "farm.harvest", A: a, B: r.Intn(2)}
		default:
			return Step{Op: "farm.unstake", A: a, B: r.Intn(2), N: uint64(1 + r.Intn(100))}
		}
	case 7:
		if r.Chance(1, 2) {
			return Step{Op: "random.oracle", A: a, N: uint64(1 + r.Intn(4))}
		}
		return Step{Op: "random.request", A: a, N: uint64(1 + r.Intn(4))}
	default:
		return Step{Op: "service.withdraw", A: 1 + 2*r.Intn(2)}
	}
}

// ---------------------------------------------------------------------------------------------
// executing one replica

type replicaOpts struct {
	Start   time.Time
	Exports int  // ExportGenesis calls per module on the final state (>= 1)
	Restart bool // rebuild the app object from the dumped stores at every block boundary
}

type replicaOut struct {
	// Blocks[i]: observations of block i (tx outcome kinds, response digests, end-block outcome, one
	// digest per irismod store, one for the actors' balances); the last entry holds the exported
	// genesis digests of the ten modules.  Labels has the same shape and names each observation.
	Blocks [][]string
	Labels [][]string
	// Reexport: same blocks, but the final entry shows what exports 2..n produced (first differing
	// bytes, or the same digest when all agree).
	Reexport            *replicaOut `json:",omitempty"`
	Stats               map[string]int
	Steps               []string
	Touched             map[string]bool
	EndBlockTransitions int
	FeedTS              int64 // unix time stamped on the newest value of the price feed (0: none)
	FirstBlockDone      time.Time // host time when the messages of the first block had been executed
}

type node struct {
	e  *lib.Env
	mk mtkeeper.Keeper
	sk servicekeeper.Keeper
	ok oraclekeeper.Keeper
	tk tokenkeeper.Keeper
}

// configureSwapRegistry: the fee-token swap pairs of the token keeper are configuration given at app
// construction (no message sets them); the harness registers, on EVERY app object it builds (also the
// rebuilt / re-opened one), the same two pairs between tokens of different scales, with fresh values:
// ukitty -> udoggo at 0.3 and udoggo -> ulion at 3.7 (ratios that leave rounding residues).
func (n *node) configureSwapRegistry() {
	reg := n.tk.VerifSwapRegistry()
	reg["ukitty"] = tokenv1.SwapParams{MinUnit: "udoggo", Ratio: sdkmath.LegacyMustNewDecFromStr("0.3")}
	reg["udoggo"] = tokenv1.SwapParams{MinUnit: "ulion", Ratio: sdkmath.LegacyMustNewDecFromStr("3.7")}
}

// actorBalances: what every actor owns at genesis.
func actorBalances() sdk.Coins {
	return sdk.NewCoins(
		sdk.NewCoin("stake", sdkmath.NewInt(1_000_000_000_000)),
		sdk.NewCoin(rawDenom, sdkmath.NewInt(1_000_000_000)),
		sdk.NewCoin("btc", sdkmath.NewInt(1_000_000_000)),
		sdk.NewCoin("eth", sdkmath.NewInt(1_000_000_000)),
		sdk.NewCoin(htltDenoms[0], sdkmath.NewInt(1_000_000_000)),
		sdk.NewCoin(htltDenoms[1], sdkmath.NewInt(1_000_000_000)),
	)
}

var htltDenoms = []string{"htltbnb", "htltinc"}

// tweakGenesis: what the harness changes in the default genesis, identically for every replica:
// service fees in any denom; two active HTLT assets (one time-limited) whose deputy is actor 0, with
// supplies, so that cross-chain swaps (transfer = true) can be created from the first block on.
func tweakGenesis(cdc codec.Codec, state simapp.GenesisState, deputy sdk.AccAddress) simapp.GenesisState {
	var sg servicetypes.GenesisState
	cdc.MustUnmarshalJSON(state[servicetypes.ModuleName], &sg)
	sg.Params.RestrictedServiceFeeDenom = false
	state[servicetypes.ModuleName] = cdc.MustMarshalJSON(&sg)
	var hg htlctypes.GenesisState
	cdc.MustUnmarshalJSON(state[htlctypes.ModuleName], &hg)
	hg.Params.AssetParams = nil
	hg.Supplies = nil
	for i, d := range htltDenoms {
		hg.Params.AssetParams = append(hg.Params.AssetParams, htlctypes.AssetParam{
			Denom: d,
			SupplyLimit: htlctypes.SupplyLimit{Limit: sdkmath.NewInt(350_000_000_000_000), TimeLimited: i == 1,
				TimeBasedLimit: sdkmath.NewInt(int64(i) * 50_000_000_000), TimePeriod: time.Hour},
			Active: true, DeputyAddress: deputy.String(), FixedFee: sdkmath.NewInt(1000),
			MinSwapAmount: sdkmath.OneInt(), MaxSwapAmount: sdkmath.NewInt(1_000_000_000_000),
			MinBlockLock: 50, MaxBlockLock: 34560,
		})
		z := sdk.NewCoin(d, sdkmath.ZeroInt())
		// a current supply (as if earlier incoming swaps had been claimed) so that outgoing swaps are possible
		hg.Supplies = append(hg.Supplies, htlctypes.NewAssetSupply(z, z, sdk.NewCoin(d, sdkmath.NewInt(6_000_000_000)), z, 0))
	}
	state[htlctypes.ModuleName] = cdc.MustMarshalJSON(&hg)
	return state
}

func newNode(start time.Time) *node {
	n := &node{}
	bal := actorBalances()
	n.e = lib.NewEnv(lib.EnvOpts{NActors: nActors, Balances: bal, StartTime: start,
		Consumers: []interface{}{&n.mk, &n.sk, &n.ok, &n.tk},
		Merge: func(cdc codec.Codec, state simapp.GenesisState) simapp.GenesisState {
			return tweakGenesis(cdc, state, lib.ActorAddr(0))
		}})
	n.configureSwapRegistry()
	return n
}

func storeDigest(ctx sdk.Context, key storetypes.StoreKey) string {
	h := sha256.New()
	it := ctx.KVStore(key).Iterator(nil, nil)
	defer it.Close()
	var l [8]byte
	n := 0
	for ; it.Valid(); it.Next() {
		binary.BigEndian.PutUint64(l[:], uint64(len(it.Key())))
		h.Write(l[:])
		h.Write(it.Key())
		binary.BigEndian.PutUint64(l[:], uint64(len(it.Value())))
		h.Write(l[:])
		h.Write(it.Value())
		n++
	}
	return fmt.Sprintf("%d:%s", n, hex.EncodeToString(h.Sum(nil)[:12]))
}

// moduleAccounts whose balances are part of the observation
var moduleAccounts = []string{"coinswap", "farm", "farm_reward_collector", "htlc", "service_deposit_account", "service_request_account",
	"service_tax_account", "token", "random", "oracle", "fee_collector", "distribution"}

func (n *node) balancesDigest() string {
	h := sha256.New()
	dump := func(a sdk.AccAddress) {
		h.Write([]byte(n.e.App.BankKeeper.GetAllBalances(n.e.Ctx, a).String()))
		h.Write([]byte{0})
	}
	for _, a := range n.e.Actors {
		dump(a)
	}
	for _, m := range moduleAccounts {
		dump(lib.ModuleAddr(m))
	}
	return hex.EncodeToString(h.Sum(nil)[:12])
}

// genesisExporter: what every irismod AppModule offers (their InitGenesis returns validator updates,
// so they are module.HasABCIGenesis, not module.HasGenesis).
type genesisExporter interface {
	ExportGenesis(sdk.Context, codec.JSONCodec) json.RawMessage
}

func (n *node) exportModule(name string) (out string) {
	m, ok := n.e.App.ModuleManager.Modules[name].(genesisExporter)
	if !ok { // never silently compare nothing
		fmt.Fprintln(os.Stderr, "determinism: module "+name+" has no ExportGenesis(ctx, cdc) method; adapt the harness")
		os.Exit(3)
	}
	defer func() {
		if r := recover(); r != nil {
			out = "panic: " + fmt.Sprint(r)
		}
	}()
	return string(m.ExportGenesis(n.e.Ctx, n.e.App.AppCodec()))
}

// restart: a new app object (new keepers, new in-memory registries, nothing carried over but the
// package-level variables of the process) whose stores are overwritten with the dump of the old ones.
func (n *node) restart() *node {
	old := n.e
	nn := newNode(old.Time)
	for _, key := range old.App.GetStoreKeys() {
		kv, ok := key.(*storetypes.KVStoreKey)
		if !ok {
			continue
		}
		nk := nn.e.App.GetKey(kv.Name())
		if nk == nil {
			continue
		}
		dst := nn.e.Ctx.KVStore(nk)
		var del [][]byte
		it := dst.Iterator(nil, nil)
		for ; it.Valid(); it.Next() {
			del = append(del, append([]byte{}, it.Key()...))
		}
		it.Close()
		for _, k := range del {
			dst.Delete(k)
		}
		src := old.Ctx.KVStore(kv)
		it2 := src.Iterator(nil, nil)
		for ; it2.Valid(); it2.Next() {
			dst.Set(append([]byte{}, it2.Key()...), append([]byte{}, it2.Value()...))
		}
		it2.Close()
	}
	nn.e.SetHeader(old.Ctx.BlockHeader())
	nn.e.Actors = old.Actors
	return nn
}

type runState struct {
	n        *node
	out      *replicaOut
	cur, lab []string
	htlcs    []htlcRef
	ctxs     []ctxRef // request contexts created by successful service.call / call2 of this replica
	nBlocks  int
	h        History
	txSeq    uint64
	// symbol -> current owner (bech32), maintained from the successful messages of this replica
	tokenOwner map[string]string
}

type ctxRef struct {
	id       string
	consumer string
}

type htlcRef struct {
	id     string
	secret string
	to     int
}

func runReplica(h History, o replicaOpts) *replicaOut {
	out := &replicaOut{Stats: map[string]int{}, Touched: map[string]bool{}}
	rs := &runState{n: newNode(o.Start), out: out, h: h, tokenOwner: map[string]string{}}
	for _, st := range h.Steps {
		switch st.Op {
		case "block":
			rs.boundary(o, true)
		case "blocks":
			for k := uint64(0); k < st.N; k++ {
				rs.boundary(o, k%8 == 0) // in a long idle run, restart at every 8th boundary only (cost)
			}
			out.Steps = append(out.Steps, fmt.Sprintf("%d empty blocks -> height %d", st.N, rs.n.e.Height))
		default:
			rs.exec(st)
		}
	}
	rs.closeBlock()
	if vs := rs.n.ok.GetFeedValues(rs.n.e.Ctx, priceFeed); len(vs) > 0 {
		out.FeedTS = vs[0].Timestamp.Unix()
	}
	// exported genesis of every irismod module
	var ex, exl []string
	var ex2 []string
	for _, m := range lib.IrisModules {
		first := rs.n.exportModule(m)
		ex = append(ex, "export:"+first)
		exl = append(exl, "exported genesis of "+m)
		again := "export:" + first
		for k := 1; k < o.Exports; k++ {
			if x := rs.n.exportModule(m); x != first {
				again = "export:" + x
				break
			}
		}
		ex2 = append(ex2, again)
	}
	if o.Exports > 1 {
		re := &replicaOut{Blocks: append(append([][]string{}, out.Blocks...), ex2), Labels: append(append([][]string{}, out.Labels...), exl)}
		out.Reexport = re
	}
	out.Blocks = append(out.Blocks, ex)
	out.Labels = append(out.Labels, exl)
	return out
}

func (rs *runState) obs(label, v string) {
	rs.cur = append(rs.cur, v)
	rs.lab = append(rs.lab, label)
}

func (rs *runState) closeBlock() {
	if rs.out.FirstBlockDone.IsZero() {
		rs.out.FirstBlockDone = time.Now()
	}
	e := rs.n.e
	eb := e.EndBlock()
	rs.obs("end-block outcome", "eb:"+eb.Kind)
	for _, ev := range eb.Event {
		switch ev.Type {
		case "new_batch", "new_batch_request", "complete_batch", "refund_htlc", "generate_random", "pause_context", "complete_context", "service_slash", "set_feed":
			rs.out.EndBlockTransitions++
			lib.Stat(rs.out.Stats, "eb-event:"+ev.Type)
		}
	}
	for _, m := range lib.IrisModules {
		rs.obs("store "+m, "store:"+m+":"+storeDigest(e.Ctx, e.App.GetKey(m)))
	}
	rs.obs("balances of actors and module accounts", "bal:"+rs.n.balancesDigest())
	rs.out.Blocks = append(rs.out.Blocks, rs.cur)
	rs.out.Labels = append(rs.out.Labels, rs.lab)
	rs.cur, rs.lab = nil, nil
}

func (rs *runState) boundary(o replicaOpts, mayRestart bool) {
	rs.closeBlock()
	if o.Restart && mayRestart {
		rs.n = rs.n.restart()
	}
	dt := time.Duration(rs.h.Dt) * time.Second
	if rs.h.BigDtAt >= 0 && rs.nBlocks == rs.h.BigDtAt {
		dt = 400 * time.Second
	}
	rs.nBlocks++
	bb := rs.n.e.BeginBlock(dt)
	if len(rs.out.Steps) == 0 || !strings.HasPrefix(rs.out.Steps[len(rs.out.Steps)-1], "-- block") || debugErrors {
		rs.out.Steps = append(rs.out.Steps, fmt.Sprintf("-- block %d (t=%d)", rs.n.e.Height, rs.n.e.Time.Unix()))
	}
	rs.obs("begin-block outcome", "bb:"+bb.Kind)
	for _, ev := range bb.Event {
		switch ev.Type {
		case "refund_htlc", "generate_random":
			rs.out.EndBlockTransitions++
			lib.Stat(rs.out.Stats, "bb-event:"+ev.Type)
		}
	}
}

func actor(e *lib.Env, i int) string { return e.Actors[i%len(e.Actors)].String() }

var tokenSyms = []string{"kitty", "doggo", "lion"}
var nftDenoms = []string{"artone", "arttwo", "artthree"}

func (rs *runState) exec(st Step) {
	e := rs.n.e
	msg, mod := rs.build(st)
	if msg == nil {
		rs.obs(st.Op, "skip")
		lib.Stat(rs.out.Stats, "res:skip")
		rs.out.Steps = append(rs.out.Steps, fmt.Sprintf("%s a=%d b=%d c=%d n=%d -> skipped (nothing to refer to)", st.Op, st.A, st.B, st.C, st.N))
		return
	}
	rs.txSeq++
	tx := make([]byte, 16)
	copy(tx, "c11-tx")
	binary.BigEndian.PutUint64(tx[8:], rs.txSeq)
	outs, _ := e.DeliverTx(tx, msg)
	o := outs[len(outs)-1]
	resp := ""
	if o.OK() && o.Resp != nil {
		if pm, ok := o.Resp.(proto.Message); ok {
			if bz, err := proto.Marshal(pm); err == nil {
				d := sha256.Sum256(bz)
				resp = hex.EncodeToString(d[:8])
			}
		}
	}
	rs.obs(st.Op, fmt.Sprintf("tx:%s:%s:%s", st.Op, o.Kind, resp))
	lib.Stat(rs.out.Stats, "op:"+st.Op)
	lib.Stat(rs.out.Stats, "res:"+o.Kind)
	if o.OK() {
		rs.out.Touched[mod] = true
		if m, ok := msg.(*tokenv1.MsgIssueToken); ok {
			rs.tokenOwner[m.Symbol] = m.Owner
		}
		if m, ok := msg.(*tokenv1.MsgTransferTokenOwner); ok {
			rs.tokenOwner[m.Symbol] = m.DstOwner
		}
		if r, ok := o.Resp.(*servicetypes.MsgCallServiceResponse); ok {
			rs.ctxs = append(rs.ctxs, ctxRef{id: r.RequestContextId, consumer: msg.(*servicetypes.MsgCallService).Consumer})
		}
		if r, ok := o.Resp.(*htlctypes.MsgCreateHTLCResponse); ok {
			rs.htlcs = append(rs.htlcs, htlcRef{id: r.Id, secret: secretOf(st), to: st.B})
		}
	}
	line := fmt.Sprintf("%s a=%d b=%d c=%d n=%d -> %s", st.Op, st.A, st.B, st.C, st.N, o.Kind)
	if debugErrors && !o.OK() {
		line += "  [" + o.Err + "]"
	}
	rs.out.Steps = append(rs.out.Steps, line)
}

// holder: the first actor, starting at index `from`, holding at least n of denom (else `from`)
func (rs *runState) holder(from int, denom string, n uint64) string {
	e := rs.n.e
	for k := 0; k < nActors; k++ {
		if e.Balance(e.Actors[(from+k)%nActors], denom).GTE(sdkmath.NewIntFromUint64(n)) {
			return actor(e, from+k)
		}
	}
	return actor(e, from)
}

func secretOf(st Step) string {
	d := sha256.Sum256([]byte(fmt.Sprintf("secret-%d-%d-%d-%d", st.A, st.B, st.C, st.N)))
	return hex.EncodeToString(d[:])
}

func coins(denom string, n uint64) sdk.Coins {
	return sdk.NewCoins(sdk.NewCoin(denom, sdkmath.NewIntFromUint64(n)))
}

const schemas = `{"input":{"type":"object"},"output":{"type":"object"}}`

func svcName(i int) string { return []string{"price-svc", "paid-svc", "other-svc", randomtypes.ServiceName}[i%4] }

// build maps an abstract step to a message, resolving references against the node's current state.
func (rs *runState) build(st Step) (sdk.Msg, string) {
	e := rs.n.e
	a := actor(e, st.A)
	switch st.Op {
	// ---- token
	case "token.issue":
		sym := tokenSyms[st.B%3]
		return &tokenv1.MsgIssueToken{Symbol: sym, Name: sym + " token", Scale: uint32(st.N % 7), MinUnit: "u" + sym,
			InitialSupply: 1000 + st.N, MaxSupply: 10_000_000, Mintable: true, Owner: a}, "token"
	case "token.mint", "token.edit", "token.transfer":
		sym := tokenSyms[st.B%3]
		owner := a // a stranger in one case out of seven, else the current owner
		if o, ok := rs.tokenOwner[sym]; ok && st.N%7 != 0 {
			owner = o
		}
		switch st.Op {
		case "token.mint":
			return &tokenv1.MsgMintToken{Coin: sdk.NewCoin("u"+sym, sdkmath.NewIntFromUint64(st.N)), Receiver: actor(e, st.C), Owner: owner}, "token"
		case "token.edit":
			return &tokenv1.MsgEditToken{Symbol: sym, Name: fmt.Sprintf("renamed %d", st.N), MaxSupply: 10_000_000 + st.N, Mintable: "true", Owner: owner}, "token"
		default:
			return &tokenv1.MsgTransferTokenOwner{SrcOwner: owner, DstOwner: actor(e, st.C), Symbol: sym}, "token"
		}
	case "token.swapfee":
		from := []string{"ukitty", "udoggo"}[st.B%2]
		amt := st.N
		if st.B%2 == 1 { // udoggo has scale 2: small holdings
			amt = 1 + st.N%5000
		}
		m := &tokenv1.MsgSwapFeeToken{FeePaid: sdk.NewCoin(from, sdkmath.NewIntFromUint64(amt)), Sender: rs.holder(st.A, from, amt)}
		if st.C%3 != 0 {
			m.Receiver = actor(e, st.C)
		}
		return m, "token"
	case "token.burn":
		d := "u" + tokenSyms[st.B%3]
		return &tokenv1.MsgBurnToken{Coin: sdk.NewCoin(d, sdkmath.NewIntFromUint64(st.N)), Sender: rs.holder(st.A, d, st.N)}, "token"
	// ---- nft
	case "nft.issue":
		d := nftDenoms[st.B%3]
		return &nfttypes.MsgIssueDenom{Id: d, Name: d + " name", Schema: "{}", Sender: a, Symbol: d[:3], MintRestricted: st.B%2 == 1, UpdateRestricted: false}, "nft"
	case "nft.mint":
		return &nfttypes.MsgMintNFT{Id: fmt.Sprintf("tok%d", st.N), DenomId: nftDenoms[st.B%3], Name: "n", URI: "ipfs://x", Data: "{}", Sender: a, Recipient: actor(e, st.C)}, "nft"
	case "nft.transfer":
		return &nfttypes.MsgTransferNFT{Id: fmt.Sprintf("tok%d", st.N), DenomId: nftDenoms[st.B%3], Name: "[do-not-modify]", URI: "[do-not-modify]", Data: "[do-not-modify]", UriHash: "[do-not-modify]", Sender: a, Recipient: actor(e, st.C)}, "nft"
	case "nft.edit":
		return &nfttypes.MsgEditNFT{Id: fmt.Sprintf("tok%d", st.N), DenomId: nftDenoms[st.B%3], Name: "edited", URI: "[do-not-modify]", Data: "[do-not-modify]", UriHash: "[do-not-modify]", Sender: a}, "nft"
	case "nft.burn":
		return &nfttypes.MsgBurnNFT{Id: fmt.Sprintf("tok%d", st.N), DenomId: nftDenoms[st.B%3], Sender: a}, "nft"
	// ---- mt
	case "mt.issue":
		return &mttypes.MsgIssueDenom{Name: fmt.Sprintf("mtclass-%d", st.A), Data: []byte("d"), Sender: a}, "mt"
	case "mt.mint", "mt.transfer", "mt.burn":
		denoms := rs.n.mk.GetDenoms(e.Ctx)
		if len(denoms) == 0 {
			return nil, "mt"
		}
		d := denoms[st.B%len(denoms)]
		mts := rs.n.mk.GetMTs(e.Ctx, d.Id)
		id := ""
		if len(mts) > 0 && !(st.Op == "mt.mint" && st.N%3 == 0) {
			id = mts[int(st.N)%len(mts)].GetID()
		}
		switch st.Op {
		case "mt.mint":
			// the class owner mints (others are rejected: a minority comes from a != owner)
			sender := d.Owner
			if st.N%11 == 0 {
				sender = a
			}
			var data []byte
			if id == "" {
				data = []byte("m")
			}
			return &mttypes.MsgMintMT{Id: id, DenomId: d.Id, Amount: st.N, Data: data, Sender: sender, Recipient: actor(e, st.C)}, "mt"
		case "mt.transfer":
			if id == "" {
				return nil, "mt"
			}
			// sender: some holder — try the actors in order starting at A and take the first with a balance
			sender := a
			for k := 0; k < nActors; k++ {
				if rs.n.mk.GetBalance(e.Ctx, d.Id, id, e.Actors[(st.A+k)%nActors]) >= st.N {
					sender = actor(e, st.A+k)
					break
				}
			}
			return &mttypes.MsgTransferMT{Id: id, DenomId: d.Id, Amount: st.N, Sender: sender, Recipient: actor(e, st.C)}, "mt"
		default:
			if id == "" {
				return nil, "mt"
			}
			sender := a
			for k := 0; k < nActors; k++ {
				if rs.n.mk.GetBalance(e.Ctx, d.Id, id, e.Actors[(st.A+k)%nActors]) >= st.N {
					sender = actor(e, st.A+k)
					break
				}
			}
			return &mttypes.MsgBurnMT{Id: id, DenomId: d.Id, Amount: st.N, Sender: sender}, "mt"
		}
	// ---- record
	case "record.create":
		// 1..3 contents (a record is an ordered list; an order-dependent defect needs >= 2 entries);
		// st.N >= 9: additionally one content is listed TWICE ([a, b, c, a] / [a, b, a] / [a, a])
		var cs []recordtypes.Content
		for k := uint64(0); k <= st.N%3; k++ {
			cs = append(cs, recordtypes.Content{Digest: fmt.Sprintf("digest-%d-%d", st.N, k), DigestAlgo: "sha256", URI: "ipfs://r", Meta: "m"})
		}
		if st.N >= 9 {
			cs = append(cs, cs[(st.N/3)%uint64(len(cs))])
		}
		return &recordtypes.MsgCreateRecord{Contents: cs, Creator: a}, "record"
	// ---- htlc
	case "htlc.create":
		secret, _ := hex.DecodeString(secretOf(st))
		ts := uint64(1580000000 + st.N)
		lock := hex.EncodeToString(htlctypes.GetHashLock(secret, ts))
		return &htlctypes.MsgCreateHTLC{Sender: a, To: actor(e, st.B), Amount: coins([]string{"stake", "btc", "eth"}[st.C%3], st.N),
			HashLock: lock, Timestamp: ts, TimeLock: 50 + st.N%8, Transfer: false}, "htlc"
	case "htlc.claim":
		if len(rs.htlcs) == 0 {
			return nil, "htlc"
		}
		r := rs.htlcs[st.B%len(rs.htlcs)]
		secret := r.secret
		if st.N == 0 { // wrong secret minority
			secret = strings.Repeat("ab", 32)
		}
		return &htlctypes.MsgClaimHTLC{Sender: a, Id: r.id, Secret: secret}, "htlc"
	// ---- coinswap
	case "coinswap.add":
		d := []string{"btc", "eth"}[st.B%2]
		return &coinswaptypes.MsgAddLiquidity{MaxToken: sdk.NewCoin(d, sdkmath.NewIntFromUint64(st.N*1000)), ExactStandardAmt: sdkmath.NewIntFromUint64(st.N),
			MinLiquidity: sdkmath.OneInt(), Deadline: e.Time.Unix() + 1000, Sender: a}, "coinswap"
	case "coinswap.swap":
		d := []string{"btc", "eth"}[st.B%2]
		in, out := sdk.NewCoin("stake", sdkmath.NewIntFromUint64(st.N)), sdk.NewCoin(d, sdkmath.OneInt())
		if st.C%2 == 1 {
			in, out = sdk.NewCoin(d, sdkmath.NewIntFromUint64(st.N)), sdk.NewCoin("stake", sdkmath.OneInt())
		}
		return &coinswaptypes.MsgSwapOrder{Input: coinswaptypes.Input{Address: a, Coin: in}, Output: coinswaptypes.Output{Address: a, Coin: out},
			Deadline: e.Time.Unix() + 1000, IsBuyOrder: false}, "coinswap"
	case "coinswap.remove":
		lpt := fmt.Sprintf("lpt-%d", 1+st.B%2)
		return &coinswaptypes.MsgRemoveLiquidity{WithdrawLiquidity: sdk.NewCoin(lpt, sdkmath.NewIntFromUint64(st.N)),
			MinToken: sdkmath.OneInt(), MinStandardAmt: sdkmath.OneInt(), Deadline: e.Time.Unix() + 1000, Sender: rs.holder(st.A, lpt, st.N)}, "coinswap"
	// ---- farm
	case "farm.create":
		return &farmtypes.MsgCreatePool{Description: "pool", LptDenom: fmt.Sprintf("lpt-%d", 1+st.B%2), StartHeight: e.Height + 1 + int64(st.N%3),
			RewardPerBlock: coins("stake", st.N), TotalReward: coins("stake", st.N*(20+st.N)), Editable: true, Creator: a}, "farm"
	case "farm.stake":
		lpt := fmt.Sprintf("lpt-%d", 1+st.B%2)
		return &farmtypes.MsgStake{PoolId: fmt.Sprintf("farm-%d", 1+st.B%2), Amount: sdk.NewCoin(lpt, sdkmath.NewIntFromUint64(st.N)), Sender: rs.holder(st.A, lpt, st.N)}, "farm"
	case "farm.harvest":
		return &farmtypes.MsgHarvest{PoolId: fmt.Sprintf("farm-%d", 1+st.B%2), Sender: a}, "farm"
	case "farm.unstake":
		return &farmtypes.MsgUnstake{PoolId: fmt.Sprintf("farm-%d", 1+st.B%2), Amount: sdk.NewCoin(fmt.Sprintf("lpt-%d", 1+st.B%2), sdkmath.NewIntFromUint64(st.N)), Sender: a}, "farm"
	// ---- cross-chain swap (HTLT): transfer = true, asset of the genesis, deputy (actor 0) on one side;
	// the timestamp is st.T seconds away from the time of the block the message executes in
	case "htlc.htlt":
		ts := uint64(e.Time.Unix() + st.T)
		secret, _ := hex.DecodeString(secretOf(st))
		lock := hex.EncodeToString(htlctypes.GetHashLock(secret, ts))
		sender, to := a, actor(e, 0)
		if st.B == 1 { // incoming: the deputy relays a swap from the other chain
			sender, to = actor(e, 0), actor(e, 1+st.A%(nActors-1))
		}
		return &htlctypes.MsgCreateHTLC{Sender: sender, To: to, ReceiverOnOtherChain: "0x9eD05741C1B96FE3C04CE29e4d9b10F5A2A9f8F3", SenderOnOtherChain: "0x4D5b2C2b8f6B7c7a5D6A4e3F2b1C0d9E8f7A6b5C",
			Amount: coins(htltDenoms[st.C%2], 2000+st.N), HashLock: lock, Timestamp: ts, TimeLock: 50 + st.N%8, Transfer: true}, "htlc"
	// ---- random
	case "random.oracle":
		return &randomtypes.MsgRequestRandom{BlockInterval: st.N, Consumer: a, Oracle: true, ServiceFeeCap: coins("stake", 1000)}, "random"
	case "random.request":
		return &randomtypes.MsgRequestRandom{BlockInterval: st.N, Consumer: a, Oracle: false}, "random"
	// ---- service
	case "service.define":
		sch := schemas
		if svcName(st.B) == randomtypes.ServiceName {
			sch = servicetypes.RandomServiceSchemas
		}
		return &servicetypes.MsgDefineService{Name: svcName(st.B), Description: "d", Tags: []string{"t"}, Author: a, AuthorDescription: "ad", Schemas: sch}, "service"
	case "service.bind":
		pricing := fmt.Sprintf(`{"price":"%dstake"}`, st.N)
		if st.C == 1 {
			pricing = fmt.Sprintf(`{"price":"%d%s"}`, st.N, rawDenom)
		}
		return &servicetypes.MsgBindService{ServiceName: svcName(st.B), Provider: a, Deposit: coins("stake", 100000), Pricing: pricing, QoS: 2, Options: "{}", Owner: a}, "service"
	case "service.call":
		return &servicetypes.MsgCallService{ServiceName: svcName(st.B), Providers: []string{actor(e, st.C)}, Consumer: a, Input: `{"header":{},"body":{}}`,
			ServiceFeeCap: coins("stake", 100000), Timeout: 6, Repeated: st.N == 1, RepeatedFrequency: 8, RepeatedTotal: 3}, "service"
	case "service.respond":
		// the st.B-th active request addressed to provider A, over the services it is bound to
		var reqs []*servicetypes.Request
		for i := 0; i < 4; i++ {
			resp, err := rs.n.sk.Requests(e.Ctx, &servicetypes.QueryRequestsRequest{ServiceName: svcName(i), Provider: a})
			if err == nil {
				reqs = append(reqs, resp.Requests...)
			}
		}
		if len(reqs) == 0 {
			return nil, "service"
		}
		sort.Slice(reqs, func(i, j int) bool { return reqs[i].Id < reqs[j].Id })
		rq := reqs[st.B%len(reqs)]
		output := fmt.Sprintf(`{"header":{},"body":{"rate":"%d.%03d"}}`, st.N/1000, st.N%1000)
		if rq.ServiceName == randomtypes.ServiceName {
			d := sha256.Sum256([]byte(fmt.Sprintf("seed-%d", st.N)))
			output = fmt.Sprintf(`{"header":{},"body":{"seed":"%s"}}`, hex.EncodeToString(d[:]))
		}
		return &servicetypes.MsgRespondService{RequestId: rq.Id, Provider: a, Result: `{"code":200,"message":""}`, Output: output}, "service"
	case "service.call2":
		provs := [][]string{{actor(e, 3)}, {actor(e, 4)}, {actor(e, 3), actor(e, 4)}, {actor(e, 4), actor(e, 3), actor(e, 4)}}[st.C%4]
		return &servicetypes.MsgCallService{ServiceName: svcName(st.B), Providers: provs, Consumer: a, Input: `{"header":{},"body":{}}`,
			ServiceFeeCap: coins("stake", 100000), Timeout: 6, Repeated: st.N&1 == 1, RepeatedFrequency: 6 + (st.N>>1)%2*2, RepeatedTotal: 3}, "service"
	case "service.update":
		m := &servicetypes.MsgUpdateServiceBinding{ServiceName: svcName(st.B), Provider: a, Owner: a, Pricing: fmt.Sprintf(`{"price":"%dstake"}`, st.N)}
		if st.C == 1 {
			m.Deposit = coins("stake", st.N*1000)
		}
		return m, "service"
	case "service.pause", "service.start", "service.kill":
		if len(rs.ctxs) == 0 {
			return nil, "service"
		}
		c := rs.ctxs[st.B%len(rs.ctxs)]
		switch st.Op {
		case "service.pause":
			return &servicetypes.MsgPauseRequestContext{RequestContextId: c.id, Consumer: c.consumer}, "service"
		case "service.start":
			return &servicetypes.MsgStartRequestContext{RequestContextId: c.id, Consumer: c.consumer}, "service"
		default:
			return &servicetypes.MsgKillRequestContext{RequestContextId: c.id, Consumer: c.consumer}, "service"
		}
	// ---- bank (funding games of the service-stress family)
	case "bank.leave":
		bal := e.Balance(e.Actors[st.A%nActors], "stake")
		if !bal.GT(sdkmath.NewIntFromUint64(st.N)) {
			return nil, "bank"
		}
		return &banktypes.MsgSend{FromAddress: a, ToAddress: actor(e, st.B), Amount: sdk.NewCoins(sdk.NewCoin("stake", bal.Sub(sdkmath.NewIntFromUint64(st.N))))}, "bank"
	case "bank.send":
		return &banktypes.MsgSend{FromAddress: a, ToAddress: actor(e, st.B), Amount: coins("stake", st.N)}, "bank"
	case "service.withdraw":
		return &servicetypes.MsgWithdrawEarnedFees{Owner: a, Provider: a}, "service"
	// ---- oracle
	case "oracle.createfeed":
		return &oracletypes.MsgCreateFeed{FeedName: priceFeed, LatestHistory: st.N, Description: "price", Creator: a, ServiceName: svcName(st.B),
			Providers: []string{actor(e, 1)}, Input: `{"header":{},"body":{}}`, Timeout: 4, ServiceFeeCap: coins("stake", 1000),
			RepeatedFrequency: 5, AggregateFunc: []string{"avg", "max", "min"}[st.C%3], ValueJsonPath: "rate", ResponseThreshold: 1}, "oracle"
	case "oracle.startfeed":
		return &oracletypes.MsgStartFeed{FeedName: priceFeed, Creator: a}, "oracle"
	}
	panic("unknown op " + st.Op)
}
