// verifcg: the call-graph translator of property C11 (determinism).
//
// It is a separate (nested) Go module because it needs golang.org/x/tools (go/packages, go/ssa,
// CHA), which the harness module — whose go.mod is regenerated from the repository's e2e/go.mod on
// every run — cannot require offline.  `determinism callgraph -out FILE` builds and runs it.
//
//	verifcg -dir <harness dir> -out <CallGraph.v> -json <callgraph.json>
//
// Loaded: every package matching mods.irisnet.org/modules/... seen from the harness module (which
// links all ten irismod modules), minus tests, client/cli, simulation and test utilities.
//
// Nodes   = every function, method, closure, bound-method closure, thunk and wrapper with a body
//
//	whose defining package is one of the loaded ones, numbered by sorted name;
//	plus one pseudo-node per SOURCE occurrence (function, kind, ordinal within that
//	function in instruction order — never a line number).
//
// Edges   = static calls; interface (invoke) calls resolved by CHA to irismod methods;
//
//	reference edges f -> g for every function value g that f materialises (closure
//	creation, method value, function constant stored or passed) — a function value can
//	only be called after some executed code created it, so this soundly replaces
//	signature matching for dynamic calls, including callbacks invoked by SDK code;
//	interface-conversion edges f -> methods(T) for every MakeInterface of a type T with
//	irismod methods in f (external code such as sort, codec or fmt can call exactly the
//	methods of values it was handed);
//	f -> its source pseudo-nodes.
//
// Roots   = message servers, begin/end blockers, genesis init/export/validate/zero-height,
//
//	ValidateBasic / Validate*, GetSigners, ante decorators, hooks, registered service callbacks,
//	store migrations, and the wiring code that creates callbacks (package initialisers, NewKeeper,
//	ProvideModule, NewAppModule, RegisterServices ...).
package main

import (
	"encoding/json"
	"flag"
	"fmt"
	"go/constant"
	"go/token"
	"go/types"
	"os"
	"sort"
	"strings"

	"golang.org/x/tools/go/callgraph"
	"golang.org/x/tools/go/callgraph/cha"
	"golang.org/x/tools/go/packages"
	"golang.org/x/tools/go/ssa"
	"golang.org/x/tools/go/ssa/ssautil"
)

const prefix = "mods.irisnet.org/modules/"

func analysed(path string) bool {
	if !strings.HasPrefix(path, prefix) {
		return false
	}
	rest := "/" + strings.TrimPrefix(path, prefix) + "/"
	for _, bad := range []string{"/client/", "/simulation/", "/testutil/", "/mocks/", "/mock/"} {
		if strings.Contains(rest, bad) {
			return false
		}
	}
	return true
}

// source kinds; the order is the constructor order of Determinism/Graph.v [kind]
var kinds = []string{"Clock", "Entropy", "HostEnv", "MapRange", "Goroutine", "Select", "Float", "TaintedGlobal", "GlobalWrite", "SharedMapWrite", "SharedValueMutation"}

type source struct {
	Fn     string `json:"fn"`
	Kind   string `json:"kind"`
	Ord    int    `json:"ord"`
	Detail string `json:"detail"`
	Pos    string `json:"pos"`
	ID     int    `json:"id"`
	fnID   int
}

type threshold struct {
	Fn      string  `json:"fn"`
	Seconds float64 `json:"seconds"`
	Clock   bool    `json:"clock"` // the function also reads the host clock
	Pos     string  `json:"pos"`
}

type output struct {
	Names      []string          `json:"names"` // index = id-1 (function nodes first, then pseudo nodes)
	Pos        []string          `json:"pos"`
	NFuncs     int               `json:"n_funcs"`
	Roots      map[string]string `json:"roots"` // name -> reason
	RootIDs    []int             `json:"root_ids"`
	Adj        map[int][]int     `json:"adj"`
	Sources    []source          `json:"sources"`
	Thresholds []threshold       `json:"thresholds"`
	Packages   []string          `json:"packages"`
	Tainted    map[string]string `json:"tainted_globals"`
}

func main() {
	dir := flag.String("dir", ".", "harness module directory")
	out := flag.String("out", "", "Coq output file")
	jout := flag.String("json", "", "JSON side file (names, positions, edges) for reporting")
	flag.Parse()

	cfg := &packages.Config{
		Mode: packages.NeedName | packages.NeedFiles | packages.NeedCompiledGoFiles | packages.NeedImports |
			packages.NeedTypes | packages.NeedTypesSizes | packages.NeedSyntax | packages.NeedTypesInfo,
		Dir: *dir,
		Env: os.Environ(),
	}
	all, err := packages.Load(cfg, prefix+"...")
	if err != nil {
		fatal("load: %v", err)
	}
	var initial []*packages.Package
	var pkgNames []string
	for _, p := range all {
		if !analysed(p.PkgPath) {
			continue
		}
		if len(p.Errors) > 0 {
			fatal("package %s: %v", p.PkgPath, p.Errors)
		}
		initial = append(initial, p)
		pkgNames = append(pkgNames, p.PkgPath)
	}
	sort.Strings(pkgNames)
	if len(initial) < 20 {
		fatal("only %d packages loaded", len(initial))
	}
	prog, _ := ssautil.Packages(initial, ssa.InstantiateGenerics)
	prog.Build()

	// ---- nodes
	allFns := ssautil.AllFunctions(prog)
	var fns []*ssa.Function
	for f := range allFns {
		if f.Blocks == nil {
			continue
		}
		// the REST gateway stubs (*.pb.gw.go) are client-side plumbing, not consensus code
		if analysed(pkgPathOf(f)) && !strings.HasSuffix(prog.Fset.Position(f.Pos()).Filename, ".pb.gw.go") && !gatewayClosure(prog, f) {
			fns = append(fns, f)
		}
	}
	nameOf := map[*ssa.Function]string{}
	{
		sort.Slice(fns, func(i, j int) bool {
			a, b := rawName(fns[i]), rawName(fns[j])
			if a != b {
				return a < b
			}
			return posOf(prog, fns[i].Pos()) < posOf(prog, fns[j].Pos())
		})
		seen := map[string]int{}
		for _, f := range fns {
			n := rawName(f)
			seen[n]++
			if seen[n] > 1 {
				n = fmt.Sprintf("%s#%d", n, seen[n])
			}
			nameOf[f] = n
		}
	}
	idOf := map[*ssa.Function]int{}
	o := output{Roots: map[string]string{}, Adj: map[int][]int{}, Packages: pkgNames, Tainted: map[string]string{}}
	for i, f := range fns {
		idOf[f] = i + 1
		o.Names = append(o.Names, nameOf[f])
		o.Pos = append(o.Pos, posOf(prog, f.Pos()))
	}
	o.NFuncs = len(fns)

	edges := map[int]map[int]bool{}
	addEdge := func(a, b int) {
		if a == b {
			return
		}
		m := edges[a]
		if m == nil {
			m = map[int]bool{}
			edges[a] = m
		}
		m[b] = true
	}

	// ---- call edges: static + CHA-resolved invoke (dynamic function-value calls are covered by reference edges)
	cg := cha.CallGraph(prog)
	for f, node := range cg.Nodes {
		a, ok := idOf[f]
		if !ok {
			continue
		}
		for _, e := range node.Out {
			b, ok := idOf[e.Callee.Func]
			if !ok {
				continue
			}
			if e.Site == nil {
				addEdge(a, b)
				continue
			}
			c := e.Site.Common()
			if c.StaticCallee() != nil || c.IsInvoke() {
				addEdge(a, b)
			}
		}
	}
	_ = callgraph.AddEdge

	// ---- tainted globals: package-level variables whose initialiser reads a source
	tainted := map[*ssa.Global]string{}
	for changed := true; changed; {
		changed = false
		for _, f := range fns {
			if !isInit(f) {
				continue
			}
			for _, b := range f.Blocks {
				for _, in := range b.Instrs {
					st, ok := in.(*ssa.Store)
					if !ok {
						continue
					}
					g := globalRoot(st.Addr)
					if g == nil || tainted[g] != "" {
						continue
					}
					if why := sliceSource(st.Val, tainted, map[ssa.Value]bool{}, 0); why != "" {
						tainted[g] = why
						changed = true
					}
				}
			}
		}
	}
	for g, why := range tainted {
		o.Tainted[g.String()] = why
	}

	// ---- per function: reference edges, interface-conversion edges, sources, thresholds
	var srcs []source
	for _, f := range fns {
		a := idOf[f]
		cnt := map[string]int{}
		add := func(kind, detail string, pos token.Pos) {
			srcs = append(srcs, source{Fn: nameOf[f], Kind: kind, Ord: cnt[kind], Detail: detail, Pos: posOf(prog, pos), fnID: a})
			cnt[kind]++
		}
		hasClock := false
		var ths []threshold
		for _, b := range f.Blocks {
			for _, in := range b.Instrs {
				// reference edges + references to source functions
				var ops []*ssa.Value
				ops = in.Operands(ops)
				callee := (*ssa.Function)(nil)
				if ci, ok := in.(ssa.CallInstruction); ok {
					callee = ci.Common().StaticCallee()
				}
				for _, op := range ops {
					if op == nil || *op == nil {
						continue
					}
					var g *ssa.Function
					switch v := (*op).(type) {
					case *ssa.Function:
						g = v
					case *ssa.MakeClosure:
						g, _ = v.Fn.(*ssa.Function)
					}
					if g == nil {
						continue
					}
					if id, ok := idOf[g]; ok {
						addEdge(a, id)
					} else if g != callee {
						// a source function taken as a value (e.g. now := time.Now)
						if k, d := sourceCallee(g); k != "" {
							add(k, "value of "+d, in.Pos())
							if k == "Clock" {
								hasClock = true
							}
						}
					}
				}
				// every time.Duration constant the function mentions (window widths such as
				// BlockTime().Add(-15*time.Minute) are not comparisons): the clock stream probes each
				for _, op := range ops {
					if op == nil || *op == nil {
						continue
					}
					if c, ok := (*op).(*ssa.Const); ok {
						if sec, ok := durationConst(c); ok {
							dup := false
							for _, t := range ths {
								if t.Seconds == sec {
									dup = true
								}
							}
							if !dup {
								ths = append(ths, threshold{Fn: nameOf[f], Seconds: sec, Pos: posOf(prog, in.Pos())})
							}
						}
					}
				}
				switch v := in.(type) {
				case *ssa.MakeInterface:
					for _, m := range irisMethods(prog, v.X.Type(), idOf) {
						addEdge(a, m)
					}
				case *ssa.Range:
					if _, ok := v.X.Type().Underlying().(*types.Map); ok {
						add("MapRange", "range over "+types.TypeString(v.X.Type(), shortQual), v.Pos())
					}
				case *ssa.Go:
					add("Goroutine", "go statement", v.Pos())
				case *ssa.Select:
					add("Select", "select statement", v.Pos())
				case *ssa.BinOp:
					if isFloat(v.X.Type()) || isFloat(v.Y.Type()) {
						add("Float", "float "+v.Op.String(), v.Pos())
					}
					_ = durationCompare // (comparisons are covered by the operand scan above)
				case *ssa.UnOp:
					if v.Op == token.SUB && isFloat(v.X.Type()) {
						add("Float", "float negation", v.Pos())
					}
					if v.Op == token.MUL {
						if g := globalRoot(v.X); g != nil {
							if why := tainted[g]; why != "" && !isInit(f) {
								add("TaintedGlobal", g.String()+" initialised from "+why, v.Pos())
							}
							if g.Pkg != nil && g.Pkg.Pkg.Path() == "crypto/rand" {
								add("Entropy", "crypto/rand."+g.Name(), v.Pos())
							}
						}
					}
				case *ssa.Convert:
					if isFloat(v.X.Type()) != isFloat(v.Type()) {
						add("Float", "conversion "+types.TypeString(v.X.Type(), shortQual)+" -> "+types.TypeString(v.Type(), shortQual), v.Pos())
					}
				case *ssa.Store:
					if g := globalRoot(v.Addr); g != nil && !isInit(f) && analysed(pkgOfGlobal(g)) {
						add("GlobalWrite", "write to package variable "+g.String(), v.Pos())
					}
				case *ssa.MapUpdate:
					if g := globalRoot(v.Map); g != nil && !isInit(f) && analysed(pkgOfGlobal(g)) {
						add("GlobalWrite", "write to package-level map "+g.String(), v.Pos())
					} else if g == nil && !isInit(f) {
						if root, local := mapOrigin(v.Map, 0); !local {
							add("SharedMapWrite", "update of a map not created by this function ("+root+")", v.Pos())
						}
					}
				}
				if ci, ok := in.(ssa.CallInstruction); ok {
					c := ci.Common()
					if callee != nil && isMathMutator(callee) && len(c.Args) > 0 && !isInit(f) {
						if root, local := valueOrigin(c.Args[0], 0); !local {
							add("SharedValueMutation", "in-place "+shortFn(callee)+" on a value this function did not create ("+root+")", in.Pos())
						}
					}
					if callee != nil {
						if _, own := idOf[callee]; !own {
							if k, d := sourceCallee(callee); k != "" {
								add(k, d, in.Pos())
								if k == "Clock" {
									hasClock = true
								}
							} else if sigHasFloat(callee.Signature) && !analysed(pkgPathOf(callee)) {
								add("Float", "call "+shortFn(callee), in.Pos())
							}
						}
					} else if c.IsInvoke() {
						if sigHasFloat(c.Method.Type().(*types.Signature)) {
							add("Float", "interface call "+c.Method.Name(), in.Pos())
						}
					}
				}
			}
		}
		for _, t := range ths {
			t.Clock = hasClock
			o.Thresholds = append(o.Thresholds, t)
		}
	}

	// ---- roots
	rootSet := map[int]string{}
	addRoot := func(f *ssa.Function, why string) {
		if id, ok := idOf[f]; ok {
			if _, dup := rootSet[id]; !dup {
				rootSet[id] = why
			}
		}
	}
	// (1) every method of every MsgServer implementation
	var msgIfaces []*types.Interface
	var named []*types.Named
	for _, p := range initial {
		sc := p.Types.Scope()
		for _, n := range sc.Names() {
			tn, ok := sc.Lookup(n).(*types.TypeName)
			if !ok || tn.IsAlias() {
				continue
			}
			nt, ok := tn.Type().(*types.Named)
			if !ok || nt.TypeParams().Len() > 0 {
				continue
			}
			if it, ok := nt.Underlying().(*types.Interface); ok {
				if n == "MsgServer" {
					msgIfaces = append(msgIfaces, it)
				}
				continue
			}
			named = append(named, nt)
		}
	}
	for _, nt := range named {
		for _, T := range []types.Type{nt, types.NewPointer(nt)} {
			isMsgSrv := false
			for _, it := range msgIfaces {
				if types.Implements(T, it) {
					isMsgSrv = true
				}
			}
			isHook := strings.Contains(strings.ToLower(nt.Obj().Name()), "hook")
			if !isMsgSrv && !isHook {
				continue
			}
			ms := prog.MethodSets.MethodSet(T)
			for i := 0; i < ms.Len(); i++ {
				if fn := prog.MethodValue(ms.At(i)); fn != nil {
					if isMsgSrv {
						addRoot(fn, "MsgServer method")
					} else {
						addRoot(fn, "hook method")
					}
				}
			}
		}
	}
	// (2) by name
	exact := map[string]string{
		"BeginBlocker": "begin blocker", "EndBlocker": "end blocker", "BeginBlock": "begin blocker", "EndBlock": "end blocker",
		"InitGenesis": "genesis", "ExportGenesis": "genesis", "PrepForZeroHeightGenesis": "genesis", "DefaultGenesis": "genesis (default)",
		"GetSigners": "tx signers", "AnteHandle": "ante decorator",
		"HandlerResponse": "service response callback", "HandlerStateChanged": "service state callback",
		"ModuleServiceRequest": "module service callback",
		"NewKeeper":            "wiring", "ProvideModule": "wiring", "NewAppModule": "wiring", "RegisterServices": "wiring",
		"NewMsgServerImpl": "wiring", "ProvideKeyTable": "wiring", "RegisterInterfaces": "wiring", "RegisterLegacyAminoCodec": "wiring",
	}
	for _, f := range fns {
		if f.Parent() != nil {
			continue
		}
		n := f.Name()
		if why, ok := exact[n]; ok {
			addRoot(f, why)
		} else if strings.HasPrefix(n, "Validate") {
			addRoot(f, "validation")
		} else if strings.HasPrefix(n, "Migrate") {
			addRoot(f, "store migration")
		} else if isInit(f) {
			addRoot(f, "package initialiser")
		}
	}

	// ---- pseudo nodes
	sort.SliceStable(srcs, func(i, j int) bool {
		if srcs[i].Fn != srcs[j].Fn {
			return srcs[i].Fn < srcs[j].Fn
		}
		if srcs[i].Kind != srcs[j].Kind {
			return srcs[i].Kind < srcs[j].Kind
		}
		return srcs[i].Ord < srcs[j].Ord
	})
	for i := range srcs {
		srcs[i].ID = o.NFuncs + i + 1
		o.Names = append(o.Names, fmt.Sprintf("<%s #%d in %s: %s>", srcs[i].Kind, srcs[i].Ord, srcs[i].Fn, srcs[i].Detail))
		o.Pos = append(o.Pos, srcs[i].Pos)
		addEdge(srcs[i].fnID, srcs[i].ID)
	}
	o.Sources = srcs
	sort.Slice(o.Thresholds, func(i, j int) bool {
		if o.Thresholds[i].Fn != o.Thresholds[j].Fn {
			return o.Thresholds[i].Fn < o.Thresholds[j].Fn
		}
		return o.Thresholds[i].Seconds < o.Thresholds[j].Seconds
	})
	for id, why := range rootSet {
		o.Roots[o.Names[id-1]] = why
		o.RootIDs = append(o.RootIDs, id)
	}
	sort.Ints(o.RootIDs)
	nEdges := 0
	for a, m := range edges {
		var l []int
		for b := range m {
			l = append(l, b)
		}
		sort.Ints(l)
		o.Adj[a] = l
		nEdges += len(l)
	}

	// ---- Coq
	var sb strings.Builder
	sb.WriteString("(* GENERATED by `determinism callgraph` (harness/cmd/determinism/cg) from the current source of\n")
	sb.WriteString("   the ten irismod modules: go/packages + go/ssa + CHA.  Do not edit.  Node names, positions and\n")
	sb.WriteString("   root reasons are in build/c11/callgraph.json. *)\n")
	sb.WriteString("From Coq Require Import PArith NArith List String.\nFrom Irismod Require Import Determinism.Graph.\nImport ListNotations.\nOpen Scope positive_scope.\nOpen Scope string_scope.\n\n")
	fmt.Fprintf(&sb, "(* %d packages, %d functions, %d source occurrences, %d edges, %d roots *)\n", len(pkgNames), o.NFuncs, len(srcs), nEdges, len(o.RootIDs))
	fmt.Fprintf(&sb, "Definition n_funcs : positive := %d.\nDefinition n_nodes : positive := %d.\n\n", max(1, o.NFuncs), max(1, len(o.Names)))
	sb.WriteString("Definition adj : list (positive * list positive) := [\n")
	var keys []int
	for a := range o.Adj {
		keys = append(keys, a)
	}
	sort.Ints(keys)
	for i, a := range keys {
		var l []string
		for _, b := range o.Adj[a] {
			l = append(l, fmt.Sprint(b))
		}
		fmt.Fprintf(&sb, " (%d, [%s])", a, strings.Join(l, ";"))
		if i+1 < len(keys) {
			sb.WriteString(";")
		}
		sb.WriteString("\n")
	}
	sb.WriteString("]%positive.\n\n")
	var rl []string
	for _, r := range o.RootIDs {
		rl = append(rl, fmt.Sprint(r))
	}
	fmt.Fprintf(&sb, "Definition roots : list positive := [%s]%%positive.\n\n", strings.Join(rl, ";"))
	sb.WriteString("(* pseudo-node, (function, kind, ordinal of that kind within the function) *)\n")
	sb.WriteString("Definition sources : list (positive * (string * kind * N)) := [\n")
	for i, s := range srcs {
		fmt.Fprintf(&sb, " (%d, (%s, %s, %d%%N))", s.ID, coqString(s.Fn), s.Kind, s.Ord)
		if i+1 < len(srcs) {
			sb.WriteString(";")
		}
		fmt.Fprintf(&sb, " (* %s *)\n", strings.ReplaceAll(strings.ReplaceAll(s.Detail, "(*", "( *"), "*)", "* )"))
	}
	sb.WriteString("].\n\n")
	sb.WriteString("(* duration constants compared in the analysed code (seconds, reads-host-clock-in-same-function) *)\n")
	sb.WriteString("Definition duration_thresholds : list (string * N * bool) := [\n")
	for i, t := range o.Thresholds {
		fmt.Fprintf(&sb, " (%s, %d%%N, %v)", coqString(t.Fn), int64(t.Seconds), t.Clock)
		if i+1 < len(o.Thresholds) {
			sb.WriteString(";")
		}
		sb.WriteString("\n")
	}
	sb.WriteString("].\n")

	if *out != "" {
		if err := os.WriteFile(*out, []byte(sb.String()), 0o644); err != nil {
			fatal("%v", err)
		}
	}
	if *jout != "" {
		bz, _ := json.Marshal(o)
		if err := os.WriteFile(*jout, bz, 0o644); err != nil {
			fatal("%v", err)
		}
	}
	fmt.Fprintf(os.Stderr, "callgraph: %d packages, %d functions, %d sources, %d edges, %d roots, %d thresholds\n",
		len(pkgNames), o.NFuncs, len(srcs), nEdges, len(o.RootIDs), len(o.Thresholds))
}

func fatal(f string, a ...interface{}) {
	fmt.Fprintf(os.Stderr, "verifcg: "+f+"\n", a...)
	os.Exit(1)
}

func coqString(s string) string { return "\"" + strings.ReplaceAll(s, "\"", "\"\"") + "\"" }

func posOf(prog *ssa.Program, p token.Pos) string {
	if !p.IsValid() {
		return ""
	}
	ps := prog.Fset.Position(p)
	fn := ps.Filename
	if i := strings.Index(fn, "/modules/"); i >= 0 {
		fn = fn[i+1:]
	}
	return fmt.Sprintf("%s:%d", fn, ps.Line)
}

func shortQual(p *types.Package) string { return strings.TrimPrefix(p.Path(), prefix) }

func rawName(f *ssa.Function) string {
	return strings.ReplaceAll(f.String(), prefix, "")
}

func shortFn(f *ssa.Function) string { return rawName(f) }

func pkgPathOf(f *ssa.Function) string {
	for g := f; g != nil; g = g.Parent() {
		if g.Pkg != nil {
			return g.Pkg.Pkg.Path()
		}
		if o := g.Origin(); o != nil && o.Pkg != nil {
			return o.Pkg.Pkg.Path()
		}
		if obj := g.Object(); obj != nil && obj.Pkg() != nil {
			return obj.Pkg().Path()
		}
		// wrappers, bound-method closures and thunks: the method they wrap
		if g.Signature != nil && g.Signature.Recv() != nil {
			if p := pkgOfType(g.Signature.Recv().Type()); p != "" {
				return p
			}
		}
		if len(g.FreeVars) == 1 { // $bound: receiver captured
			if p := pkgOfType(g.FreeVars[0].Type()); p != "" {
				return p
			}
		}
		if g.Synthetic != "" && len(g.Params) > 0 { // $thunk: receiver is the first parameter
			if p := pkgOfType(g.Params[0].Type()); p != "" {
				return p
			}
		}
	}
	return ""
}

func pkgOfType(t types.Type) string {
	if p, ok := t.(*types.Pointer); ok {
		t = p.Elem()
	}
	if n, ok := t.(*types.Named); ok && n.Obj().Pkg() != nil {
		return n.Obj().Pkg().Path()
	}
	return ""
}

func pkgOfGlobal(g *ssa.Global) string {
	if g.Pkg != nil {
		return g.Pkg.Pkg.Path()
	}
	return ""
}

func gatewayClosure(prog *ssa.Program, f *ssa.Function) bool {
	for g := f.Parent(); g != nil; g = g.Parent() {
		if strings.HasSuffix(prog.Fset.Position(g.Pos()).Filename, ".pb.gw.go") {
			return true
		}
	}
	return false
}

func isInit(f *ssa.Function) bool {
	return f.Parent() == nil && f.Signature.Recv() == nil && (f.Name() == "init" || strings.HasPrefix(f.Name(), "init#"))
}

// globalRoot returns the package-level variable an address or loaded map/pointer is rooted at.
func globalRoot(v ssa.Value) *ssa.Global {
	for i := 0; i < 8 && v != nil; i++ {
		switch x := v.(type) {
		case *ssa.Global:
			return x
		case *ssa.FieldAddr:
			v = x.X
		case *ssa.IndexAddr:
			v = x.X
		case *ssa.UnOp:
			if x.Op != token.MUL {
				return nil
			}
			v = x.X
		default:
			return nil
		}
	}
	return nil
}

// isMathMutator: the in-place (pointer-sharing) arithmetic of cosmossdk.io/math — LegacyDec.AddMut,
// SubMut, MulMut, MulTruncateMut, QuoMut, QuoTruncateMut, QuoRoundupMut, NegMut, ..., and Set*.  A
// LegacyDec is a struct around a *big.Int: copying the value (parameter passing, reading it out of a
// map entry or a keeper field) shares the big.Int, so a *Mut call rewrites every copy.
func isMathMutator(f *ssa.Function) bool {
	if f.Signature.Recv() == nil {
		return false
	}
	pkg := ""
	if f.Pkg != nil {
		pkg = f.Pkg.Pkg.Path()
	} else if obj := f.Object(); obj != nil && obj.Pkg() != nil {
		pkg = obj.Pkg().Path()
	}
	if pkg != "cosmossdk.io/math" {
		return false
	}
	n := f.Name()
	return strings.HasSuffix(n, "Mut") || n == "Set" || strings.HasPrefix(n, "SetInt")
}

// valueOrigin: is the receiver of an in-place operation a value this function made itself (the result
// of a non-mutating call such as Clone / NewDec / Add, possibly through further *Mut calls and local
// variables), or one it was handed (parameter, field, map entry, package variable, captured variable)?
func valueOrigin(v ssa.Value, depth int) (string, bool) {
	if depth > 12 {
		return "deep", false
	}
	switch x := v.(type) {
	case *ssa.Call:
		if cal := x.Common().StaticCallee(); cal != nil && isMathMutator(cal) && len(x.Common().Args) > 0 {
			return valueOrigin(x.Common().Args[0], depth+1) // a *Mut call returns its receiver
		}
		return "call result", true
	case *ssa.Extract:
		return "call result", true
	case *ssa.Const:
		return "constant", true
	case *ssa.Phi:
		for _, e := range x.Edges {
			if r, ok := valueOrigin(e, depth+1); !ok {
				return r, false
			}
		}
		return "phi", true
	case *ssa.Alloc:
		if x.Referrers() != nil {
			for _, ref := range *x.Referrers() {
				if st, ok := ref.(*ssa.Store); ok && st.Addr == x {
					if r, ok := valueOrigin(st.Val, depth+1); !ok {
						return r, false
					}
				}
			}
		}
		return "local variable", true
	case *ssa.UnOp:
		if x.Op == token.MUL {
			return valueOrigin(x.X, depth+1)
		}
	case *ssa.MakeInterface:
		return valueOrigin(x.X, depth+1)
	case *ssa.ChangeType:
		return valueOrigin(x.X, depth+1)
	case *ssa.Parameter:
		return "parameter " + x.Name(), false
	case *ssa.FreeVar:
		return "captured " + x.Name(), false
	case *ssa.Global:
		return "package variable " + x.Name(), false
	case *ssa.FieldAddr:
		return "field " + fieldName(x.X.Type(), x.Field), false
	case *ssa.Field:
		return "field " + fieldName(x.X.Type(), x.Field), false
	case *ssa.Lookup:
		return "map entry", false
	case *ssa.IndexAddr, *ssa.Index:
		return "element", false
	}
	return fmt.Sprintf("%T", v), false
}

// mapOrigin traces the map operand of a map update back to where the map comes from.  Local = created
// by this function (make / literal, possibly inside a struct or array it allocated itself, or a
// variable of the enclosing function captured by a closure).  Anything else — a field of the
// receiver or of a parameter, a parameter, the result of a call — is memory that outlives the call
// and is not the KV store: process-local state (a keeper-level cache survives a rolled-back
// transaction and is lost at a restart).
func mapOrigin(v ssa.Value, depth int) (string, bool) {
	if depth > 12 {
		return "deep", false
	}
	switch x := v.(type) {
	case *ssa.MakeMap:
		return "make", true
	case *ssa.Alloc:
		return allocOrigin(x, -1, depth)
	case *ssa.FreeVar:
		if depth <= 1 { // the map variable itself is captured (depth 1: through the load)
			return "captured local", true
		}
		return "field of captured " + x.Name(), false
	case *ssa.Phi:
		for _, e := range x.Edges {
			if r, ok := mapOrigin(e, depth+1); !ok {
				return r, false
			}
		}
		return "phi", true
	case *ssa.Lookup:
		return mapOrigin(x.X, depth+1)
	case *ssa.UnOp:
		if x.Op == token.MUL {
			return mapOrigin(x.X, depth+1)
		}
	case *ssa.FieldAddr:
		if a, ok := x.X.(*ssa.Alloc); ok {
			if r, ok := allocOrigin(a, x.Field, depth); !ok {
				return "field " + fieldName(x.X.Type(), x.Field) + " <- " + r, false
			}
			return "field of a local", true
		}
		if r, ok := mapOrigin(x.X, depth+2); ok {
			return r, true
		}
		return "field " + fieldName(x.X.Type(), x.Field), false
	case *ssa.Field:
		if r, ok := mapOrigin(x.X, depth+2); ok {
			return r, true
		}
		return "field " + fieldName(x.X.Type(), x.Field), false
	case *ssa.IndexAddr:
		return mapOrigin(x.X, depth+2)
	case *ssa.Parameter:
		return "parameter " + x.Name(), false
	case *ssa.Call:
		return "result of a call", false
	case *ssa.Extract:
		return "result of a call", false
	case *ssa.TypeAssert:
		return mapOrigin(x.X, depth+1)
	case *ssa.ChangeType:
		return mapOrigin(x.X, depth+1)
	case *ssa.MakeInterface:
		return mapOrigin(x.X, depth+1)
	case *ssa.Const:
		return "nil", true
	}
	return fmt.Sprintf("%T", v), false
}

// allocOrigin: a local variable is local memory only as far as what was stored INTO it is: a value
// receiver or parameter spilled into a local (`t0 = local Keeper; *t0 = k`) still refers to the
// caller's maps.  field >= 0: only stores to that field (and whole-value stores) matter.
func allocOrigin(a *ssa.Alloc, field int, depth int) (string, bool) {
	if a.Referrers() == nil {
		return "local variable", true
	}
	for _, ref := range *a.Referrers() {
		switch r := ref.(type) {
		case *ssa.Store:
			if r.Addr == a {
				if s, ok := mapOrigin(r.Val, depth+1); !ok {
					return s, false
				}
			}
		case *ssa.FieldAddr:
			if (field < 0 || r.Field == field) && r.Referrers() != nil {
				for _, rr := range *r.Referrers() {
					if st, ok := rr.(*ssa.Store); ok && st.Addr == r {
						if s, ok := mapOrigin(st.Val, depth+1); !ok {
							return s, false
						}
					}
				}
			}
		}
	}
	return "local variable", true
}

func fieldName(t types.Type, i int) string {
	if p, ok := t.Underlying().(*types.Pointer); ok {
		t = p.Elem()
	}
	if st, ok := t.Underlying().(*types.Struct); ok && i < st.NumFields() {
		return types.TypeString(t, shortQual) + "." + st.Field(i).Name()
	}
	return "?"
}

// sliceSource walks the operands of v (within the initialiser) looking for a call of a source.
func sliceSource(v ssa.Value, tainted map[*ssa.Global]string, seen map[ssa.Value]bool, depth int) string {
	if v == nil || seen[v] || depth > 40 {
		return ""
	}
	seen[v] = true
	if u, ok := v.(*ssa.UnOp); ok && u.Op == token.MUL {
		if g := globalRoot(u.X); g != nil && tainted[g] != "" {
			return tainted[g]
		}
	}
	if c, ok := v.(*ssa.Call); ok {
		if cal := c.Common().StaticCallee(); cal != nil {
			if k, d := sourceCallee(cal); k != "" && k != "Float" {
				return d
			}
		}
	}
	in, ok := v.(ssa.Instruction)
	if !ok {
		return ""
	}
	var ops []*ssa.Value
	for _, op := range in.Operands(ops) {
		if op != nil && *op != nil {
			if w := sliceSource(*op, tainted, seen, depth+1); w != "" {
				return w
			}
		}
	}
	return ""
}

// sourceCallee classifies an external function as a nondeterminism source.
func sourceCallee(f *ssa.Function) (kind, detail string) {
	pkg := ""
	if f.Pkg != nil {
		pkg = f.Pkg.Pkg.Path()
	} else if obj := f.Object(); obj != nil && obj.Pkg() != nil {
		pkg = obj.Pkg().Path()
	}
	recv := f.Signature.Recv() != nil
	name := f.Name()
	if !recv && (name == "init" || strings.HasPrefix(name, "init#")) {
		return "", "" // initialiser of an imported package: outside irismod
	}
	full := pkg + "." + name
	if recv {
		full = strings.ReplaceAll(f.String(), prefix, "")
	}
	switch pkg {
	case "time":
		if !recv {
			switch name {
			case "Now", "Since", "Until", "After", "AfterFunc", "Tick", "NewTimer", "NewTicker", "Sleep":
				return "Clock", full
			}
		}
	case "math/rand", "math/rand/v2":
		if !recv {
			switch name {
			case "New", "NewSource", "NewZipf", "NewPCG", "NewChaCha8":
				return "", ""
			}
			return "Entropy", full
		}
	case "crypto/rand":
		return "Entropy", full
	case "os", "os/user", "os/exec", "os/signal", "net", "net/http", "runtime", "runtime/debug", "runtime/metrics", "syscall":
		if pkg == "runtime" && name == "KeepAlive" {
			return "", ""
		}
		return "HostEnv", full
	case "reflect":
		if recv && (name == "MapKeys" || name == "MapRange") {
			return "MapRange", full
		}
	case "sync":
		if recv && name == "Range" {
			return "MapRange", full
		}
	case "maps", "golang.org/x/exp/maps":
		switch name {
		case "Keys", "Values", "All":
			return "MapRange", full
		}
	case "github.com/google/uuid":
		if strings.HasPrefix(name, "New") {
			return "Entropy", full
		}
	}
	return "", ""
}

func isFloat(t types.Type) bool {
	b, ok := t.Underlying().(*types.Basic)
	return ok && b.Info()&(types.IsFloat|types.IsComplex) != 0
}

func sigHasFloat(s *types.Signature) bool {
	chk := func(tu *types.Tuple) bool {
		for i := 0; i < tu.Len(); i++ {
			t := tu.At(i).Type()
			if isFloat(t) {
				return true
			}
			if sl, ok := t.Underlying().(*types.Slice); ok && isFloat(sl.Elem()) {
				return true
			}
		}
		return false
	}
	return chk(s.Params()) || chk(s.Results())
}

// durationConst: a constant of type time.Duration between one second and two days (absolute value).
func durationConst(c *ssa.Const) (float64, bool) {
	if c.Value == nil || c.Value.Kind() != constant.Int {
		return 0, false
	}
	n, ok := c.Type().(*types.Named)
	if !ok || n.Obj().Pkg() == nil || n.Obj().Pkg().Path() != "time" || n.Obj().Name() != "Duration" {
		return 0, false
	}
	ns, exact := constant.Int64Val(c.Value)
	if !exact {
		return 0, false
	}
	if ns < 0 {
		ns = -ns
	}
	if ns < 1e9 || ns > 48*3600*1e9 {
		return 0, false
	}
	return float64(ns) / 1e9, true
}

// durationCompare recognises `d <cmp> const` with a time.Duration constant.
func durationCompare(v *ssa.BinOp) (float64, bool) {
	switch v.Op {
	case token.GTR, token.LSS, token.GEQ, token.LEQ:
	default:
		return 0, false
	}
	for _, x := range []ssa.Value{v.X, v.Y} {
		c, ok := x.(*ssa.Const)
		if !ok || c.Value == nil || c.Value.Kind() != constant.Int {
			continue
		}
		if n, ok := c.Type().(*types.Named); ok && n.Obj().Pkg() != nil && n.Obj().Pkg().Path() == "time" && n.Obj().Name() == "Duration" {
			ns, _ := constant.Int64Val(c.Value)
			if ns > 0 {
				return float64(ns) / 1e9, true
			}
		}
	}
	return 0, false
}

// irisMethods lists the irismod methods of the dynamic type put into an interface.
func irisMethods(prog *ssa.Program, t types.Type, idOf map[*ssa.Function]int) []int {
	if _, isIface := t.Underlying().(*types.Interface); isIface {
		return nil
	}
	if tp, ok := t.(*types.TypeParam); ok {
		_ = tp
		return nil
	}
	var out []int
	ms := prog.MethodSets.MethodSet(t)
	for i := 0; i < ms.Len(); i++ {
		fn := prog.MethodValue(ms.At(i))
		if fn == nil {
			continue
		}
		if id, ok := idOf[fn]; ok {
			out = append(out, id)
		}
	}
	return out
}
