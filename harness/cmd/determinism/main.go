// determinism: driver of property C11 (all modules: state transitions are deterministic
// functions of chain data).
//
//	determinism callgraph -out FILE      translator: regenerates coq/Gen/CallGraph.v from the Go source
//	                                     (builds and runs the nested module ./cg, which needs x/tools)
//	determinism gen|replay ...           the standard driver interface (lib.Main), streams:
//	    static   one case per function that holds reachable nondeterminism sources (decided in Coq)
//	    fresh    replica B = a second OS process executing the same history
//	    repeat   replica B = second execution in the same process
//	    export   replica B = 20 further ExportGenesis calls on the same final state
//	    clock    replica B = same history, executed a few seconds later, the pair straddling the
//	             5-minute expiry of the oracle price feed (block times anchored to the host clock)
//	    restart  replica B = app object rebuilt from the dumped stores at every block boundary
//	    abci     real ABCI (InitChain / FinalizeBlock with signed txs / Commit): replica A in memory,
//	             replica B on disk, closed and re-opened from disk at the block boundaries (abci.go)
//	determinism run1                     (internal) executes the history given on stdin, prints observations
//	determinism show -seed N -stream S   (debug) prints every step's outcome with error text
package main

import (
	"encoding/json"
	"flag"
	"fmt"
	"io"
	"os"
	"os/exec"
	"path/filepath"
	"runtime"
	"sort"
	"strings"
	"time"

	"verifharness/lib"
)

// ---------------------------------------------------------------------------------------------
// history vocabulary

// Step is either a source occurrence (static stream) or an operation (replica streams).
type Step struct {
	// static
	Fn  string `json:"fn,omitempty"`
	SK  string `json:"sk,omitempty"`
	Ord int    `json:"ord,omitempty"`
	// replica
	Op string `json:"op,omitempty"`
	A  int    `json:"a,omitempty"`
	B  int    `json:"b,omitempty"`
	C  int    `json:"c,omitempty"`
	N  uint64 `json:"n,omitempty"`
	T  int64  `json:"t,omitempty"` // seconds relative to the time of the block the step executes in (htlc.htlt)
}

type History struct {
	Mode  string // "static" or the replica dimension
	Steps []Step
	// Dt is the block interval in seconds; BigDtAt >= 0 makes the block boundary with that ordinal
	// advance time by 400 s (so that block-time age of a feed value crosses 5 minutes too).
	Dt      int
	BigDtAt int
	// Family "htlt" (clock stream): the history probes time-window edges with inputs placed relative to
	// the HOST clock at the start of replica A; the pair is scheduled around them (execReplicas).
	Family string `json:",omitempty"`
}

// ---------------------------------------------------------------------------------------------
// paths

func verifRoot() string {
	if v := os.Getenv("VERIF_ROOT"); v != "" {
		return v
	}
	if exe, err := os.Executable(); err == nil {
		d := filepath.Dir(filepath.Dir(filepath.Dir(exe))) // <root>/build/bin/determinism
		if _, err := os.Stat(filepath.Join(d, "harness", "cmd", "determinism", "cg", "go.mod")); err == nil {
			return d
		}
	}
	_, file, _, _ := runtime.Caller(0) // <root>/harness/cmd/determinism/main.go
	return filepath.Dir(filepath.Dir(filepath.Dir(filepath.Dir(file))))
}

func graphJSON() string { return filepath.Join(verifRoot(), "build", "c11", "callgraph.json") }

// ---------------------------------------------------------------------------------------------
// translator sub-command

func callgraphCmd(args []string) {
	fs := flag.NewFlagSet("callgraph", flag.ExitOnError)
	out := fs.String("out", "", "Coq file to write")
	_ = fs.Parse(args)
	root := verifRoot()
	cgDir := filepath.Join(root, "harness", "cmd", "determinism", "cg")
	bin := filepath.Join(root, "build", "bin", "verifcg")
	_ = os.MkdirAll(filepath.Dir(bin), 0o755)
	_ = os.MkdirAll(filepath.Dir(graphJSON()), 0o755)
	env := append(os.Environ(), "GOFLAGS=-mod=mod", "GOPROXY=off", "GOSUMDB=off", "GOTOOLCHAIN=local")
	b := exec.Command("go", "build", "-o", bin, ".")
	b.Dir, b.Env, b.Stderr, b.Stdout = cgDir, env, os.Stderr, os.Stderr
	if err := b.Run(); err != nil {
		fmt.Fprintln(os.Stderr, "building the call-graph translator failed:", err)
		os.Exit(1)
	}
	r := exec.Command(bin, "-dir", filepath.Join(root, "harness"), "-out", *out, "-json", graphJSON())
	r.Env, r.Stderr, r.Stdout = env, os.Stderr, os.Stderr
	if err := r.Run(); err != nil {
		fmt.Fprintln(os.Stderr, "call-graph translator failed:", err)
		os.Exit(1)
	}
}

// ---------------------------------------------------------------------------------------------
// static stream

type cgSource struct {
	Fn     string `json:"fn"`
	Kind   string `json:"kind"`
	Ord    int    `json:"ord"`
	Detail string `json:"detail"`
	Pos    string `json:"pos"`
	ID     int    `json:"id"`
}
type cgThreshold struct {
	Fn      string  `json:"fn"`
	Seconds float64 `json:"seconds"`
	Clock   bool    `json:"clock"`
}
type cgOut struct {
	Names      []string          `json:"names"`
	Pos        []string          `json:"pos"`
	NFuncs     int               `json:"n_funcs"`
	Roots      map[string]string `json:"roots"`
	RootIDs    []int             `json:"root_ids"`
	Adj        map[string][]int  `json:"adj"`
	Sources    []cgSource        `json:"sources"`
	Thresholds []cgThreshold     `json:"thresholds"`
}

var cgCache *cgOut
var cgParent map[int]int

func loadGraph() *cgOut {
	if cgCache != nil {
		return cgCache
	}
	bz, err := os.ReadFile(graphJSON())
	if err != nil {
		panic("call graph side file missing (run `determinism callgraph` first): " + err.Error())
	}
	var o cgOut
	if err := json.Unmarshal(bz, &o); err != nil {
		panic(err)
	}
	// breadth-first search from the roots with parent pointers (for the report only; Coq decides)
	par := map[int]int{}
	queue := append([]int{}, o.RootIDs...)
	for _, r := range o.RootIDs {
		par[r] = 0
	}
	for len(queue) > 0 {
		n := queue[0]
		queue = queue[1:]
		for _, m := range o.Adj[fmt.Sprint(n)] {
			if _, ok := par[m]; !ok {
				par[m] = n
				queue = append(queue, m)
			}
		}
	}
	cgCache, cgParent = &o, par
	return cgCache
}

func pathTo(o *cgOut, id int) string {
	var p []string
	for n := id; n != 0; n = cgParent[n] {
		p = append(p, o.Names[n-1])
		if len(p) > 40 {
			break
		}
	}
	for i, j := 0, len(p)-1; i < j; i, j = i+1, j-1 {
		p[i], p[j] = p[j], p[i]
	}
	why := ""
	if len(p) > 0 {
		why = " [root: " + o.Roots[p[0]] + "]"
	}
	return strings.Join(p, " -> ") + why
}

// staticFunctions groups the reachable source occurrences by function.
func staticFunctions() [][]cgSource {
	o := loadGraph()
	by := map[string][]cgSource{}
	for _, s := range o.Sources {
		if _, ok := cgParent[s.ID]; ok {
			by[s.Fn] = append(by[s.Fn], s)
		}
	}
	var fns []string
	for f := range by {
		fns = append(fns, f)
	}
	sort.Strings(fns)
	var out [][]cgSource
	for _, f := range fns {
		out = append(out, by[f])
	}
	return out
}

const staticCases = 96

func genStatic(i int) History {
	groups := staticFunctions()
	h := History{Mode: "static"}
	take := func(g []cgSource) {
		for _, s := range g {
			h.Steps = append(h.Steps, Step{Fn: s.Fn, SK: s.Kind, Ord: s.Ord})
		}
	}
	if i < len(groups) {
		take(groups[i])
	}
	if i == staticCases-1 { // overflow bucket
		for j := staticCases; j < len(groups); j++ {
			take(groups[j])
		}
	}
	return h
}

func execStatic(h History) lib.Case {
	o := loadGraph()
	c := lib.Case{Stats: map[string]int{}}
	idx := map[string]cgSource{}
	for _, s := range o.Sources {
		idx[fmt.Sprintf("%s|%s|%d", s.Fn, s.Kind, s.Ord)] = s
	}
	var terms []string
	for _, st := range h.Steps {
		terms = append(terms, lib.Pair(coqStr(st.Fn), st.SK, fmt.Sprintf("%d%%N", st.Ord)))
		s, ok := idx[fmt.Sprintf("%s|%s|%d", st.Fn, st.SK, st.Ord)]
		if !ok {
			c.Steps = append(c.Steps, fmt.Sprintf("%s #%d in %s: no longer present in the code", st.SK, st.Ord, st.Fn))
			continue
		}
		lib.Stat(c.Stats, "static:"+st.SK)
		if _, reach := cgParent[s.ID]; reach {
			c.Steps = append(c.Steps, fmt.Sprintf("%s #%d in %s (%s) at %s; reached via %s", s.Kind, s.Ord, s.Fn, s.Detail, s.Pos, pathTo(o, s.ID)))
		} else {
			c.Steps = append(c.Steps, fmt.Sprintf("%s #%d in %s (%s) at %s; not reachable from a root", s.Kind, s.Ord, s.Fn, s.Detail, s.Pos))
		}
	}
	c.Coq = lib.L(terms...)
	c.NonTrivial = len(terms) > 0
	return c
}

func coqStr(s string) string { return "\"" + strings.ReplaceAll(s, "\"", "\"\"") + "\"%string" }

// ---------------------------------------------------------------------------------------------
// replica streams

var dimCode = map[string]int{"fresh": 11, "repeat": 12, "export": 13, "clock": 14, "restart": 15, "abci": 16}

func gen(r *lib.Rand, tier, stream string, i int) History {
	if stream == "static" {
		return genStatic(i)
	}
	return genHistoryIdx(r, tier, stream, i)
}

// genHistoryIdx: every third case of a replica stream is a history of the service-stress family.
func genHistoryIdx(r *lib.Rand, tier, stream string, i int) History {
	if stream == "clock" && i%3 == 1 {
		return genClockWindows(r, tier)
	}
	if i%3 == 2 {
		return genServiceStress(r, tier, stream)
	}
	return genHistory(r, tier, stream)
}

func execCase(h History) lib.Case {
	if h.Mode == "static" {
		return execStatic(h)
	}
	return execReplicas(h)
}

// runInSubprocess executes the history in a second OS process (another "node").
func runInSubprocess(h History, start time.Time) (*replicaOut, error) {
	exe, err := os.Executable()
	if err != nil {
		return nil, err
	}
	in, _ := json.Marshal(struct {
		H     History
		Start int64
	}{h, start.Unix()})
	cmd := exec.Command(exe, "run1")
	cmd.Stdin = strings.NewReader(string(in))
	cmd.Stderr = os.Stderr
	bz, err := cmd.Output()
	if err != nil {
		return nil, err
	}
	var out replicaOut
	if err := json.Unmarshal(bz, &out); err != nil {
		return nil, err
	}
	return &out, nil
}

func run1Cmd() {
	bz, _ := io.ReadAll(os.Stdin)
	var in struct {
		H     History
		Start int64
	}
	if err := json.Unmarshal(bz, &in); err != nil {
		panic(err)
	}
	out := runReplica(in.H, replicaOpts{Start: time.Unix(in.Start, 0).UTC(), Exports: 1})
	_ = json.NewEncoder(os.Stdout).Encode(out)
}

var defaultStart = time.Unix(1700000000, 0).UTC()

func execReplicas(h History) lib.Case {
	c := lib.Case{Stats: map[string]int{}}
	var a, b *replicaOut
	start := defaultStart
	switch h.Mode {
	case "fresh":
		a = runReplica(h, replicaOpts{Start: start, Exports: 1})
		var err error
		b, err = runInSubprocess(h, start)
		if err != nil {
			c.Notes = append(c.Notes, "second process failed: "+err.Error())
			b = &replicaOut{}
		}
	case "repeat":
		a = runReplica(h, replicaOpts{Start: start, Exports: 1})
		b = runReplica(h, replicaOpts{Start: start, Exports: 1})
	case "export":
		a = runReplica(h, replicaOpts{Start: start, Exports: 21})
		b = a.Reexport
	case "abci":
		var genesis []byte
		a, genesis = runABCI(h, false, start, nil)
		b, _ = runABCI(h, true, start, genesis)
	case "restart":
		a = runReplica(h, replicaOpts{Start: start, Exports: 1})
		b = runReplica(h, replicaOpts{Start: start, Exports: 1, Restart: true})
	case "clock":
		if h.Family == "htlt" {
			// Window-edge probes: the history's time inputs are T = -d+4 and T = +d+4 seconds relative to
			// the first block's time s, for every duration constant d the translator found.  Block times
			// are identical in both replicas (s = host now, truncated).  Replica A runs at once (host
			// clock < s+4), replica B after s+6.2: code that measures the window from the HOST clock
			// instead of the block time decides differently in the two replicas; code that uses the block
			// time cannot.
			s := time.Now().Truncate(time.Second)
			a = runReplica(h, replicaOpts{Start: s, Exports: 1})
			if a.FirstBlockDone.IsZero() || a.FirstBlockDone.After(s.Add(3900*time.Millisecond)) {
				lib.Stat(c.Stats, "clock:window-missed-margin") // too slow: still a valid agreement case
			} else {
				lib.Stat(c.Stats, "clock:window-straddled")
			}
			if w := time.Until(s.Add(6200 * time.Millisecond)); w > 0 {
				time.Sleep(w)
			}
			b = runReplica(h, replicaOpts{Start: s, Exports: 1})
			c.Steps = append(c.Steps, fmt.Sprintf("replica A executed the first block %.1fs after the block time, replica B %.1fs after it",
				a.FirstBlockDone.Sub(s).Seconds(), b.FirstBlockDone.Sub(s).Seconds()))
			break
		}
		// dry run: where (relative to the start time) is the newest value of the price feed stamped?
		dry := runReplica(h, replicaOpts{Start: start, Exports: 1})
		if dry.FeedTS == 0 {
			a, b = dry, runReplica(h, replicaOpts{Start: start, Exports: 1})
			lib.Stat(c.Stats, "clock:no-feed-value")
			break
		}
		off := time.Duration(dry.FeedTS-start.Unix()) * time.Second
		thr := clockThreshold()
		const margin = 2500 * time.Millisecond
		t0 := time.Now()
		// feed value stamped at t0 - thr + margin: replica A (now) sees it younger than thr,
		// replica B (after t0 + margin) sees it older
		s := t0.Add(-thr + margin).Add(-off).Truncate(time.Second)
		a = runReplica(h, replicaOpts{Start: s, Exports: 1})
		ageA := time.Since(time.Unix(a.FeedTS, 0))
		if ageA >= thr {
			c.Notes = nil // too slow for the margin: the pair does not straddle; still a valid agreement case
			lib.Stat(c.Stats, "clock:missed-margin")
		}
		if w := time.Until(time.Unix(a.FeedTS, 0).Add(thr + 1200*time.Millisecond)); w > 0 {
			time.Sleep(w)
		}
		b = runReplica(h, replicaOpts{Start: s, Exports: 1})
		ageB := time.Since(time.Unix(b.FeedTS, 0))
		if ageA < thr && ageB > thr {
			lib.Stat(c.Stats, "clock:straddled")
		}
		c.Steps = append(c.Steps, fmt.Sprintf("host-clock age of the newest price-feed value when replica A finished: %.1fs, when replica B finished: %.1fs (threshold %.0fs)",
			ageA.Seconds(), ageB.Seconds(), thr.Seconds()))
	default:
		panic("unknown mode " + h.Mode)
	}
	// intern the observations: equal strings <-> equal numbers
	in := lib.NewInterner()
	enc := func(bl [][]string) string {
		var bs []string
		for _, blk := range bl {
			var xs []string
			for _, s := range blk {
				xs = append(xs, lib.Z(int64(in.Id(s))))
			}
			bs = append(bs, lib.L(xs...))
		}
		return lib.L(bs...)
	}
	c.Coq = lib.App("mkR", lib.Z(int64(dimCode[h.Mode])), enc(a.Blocks), enc(b.Blocks))
	for k, v := range a.Stats {
		c.Stats[k] += v
	}
	c.Steps = append(c.Steps, a.Steps...)
	// readable difference (the decision is Coq's)
	for i := 0; i < len(a.Blocks) && i < len(b.Blocks); i++ {
		for j := 0; j < len(a.Blocks[i]) && j < len(b.Blocks[i]); j++ {
			if a.Blocks[i][j] != b.Blocks[i][j] {
				c.Steps = append(c.Steps, fmt.Sprintf("DIFF at observation block %d: %s  |A| %s  |B| %s", i, a.Labels[i][j], short(a.Blocks[i][j]), short(b.Blocks[i][j])))
			}
		}
		if len(a.Blocks[i]) != len(b.Blocks[i]) {
			c.Steps = append(c.Steps, fmt.Sprintf("DIFF at observation block %d: %d vs %d observations", i, len(a.Blocks[i]), len(b.Blocks[i])))
		}
	}
	if len(a.Blocks) != len(b.Blocks) {
		c.Steps = append(c.Steps, fmt.Sprintf("DIFF: %d vs %d observation blocks", len(a.Blocks), len(b.Blocks)))
	}
	c.Stats["modules-touched"] += len(a.Touched)
	c.NonTrivial = len(a.Touched) >= 5 && a.EndBlockTransitions >= 1
	if c.NonTrivial {
		lib.Stat(c.Stats, "nontrivial:"+h.Mode)
	}
	return c
}

func short(s string) string {
	if len(s) > 96 {
		return s[:96] + "..."
	}
	return s
}

// clockThreshold: the duration thresholds the translator found in clock-reading functions (today:
// 300 s in the oracle price service); 300 s is kept when the code no longer reads the clock, so a
// re-introduction is caught.
func clockThreshold() time.Duration {
	thr := 300 * time.Second
	if bz, err := os.ReadFile(graphJSON()); err == nil {
		var o struct {
			Thresholds []cgThreshold `json:"thresholds"`
		}
		if json.Unmarshal(bz, &o) == nil {
			for _, t := range o.Thresholds {
				if t.Clock && t.Seconds >= 1 && t.Seconds <= 3600 {
					thr = time.Duration(t.Seconds * float64(time.Second))
				}
			}
		}
	}
	return thr
}

// clockDurations: every duration constant (seconds) the translator found in the analysed code, plus
// the two of the HTLT admission window (kept when the code no longer mentions them), at most eight.
func clockDurations() []int64 {
	set := map[int64]bool{900: true, 1800: true}
	if bz, err := os.ReadFile(graphJSON()); err == nil {
		var o struct {
			Thresholds []cgThreshold `json:"thresholds"`
		}
		if json.Unmarshal(bz, &o) == nil {
			for _, t := range o.Thresholds {
				if t.Seconds >= 30 && t.Seconds <= 6*3600 {
					set[int64(t.Seconds)] = true
				}
			}
		}
	}
	var ds []int64
	for d := range set {
		ds = append(ds, d)
	}
	sort.Slice(ds, func(i, j int) bool { return ds[i] < ds[j] })
	if len(ds) > 8 {
		ds = ds[:8]
	}
	return ds
}

func showCmd(args []string) {
	fs := flag.NewFlagSet("show", flag.ExitOnError)
	seed := fs.Uint64("seed", 1, "")
	stream := fs.String("stream", "repeat", "")
	idx := fs.Int("idx", 0, "")
	_ = fs.Parse(args)
	h := genHistoryIdx(lib.NewRand(*seed).Sub(uint64(*idx)), "quick", *stream, *idx)
	debugErrors = true
	var out *replicaOut
	if *stream == "abci" {
		out, _ = runABCI(h, true, defaultStart, nil)
	} else {
		out = runReplica(h, replicaOpts{Start: defaultStart, Exports: 1})
	}
	for _, s := range out.Steps {
		fmt.Println(s)
	}
	fmt.Println("touched:", out.Touched, "end-block transitions:", out.EndBlockTransitions, "stats:", out.Stats)
	for last := len(out.Blocks) - 2; last < len(out.Blocks); last++ {
		for j, x := range out.Blocks[last] {
			fmt.Printf("%s: %s\n", out.Labels[last][j], short(x))
		}
	}
}

func main() {
	if len(os.Args) >= 2 {
		switch os.Args[1] {
		case "callgraph":
			callgraphCmd(os.Args[2:])
			return
		case "run1":
			run1Cmd()
			return
		case "show":
			showCmd(os.Args[2:])
			return
		}
	}
	lib.Main(lib.Driver[History]{Gen: gen, Exec: execCase})
}
