// random: driver for property C18 (random module: each request is fulfilled once, on time,
// reproducibly, within [0,1)).
//
// A history is a list of operations in the model's vocabulary (coq/Random/Model.v): random
// requests (plain / oracle-seeded), block boundaries with a freely chosen header (time, app
// hash), provider responses to the service requests the oracle path creates, and transfers
// that empty a consumer's account.  The service module is the environment of the random
// keeper: what it returned to / called back into the random keeper is recorded (the callbacks
// through the add-only hook modules/service/keeper/export_verif_random.go) and becomes the
// input of the corresponding model step.
package main

import (
	"crypto/sha256"
	"encoding/binary"
	"encoding/hex"
	"fmt"
	"math/big"
	"strings"
	"time"

	sdkmath "cosmossdk.io/math"
	abci "github.com/cometbft/cometbft/abci/types"
	tmbytes "github.com/cometbft/cometbft/libs/bytes"
	tmproto "github.com/cometbft/cometbft/proto/tendermint/types"
	"github.com/cosmos/cosmos-sdk/codec"
	sdk "github.com/cosmos/cosmos-sdk/types"
	banktypes "github.com/cosmos/cosmos-sdk/x/bank/types"
	"github.com/tidwall/gjson"

	randommod "mods.irisnet.org/modules/random"
	randomkeeper "mods.irisnet.org/modules/random/keeper"
	randomtypes "mods.irisnet.org/modules/random/types"
	servicekeeper "mods.irisnet.org/modules/service/keeper"
	servicetypes "mods.irisnet.org/modules/service/types"
	"mods.irisnet.org/simapp"

	"verifharness/lib"
)

// ---- history vocabulary ----

type Step struct {
	Op string `json:"op"` // req | block | respond | drain | gload | reimport
	// gload: a pending request loaded through the module's InitGenesis (C, N as for req)
	Fake int `json:"fake,omitempty"` // 0: oracle, unknown 40-byte context id; 1: oracle, unknown short context id; 2: plain request
	// req
	C      int    `json:"c,omitempty"`      // consumer (actor index)
	N      uint64 `json:"n,omitempty"`      // block interval
	Oracle bool   `json:"oracle,omitempty"` // oracle-seeded
	Cap    int64  `json:"cap,omitempty"`    // service fee cap in stake
	Bad    int    `json:"bad,omitempty"`    // 1: consumer is not an address, 2: invalid fee cap coins
	// block
	Dt    int64 `json:"dt,omitempty"`    // seconds added to the block time
	Nanos int64 `json:"nanos,omitempty"` // sub-second part of the block time
	App   int   `json:"app,omitempty"`   // which app hash (see appHash)
	// respond
	K    int `json:"k,omitempty"`    // which open service request
	Kind int `json:"kind,omitempty"` // 0 valid seed, 1 short seed, 2 non-hex seed, 3 no seed field, 4 error result, 5 wrong provider
	Seed int `json:"seed,omitempty"` // which seed
}

type History struct {
	Start     int64  `json:"start"`     // unix time of block 1
	Timeout   int64  `json:"timeout"`   // service MaxRequestTimeout
	Providers int    `json:"providers"` // providers bound to the "random" service at genesis (0..2)
	QoS       uint64 `json:"qos"`
	Steps     []Step
}

const (
	nConsumers = 5
	nActors    = 7 // consumers 0..4, providers 5..6
	price      = 50
)

func appHash(i int) []byte {
	switch i {
	case 0:
		return nil
	case 1:
		return []byte{0}
	case 2:
		return []byte{0xff, 0x00, 0x01}
	}
	h := sha256.Sum256([]byte(fmt.Sprintf("apphash-%d", i)))
	return h[:]
}

func seedBytes(i int) []byte {
	switch i {
	case 0:
		return make([]byte, 32)
	case 1:
		b := make([]byte, 32)
		for j := range b {
			b[j] = 0xff
		}
		return b
	}
	h := sha256.Sum256([]byte(fmt.Sprintf("seed-%d", i)))
	return h[:]
}

// ---- generator ----

func gen(r *lib.Rand, tier, stream string, i int) History {
	h := History{Start: 1700000000, Timeout: 2 + int64(r.Intn(3)), Providers: 1, QoS: 1}
	switch r.Weighted(10, 3, 2, 2, 1) {
	case 1:
		h.Start = 1 + int64(r.Intn(50)) // tiny timestamps: the divisions barely shrink the digests
	case 2:
		h.Start = int64(r.Big(37).Int64()) + 1 // up to ~year 6300: protobuf timestamps end with year 9999
	case 3:
		h.Start = 1 << 33
	case 4:
		h.Start = 1
	}
	switch r.Weighted(8, 3, 1) {
	case 1:
		h.Providers = 2
	case 2:
		h.Providers = 0
	}
	if r.Chance(1, 8) {
		h.QoS = uint64(h.Timeout)
	}
	zeroTime := stream == "zerotime"
	if zeroTime {
		// the block time crosses 0 somewhere in the history (division by zero in the PRNG)
		h.Start = -int64(r.Intn(6))
	}
	n := 10 + r.Intn(30)
	if tier == "thorough" {
		n = 10 + r.Intn(90)
	}
	apps := 3 + r.Intn(5)
	lastApp, lastNanos := 0, int64(0)
	usedInBlock := map[int]bool{}
	cur := h.Start
	const maxSecs = int64(1) << 37 // keeps every block time a valid protobuf timestamp
	oracleShare := r.Intn(5) // 0: no oracle requests in this history
	genesis := stream == "genesis"
	restart := genesis || r.Chance(1, 4) // the history contains export -> import restarts of the module
	wGload, wReimport := 0, 0
	if genesis {
		wGload = 2
		// the history starts from a genesis with pending requests: oracle requests whose service context
		// the service module does not know (they cannot be started when they fall due), plain ones
		for k, m := 0, 1+r.Intn(4); k < m; k++ {
			h.Steps = append(h.Steps, Step{Op: "gload", C: (k + r.Intn(2)) % nConsumers, N: uint64(r.Intn(6)), Fake: r.Weighted(5, 2, 2)})
		}
	}
	if restart {
		wReimport = 1
	}
	pattern := -1
	if restart && r.Chance(2, 3) {
		pattern = r.Intn(n)
	}
	for k := 0; k < n; k++ {
		if k == pattern {
			// at the restart two requesters, and one requester from two blocks, are pending for one height
			a, b := r.Intn(nConsumers), r.Intn(nConsumers-1)
			if b >= a {
				b++
			}
			d := uint64(2 + r.Intn(3))
			h.Steps = append(h.Steps, Step{Op: "req", C: a, N: d}, Step{Op: "req", C: b, N: d, Oracle: r.Chance(1, 3), Cap: price},
				Step{Op: "block", Dt: int64(r.Intn(3)), App: lastApp, Nanos: 1}, Step{Op: "req", C: a, N: d - 1}, Step{Op: "reimport"})
			usedInBlock = map[int]bool{a: true}
		}
		switch r.Weighted(10, 6, 4, 1, wGload, wReimport) {
		case 0: // request
			s := Step{Op: "req", C: r.Intn(nConsumers)}
			// mostly a requester that has not asked in this block yet (the id scheme's limit); a second
			// request of the same requester in one block now and then
			if usedInBlock[s.C] && !r.Chance(1, 10) {
				for k := 0; k < nConsumers; k++ {
					if c := (s.C + k) % nConsumers; !usedInBlock[c] {
						s.C = c
						break
					}
				}
			}
			usedInBlock[s.C] = true
			switch r.Weighted(14, 3, 1, 1, 1) {
			case 0:
				s.N = uint64(r.Intn(4))
			case 1:
				s.N = uint64(4 + r.Intn(8))
			case 2:
				s.N = uint64(1)<<62 - uint64(r.Intn(3)) // far future, height + interval still below 2^63
			case 3:
				s.N = uint64(1)<<40 + uint64(r.Intn(4))
			case 4:
				// around the int64 boundary and the uint64 wrap: rejected since "fix: random: reject a
				// block interval whose destination height wraps below the current height" (C13's finding)
				switch r.Intn(4) {
				case 0:
					s.N = uint64(1)<<63 - uint64(r.Intn(40)) // height + interval crosses 2^63 for some heights
				case 1:
					s.N = ^uint64(0) - uint64(r.Intn(3))
				case 2:
					s.N = uint64(1)<<63 + uint64(r.Intn(3))
				case 3:
					s.N = uint64(r.Big(64).Uint64())
				}
			}
			if r.Intn(5) < oracleShare {
				s.Oracle = true
				switch r.Weighted(10, 2, 1, 1) {
				case 0:
					s.Cap = price + int64(r.Intn(3))*25
				case 1:
					s.Cap = price - 1 - int64(r.Intn(10)) // below the price: no provider qualifies, the batch times out
				case 2:
					s.Cap = 0
				case 3:
					s.Cap = 1 << 50 // more than the consumer owns
				}
			} else if r.Chance(1, 6) {
				s.Cap = int64(r.Intn(100))
			}
			switch r.Weighted(30, 1, 1) {
			case 1:
				s.Bad = 1
			case 2:
				s.Bad = 2
			}
			h.Steps = append(h.Steps, s)
		case 1: // block
			s := Step{Op: "block"}
			usedInBlock = map[int]bool{}
			switch r.Weighted(6, 3, 1) {
			case 0:
				s.Dt = 1 + int64(r.Intn(7))
			case 1:
				s.Dt = 0 // same second as the previous block
			case 2:
				s.Dt = int64(r.Big(36).Int64())
			}
			if zeroTime {
				s.Dt = int64(r.Intn(2))
			}
			if cur+s.Dt > maxSecs {
				s.Dt = int64(r.Intn(3))
			}
			cur += s.Dt
			switch r.Weighted(5, 3) {
			case 0:
				s.App = r.Intn(apps)
			case 1:
				s.App = lastApp // the app hash does not change
			}
			lastApp = s.App
			if s.Dt == 0 {
				s.Nanos = lastNanos
			} else if r.Chance(1, 2) {
				s.Nanos = int64(r.Intn(1000000000))
			}
			if zeroTime && s.Nanos == 0 {
				// RequestService picks the provider with a PRNG seeded by Time.UnixNano(): it divides by
				// zero at the one instant 1970-01-01T00:00:00.000000000Z; that choice is the service
				// environment of the model (not modelled), so the stream stays off that instant
				s.Nanos = 1 + int64(r.Intn(999999999))
			}
			lastNanos = s.Nanos
			h.Steps = append(h.Steps, s)
		case 2: // respond
			s := Step{Op: "respond", K: r.Intn(4), Seed: r.Intn(4)}
			s.Kind = r.Weighted(12, 1, 1, 1, 2, 1)
			h.Steps = append(h.Steps, s)
		case 3:
			h.Steps = append(h.Steps, Step{Op: "drain", C: r.Intn(nConsumers)})
		case 4:
			c := r.Intn(nConsumers)
			usedInBlock[c] = true
			h.Steps = append(h.Steps, Step{Op: "gload", C: c, N: uint64(r.Intn(6)), Fake: r.Weighted(5, 2, 2)})
		case 5:
			h.Steps = append(h.Steps, Step{Op: "reimport"})
		}
	}
	// let everything fall due: a tail of blocks
	tail := 2 + r.Intn(6)
	for k := 0; k < tail; k++ {
		s := Step{Op: "block", Dt: int64(r.Intn(3)), App: r.Intn(apps)}
		if zeroTime {
			s.Dt = int64(r.Intn(2))
			s.Nanos = 1 + int64(r.Intn(999999999))
		}
		h.Steps = append(h.Steps, s)
		if r.Chance(1, 3) {
			h.Steps = append(h.Steps, Step{Op: "respond", K: r.Intn(4), Seed: r.Intn(4), Kind: r.Weighted(6, 1, 1)})
		}
	}
	return h
}

// ---- execution ----

type issued struct {
	h     int64
	c     int
	idHex string
}

type svcCtx struct {
	iid      int
	bz       []byte
	consumer int
	started  bool
	resolved bool
	expiry   int64
	reqID    tmbytes.HexBytes // service request id, once the batch has been initiated
	provider string
}

type runner struct {
	e      *lib.Env
	rk     randomkeeper.Keeper
	sk     servicekeeper.Keeper
	c      lib.Case
	h      History
	txs    *lib.Interner
	ctxIDs *lib.Interner
	apps   *lib.Interner
	seeds  *lib.Interner
	table  map[string]string // hin term -> digest
	tblOrd []string
	issued []issued
	ridOf  map[string][2]int64 // real request id (hex) -> pre-image
	ctxs   []*svcCtx
	ctxBy  map[int]*svcCtx
	addr   map[string]int
	rec    []string // callbacks recorded since the last reset
	steps  []string
	cdc    codec.Codec
	// compression of the observations (coq/Random/Check.v, compress_obs): what was printed last
	prevQ, prevOrc string
	prevRead       map[string]string // rid term -> read term
	prevOrder      []string          // rid terms in the order of the reads list
	due            map[int64][]int   // due height -> requesters of accepted plain requests (for the hash table)
	lastN  int // results present at the previous observation
	curApp []byte
}

func (r *runner) tbl(k string, digest []byte) {
	if _, ok := r.table[k]; ok {
		return
	}
	r.table[k] = new(big.Int).SetBytes(digest).String()
	r.tblOrd = append(r.tblOrd, k)
}

func sha(b []byte) []byte { s := sha256.Sum256(b); return s[:] }

// seedSum recomputes, independently of rng.go's code but exactly as it is written there, the
// integer whose bytes are hashed last; it records the digests the model will ask for.
func (r *runner) addPRNG(t int64, app []byte, consumer int, seed []byte) {
	ai := r.apps.Id(string(app)) + 1
	r.tbl(fmt.Sprintf("HApp %d", ai), sha(app))
	if consumer >= 0 {
		r.tbl(fmt.Sprintf("HAddr %d", consumer), sha(r.e.Actors[consumer]))
	}
	if t == 0 || consumer < 0 {
		return
	}
	bt := big.NewInt(t)
	sum := new(big.Int).Set(bt)
	sum.Add(sum, new(big.Int).Div(new(big.Int).SetBytes(sha(app)), bt))
	sum.Add(sum, new(big.Int).Div(new(big.Int).SetBytes(sha(r.e.Actors[consumer])), bt))
	if seed != nil {
		si := r.seeds.Id(string(seed))
		r.tbl(fmt.Sprintf("HSeed %d", si), sha(seed))
		sum.Add(sum, new(big.Int).Div(new(big.Int).SetBytes(sha(seed)), bt))
	}
	r.tbl("HSum "+lib.ZB(new(big.Int).Abs(sum)), sha(sum.Bytes()))
}

func (r *runner) actorIdx(bech string) int {
	if i, ok := r.addr[bech]; ok {
		return i
	}
	return -2
}

func (r *runner) reqTerm(q randomtypes.Request) string {
	txb, _ := hex.DecodeString(q.TxHash)
	ctx := -1
	if q.ServiceContextID != "" {
		ctx = r.ctxIDs.Id(strings.ToLower(q.ServiceContextID))
	}
	return lib.App("mkReq", lib.Z(q.Height), lib.Z(int64(r.actorIdx(q.Consumer))), lib.Z(int64(r.txs.Id(string(txb)))),
		lib.B(q.Oracle), lib.Z(int64(ctx)))
}

// vstrTerm encodes a value string as in Check.enc_str: a string that is "0." followed by 20
// decimal digits is sent as its numerator (Check.vdecode renders it back), anything else raw.
func vstrTerm(v string) string {
	if len(v) == 22 && v[0] == '0' && v[1] == '.' {
		ok := true
		for _, ch := range []byte(v[2:]) {
			if ch < '0' || ch > '9' {
				ok = false
			}
		}
		if x, good := new(big.Int).SetString(v[2:], 10); ok && good {
			return lib.App("VNum", lib.ZB(x))
		}
	}
	var cs []string
	for _, ch := range []byte(v) {
		cs = append(cs, lib.Z(int64(ch)))
	}
	return lib.App("VRaw", lib.L(cs...))
}

func ridTerm(p [2]int64) string { return lib.Pair(lib.Z(p[0]), lib.Z(p[1])) }

// observe reads everything C18 talks about through the keeper's query server / exported getters.
func (r *runner) observe(code int, facts []string) (string, int) {
	e := r.e
	// queue
	var q []string
	byHeight := map[int64]int{}
	total := 0
	r.rk.IterateRandomRequestQueue(e.Ctx, func(h int64, reqID []byte, rq randomtypes.Request) bool {
		total++
		byHeight[h]++
		p, ok := r.ridOf[hex.EncodeToString(reqID)]
		if !ok {
			r.c.Notes = append(r.c.Notes, fmt.Sprintf("queue holds an id never returned: %x", reqID))
			p = [2]int64{-9, -9}
		}
		q = append(q, lib.Pair(lib.ZB(new(big.Int).SetUint64(uint64(h))), ridTerm(p), r.reqTerm(rq)))
		return false
	})
	// the gRPC view of the queue must agree with the iterator
	if resp, err := r.rk.RandomRequestQueue(e.Ctx, &randomtypes.QueryRandomRequestQueueRequest{Height: 0}); err != nil || len(resp.Requests) != total {
		r.c.Notes = append(r.c.Notes, fmt.Sprintf("query all: %v, want %d entries", err, total))
	}
	for h, n := range byHeight {
		if h <= 0 {
			continue
		}
		if resp, err := r.rk.RandomRequestQueue(e.Ctx, &randomtypes.QueryRandomRequestQueueRequest{Height: h}); err != nil || len(resp.Requests) != n {
			r.c.Notes = append(r.c.Notes, fmt.Sprintf("query height %d: %v, want %d entries", h, err, n))
		}
	}
	// results by every id ever issued
	var reads []string
	seen := map[string]bool{}
	present := 0
	for _, is := range r.issued {
		if seen[is.idHex] {
			continue
		}
		seen[is.idHex] = true
		v := "None"
		resp, err := r.rk.Random(e.Ctx, &randomtypes.QueryRandomRequest{ReqId: is.idHex})
		if err == nil && resp.Random != nil {
			present++
			txb, _ := hex.DecodeString(resp.Random.RequestTxHash)
			v = lib.App("Some", lib.Pair(lib.Z(int64(r.txs.Id(string(txb)))), lib.Z(resp.Random.Height), vstrTerm(resp.Random.Value)))
		}
		rt := ridTerm([2]int64{is.h, int64(is.c)})
		if old, ok := r.prevRead[rt]; !ok || old != v {
			reads = append(reads, lib.Pair(rt, v))
		}
		if _, ok := r.prevRead[rt]; !ok {
			r.prevOrder = append(r.prevOrder, rt)
		}
		r.prevRead[rt] = v
	}
	// oracle requests by every service context id ever returned
	var orc []string
	for _, sc := range r.ctxs {
		v := "None"
		if rq, err := r.rk.GetOracleRandRequest(e.Ctx, sc.bz); err == nil {
			v = lib.App("Some", r.reqTerm(rq))
		}
		orc = append(orc, lib.Pair(lib.Z(int64(sc.iid)), v))
	}
	fresh := present - r.lastN
	r.lastN = present
	qT, oT := "None", "None"
	if ql := lib.L(q...); ql != r.prevQ {
		r.prevQ = ql
		qT = lib.App("Some", ql)
	}
	if ol := lib.L(orc...); ol != r.prevOrc {
		r.prevOrc = ol
		oT = lib.App("Some", ol)
	}
	return lib.App("mkC", lib.Z(int64(code)), qT, lib.App("CDelta", lib.L(reads...)), oT, lib.L(facts...)), fresh
}

func (r *runner) emit(stepTerm string, code int, facts []string, human string) int {
	obs, fresh := r.observe(code, facts)
	r.steps = append(r.steps, lib.Pair(stepTerm, obs))
	r.c.Steps = append(r.c.Steps, human)
	return fresh
}

func exec(h History) lib.Case {
	r := &runner{h: h, c: lib.Case{Stats: map[string]int{}}, txs: lib.NewInterner(), ctxIDs: lib.NewInterner(),
		apps: lib.NewInterner(), seeds: lib.NewInterner(), table: map[string]string{}, ridOf: map[string][2]int64{},
		ctxBy: map[int]*svcCtx{}, addr: map[string]int{}, prevQ: "[]", prevOrc: "[]", prevRead: map[string]string{},
		due: map[int64][]int{}}
	bal := sdk.NewCoins(sdk.NewCoin("stake", sdkmath.NewInt(1_000_000_000)))
	timeout := h.Timeout
	if timeout < 1 {
		timeout = 1
	}
	r.e = lib.NewEnv(lib.EnvOpts{NActors: nActors, Balances: bal, Consumers: []interface{}{&r.rk, &r.sk},
		StartTime: time.Unix(h.Start, 0).UTC(),
		Merge: func(cdc codec.Codec, state simapp.GenesisState) simapp.GenesisState {
			r.cdc = cdc
			var gs servicetypes.GenesisState
			cdc.MustUnmarshalJSON(state[servicetypes.ModuleName], &gs)
			gs.Definitions = append(gs.Definitions, servicetypes.GetRandomSvcDefinition())
			gs.Params.MaxRequestTimeout = timeout
			state[servicetypes.ModuleName] = cdc.MustMarshalJSON(&gs)
			return state
		}})
	e := r.e
	for i, a := range e.Actors {
		r.addr[a.String()] = i
	}
	// observe the callbacks the random keeper registered with the service keeper
	hadR, hadS := r.sk.VerifWrapCallbacks(randomtypes.ModuleName,
		func(inner servicetypes.ResponseCallback) servicetypes.ResponseCallback {
			return func(ctx sdk.Context, id tmbytes.HexBytes, outputs []string, err error) {
				r.rec = append(r.rec, r.classifyResp(ctx, id, outputs, err))
				inner(ctx, id, outputs, err)
			}
		},
		func(inner servicetypes.StateCallback) servicetypes.StateCallback {
			return func(ctx sdk.Context, id tmbytes.HexBytes, cause string) {
				_, ex := r.sk.GetRequestContext(ctx, id)
				r.rec = append(r.rec, lib.App("CallState", lib.Z(int64(r.ctxIDs.Id(strings.ToLower(id.String())))), lib.B(ex)))
				inner(ctx, id, cause)
			}
		})
	_, _ = hadR, hadS
	// bind the providers
	qos := h.QoS
	if qos < 1 {
		qos = 1
	}
	for p := 0; p < h.Providers && p < 2; p++ {
		pa := e.Actors[nConsumers+p].String()
		o := e.Deliver(servicetypes.NewMsgBindService(randomtypes.ServiceName, pa,
			sdk.NewCoins(sdk.NewCoin("stake", sdkmath.NewInt(price*1000))), fmt.Sprintf(`{"price":"%dstake"}`, price), qos, "{}", pa))
		if !o.OK() {
			r.c.Notes = append(r.c.Notes, "setup: bind failed: "+o.Err)
		}
	}
	// every history starts with a block boundary, so that the first header is a chosen one
	steps := append([]Step{{Op: "block", Dt: 0, App: 3}}, h.Steps...)
	curSecs, sameDue := h.Start, false
	halted := false
	for _, st := range steps {
		if halted {
			break
		}
		switch st.Op {
		case "req":
			r.doReq(st)
		case "block":
			curSecs += st.Dt
			fresh, ok := r.doBlock(st, curSecs)
			if fresh >= 2 {
				sameDue = true
			}
			if !ok {
				halted = true
			}
		case "respond":
			r.doRespond(st)
		case "gload":
			r.doGload(st)
		case "reimport":
			r.doReimport()
		case "drain":
			a := e.Actors[st.C]
			b := e.Balance(a, "stake")
			if !b.IsPositive() {
				continue
			}
			r.rec = nil
			o := e.Deliver(banktypes.NewMsgSend(a, e.Actors[nActors-1], sdk.NewCoins(sdk.NewCoin("stake", b))))
			lib.Stat(r.c.Stats, "op:drain")
			r.emit("(Calls [])", o.Code(), nil, fmt.Sprintf("drain %d -> %s", st.C, o.Kind))
		}
	}
	var tb []string
	for _, k := range r.tblOrd {
		tb = append(tb, lib.Pair(k, r.table[k]))
	}
	r.c.Coq = lib.Pair(lib.L(tb...), lib.L(r.steps...))
	r.c.NonTrivial = sameDue
	return r.c
}

func (r *runner) classifyResp(ctx sdk.Context, id tmbytes.HexBytes, outputs []string, err error) string {
	iid := r.ctxIDs.Id(strings.ToLower(id.String()))
	d := ""
	rc, exists := r.sk.GetRequestContext(ctx, id)
	switch {
	case len(outputs) == 0 || err != nil:
		d = "CbFail"
	case !exists:
		d = "CbNoCtx"
	default:
		body := gjson.Get(outputs[0], servicetypes.PATH_BODY).String()
		if servicetypes.ValidateResponseOutputBody(servicetypes.RandomServiceSchemas, body) != nil {
			d = "CbBadBody"
			break
		}
		seed, derr := hex.DecodeString(gjson.Get(body, servicetypes.RandomServiceValueJSONPath).String())
		if derr != nil || len(seed) != randomtypes.SeedBytesLength {
			r.c.Notes = append(r.c.Notes, "a schema-valid body without a 32-byte seed reached the callback")
			d = "CbBadBody"
			break
		}
		d = lib.App("CbSeed", lib.Z(int64(r.seeds.Id(string(seed)))))
		hd := ctx.BlockHeader()
		r.addPRNG(hd.Time.Unix(), hd.AppHash, r.actorIdx(rc.Consumer), seed)
	}
	return lib.App("CallResp", lib.Z(int64(iid)), d)
}

func (r *runner) doReq(st Step) {
	e := r.e
	consumer := "not-an-address"
	cidx := -1
	if st.Bad != 1 {
		consumer = e.Actors[st.C].String()
		cidx = st.C
	}
	var cap sdk.Coins
	if st.Cap > 0 {
		cap = sdk.NewCoins(sdk.NewCoin("stake", sdkmath.NewInt(st.Cap)))
	}
	if st.Bad == 2 {
		cap = sdk.Coins{sdk.Coin{Denom: "stake", Amount: sdkmath.NewInt(0)}}
	}
	msg := &randomtypes.MsgRequestRandom{BlockInterval: st.N, Consumer: consumer, Oracle: st.Oracle, ServiceFeeCap: cap}
	txBytes := e.NextTxBytes()
	txh := sha(txBytes)
	txi := r.txs.Id(string(txh))
	r.rec = nil
	o, evs := r.deliverWithEvents(txBytes, msg)
	ok := o.OK()
	svc := "None"
	if st.Oracle {
		lib.Stat(r.c.Stats, "op:req-oracle")
	} else {
		lib.Stat(r.c.Stats, "op:req")
	}
	lib.Stat(r.c.Stats, "res:"+o.Kind)
	if st.N >= 1<<40 {
		lib.Stat(r.c.Stats, "req:far-interval")
	}
	idHex := ""
	if ok {
		for _, ev := range evs {
			if ev.Type == randomtypes.EventTypeRequestRandom {
				for _, a := range ev.Attributes {
					if a.Key == randomtypes.AttributeKeyRequestID {
						idHex = strings.ToLower(a.Value)
					}
					if a.Key == randomtypes.AttributeKeyGenHeight && a.Value != fmt.Sprintf("%d", int64(uint64(e.Height)+st.N)) {
						r.c.Notes = append(r.c.Notes, "announced generate_height "+a.Value+" is not height + interval")
					}
				}
			}
		}
		// the real id must be SHA-256 of the pre-image the model uses: be64(height) ++ consumer
		pre := append(sdk.Uint64ToBigEndian(uint64(e.Height)), []byte(consumer)...)
		if hex.EncodeToString(sha(pre)) != idHex {
			r.c.Notes = append(r.c.Notes, fmt.Sprintf("request id %s is not sha256(be64(%d) ++ consumer)", idHex, e.Height))
		}
		r.ridOf[idHex] = [2]int64{e.Height, int64(cidx)}
		r.issued = append(r.issued, issued{h: e.Height, c: cidx, idHex: idHex})
		if !st.Oracle && cidx >= 0 {
			r.due[e.Height+int64(st.N)] = append(r.due[e.Height+int64(st.N)], cidx)
		}
		if st.Oracle {
			// what RequestService returned: the context id stored with the request
			idb, _ := hex.DecodeString(idHex)
			due := uint64(e.Height) + st.N
			found := false
			r.rk.IterateRandomRequestQueue(e.Ctx, func(h int64, reqID []byte, rq randomtypes.Request) bool {
				if uint64(h) == due && string(reqID) == string(idb) {
					found = true
					cid := strings.ToLower(rq.ServiceContextID)
					iid := r.ctxIDs.Id(cid)
					svc = lib.App("Some", lib.Z(int64(iid)))
					if _, known := r.ctxBy[iid]; !known {
						bz, _ := hex.DecodeString(cid)
						sc := &svcCtx{iid: iid, bz: bz, consumer: cidx}
						r.ctxBy[iid] = sc
						r.ctxs = append(r.ctxs, sc)
					}
					return true
				}
				return false
			})
			if !found {
				r.c.Notes = append(r.c.Notes, "an accepted oracle request is not in the queue at its due height")
				svc = "(Some (-5))"
			}
		}
	}
	term := lib.App("Req", lib.Z(int64(cidx)), lib.ZB(new(big.Int).SetUint64(st.N)), lib.B(st.Oracle), lib.B(st.Bad != 2), lib.Z(int64(txi)), svc)
	r.emit(term, o.Code(), nil, fmt.Sprintf("h%d req c%d n=%d oracle=%v cap=%d bad=%d -> %s %s", e.Height, st.C, st.N, st.Oracle, st.Cap, st.Bad, o.Kind, short(o.Err)))
}

// doGload loads one pending request through the random module's InitGenesis, as a genesis file
// (or an upgrade handler) would: an oracle request whose service context the service module
// does not know, or a plain request.  In the model's vocabulary this is exactly an accepted
// request of the current block (InitGenesis enqueues the request under the given height with
// the id derived from it); the context id is "what RequestService returned".
func (r *runner) doGload(st Step) {
	e := r.e
	consumer := e.Actors[st.C].String()
	seq := len(r.steps)
	txh := sha([]byte(fmt.Sprintf("genesis-tx-%d", seq)))
	txi := r.txs.Id(string(txh))
	rq := randomtypes.Request{Height: e.Height, Consumer: consumer, TxHash: hex.EncodeToString(txh)}
	svc := "None"
	oracle := st.Fake != 2
	if oracle {
		d := sha([]byte(fmt.Sprintf("unknown-context-%d", seq)))
		bz := append(append([]byte{}, d...), d[:8]...) // the length of a real context id
		if st.Fake == 1 {
			bz = d[:4]
		}
		rq.Oracle = true
		rq.ServiceFeeCap = sdk.NewCoins(sdk.NewCoin("stake", sdkmath.NewInt(price)))
		rq.ServiceContextID = tmbytes.HexBytes(bz).String()
		iid := r.ctxIDs.Id(strings.ToLower(rq.ServiceContextID))
		svc = lib.App("Some", lib.Z(int64(iid)))
		if _, known := r.ctxBy[iid]; !known {
			sc := &svcCtx{iid: iid, bz: bz, consumer: st.C}
			r.ctxBy[iid] = sc
			r.ctxs = append(r.ctxs, sc)
		}
	}
	due := e.Height + int64(st.N)
	gs := randomtypes.GenesisState{PendingRandomRequests: map[string]randomtypes.Requests{
		fmt.Sprintf("%d", due): {Requests: []randomtypes.Request{rq}}}}
	r.rec = nil
	o := e.Try(func(ctx sdk.Context) error { randommod.InitGenesis(ctx, r.rk, gs); return nil })
	lib.Stat(r.c.Stats, fmt.Sprintf("op:gload-%d", st.Fake))
	lib.Stat(r.c.Stats, "res:"+o.Kind)
	if o.OK() {
		idHex := hex.EncodeToString(sha(append(sdk.Uint64ToBigEndian(uint64(e.Height)), []byte(consumer)...)))
		r.ridOf[idHex] = [2]int64{e.Height, int64(st.C)}
		r.issued = append(r.issued, issued{h: e.Height, c: st.C, idHex: idHex})
		if !oracle {
			r.due[due] = append(r.due[due], st.C)
		}
	}
	term := lib.App("Req", lib.Z(int64(st.C)), lib.ZB(new(big.Int).SetUint64(st.N)), lib.B(oracle), "true", lib.Z(int64(txi)), svc)
	r.emit(term, o.Code(), nil, fmt.Sprintf("h%d genesis-load c%d n=%d kind=%d -> %s %s", e.Height, st.C, st.N, st.Fake, o.Kind, short(o.Err)))
}

// doReimport restarts the module's pending queue through its genesis: ExportGenesis, (through
// JSON,) the queue wiped, InitGenesis of what was exported.  Results and oracle requests are not
// part of the module's genesis; they stay in place.  For the model nothing happens.
func (r *runner) doReimport() {
	e := r.e
	n := 0
	r.rec = nil
	o := e.Try(func(ctx sdk.Context) error {
		gs := randommod.ExportGenesis(ctx, r.rk)
		bz, err := r.cdc.MarshalJSON(gs)
		if err != nil {
			return err
		}
		var back randomtypes.GenesisState
		if err := r.cdc.UnmarshalJSON(bz, &back); err != nil {
			return err
		}
		type ent struct {
			h  int64
			id []byte
		}
		var es []ent
		r.rk.IterateRandomRequestQueue(ctx, func(h int64, id []byte, _ randomtypes.Request) bool {
			es = append(es, ent{h, append([]byte{}, id...)})
			return false
		})
		for _, x := range es {
			r.rk.DequeueRandomRequest(ctx, x.h, x.id)
		}
		n = len(es)
		randommod.InitGenesis(ctx, r.rk, back)
		return nil
	})
	lib.Stat(r.c.Stats, "op:reimport")
	if n >= 2 {
		lib.Stat(r.c.Stats, "reimport:2+pending")
	}
	lib.Stat(r.c.Stats, "res:"+o.Kind)
	r.emit("(Calls [])", o.Code(), nil, fmt.Sprintf("h%d export -> import of %d pending -> %s %s", e.Height, n, o.Kind, short(o.Err)))
}

// deliverWithEvents = lib.Env.DeliverTx for one message (ValidateBasic, routed handler on a cache
// context carrying the tx bytes, written back only on success, panics recovered), additionally
// returning the events of the handler's result (the request id is announced there).
func (r *runner) deliverWithEvents(txBytes []byte, msg sdk.Msg) (out lib.Outcome, evs []abci.Event) {
	e := r.e
	defer func() {
		if p := recover(); p != nil {
			out = lib.Outcome{Kind: "abort", Err: fmt.Sprint(p)}
			evs = nil
		}
	}()
	cacheCtx, write := e.Ctx.CacheContext()
	cacheCtx = cacheCtx.WithTxBytes(txBytes).WithEventManager(sdk.NewEventManager())
	if v, ok := msg.(interface{ ValidateBasic() error }); ok {
		if err := v.ValidateBasic(); err != nil {
			return lib.Outcome{Kind: "rej", Err: "validate-basic: " + err.Error()}, nil
		}
	}
	h := e.App.MsgServiceRouter().Handler(msg)
	res, err := h(cacheCtx, msg)
	if err != nil {
		return lib.Outcome{Kind: "rej", Err: err.Error()}, nil
	}
	write()
	return lib.Outcome{Kind: "ok"}, res.Events
}

func short(s string) string {
	if len(s) > 60 {
		return s[:60]
	}
	return s
}

// doBlock = service/… end blockers of the current block, then the begin blockers of the next
// one under the chosen header.  Returns how many results appeared and whether the chain lives.
func (r *runner) doBlock(st Step, secs int64) (int, bool) {
	e := r.e
	lib.Stat(r.c.Stats, "op:block")
	// --- end block ---
	r.rec = nil
	out := e.EndBlock()
	var facts []string
	for _, sc := range r.ctxs {
		if !sc.started || sc.resolved {
			continue
		}
		rc, ok := r.sk.GetRequestContext(e.Ctx, sc.bz)
		if sc.expiry == 0 {
			// started in this block: the service end blocker has initiated (or skipped) the batch
			sc.expiry = e.Height + r.timeout()
			if ok && rc.State == servicetypes.PAUSED {
				facts = append(facts, lib.App("SvcPaused", lib.Z(int64(sc.iid))))
				sc.resolved = true
				lib.Stat(r.c.Stats, "oracle:paused")
				continue
			}
			if ok && rc.BatchRequestCount > 0 {
				sc.reqID = servicetypes.GenerateRequestID(sc.bz, rc.BatchCounter, e.Height, 0)
				if rq, found := r.sk.GetRequest(e.Ctx, sc.reqID); found {
					sc.provider = rq.Provider
					sc.expiry = rq.ExpirationHeight
				} else {
					sc.reqID = nil
				}
			}
			continue
		}
		if sc.expiry == e.Height {
			facts = append(facts, lib.App("SvcExpired", lib.Z(int64(sc.iid))))
			sc.resolved = true
			lib.Stat(r.c.Stats, "oracle:expired")
		}
	}
	if !out.OK() {
		lib.Stat(r.c.Stats, "res:endblock-"+out.Kind)
	}
	r.emit(lib.App("Calls", lib.L(r.rec...)), out.Code(), facts, fmt.Sprintf("h%d end-block: %d callbacks %v -> %s %s", e.Height, len(r.rec), facts, out.Kind, short(out.Err)))
	if !out.OK() {
		return 0, false
	}
	// --- begin block ---
	app := appHash(st.App)
	tm := time.Unix(secs, st.Nanos).UTC()
	if tm.UnixNano() == 0 {
		tm = tm.Add(time.Nanosecond) // see gen: the provider choice of RequestService divides by UnixNano
	}
	hdr := tmproto.Header{Height: e.Height + 1, Time: tm, AppHash: app, ChainID: "verif"}
	t := tm.Unix()
	need := map[int]bool{}
	for _, c := range r.due[e.Height] { // accepted plain requests due now, by the driver's own bookkeeping
		need[c] = true
	}
	r.rk.IterateRandomRequestQueue(e.Ctx, func(h int64, _ []byte, rq randomtypes.Request) bool {
		if h == e.Height || h == e.Height+1 { // whatever the keeper is about to drain, rightly or not
			if c := r.actorIdx(rq.Consumer); c >= 0 {
				need[c] = true
			}
		}
		return false
	})
	r.addPRNG(t, app, -1, nil)
	for c := 0; c < nConsumers; c++ {
		if need[c] {
			r.addPRNG(t, app, c, nil)
		}
	}
	r.rec = nil
	out = e.BeginBlockAt(hdr)
	var started []string
	for _, sc := range r.ctxs {
		if sc.started {
			continue
		}
		if rc, ok := r.sk.GetRequestContext(e.Ctx, sc.bz); ok && rc.State == servicetypes.RUNNING {
			sc.started = true
			started = append(started, lib.Z(int64(sc.iid)))
			lib.Stat(r.c.Stats, "oracle:started")
		}
	}
	if len(r.rec) > 0 {
		r.c.Notes = append(r.c.Notes, "callbacks during begin block")
	}
	ai := r.apps.Id(string(app)) + 1
	fresh := r.emit(lib.App("Begin", lib.Z(t), lib.Z(int64(ai)), lib.L(started...)), out.Code(), nil,
		fmt.Sprintf("h%d begin t=%d app=%d started=%v -> %s %s", e.Height, t, st.App, started, out.Kind, short(out.Err)))
	lib.Stat(r.c.Stats, "res:begin-"+out.Kind)
	if fresh > 0 {
		r.c.Stats["fulfilled:block"] += fresh
	}
	return fresh, out.OK()
}

func (r *runner) timeout() int64 {
	if r.h.Timeout < 1 {
		return 1
	}
	return r.h.Timeout
}

func (r *runner) doRespond(st Step) {
	e := r.e
	var open []*svcCtx
	for _, sc := range r.ctxs {
		if sc.started && !sc.resolved && sc.reqID != nil {
			open = append(open, sc)
		}
	}
	if len(open) == 0 {
		return
	}
	sc := open[st.K%len(open)]
	result := `{"code":200,"message":""}`
	output := ""
	provider := sc.provider
	seed := seedBytes(st.Seed)
	switch st.Kind {
	case 0:
		s := hex.EncodeToString(seed)
		if st.Seed%2 == 1 {
			s = strings.ToUpper(s)
		}
		output = fmt.Sprintf(`{"header":{},"body":{"seed":"%s"}}`, s)
	case 1:
		output = `{"header":{},"body":{"seed":"abcdef"}}`
	case 2:
		output = fmt.Sprintf(`{"header":{},"body":{"seed":"%s"}}`, strings.Repeat("zz", 32))
	case 3:
		output = `{"header":{},"body":{}}`
	case 4:
		result = `{"code":500,"message":"unavailable"}`
	case 5:
		output = fmt.Sprintf(`{"header":{},"body":{"seed":"%s"}}`, hex.EncodeToString(seed))
		provider = e.Actors[0].String()
	}
	r.rec = nil
	o := e.Deliver(servicetypes.NewMsgRespondService(sc.reqID.String(), provider, result, output))
	lib.Stat(r.c.Stats, fmt.Sprintf("op:respond-%d", st.Kind))
	lib.Stat(r.c.Stats, "res:"+o.Kind)
	var facts []string
	calls := r.rec
	if o.Kind == "rej" {
		calls = nil
	}
	if o.OK() {
		sc.resolved = true
		if st.Kind == 0 {
			facts = append(facts, lib.App("SvcSeed", lib.Z(int64(sc.iid)), lib.Z(int64(r.seeds.Id(string(seed))))))
			// the table entries for this fulfilment, from the outside view as well
			r.addPRNG(e.Ctx.BlockHeader().Time.Unix(), e.Ctx.BlockHeader().AppHash, sc.consumer, seed)
		} else {
			facts = append(facts, lib.App("SvcNoSeed", lib.Z(int64(sc.iid))))
		}
	}
	fresh := r.emit(lib.App("Calls", lib.L(calls...)), o.Code(), facts,
		fmt.Sprintf("h%d respond ctx%d kind=%d seed=%d -> %s %s", e.Height, sc.iid, st.Kind, st.Seed, o.Kind, short(o.Err)))
	if fresh > 0 {
		r.c.Stats["fulfilled:oracle"] += fresh
	}
}

var _ = binary.BigEndian

func main() {
	lib.Main(lib.Driver[History]{Gen: gen, Exec: exec})
}
