#!/usr/bin/env python3
"""mutation self-test: run.py NAME...  (applies one edit to /work/random/repo, runs check/run C18 quick, reverts)"""
import sys, os, subprocess, time
R = "/work/random/repo/modules/random/"
M = {
 # oracle request whose context cannot be started stays queued ("log and continue", dequeue only on success)
 "start_failure_not_dequeued": ("abci.go", """				ctx.Logger().Info(fmt.Sprintf("start service error : %s", err.Error()))
			}

			k.DequeueRandomRequest(ctx, lastBlockHeight, reqID)
""", """				ctx.Logger().Info(fmt.Sprintf("start service error : %s", err.Error()))
				continue
			}

			k.DequeueRandomRequest(ctx, lastBlockHeight, reqID)
"""),
 # ExportGenesis keeps only one pending request per due height
 "export_one_per_height": ("genesis.go", """		if ok {
			heightRequests.Requests = append(heightRequests.Requests, request)
		} else {""", """		if ok {
			return false
		} else {"""),
 # drain the queue of `height` instead of `height-1`
 "drain_at_height": ("abci.go", "lastBlockHeight := ctx.BlockHeight() - 1", "lastBlockHeight := ctx.BlockHeight()"),
 # precision constant changed
 "precision_19": ("types/rng.go", "RandPrec        = 20", "RandPrec        = 19"),
 # plain request not dequeued after fulfilment
 "no_dequeue": ("abci.go", """			// remove the request
			k.DequeueRandomRequest(ctx, lastBlockHeight, reqID)
""", """			// remove the request
"""),
 # the id no longer contains the height: a later request of the same consumer overwrites the result
 "id_without_height": ("types/request.go", "	reqID = append(reqID, sdk.Uint64ToBigEndian(uint64(r.Height))...)\n", ""),
 # the oracle seed is ignored
 "seed_ignored": ("keeper/service.go", "random := types.MakePRNG(appHash, currentTimestamp, consumer, seed, true).GetRand()", "random := types.MakePRNG(appHash, currentTimestamp, consumer, seed, false).GetRand()"),
 # oracle: a failed response keeps the pending oracle request
 "failure_not_dropped": ("keeper/service.go", """			"err", err.Error(),
		)
		k.DeleteOracleRandRequest(ctx, requestContextID)
		return
	}

	if _, existed""", """			"err", err.Error(),
		)
		return
	}

	if _, existed"""),
 # value also depends on the block height
 "value_uses_height": ("abci.go", "random := types.MakePRNG(appHash, currentTimestamp, consumer, nil, false).GetRand()", "random := types.MakePRNG(appHash, currentTimestamp+lastBlockHeight%2, consumer, nil, false).GetRand()"),
 # the height recorded with the result is the current one
 "oracle_state_change_ignored": ("keeper/service.go", """		"state", reqCtx.State.String(),
	)
	k.DeleteOracleRandRequest(ctx, requestContextID)""", """		"state", reqCtx.State.String(),
	)"""),
 # harmless refactor: dequeue before storing the result, precision computed differently
 "harmless": ("abci.go", """			k.SetRandom(ctx, reqID, types.NewRandom(request.TxHash, lastBlockHeight, random.FloatString(types.RandPrec)))

			// remove the request
			k.DequeueRandomRequest(ctx, lastBlockHeight, reqID)
""", """			// remove the request
			k.DequeueRandomRequest(ctx, lastBlockHeight, reqID)
			value := random.FloatString(types.RandPrec)
			k.SetRandom(ctx, reqID, types.NewRandom(request.TxHash, lastBlockHeight, value))
"""),
}
env = dict(os.environ, VERIF_REPO="/work/random/repo", GOFLAGS="-mod=mod", GOPROXY="off", GOSUMDB="off", GOTOOLCHAIN="local")
for name in sys.argv[1:]:
    f, old, new = M[name]
    p = R + f
    s = open(p).read()
    assert s.count(old) == 1, (name, s.count(old))
    open(p, "w").write(s.replace(old, new))
    t0 = time.time()
    try:
        r = subprocess.run(["timeout", "3000", "/work/random/verif/check/run", "C18", "quick"], env=env, cwd="/work/random/verif",
                           stdout=subprocess.PIPE, stderr=subprocess.STDOUT, text=True)
        out = "\n".join(l for l in r.stdout.split("\n") if "conda" not in l.lower())
        open("/work/random/mut-%s.log" % name, "w").write(out)
        print("MUT %s exit=%d wall=%.0fs\n%s" % (name, r.returncode, time.time() - t0, "\n".join(out.strip().split("\n")[-4:])), flush=True)
    finally:
        subprocess.run(["git", "-C", "/work/random/repo", "checkout", "--", "."])
