// mt: MT module driver (property C15).
//
// History vocabulary = the vocabulary of coq/Mt/Model.v: class and token ids are the sequence
// numbers they were generated from (the driver translates through a SHA-256 table and checks
// that every generated id is the hash of exactly that pre-image), actors are indices,
// byte strings are interned.
package main

import (
	"crypto/sha256"
	"fmt"
	"math"
	"math/bits"
	"sort"
	"strconv"
	"strings"
	"time"

	sdk "github.com/cosmos/cosmos-sdk/types"

	mtkeeper "mods.irisnet.org/modules/mt/keeper"
	mttypes "mods.irisnet.org/modules/mt/types"

	"verifharness/lib"
)

type Step struct {
	K    string `json:"k"`           // issue | mint | edit | transfer | burn | handover | block
	S    int    `json:"s"`           // sender (actor index; -1 empty, -2 not an address)
	D    int    `json:"d,omitempty"` // class id (sequence number; 0 blank; <0 some other string)
	M    int    `json:"m,omitempty"` // token id (same vocabulary; 0 in mint = issue a new token)
	A    string `json:"a,omitempty"` // amount, decimal uint64
	Dt   int    `json:"dt,omitempty"`
	Name int    `json:"n,omitempty"`
	R    int    `json:"r,omitempty"` // recipient
}
type History struct {
	Steps []Step
	ABCI  bool `json:"abci,omitempty"` // execute through InitChain / FinalizeBlock(signed txs) / Commit instead of the direct driver
}

const nActors = 4

var strs = []string{"", "[do-not-modify]", "alpha", "beta", "gamma", "meta-a", "meta-b", `{"k":1}`}

func str(i int) string {
	if i >= 0 && i < len(strs) {
		return strs[i]
	}
	return fmt.Sprintf("s%d", i)
}
func sidx(s string) int {
	for i, x := range strs {
		if x == s {
			return i
		}
	}
	return 999
}

func hashHex(s string) string { return fmt.Sprintf("%x", sha256.Sum256([]byte(s))) }

const tableSize = 400

var denomTab, mtTab = func() (map[string]int, map[string]int) {
	a, b := map[string]int{}, map[string]int{}
	for n := 1; n <= tableSize; n++ {
		a[hashHex(fmt.Sprintf("mt-denom-%d", n))] = n
		b[hashHex(fmt.Sprintf("mt-%d", n))] = n
	}
	return a, b
}()

func denomStr(n int) string {
	switch {
	case n > 0:
		return hashHex(fmt.Sprintf("mt-denom-%d", n))
	case n == 0:
		return " "
	}
	return fmt.Sprintf("bogus%d", -n)
}
func mtStr(n int) string {
	switch {
	case n > 0:
		return hashHex(fmt.Sprintf("mt-%d", n))
	case n == 0:
		return ""
	}
	return fmt.Sprintf("bogus%d", -n)
}

// ---------------------------------------------------------------- generator

// shadow: the generator's own rough prediction of the chain state, used only to aim operations
// at interesting values (exact balance, one more than held, filling the supply to 2^64-1, ...).
type shadow struct {
	owner      map[int]int
	mts        map[int][]int
	sup        map[[2]int]uint64
	bal        map[[3]int]uint64
	dseq, mseq int
}

func (sh *shadow) apply(st Step) {
	amt, _ := strconv.ParseUint(st.A, 10, 64)
	switch st.K {
	case "issue":
		if st.S >= 0 && st.Name != 0 {
			sh.owner[sh.dseq] = st.S
			sh.dseq++
		}
	case "mint":
		o, ok := sh.owner[st.D]
		if !ok || o != st.S || amt == 0 || (st.R < 0 && st.R != -1) || (st.M != 0 && st.Dt != 0) {
			return
		}
		rc := st.R
		if rc == -1 {
			rc = st.S
		}
		m := st.M
		if m == 0 {
			m = sh.mseq
			sh.mseq++
			sh.mts[st.D] = append(sh.mts[st.D], m)
		} else {
			found := false
			for _, x := range sh.mts[st.D] {
				found = found || x == m
			}
			if !found {
				return
			}
		}
		if math.MaxUint64-sh.sup[[2]int{st.D, m}] < amt {
			return // real code rolls back; for a new token the sequence is rolled back too
		}
		sh.sup[[2]int{st.D, m}] += amt
		sh.bal[[3]int{rc, st.D, m}] += amt
	case "transfer":
		k := [3]int{st.S, st.D, st.M}
		if st.S < 0 || st.R < 0 || amt == 0 || sh.bal[k] < amt {
			return
		}
		sh.bal[k] -= amt
		sh.bal[[3]int{st.R, st.D, st.M}] += amt
	case "burn":
		k := [3]int{st.S, st.D, st.M}
		if st.S < 0 || amt == 0 || sh.bal[k] < amt {
			return
		}
		sh.bal[k] -= amt
		sh.sup[[2]int{st.D, st.M}] -= amt
	case "handover":
		if o, ok := sh.owner[st.D]; ok && o == st.S && st.R >= 0 {
			sh.owner[st.D] = st.R
		}
	}
}

func u(x uint64) string { return strconv.FormatUint(x, 10) }

func logUniform(r *lib.Rand) uint64 {
	n := 1 + r.Intn(64)
	x := r.U64()
	if n < 64 {
		x &= (uint64(1) << uint(n)) - 1
	}
	if x == 0 {
		x = 1
	}
	return x
}

func gen(r *lib.Rand, tier, stream string, i int) History {
	n := 10 + r.Intn(22)
	if tier == "thorough" {
		n = 10 + r.Intn(60)
	}
	sh := &shadow{owner: map[int]int{}, mts: map[int][]int{}, sup: map[[2]int]uint64{}, bal: map[[3]int]uint64{}, dseq: 1, mseq: 1}
	var h History
	push := func(st Step) {
		h.Steps = append(h.Steps, st)
		sh.apply(st)
	}
	// a class to pick: mostly existing, sometimes a future / blank / bogus id
	pickD := func() int {
		switch r.Weighted(30, 1, 1, 1) {
		case 1:
			return sh.dseq + r.Intn(2)
		case 2:
			return 0
		case 3:
			return -1 - r.Intn(2)
		}
		if sh.dseq == 1 {
			return 1
		}
		return 1 + r.Intn(sh.dseq-1)
	}
	// a token to pick: mostly an existing (class, token) pair, sometimes a mismatched / future / blank / bogus one
	pickToken := func() (int, int) {
		var all [][2]int
		for d := 1; d < sh.dseq; d++ {
			for _, m := range sh.mts[d] {
				all = append(all, [2]int{d, m})
			}
		}
		if len(all) > 0 && r.Chance(11, 12) {
			x := all[r.Intn(len(all))]
			return x[0], x[1]
		}
		d := pickD()
		switch r.Weighted(3, 1, 1, 1) {
		case 1:
			return d, sh.mseq + r.Intn(2)
		case 2:
			return d, 0
		case 3:
			return d, -1 - r.Intn(2)
		}
		if sh.mseq == 1 {
			return d, 1
		}
		return d, 1 + r.Intn(sh.mseq-1) // possibly a token of another class
	}
	actor := func() int {
		if r.Chance(1, 40) {
			return -1 - r.Intn(2)
		}
		return r.Intn(nActors)
	}
	// owner of d with probability 3/4, else anyone
	ownerish := func(d int) int {
		if o, ok := sh.owner[d]; ok && r.Chance(5, 6) {
			return o
		}
		return actor()
	}
	// a holder of (d,m) with probability 4/5
	holderish := func(d, m int) int {
		if r.Chance(9, 10) {
			var hs []int
			for a := 0; a < nActors; a++ {
				if sh.bal[[3]int{a, d, m}] > 0 {
					hs = append(hs, a)
				}
			}
			if len(hs) > 0 {
				return hs[r.Intn(len(hs))]
			}
		}
		return actor()
	}
	spendAmount := func(held uint64) uint64 {
		if r.Chance(1, 30) {
			return 0 // ValidateBasic rejects a zero amount
		}
		switch r.Weighted(5, 6, 2, 3, 1, 1) {
		case 0:
			return held // exactly everything (0 if nothing held: invalid amount)
		case 1:
			if held > 1 {
				return 1 + r.U64()%held
			}
			return 1
		case 2:
			if held < math.MaxUint64 {
				return held + 1 // one more than held
			}
			return held
		case 3:
			return 1
		case 4:
			return logUniform(r)
		case 5:
			return math.MaxUint64
		}
		return 0
	}
	mintAmount := func(supply uint64) uint64 {
		if r.Chance(1, 30) {
			return 0 // ValidateBasic rejects a zero amount
		}
		room := math.MaxUint64 - supply
		switch r.Weighted(8, 6, 1, 3, 2, 2, 2) {
		case 0:
			return 1 + r.U64()%1000
		case 1:
			return logUniform(r)
		case 2:
			return math.MaxUint64
		case 3:
			return room // fills the supply to exactly 2^64-1 (0 if already full: invalid)
		case 4:
			if room < math.MaxUint64 {
				return room + 1 // overflows by one
			}
			return room
		case 5:
			return uint64(1) << 63
		case 6:
			if room > 1 {
				return room - 1
			}
			return 1
		}
		return 0
	}
	push(Step{K: "issue", S: r.Intn(nActors), Name: 2 + r.Intn(3), Dt: r.Intn(len(strs))})
	for len(h.Steps) < n {
		kind := r.Weighted(2, 4, 5, 3, 8, 4, 2, 1)
		if sh.mseq == 1 && kind >= 2 && kind <= 5 && r.Chance(4, 5) {
			kind = 1
		}
		switch kind {
		case 0:
			name := 2 + r.Intn(3)
			if r.Chance(1, 12) {
				name = 0
			}
			push(Step{K: "issue", S: actor(), Name: name, Dt: r.Intn(len(strs))})
		case 1: // mint a new token
			d := pickD()
			rc := -1
			if r.Chance(2, 3) {
				rc = r.Intn(nActors)
			}
			if r.Chance(1, 30) {
				rc = -2
			}
			dt := 0
			if r.Chance(2, 3) {
				dt = r.Intn(len(strs))
			}
			push(Step{K: "mint", S: ownerish(d), D: d, M: 0, A: u(mintAmount(0)), Dt: dt, R: rc})
		case 2: // mint more of an existing token
			d, m := pickToken()
			rc := -1
			if r.Chance(2, 3) {
				rc = r.Intn(nActors)
			}
			dt := 0
			if r.Chance(1, 15) {
				dt = 5
			}
			push(Step{K: "mint", S: ownerish(d), D: d, M: m, A: u(mintAmount(sh.sup[[2]int{d, m}])), Dt: dt, R: rc})
		case 3:
			d, m := pickToken()
			push(Step{K: "edit", S: ownerish(d), D: d, M: m, Dt: r.Intn(len(strs))})
		case 4:
			d, m := pickToken()
			s := holderish(d, m)
			rc := r.Intn(nActors)
			if r.Chance(1, 6) {
				rc = s // to self
			}
			if r.Chance(1, 40) {
				rc = -2
			}
			var held uint64
			if s >= 0 {
				held = sh.bal[[3]int{s, d, m}]
			}
			push(Step{K: "transfer", S: s, D: d, M: m, A: u(spendAmount(held)), R: rc})
		case 5:
			d, m := pickToken()
			s := holderish(d, m)
			var held uint64
			if s >= 0 {
				held = sh.bal[[3]int{s, d, m}]
			}
			push(Step{K: "burn", S: s, D: d, M: m, A: u(spendAmount(held))})
		case 6:
			d := pickD()
			rc := r.Intn(nActors)
			if r.Chance(1, 30) {
				rc = -2
			}
			before, had := sh.owner[d]
			push(Step{K: "handover", S: ownerish(d), D: d, R: rc})
			if after := sh.owner[d]; had && after != before {
				// the class changed hands: the former owner must be refused, the new one accepted,
				// for a new MT (empty id) and for more of an existing one
				for _, who := range []int{before, after} {
					if r.Chance(2, 3) {
						m := 0
						if ms := sh.mts[d]; len(ms) > 0 && r.Chance(1, 2) {
							m = ms[r.Intn(len(ms))]
						}
						push(Step{K: "mint", S: who, D: d, M: m, A: u(mintAmount(sh.sup[[2]int{d, m}])), R: -1})
					}
				}
			}
		case 7:
			push(Step{K: "block"})
		}
	}
	h.ABCI = stream == "abci"
	return h
}

// ---------------------------------------------------------------- execution

func addrStr(e *lib.Env, a int) string {
	switch {
	case a >= 0 && a < len(e.Actors):
		return e.Actors[a].String()
	case a == -1:
		return ""
	}
	return "not-an-address"
}

func actorIdx(e *lib.Env, s string) int {
	for i, a := range e.Actors {
		if a.String() == s {
			return i
		}
	}
	return -77
}

type world struct {
	e      *lib.Env
	k      mtkeeper.Keeper
	notes  []string
	unkD   map[string]int
	unkM   map[string]int
	denoms []string // real ids of the classes seen in the last Denoms query
}

func (w *world) note(f string, a ...interface{}) { w.notes = append(w.notes, fmt.Sprintf(f, a...)) }

func (w *world) dnum(id string) int {
	if n, ok := denomTab[id]; ok {
		return n
	}
	if _, ok := w.unkD[id]; !ok {
		w.unkD[id] = -1000 - len(w.unkD)
		w.note("class id %q is not sha256(\"mt-denom-<n>\") for any n <= %d", id, tableSize)
	}
	return w.unkD[id]
}
func (w *world) mnum(id string) int {
	if n, ok := mtTab[id]; ok {
		return n
	}
	if _, ok := w.unkM[id]; !ok {
		w.unkM[id] = -1000 - len(w.unkM)
		w.note("token id %q is not sha256(\"mt-<n>\") for any n <= %d", id, tableSize)
	}
	return w.unkM[id]
}

type kv struct {
	key []int
	val string
}

func sortKV(xs []kv) {
	sort.Slice(xs, func(i, j int) bool {
		a, b := xs[i].key, xs[j].key
		for k := range a {
			if a[k] != b[k] {
				return a[k] < b[k]
			}
		}
		return false
	})
}
func keyTerm(k []int) string {
	var xs []string
	for _, x := range k {
		xs = append(xs, lib.Z(int64(x)))
	}
	if len(xs) == 1 {
		return xs[0]
	}
	return lib.Pair(xs...)
}
func kvList(xs []kv) string {
	sortKV(xs)
	var out []string
	for _, x := range xs {
		out = append(out, lib.Pair(keyTerm(x.key), x.val))
	}
	return lib.L(out...)
}

// observe reads everything C15 talks about through the module's query server / exported getters.
func (w *world) observe(code int, newID int) string {
	e, k := w.e, w.k
	var denoms, mts, sup, dcount, bal []kv
	dres, err := k.Denoms(e.Ctx, &mttypes.QueryDenomsRequest{})
	if err != nil {
		w.note("Denoms query failed: %v", err)
		dres = &mttypes.QueryDenomsResponse{}
	}
	w.denoms = w.denoms[:0]
	queried := map[string]uint64{} // addr/denom/mt -> amount, from the Balances queries
	for _, d := range dres.Denoms {
		w.denoms = append(w.denoms, d.Id)
		dn := w.dnum(d.Id)
		denoms = append(denoms, kv{[]int{dn}, lib.Pair(lib.Z(int64(sidx(d.Name))), lib.Z(int64(actorIdx(e, d.Owner))), lib.Z(int64(sidx(string(d.Data)))))})
		dcount = append(dcount, kv{[]int{dn}, lib.ZU(k.GetDenomSupply(e.Ctx, d.Id))})
		mres, err := k.MTs(e.Ctx, &mttypes.QueryMTsRequest{DenomId: d.Id})
		if err != nil {
			w.note("MTs query failed: %v", err)
			continue
		}
		for _, m := range mres.Mts {
			mn := w.mnum(m.Id)
			mts = append(mts, kv{[]int{dn, mn}, lib.Pair(lib.Z(int64(sidx(string(m.Data)))), lib.ZU(m.Supply))})
			sres, err := k.MTSupply(e.Ctx, &mttypes.QueryMTSupplyRequest{DenomId: d.Id, MtId: m.Id})
			if err != nil {
				w.note("MTSupply query failed: %v", err)
				continue
			}
			sup = append(sup, kv{[]int{dn, mn}, lib.ZU(sres.Amount)})
			// the single-token query must agree with the list
			one, err := k.MT(e.Ctx, &mttypes.QueryMTRequest{DenomId: d.Id, MtId: m.Id})
			if err != nil || one.Mt.Supply != m.Supply || string(one.Mt.Data) != string(m.Data) {
				w.note("MT query disagrees with MTs query for %d/%d", dn, mn)
			}
		}
		for ai, a := range e.Actors {
			bres, err := k.Balances(e.Ctx, &mttypes.QueryBalancesRequest{Owner: a.String(), DenomId: d.Id})
			if err != nil {
				w.note("Balances query failed: %v", err)
				continue
			}
			for _, b := range bres.Balance {
				bal = append(bal, kv{[]int{ai, dn, w.mnum(b.MtId)}, lib.ZU(b.Amount)})
				queried[a.String()+"/"+d.Id+"/"+b.MtId] = b.Amount
			}
		}
	}
	// every balance entry of the store (as exported) must have been seen through the queries:
	// a holder outside the actor universe or under an unknown class would otherwise be invisible
	exp := k.ExportGenesisState(e.Ctx)
	nexp := 0
	for _, o := range exp.Owners {
		for _, d := range o.Denoms {
			for _, b := range d.Balances {
				nexp++
				if v, ok := queried[o.Address+"/"+d.DenomId+"/"+b.MtId]; !ok || v != b.Amount {
					w.note("stored balance %s/%s/%s=%d not visible through the Balances queries of the actors", o.Address, d.DenomId, b.MtId, b.Amount)
				}
			}
		}
	}
	if nexp != len(queried) {
		w.note("store has %d balance entries, queries returned %d", nexp, len(queried))
	}
	_, broken := mtkeeper.SupplyInvariant(k)(e.Ctx)
	return lib.App("mkObs", lib.Z(int64(code)), lib.ZU(k.GetDenomSequence(e.Ctx)), lib.ZU(k.GetMTSequence(e.Ctx)), lib.Z(int64(newID)),
		kvList(denoms), kvList(mts), kvList(sup), kvList(dcount), kvList(bal), lib.B(broken))
}

func exec(h History) lib.Case {
	var k mtkeeper.Keeper
	var e *lib.Env
	deliver := func(msg sdk.Msg) lib.Outcome { return e.Deliver(msg) }
	nextBlock := func() {
		e.EndBlock()
		e.BeginBlock(5 * time.Second)
	}
	if h.ABCI {
		ae := lib.NewABCIEnv(nActors, []interface{}{&k})
		defer ae.Close()
		e = ae.Env
		// one signed transaction per message, one block per transaction
		deliver = func(msg sdk.Msg) lib.Outcome { return ae.DeliverBlock(5*time.Second, msg)[0] }
		nextBlock = func() { ae.DeliverBlock(5 * time.Second) }
	} else {
		e = lib.NewEnv(lib.EnvOpts{NActors: nActors, Consumers: []interface{}{&k}})
		e.Blockers = []string{"mt"}
	}
	w := &world{e: e, k: k, unkD: map[string]int{}, unkM: map[string]int{}}
	c := lib.Case{Stats: map[string]int{}}
	var terms []string
	strangerTried := map[int]bool{} // class -> a non-owner attempted mint/edit/handover
	ownerDid := map[int]bool{}      // class -> its owner succeeded with mint/edit/handover
	formerOwner := map[[2]int]bool{} // (class, actor) -> the actor owned the class before a hand-over
	for _, st := range h.Steps {
		amt, _ := strconv.ParseUint(st.A, 10, 64)
		var msg sdk.Msg
		var term string
		z := func(x int) string { return lib.Z(int64(x)) }
		switch st.K {
		case "issue":
			name := str(st.Name)
			if st.Name == 0 {
				name = "  "
			}
			msg = &mttypes.MsgIssueDenom{Name: name, Data: []byte(str(st.Dt)), Sender: addrStr(e, st.S)}
			term = lib.App("IssueDenom", z(st.S), z(st.Name), z(st.Dt))
		case "mint":
			msg = &mttypes.MsgMintMT{Id: mtStr(st.M), DenomId: denomStr(st.D), Amount: amt, Data: []byte(str(st.Dt)), Sender: addrStr(e, st.S), Recipient: addrStr(e, st.R)}
			term = lib.App("Mint", z(st.S), z(st.D), z(st.M), lib.ZU(amt), z(st.Dt), z(st.R))
		case "edit":
			msg = &mttypes.MsgEditMT{Id: mtStr(st.M), DenomId: denomStr(st.D), Data: []byte(str(st.Dt)), Sender: addrStr(e, st.S)}
			term = lib.App("Edit", z(st.S), z(st.D), z(st.M), z(st.Dt))
		case "transfer":
			msg = &mttypes.MsgTransferMT{Id: mtStr(st.M), DenomId: denomStr(st.D), Amount: amt, Sender: addrStr(e, st.S), Recipient: addrStr(e, st.R)}
			term = lib.App("Transfer", z(st.S), z(st.D), z(st.M), lib.ZU(amt), z(st.R))
		case "burn":
			msg = &mttypes.MsgBurnMT{Id: mtStr(st.M), DenomId: denomStr(st.D), Amount: amt, Sender: addrStr(e, st.S)}
			term = lib.App("Burn", z(st.S), z(st.D), z(st.M), lib.ZU(amt))
		case "handover":
			msg = &mttypes.MsgTransferDenom{Id: denomStr(st.D), Sender: addrStr(e, st.S), Recipient: addrStr(e, st.R)}
			term = lib.App("TransferDenom", z(st.S), z(st.D), z(st.R))
		default:
			nextBlock()
			lib.Stat(c.Stats, "op:block")
			c.Steps = append(c.Steps, "block")
			terms = append(terms, lib.Pair("Block", w.observe(0, 0)))
			continue
		}
		lib.Stat(c.Stats, "op:"+st.K)
		if amt >= 1<<63 {
			lib.Stat(c.Stats, "amount:>=2^63")
		} else if amt > 0 {
			lib.Stat(c.Stats, fmt.Sprintf("amount:2^%02d", (bits.Len64(amt)/16)*16))
		}
		// who owns the class now (for the non-triviality rule)
		ownerBefore := -99
		if st.D > 0 {
			if d, found := k.GetDenom(e.Ctx, denomStr(st.D)); found {
				ownerBefore = actorIdx(e, d.Owner)
			}
		}
		dseq, mseq := k.GetDenomSequence(e.Ctx), k.GetMTSequence(e.Ctx)
		knownD := map[string]bool{}
		for _, d := range k.GetDenoms(e.Ctx) {
			knownD[d.Id] = true
		}
		knownM := map[string]bool{}
		if st.K == "mint" {
			for _, m := range k.GetMTs(e.Ctx, denomStr(st.D)) {
				knownM[m.GetID()] = true
			}
		}
		out := deliver(msg)
		lib.Stat(c.Stats, "res:"+out.Kind)
		if amt == 0 && (st.K == "mint" || st.K == "transfer" || st.K == "burn") {
			lib.Stat(c.Stats, "amount:0:"+out.Kind)
		}
		if st.K == "mint" {
			kind := "new-mt(empty id)"
			switch {
			case st.M > 0 && knownM[mtStr(st.M)]:
				kind = "more-of-existing"
			case st.M > 0:
				kind = "unknown-or-foreign-id"
			case st.M < 0:
				kind = "bogus-id"
			}
			lib.Stat(c.Stats, "mint:"+kind+":"+out.Kind)
			if ownerBefore >= 0 && st.S >= 0 {
				who := "stranger"
				if st.S == ownerBefore {
					who = "owner"
				} else if formerOwner[[2]int{st.D, st.S}] {
					who = "former-owner"
				}
				lib.Stat(c.Stats, "mint:by-"+who+":"+out.Kind)
			}
		}
		if st.K == "handover" && out.OK() && ownerBefore >= 0 && st.R != ownerBefore {
			formerOwner[[2]int{st.D, ownerBefore}] = true
			delete(formerOwner, [2]int{st.D, st.R})
		}
		newID := 0
		if out.OK() {
			switch st.K {
			case "issue":
				// the id is not in the response: find the class that was not there before and
				// require it to be the hash of the sequence value read before the message
				for _, d := range k.GetDenoms(e.Ctx) {
					if !knownD[d.Id] {
						if newID != 0 {
							w.note("more than one class appeared in one issue-denom")
						}
						newID = w.dnum(d.Id)
						if want := hashHex(fmt.Sprintf("mt-denom-%d", dseq)); d.Id != want {
							w.note("new class id %s is not sha256(mt-denom-%d)", d.Id, dseq)
						}
					}
				}
				if newID == 0 {
					w.note("issue-denom succeeded but no new class is stored")
					newID = -5
				}
			case "mint":
				if st.M == 0 {
					for _, m := range k.GetMTs(e.Ctx, denomStr(st.D)) {
						if !knownM[m.GetID()] {
							if newID != 0 {
								w.note("more than one token appeared in one mint")
							}
							newID = w.mnum(m.GetID())
							if want := hashHex(fmt.Sprintf("mt-%d", mseq)); m.GetID() != want {
								w.note("new token id %s is not sha256(mt-%d)", m.GetID(), mseq)
							}
						}
					}
					if newID == 0 {
						// nothing new under this class: the generated id overwrote an existing token
						newID = int(mseq)
						if newID > tableSize {
							newID = -6
						}
					}
				} else {
					newID = st.M
				}
			}
		}
		if st.K == "mint" || st.K == "edit" || st.K == "handover" {
			if ownerBefore >= 0 && st.S >= 0 {
				if st.S != ownerBefore {
					strangerTried[st.D] = true
				} else if out.OK() {
					ownerDid[st.D] = true
				}
			}
		}
		c.Steps = append(c.Steps, fmt.Sprintf("%s s=%d d=%d m=%d a=%s dt=%d r=%d -> %s", st.K, st.S, st.D, st.M, st.A, st.Dt, st.R, out.Kind))
		terms = append(terms, lib.Pair(lib.App("Msg", term), w.observe(out.Code(), newID)))
	}
	c.Coq = lib.L(terms...)
	c.Notes = w.notes
	for d := range strangerTried {
		if ownerDid[d] {
			c.NonTrivial = true
		}
	}
	_ = strings.TrimSpace
	return c
}

func main() {
	lib.Main(lib.Driver[History]{Gen: gen, Exec: exec})
}
