// farm: farm module driver (properties C05, C06).
//
// A history is a list of operations in the model's vocabulary (coq/Farm/Model.v).  A few fields
// are symbolic and are resolved against the observed state when the history is executed
// (amount "all"/"half"/"over", a start height relative to the current height, "advance to the
// pool's last block"), so that histories stay meaningful when the shrinker removes steps.  The
// Coq case always carries the resolved, concrete steps.  Every history is followed by the
// full-withdrawal epilogue: every farmer unstakes everything from every pool.
package main

import (
	"encoding/binary"
	"fmt"
	"math/big"
	"sort"
	"strings"
	"time"

	sdkmath "cosmossdk.io/math"
	storetypes "cosmossdk.io/store/types"
	sdk "github.com/cosmos/cosmos-sdk/types"
	authtypes "github.com/cosmos/cosmos-sdk/x/auth/types"
	govtypes "github.com/cosmos/cosmos-sdk/x/gov/types"

	coinswaptypes "mods.irisnet.org/modules/coinswap/types"
	farmkeeper "mods.irisnet.org/modules/farm/keeper"
	farmtypes "mods.irisnet.org/modules/farm/types"

	"verifharness/lib"
)

// denominations in the byte order of their names (= model numbering)
var denomNames = []string{"lpt-1", "lpt-2", "rwd", "stake"}

const (
	nActors = 4 // 0 = usual creator, 1..3 = usual farmers (any actor may try anything)
	accFARM = 100
	accCOLL = 101
	accFEEC = 102
	accBURN = 103
	accAUTH = 104 // the authority of MsgUpdateParams (the gov module account); holds no coins, not observed
)

type Rule struct {
	D     int
	Total string
	PB    string
}
type Coin struct {
	D int
	A string
}
type Op struct {
	K        string `json:"k"` // create stake unstake harvest adjust destroy next toend
	Who      int    `json:"who,omitempty"`
	Pid      int    `json:"pid,omitempty"`
	D        int    `json:"d,omitempty"`
	Amt      string `json:"amt,omitempty"` // decimal, or all / half / over
	Lpt      int    `json:"lpt,omitempty"`
	StartOff int64  `json:"startoff,omitempty"`
	Editable bool   `json:"editable,omitempty"`
	Rules    []Rule `json:"rules,omitempty"`
	Add      []Coin `json:"add,omitempty"`
	Rpb      []Coin `json:"rpb,omitempty"`
	N        int    `json:"n,omitempty"` // next: number of blocks; toend: offset added to the end height
	Smart    bool   `json:"smart,omitempty"` // retarget at execution: a farmer who has stake / a pool that is running
	Fee      string `json:"fee,omitempty"`   // params: pool creation fee (amount of stake); Who < 0 = the authority
	Tax      string `json:"tax,omitempty"`   // params: tax rate in units of 10^-18
}
type History struct{ Steps []Op }

// ------------------------------------------------------------------ generator

func smallOrBig(r *lib.Rand, maxDigits int) *big.Int {
	switch r.Weighted(5, 3, 2) {
	case 0:
		return big.NewInt(r.Range(1, 12))
	case 1:
		return big.NewInt(r.Range(1, 1000))
	}
	d := 1 + r.Intn(maxDigits)
	lim := new(big.Int).Exp(big.NewInt(10), big.NewInt(int64(d)), nil)
	x := r.BigRange(big.NewInt(1), lim)
	return x
}

// genCreateExact: budgets that are exact multiples of the reward per block, all rules running out in the same
// block, the pool starting in the block of its creation (the remaining budget is then exactly 0 at the end height)
func genCreateExact(r *lib.Rand, who int) Op {
	op := Op{K: "create", Who: who, Lpt: r.Intn(2), Editable: r.Chance(85, 100)}
	blocks := r.Range(3, 14)
	ds := [][]int{{3}, {2, 3}, {2}}[r.Intn(3)]
	for _, d := range ds {
		pb := smallOrBig(r, 10)
		op.Rules = append(op.Rules, Rule{D: d, Total: new(big.Int).Mul(pb, big.NewInt(blocks)).String(), PB: pb.String()})
	}
	return op
}

func genCreate(r *lib.Rand, who int) Op {
	op := Op{K: "create", Who: who, Lpt: r.Intn(2), Editable: r.Chance(85, 100)}
	op.StartOff = []int64{0, 0, 0, 0, 1, 2, 3, 5}[r.Intn(8)]
	var ds []int
	switch r.Weighted(5, 5, 2, 1) {
	case 0:
		ds = []int{3}
	case 1:
		ds = []int{2, 3}
	case 2:
		ds = []int{[]int{0, 1, 2}[r.Intn(3)]}
	case 3:
		ds = []int{r.Intn(2), 2 + r.Intn(2)}
	}
	blocks := r.Range(2, 30)
	for i, d := range ds {
		pb := smallOrBig(r, 14)
		b := blocks
		if i > 0 && r.Chance(1, 2) {
			b = r.Range(2, 40) // denominations exhausting at different heights
		}
		total := new(big.Int).Mul(pb, big.NewInt(b))
		if r.Chance(1, 2) {
			total.Add(total, r.BigRange(big.NewInt(0), new(big.Int).Sub(pb, big.NewInt(1))))
		}
		op.Rules = append(op.Rules, Rule{D: d, Total: total.String(), PB: pb.String()})
	}
	return op
}

// genManyPools: stream "manypools" — 11 or 12 pools so that pool ids are string prefixes of one another
// (farm-1 / farm-10, farm-11, ...): farm-2..farm-9 are tiny and idle, farm-1, farm-10, farm-11 are worked on.
func genManyPools(r *lib.Rand, tier string) History {
	var h History
	np := 11 + r.Intn(2)
	for id := 1; id <= np; id++ {
		var op Op
		if id >= 2 && id <= 9 {
			blocks := r.Range(30, 60)
			op = Op{K: "create", Who: 0, Lpt: id % 2, Editable: true, Rules: []Rule{{D: 3, Total: fmt.Sprint(blocks), PB: "1"}}}
		} else {
			op = genCreateExact(r, 0)
			op.Lpt = 0
			op.Editable = true
			if r.Chance(1, 2) { // not an exact multiple
				op.Rules[0].Total = new(big.Int).Add(bigOf(op.Rules[0].Total), big.NewInt(r.Range(1, 3))).String()
			}
		}
		h.Steps = append(h.Steps, op)
	}
	target := func() int { return []int{1, 1, 1, 10, 10, 11, np}[r.Intn(7)] }
	n := 22 + r.Intn(16)
	if tier == "thorough" {
		n = 30 + r.Intn(40)
	}
	for k := 0; k < n; k++ {
		w := 1 + r.Intn(3)
		switch r.Weighted(30, 16, 14, 26, 5, 2, 4) {
		case 0:
			h.Steps = append(h.Steps, Op{K: "stake", Who: w, Pid: target(), D: -1, Amt: smallOrBig(r, 12).String(), Smart: r.Chance(1, 2)})
		case 1:
			h.Steps = append(h.Steps, Op{K: "unstake", Who: w, Pid: target(), D: -1, Amt: []string{"all", "half", "half", "1"}[r.Intn(4)], Smart: true})
		case 2:
			h.Steps = append(h.Steps, Op{K: "harvest", Who: w, Pid: target(), Smart: true})
		case 3:
			h.Steps = append(h.Steps, Op{K: "next", N: 1})
		case 4:
			op := Op{K: "adjust", Who: 0, Pid: target(), Smart: false}
			if r.Chance(1, 2) {
				op.Add = []Coin{{D: -1, A: smallOrBig(r, 8).String()}}
			} else {
				op.Rpb = []Coin{{D: -1, A: smallOrBig(r, 6).String()}}
			}
			h.Steps = append(h.Steps, op)
		case 5:
			h.Steps = append(h.Steps, Op{K: "destroy", Who: 0, Pid: target()})
		case 6:
			h.Steps = append(h.Steps, Op{K: "toend", Pid: target(), N: []int{0, 0, 1}[r.Intn(3)]})
		}
	}
	h.Steps = append(h.Steps, Op{K: "toend", Pid: 1, N: r.Intn(2)})
	return h
}

func gen(r *lib.Rand, tier, stream string, i int) History {
	if stream == "manypools" {
		return genManyPools(r, tier)
	}
	n := 10 + r.Intn(50)
	if tier == "thorough" {
		n = 10 + r.Intn(120)
	}
	var h History
	npools := 1
	if r.Chance(1, 5) {
		// an exact budget, somebody staked from the start block on, the pool runs out naturally
		h.Steps = append(h.Steps, genCreateExact(r, 0), Op{K: "stake", Who: 1 + r.Intn(3), Pid: 1, D: -1, Amt: smallOrBig(r, 12).String()})
		if r.Chance(1, 2) {
			h.Steps = append(h.Steps, Op{K: "next", N: 1}, Op{K: "stake", Who: 1 + r.Intn(3), Pid: 1, D: -1, Amt: smallOrBig(r, 12).String()})
		}
		n = 4 + r.Intn(12)
	} else {
		h.Steps = append(h.Steps, genCreate(r, 0))
	}
	if r.Chance(1, 3) {
		h.Steps = append(h.Steps, genCreate(r, []int{0, 0, 1}[r.Intn(3)]))
		npools = 2
	}
	farmer := func() int {
		if r.Chance(1, 10) {
			return 0
		}
		return 1 + r.Intn(3)
	}
	pid := func() int { return 1 + r.Intn(npools) }
	for k := 0; k < n; k++ {
		switch r.Weighted(30, 18, 14, 26, 6, 1, 2, 3, 3, 5, 3) {
		case 10: // a parameter change (creation fee / tax rate), mostly by the authority, mostly valid; often a pool is created right after
			op := Op{K: "params", Who: -1,
				Fee: []string{"0", "1", "7", "5000", "4999", "123456789", "1000000000000000000000000"}[r.Intn(7)],
				Tax: []string{"400000000000000000", "1", "999999999999999999", "333333333333333333", "500000000000000000", "100000000000000000"}[r.Intn(6)]}
			switch r.Intn(8) {
			case 0:
				op.Who = farmer() // not the authority
			case 1:
				op.Tax = []string{"0", "1000000000000000000", "-1", "1000000000000000001"}[r.Intn(4)]
			case 2:
				op.Fee = []string{"-1", "57896044618658097711785492504343953926634992332820282019728792003956564819968"}[r.Intn(2)] // negative, 2^255
			}
			h.Steps = append(h.Steps, op)
			if npools < 4 && r.Chance(2, 3) {
				h.Steps = append(h.Steps, genCreate(r, []int{0, 0, 2}[r.Intn(3)]))
				npools++
			}
		case 9: // operations in exactly the pool's last block, at least one block after the last settlement
			pp := pid()
			h.Steps = append(h.Steps, Op{K: "toend", Pid: pp, N: 0})
			for q := 1 + r.Intn(2); q > 0; q-- {
				switch r.Intn(3) {
				case 0:
					h.Steps = append(h.Steps, Op{K: "unstake", Who: farmer(), Pid: pp, D: -1, Amt: []string{"all", "half"}[r.Intn(2)], Smart: true})
				case 1:
					h.Steps = append(h.Steps, Op{K: "harvest", Who: farmer(), Pid: pp, Smart: true})
				default:
					h.Steps = append(h.Steps, Op{K: "stake", Who: farmer(), Pid: pp, D: -1, Amt: smallOrBig(r, 12).String(), Smart: true})
				}
			}
		case 0:
			h.Steps = append(h.Steps, Op{K: "stake", Who: farmer(), Pid: pid(), D: -1, Amt: smallOrBig(r, 20).String(), Smart: r.Chance(9, 10)})
		case 1:
			amt := []string{"all", "all", "all", "half", "half", "1", "over"}[r.Intn(7)]
			if r.Chance(1, 6) {
				amt = smallOrBig(r, 6).String()
			}
			h.Steps = append(h.Steps, Op{K: "unstake", Who: farmer(), Pid: pid(), D: -1, Amt: amt, Smart: r.Chance(9, 10)})
		case 2:
			h.Steps = append(h.Steps, Op{K: "harvest", Who: farmer(), Pid: pid(), Smart: r.Chance(9, 10)})
		case 3:
			nb := 1
			if r.Chance(1, 4) {
				nb = 1 + r.Intn(6)
			}
			h.Steps = append(h.Steps, Op{K: "next", N: nb})
		case 4: // adjust by the creator: top-up and / or per-block change
			op := Op{K: "adjust", Who: 0, Pid: pid(), Smart: true}
			if r.Chance(1, 12) {
				op.Who = farmer()
				op.Smart = false
			}
			mode := r.Weighted(4, 3, 3)
			pick := func() []int { // denominations: resolved against the pool at execution ("-1" = first rule, "-2" = second, "-3" = all)
				return []int{-1 - r.Intn(3)}
			}
			if mode == 0 || mode == 2 {
				for _, d := range pick() {
					op.Add = append(op.Add, Coin{D: d, A: smallOrBig(r, 15).String()})
				}
			}
			if mode == 1 || mode == 2 {
				for _, d := range pick() {
					op.Rpb = append(op.Rpb, Coin{D: d, A: smallOrBig(r, 14).String()})
				}
			}
			h.Steps = append(h.Steps, op)
		case 5:
			op := Op{K: "destroy", Who: 0, Pid: pid(), Smart: true}
			if r.Chance(1, 5) {
				op.Who = farmer()
				op.Smart = false
			}
			h.Steps = append(h.Steps, op)
		case 6:
			if npools < 3 {
				h.Steps = append(h.Steps, genCreate(r, []int{0, 0, 0, 2}[r.Intn(4)]))
				npools++
			}
		case 7: // advance to the pool's last block (or around it) so that operations land there
			h.Steps = append(h.Steps, Op{K: "toend", Pid: pid(), N: []int{0, 0, 0, -1, 1}[r.Intn(5)]})
		case 8: // malformed minority
			switch r.Intn(6) {
			case 0:
				h.Steps = append(h.Steps, Op{K: "stake", Who: farmer(), Pid: 7, D: -1, Amt: "5"})
			case 1:
				h.Steps = append(h.Steps, Op{K: "stake", Who: farmer(), Pid: pid(), D: 2, Amt: "5"})
			case 2:
				h.Steps = append(h.Steps, Op{K: "stake", Who: farmer(), Pid: pid(), D: -1, Amt: "0"})
			case 3:
				h.Steps = append(h.Steps, Op{K: "unstake", Who: farmer(), Pid: pid(), D: -1, Amt: "0"})
			case 4:
				op := genCreate(r, 0)
				op.Lpt = 2 // not a liquidity token
				h.Steps = append(h.Steps, op)
			case 5:
				h.Steps = append(h.Steps, Op{K: "stake", Who: farmer(), Pid: pid(), D: -1, Amt: "-3"})
			}
		}
	}
	// sometimes let the pools run out before the epilogue
	if r.Chance(1, 3) {
		h.Steps = append(h.Steps, Op{K: "toend", Pid: 1, N: r.Intn(3)})
	}
	return h
}

// ------------------------------------------------------------------ observation

type env struct {
	e       *lib.Env
	k       farmkeeper.Keeper
	addrs   map[int]sdk.AccAddress
	supply0 []sdkmath.Int
}

type ruleObs struct {
	D                   int
	Total, Rem, PB, RPS *big.Int
}
type finfoObs struct {
	Locked *big.Int
	Debt   []*big.Int
}
type poolObs struct {
	ID               int
	Creator          int
	Start, End, Last int64
	Lpt              int
	Locked           *big.Int
	Editable         bool
	Rules            []ruleObs
	Farmers          map[int]finfoObs
	InQueue          bool
}
type snapshot struct {
	Pools []poolObs
	Queue [][2]int64
	Bals  map[int][]*big.Int
}

func denomIdx(s string) int {
	for i, n := range denomNames {
		if n == s {
			return i
		}
	}
	return 99
}

func (v *env) actorIdx(addr string) int {
	for i, a := range v.addrs {
		if a.String() == addr {
			return i
		}
	}
	return -9
}

func (v *env) observe() snapshot {
	ctx := v.e.Ctx
	var s snapshot
	seq := int(v.k.GetSequence(ctx))
	// raw queue keys: 0x04 | be64(height) | pool id
	store := ctx.KVStore(v.e.App.GetKey(farmtypes.StoreKey))
	it := storetypes.KVStorePrefixIterator(store, farmtypes.ActiveFarmPoolKey)
	for ; it.Valid(); it.Next() {
		key := it.Key()
		h := int64(binary.BigEndian.Uint64(key[1:9]))
		var id int
		fmt.Sscanf(string(key[9:]), "farm-%d", &id)
		s.Queue = append(s.Queue, [2]int64{h, int64(id)})
	}
	it.Close()
	for id := 1; id <= seq; id++ {
		pid := fmt.Sprintf("farm-%d", id)
		p, ok := v.k.GetPool(ctx, pid)
		if !ok {
			continue
		}
		po := poolObs{ID: id, Creator: v.actorIdx(p.Creator), Start: p.StartHeight, End: p.EndHeight, Last: p.LastHeightDistrRewards,
			Lpt: denomIdx(p.TotalLptLocked.Denom), Locked: p.TotalLptLocked.Amount.BigInt(), Editable: p.Editable, Farmers: map[int]finfoObs{}}
		for _, r := range v.k.GetRewardRules(ctx, pid) {
			po.Rules = append(po.Rules, ruleObs{D: denomIdx(r.Reward), Total: r.TotalReward.BigInt(), Rem: r.RemainingReward.BigInt(),
				PB: r.RewardPerBlock.BigInt(), RPS: r.RewardPerShare.BigInt()})
		}
		for a := 0; a < nActors; a++ {
			fi, ok := v.k.GetFarmInfo(ctx, pid, v.addrs[a].String())
			if !ok {
				continue
			}
			fo := finfoObs{Locked: fi.Locked.BigInt()}
			for _, r := range po.Rules {
				fo.Debt = append(fo.Debt, fi.RewardDebt.AmountOf(denomNames[r.D]).BigInt())
			}
			po.Farmers[a] = fo
		}
		for _, q := range s.Queue {
			if q[0] == po.End && q[1] == int64(id) {
				po.InQueue = true
			}
		}
		s.Pools = append(s.Pools, po)
	}
	s.Bals = map[int][]*big.Int{}
	for _, a := range []int{0, 1, 2, 3, accFARM, accCOLL, accFEEC} {
		var bl []*big.Int
		for _, d := range denomNames {
			bl = append(bl, v.e.Balance(v.addrs[a], d).BigInt())
		}
		s.Bals[a] = bl
	}
	var burn []*big.Int
	for i, d := range denomNames {
		burn = append(burn, new(big.Int).Sub(v.supply0[i].BigInt(), v.e.Supply(d).BigInt()))
	}
	s.Bals[accBURN] = burn
	return s
}

func (s snapshot) pool(id int) *poolObs {
	for i := range s.Pools {
		if s.Pools[i].ID == id {
			return &s.Pools[i]
		}
	}
	return nil
}

func balsTerm(s snapshot) string {
	var xs []string
	for _, a := range []int{0, 1, 2, 3, accFARM, accCOLL, accFEEC, accBURN} {
		var bl []string
		for _, b := range s.Bals[a] {
			bl = append(bl, lib.ZB(b))
		}
		xs = append(xs, lib.Pair(lib.Z(int64(a)), lib.L(bl...)))
	}
	return lib.L(xs...)
}

func poolsTerm(s snapshot) string {
	var ps []string
	for _, p := range s.Pools {
		var rs []string
		for _, r := range p.Rules {
			rs = append(rs, lib.App("mkRule", lib.Z(int64(r.D)), lib.ZB(r.Total), lib.ZB(r.Rem), lib.ZB(r.PB), lib.ZB(r.RPS)))
		}
		var fs []string
		for a := 0; a < nActors; a++ {
			f, ok := p.Farmers[a]
			if !ok {
				continue
			}
			var ds []string
			for _, d := range f.Debt {
				ds = append(ds, lib.ZB(d))
			}
			fs = append(fs, lib.Pair(lib.Z(int64(a)), lib.App("mkF", lib.ZB(f.Locked), lib.L(ds...))))
		}
		ps = append(ps, lib.Pair(lib.Z(int64(p.ID)),
			lib.App("mkPool", lib.Z(int64(p.Creator)), lib.Z(p.Start), lib.Z(p.End), lib.Z(p.Last), lib.Z(int64(p.Lpt)),
				lib.ZB(p.Locked), lib.B(p.Editable), lib.L(rs...), lib.L(fs...))))
	}
	return lib.L(ps...)
}

func coinsTerm(cs sdk.Coins) string {
	var xs []string
	for _, c := range cs {
		xs = append(xs, lib.Pair(lib.Z(int64(denomIdx(c.Denom))), lib.ZI(c.Amount)))
	}
	return lib.L(xs...)
}

func obsTerm(code int, rw sdk.Coins, s snapshot) string {
	var q []string
	for _, e := range s.Queue {
		q = append(q, lib.Pair(lib.Z(e[0]), lib.Z(e[1])))
	}
	return lib.App("mkObs", lib.Z(int64(code)), coinsTerm(rw), poolsTerm(s), lib.L(q...), balsTerm(s))
}

// ------------------------------------------------------------------ execution

func bigOf(s string) *big.Int {
	x, ok := new(big.Int).SetString(s, 10)
	if !ok {
		return big.NewInt(0)
	}
	return x
}

func pow10(n int64) *big.Int { return new(big.Int).Exp(big.NewInt(10), big.NewInt(n), nil) }

func setup() *env {
	v := &env{addrs: map[int]sdk.AccAddress{}}
	bal := sdk.NewCoins(
		sdk.NewCoin("stake", sdkmath.NewIntFromBigInt(pow10(30))),
		sdk.NewCoin("rwd", sdkmath.NewIntFromBigInt(pow10(30))),
		sdk.NewCoin("btc", sdkmath.NewIntFromBigInt(pow10(30))),
		sdk.NewCoin("eth", sdkmath.NewIntFromBigInt(pow10(30))),
	)
	v.e = lib.NewEnv(lib.EnvOpts{NActors: nActors + 1, Balances: bal, Consumers: []interface{}{&v.k}})
	v.e.Blockers = []string{"farm"}
	for i := 0; i < nActors; i++ {
		v.addrs[i] = v.e.Actors[i]
	}
	v.addrs[accFARM] = lib.ModuleAddr(farmtypes.ModuleName)
	v.addrs[accCOLL] = lib.ModuleAddr(farmtypes.RewardCollector)
	v.addrs[accFEEC] = lib.ModuleAddr(authtypes.FeeCollectorName)
	// two coinswap pools (lpt-1, lpt-2) created by the extra actor, who hands liquidity tokens to the actors
	funder := v.e.Actors[nActors]
	for _, tok := range []string{"btc", "eth"} {
		o := v.e.Deliver(&coinswaptypes.MsgAddLiquidity{
			MaxToken:         sdk.NewCoin(tok, sdkmath.NewIntFromBigInt(pow10(28))),
			ExactStandardAmt: sdkmath.NewIntFromBigInt(pow10(28)),
			MinLiquidity:     sdkmath.NewInt(1),
			Deadline:         v.e.Time.Add(time.Hour).Unix(),
			Sender:           funder.String(),
		})
		if !o.OK() {
			panic("setup: add liquidity: " + o.Err)
		}
	}
	for i := 0; i < nActors; i++ {
		for _, lpt := range []string{"lpt-1", "lpt-2"} {
			if err := v.e.App.BankKeeper.SendCoins(v.e.Ctx, funder, v.addrs[i], sdk.NewCoins(sdk.NewCoin(lpt, sdkmath.NewIntFromBigInt(pow10(26))))); err != nil {
				panic(err)
			}
		}
	}
	v.e.BeginBlock(5 * time.Second)
	for _, d := range denomNames {
		v.supply0 = append(v.supply0, v.e.Supply(d))
	}
	return v
}

type concrete struct {
	term  string // Coq step
	text  string
	kind  string
	who   int
	pid   int
	topup map[int]*big.Int
	msg   sdk.Msg // nil for next
}

func coinsOf(cs []Coin) sdk.Coins {
	if len(cs) == 0 {
		return nil
	}
	var out sdk.Coins
	for _, c := range cs {
		out = append(out, sdk.Coin{Denom: denomNames[c.D], Amount: sdkmath.NewIntFromBigInt(bigOf(c.A))})
	}
	return out
}

func coinListTerm(cs []Coin) string {
	var xs []string
	for _, c := range cs {
		xs = append(xs, lib.Pair(lib.Z(int64(c.D)), lib.ZB(bigOf(c.A))))
	}
	return lib.L(xs...)
}

// resolve turns a symbolic operation into concrete steps against the observed state
// retarget a smart operation against the observed state: a farmer who has stake (unstake, harvest),
// a pool that is running (stake), a running editable pool and its creator (adjust, destroy)
func retarget(op Op, s snapshot, h int64) Op {
	if !op.Smart || len(s.Pools) == 0 {
		return op
	}
	running := func(p *poolObs) bool { return p.InQueue && p.Start <= h && h <= p.End }
	n := len(s.Pools)
	start := 0
	for i := range s.Pools {
		if s.Pools[i].ID == op.Pid {
			start = i
		}
	}
	switch op.K {
	case "unstake", "harvest":
		for i := 0; i < n; i++ {
			p := &s.Pools[(start+i)%n]
			if op.K == "harvest" && !running(p) {
				continue
			}
			for j := 0; j < nActors; j++ {
				w := (op.Who + j) % nActors
				if f, ok := p.Farmers[w]; ok && f.Locked.Sign() > 0 {
					op.Who, op.Pid = w, p.ID
					return op
				}
			}
		}
	case "stake":
		for i := 0; i < n; i++ {
			p := &s.Pools[(start+i)%n]
			if running(p) {
				op.Pid = p.ID
				return op
			}
		}
	case "adjust", "destroy":
		for i := 0; i < n; i++ {
			p := &s.Pools[(start+i)%n]
			if p.InQueue && h <= p.End && p.Editable && p.Creator >= 0 {
				op.Pid, op.Who = p.ID, p.Creator
				return op
			}
		}
	}
	return op
}

func (v *env) resolve(op Op, s snapshot) []concrete {
	h := v.e.Height
	op = retarget(op, s, h)
	pidStr := fmt.Sprintf("farm-%d", op.Pid)
	p := s.pool(op.Pid)
	lpt := op.D
	if lpt < 0 {
		lpt = 0
		if p != nil {
			lpt = p.Lpt
		}
	}
	switch op.K {
	case "next":
		n := op.N
		if n < 1 {
			n = 1
		}
		var out []concrete
		for i := 0; i < n; i++ {
			out = append(out, concrete{term: "NextBlock", text: "next", kind: "next"})
		}
		return out
	case "toend":
		if p == nil {
			return nil
		}
		n := p.End + int64(op.N) - h
		if n < 0 || n > 60 {
			return nil
		}
		var out []concrete
		for i := int64(0); i < n; i++ {
			out = append(out, concrete{term: "NextBlock", text: "next", kind: "next"})
		}
		return out
	case "create":
		start := h + op.StartOff
		var total, pb sdk.Coins
		var rs []string
		for _, r := range op.Rules {
			total = append(total, sdk.Coin{Denom: denomNames[r.D], Amount: sdkmath.NewIntFromBigInt(bigOf(r.Total))})
			pb = append(pb, sdk.Coin{Denom: denomNames[r.D], Amount: sdkmath.NewIntFromBigInt(bigOf(r.PB))})
			rs = append(rs, lib.Pair(lib.Z(int64(r.D)), lib.ZB(bigOf(r.Total)), lib.ZB(bigOf(r.PB))))
		}
		m := &farmtypes.MsgCreatePool{Description: "d", LptDenom: denomNames[op.Lpt], StartHeight: start, RewardPerBlock: pb,
			TotalReward: total, Editable: op.Editable, Creator: v.addrs[op.Who].String()}
		return []concrete{{term: lib.App("Msg", lib.App("CreatePool", lib.Z(int64(op.Who)), lib.Z(int64(op.Lpt)), lib.Z(start), lib.B(op.Editable), lib.L(rs...))),
			text: fmt.Sprintf("create by %d lpt %s start %d editable %v rules %v", op.Who, denomNames[op.Lpt], start, op.Editable, op.Rules), kind: "create", who: op.Who, msg: m}}
	case "stake", "unstake":
		var amt *big.Int
		locked := big.NewInt(0)
		if p != nil {
			if f, ok := p.Farmers[op.Who]; ok {
				locked = f.Locked
			}
		}
		switch op.Amt {
		case "all":
			amt = new(big.Int).Set(locked)
		case "half":
			amt = new(big.Int).Rsh(locked, 1)
			if amt.Sign() == 0 {
				amt = new(big.Int).Set(locked)
			}
		case "over":
			amt = new(big.Int).Add(locked, big.NewInt(1))
		default:
			amt = bigOf(op.Amt)
		}
		coin := sdk.Coin{Denom: denomNames[lpt], Amount: sdkmath.NewIntFromBigInt(amt)}
		if op.K == "stake" {
			return []concrete{{term: lib.App("Msg", lib.App("Stake", lib.Z(int64(op.Who)), lib.Z(int64(op.Pid)), lib.Z(int64(lpt)), lib.ZB(amt))),
				text: fmt.Sprintf("stake %d -> pool %d: %s", op.Who, op.Pid, coin), kind: "stake", who: op.Who, pid: op.Pid,
				msg: &farmtypes.MsgStake{PoolId: pidStr, Amount: coin, Sender: v.addrs[op.Who].String()}}}
		}
		return []concrete{{term: lib.App("Msg", lib.App("Unstake", lib.Z(int64(op.Who)), lib.Z(int64(op.Pid)), lib.Z(int64(lpt)), lib.ZB(amt))),
			text: fmt.Sprintf("unstake %d <- pool %d: %s", op.Who, op.Pid, coin), kind: "unstake", who: op.Who, pid: op.Pid,
			msg: &farmtypes.MsgUnstake{PoolId: pidStr, Amount: coin, Sender: v.addrs[op.Who].String()}}}
	case "harvest":
		return []concrete{{term: lib.App("Msg", lib.App("Harvest", lib.Z(int64(op.Who)), lib.Z(int64(op.Pid)))),
			text: fmt.Sprintf("harvest %d pool %d", op.Who, op.Pid), kind: "harvest", who: op.Who, pid: op.Pid,
			msg: &farmtypes.MsgHarvest{PoolId: pidStr, Sender: v.addrs[op.Who].String()}}}
	case "params":
		auth, whoTerm := authtypes.NewModuleAddress(govtypes.ModuleName).String(), int64(accAUTH)
		if op.Who >= 0 {
			auth, whoTerm = v.addrs[op.Who].String(), int64(op.Who)
		}
		fee, tax := bigOf(op.Fee), bigOf(op.Tax)
		ps := v.k.GetParams(v.e.Ctx)
		ps.PoolCreationFee = sdk.Coin{Denom: "stake", Amount: sdkmath.NewIntFromBigInt(fee)}
		ps.TaxRate = sdkmath.LegacyNewDecFromBigIntWithPrec(tax, 18)
		return []concrete{{term: lib.App("Msg", lib.App("UpdateParams", lib.Z(whoTerm), lib.ZB(fee), lib.ZB(tax))),
			text: fmt.Sprintf("params by %d: fee %s tax %s/10^18", whoTerm, fee, tax), kind: "params", who: op.Who,
			msg: &farmtypes.MsgUpdateParams{Authority: auth, Params: ps}}}
	case "destroy":
		return []concrete{{term: lib.App("Msg", lib.App("Destroy", lib.Z(int64(op.Who)), lib.Z(int64(op.Pid)))),
			text: fmt.Sprintf("destroy pool %d by %d", op.Pid, op.Who), kind: "destroy", who: op.Who, pid: op.Pid,
			msg: &farmtypes.MsgDestroyPool{PoolId: pidStr, Creator: v.addrs[op.Who].String()}}}
	case "adjust":
		res := func(cs []Coin) []Coin { // negative denominations select the pool's rules
			var out []Coin
			for _, c := range cs {
				if c.D >= 0 {
					out = append(out, c)
					continue
				}
				if p == nil || len(p.Rules) == 0 {
					out = append(out, Coin{D: 3, A: c.A})
					continue
				}
				switch c.D {
				case -1:
					out = append(out, Coin{D: p.Rules[0].D, A: c.A})
				case -2:
					out = append(out, Coin{D: p.Rules[len(p.Rules)-1].D, A: c.A})
				default:
					for i, r := range p.Rules {
						a := new(big.Int).Add(bigOf(c.A), big.NewInt(int64(i)))
						out = append(out, Coin{D: r.D, A: a.String()})
					}
				}
			}
			sort.Slice(out, func(i, j int) bool { return out[i].D < out[j].D })
			return out
		}
		add, rpb := res(op.Add), res(op.Rpb)
		tp := map[int]*big.Int{}
		for _, c := range add {
			tp[c.D] = bigOf(c.A)
		}
		return []concrete{{term: lib.App("Msg", lib.App("Adjust", lib.Z(int64(op.Who)), lib.Z(int64(op.Pid)), coinListTerm(add), coinListTerm(rpb))),
			text: fmt.Sprintf("adjust pool %d by %d add %v per-block %v", op.Pid, op.Who, add, rpb), kind: "adjust", who: op.Who, pid: op.Pid, topup: tp,
			msg: &farmtypes.MsgAdjustPool{PoolId: pidStr, AdditionalReward: coinsOf(add), RewardPerBlock: coinsOf(rpb), Creator: v.addrs[op.Who].String()}}}
	}
	return nil
}

// reference of fair shares, independent of the module's bookkeeping: at the start of every block
// each active pool (still queued, block <= end height) whose total stake is positive owes that
// block's reward to the farmers in proportion to the stakes they hold at that moment.
type fairKey struct{ W, Pid, D int }

func accrueBlock(fair map[fairKey]*big.Rat, s snapshot, h int64) {
	for _, p := range s.Pools {
		if !p.InQueue || h > p.End || p.Locked.Sign() <= 0 {
			continue
		}
		for _, r := range p.Rules {
			for w, f := range p.Farmers {
				if f.Locked.Sign() <= 0 {
					continue
				}
				k := fairKey{w, p.ID, r.D}
				if fair[k] == nil {
					fair[k] = new(big.Rat)
				}
				num := new(big.Int).Mul(r.PB, f.Locked)
				fair[k].Add(fair[k], new(big.Rat).SetFrac(num, p.Locked))
			}
		}
	}
}

var p18 = pow10(18)

func exec(h History) lib.Case {
	v := setup()
	c := lib.Case{Stats: map[string]int{}}
	s := v.observe()
	h0 := v.e.Height
	initBals := balsTerm(s)
	var steps []string
	fair := map[fairKey]*big.Rat{}
	overlap, fractional := false, false
	paramsChanged := false

	runOne := func(cs concrete) {
		var code int
		var rw sdk.Coins
		if cs.kind == "next" {
			o := v.e.EndBlock()
			if !o.OK() {
				code = o.Code()
				c.Notes = append(c.Notes, "end blocker: "+o.Err)
			}
			v.e.BeginBlock(5 * time.Second)
			// the block that just opened: accrue by the stakes standing at its start
			accrueBlock(fair, v.observe(), v.e.Height)
			lib.Stat(c.Stats, "op:next")
		} else {
			o := v.e.Deliver(cs.msg)
			code = o.Code()
			lib.Stat(c.Stats, "op:"+cs.kind)
			lib.Stat(c.Stats, "res:"+o.Kind)
			if cs.kind == "params" {
				lib.Stat(c.Stats, "params:"+o.Kind)
				if o.OK() {
					paramsChanged = true
				}
			} else if cs.kind == "create" && paramsChanged {
				lib.Stat(c.Stats, "create-after-params:"+o.Kind)
			}
			if o.OK() {
				switch r := o.Resp.(type) {
				case *farmtypes.MsgStakeResponse:
					rw = r.Reward
				case *farmtypes.MsgUnstakeResponse:
					rw = r.Reward
				case *farmtypes.MsgHarvestResponse:
					rw = r.Reward
				}
			} else if cs.kind == "unstake" || cs.kind == "epilogue" {
				cs.text += " !! " + o.Err
			}
			cs.text += fmt.Sprintf(" -> %s %s", o.Kind, rw)
		}
		s = v.observe()
		for _, p := range s.Pools {
			n := 0
			for _, f := range p.Farmers {
				if f.Locked.Sign() > 0 {
					n++
					for _, r := range p.Rules {
						if new(big.Int).Mod(new(big.Int).Mul(r.RPS, f.Locked), p18).Sign() != 0 {
							fractional = true
						}
					}
				}
			}
			if n >= 2 {
				overlap = true
			}
		}
		steps = append(steps, lib.Pair(cs.term, obsTerm(code, rw, s)))
		c.Steps = append(c.Steps, fmt.Sprintf("h%d %s", v.e.Height, cs.text))
	}

	for _, op := range h.Steps {
		for _, cs := range v.resolve(op, s) {
			runOne(cs)
		}
	}
	// full-withdrawal epilogue
	for _, p := range s.Pools {
		for a := 0; a < nActors; a++ {
			cur := s.pool(p.ID)
			if cur == nil {
				continue
			}
			if _, ok := cur.Farmers[a]; !ok {
				continue
			}
			for _, cs := range v.resolve(Op{K: "unstake", Who: a, Pid: p.ID, D: -1, Amt: "all"}, s) {
				cs.text = "epilogue " + cs.text
				lib.Stat(c.Stats, "op:epilogue-unstake")
				runOne(cs)
			}
		}
	}
	var fr []string
	keys := make([]fairKey, 0, len(fair))
	for k := range fair {
		keys = append(keys, k)
	}
	sort.Slice(keys, func(i, j int) bool {
		a, b := keys[i], keys[j]
		if a.W != b.W {
			return a.W < b.W
		}
		if a.Pid != b.Pid {
			return a.Pid < b.Pid
		}
		return a.D < b.D
	})
	for _, k := range keys {
		// only pools whose accounting is settled up to the current block can be compared
		if p := s.pool(k.Pid); p != nil && p.InQueue && p.Locked.Sign() > 0 && p.Last < v.e.Height {
			continue
		}
		fr = append(fr, lib.Pair(lib.Z(int64(k.W)), lib.Z(int64(k.Pid)), lib.Z(int64(k.D)), lib.ZB(fair[k].Num()), lib.ZB(fair[k].Denom())))
	}
	c.Coq = lib.App("mkCase", lib.Z(h0), initBals, lib.L(steps...), lib.L(fr...))
	c.NonTrivial = overlap && fractional
	if strings.Contains(strings.Join(c.Steps, "\n"), "insufficient funds") {
		lib.Stat(c.Stats, "note:some-op-insufficient-funds")
	}
	return c
}

func main() {
	lib.Main(lib.Driver[History]{Gen: gen, Exec: exec})
}
