// service: driver of the service module (properties C07 and C08).
//
// A history is a parameter set (genesis params of the service module, balances) and a list
// of abstract steps.  Steps that address a context / request / binding owner carry selectors
// that are resolved against the implementation's current state when the history is executed
// (so that most operations hit live objects); the Coq term of the case carries the resolved,
// concrete step in the model's vocabulary together with the full observation after the step.
package main

import (
	"crypto/sha256"
	"encoding/binary"
	"encoding/hex"
	"fmt"
	"math/big"
	"sort"
	"strings"
	"time"

	sdkmath "cosmossdk.io/math"
	storetypes "cosmossdk.io/store/types"
	"github.com/cosmos/cosmos-sdk/codec"
	sdk "github.com/cosmos/cosmos-sdk/types"
	banktypes "github.com/cosmos/cosmos-sdk/x/bank/types"
	gogotypes "github.com/cosmos/gogoproto/types"
	"github.com/tidwall/gjson"

	tmbytes "github.com/cometbft/cometbft/libs/bytes"

	servicekeeper "mods.irisnet.org/modules/service/keeper"
	servicetypes "mods.irisnet.org/modules/service/types"
	"mods.irisnet.org/simapp"

	"verifharness/lib"
)

// ---------------------------------------------------------------- history vocabulary

type PT struct {
	S, E int64  // offsets from the start time, seconds
	D    string // discount, scaled by 10^18
}
type PV struct {
	V int64
	D string
}
type Pricing struct {
	D  int   // denom index
	A  int64 // amount
	PT []PT  `json:",omitempty"`
	PV []PV  `json:",omitempty"`
}

type Cfg struct {
	Tax, Slash string // scaled by 10^18
	MaxTo      int64
	Mult       int64
	MinDep     int64
	WaitA      int64 // arbitration time limit, seconds
	WaitC      int64 // complaint retrospect, seconds
	Restricted bool
	Bal        [][]int64 // per actor, per denom
	ModSvc     bool      `json:",omitempty"` // service "svcc" is served by a module (RegisterModuleService), provider = actor 4
}

type Step struct {
	K       string   `json:"k"`
	Svc     int      `json:"svc,omitempty"`
	Prov    int      `json:"prov,omitempty"`
	Own     int      `json:"own,omitempty"` // owner selection: 0 = the provider's registered/default owner, 1 = the other owner
	Who     int      `json:"who,omitempty"` // explicit actor (author, consumer, withdraw address, transfer source)
	To      int      `json:"to,omitempty"`
	DepD    int      `json:"depd,omitempty"`
	DepA    int64    `json:"depa,omitempty"`
	Pr      *Pricing `json:"pr,omitempty"`
	Qos     int64    `json:"qos,omitempty"`
	Opt     int      `json:"opt,omitempty"`
	Bad     bool     `json:"bad,omitempty"` // malformed variant
	Provs   []int    `json:"provs,omitempty"`
	CapD    int      `json:"capd,omitempty"`
	CapA    int64    `json:"capa,omitempty"`
	Timeout int64    `json:"timeout,omitempty"`
	Rep     bool     `json:"rep,omitempty"`
	Freq    int64    `json:"freq,omitempty"`
	Total   int64    `json:"total,omitempty"`
	Sel     int      `json:"sel,omitempty"`  // selector of a context / request
	Mode    int      `json:"mode,omitempty"` // see exec
	Kind    int      `json:"kind,omitempty"`
	Dt      int64    `json:"dt,omitempty"`
	D       int      `json:"d,omitempty"`
	Rate    string   `json:"rate,omitempty"` // scaled; "" = remove
	Amt     int64    `json:"amt,omitempty"`
	St      int      `json:"st,omitempty"`
	Thr     int64    `json:"thr,omitempty"`
}

type History struct {
	Cfg   Cfg
	Steps []Step
}

const nActors = 8

// denom indices follow the order of the names (sdk.Coins are sorted by denom)
var denomNames = []string{"stake", "zgold"}
var svcNames = []string{"svca", "svcb", "svcc"}

// default owner of a provider (actors 0,1 are owners; 2,3,4 providers; 5,6 consumers; 7 spare)
func defaultOwner(p int) int {
	if p == 4 {
		return 1
	}
	return 0
}

// ---------------------------------------------------------------- generator

var fracs = []string{"0", "1000000000000", "50000000000000000", "1000000000000000", "300000000000000000", "999999000000000000", "1000000000000000000"}

func genPricing(r *lib.Rand, allowGold bool) *Pricing {
	p := &Pricing{D: 0}
	if allowGold && r.Chance(1, 3) {
		p.D = 1
	}
	switch r.Weighted(1, 6, 3, 2) {
	case 0:
		p.A = 0
	case 1:
		p.A = r.Range(1, 400)
	case 2:
		p.A = r.Range(1, 9)
	default:
		p.A = r.Range(400, 3000)
	}
	discs := []string{"500000000000000000", "900000000000000000", "333333333333333333", "10000000000000000", "999999999999999999", "750000000000000000", "1"}
	if r.Chance(3, 5) {
		n := 1 + r.Intn(2)
		t := r.Range(0, 30)
		for i := 0; i < n; i++ {
			len_ := r.Range(5, 60)
			p.PT = append(p.PT, PT{S: t, E: t + len_, D: discs[r.Intn(len(discs))]})
			t += len_ + r.Range(0, 20)
		}
	}
	if r.Chance(1, 2) {
		n := 1 + r.Intn(2)
		v := r.Range(1, 3)
		for i := 0; i < n; i++ {
			p.PV = append(p.PV, PV{V: v, D: discs[r.Intn(len(discs))]})
			v += r.Range(1, 3)
		}
	}
	return p
}

// genSched: stream "sched" — one or two REPEATED contexts whose frequency is several blocks
// larger than their timeout, driven block by block over more than three periods, with
// pause / start pairs (and a few strangers' attempts, responses, a rare update or kill) placed
// uniformly over the whole period, in particular in the gap between the expiry of batch n and
// the scheduled height of batch n+1.
func genSched(r *lib.Rand, tier string) History {
	var h History
	c := &h.Cfg
	c.Tax = "50000000000000000"
	c.Slash = []string{"0", "1000000000000000"}[r.Intn(2)]
	c.MaxTo = r.Range(4, 8)
	c.Mult = r.Range(1, 5)
	c.MinDep = r.Range(50, 200)
	c.WaitA, c.WaitC = 2, 2
	c.Restricted = true
	for a := 0; a < nActors; a++ {
		c.Bal = append(c.Bal, []int64{1000000000, 1000000000})
	}
	h.Steps = append(h.Steps, Step{K: "define", Svc: 0, Who: 0})
	for p := 2; p <= 3; p++ {
		pr := &Pricing{D: 0, A: r.Range(1, 50)}
		h.Steps = append(h.Steps, Step{K: "bind", Svc: 0, Prov: p, DepA: pr.A*c.Mult*3 + c.MinDep + 5000, Pr: pr, Qos: 1, Opt: 1})
	}
	timeout := r.Range(1, 4)
	freq := timeout + r.Range(3, 9)
	nctx := 1 + r.Weighted(3, 1)
	// two in five runs: the contexts belong to a module (keeper-level create / pause / start, callbacks recorded)
	owned := r.Chance(2, 5)
	pauseK, startK := "pause", "start"
	if owned {
		pauseK, startK = "modpause", "modstart"
	}
	for k := 0; k < nctx; k++ {
		s := Step{K: "call", Svc: 0, Who: 5, CapA: 100000, Timeout: timeout, Rep: true, Freq: freq, Total: []int64{-1, -1, 4, 6}[r.Intn(4)]}
		s.Provs = [][]int{{2}, {2, 3}, {3}}[r.Intn(3)]
		if k == 1 {
			s.Timeout = r.Range(1, 4)
			s.Freq = s.Timeout + r.Range(2, 6)
		}
		if owned {
			s.K = "modcreate"
			s.Thr = r.Range(1, int64(len(s.Provs)))
		}
		h.Steps = append(h.Steps, s)
	}
	blocks := int(3*freq) + r.Intn(int(freq)+2)
	if tier == "thorough" {
		blocks += r.Intn(int(2 * freq))
	}
	// pause / start pairs: pause at block a, start at block b > a, anywhere in the run
	events := map[int][]Step{}
	npairs := 1 + r.Weighted(3, 2, 1)
	for k := 0; k < npairs; k++ {
		a := 1 + r.Intn(blocks-2)
		b := a + 1 + r.Intn(int(freq))
		if r.Chance(1, 3) {
			b = a // pause and start inside one block
		} else if r.Chance(1, 3) {
			b = a + int(freq) + r.Intn(int(freq)+1) // stay paused across the scheduled height of the next batch
		}
		sel := r.Intn(1000)
		events[a] = append(events[a], Step{K: pauseK, Sel: sel})
		events[b] = append(events[b], Step{K: startK, Sel: sel})
	}
	for k := r.Weighted(2, 2, 1); k > 0; k-- {
		b := 1 + r.Intn(blocks-1)
		switch r.Weighted(3, 2, 1, 1) {
		case 0:
			events[b] = append(events[b], Step{K: []string{pauseK, startK}[r.Intn(2)], Sel: r.Intn(1000), Mode: 1})
		case 1:
			events[b] = append(events[b], Step{K: startK, Sel: r.Intn(1000)})
		case 2:
			events[b] = append(events[b], Step{K: "updctx", Sel: r.Intn(1000), Freq: freq + r.Range(0, 3)})
		default:
			events[b] = append(events[b], Step{K: "kill", Sel: r.Intn(1000)})
		}
	}
	for b := 0; b < blocks; b++ {
		h.Steps = append(h.Steps, events[b]...)
		h.Steps = append(h.Steps, Step{K: "end", Dt: r.Range(1, 8)})
		if r.Chance(1, 3) {
			h.Steps = append(h.Steps, Step{K: "respond", Sel: r.Intn(1000), Kind: 1})
		}
	}
	return h
}

// genThr: stream "thr" — module-owned contexts with two or three providers whose RESPONSE THRESHOLD is
// edited through the owning module's keeper path (as oracle EditFeed does) WHILE A BATCH IS OUT; some of
// the providers answer, the others stay silent until the batch expires, so that the number of valid
// outputs often lies between the threshold the batch was issued with and the edited one.  Only the
// callbacks are judged (Service.CheckX.check_case_thr): "modupdate" is not a step of the model.
func genThr(r *lib.Rand, tier string) History {
	var h History
	c := &h.Cfg
	c.Tax = "50000000000000000"
	c.Slash = "0"
	c.MaxTo = r.Range(4, 8)
	c.Mult = r.Range(1, 5)
	c.MinDep = r.Range(50, 200)
	c.WaitA, c.WaitC = 2, 2
	c.Restricted = true
	for a := 0; a < nActors; a++ {
		c.Bal = append(c.Bal, []int64{1000000000, 1000000000})
	}
	h.Steps = append(h.Steps, Step{K: "define", Svc: 0, Who: 0})
	for p := 2; p <= 4; p++ {
		pr := &Pricing{D: 0, A: r.Range(1, 50)}
		h.Steps = append(h.Steps, Step{K: "bind", Svc: 0, Prov: p, DepA: pr.A*c.Mult*3 + c.MinDep + 5000, Pr: pr, Qos: 1, Opt: 1})
	}
	timeout := r.Range(2, 4)
	freq := timeout + r.Range(1, 4)
	provs := [][]int{{2, 3}, {2, 3, 4}, {3, 4}}[r.Intn(3)]
	s := Step{K: "modcreate", Svc: 0, Who: 5, CapA: 100000, Timeout: timeout, Rep: true, Freq: freq, Total: -1, Provs: provs}
	s.Thr = r.Range(1, int64(len(provs)))
	h.Steps = append(h.Steps, s)
	blocks := int(3*freq) + r.Intn(int(freq)+2)
	if tier == "thorough" {
		blocks += r.Intn(int(2 * freq))
	}
	for b := 0; b < blocks; b++ {
		h.Steps = append(h.Steps, Step{K: "end", Dt: r.Range(1, 8)})
		// after most block ends: a threshold edit, then zero, one or two answers
		if r.Chance(2, 3) {
			h.Steps = append(h.Steps, Step{K: "modupdate", Sel: r.Intn(1000), Thr: r.Range(1, int64(len(provs)))})
		}
		for k := r.Weighted(2, 3, 2); k > 0; k-- {
			h.Steps = append(h.Steps, Step{K: "respond", Sel: r.Intn(1000), Kind: 1})
		}
	}
	return h
}

func gen(r *lib.Rand, tier, stream string, i int) History {
	if stream == "sched" {
		return genSched(r, tier)
	}
	if stream == "thr" {
		return genThr(r, tier)
	}
	var h History
	c := &h.Cfg
	c.Tax = []string{"0", "1000000000000", "50000000000000000", "999999000000000000", "50000000000000000", "100000000000000000"}[r.Intn(6)]
	c.Slash = []string{"0", "1000000000000000", "300000000000000000", "1000000000000000000", "1000000000000000", "500000000000000000"}[r.Intn(6)]
	c.MaxTo = r.Range(4, 8)
	c.Mult = r.Range(1, 20)
	c.MinDep = r.Range(50, 500)
	c.WaitA = r.Range(1, 10)
	c.WaitC = r.Range(1, 10)
	c.Restricted = r.Chance(1, 3)
	for a := 0; a < nActors; a++ {
		b := []int64{1000000000, 1000000000}
		if a == 6 { // a consumer that runs out of funds
			b = []int64{r.Range(0, 3000), r.Range(0, 2000)}
		}
		if a == 5 && r.Chance(1, 4) {
			b = []int64{r.Range(500, 20000), r.Range(0, 5000)}
		}
		c.Bal = append(c.Bal, b)
	}
	n := 20 + r.Intn(40)
	if tier == "thorough" {
		n = 20 + r.Intn(90)
	}
	gold := !c.Restricted
	c.ModSvc = r.Chance(2, 5)
	// preamble: definitions, an exchange rate, bindings
	h.Steps = append(h.Steps, Step{K: "define", Svc: 0, Who: 0})
	if r.Chance(1, 2) {
		h.Steps = append(h.Steps, Step{K: "define", Svc: 1, Who: 1})
	}
	if gold && r.Chance(4, 5) {
		h.Steps = append(h.Steps, Step{K: "rate", D: 1, Rate: []string{"1500000000000000000", "1000000000000000000", "300000000000000000", "2000000000000000000"}[r.Intn(4)]})
	}
	bindStep := func(svc, prov int) Step {
		pr := genPricing(r, gold)
		dep := pr.A*c.Mult*3 + c.MinDep + r.Range(0, 5000)
		if r.Chance(1, 10) {
			dep = r.Range(1, c.MinDep)
		}
		qos := r.Range(1, 2)
		if r.Chance(1, 4) {
			qos = r.Range(1, c.MaxTo)
		}
		return Step{K: "bind", Svc: svc, Prov: prov, DepA: dep, Pr: pr, Qos: qos, Opt: 1}
	}
	for p := 2; p <= 4; p++ {
		if r.Chance(5, 6) {
			h.Steps = append(h.Steps, bindStep(0, p))
		}
	}
	if c.ModSvc {
		h.Steps = append(h.Steps, Step{K: "define", Svc: 2, Who: 1})
		if r.Chance(5, 6) {
			b := bindStep(2, 4)
			b.K = "modbind" // only the module itself can bind a service it serves
			h.Steps = append(h.Steps, b)
		}
	}
	callStep := func() Step {
		svcW := []int{16, 2, 1}
		if c.ModSvc {
			svcW = []int{12, 1, 6}
		}
		s := Step{K: "call", Svc: r.Weighted(svcW...), Who: 5 + r.Weighted(3, 1), CapA: []int64{100000, 100000, 100000, 100000, 500, 50, 1}[r.Intn(7)], Timeout: r.Range(2, c.MaxTo)}
		if r.Chance(1, 6) {
			s.Timeout = 1
		}
		np := 1 + r.Intn(3)
		perm := []int{2, 3, 4}
		for k := 0; k < 3; k++ {
			j := k + r.Intn(3-k)
			perm[k], perm[j] = perm[j], perm[k]
		}
		s.Provs = perm[:np]
		if r.Chance(1, 2) {
			s.Rep = true
			s.Freq = []int64{0, s.Timeout, s.Timeout + 1, s.Timeout + r.Range(0, 4)}[r.Intn(4)]
			s.Total = []int64{-1, 1, 2, 3, 5}[r.Intn(5)]
		}
		switch r.Weighted(20, 1, 1, 1, 1, 1) {
		case 1:
			s.Bad = true // invalid input
		case 2:
			s.CapD = 1
		case 3:
			s.Timeout = c.MaxTo + 1
		case 4:
			s.Provs = []int{2, 2}
		case 5:
			if s.Rep {
				s.Total = 0
			} else {
				s.CapA = 0
			}
		}
		return s
	}
	for k := 0; k < n; k++ {
		respondStep := func() Step {
			s := Step{K: "respond", Sel: r.Intn(1000), Kind: r.Weighted(2, 6, 1)}
			s.Mode = r.Weighted(20, 2, 2, 1)
			return s
		}
		switch r.Weighted(14, 8, 26, 5, 9, 4, 2, 2, 2, 1, 2, 2, 4, 3, 3) {
		case 0:
			h.Steps = append(h.Steps, callStep())
			if r.Chance(1, 2) {
				h.Steps = append(h.Steps, Step{K: "end", Dt: r.Range(1, 12)})
				for j := r.Intn(3); j > 0; j-- {
					h.Steps = append(h.Steps, respondStep())
				}
			}
		case 1:
			h.Steps = append(h.Steps, respondStep())
		case 2:
			h.Steps = append(h.Steps, Step{K: "end", Dt: r.Range(1, 12)})
			for j := r.Weighted(3, 2, 1); j > 0; j-- {
				h.Steps = append(h.Steps, respondStep())
			}
		case 3:
			h.Steps = append(h.Steps, Step{K: "withdraw", Prov: 2 + r.Intn(3), Own: r.Weighted(8, 1), Mode: r.Weighted(12, 1)})
		case 4:
			s := Step{K: []string{"pause", "start", "kill", "updctx"}[r.Weighted(4, 4, 2, 3)], Sel: r.Intn(1000), Mode: r.Weighted(10, 2, 1)}
			if s.K == "updctx" {
				switch r.Intn(4) {
				case 0:
					s.Timeout = r.Range(1, c.MaxTo)
					s.Freq = s.Timeout + r.Range(0, 3)
				case 1:
					s.Freq = r.Range(1, c.MaxTo+3)
				case 2:
					s.Total = []int64{-1, 1, 2, 4}[r.Intn(4)]
					s.CapA = []int64{0, 100000, 10}[r.Intn(3)]
				default:
					s.Provs = [][]int{{2}, {3, 4}, {2, 3, 4}, {4, 2}}[r.Intn(4)]
				}
			}
			h.Steps = append(h.Steps, s)
		case 5:
			s := Step{K: "updbind", Svc: r.Weighted(6, 1), Prov: 2 + r.Intn(3), Own: r.Weighted(10, 1)}
			switch r.Intn(4) {
			case 0:
				s.DepA = r.Range(1, 5000)
			case 1:
				s.Pr = genPricing(r, gold)
			case 2:
				s.Qos = r.Range(1, c.MaxTo+1)
			default:
				s.Opt = 1 + r.Weighted(5, 1)
				s.DepA = r.Range(0, 100)
			}
			h.Steps = append(h.Steps, s)
		case 6:
			h.Steps = append(h.Steps, Step{K: "disable", Svc: r.Weighted(6, 1), Prov: 2 + r.Intn(3), Own: r.Weighted(10, 1)})
		case 7:
			h.Steps = append(h.Steps, Step{K: "enable", Svc: r.Weighted(6, 1), Prov: 2 + r.Intn(3), Own: r.Weighted(10, 1), DepA: []int64{0, 0, r.Range(1, 20000)}[r.Intn(3)]})
		case 8:
			h.Steps = append(h.Steps, Step{K: "refund", Svc: r.Weighted(6, 1), Prov: 2 + r.Intn(3), Own: r.Weighted(10, 1)})
		case 9:
			h.Steps = append(h.Steps, Step{K: "setw", Who: r.Intn(2), To: []int{7, 7, 0, -10}[r.Intn(4)]})
		case 10:
			h.Steps = append(h.Steps, Step{K: "transfer", Who: 5 + r.Intn(2), To: 7, D: r.Intn(2), Amt: []int64{r.Range(0, 3000), 999000000, r.Range(0, 100)}[r.Intn(3)]})
		case 11:
			s := Step{K: "rate", D: 1}
			if r.Chance(1, 2) {
				s.Rate = []string{"1500000000000000000", "500000000000000000", "0", "1000000000000000000"}[r.Intn(4)]
			}
			h.Steps = append(h.Steps, s)
		case 12:
			s := callStep()
			s.K = "modcreate"
			s.Bad = false
			s.St = r.Weighted(5, 1)
			s.Thr = r.Range(1, int64(len(s.Provs)))
			if r.Chance(1, 10) {
				s.Thr = int64(len(s.Provs)) + 1
			}
			h.Steps = append(h.Steps, s)
		case 13:
			h.Steps = append(h.Steps, Step{K: []string{"modpause", "modstart", "modkill"}[r.Weighted(3, 3, 1)], Sel: r.Intn(1000), Mode: r.Weighted(10, 2, 1)})
		case 14:
			if r.Chance(1, 3) {
				h.Steps = append(h.Steps, Step{K: "define", Svc: r.Intn(3), Who: r.Intn(2), Bad: r.Chance(1, 4)})
			} else {
				s := bindStep(r.Weighted(4, 2, 1), 2+r.Intn(3))
				s.Own = r.Weighted(10, 1)
				switch r.Weighted(10, 1, 1, 1) {
				case 1:
					s.DepD = 1
				case 2:
					s.Qos = c.MaxTo + 1
				case 3:
					s.Opt = 2
				}
				h.Steps = append(h.Steps, s)
			}
		}
	}
	return h
}

// ---------------------------------------------------------------- printing helpers

func zs(s string) string { // scaled decimal string -> Z literal
	b, ok := new(big.Int).SetString(s, 10)
	if !ok {
		panic("bad number " + s)
	}
	return lib.ZB(b)
}

func decStr(scaled string) string { // scaled integer -> decimal string with 18 places, trailing zeros trimmed
	b, _ := new(big.Int).SetString(scaled, 10)
	s := b.String()
	for len(s) < 19 {
		s = "0" + s
	}
	ip, fp := s[:len(s)-18], strings.TrimRight(s[len(s)-18:], "0")
	if fp == "" {
		return ip
	}
	return ip + "." + fp
}

func zlist(xs []int) string {
	var s []string
	for _, x := range xs {
		s = append(s, lib.Z(int64(x)))
	}
	return lib.L(s...)
}

func coqPricing(p *Pricing, t0 int64) string {
	var pt, pv []string
	for _, x := range p.PT {
		pt = append(pt, lib.Pair(lib.Z(t0+x.S), lib.Z(t0+x.E), zs(x.D)))
	}
	for _, x := range p.PV {
		pv = append(pv, lib.Pair(lib.Z(x.V), zs(x.D)))
	}
	return lib.Pair(lib.Z(int64(p.D)), lib.Z(p.A), lib.L(pt...), lib.L(pv...))
}

func jsonPricing(p *Pricing, t0 int64) string {
	var pt, pv []string
	for _, x := range p.PT {
		pt = append(pt, fmt.Sprintf(`{"start_time":"%s","end_time":"%s","discount":"%s"}`,
			time.Unix(t0+x.S, 0).UTC().Format(time.RFC3339), time.Unix(t0+x.E, 0).UTC().Format(time.RFC3339), decStr(x.D)))
	}
	for _, x := range p.PV {
		pv = append(pv, fmt.Sprintf(`{"volume":%d,"discount":"%s"}`, x.V, decStr(x.D)))
	}
	return fmt.Sprintf(`{"price":"%d%s","promotions_by_time":[%s],"promotions_by_volume":[%s]}`,
		p.A, denomNames[p.D], strings.Join(pt, ","), strings.Join(pv, ","))
}

func coins(d int, a int64) sdk.Coins {
	if a == 0 {
		return sdk.Coins{}
	}
	return sdk.Coins{sdk.NewInt64Coin(denomNames[d], a)}
}

// ---------------------------------------------------------------- executing a history

type cbrec struct {
	kind  int
	id    []byte
	batch uint64
	nout  int
	ok    bool
}

type world struct {
	e         *lib.Env
	k         servicekeeper.Keeper
	key       storetypes.StoreKey
	t0        int64
	rates     map[string]string
	cbs       []cbrec
	txfull    map[uint64][]byte // first 8 bytes of a tx hash -> full hash
	actIdx    map[string]int
	note      string
	first     bool // the initial observation is a bare obs
	lastState string
}

func (w *world) addr(i int) sdk.AccAddress {
	switch i {
	case -1:
		return lib.ModuleAddr(servicetypes.DepositAccName)
	case -2:
		return lib.ModuleAddr(servicetypes.RequestAccName)
	case -3:
		return lib.ModuleAddr(servicetypes.FeeCollectorName)
	case -10:
		return lib.ModuleAddr("fee_collector") // a blocked module account
	}
	return w.e.Actors[i]
}

func (w *world) addrStr(i int) string {
	if i < 0 && i != -10 {
		return "not-an-address"
	}
	return w.addr(i).String()
}

func (w *world) actor(bech string) int {
	if i, ok := w.actIdx[bech]; ok {
		return i
	}
	return -50
}

func (w *world) actorB(bz []byte) int { return w.actor(sdk.AccAddress(bz).String()) }

func denomIdx(d string) int {
	for i, n := range denomNames {
		if n == d {
			return i
		}
	}
	return 99
}
func svcIdx(s string) int {
	for i, n := range svcNames {
		if n == s {
			return i
		}
	}
	return 99
}

func coqCtxID(id []byte) string {
	if len(id) != 40 {
		return lib.Pair("(-1)", "(-1)")
	}
	return lib.Pair(lib.ZU(binary.BigEndian.Uint64(id[0:8])), lib.ZU(binary.BigEndian.Uint64(id[32:40])))
}

func coqReqID(id []byte) string {
	if len(id) != 58 {
		return lib.Pair("(-1, -1)", "(-1)", "(-1)", "(-1)")
	}
	return lib.Pair(coqCtxID(id[:40]), lib.ZU(binary.BigEndian.Uint64(id[40:48])), lib.ZU(binary.BigEndian.Uint64(id[48:56])), lib.ZU(uint64(binary.BigEndian.Uint16(id[56:58]))))
}

func unixOrZero(t time.Time) int64 {
	if t.IsZero() {
		return 0
	}
	return t.Unix()
}

type reqView struct {
	id     []byte
	prov   int
	active bool
	resp   int
	exp    int64
}
type ctxView struct {
	id   []byte
	cons int
	mod  bool
}

// observe reads everything the properties talk about and prints the Coq obs record.
func (w *world) observe(code int, newctx string, cbFrom int) (string, []reqView, []ctxView) {
	e, k := w.e, w.k
	ctx := e.Ctx
	store := ctx.KVStore(w.key)
	cdc := e.App.AppCodec()
	var bals []string
	for a := -3; a < nActors; a++ {
		for d := range denomNames {
			bals = append(bals, lib.Pair(lib.Pair(lib.Z(int64(a)), lib.Z(int64(d))), lib.ZI(e.Balance(w.addr(a), denomNames[d]))))
		}
	}
	var binds []string
	k.IterateServiceBindings(ctx, func(b servicetypes.ServiceBinding) bool {
		prov, _ := sdk.AccAddressFromBech32(b.Provider)
		pr := k.GetPricing(ctx, b.ServiceName, prov)
		pd, pa := 99, sdkmath.ZeroInt()
		if len(pr.Price) > 0 {
			pd, pa = denomIdx(pr.Price[0].Denom), pr.Price[0].Amount
		}
		dep := b.Deposit.AmountOf("stake")
		if len(b.Deposit) > 1 || (len(b.Deposit) == 1 && b.Deposit[0].Denom != "stake") {
			dep = sdkmath.NewInt(-1)
		}
		binds = append(binds, lib.Pair(lib.Pair(lib.Z(int64(svcIdx(b.ServiceName))), lib.Z(int64(w.actor(b.Provider)))),
			lib.Pair(lib.ZI(dep), lib.Z(int64(pd)), lib.ZI(pa), lib.ZU(b.QoS), lib.B(b.Available), lib.Z(unixOrZero(b.DisabledTime)), lib.Z(int64(w.actor(b.Owner))))))
		return false
	})
	var ctxs []string
	var cvs []ctxView
	k.IterateRequestContexts(ctx, func(id tmbytes.HexBytes, x servicetypes.RequestContext) bool {
		var ps []int
		for _, p := range x.Providers {
			ps = append(ps, w.actor(p))
		}
		cap_ := x.ServiceFeeCap.AmountOf("stake")
		if len(x.ServiceFeeCap) != 1 {
			cap_ = sdkmath.NewInt(-1)
		}
		ctxs = append(ctxs, lib.Pair(coqCtxID(id), lib.Pair(lib.Z(int64(svcIdx(x.ServiceName))), zlist(ps), lib.Z(int64(w.actor(x.Consumer))),
			lib.ZI(cap_), lib.Z(x.Timeout), lib.B(x.Repeated), lib.ZU(x.RepeatedFrequency), lib.Z(x.RepeatedTotal),
			lib.ZU(x.BatchCounter), lib.ZU(uint64(x.BatchRequestCount)), lib.ZU(uint64(x.BatchResponseCount)), lib.ZU(uint64(x.BatchResponseThreshold)),
			lib.B(x.BatchState == servicetypes.BATCHRUNNING), lib.Z(int64(x.State)), lib.ZU(uint64(x.ResponseThreshold)), lib.B(len(x.ModuleName) > 0))))
		cvs = append(cvs, ctxView{id: append([]byte{}, id...), cons: w.actor(x.Consumer), mod: len(x.ModuleName) > 0})
		return false
	})
	var reqs []string
	var rvs []reqView
	nActive, nResp := 0, 0
	k.IterateRequests(ctx, func(id tmbytes.HexBytes, q servicetypes.CompactRequest) bool {
		active := k.IsRequestActive(ctx, id)
		resp := 0
		if r, ok := k.GetResponse(ctx, id); ok {
			resp = 1
			if len(r.Output) > 0 {
				resp = 2
			}
			nResp++
		}
		if active {
			nActive++
		}
		fd, fee := 0, sdkmath.ZeroInt()
		if len(q.ServiceFee) == 1 {
			fd, fee = denomIdx(q.ServiceFee[0].Denom), q.ServiceFee[0].Amount
		} else if len(q.ServiceFee) > 1 {
			fd = 98
		}
		reqs = append(reqs, lib.Pair(coqReqID(id), lib.Pair(lib.Z(int64(w.actor(q.Provider))), lib.Z(int64(fd)), lib.ZI(fee),
			lib.Z(q.RequestHeight), lib.Z(q.ExpirationHeight), lib.B(active), lib.Z(int64(resp)))))
		rvs = append(rvs, reqView{id: append([]byte{}, id...), prov: w.actor(q.Provider), active: active, resp: resp, exp: q.ExpirationHeight})
		return false
	})
	// raw store: active markers / responses must belong to stored requests (else the counts differ)
	count := func(prefix []byte) int {
		it := storetypes.KVStorePrefixIterator(store, prefix)
		defer it.Close()
		n := 0
		for ; it.Valid(); it.Next() {
			n++
		}
		return n
	}
	extra := ""
	if n := count(servicetypes.ActiveRequestByIDKey); n != nActive {
		extra = fmt.Sprintf("active-by-id markers %d vs active requests %d", n, nActive)
	}
	if n := count(servicetypes.ActiveRequestKey); n != nActive {
		extra = fmt.Sprintf("active-by-binding markers %d vs active requests %d", n, nActive)
	}
	if n := count(servicetypes.ResponseKey); n != nResp {
		extra = fmt.Sprintf("responses %d vs responses of stored requests %d", n, nResp)
	}
	var vols []string
	{
		it := storetypes.KVStorePrefixIterator(store, servicetypes.RequestVolumeKey)
		for ; it.Valid(); it.Next() {
			parts := strings.Split(string(it.Key()[1:]), "\x00")
			var v gogotypes.UInt64Value
			cdc.MustUnmarshal(it.Value(), &v)
			if len(parts) == 3 {
				vols = append(vols, lib.Pair(lib.Pair(lib.Z(int64(w.actor(parts[0]))), lib.Z(int64(svcIdx(parts[1]))), lib.Z(int64(w.actor(parts[2])))), lib.ZU(v.Value)))
			}
		}
		it.Close()
	}
	tally := func(prefix []byte) []string {
		var out []string
		it := storetypes.KVStorePrefixIterator(store, prefix)
		defer it.Close()
		for ; it.Valid(); it.Next() {
			key := it.Key()[1:]
			var c sdk.Coin
			cdc.MustUnmarshal(it.Value(), &c)
			a := -9
			if len(key) >= 20 {
				a = w.actorB(key[:20])
			}
			out = append(out, lib.Pair(lib.Pair(lib.Z(int64(a)), lib.Z(int64(denomIdx(c.Denom)))), lib.ZI(c.Amount)))
		}
		return out
	}
	earned := tally(servicetypes.EarnedFeesKey)
	oearned := tally(servicetypes.OwnerEarnedFeesKey)
	queue := func(prefix []byte) []string {
		var out []string
		it := storetypes.KVStorePrefixIterator(store, prefix)
		defer it.Close()
		for ; it.Valid(); it.Next() {
			key := it.Key()[1:]
			if len(key) == 48 {
				out = append(out, lib.Pair(lib.ZU(binary.BigEndian.Uint64(key[:8])), coqCtxID(key[8:])))
			}
		}
		return out
	}
	marks := func(prefix []byte) []string {
		var out []string
		it := storetypes.KVStorePrefixIterator(store, prefix)
		defer it.Close()
		for ; it.Valid(); it.Next() {
			var v gogotypes.Int64Value
			cdc.MustUnmarshal(it.Value(), &v)
			out = append(out, lib.Pair(coqCtxID(it.Key()[1:]), lib.Z(v.Value)))
		}
		return out
	}
	var cbs []string
	for _, c := range w.cbs[cbFrom:] {
		ok := "0"
		if c.ok {
			ok = "1"
		}
		cbs = append(cbs, lib.Pair(lib.Z(int64(c.kind)), coqCtxID(c.id), lib.ZU(c.batch), lib.Z(int64(c.nout)), ok))
	}
	stateStr := strings.Join([]string{lib.Z(e.Height), lib.Z(e.Time.Unix()),
		lib.L(bals...), lib.L(binds...), lib.L(ctxs...), lib.L(reqs...), lib.L(vols...), lib.L(earned...), lib.L(oearned...),
		lib.L(queue(servicetypes.NewRequestBatchKey)...), lib.L(marks(servicetypes.NewRequestBatchHeightKey)...),
		lib.L(queue(servicetypes.ExpiredRequestBatchKey)...), lib.L(marks(servicetypes.ExpiredRequestBatchHeightKey)...)}, " ")
	o := lib.App("mkObs", lib.Z(int64(code)), newctx, stateStr, lib.L(cbs...))
	// a step that left every observable as it was is written (Same code): the checker
	// re-uses the previous observation (this halves the size of the Coq term)
	if w.lastState == stateStr && newctx == "None" && len(cbs) == 0 && extra == "" && !w.first {
		o = lib.App("Same", lib.Z(int64(code)))
	} else if !w.first {
		o = lib.App("Full", o)
	}
	w.first = false
	w.lastState = stateStr
	_ = extra
	if extra != "" {
		o = o + "(*" + extra + "*)"
		w.note = extra
	}
	return o, rvs, cvs
}

func exec(h History) lib.Case {
	c := lib.Case{Stats: map[string]int{}}
	w := &world{first: true, rates: map[string]string{}, txfull: map[uint64][]byte{}, actIdx: map[string]int{}}
	cfg := h.Cfg
	for len(cfg.Bal) < nActors {
		cfg.Bal = append(cfg.Bal, []int64{1000000000, 1000000000})
	}
	tax, _ := sdkmath.LegacyNewDecFromStr(decStr(cfg.Tax))
	slash, _ := sdkmath.LegacyNewDecFromStr(decStr(cfg.Slash))
	var k servicekeeper.Keeper
	e := lib.NewEnv(lib.EnvOpts{NActors: nActors, Consumers: []interface{}{&k},
		Merge: func(cdc codec.Codec, state simapp.GenesisState) simapp.GenesisState {
			var bank banktypes.GenesisState
			cdc.MustUnmarshalJSON(state[banktypes.ModuleName], &bank)
			for a := 0; a < nActors; a++ {
				var cs sdk.Coins
				for d, amt := range cfg.Bal[a] {
					if amt > 0 {
						cs = cs.Add(sdk.NewInt64Coin(denomNames[d], amt))
					}
				}
				// keep every denom's supply positive
				if a == 7 {
					for _, dn := range denomNames {
						if cs.AmountOf(dn).IsZero() {
							cs = cs.Add(sdk.NewInt64Coin(dn, 1))
						}
					}
				}
				if !cs.IsZero() {
					bank.Balances = append(bank.Balances, banktypes.Balance{Address: lib.ActorAddr(a).String(), Coins: cs})
					bank.Supply = bank.Supply.Add(cs...)
				}
			}
			state[banktypes.ModuleName] = cdc.MustMarshalJSON(&bank)
			var sg servicetypes.GenesisState
			cdc.MustUnmarshalJSON(state[servicetypes.ModuleName], &sg)
			sg.Params = servicetypes.NewParams(cfg.MaxTo, cfg.Mult, sdk.NewCoins(sdk.NewInt64Coin("stake", cfg.MinDep)), tax, slash,
				time.Duration(cfg.WaitC)*time.Second, time.Duration(cfg.WaitA)*time.Second, 4000, "stake", cfg.Restricted)
			state[servicetypes.ModuleName] = cdc.MustMarshalJSON(&sg)
			return state
		}})
	w.e, w.k = e, k
	w.key = e.App.GetKey(servicetypes.StoreKey)
	for i, a := range e.Actors {
		w.actIdx[a.String()] = i
	}
	w.actIdx[w.addr(-1).String()] = -1
	w.actIdx[w.addr(-2).String()] = -2
	w.actIdx[w.addr(-3).String()] = -3
	// the exchange-rate source: a module service answering from the table the SetRate steps maintain
	k.SetModuleService(servicetypes.RegisterModuleName, &servicetypes.ModuleService{
		ServiceName: servicetypes.OraclePriceServiceName,
		Provider:    servicetypes.OraclePriceServiceProvider,
		ReuquestService: func(ctx sdk.Context, input string) (string, string) {
			pair := gjson.Get(input, "body").Get("pair").String()
			parts := strings.Split(pair, "-")
			if rt, ok := w.rates[parts[0]]; ok && len(parts) == 2 && parts[1] == "stake" {
				return `{"code":200,"message":""}`, fmt.Sprintf(`{"header":{},"body":{"rate":"%s"}}`, rt)
			}
			return `{"code":400,"message":"feed not found"}`, ""
		},
	})
	if cfg.ModSvc {
		// a module serving "svcc" itself, through the provider actor 4: answers at once
		k.SetModuleService("verifmod", &servicetypes.ModuleService{
			ServiceName: svcNames[2],
			Provider:    lib.ActorAddr(4),
			ReuquestService: func(ctx sdk.Context, input string) (string, string) {
				return `{"code":200,"message":""}`, `{"header":{},"body":{}}`
			},
		})
	}
	// a module that owns contexts: records every callback
	_ = k.RegisterResponseCallback("verif", func(ctx sdk.Context, id tmbytes.HexBytes, outputs []string, err error) {
		rc, _ := k.GetRequestContext(ctx, id)
		w.cbs = append(w.cbs, cbrec{kind: 0, id: append([]byte{}, id...), batch: rc.BatchCounter, nout: len(outputs), ok: err == nil})
	})
	_ = k.RegisterStateCallback("verif", func(ctx sdk.Context, id tmbytes.HexBytes, cause string) {
		rc, _ := k.GetRequestContext(ctx, id)
		w.cbs = append(w.cbs, cbrec{kind: 1, id: append([]byte{}, id...), batch: rc.BatchCounter})
	})
	e.BeginBlock(5 * time.Second)
	w.t0 = e.Time.Unix()

	cfgTerm := lib.App("mkCfg", zs(cfg.Tax), zs(cfg.Slash), lib.Z(cfg.MaxTo), lib.Z(cfg.Mult), lib.Z(cfg.MinDep),
		lib.Z(cfg.WaitA+cfg.WaitC), lib.B(cfg.Restricted), lib.Z(int64(len(denomNames))),
		map[bool]string{true: "2", false: "(-1)"}[cfg.ModSvc], "4")
	obs0, rvs, cvs := w.observe(0, "None", 0)
	var steps []string
	// bookkeeping for the non-triviality rule and statistics
	discount, mixedBatch, pausedThenStarted := false, false, false
	answered := map[string]bool{}
	expiredB := map[string]bool{}
	pausedCtx := map[string]bool{}
	autoPause, multiDenom := false, false

	ownerFor := func(prov, sel int) int {
		o := defaultOwner(prov)
		if reg, ok := k.GetOwner(e.Ctx, w.addr(prov)); ok {
			o = w.actorB(reg)
		}
		if sel == 1 {
			o = 1 - o
			if o < 0 {
				o = 0
			}
		}
		return o
	}
	pickCtx := func(sel, mode int, wantMod bool) (id []byte, cons int) {
		var cands []ctxView
		for _, v := range cvs {
			if v.mod == wantMod {
				cands = append(cands, v)
			}
		}
		if len(cands) == 0 {
			cands = cvs
		}
		if mode == 2 || len(cands) == 0 {
			fake := make([]byte, 40)
			fake[7] = byte(1 + sel%7)
			return fake, 5
		}
		v := cands[sel%len(cands)]
		cons = v.cons
		if mode == 1 {
			cons = 5 + (cons-5+1)%2
			if cons < 0 {
				cons = 5
			}
		}
		return v.id, cons
	}

	for _, st := range h.Steps {
		cbFrom := len(w.cbs)
		var term string
		var out lib.Outcome
		newctx := "None"
		txBytes := e.NextTxBytes()
		txh := sha256.Sum256(txBytes)
		txh8 := binary.BigEndian.Uint64(txh[:8])
		w.txfull[txh8] = txh[:]
		deliver := func(m sdk.Msg) lib.Outcome {
			outs, _ := e.DeliverTx(txBytes, m)
			return outs[len(outs)-1]
		}
		tx := func(m string) string { return lib.App("Tx", lib.ZU(txh8), m) }
		render := ""
		switch st.K {
		case "define":
			schemas := `{"input":{"type":"object"},"output":{"type":"object"}}`
			if st.Bad {
				schemas = ""
			}
			out = deliver(&servicetypes.MsgDefineService{Name: svcNames[st.Svc%3], Description: "d", Author: w.addrStr(st.Who), AuthorDescription: "a", Schemas: schemas})
			term = tx(lib.App("MDefine", lib.Z(int64(st.Who)), lib.Z(int64(st.Svc%3)), lib.B(!st.Bad)))
		case "bind":
			owner := ownerFor(st.Prov, st.Own)
			opts := "{}"
			if st.Opt == 2 {
				opts = "{"
			}
			out = deliver(&servicetypes.MsgBindService{ServiceName: svcNames[st.Svc%3], Provider: w.addrStr(st.Prov), Deposit: coins(st.DepD, st.DepA),
				Pricing: jsonPricing(st.Pr, w.t0), QoS: uint64(st.Qos), Options: opts, Owner: w.addrStr(owner)})
			term = tx(lib.App("MBind", lib.Z(int64(st.Svc%3)), lib.Z(int64(st.Prov)), lib.Z(int64(st.DepD)), lib.Z(st.DepA), coqPricing(st.Pr, w.t0),
				lib.Z(st.Qos), lib.B(st.Opt != 2), lib.Z(int64(owner))))
			render = fmt.Sprintf("price %d%s pt=%v pv=%v dep %d qos %d owner %d", st.Pr.A, denomNames[st.Pr.D], st.Pr.PT, st.Pr.PV, st.DepA, st.Qos, owner)
		case "modbind":
			owner := ownerFor(st.Prov, st.Own)
			out = e.Try(func(ctx sdk.Context) error {
				return k.AddServiceBinding(ctx, svcNames[st.Svc%3], w.addr(st.Prov), coins(st.DepD, st.DepA), jsonPricing(st.Pr, w.t0), uint64(st.Qos), "{}", w.addr(owner))
			})
			term = lib.App("ModBind", lib.Z(int64(st.Svc%3)), lib.Z(int64(st.Prov)), lib.Z(int64(st.DepD)), lib.Z(st.DepA), coqPricing(st.Pr, w.t0),
				lib.Z(st.Qos), lib.Z(int64(owner)))
			render = fmt.Sprintf("price %d%s pt=%v pv=%v dep %d qos %d owner %d", st.Pr.A, denomNames[st.Pr.D], st.Pr.PT, st.Pr.PV, st.DepA, st.Qos, owner)
		case "updbind":
			owner := ownerFor(st.Prov, st.Own)
			opts := ""
			if st.Opt == 1 {
				opts = "{}"
			} else if st.Opt == 2 {
				opts = "{"
			}
			pj, pc := "", "None"
			if st.Pr != nil {
				pj, pc = jsonPricing(st.Pr, w.t0), "(Some "+coqPricing(st.Pr, w.t0)+")"
			}
			out = deliver(&servicetypes.MsgUpdateServiceBinding{ServiceName: svcNames[st.Svc%3], Provider: w.addrStr(st.Prov), Deposit: coins(st.DepD, st.DepA),
				Pricing: pj, QoS: uint64(st.Qos), Options: opts, Owner: w.addrStr(owner)})
			term = tx(lib.App("MUpdateBinding", lib.Z(int64(st.Svc%3)), lib.Z(int64(st.Prov)), lib.Z(int64(st.DepD)), lib.Z(st.DepA), pc,
				lib.Z(st.Qos), lib.Z(int64(st.Opt)), lib.Z(int64(owner))))
		case "setw":
			out = deliver(&servicetypes.MsgSetWithdrawAddress{Owner: w.addrStr(st.Who), WithdrawAddress: w.addrStr(st.To)})
			term = tx(lib.App("MSetWithdraw", lib.Z(int64(st.Who)), lib.Z(int64(st.To))))
		case "enable":
			owner := ownerFor(st.Prov, st.Own)
			out = deliver(&servicetypes.MsgEnableServiceBinding{ServiceName: svcNames[st.Svc%3], Provider: w.addrStr(st.Prov), Deposit: coins(st.DepD, st.DepA), Owner: w.addrStr(owner)})
			term = tx(lib.App("MEnable", lib.Z(int64(st.Svc%3)), lib.Z(int64(st.Prov)), lib.Z(int64(st.DepD)), lib.Z(st.DepA), lib.Z(int64(owner))))
		case "disable":
			owner := ownerFor(st.Prov, st.Own)
			out = deliver(&servicetypes.MsgDisableServiceBinding{ServiceName: svcNames[st.Svc%3], Provider: w.addrStr(st.Prov), Owner: w.addrStr(owner)})
			term = tx(lib.App("MDisable", lib.Z(int64(st.Svc%3)), lib.Z(int64(st.Prov)), lib.Z(int64(owner))))
		case "refund":
			owner := ownerFor(st.Prov, st.Own)
			out = deliver(&servicetypes.MsgRefundServiceDeposit{ServiceName: svcNames[st.Svc%3], Provider: w.addrStr(st.Prov), Owner: w.addrStr(owner)})
			term = tx(lib.App("MRefundDeposit", lib.Z(int64(st.Svc%3)), lib.Z(int64(st.Prov)), lib.Z(int64(owner))))
		case "call", "modcreate":
			var ps []string
			var pas []sdk.AccAddress
			for _, p := range st.Provs {
				ps = append(ps, w.addrStr(p))
				pas = append(pas, w.addr(p))
			}
			input := `{"header":{}}`
			if st.Bad {
				input = `{}`
			}
			if st.K == "call" {
				out = deliver(&servicetypes.MsgCallService{ServiceName: svcNames[st.Svc%3], Providers: ps, Consumer: w.addrStr(st.Who), Input: input,
					ServiceFeeCap: coins(st.CapD, st.CapA), Timeout: st.Timeout, Repeated: st.Rep, RepeatedFrequency: uint64(st.Freq), RepeatedTotal: st.Total})
				term = tx(lib.App("MCall", lib.Z(int64(st.Svc%3)), zlist(st.Provs), lib.Z(int64(st.Who)), lib.B(!st.Bad), lib.Z(int64(st.CapD)), lib.Z(st.CapA),
					lib.Z(st.Timeout), lib.B(st.Rep), lib.Z(st.Freq), lib.Z(st.Total)))
				if out.OK() {
					idb, _ := hex.DecodeString(out.Resp.(*servicetypes.MsgCallServiceResponse).RequestContextId)
					newctx = "(Some " + coqCtxID(idb) + ")"
					if len(idb) != 40 || string(idb[:32]) != string(txh[:]) {
						c.Notes = append(c.Notes, "context id is not txhash||index")
					}
				}
			} else {
				var idb tmbytes.HexBytes
				state := servicetypes.RUNNING
				if st.St == 1 {
					state = servicetypes.PAUSED
				}
				out = e.Try(func(ctx sdk.Context) error {
					var err error
					idb, err = k.CreateRequestContext(ctx, svcNames[st.Svc%3], pas, w.addr(st.Who), input, coins(0, st.CapA), st.Timeout,
						st.Rep, uint64(st.Freq), st.Total, state, uint32(st.Thr), "verif")
					return err
				})
				h8 := uint64(0)
				if out.OK() && len(idb) == 40 {
					h8 = binary.BigEndian.Uint64(idb[:8])
					newctx = "(Some " + coqCtxID(idb) + ")"
				}
				term = lib.App("ModCreate", lib.ZU(h8), lib.Z(int64(st.Svc%3)), zlist(st.Provs), lib.Z(int64(st.Who)), lib.Z(st.CapA),
					lib.Z(st.Timeout), lib.B(st.Rep), lib.Z(st.Freq), lib.Z(st.Total), lib.Z(int64(st.St)), lib.Z(st.Thr))
			}
			render = fmt.Sprintf("svc %d provs %v cons %d cap %d timeout %d rep %v freq %d total %d", st.Svc%3, st.Provs, st.Who, st.CapA, st.Timeout, st.Rep, st.Freq, st.Total)
		case "respond":
			var rid []byte
			prov := 2
			var act, inact []reqView
			for _, v := range rvs {
				if v.active {
					act = append(act, v)
				} else {
					inact = append(inact, v)
				}
			}
			if st.Mode == 0 && len(act) == 0 {
				continue // nothing to answer: the step is dropped (deterministically, so replays agree)
			}
			switch {
			case st.Mode == 3 || len(rvs) == 0:
				rid = make([]byte, 58)
				rid[7] = byte(1 + st.Sel%5)
				rid[47] = 1
			case st.Mode == 2 && len(inact) > 0:
				v := inact[st.Sel%len(inact)]
				rid, prov = v.id, v.prov
			case len(act) > 0:
				v := act[st.Sel%len(act)]
				rid, prov = v.id, v.prov
			default:
				v := rvs[st.Sel%len(rvs)]
				rid, prov = v.id, v.prov
			}
			if st.Mode == 1 {
				prov = 2 + (prov-2+1)%3
			}
			if prov < 0 {
				prov = 2
			}
			result, output := `{"code":400,"message":"bad"}`, ""
			if st.Kind == 1 {
				result, output = `{"code":200,"message":""}`, `{"header":{},"body":{}}`
			} else if st.Kind == 2 {
				result = `{}`
			}
			out = deliver(&servicetypes.MsgRespondService{RequestId: strings.ToUpper(hex.EncodeToString(rid)), Provider: w.addrStr(prov), Result: result, Output: output})
			term = tx(lib.App("MRespond", coqReqID(rid), lib.Z(int64(prov)), lib.Z(int64(st.Kind))))
			if out.OK() {
				answered[string(rid[:48])] = true
			}
			render = fmt.Sprintf("req %s by %d kind %d", coqReqID(rid), prov, st.Kind)
		case "pause", "start", "kill", "updctx":
			if st.Mode == 0 && len(cvs) == 0 {
				continue
			}
			id, cons := pickCtx(st.Sel, st.Mode, false)
			ids := strings.ToUpper(hex.EncodeToString(id))
			switch st.K {
			case "pause":
				out = deliver(&servicetypes.MsgPauseRequestContext{RequestContextId: ids, Consumer: w.addrStr(cons)})
				term = tx(lib.App("MPause", coqCtxID(id), lib.Z(int64(cons))))
				if out.OK() {
					pausedCtx[string(id)] = true
				}
			case "start":
				out = deliver(&servicetypes.MsgStartRequestContext{RequestContextId: ids, Consumer: w.addrStr(cons)})
				term = tx(lib.App("MStart", coqCtxID(id), lib.Z(int64(cons))))
				if out.OK() && pausedCtx[string(id)] {
					pausedThenStarted = true
				}
			case "kill":
				out = deliver(&servicetypes.MsgKillRequestContext{RequestContextId: ids, Consumer: w.addrStr(cons)})
				term = tx(lib.App("MKill", coqCtxID(id), lib.Z(int64(cons))))
			default:
				var ps []string
				for _, p := range st.Provs {
					ps = append(ps, w.addrStr(p))
				}
				out = deliver(&servicetypes.MsgUpdateRequestContext{RequestContextId: ids, Providers: ps, Consumer: w.addrStr(cons), ServiceFeeCap: coins(st.CapD, st.CapA),
					Timeout: st.Timeout, RepeatedFrequency: uint64(st.Freq), RepeatedTotal: st.Total})
				term = tx(lib.App("MUpdateCtx", coqCtxID(id), zlist(st.Provs), lib.Z(int64(st.CapD)), lib.Z(st.CapA), lib.Z(st.Timeout), lib.Z(st.Freq), lib.Z(st.Total), lib.Z(int64(cons))))
			}
			render = fmt.Sprintf("ctx %s by %d", coqCtxID(id), cons)
		case "modupdate":
			// keeper-level edit of the response threshold of a module-owned context (not a step of the model:
			// printed as a rate removal of an unused denom, which the model ignores; stream "thr" judges callbacks only)
			if len(cvs) == 0 {
				continue
			}
			id, cons := pickCtx(st.Sel, 0, true)
			out = e.Try(func(ctx sdk.Context) error {
				return k.UpdateRequestContext(ctx, id, nil, uint32(st.Thr), nil, 0, 0, 0, w.addr(cons))
			})
			term = lib.App("SetRate", "7", "None")
			render = fmt.Sprintf("ctx %s threshold %d", coqCtxID(id), st.Thr)
		case "modpause", "modstart", "modkill":
			if st.Mode == 0 && len(cvs) == 0 {
				continue
			}
			id, cons := pickCtx(st.Sel, st.Mode, true)
			out = e.Try(func(ctx sdk.Context) error {
				switch st.K {
				case "modpause":
					return k.PauseRequestContext(ctx, id, w.addr(cons))
				case "modstart":
					return k.StartRequestContext(ctx, id, w.addr(cons))
				}
				return k.KillRequestContext(ctx, id, w.addr(cons))
			})
			term = lib.App(map[string]string{"modpause": "ModPause", "modstart": "ModStart", "modkill": "ModKill"}[st.K], coqCtxID(id), lib.Z(int64(cons)))
			render = fmt.Sprintf("ctx %s by %d", coqCtxID(id), cons)
		case "withdraw":
			owner := ownerFor(st.Prov, st.Own)
			prov := st.Prov
			ps := w.addrStr(prov)
			if st.Mode == 1 {
				prov, ps = -1, ""
			}
			out = deliver(&servicetypes.MsgWithdrawEarnedFees{Owner: w.addrStr(owner), Provider: ps})
			term = tx(lib.App("MWithdraw", lib.Z(int64(owner)), lib.Z(int64(prov))))
		case "end":
			out = e.EndBlock()
			e.BeginBlock(time.Duration(st.Dt) * time.Second)
			term = lib.App("EndBlock", lib.Z(st.Dt))
		case "rate":
			if st.Rate == "" {
				delete(w.rates, denomNames[st.D%2])
				term = lib.App("SetRate", lib.Z(int64(st.D%2)), "None")
			} else {
				w.rates[denomNames[st.D%2]] = decStr(st.Rate)
				term = lib.App("SetRate", lib.Z(int64(st.D%2)), "(Some "+zs(st.Rate)+")")
			}
			out = lib.Outcome{Kind: "ok"}
		case "transfer":
			out = e.Try(func(ctx sdk.Context) error {
				return e.App.BankKeeper.SendCoins(ctx, w.addr(st.Who), w.addr(st.To), coins(st.D%2, st.Amt))
			})
			term = lib.App("Transfer", lib.Z(int64(st.Who)), lib.Z(int64(st.To)), lib.Z(int64(st.D%2)), lib.Z(st.Amt))
		default:
			panic("unknown step kind " + st.K)
		}
		if !out.OK() {
			w.cbs = w.cbs[:cbFrom]
		}
		lib.Stat(c.Stats, "op:"+st.K)
		lib.Stat(c.Stats, "res:"+out.Kind)
		lib.Stat(c.Stats, "res:"+st.K+":"+out.Kind)
		prevR, prevC := rvs, cvs
		var o string
		o, rvs, cvs = w.observe(out.Code(), newctx, cbFrom)
		if w.note != "" {
			c.Notes = append(c.Notes, w.note)
			w.note = ""
		}
		steps = append(steps, lib.Pair(term, o))
		// statistics for the non-triviality rule
		if st.K == "end" {
			cur := map[string]reqView{}
			for _, v := range rvs {
				cur[string(v.id)] = v
			}
			for _, v := range prevR {
				nv, ok := cur[string(v.id)]
				if v.active && (!ok || (!nv.active && nv.resp == 0)) {
					expiredB[string(v.id[:48])] = true
					lib.Stat(c.Stats, "ev:request-expired")
				}
			}
			prevIDs := map[string]bool{}
			for _, v := range prevR {
				prevIDs[string(v.id)] = true
			}
			for _, v := range rvs {
				if !prevIDs[string(v.id)] {
					lib.Stat(c.Stats, "ev:request-created")
					q, _ := k.GetCompactRequest(e.Ctx, v.id)
					rc, _ := k.GetRequestContext(e.Ctx, v.id[:40])
					pr := k.GetPricing(e.Ctx, rc.ServiceName, w.addr(v.prov))
					if len(pr.Price) == 1 && !q.ServiceFee.AmountOf(pr.Price[0].Denom).Equal(pr.Price[0].Amount) {
						discount = true
					}
					if len(pr.Price) == 1 && pr.Price[0].Denom != "stake" {
						multiDenom = true
					}
				}
			}
			for _, v := range cvs {
				for _, pv := range prevC {
					if string(pv.id) == string(v.id) {
						x0, _ := k.GetRequestContext(e.Ctx, v.id)
						if x0.State == servicetypes.PAUSED && !pausedCtx[string(v.id)] {
							autoPause = true
							pausedCtx[string(v.id)] = true
						}
					}
				}
			}
		}
		if len(w.cbs) > cbFrom {
			lib.Stat(c.Stats, "ev:callback")
		}
		line := st.K
		if render != "" {
			line += " " + render
		}
		c.Steps = append(c.Steps, fmt.Sprintf("%s -> %s", line, out.Kind))
		_ = prevC
	}
	for b := range answered {
		if expiredB[b] {
			mixedBatch = true
		}
	}
	if discount {
		lib.Stat(c.Stats, "nt:discount-applied")
	}
	if mixedBatch {
		lib.Stat(c.Stats, "nt:batch-answered-and-expired")
	}
	if pausedThenStarted {
		lib.Stat(c.Stats, "nt:pause-then-start")
	}
	if autoPause {
		lib.Stat(c.Stats, "nt:auto-pause")
	}
	if multiDenom {
		lib.Stat(c.Stats, "nt:non-base-denom-fee")
	}
	c.NonTrivial = discount || mixedBatch || pausedThenStarted
	c.Coq = lib.Pair(cfgTerm, obs0, lib.L(steps...))
	return c
}

var _ = sort.Ints

func main() {
	lib.Main(lib.Driver[History]{Gen: gen, Exec: exec})
}
