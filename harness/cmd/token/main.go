// token: driver for the token module (properties C09, C10).
//
//	gen / replay   (lib.Main)   streams: "main" (C09 histories), "erc20" (C10 histories, incl. the swap-to-native hook),
//	                            "lossless" (LossLessSwap as a pure function)
//	feefactor -out FILE         translator: regenerates coq/Gen/TokenFeeFactor.v by running the
//	                            module's own calcFeeFactor for symbol lengths 1..64
package main

import (
	"flag"
	"fmt"
	"math/big"
	"os"
	"sort"
	"strings"

	sdkmath "cosmossdk.io/math"
	storetypes "cosmossdk.io/store/types"
	"github.com/cosmos/cosmos-sdk/codec"
	sdk "github.com/cosmos/cosmos-sdk/types"
	"github.com/cosmos/cosmos-sdk/types/query"
	authtypes "github.com/cosmos/cosmos-sdk/x/auth/types"
	govtypes "github.com/cosmos/cosmos-sdk/x/gov/types"
	gogotypes "github.com/cosmos/gogoproto/types"
	"github.com/ethereum/go-ethereum/common"
	ethtypes "github.com/ethereum/go-ethereum/core/types"

	"mods.irisnet.org/modules/token/contracts"
	tokenkeeper "mods.irisnet.org/modules/token/keeper"
	tokentypes "mods.irisnet.org/modules/token/types"
	v1 "mods.irisnet.org/modules/token/types/v1"
	"mods.irisnet.org/simapp"

	"verifharness/lib"
)

// ---------------------------------------------------------------- vocabulary (= the model's)

// Name is a symbol / min unit / denom: (id, len), see coq/Token/Model.v.
type Name struct{ Id, Len int }

var stake = Name{100, 5}

func (n Name) String() string {
	if n == stake {
		return "stake"
	}
	if n.Id >= 500 && n.Id < 900 {
		// a composite symbol: the first 1..3 bytes of "xyz" followed by the ordinary name (Id%100, Len-plen):
		// the ordinary name is a proper suffix of it
		plen := (n.Id - 500) / 100
		if plen >= 1 && plen <= 3 && n.Len > plen {
			return "xyz"[:plen] + Name{n.Id % 100, n.Len - plen}.String()
		}
	}
	pre := ""
	switch {
	case n.Id >= 0:
		pre = "t" + string(rune('a'+n.Id%26))
	case n.Id == -1:
		pre = "Ab"
	default:
		pre = "ibc"
	}
	for len(pre) < n.Len {
		pre += "0"
	}
	if n.Len < 0 {
		return ""
	}
	return pre[:n.Len]
}

func (n Name) Coq() string { return lib.App("N", lib.Z(int64(n.Id)), lib.Z(int64(n.Len))) }

// flat renders "id len" for the monomorphic entry constructors of Check.v
func (n Name) flat() string { return lib.Z(int64(n.Id)) + " " + lib.Z(int64(n.Len)) }

// accounts: 0.. actors, -1 malformed, -2 empty, 100 token module, 101 fee collector, 102 gov,
// 200.. Ethereum-only holders (the native token is owned by the module account's address)
const (
	accModule = 100
	accFeeCol = 101
	accGov    = 102
)

type Op struct {
	K        string `json:"k"`
	A        int    `json:"a,omitempty"`
	B        int    `json:"b,omitempty"`
	Sym      Name   `json:"sym,omitempty"`
	Min      Name   `json:"min,omitempty"`
	Nm       int    `json:"nm,omitempty"`
	Scale    int    `json:"scale,omitempty"`
	Initial  string `json:"initial,omitempty"`
	Max      string `json:"max,omitempty"`
	Amt      string `json:"amt,omitempty"`
	Mintable int    `json:"mintable,omitempty"` // issue: 0/1; edit: 0 nil, 1 true, 2 false
	Tax      string `json:"tax,omitempty"`
	Ratio    string `json:"ratio,omitempty"`
	Base     string `json:"base,omitempty"`
	Enable   bool   `json:"enable,omitempty"`
	Beacon   bool   `json:"beacon,omitempty"`
	Mode     int    `json:"mode,omitempty"`
	Evs      []HookEv `json:"evs,omitempty"` // hookmulti: the SwapToNative events of ONE EVM transaction, in order
}

// HookEv is one swapToNative call inside an EVM transaction: holder A of the ERC20 form of Min swaps Amt to receiver B.
type HookEv struct {
	A   int    `json:"a,omitempty"`
	B   int    `json:"b,omitempty"`
	Min Name   `json:"min"`
	Amt string `json:"amt"`
}

type Params struct {
	Tax, Ratio, Base string // decimals scaled by 10^18, base fee amount
	Enable, Beacon   bool
}

type RegEntry struct {
	From, To Name
	Ratio    string // scaled by 10^18
}

type FnCase struct {
	Input, Ratio string
	Si, So       int
}

type History struct {
	Params   Params
	Registry []RegEntry `json:",omitempty"`
	NActors  int
	Balance  string
	Steps    []Op    `json:",omitempty"`
	Fn       *FnCase `json:",omitempty"`
}

func bigOf(s string) *big.Int {
	if s == "" {
		return big.NewInt(0)
	}
	x, ok := new(big.Int).SetString(s, 10)
	if !ok {
		panic("bad integer " + s)
	}
	return x
}

func decOf(s string) sdkmath.LegacyDec { return sdkmath.LegacyNewDecFromBigIntWithPrec(bigOf(s), 18) }

func u64(s string) uint64 {
	x := bigOf(s)
	if !x.IsUint64() {
		panic("not a uint64: " + s)
	}
	return x.Uint64()
}

var p18 = new(big.Int).Exp(big.NewInt(10), big.NewInt(18), nil)

func pow10(n int) *big.Int { return new(big.Int).Exp(big.NewInt(10), big.NewInt(int64(n)), nil) }

// ---------------------------------------------------------------- universe / address mapping

type world struct {
	e       *lib.Env
	k       tokenkeeper.Keeper
	evm     *evmDouble
	names   map[string]Name
	denoms  []Name
	accts   []int // bank accounts observed
	extra   []int // derived (non-20-byte) addresses the history mentions: never hold coins, never sign
	holders []int // ERC20 holders observed
	cids    *lib.Interner
}

func (w *world) addr(a int) sdk.AccAddress {
	switch {
	case a >= 0 && a < len(w.e.Actors):
		return w.e.Actors[a]
	case a == accModule:
		return lib.ModuleAddr(tokentypes.ModuleName)
	case a == accFeeCol:
		return lib.ModuleAddr(authtypes.FeeCollectorName)
	case a == accGov:
		return lib.ModuleAddr(govtypes.ModuleName)
	case a >= 300 && a < 400:
		// a DERIVED address: the bytes of actor (a-300)/10 followed by the first (a-300)%10 bytes of "xyz" — a legal
		// sdk address of 21..23 bytes. The owner index key 0x03 || owner || symbol has no separator, so
		// (derived(i, p), s) and (actor i, p ++ s) share one key.
		i, plen := (a-300)/10, (a-300)%10
		if i < len(w.e.Actors) && plen >= 1 && plen <= 3 {
			return sdk.AccAddress(append(append([]byte{}, w.e.Actors[i].Bytes()...), []byte("xyz"[:plen])...))
		}
		return nil
	case a >= 200:
		b := make([]byte, 20)
		b[0] = 0xee
		b[19] = byte(a - 200)
		return sdk.AccAddress(b)
	}
	return nil
}

func (w *world) addrStr(a int) string {
	switch a {
	case -1:
		return "not-an-address"
	case -2:
		return ""
	}
	if ad := w.addr(a); ad != nil {
		return ad.String()
	}
	return "not-an-address"
}

func (w *world) eth(a int) common.Address { return common.BytesToAddress(w.addr(a).Bytes()) }

func (w *world) acctOf(bech string) int {
	for _, a := range append(append(append([]int{}, w.accts...), accGov), w.extra...) {
		if w.addrStr(a) == bech {
			return a
		}
	}
	return -7
}

func (w *world) nameOf(s string) Name {
	if n, ok := w.names[s]; ok {
		return n
	}
	return Name{-9, len(s)}
}

func (w *world) contractID(hexAddr string) int {
	if hexAddr == "" {
		return 0
	}
	return w.cids.Id(common.HexToAddress(hexAddr).Hex()) + 1
}

// ---------------------------------------------------------------- execution

func coqParams(tax, ratio, base *big.Int, denom Name, enable, beacon bool) string {
	return lib.App("mkParams", lib.ZB(tax), lib.ZB(ratio), lib.ZB(base), denom.Coq(), lib.B(enable), lib.B(beacon))
}

const beaconAddr = "0x00000000000000000000000000000000000000bc"

func exec(h History) lib.Case {
	if h.Fn != nil {
		return execFn(*h.Fn)
	}
	c := lib.Case{Stats: map[string]int{}}
	w := &world{names: map[string]Name{}, cids: lib.NewInterner(), evm: newEVMDouble()}
	bal, _ := sdkmath.NewIntFromString(h.Balance)
	merge := func(cdc codec.Codec, state simapp.GenesisState) simapp.GenesisState {
		var g v1.GenesisState
		cdc.MustUnmarshalJSON(state[tokentypes.ModuleName], &g)
		g.Params.TokenTaxRate = decOf(h.Params.Tax)
		g.Params.MintTokenFeeRatio = decOf(h.Params.Ratio)
		g.Params.IssueTokenBaseFee = sdk.NewCoin("stake", sdkmath.NewIntFromBigInt(bigOf(h.Params.Base)))
		g.Params.EnableErc20 = h.Params.Enable
		g.Params.Beacon = ""
		if h.Params.Beacon {
			g.Params.Beacon = beaconAddr
		}
		// the simapp genesis funds accounts far beyond the native token's declared maximum;
		// declare the maximum the type allows so that the cap clause is meaningful for it too
		for i := range g.Tokens {
			if g.Tokens[i].Symbol == "stake" {
				g.Tokens[i].MaxSupply = tokentypes.MaximumMaxSupply
			}
		}
		state[tokentypes.ModuleName] = cdc.MustMarshalJSON(&g)
		return state
	}
	w.e = lib.NewEnv(lib.EnvOpts{
		NActors:   h.NActors,
		Balances:  sdk.NewCoins(sdk.NewCoin("stake", bal)),
		Consumers: []interface{}{&w.k},
		Providers: []interface{}{w.evm, tokenkeeper.ProvideMockICS20()},
		NoMocks:   true,
		Merge:     merge,
	})
	e := w.e
	w.evm.ak = &e.App.AccountKeeper
	w.evm.beacon = common.HexToAddress(beaconAddr)
	reg := w.k.VerifSwapRegistry()
	var regTerms []string
	for _, r := range h.Registry {
		reg[r.From.String()] = v1.SwapParams{MinUnit: r.To.String(), Ratio: decOf(r.Ratio)}
		regTerms = append(regTerms, lib.App("RE", r.From.flat(), r.To.flat(), lib.ZB(bigOf(r.Ratio))))
	}

	// universe: every name, account and holder the history mentions
	addName := func(n Name) {
		if _, ok := w.names[n.String()]; !ok && n.Len >= 3 {
			w.names[n.String()] = n
			w.denoms = append(w.denoms, n)
		}
	}
	addName(stake)
	for _, r := range h.Registry {
		addName(r.From)
		addName(r.To)
	}
	for _, op := range h.Steps {
		if op.Sym != (Name{}) {
			addName(op.Sym)
		}
		if op.Min != (Name{}) {
			addName(op.Min)
		}
		for _, ev := range op.Evs {
			addName(ev.Min)
		}
	}
	for i := 0; i < h.NActors; i++ {
		w.accts = append(w.accts, i)
	}
	w.accts = append(w.accts, accModule, accFeeCol)
	seenX := map[int]bool{}
	for _, op := range h.Steps {
		for _, a := range []int{op.A, op.B} {
			if a >= 300 && a < 400 && !seenX[a] {
				seenX[a] = true
				w.extra = append(w.extra, a)
			}
		}
	}
	w.holders = append(w.holders, w.accts...)
	seenH := map[int]bool{}
	for _, op := range h.Steps {
		if op.K == "hook" && op.A >= 200 && !seenH[op.A] {
			seenH[op.A] = true
			w.holders = append(w.holders, op.A)
		}
		for _, ev := range op.Evs {
			if ev.A >= 200 && !seenH[ev.A] {
				seenH[ev.A] = true
				w.holders = append(w.holders, ev.A)
			}
		}
		if op.K == "toerc20" && op.B >= 200 && !seenH[op.B] {
			seenH[op.B] = true
			w.holders = append(w.holders, op.B)
		}
	}

	obs0, o0 := w.observe(0)
	stakeSupply0 := e.Supply("stake")
	var balTerms []string
	for _, a := range w.accts {
		for _, d := range w.denoms {
			x := e.Balance(w.addr(a), d.String())
			if !x.IsZero() {
				balTerms = append(balTerms, lib.App("BE", lib.Z(int64(a)), d.flat(), lib.ZI(x)))
			}
		}
	}
	_ = o0
	nt := newNonTrivial()
	var steps []string
	for _, op := range h.Steps {
		term, msg := w.build(op)
		code := 0
		if op.K == "evmmode" {
			w.evm.mode = op.Mode
			lib.Stat(c.Stats, "op:evmmode")
		} else {
			snap := w.evm.Snapshot()
			var out lib.Outcome
			if op.K == "hook" {
				out = w.runHook(op)
			} else if op.K == "hookmulti" {
				out = w.runHookMulti(op)
			} else {
				out = e.Deliver(msg)
			}
			code = out.Code()
			if !out.OK() {
				w.evm.Restore(snap)
			}
			lib.Stat(c.Stats, "op:"+op.K)
			lib.Stat(c.Stats, "res:"+out.Kind)
			lib.Stat(c.Stats, "res:"+op.K+":"+out.Kind)
			nt.note(w, op, out.OK())
			c.Steps = append(c.Steps, fmt.Sprintf("%s -> %s %s", term, out.Kind, short(out.Err)))
		}
		o, _ := w.observe(code)
		steps = append(steps, lib.App("ST", term, o))
	}
	pt, pr, pb := bigOf(h.Params.Tax), bigOf(h.Params.Ratio), bigOf(h.Params.Base)
	c.Coq = lib.App("mkCase", coqParams(pt, pr, pb, stake, h.Params.Enable, h.Params.Beacon),
		lib.L(balTerms...), lib.ZI(stakeSupply0), lib.L(regTerms...), obs0, lib.L(steps...))
	c.NonTrivial = nt.ok()
	for k, v := range nt.stats() {
		c.Stats[k] += v
	}
	return c
}

func short(s string) string {
	if len(s) > 90 {
		return s[:90]
	}
	return s
}

// build renders the op as the model's message term and as the real sdk.Msg.
func (w *world) build(op Op) (string, sdk.Msg) {
	z := func(i int) string { return lib.Z(int64(i)) }
	amt := bigOf(op.Amt)
	coin := func(n Name) sdk.Coin { return sdk.Coin{Denom: n.String(), Amount: sdkmath.NewIntFromBigInt(amt)} }
	switch op.K {
	case "issue":
		return lib.App("Issue", z(op.A), op.Sym.Coq(), op.Min.Coq(), z(op.Nm), z(op.Scale), lib.ZB(bigOf(op.Initial)), lib.ZB(bigOf(op.Max)), lib.B(op.Mintable == 1)),
			&v1.MsgIssueToken{Symbol: op.Sym.String(), Name: tname(op.Nm), Scale: uint32(op.Scale), MinUnit: op.Min.String(),
				InitialSupply: u64(op.Initial), MaxSupply: u64(op.Max), Mintable: op.Mintable == 1, Owner: w.addrStr(op.A)}
	case "edit":
		mt := tokentypes.Nil
		if op.Mintable == 1 {
			mt = tokentypes.True
		} else if op.Mintable == 2 {
			mt = tokentypes.False
		}
		return lib.App("Edit", z(op.A), op.Sym.Coq(), z(op.Nm), lib.ZB(bigOf(op.Max)), z(op.Mintable)),
			&v1.MsgEditToken{Symbol: op.Sym.String(), Name: tname(op.Nm), MaxSupply: u64(op.Max), Mintable: mt, Owner: w.addrStr(op.A)}
	case "mint":
		return lib.App("Mint", z(op.A), z(op.B), op.Min.Coq(), lib.ZB(amt)),
			&v1.MsgMintToken{Coin: coin(op.Min), Receiver: w.addrStr(op.B), Owner: w.addrStr(op.A)}
	case "burn":
		return lib.App("Burn", z(op.A), op.Min.Coq(), lib.ZB(amt)),
			&v1.MsgBurnToken{Coin: coin(op.Min), Sender: w.addrStr(op.A)}
	case "transfer":
		return lib.App("Transfer", z(op.A), z(op.B), op.Sym.Coq()),
			&v1.MsgTransferTokenOwner{SrcOwner: w.addrStr(op.A), DstOwner: w.addrStr(op.B), Symbol: op.Sym.String()}
	case "swapfee":
		return lib.App("SwapFee", z(op.A), z(op.B), op.Min.Coq(), lib.ZB(amt)),
			&v1.MsgSwapFeeToken{FeePaid: coin(op.Min), Receiver: w.addrStr(op.B), Sender: w.addrStr(op.A)}
	case "deploy":
		return lib.App("Deploy", z(op.A), z(op.Nm), op.Sym.Coq(), op.Min.Coq(), z(op.Scale)),
			&v1.MsgDeployERC20{Symbol: op.Sym.String(), Name: tname(op.Nm), Scale: uint32(op.Scale), MinUnit: op.Min.String(), Authority: w.addrStr(op.A)}
	case "toerc20":
		recv := "not-hex"
		if op.B >= 0 {
			recv = w.eth(op.B).Hex()
		}
		return lib.App("ToErc20", z(op.A), z(op.B), op.Min.Coq(), lib.ZB(amt)),
			&v1.MsgSwapToERC20{Amount: coin(op.Min), Sender: w.addrStr(op.A), Receiver: recv}
	case "fromerc20":
		return lib.App("FromErc20", z(op.A), z(op.B), op.Min.Coq(), lib.ZB(amt)),
			&v1.MsgSwapFromERC20{WantedAmount: coin(op.Min), Sender: w.addrStr(op.A), Receiver: w.addrStr(op.B)}
	case "setparams":
		b := ""
		if op.Beacon {
			b = beaconAddr
		}
		fd := op.Sym // the fee denom; histories written before it became a parameter of the step name none: stake
		if fd == (Name{}) {
			fd = stake
		}
		return lib.App("SetParams", z(op.A), lib.ZB(bigOf(op.Tax)), lib.ZB(bigOf(op.Ratio)), lib.ZB(bigOf(op.Base)), fd.Coq(), lib.B(op.Enable), lib.B(op.Beacon)),
			&v1.MsgUpdateParams{Authority: w.addrStr(op.A), Params: v1.Params{TokenTaxRate: decOf(op.Tax), MintTokenFeeRatio: decOf(op.Ratio),
				IssueTokenBaseFee: sdk.Coin{Denom: fd.String(), Amount: sdkmath.NewIntFromBigInt(bigOf(op.Base))}, EnableErc20: op.Enable, Beacon: b}}
	case "evmmode":
		return lib.App("EvmMode", z(op.Mode)), nil
	case "upgrade":
		impl := "not-hex"
		if op.Nm >= 0 {
			impl = common.BytesToAddress([]byte{0xc0, byte(op.Nm)}).Hex()
		}
		return lib.App("UpgradeErc20", z(op.A), z(op.Nm)), &v1.MsgUpgradeERC20{Authority: w.addrStr(op.A), Implementation: impl}
	case "hookmulti":
		var evs []string
		for _, ev := range op.Evs {
			_, cid := w.contractOf(ev.Min)
			evs = append(evs, lib.Pair(z(cid), z(ev.A), z(ev.B), lib.ZB(bigOf(ev.Amt))))
		}
		return lib.App("HookMulti", lib.L(evs...)), nil
	case "hook":
		// the contract is the one the token of this min unit is bound to NOW (0: none)
		_, cid := w.contractOf(op.Min)
		return lib.App("HookToNative", z(cid), z(op.A), z(op.B), lib.ZB(amt)), nil
	}
	panic("unknown op " + op.K)
}

// contractOf finds the ERC20 contract the token with this min unit is bound to (nil, 0 if none).
func (w *world) contractOf(min Name) (*common.Address, int) {
	for _, ti := range w.k.GetTokens(w.e.Ctx, nil) {
		if ti.GetMinUnit() == min.String() && ti.GetContract() != "" {
			a := common.HexToAddress(ti.GetContract())
			return &a, w.contractID(ti.GetContract())
		}
	}
	return nil, 0
}

// runHook plays one EVM transaction against the bound contract of op.Min: the contract's own
// swapToNative (simulated: burn op.Amt of holder op.A, emit SwapToNative(from, to, amount)) and then
// the token keeper's PostTxProcessing hook on the receipt, atomically.
func (w *world) runHook(op Op) lib.Outcome {
	amt := bigOf(op.Amt)
	caddr, _ := w.contractOf(op.Min)
	return w.e.Try(func(ctx sdk.Context) error {
		if caddr == nil {
			return fmt.Errorf("erc20 contract not found")
		}
		from := w.eth(op.A)
		if w.evm.Balance(*caddr, from).Cmp(amt) < 0 {
			return fmt.Errorf("execution reverted: burn amount exceeds balance")
		}
		w.evm.contracts[*caddr][from] = new(big.Int).Sub(w.evm.Balance(*caddr, from), amt)
		abi := contracts.ERC20TokenContract.ABI
		ev := abi.Events[contracts.EventSwapToNative]
		data, err := ev.Inputs.Pack(from, w.addrStr(op.B), amt)
		if err != nil {
			return err
		}
		transfer := abi.Events["Transfer"]
		receipt := &ethtypes.Receipt{Logs: []*ethtypes.Log{
			// an ordinary Transfer log (3 topics) and a SwapToNative log of an unknown contract: both ignored
			{Address: *caddr, Topics: []common.Hash{transfer.ID, common.BytesToHash(from.Bytes()), {}}, Data: common.LeftPadBytes(amt.Bytes(), 32)},
			{Address: common.HexToAddress("0x00000000000000000000000000000000000000aa"), Topics: []common.Hash{ev.ID}, Data: data},
			{Address: *caddr, Topics: []common.Hash{ev.ID}, Data: data},
		}}
		return w.k.Hooks().PostTxProcessing(ctx, nil, receipt)
	})
}

// runHookMulti plays ONE EVM transaction in which swapToNative is called several times (a batching /
// forwarding contract; possibly on different bound contracts): every call burns the holder's ERC20 balance
// and emits its SwapToNative event; the receipt carries all events, interleaved with foreign logs, and the
// token keeper's PostTxProcessing hook runs once on it. Any failure reverts the whole transaction.
func (w *world) runHookMulti(op Op) lib.Outcome {
	return w.e.Try(func(ctx sdk.Context) error {
		abi := contracts.ERC20TokenContract.ABI
		ev := abi.Events[contracts.EventSwapToNative]
		transfer := abi.Events["Transfer"]
		var logs []*ethtypes.Log
		for i, e := range op.Evs {
			amt := bigOf(e.Amt)
			caddr, _ := w.contractOf(e.Min)
			if caddr == nil {
				return fmt.Errorf("erc20 contract not found")
			}
			from := w.eth(e.A)
			if w.evm.Balance(*caddr, from).Cmp(amt) < 0 {
				return fmt.Errorf("execution reverted: burn amount exceeds balance")
			}
			w.evm.contracts[*caddr][from] = new(big.Int).Sub(w.evm.Balance(*caddr, from), amt)
			data, err := ev.Inputs.Pack(from, w.addrStr(e.B), amt)
			if err != nil {
				return err
			}
			// the burn's own Transfer log (3 topics, ignored), on odd positions a SwapToNative log of an unbound contract (ignored)
			logs = append(logs, &ethtypes.Log{Address: *caddr, Topics: []common.Hash{transfer.ID, common.BytesToHash(from.Bytes()), {}}, Data: common.LeftPadBytes(amt.Bytes(), 32)})
			if i%2 == 1 {
				logs = append(logs, &ethtypes.Log{Address: common.HexToAddress("0x00000000000000000000000000000000000000aa"), Topics: []common.Hash{ev.ID}, Data: data})
			}
			logs = append(logs, &ethtypes.Log{Address: *caddr, Topics: []common.Hash{ev.ID}, Data: data})
		}
		return w.k.Hooks().PostTxProcessing(ctx, nil, &ethtypes.Receipt{Logs: logs})
	})
}

var tnames = []string{"[do-not-modify]", "Token One", "second token", "x", "a name of thirty-two characters!"}

func tname(i int) string {
	if i < 0 {
		if i == -1 {
			return ""
		}
		return strings.Repeat("n", 33)
	}
	if i < len(tnames) {
		return tnames[i]
	}
	return fmt.Sprintf("name-%d", i)
}

func tnameID(s string) int {
	for i, n := range tnames {
		if n == s {
			return i
		}
	}
	if s == "Network staking token" {
		return 1
	}
	var k int
	if _, err := fmt.Sscanf(s, "name-%d", &k); err == nil {
		return k
	}
	return 777
}

type obsData struct{}

func sortNames(ns []Name) {
	sort.Slice(ns, func(i, j int) bool {
		if ns[i].Id != ns[j].Id {
			return ns[i].Id < ns[j].Id
		}
		return ns[i].Len < ns[j].Len
	})
}

// observe reads everything C09 / C10 talk about: the Tokens, TotalBurn and Params queries, the raw
// index entries of the token store, bank supplies and balances, and the ERC20 double's ledger.
func (w *world) observe(code int) (string, obsData) {
	e, k := w.e, w.k
	z := func(i int) string { return lib.Z(int64(i)) }
	// tokens through the query server
	resp, err := k.Tokens(e.Ctx, &v1.QueryTokensRequest{Pagination: &query.PageRequest{Limit: 1000}})
	if err != nil {
		panic(err)
	}
	type tk struct {
		n    Name
		term string
	}
	var toks []tk
	for _, any := range resp.Tokens {
		var ti v1.TokenI
		if err := e.App.InterfaceRegistry().UnpackAny(any, &ti); err != nil {
			panic(err)
		}
		t := ti.(*v1.Token)
		sym := w.nameOf(t.Symbol)
		toks = append(toks, tk{sym, lib.App("mkToken", sym.Coq(), w.nameOf(t.MinUnit).Coq(), lib.ZU(uint64(t.Scale)), lib.ZU(t.InitialSupply),
			lib.ZU(t.MaxSupply), lib.B(t.Mintable), z(w.acctOf(t.Owner)), z(w.contractID(t.Contract)), z(tnameID(t.Name)))})
	}
	sort.SliceStable(toks, func(i, j int) bool {
		if toks[i].n.Id != toks[j].n.Id {
			return toks[i].n.Id < toks[j].n.Id
		}
		return toks[i].n.Len < toks[j].n.Len
	})
	var tokTerms []string
	for _, t := range toks {
		tokTerms = append(tokTerms, t.term)
	}
	// raw indexes
	store := e.Ctx.KVStore(e.App.GetKey(tokentypes.StoreKey))
	strVal := func(bz []byte) string {
		var s gogotypes.StringValue
		e.App.AppCodec().MustUnmarshal(bz, &s)
		return s.Value
	}
	var mus, owned, ctrs []string
	it := storetypes.KVStorePrefixIterator(store, tokentypes.PrefixTokenForMinUint)
	for ; it.Valid(); it.Next() {
		mus = append(mus, lib.App("ME", w.nameOf(string(it.Key()[1:])).flat(), w.nameOf(strVal(it.Value())).flat()))
	}
	it.Close()
	it = storetypes.KVStorePrefixIterator(store, tokentypes.PrefixTokens)
	for ; it.Valid(); it.Next() {
		key := it.Key()
		// the key is 0x03 || owner bytes || symbol with no separator and owners of any length: the symbol is the
		// entry's value, the owner is what precedes it in the key
		sym := strVal(it.Value())
		owner := "?"
		if len(key) > 1+len(sym) && string(key[len(key)-len(sym):]) == sym {
			owner = sdk.AccAddress(key[1 : len(key)-len(sym)]).String()
		} else {
			sym = "?" + sym
		}
		owned = append(owned, lib.App("OE", z(w.acctOf(owner)), w.nameOf(sym).flat()))
	}
	it.Close()
	it = storetypes.KVStorePrefixIterator(store, tokentypes.PrefixTokenForContract)
	for ; it.Valid(); it.Next() {
		ctrs = append(ctrs, lib.App("CE", z(w.contractID(common.BytesToAddress(it.Key()[1:]).Hex())), w.nameOf(strVal(it.Value())).flat()))
	}
	it.Close()
	// burned tally through the query server
	tb, err := k.TotalBurn(e.Ctx, &v1.QueryTotalBurnRequest{})
	if err != nil {
		panic(err)
	}
	var burned []string
	for _, cn := range tb.BurnedCoins {
		burned = append(burned, lib.App("SE", w.nameOf(cn.Denom).flat(), lib.ZI(cn.Amount)))
	}
	// bank
	var sup, bals []string
	for _, d := range w.denoms {
		if x := e.Supply(d.String()); !x.IsZero() {
			sup = append(sup, lib.App("SE", d.flat(), lib.ZI(x)))
		}
	}
	for _, a := range w.accts {
		for _, d := range w.denoms {
			if x := e.Balance(w.addr(a), d.String()); !x.IsZero() {
				bals = append(bals, lib.App("BE", z(a), d.flat(), lib.ZI(x)))
			}
		}
	}
	// ERC20 double: every deployed contract x every holder of the universe
	var ercs []string
	for _, c := range w.evm.order {
		cid := w.contractID(c.Hex())
		for _, hd := range w.holders {
			if x := w.evm.Balance(c, w.eth(hd)); x.Sign() != 0 {
				ercs = append(ercs, lib.App("EE", z(cid), z(hd), lib.ZB(x)))
			}
		}
		// anything credited outside the universe would be invisible otherwise
		for hAddr, b := range w.evm.contracts[c] {
			known := false
			for _, hd := range w.holders {
				if w.eth(hd) == hAddr {
					known = true
				}
			}
			if !known && b.Sign() != 0 {
				ercs = append(ercs, lib.App("EE", z(cid), z(-7), lib.ZB(b)))
			}
		}
	}
	pr, err := k.Params(e.Ctx, &v1.QueryParamsRequest{})
	if err != nil {
		panic(err)
	}
	p := pr.Params
	pterm := coqParams(p.TokenTaxRate.BigInt(), p.MintTokenFeeRatio.BigInt(), p.IssueTokenBaseFee.Amount.BigInt(),
		w.nameOf(p.IssueTokenBaseFee.Denom), p.EnableErc20, p.Beacon != "")
	return lib.App("mkObs", z(code), lib.L(tokTerms...), lib.L(mus...), lib.L(owned...), lib.L(ctrs...), lib.L(burned...),
		lib.L(sup...), lib.L(bals...), lib.L(ercs...), pterm), obsData{}
}

// ---------------------------------------------------------------- pure function stream

func execFn(f FnCase) lib.Case {
	c := lib.Case{Stats: map[string]int{}}
	in := sdkmath.NewIntFromBigInt(bigOf(f.Input))
	var b, m sdkmath.Int
	var pan interface{}
	func() {
		defer func() { pan = recover() }()
		b, m = tokentypes.LossLessSwap(in, decOf(f.Ratio), uint32(f.Si), uint32(f.So))
	}()
	if pan != nil {
		c.Notes = append(c.Notes, fmt.Sprintf("LossLessSwap panicked: %v", pan))
		b, m = sdkmath.NewInt(-1), sdkmath.NewInt(-1)
	}
	c.Coq = lib.Pair(lib.ZB(bigOf(f.Input)), lib.ZB(bigOf(f.Ratio)), lib.Z(int64(f.Si)), lib.Z(int64(f.So)), lib.Pair(lib.ZI(b), lib.ZI(m)))
	// non-trivial: the exact output has a fractional part: input * ratio * 10^so is not a multiple of 10^(si+18)
	num := new(big.Int).Mul(bigOf(f.Input), bigOf(f.Ratio))
	num.Mul(num, pow10(f.So))
	den := new(big.Int).Mul(pow10(f.Si), p18)
	c.NonTrivial = new(big.Int).Mod(num, den).Sign() != 0
	lib.Stat(c.Stats, "op:lossless")
	if bigOf(f.Ratio).Cmp(p18) == 0 {
		lib.Stat(c.Stats, "ratio:one")
	} else if bigOf(f.Ratio).Cmp(p18) < 0 {
		lib.Stat(c.Stats, "ratio:<1")
	} else {
		lib.Stat(c.Stats, "ratio:>1")
	}
	switch {
	case f.Si > f.So:
		lib.Stat(c.Stats, "scale:in>out")
	case f.Si < f.So:
		lib.Stat(c.Stats, "scale:in<out")
	default:
		lib.Stat(c.Stats, "scale:equal")
	}
	if !b.Equal(in) {
		lib.Stat(c.Stats, "res:dust-returned")
	} else {
		lib.Stat(c.Stats, "res:all-burned")
	}
	c.Steps = []string{fmt.Sprintf("LossLessSwap(%s, %s/1e18, %d, %d) = (%s, %s)", f.Input, f.Ratio, f.Si, f.So, b, m)}
	return c
}

// ---------------------------------------------------------------- translator

func feeFactor(out string) {
	var sb strings.Builder
	sb.WriteString("(** GENERATED by `token feefactor` (harness/cmd/token) from modules/token/keeper/fees.go: the value of\n")
	sb.WriteString("    [calcFeeFactor] (floating point, formatted to two decimals, parsed as a LegacyDec) for every\n")
	sb.WriteString("    symbol length 1..64, as integers scaled by 10^18.  Never edited by hand. *)\n")
	sb.WriteString("From Coq Require Import ZArith List.\nImport ListNotations.\nOpen Scope Z_scope.\n\n")
	sb.WriteString("Definition fee_factor_table : list (Z * Z) := [\n")
	for n := 1; n <= 64; n++ {
		f := tokenkeeper.VerifCalcFeeFactor(strings.Repeat("a", n))
		sep := ";"
		if n == 64 {
			sep = ""
		}
		fmt.Fprintf(&sb, "  (%d, %s)%s\n", n, f.BigInt().String(), sep)
	}
	sb.WriteString("].\n\n")
	fmt.Fprintf(&sb, "Definition fee_factor_base : Z := %d.\nDefinition fee_factor_exp : Z := %d.\n", tokenkeeper.FeeFactorBase, tokenkeeper.FeeFactorExp)
	if err := os.WriteFile(out, []byte(sb.String()), 0o644); err != nil {
		panic(err)
	}
}

func main() {
	if len(os.Args) >= 2 && os.Args[1] == "feefactor" {
		fs := flag.NewFlagSet("feefactor", flag.ExitOnError)
		out := fs.String("out", "", "")
		_ = fs.Parse(os.Args[2:])
		feeFactor(*out)
		return
	}
	lib.Main(lib.Driver[History]{Gen: gen, Exec: exec})
}
