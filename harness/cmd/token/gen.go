package main

import (
	"math/big"

	"verifharness/lib"
)

// ---------------------------------------------------------------- generator state (approximate: assumes
// well-formed operations succeed; only used to keep most operations valid and to aim at boundaries)

type gtok struct {
	sym, min Name
	scale    int
	owner    int
	mintable bool
	max      *big.Int // whole units
	initial  *big.Int // whole units
	supply   *big.Int // min units
	bal      map[int]*big.Int
	deployed bool
}

type gstate struct {
	r      *lib.Rand
	toks   []*gtok
	n      int
	usedS  map[Name]bool
	usedM  map[Name]bool
	erc    map[Name]map[int]*big.Int // min unit -> holder -> ERC20 balance
	enable bool
}

var maxU64 = new(big.Int).SetUint64(^uint64(0))
var maxInit = big.NewInt(100000000000)

func pick[T any](r *lib.Rand, xs ...T) T { return xs[r.Intn(len(xs))] }

func (g *gstate) freshSym() Name {
	lens := []int{3, 3, 4, 5, 6, 8, 9, 12, 27, 64}
	for i := 0; i < 50; i++ {
		n := Name{g.r.Intn(6), pick(g.r, lens...)}
		if !g.usedS[n] {
			return n
		}
	}
	return Name{g.r.Intn(6), 3 + g.r.Intn(60)}
}

func (g *gstate) freshMin() Name {
	for i := 0; i < 50; i++ {
		n := Name{6 + g.r.Intn(6), 3 + g.r.Intn(6)}
		if !g.usedM[n] {
			return n
		}
	}
	return Name{6 + g.r.Intn(6), 3 + g.r.Intn(60)}
}

func randParams(r *lib.Rand) Params {
	taxes := []string{"0", "400000000000000000", "1000000000000000000", "333333333333333333", "999999999999999999", "1"}
	ratios := []string{"0", "100000000000000000", "1000000000000000000", "777777777777777777", "500000000000000000"}
	bases := []string{"60000", "60000", "1", "7", "99999", "1000000", "0", "12345"}
	return Params{Tax: pick(r, taxes...), Ratio: pick(r, ratios...), Base: pick(r, bases...), Enable: true, Beacon: true}
}

func (g *gstate) issue(owner int) Op {
	r := g.r
	scale := pick(r, 0, 0, 1, 6, 6, 18, 18, r.Intn(19))
	initial := pick(r, big.NewInt(0), big.NewInt(1), big.NewInt(11), big.NewInt(1000), maxInit, r.BigRange(big.NewInt(0), maxInit), r.BigRange(big.NewInt(2), big.NewInt(100000)))
	mintable := r.Chance(3, 4)
	var max *big.Int
	switch r.Weighted(2, 2, 2, 2, 1) {
	case 0:
		max = big.NewInt(0)
	case 1:
		max = new(big.Int).Set(initial)
	case 2:
		max = new(big.Int).Add(initial, r.BigRange(big.NewInt(1), big.NewInt(1000)))
	case 3:
		max = r.BigRange(initial, maxU64)
	default:
		max = new(big.Int).Set(maxU64)
	}
	op := Op{K: "issue", A: owner, Sym: g.freshSym(), Min: g.freshMin(), Nm: 1 + r.Intn(3), Scale: scale,
		Initial: initial.String(), Max: max.String()}
	if mintable {
		op.Mintable = 1
	}
	eff := new(big.Int).Set(max)
	if max.Sign() == 0 {
		if mintable {
			eff = new(big.Int).Set(maxU64)
		} else {
			eff = new(big.Int).Set(initial)
		}
	}
	sup := new(big.Int).Mul(initial, pow10(scale))
	t := &gtok{sym: op.Sym, min: op.Min, scale: scale, owner: owner, mintable: mintable, max: eff, supply: sup,
		initial: new(big.Int).Set(initial), bal: map[int]*big.Int{owner: new(big.Int).Set(sup)}}
	g.toks = append(g.toks, t)
	g.usedS[op.Sym] = true
	g.usedM[op.Min] = true
	return op
}

func (g *gstate) other(a int) int {
	b := g.r.Intn(g.n)
	if b == a {
		b = (a + 1) % g.n
	}
	return b
}

func (t *gtok) holder(r *lib.Rand) (int, *big.Int) {
	var hs []int
	for h, b := range t.bal {
		if b.Sign() > 0 {
			hs = append(hs, h)
		}
	}
	if len(hs) == 0 {
		return t.owner, big.NewInt(0)
	}
	// deterministic order
	for i := 0; i < len(hs); i++ {
		for j := i + 1; j < len(hs); j++ {
			if hs[j] < hs[i] {
				hs[i], hs[j] = hs[j], hs[i]
			}
		}
	}
	h := hs[r.Intn(len(hs))]
	return h, t.bal[h]
}

func (g *gstate) mint(t *gtok) Op {
	r := g.r
	cap := new(big.Int).Mul(t.max, pow10(t.scale))
	room := new(big.Int).Sub(cap, t.supply)
	var amt *big.Int
	switch r.Weighted(3, 2, 2, 2, 4, 1) {
	case 5: // far beyond any cap (sdkmath.Int holds 256 bits): refused, never a panic
		amt = new(big.Int).Lsh(big.NewInt(1), uint(pick(r, 64, 128, 200, 255)))
		if r.Chance(1, 2) {
			amt.Sub(amt, big.NewInt(1))
		}
	case 0:
		amt = new(big.Int).Set(room)
	case 1:
		amt = new(big.Int).Add(room, big.NewInt(1))
	case 2:
		amt = new(big.Int).Sub(room, big.NewInt(1))
	case 3:
		amt = big.NewInt(1)
	default:
		hi := room
		lim := new(big.Int).Mul(big.NewInt(1000000), pow10(t.scale))
		if hi.Cmp(lim) > 0 && r.Chance(3, 4) {
			hi = lim
		}
		amt = r.BigRange(big.NewInt(1), hi)
	}
	if amt.Sign() <= 0 {
		amt = big.NewInt(1)
	}
	owner := t.owner
	recv := -2
	if r.Chance(1, 3) {
		recv = r.Intn(g.n)
	}
	if r.Chance(1, 40) {
		recv = accFeeCol
	}
	if r.Chance(1, 8) {
		owner = g.other(owner) // stranger
	}
	if t.mintable && owner == t.owner && amt.Cmp(room) <= 0 && recv != accFeeCol {
		t.supply.Add(t.supply, amt)
		to := recv
		if to == -2 {
			to = owner
		}
		if t.bal[to] == nil {
			t.bal[to] = big.NewInt(0)
		}
		t.bal[to].Add(t.bal[to], amt)
	}
	return Op{K: "mint", A: owner, B: recv, Min: t.min, Amt: amt.String()}
}

func (g *gstate) burn(t *gtok) Op {
	r := g.r
	h, b := t.holder(r)
	var amt *big.Int
	unit := pow10(t.scale)
	switch r.Weighted(3, 2, 2, 3, 1, 1) {
	case 5:
		amt = new(big.Int).Lsh(big.NewInt(1), uint(pick(r, 128, 255)))
	case 0: // half a unit
		amt = new(big.Int).Div(unit, big.NewInt(2))
	case 1:
		amt = big.NewInt(1)
	case 2:
		amt = new(big.Int).Set(b)
	case 3:
		amt = r.BigRange(big.NewInt(1), b)
	default:
		amt = new(big.Int).Add(b, big.NewInt(1))
	}
	if amt.Sign() <= 0 {
		amt = big.NewInt(1)
	}
	if amt.Cmp(b) <= 0 {
		t.bal[h].Sub(t.bal[h], amt)
		t.supply.Sub(t.supply, amt)
	}
	return Op{K: "burn", A: h, Min: t.min, Amt: amt.String()}
}

func (g *gstate) edit(t *gtok) Op {
	r := g.r
	unit := pow10(t.scale)
	fl := new(big.Int).Div(t.supply, unit)
	var max *big.Int
	switch r.Weighted(4, 2, 2, 2, 2, 1, 2) {
	case 6: // around the initial supply (a maximum below it is refused even when less circulates)
		max = new(big.Int).Add(t.initial, big.NewInt(int64(r.Intn(3)-1)))
	case 0:
		max = fl
	case 1:
		max = new(big.Int).Add(fl, big.NewInt(1))
	case 2:
		max = new(big.Int).Sub(fl, big.NewInt(1))
	case 3:
		max = big.NewInt(0)
	case 4:
		max = r.BigRange(fl, maxU64)
	default:
		max = new(big.Int).Set(maxU64)
	}
	if max.Sign() < 0 {
		max = big.NewInt(0)
	}
	if max.Cmp(maxU64) > 0 {
		max = new(big.Int).Set(maxU64)
	}
	owner := t.owner
	if r.Chance(1, 8) {
		owner = g.other(owner)
	}
	mt := r.Weighted(3, 2, 1)
	op := Op{K: "edit", A: owner, Sym: t.sym, Nm: pick(r, 0, 0, 2, 3, 4), Max: max.String(), Mintable: mt}
	if r.Chance(1, 30) {
		op.Nm = -1
	}
	// accepted: not below what circulates (in min units) and not below the initial supply
	ceilOK := new(big.Int).Mul(max, unit).Cmp(t.supply) >= 0 && max.Cmp(t.initial) >= 0
	if owner == t.owner && op.Nm >= 0 && (max.Sign() == 0 || ceilOK) {
		if max.Sign() > 0 {
			t.max = max
		}
		if mt == 1 {
			t.mintable = true
		} else if mt == 2 {
			t.mintable = false
		}
	}
	return op
}

func (g *gstate) transfer(t *gtok) Op {
	r := g.r
	src := t.owner
	if r.Chance(1, 6) {
		src = g.other(src)
	}
	dst := g.other(src)
	if r.Chance(1, 25) {
		dst = accFeeCol
	}
	if r.Chance(1, 30) {
		dst = src
	}
	if src == t.owner && dst != src && dst != accFeeCol {
		t.owner = dst
	}
	return Op{K: "transfer", A: src, B: dst, Sym: t.sym}
}

func (g *gstate) setparams() Op {
	p := randParams(g.r)
	if g.r.Chance(1, 12) { // the 195-bit bound of Params.Validate: 2^195-1 accepted, 2^195 refused
		b := new(big.Int).Lsh(big.NewInt(1), 195)
		if g.r.Chance(1, 2) {
			b.Sub(b, big.NewInt(1))
		}
		p.Base = b.String()
	}
	a := accGov
	if g.r.Chance(1, 5) {
		a = g.r.Intn(g.n)
	}
	en := g.enable
	if g.r.Chance(1, 4) {
		en = !en
	}
	if a == accGov {
		g.enable = en
	}
	// the fee denom: mostly the native symbol; sometimes another registered symbol (fees are then charged in that
	// token), a name that is only a min unit, an unregistered name, an upper-case name (all three refused)
	fd := stake
	if len(g.toks) > 0 && g.r.Chance(1, 5) {
		t := g.toks[g.r.Intn(len(g.toks))]
		switch g.r.Intn(5) {
		case 0, 1:
			fd = t.sym
			if g.r.Chance(1, 2) { // keep the fee payable by ordinary owners
				p.Base = pick(g.r, "1", "7", "0")
			}
		case 2:
			fd = t.min
		case 3:
			fd = g.freshSym()
		default:
			fd = Name{-1, 4}
		}
	}
	return Op{K: "setparams", A: a, Tax: p.Tax, Ratio: p.Ratio, Base: p.Base, Sym: fd, Enable: en, Beacon: true}
}

func (g *gstate) malformed() Op {
	r := g.r
	switch r.Intn(6) {
	case 0:
		return Op{K: "issue", A: r.Intn(g.n), Sym: Name{-1, 4}, Min: g.freshMin(), Nm: 1, Scale: 6, Initial: "10", Max: "20"}
	case 1:
		return Op{K: "issue", A: r.Intn(g.n), Sym: g.freshSym(), Min: Name{-2, 5}, Nm: 1, Scale: 6, Initial: "10", Max: "20"}
	case 2:
		return Op{K: "issue", A: r.Intn(g.n), Sym: g.freshSym(), Min: g.freshMin(), Nm: 1, Scale: 19, Initial: "10", Max: "20"}
	case 3:
		return Op{K: "issue", A: r.Intn(g.n), Sym: g.freshSym(), Min: g.freshMin(), Nm: 1, Scale: 2, Initial: "100000000001", Max: "0", Mintable: 1}
	case 4:
		return Op{K: "issue", A: r.Intn(g.n), Sym: g.freshSym(), Min: g.freshMin(), Nm: 1, Scale: 2, Initial: "100", Max: "99"}
	default:
		return Op{K: "burn", A: -1, Min: g.freshMin(), Amt: "5"}
	}
}

func newGState(r *lib.Rand, n int) *gstate {
	return &gstate{r: r, n: n, usedS: map[Name]bool{}, usedM: map[Name]bool{}, erc: map[Name]map[int]*big.Int{}, enable: true}
}

// genC09: issue / edit / mint / burn / transfer-owner by owners and strangers (+ parameter updates)
func genC09(r *lib.Rand, tier string) History {
	h := History{Params: randParams(r), NActors: 4, Balance: "1000000000"}
	g := newGState(r, h.NActors)
	n := 8 + r.Intn(22)
	if tier == "thorough" {
		n = 8 + r.Intn(60)
	}
	h.Steps = append(h.Steps, g.issue(r.Intn(g.n)))
	// a quarter of the histories: a second token A, of another owner, whose SYMBOL is the first token B's MIN
	// UNIT (separate name spaces in the code): edits / transfers name A by that string, mints / burns name B
	var clashA, clashB *gtok
	if r.Chance(1, 4) {
		clashB = g.toks[0]
		op := g.issue(g.other(clashB.owner))
		op.Sym = clashB.min
		clashA = g.toks[len(g.toks)-1]
		clashA.sym = op.Sym
		h.Steps = append(h.Steps, op)
	}
	// a fifth of the histories: the victim owns the symbol p++s, the attacker (actor i) issues s and hands it to the
	// DERIVED address actor_i++p (a legal 21..23-byte address that never signs): the owner-index keys of
	// (actor_i++p, s) and (actor_i, p++s) are the same bytes; then actor i tries to govern the victim's token
	var ovLong Name
	ovAtt := -1
	if r.Chance(1, 5) {
		att := r.Intn(g.n)
		vic := g.other(att)
		plen := 1 + r.Intn(3)
		base := Name{r.Intn(6), 3 + r.Intn(4)}
		for g.usedS[base] {
			base = Name{r.Intn(6), 3 + r.Intn(6)}
		}
		long := Name{500 + 100*plen + base.Id, base.Len + plen}
		opL := g.issue(vic)
		opL.Sym = long
		g.toks[len(g.toks)-1].sym = long
		opS := g.issue(att)
		opS.Sym = base
		g.usedS[base] = true
		g.toks = g.toks[:len(g.toks)-1] // handed over right away: nobody signs for it any more
		h.Steps = append(h.Steps, opL, opS, Op{K: "transfer", A: att, B: 300 + 10*att + plen, Sym: base})
		ovLong, ovAtt = long, att
	}
	for len(h.Steps) < n {
		if ovAtt >= 0 && r.Chance(1, 7) {
			switch r.Intn(3) {
			case 0:
				h.Steps = append(h.Steps, Op{K: "edit", A: ovAtt, Sym: ovLong, Nm: pick(r, 0, 2), Max: "0", Mintable: pick(r, 0, 1, 2)})
			case 1:
				h.Steps = append(h.Steps, Op{K: "transfer", A: ovAtt, B: g.other(ovAtt), Sym: ovLong})
			default:
				h.Steps = append(h.Steps, Op{K: "edit", A: ovAtt, Sym: ovLong, Nm: 3, Max: maxU64.String(), Mintable: 0})
			}
			continue
		}
		if clashB != nil && r.Chance(1, 8) {
			// cross-token attempts through the shared string: A's owner on B's coins, B's owner on A's record
			x := pick(r, "1", "1000", new(big.Int).Set(pow10(clashB.scale)).String())
			switch r.Intn(5) {
			case 0:
				h.Steps = append(h.Steps, Op{K: "mint", A: clashA.owner, B: -2, Min: clashB.min, Amt: x})
			case 1:
				h.Steps = append(h.Steps, Op{K: "burn", A: clashA.owner, Min: clashB.min, Amt: x})
			case 2:
				h.Steps = append(h.Steps, Op{K: "edit", A: clashB.owner, Sym: clashA.sym, Nm: 2, Max: "0", Mintable: pick(r, 1, 2)})
			case 3:
				h.Steps = append(h.Steps, Op{K: "transfer", A: clashB.owner, B: g.other(clashB.owner), Sym: clashA.sym})
			default:
				h.Steps = append(h.Steps, Op{K: "mint", A: clashB.owner, B: -2, Min: clashA.sym, Amt: x}) // = B's own coin: the owner's regular mint
			}
			continue
		}
		if r.Chance(1, 14) {
			h.Steps = append(h.Steps, g.malformed())
			continue
		}
		if len(g.toks) < 3 && r.Chance(1, 6) {
			op := g.issue(r.Intn(g.n))
			// occasionally collide with an existing symbol / min unit (also across the two name spaces)
			if len(g.toks) >= 2 && r.Chance(1, 3) {
				prev := g.toks[r.Intn(len(g.toks)-1)]
				g.toks = g.toks[:len(g.toks)-1]
				switch r.Intn(3) {
				case 0:
					op.Sym = prev.sym
				case 1:
					op.Min = prev.min
				default:
					// symbol equal to another token's min unit: allowed by the code
					op.Sym = prev.min
					g.toks = append(g.toks, &gtok{sym: op.Sym, min: op.Min, scale: op.Scale, owner: op.A, mintable: op.Mintable == 1,
						max: effMax(op), initial: bigOf(op.Initial), supply: new(big.Int).Mul(bigOf(op.Initial), pow10(op.Scale)),
						bal: map[int]*big.Int{op.A: new(big.Int).Mul(bigOf(op.Initial), pow10(op.Scale))}})
				}
			}
			h.Steps = append(h.Steps, op)
			continue
		}
		t := g.toks[r.Intn(len(g.toks))]
		switch r.Weighted(5, 5, 5, 2, 1) {
		case 0:
			h.Steps = append(h.Steps, g.mint(t))
		case 1:
			h.Steps = append(h.Steps, g.burn(t))
		case 2:
			h.Steps = append(h.Steps, g.edit(t))
		case 3:
			h.Steps = append(h.Steps, g.transfer(t))
		default:
			h.Steps = append(h.Steps, g.setparams())
		}
	}
	if ovAtt >= 0 {
		// keep the attacker from ever OWNING p++s himself (by a transfer to him or a colliding issue): the code's
		// index entries of (actor_i++p, s) and (actor_i, p++s) would then be one and the same key and overwrite each
		// other — a quirk of the unchanged code's owner index that the model (exact pairs) does not reproduce and
		// that no C09 clause is about
		kept := h.Steps[:0]
		for _, op := range h.Steps {
			if op.Sym == ovLong && ((op.K == "transfer" && op.B == ovAtt) || (op.K == "issue" && op.A == ovAtt)) {
				continue
			}
			kept = append(kept, op)
		}
		h.Steps = kept
	}
	return h
}

func effMax(op Op) *big.Int {
	m := bigOf(op.Max)
	if m.Sign() == 0 {
		if op.Mintable == 1 {
			return new(big.Int).Set(maxU64)
		}
		return bigOf(op.Initial)
	}
	return m
}

// ---------------------------------------------------------------- C10 histories

func randRatio(r *lib.Rand) *big.Int {
	switch r.Weighted(4, 2, 2, 2, 2, 2) {
	case 0:
		return new(big.Int).Set(p18)
	case 1:
		return big.NewInt(400000000000000000)
	case 2:
		return new(big.Int).Mul(big.NewInt(int64(2+r.Intn(9))), p18)
	case 3:
		return r.BigRange(big.NewInt(1), p18)
	case 4:
		return r.BigRange(p18, new(big.Int).Mul(big.NewInt(1000), p18))
	default:
		return pick(r, big.NewInt(1), big.NewInt(333333333333333333), big.NewInt(500000000000000000), big.NewInt(1500000000000000000), big.NewInt(999999999999999999))
	}
}

// genERC20: tokens, ERC20 deployments, conversions in both directions (with failures: unbound
// token, ERC20 disabled, insufficient ERC20 / native balance, blocked receiver, misbehaving EVM)
// and fee-token swaps.
func genERC20(r *lib.Rand, tier string) History {
	h := History{Params: randParams(r), NActors: 4, Balance: "1000000000"}
	h.Params.Base = pick(r, "60000", "1", "100")
	g := newGState(r, h.NActors)
	n := 12 + r.Intn(22)
	if tier == "thorough" {
		n = 12 + r.Intn(60)
	}
	// two or three tokens up front, large caps so that conversions are not cap-bound
	nt := 2 + r.Intn(2)
	for i := 0; i < nt; i++ {
		op := g.issue(r.Intn(g.n))
		op.Initial = pick(r, "1000", "100000000000", "11", "5000")
		op.Max = pick(r, "0", maxU64.String())
		op.Mintable = 1
		t := g.toks[len(g.toks)-1]
		t.mintable = true
		t.max = new(big.Int).Set(maxU64)
		t.initial = bigOf(op.Initial)
		t.supply = new(big.Int).Mul(bigOf(op.Initial), pow10(op.Scale))
		t.bal = map[int]*big.Int{op.A: new(big.Int).Set(t.supply)}
		h.Steps = append(h.Steps, op)
	}
	// a quarter of the histories: token A whose SYMBOL is token B's MIN UNIT (symbols and min units are
	// separate name spaces in the code), with another scale, so that a symbol-first lookup of B's coin
	// denom finds A instead of B
	var clashA, clashB *gtok
	if r.Chance(1, 4) {
		clashB = g.toks[r.Intn(len(g.toks))]
		op := g.issue(r.Intn(g.n))
		op.Sym = clashB.min
		if op.Scale == clashB.scale {
			op.Scale = (clashB.scale + pick(r, 1, 6, 12)) % 19
		}
		op.Initial = pick(r, "1000", "100000000000", "11", "5000")
		op.Max = pick(r, "0", maxU64.String())
		op.Mintable = 1
		clashA = g.toks[len(g.toks)-1]
		clashA.sym, clashA.scale, clashA.mintable = op.Sym, op.Scale, true
		clashA.max = new(big.Int).Set(maxU64)
		clashA.initial = bigOf(op.Initial)
		clashA.supply = new(big.Int).Mul(bigOf(op.Initial), pow10(op.Scale))
		clashA.bal = map[int]*big.Int{op.A: new(big.Int).Set(clashA.supply)}
		h.Steps = append(h.Steps, op)
	}
	// swap registry between the tokens (possibly chained / mutual); one entry per source
	for i, t := range g.toks {
		if r.Chance(3, 4) {
			to := g.toks[(i+1+r.Intn(len(g.toks)-1))%len(g.toks)]
			target := to.min
			if r.Chance(1, 8) {
				target = to.sym // a symbol that is no min unit: refused by the min-unit lookup of the target
			}
			ratio := randRatio(r)
			if clashB != nil && t != clashB && r.Chance(3, 4) {
				target = clashB.min // the clashing denom as swap target
				if r.Chance(1, 2) {
					ratio = new(big.Int).Set(p18)
				}
			}
			h.Registry = append(h.Registry, RegEntry{From: t.min, To: target, Ratio: ratio.String()})
		}
	}
	// most tokens get their ERC20 contract right away (both tokens of a clash always)
	for _, t := range g.toks {
		if r.Chance(4, 5) || t == clashA || t == clashB {
			h.Steps = append(h.Steps, Op{K: "deploy", A: accGov, Nm: 1, Sym: t.sym, Min: t.min, Scale: t.scale})
			t.deployed = true
		}
	}
	mode := 0
	for len(h.Steps) < n {
		t := g.toks[r.Intn(len(g.toks))]
		if clashB != nil && r.Chance(1, 2) {
			t = pick(r, clashA, clashB, clashB)
		}
		if !t.deployed && r.Chance(3, 4) {
			for _, t2 := range g.toks {
				if t2.deployed {
					t = t2
				}
			}
		}
		if !g.enable && r.Chance(1, 2) { // switched off: back on soon
			h.Steps = append(h.Steps, Op{K: "setparams", A: accGov, Tax: h.Params.Tax, Ratio: h.Params.Ratio, Base: h.Params.Base, Enable: true, Beacon: true})
			g.enable = true
			continue
		}
		switch r.Weighted(2, 9, 8, 6, 1, 1, 2, 1, 5, 1) {
		case 9: // upgrade of the ERC20 implementation behind the beacon (authority / stranger / bad address)
			a := accGov
			if r.Chance(1, 5) {
				a = r.Intn(g.n)
			}
			impl := 1 + r.Intn(3)
			if r.Chance(1, 10) {
				impl = -1
			}
			h.Steps = append(h.Steps, Op{K: "upgrade", A: a, Nm: impl})
		case 8: // swap-to-native through the EVM hook
			var hs []int
			for _, a := range []int{0, 1, 2, 3, 200, 201} {
				if b := g.erc[t.min][a]; b != nil && b.Sign() > 0 {
					hs = append(hs, a)
				}
			}
			if len(hs) == 0 && r.Chance(5, 6) {
				continue // nothing to swap back yet
			}
			from := r.Intn(g.n)
			b := big.NewInt(0)
			if len(hs) > 0 && r.Chance(14, 15) {
				from = hs[r.Intn(len(hs))]
				b = g.erc[t.min][from]
			}
			amt := pick(r, big.NewInt(1), new(big.Int).Set(b), new(big.Int).Set(b), r.BigRange(big.NewInt(1), b), r.BigRange(big.NewInt(1), b), r.BigRange(big.NewInt(1), b), new(big.Int).Add(b, big.NewInt(1)))
			if r.Chance(1, 30) || amt.Sign() == 0 {
				amt = pick(r, big.NewInt(0), big.NewInt(1), big.NewInt(1))
			}
			if amt.Sign() < 0 {
				amt = big.NewInt(1)
			}
			to := pick(r, r.Intn(g.n), r.Intn(g.n), from)
			if to >= 200 {
				to = r.Intn(g.n)
			}
			if r.Chance(1, 12) {
				to = accFeeCol
			}
			if r.Chance(1, 30) {
				to = -1
			}
			ok1 := t.deployed && g.enable && amt.Sign() > 0 && amt.Cmp(b) <= 0 && to >= 0 && to != accFeeCol
			if ok1 {
				g.erc[t.min][from].Sub(g.erc[t.min][from], amt)
				if t.bal[to] == nil {
					t.bal[to] = big.NewInt(0)
				}
				t.bal[to].Add(t.bal[to], amt)
				t.supply.Add(t.supply, amt)
			}
			hop := Op{K: "hook", A: from, B: to, Min: t.min, Amt: amt.String()}
			if (ok1 && r.Chance(2, 3)) || r.Chance(1, 8) { // one EVM transaction calling swapToNative several times (same or other bound tokens)
				evs := []HookEv{{A: from, B: to, Min: t.min, Amt: amt.String()}}
				for i, n := 0, 1+r.Intn(3); i < n; i++ {
					t2 := t
					if r.Chance(1, 2) {
						t2 = g.toks[r.Intn(len(g.toks))]
					}
					var hs2 []int
					for _, a := range []int{0, 1, 2, 3, 200, 201} {
						if b := g.erc[t2.min][a]; b != nil && b.Sign() > 0 {
							hs2 = append(hs2, a)
						}
					}
					if len(hs2) == 0 {
						continue
					}
					h2 := hs2[r.Intn(len(hs2))]
					b2 := g.erc[t2.min][h2]
					amt2 := pick(r, big.NewInt(1), new(big.Int).Set(b2), r.BigRange(big.NewInt(1), b2), r.BigRange(big.NewInt(1), b2))
					if r.Chance(1, 15) {
						amt2 = new(big.Int).Add(b2, big.NewInt(1)) // the whole transaction reverts
					}
					to2 := r.Intn(g.n)
					if r.Chance(1, 20) {
						to2 = accFeeCol
					}
					if t2.deployed && g.enable && amt2.Cmp(b2) <= 0 && to2 != accFeeCol {
						g.erc[t2.min][h2].Sub(g.erc[t2.min][h2], amt2)
						if t2.bal[to2] == nil {
							t2.bal[to2] = big.NewInt(0)
						}
						t2.bal[to2].Add(t2.bal[to2], amt2)
						t2.supply.Add(t2.supply, amt2)
					}
					evs = append(evs, HookEv{A: h2, B: to2, Min: t2.min, Amt: amt2.String()})
				}
				if len(evs) > 1 {
					hop = Op{K: "hookmulti", Evs: evs}
				}
			}
			h.Steps = append(h.Steps, hop)
		case 0: // deploy
			a := accGov
			if r.Chance(1, 8) {
				a = r.Intn(g.n)
			}
			op := Op{K: "deploy", A: a, Nm: 1, Sym: t.sym, Min: t.min, Scale: t.scale}
			if r.Chance(1, 8) { // an unregistered min unit with an IBC trace: a new module-owned token
				op.Sym, op.Min, op.Scale = g.freshSym(), g.freshMin(), r.Intn(19)
				if r.Chance(1, 3) {
					op.Sym = t.sym
				}
			}
			if a == accGov && g.enable && mode != 7 && op.Min == t.min {
				t.deployed = true
			}
			h.Steps = append(h.Steps, op)
		case 1: // to ERC20
			hd, b := t.holder(r)
			amt := pick(r, big.NewInt(1), new(big.Int).Set(b), r.BigRange(big.NewInt(1), b), r.BigRange(big.NewInt(1), b), new(big.Int).Add(b, big.NewInt(1)))
			if amt.Sign() <= 0 {
				amt = big.NewInt(1)
			}
			recv := pick(r, hd, hd, r.Intn(g.n), r.Intn(g.n), r.Intn(g.n), 200, 201)
			if r.Chance(1, 40) {
				recv = -1
			}
			if t.deployed && g.enable && amt.Cmp(b) <= 0 && recv >= 0 && (mode == 0 || mode == 3 || mode == 4 || mode == 6) {
				t.bal[hd].Sub(t.bal[hd], amt)
				t.supply.Sub(t.supply, amt)
				if g.erc[t.min] == nil {
					g.erc[t.min] = map[int]*big.Int{}
				}
				if g.erc[t.min][recv] == nil {
					g.erc[t.min][recv] = big.NewInt(0)
				}
				g.erc[t.min][recv].Add(g.erc[t.min][recv], amt)
			}
			h.Steps = append(h.Steps, Op{K: "toerc20", A: hd, B: recv, Min: t.min, Amt: amt.String()})
		case 2: // from ERC20
			var hs []int
			for a := 0; a < g.n; a++ {
				if b := g.erc[t.min][a]; b != nil && b.Sign() > 0 {
					hs = append(hs, a)
				}
			}
			if len(hs) == 0 && r.Chance(5, 6) {
				continue // no actor holds the ERC20 form yet
			}
			sender := r.Intn(g.n)
			b := big.NewInt(0)
			if len(hs) > 0 && r.Chance(14, 15) {
				sender = hs[r.Intn(len(hs))]
				b = g.erc[t.min][sender]
			}
			amt := pick(r, big.NewInt(1), new(big.Int).Set(b), r.BigRange(big.NewInt(1), b), r.BigRange(big.NewInt(1), b), new(big.Int).Add(b, big.NewInt(1)))
			if amt.Sign() <= 0 {
				amt = big.NewInt(1)
			}
			recv := pick(r, sender, sender, r.Intn(g.n))
			if r.Chance(1, 12) {
				recv = accFeeCol // blocked: the native payout fails after the ERC20 burn
			}
			if t.deployed && g.enable && amt.Cmp(b) <= 0 && recv != accFeeCol && (mode == 0 || mode == 1 || mode == 2 || mode == 5) {
				g.erc[t.min][sender].Sub(g.erc[t.min][sender], amt)
				if t.bal[recv] == nil {
					t.bal[recv] = big.NewInt(0)
				}
				t.bal[recv].Add(t.bal[recv], amt)
				t.supply.Add(t.supply, amt)
			}
			h.Steps = append(h.Steps, Op{K: "fromerc20", A: sender, B: recv, Min: t.min, Amt: amt.String()})
		case 3: // fee-token swap
			hd, b := t.holder(r)
			amt := pick(r, big.NewInt(1), big.NewInt(3), r.BigRange(big.NewInt(1), b), r.BigRange(big.NewInt(1), b), new(big.Int).Set(b),
				r.BigRange(big.NewInt(1), pow10(t.scale)))
			if r.Chance(1, 12) { // offers the kernel cannot hold in a LegacyDec (panic) or that merely exceed the balance
				amt = new(big.Int).Lsh(big.NewInt(1), uint(pick(r, 190, 200, 236, 250, 255)))
			}
			if amt.Sign() <= 0 {
				amt = big.NewInt(1)
			}
			recv := pick(r, -2, -2, r.Intn(g.n))
			if r.Chance(1, 25) {
				recv = accFeeCol
			}
			// the generator does not track the outcome (it depends on the kernel); balances drift conservatively
			if amt.Cmp(b) <= 0 {
				t.bal[hd].Sub(t.bal[hd], amt)
			}
			h.Steps = append(h.Steps, Op{K: "swapfee", A: hd, B: recv, Min: t.min, Amt: amt.String()})
		case 4:
			h.Steps = append(h.Steps, g.setparams())
		case 5:
			mode = pick(r, 0, 0, 1, 2, 3, 4, 5, 6, 7, 8)
			h.Steps = append(h.Steps, Op{K: "evmmode", Mode: mode})
		case 6:
			if t.mintable {
				h.Steps = append(h.Steps, g.mint(t))
			} else {
				h.Steps = append(h.Steps, g.burn(t))
			}
		default:
			h.Steps = append(h.Steps, g.burn(t))
		}
		if mode != 0 && r.Chance(1, 3) {
			mode = 0
			h.Steps = append(h.Steps, Op{K: "evmmode", Mode: 0})
		}
	}
	return h
}

// ---------------------------------------------------------------- LossLessSwap as a pure function

func genFn(r *lib.Rand, tier string) History {
	si, so := r.Intn(19), r.Intn(19)
	switch r.Intn(6) {
	case 0:
		so = si
	case 1:
		si, so = pick(r, 18, 6, 1), pick(r, 0, 6)
	}
	ratio := randRatio(r)
	var in *big.Int
	switch r.Weighted(4, 3, 2, 2, 2) {
	case 0:
		in = r.Big(128)
	case 1:
		in = r.BigRange(big.NewInt(0), big.NewInt(100))
	case 2: // around a multiple of 10^|si-so|
		d := si - so
		if d < 0 {
			d = -d
		}
		in = new(big.Int).Mul(r.BigRange(big.NewInt(0), big.NewInt(1000000)), pow10(d))
		in.Add(in, big.NewInt(int64(r.Intn(3)-1)))
	case 3: // half-way cases of the 18th digit: input * ratio ends in ...5 at digit 19
		in = new(big.Int).Add(new(big.Int).Mul(r.Big(64), big.NewInt(10)), big.NewInt(5))
		if r.Chance(1, 2) {
			in = big.NewInt(2499999999999999999)
			ratio = big.NewInt(400000000000000000)
			si, so = 18, 0
			in.Add(in, new(big.Int).Mul(big.NewInt(int64(r.Intn(4))), big.NewInt(2500000000000000000)))
		}
	default:
		in = r.Big(64)
	}
	if in.Sign() < 0 {
		in = big.NewInt(0)
	}
	return History{Fn: &FnCase{Input: in.String(), Ratio: ratio.String(), Si: si, So: so}}
}

func gen(r *lib.Rand, tier, stream string, i int) History {
	switch stream {
	case "lossless":
		return genFn(r, tier)
	case "erc20":
		return genERC20(r, tier)
	}
	return genC09(r, tier)
}

// ---------------------------------------------------------------- non-triviality (DESIGN appendix A)

type ntTok struct {
	owner       int
	burned      bool
	transferred bool
}

type nonTrivial struct {
	bySym  map[Name]*ntTok
	byMin  map[Name]*ntTok
	c09    bool
	convOK int
	convKO int
	swapOK int
	st     map[string]int
}

func newNonTrivial() *nonTrivial {
	return &nonTrivial{bySym: map[Name]*ntTok{}, byMin: map[Name]*ntTok{}, st: map[string]int{}}
}

func (n *nonTrivial) note(w *world, op Op, ok bool) {
	switch op.K {
	case "issue":
		if ok {
			t := &ntTok{owner: op.A}
			n.bySym[op.Sym] = t
			n.byMin[op.Min] = t
		}
	case "burn":
		if t := n.byMin[op.Min]; t != nil && ok {
			t.burned = true
		}
	case "transfer":
		if t := n.bySym[op.Sym]; t != nil {
			if op.A != t.owner {
				n.st["nt:stranger"]++
			}
			if ok {
				t.transferred = true
				t.owner = op.B
			}
		}
	case "mint", "edit":
		t := n.byMin[op.Min]
		if op.K == "edit" {
			t = n.bySym[op.Sym]
		}
		if t != nil {
			if t.burned {
				n.c09 = true
				n.st["nt:after-burn"]++
			}
			if t.transferred {
				n.c09 = true
				n.st["nt:after-transfer"]++
			}
			if op.A != t.owner {
				n.c09 = true
				n.st["nt:stranger"]++
			}
		}
	case "toerc20", "fromerc20", "hook", "hookmulti":
		if ok {
			n.convOK++
		} else {
			n.convKO++
		}
	case "swapfee":
		if ok {
			n.swapOK++
		}
	}
}

func (n *nonTrivial) ok() bool {
	return n.c09 || (n.convOK > 0 && n.convKO > 0) || (n.convOK > 0 && n.swapOK > 0)
}

func (n *nonTrivial) stats() map[string]int { return n.st }
