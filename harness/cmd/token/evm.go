package main

import (
	"context"
	"fmt"
	"math/big"

	cryptotypes "github.com/cosmos/cosmos-sdk/crypto/types"
	sdk "github.com/cosmos/cosmos-sdk/types"
	authkeeper "github.com/cosmos/cosmos-sdk/x/auth/keeper"
	"github.com/ethereum/go-ethereum/common"
	"github.com/ethereum/go-ethereum/core"
	"github.com/ethereum/go-ethereum/core/vm"
	"github.com/ethereum/go-ethereum/crypto"

	"mods.irisnet.org/modules/token/contracts"
	tokentypes "mods.irisnet.org/modules/token/types"
)

// evmDouble is a journalled in-memory stand-in for the EVM keeper behind tokentypes.EVMKeeper.
// It keeps one ERC20 ledger per deployed contract, decodes the ABI calls the token keeper
// issues (constructor of the proxy, balanceOf, mint, burn, name, symbol, decimals), bumps the
// sender's account sequence on contract creation (as a real EVM does, so that two deployments
// get two addresses) and supports snapshot / restore so that a failed transaction leaves the
// ERC20 side unchanged, as a real EVM keeper whose state lives in the multistore would.
//
// mode selects a misbehaviour of the NEXT calls (set by the "evmmode" step of a history):
//
//	0 normal; 1 mint reverts; 2 mint reports success but credits nothing; 5 mint credits one unit
//	too many; 3 burn reverts; 4 burn reports success but debits nothing; 6 burn debits one unit
//	too few; 7 contract creation fails; 8 the beacon's upgradeTo reverts.
type evmDouble struct {
	ak        *authkeeper.AccountKeeper
	contracts map[common.Address]map[common.Address]*big.Int
	order     []common.Address // deployment order
	mode      int
	beacon    common.Address
	impl      common.Address // implementation the beacon points to (set by upgradeTo)
	upgrades  int
}

var _ tokentypes.EVMKeeper = (*evmDouble)(nil)

func newEVMDouble() *evmDouble {
	return &evmDouble{contracts: map[common.Address]map[common.Address]*big.Int{}}
}

type evmSnap struct {
	contracts map[common.Address]map[common.Address]*big.Int
	order     []common.Address
}

func (e *evmDouble) Snapshot() evmSnap {
	s := evmSnap{contracts: map[common.Address]map[common.Address]*big.Int{}, order: append([]common.Address(nil), e.order...)}
	for c, m := range e.contracts {
		mm := map[common.Address]*big.Int{}
		for h, b := range m {
			mm[h] = new(big.Int).Set(b)
		}
		s.contracts[c] = mm
	}
	return s
}

func (e *evmDouble) Restore(s evmSnap) {
	e.contracts = s.contracts
	e.order = s.order
}

func (e *evmDouble) Balance(c, h common.Address) *big.Int {
	if m, ok := e.contracts[c]; ok {
		if b, ok := m[h]; ok {
			return new(big.Int).Set(b)
		}
	}
	return big.NewInt(0)
}

func (e *evmDouble) ChainID() *big.Int { return big.NewInt(16688) }

func (e *evmDouble) SupportedKey(cryptotypes.PubKey) bool { return true }

func (e *evmDouble) EstimateGas(context.Context, *tokentypes.EthCallRequest) (uint64, error) {
	return 3000000, nil
}

func (e *evmDouble) ApplyMessage(ctx sdk.Context, msg core.Message, _ vm.EVMLogger, commit bool) (*tokentypes.Result, error) {
	if msg.To() == nil {
		if e.mode == 7 {
			return &tokentypes.Result{VMError: vm.ErrExecutionReverted.Error()}, nil
		}
		// the constructor arguments must decode: (beacon address, initialize(name, symbol, decimals, owner))
		data := msg.Data()
		if len(data) < len(contracts.TokenProxyContract.Bin) {
			return nil, fmt.Errorf("creation code too short")
		}
		args, err := contracts.TokenProxyContract.ABI.Constructor.Inputs.Unpack(data[len(contracts.TokenProxyContract.Bin):])
		if err != nil {
			return nil, err
		}
		init, ok := args[1].([]byte)
		if !ok || len(init) < 4 {
			return nil, fmt.Errorf("bad initializer")
		}
		if _, err := contracts.ERC20TokenContract.ABI.Methods[contracts.MethodInitialize].Inputs.Unpack(init[4:]); err != nil {
			return nil, err
		}
		addr := crypto.CreateAddress(msg.From(), msg.Nonce())
		if _, exists := e.contracts[addr]; exists {
			return &tokentypes.Result{VMError: "contract address collision"}, nil
		}
		// nonce bump of the creator
		acc := e.ak.GetAccount(ctx, sdk.AccAddress(msg.From().Bytes()))
		if acc == nil {
			return nil, fmt.Errorf("creator account missing")
		}
		if err := acc.SetSequence(acc.GetSequence() + 1); err != nil {
			return nil, err
		}
		e.ak.SetAccount(ctx, acc)
		e.contracts[addr] = map[common.Address]*big.Int{}
		e.order = append(e.order, addr)
		return &tokentypes.Result{Hash: addr.Hex()}, nil
	}
	if *msg.To() == e.beacon && e.beacon != (common.Address{}) {
		data := msg.Data()
		babi := contracts.BeaconContract.ABI
		if len(data) < 4 {
			return nil, fmt.Errorf("short call data")
		}
		method, err := babi.MethodById(data[:4])
		if err != nil {
			return nil, err
		}
		if method.Name != contracts.MethodUpgradeTo {
			return nil, fmt.Errorf("unknown beacon method %s", method.Name)
		}
		args, err := method.Inputs.Unpack(data[4:])
		if err != nil {
			return nil, err
		}
		if e.mode == 8 {
			return &tokentypes.Result{VMError: vm.ErrExecutionReverted.Error()}, nil
		}
		if commit {
			e.impl = args[0].(common.Address)
			e.upgrades++
		}
		return &tokentypes.Result{Hash: e.beacon.Hex()}, nil
	}
	ledger, ok := e.contracts[*msg.To()]
	if !ok {
		return nil, fmt.Errorf("erc20 contract not found")
	}
	data := msg.Data()
	if len(data) < 4 {
		return nil, fmt.Errorf("short call data")
	}
	abi := contracts.ERC20TokenContract.ABI
	method, err := abi.MethodById(data[:4])
	if err != nil {
		return nil, err
	}
	args, err := method.Inputs.Unpack(data[4:])
	if err != nil {
		return nil, err
	}
	get := func(h common.Address) *big.Int {
		if b, ok := ledger[h]; ok {
			return b
		}
		return big.NewInt(0)
	}
	res := &tokentypes.Result{Hash: msg.To().Hex()}
	switch method.Name {
	case "balanceOf":
		res.Ret, err = method.Outputs.Pack(new(big.Int).Set(get(args[0].(common.Address))))
		return res, err
	case "decimals":
		res.Ret, err = method.Outputs.Pack(uint8(0))
		return res, err
	case "mint":
		to, amt := args[0].(common.Address), args[1].(*big.Int)
		switch e.mode {
		case 1:
			return &tokentypes.Result{VMError: vm.ErrExecutionReverted.Error()}, nil
		case 2:
			return res, nil
		case 5:
			amt = new(big.Int).Add(amt, big.NewInt(1))
		}
		if commit {
			ledger[to] = new(big.Int).Add(get(to), amt)
		}
		return res, nil
	case "burn":
		from, amt := args[0].(common.Address), args[1].(*big.Int)
		switch e.mode {
		case 3:
			return &tokentypes.Result{VMError: vm.ErrExecutionReverted.Error()}, nil
		case 4:
			return res, nil
		case 6:
			amt = new(big.Int).Sub(amt, big.NewInt(1))
		}
		if get(from).Cmp(amt) < 0 {
			return &tokentypes.Result{VMError: vm.ErrExecutionReverted.Error()}, nil
		}
		if commit {
			ledger[from] = new(big.Int).Sub(get(from), amt)
		}
		return res, nil
	}
	return nil, fmt.Errorf("unknown method %s", method.Name)
}
