// htlc: driver for the HTLC module (properties C03, C04).
//
// A history is a parameter set (three assets: two active ones, usually both time-limited with
// different short periods, and an inactive one; two deputies) and a list of steps in the model's vocabulary:
// create (plain / cross-chain), claim, and runs of block boundaries with their time steps.
// Every block is really executed (heights are never skipped).
package main

import (
	"crypto/sha256"
	"encoding/binary"
	"encoding/hex"
	"fmt"
	"math/big"
	"sort"
	"strings"
	"time"

	sdkmath "cosmossdk.io/math"
	storetypes "cosmossdk.io/store/types"
	"github.com/cosmos/cosmos-sdk/codec"
	sdk "github.com/cosmos/cosmos-sdk/types"

	htlckeeper "mods.irisnet.org/modules/htlc/keeper"
	htlctypes "mods.irisnet.org/modules/htlc/types"
	"mods.irisnet.org/simapp"

	"verifharness/lib"
)

const (
	NA  = 5   // actors 0,1,2: users; 3,4: deputies
	ESC = 100 // htlc module account
	BLK = 101 // fee collector (blocked as a recipient)
	GOV = 102 // gov module account = the authority of MsgUpdateParams
	T0  = int64(1700000000)

	longRun = 256 // runs of more block boundaries than this carry one time step
)

// index order = lexicographic order of the names (the model relies on it)
var denoms = []string{"htltbnb", "htltinc", "htltoff", "stake", "uiris"}

type Coin struct {
	D int    // denom index
	A string // amount, decimal
}

type AssetP struct {
	Denom    int
	Limit    int64
	TL       bool
	Tbl      int64
	PeriodMs int64
	Active   bool
	Deputy   int
	Fee      int64
	Min, Max int64
	MinLock  int64
	MaxLock  int64
}

type Step struct {
	Kind string // "create", "claim", "adv"
	// create
	Tag      int    `json:",omitempty"` // stable name of the create step (claims refer to it)
	Sender   int    `json:",omitempty"`
	To       int    `json:",omitempty"`
	Amount   []Coin `json:",omitempty"`
	Secret   int    `json:",omitempty"` // create: secret inside the lock; claim: secret presented
	LockMode int    `json:",omitempty"` // 0: lock binds the contract's timestamp, 1: lock = H(secret), 2: lock binds timestamp+1
	TsOff    int64  `json:",omitempty"` // contract timestamp = unix(block time) + TsOff
	TsZero   bool   `json:",omitempty"` // contract timestamp = 0
	Lock     int64  `json:",omitempty"`
	Transfer bool   `json:",omitempty"`
	// claim
	Who int `json:",omitempty"`
	// adv
	DtsMs []int64 `json:",omitempty"`
	RunN  int64   `json:",omitempty"` // adv: RunN block boundaries with the time step RunDtMs each (long idle stretches)
	RunDtMs int64 `json:",omitempty"`
	// setparams: MsgUpdateParams signed by Who with the asset parameters NewParams (same denoms, same order)
	NewParams []AssetP `json:",omitempty"`
}

type History struct {
	Params []AssetP
	Steps  []Step
}

// ---------------------------------------------------------------------------- generator

type genC struct {
	tag    int
	st     Step
	idx    int
	exp    int64
	claims int
}

func genParams(r *lib.Rand) []AssetP {
	mk := func(d int, tl bool, dep int, active bool) AssetP {
		limit := r.Range(600, 3000)
		p := AssetP{Denom: d, Limit: limit, TL: tl, Active: active, Deputy: dep,
			Fee: r.Range(0, 8), Min: r.Range(1, 5), MinLock: r.Range(50, 60), MaxLock: r.Range(95, 120)}
		p.Max = r.Range(150, limit/2)
		p.PeriodMs = 3600 * 1000
		if tl {
			p.PeriodMs = r.Range(20, 90) * 1000
			p.Tbl = r.Range(limit/4, limit)
			switch r.Weighted(4, 3, 1) {
			case 1: // a time-based limit that binds long before the total limit
				p.Tbl = r.Range(limit/8, limit/3)
			case 2:
				p.Tbl = limit
			}
		}
		return p
	}
	dep2 := 4
	if r.Chance(1, 5) {
		dep2 = 3
	}
	// usually two active time-limited assets with different periods / limits (the per-block window update
	// loops over all assets: each asset's window must follow its own rule whatever its position), and
	// sometimes a third, inactive, time-limited one
	return []AssetP{mk(0, r.Chance(3, 4), 3, true), mk(1, true, dep2, true), mk(2, r.Chance(1, 2), 3, false)}
}

// gen draws a history while executing it against a live chain, so that amounts, parties and
// moments can be chosen relative to the real balances, supplies and contract states (most
// operations are then valid, and the boundaries are hit exactly).
func gen(r *lib.Rand, tier, stream string, i int) History {
	h := History{Params: genParams(r)}
	w := newWorld(h.Params)
	curP := append([]AssetP{}, h.Params...) // the asset parameters in force (changed by setparams steps)
	e := w.e
	nsteps := int(r.Range(24, 46))
	withParamChange := r.Chance(1, 3) // a third of the histories contain parameter changes (the property monitors stop at the first one)
	maxLock := int64(120)
	if tier == "thorough" {
		nsteps = int(r.Range(25, 80))
		if r.Chance(1, 16) {
			maxLock = 34560 // a few histories run to the maximal time lock
		}
	}
	push := func(st Step) result {
		h.Steps = append(h.Steps, st)
		return w.apply(st)
	}
	var cs []*genC // successfully created
	var failed []*genC
	tag := 0
	targetCreates := int(r.Range(3, 9))

	stateOf := func(c *genC) htlctypes.HTLCState {
		resp, err := w.k.HTLC(e.Ctx, &htlctypes.QueryHTLCRequest{Id: w.realID[c.idx]})
		if err != nil || resp.Htlc == nil {
			return htlctypes.Refunded
		}
		return resp.Htlc.State
	}
	openOnes := func() []*genC {
		var o []*genC
		for _, c := range cs {
			if stateOf(c) == htlctypes.Open {
				o = append(o, c)
			}
		}
		return o
	}
	supply := func(d int) (in, out, cur, tlc, el int64) {
		resp, err := w.k.AssetSupply(e.Ctx, &htlctypes.QueryAssetSupplyRequest{Denom: denoms[d]})
		if err != nil {
			return
		}
		s := resp.AssetSupply
		return s.IncomingSupply.Amount.Int64(), s.OutgoingSupply.Amount.Int64(), s.CurrentSupply.Amount.Int64(),
			s.TimeLimitedCurrentSupply.Amount.Int64(), int64(s.TimeElapsed / time.Millisecond)
	}
	balOf := func(a, d int) *big.Int { return e.Balance(w.addrBytes(a), denoms[d]).BigInt() }

	advance := func(n int64, dt int64, exact bool) {
		var dts []int64
		if n > longRun { // long idle stretches use one time step (printed as CAdvN: coqc cannot parse a 34 560-element list literal)
			if dt < 0 {
				dt = 0
			}
			push(Step{Kind: "adv", RunN: n, RunDtMs: dt})
			return
		}
		for k := int64(0); k < n; k++ {
			d := dt
			if !exact {
				d = dt + r.Range(0, 400)
			}
			if d < 0 {
				d = 0
			}
			dts = append(dts, d)
		}
		push(Step{Kind: "adv", DtsMs: dts})
	}
	dtPick := func() (int64, bool) {
		switch r.Weighted(6, 2, 1) {
		case 1: // land on / around the boundary of the limit period of one of the time-limited assets
			d := 1
			if curP[0].TL && r.Chance(1, 2) {
				d = 0
			}
			_, _, _, _, el := supply(d)
			return curP[d].PeriodMs - el + r.Range(-1, 1), true
		case 2:
			return r.Range(0, 2), true
		}
		return r.Range(800, 7000), false
	}
	pickLock := func(lo, hi int64) int64 {
		// often aim at the expiry height of an existing contract
		if len(cs) > 0 && r.Chance(1, 2) {
			c := cs[r.Intn(len(cs))]
			l := c.exp - e.Height
			if l >= lo && l <= hi {
				return l
			}
		}
		if r.Chance(1, 4) {
			return lo
		}
		return r.Range(lo, hi)
	}
	minI := func(xs ...int64) int64 {
		m := xs[0]
		for _, x := range xs {
			if x < m {
				m = x
			}
		}
		return m
	}
	forceD := -1 // >= 0: the next create is an incoming transfer on this asset, as large as its limits allow
	create := func() {
		tag++
		st := Step{Kind: "create", Tag: tag, Secret: tag, TsOff: r.Range(-850, 1750)}
		kind := r.Weighted(20, 14, 10, 1, 1) // plain, incoming, outgoing, unsupported asset, inactive asset
		if forceD >= 0 {
			kind = 1
		}
		// outgoing needs a user holding the asset
		var holders [][2]int
		for u := 0; u < 3; u++ {
			for d := 0; d < 2; d++ {
				p := curP[d]
				_, out, cur, _, _ := supply(d)
				if b := balOf(u, d); b.IsInt64() && b.Int64() >= p.Fee+p.Min && cur-out >= p.Fee+p.Min {
					holders = append(holders, [2]int{u, d})
				}
			}
		}
		if kind == 2 && len(holders) == 0 && r.Chance(5, 6) {
			kind = 1
		}
		switch kind {
		case 0:
			st.Sender = r.Intn(NA)
			st.To = r.Intn(NA)
			if r.Chance(1, 12) {
				st.To = st.Sender
			}
			nc := r.Weighted(5, 3, 1) + 1
			ds := []int{3, 4}
			if nc == 1 {
				ds = []int{3 + r.Intn(2)}
			} else if nc == 3 {
				ds = []int{r.Intn(2), 3, 4}
			}
			if r.Chance(1, 5) { // lock asset coins in an ordinary contract
				for u := 0; u < NA; u++ {
					for d := 0; d < 2; d++ {
						if balOf(u, d).Sign() > 0 && r.Chance(1, 2) {
							st.Sender = u
							ds = []int{d}
							if r.Chance(1, 2) {
								ds = []int{d, 4}
							}
						}
					}
				}
			}
			for _, d := range ds {
				b := balOf(st.Sender, d)
				var a *big.Int
				switch {
				case r.Chance(1, 14): // more than the sender has / exactly everything
					a = new(big.Int).Add(b, big.NewInt(r.Range(0, 1)))
				case d == 4 && r.Chance(1, 3):
					a = r.Big(99)
				default:
					a = big.NewInt(r.Range(1, 250))
				}
				if a.Sign() <= 0 {
					a = big.NewInt(1)
				}
				if d != 4 && a.Cmp(b) > 0 && b.Sign() > 0 && r.Chance(9, 10) {
					a = new(big.Int).Add(big.NewInt(1), r.BigRange(big.NewInt(0), new(big.Int).Sub(b, big.NewInt(1))))
				}
				st.Amount = append(st.Amount, Coin{d, a.String()})
			}
			st.Lock = pickLock(50, maxLock)
			if r.Chance(1, 8) {
				st.TsZero = true
			}
		case 1, 3, 4: // incoming
			d := r.Intn(2)
			p := curP[d]
			in, _, cur, tlc, _ := supply(d)
			room := p.Limit - cur - in
			if p.TL {
				room = minI(room, p.Tbl-tlc-in)
			}
			if forceD >= 0 {
				d = forceD
				p = curP[d]
				in, _, cur, tlc, _ = supply(d)
				room = p.Limit - cur - in
				if p.TL {
					room = minI(room, p.Tbl-tlc-in)
				}
			} else if room < p.Min && r.Chance(3, 4) { // the other asset may have room
				d = 1 - d
				p = curP[d]
				in, _, cur, tlc, _ = supply(d)
				room = p.Limit - cur - in
				if p.TL {
					room = minI(room, p.Tbl-tlc-in)
				}
			}
			hi := minI(p.Max, room)
			amt := p.Min
			if hi > p.Min {
				amt = r.Range(p.Min, hi)
			}
			switch r.Weighted(14, 1, 1, 2, 1, 1) {
			case 1:
				amt = p.Min
			case 2:
				amt = p.Max
			case 3:
				amt = room // exactly up to the limit
			case 4:
				amt = room + 1
			case 5:
				amt = []int64{p.Min - 1, p.Max + 1}[r.Intn(2)]
			}
			if forceD >= 0 && hi >= p.Min {
				amt = hi
				if r.Chance(1, 3) && hi > p.Min {
					amt = r.Range((hi+p.Min)/2, hi)
				}
			}
			if amt <= 0 {
				amt = 1
			}
			if kind == 4 {
				d, p = 2, curP[2]
			}
			st.Transfer = true
			st.Sender, st.To = p.Deputy, r.Intn(3)
			st.Lock = pickLock(50, maxLock)
			if r.Chance(1, 20) {
				st.To = p.Deputy // deputy cannot be both
			}
			dn := d
			if kind == 3 {
				dn = 3 // "stake" is not a supported asset
			}
			st.Amount = []Coin{{dn, fmt.Sprint(amt)}}
		case 2: // outgoing
			u, d := r.Intn(3), r.Intn(2)
			if len(holders) > 0 {
				x := holders[r.Intn(len(holders))]
				u, d = x[0], x[1]
			}
			p := curP[d]
			_, out, cur, _, _ := supply(d)
			b := balOf(u, d).Int64()
			hi := minI(b, p.Max, cur-out)
			amt := p.Fee + p.Min
			if hi > amt {
				amt = r.Range(amt, hi)
			}
			switch r.Weighted(12, 1, 1, 2, 1) {
			case 1:
				amt = p.Fee + p.Min
			case 2:
				amt = p.Fee + p.Min - 1
			case 3:
				amt = hi // everything the user has / everything available
			case 4:
				amt = hi + 1
			}
			if amt <= 0 {
				amt = 1
			}
			st.Transfer = true
			st.Sender, st.To = u, p.Deputy
			st.Lock = pickLock(p.MinLock, p.MaxLock)
			switch r.Weighted(16, 1, 1) {
			case 1:
				st.Lock = []int64{p.MinLock - 1, p.MaxLock + 1}[r.Intn(2)]
			case 2:
				st.Lock = []int64{p.MinLock, p.MaxLock}[r.Intn(2)]
			}
			if r.Chance(1, 20) {
				st.To = r.Intn(3) // the deputy must be the recipient
			}
			st.Amount = []Coin{{d, fmt.Sprint(amt)}}
		}
		if st.Transfer {
			switch r.Weighted(16, 1, 1, 1) {
			case 1:
				st.TsOff = -900 + r.Range(-1, 1)
			case 2:
				st.TsOff = 1800 + r.Range(-1, 1)
			case 3:
				st.TsZero = true
			}
		}
		switch r.Weighted(14, 1, 1) {
		case 1:
			st.LockMode = 1
		case 2:
			st.LockMode = 2
		}
		// malformed minority
		switch r.Weighted(60, 1, 1, 1, 1, 1, 1, 1, 2) {
		case 8: // the recipient is the htlc module account itself (an ordinary message; the coins would never leave escrow)
			st.To = ESC
		case 1:
			st.Lock = []int64{49, 34561, 0}[r.Intn(3)]
		case 2:
			st.To = BLK
		case 3:
			st.To = -1
		case 4:
			if len(st.Amount) > 1 {
				st.Amount[0], st.Amount[1] = st.Amount[1], st.Amount[0]
			} else {
				st.Amount = append(st.Amount, st.Amount[0])
			}
		case 5:
			st.Amount[0].A = "0"
		case 6:
			st.Amount = nil
		case 7:
			st.Sender = -1
		}
		res := push(st)
		c := &genC{tag: tag, st: st, idx: res.idx, exp: e.Height + st.Lock}
		if res.code == 0 {
			cs = append(cs, c)
		} else {
			failed = append(failed, c)
		}
	}
	duplicate := func() {
		if len(cs) == 0 {
			create()
			return
		}
		c := cs[r.Intn(len(cs))]
		st := c.st
		tag++
		st.Tag = tag // same message again under a new name: same id as long as the block time has not moved on
		if r.Chance(1, 3) {
			st.Lock = pickLock(50, maxLock)
		}
		res := push(st)
		if res.code == 0 {
			cs = append(cs, &genC{tag: tag, st: st, idx: res.idx, exp: e.Height + st.Lock})
		}
	}
	claim := func(c *genC, right bool) {
		st := Step{Kind: "claim", Tag: c.tag, Who: r.Intn(NA), Secret: c.st.Secret}
		if r.Chance(1, 2) && c.st.To >= 0 && c.st.To < NA {
			st.Who = c.st.To
		}
		if r.Chance(1, 40) {
			st.Who = -1
		}
		if !right {
			switch r.Weighted(3, 2, 1) {
			case 0:
				st.Secret = c.st.Secret + 1000
			case 1:
				st.Secret = 1 + r.Intn(tag+1)
			case 2:
				st.Secret = -1 // malformed
			}
		}
		c.claims++
		push(st)
	}
	// burst: incoming transfers on ONE time-limited asset, each as large as the limits allow, completed over
	// consecutive short blocks inside one limit period - the total is pushed against that asset's time-based
	// limit while the other assets' windows run with their own periods
	burst := func() {
		var tls []int
		for d := 0; d < 2; d++ {
			if curP[d].TL {
				tls = append(tls, d)
			}
		}
		if len(tls) == 0 {
			create()
			return
		}
		d := tls[r.Intn(len(tls))]
		if len(tls) == 2 && r.Chance(1, 2) {
			d = 1 // the asset that is not listed first
		}
		for k := int(r.Range(2, 4)); k > 0 && len(h.Steps) < nsteps; k-- {
			n := len(cs)
			forceD = d
			create()
			forceD = -1
			if len(cs) > n {
				claim(cs[len(cs)-1], true)
			}
			advance(r.Range(1, 2), r.Range(300, 2500), false)
		}
	}
	// setparams: the authority changes the asset parameters (values only: denoms and order stay).  Mostly
	// valid sets - limits raised or cut (also below the current usage), time-based limit, period, active
	// flag, deputy, fee, swap and lock bounds, time-limited flag -, sometimes an invalid set or a stranger.
	removed := make([]bool, len(curP)) // assets currently absent from the stored parameters (their supply records stay)
	setparams := func() {
		cand := append([]AssetP{}, curP...)
		rem := append([]bool{}, removed...)
		dup := -1
		who := GOV
		for n := int(r.Range(1, 3)); n > 0; n-- {
			d := r.Intn(len(cand))
			p := &cand[d]
			in, _, cr, tlc, _ := supply(d)
			if rem[d] && r.Chance(2, 3) { // re-activate a removed asset (its supply record is still there)
				rem[d] = false
				continue
			}
			switch r.Weighted(3, 2, 2, 2, 1, 1, 2, 2, 1, 1, 2) {
			case 10: // remove the asset from the parameters (open contracts on it stay)
				rem[d] = true
			case 0: // raise the limits
				p.Limit += r.Range(1, 800)
				if p.TL {
					p.Tbl = r.Range(p.Tbl, p.Limit)
				}
			case 1: // cut the limit: down to the usage, one below it, or far below
				lo := cr + in + r.Range(-1, 1)
				if r.Chance(1, 3) {
					lo = r.Range(1, p.Limit)
				}
				if lo < 1 {
					lo = 1
				}
				p.Limit = lo
				if p.Tbl > p.Limit {
					p.Tbl = p.Limit
				}
			case 2: // time-based limit around the usage of the window
				if p.TL {
					t := tlc + in + r.Range(-1, 60)
					if t < 0 {
						t = 0
					}
					if t > p.Limit {
						t = p.Limit
					}
					p.Tbl = t
				}
			case 3:
				p.PeriodMs = r.Range(15, 90) * 1000
			case 4:
				p.Active = !p.Active
			case 5:
				p.Deputy = 7 - p.Deputy // 3 <-> 4
			case 6:
				p.Fee = r.Range(0, 10)
				p.Min = r.Range(1, 6)
				p.Max = r.Range(p.Min, p.Min+600)
			case 7:
				p.MinLock = r.Range(50, 70)
				p.MaxLock = r.Range(p.MinLock, 130)
			case 8: // switch the time limit on / off
				p.TL = !p.TL
				if p.TL {
					p.Tbl = r.Range(p.Limit/6, p.Limit)
					p.PeriodMs = r.Range(20, 90) * 1000
				}
			case 9: // invalid sets
				switch r.Intn(5) {
				case 0:
					p.Tbl = p.Limit + 1
				case 1:
					p.Min = p.Max + 1
				case 2:
					p.MinLock = 49
				case 3:
					p.Fee = -1
				case 4:
					dup = d // duplicate denom
				}
			}
		}
		var np []AssetP
		for d := range cand {
			if !rem[d] {
				np = append(np, cand[d])
			}
		}
		if dup >= 0 {
			np = append(np, cand[dup])
		}
		if r.Chance(1, 10) {
			who = r.Intn(NA) // not the authority
		}
		res := push(Step{Kind: "setparams", Who: who, NewParams: np})
		if res.code == 0 {
			curP, removed = cand, rem
		}
	}
	anyC := func() *genC {
		if len(failed) > 0 && (len(cs) == 0 || r.Chance(1, 8)) {
			return failed[r.Intn(len(failed))]
		}
		return cs[r.Intn(len(cs))]
	}

	for len(h.Steps) < nsteps {
		open := openOnes()
		ne := int64(-1)
		for _, c := range open {
			if ne < 0 || c.exp < ne {
				ne = c.exp
			}
		}
		var at []*genC
		for _, c := range open {
			if c.exp == ne {
				at = append(at, c)
			}
		}
		switch {
		case len(cs) > 0 && r.Chance(1, 7):
			burst()
		case withParamChange && len(cs) > 0 && r.Chance(1, 9):
			setparams()
		case len(cs)+len(failed) == 0 || (len(cs) < targetCreates && r.Chance(2, 3)):
			create()
			if r.Chance(1, 3) {
				dt, ex := dtPick()
				advance(r.Range(1, 3), dt, ex)
			}
		case len(open) == 0: // everything closed: claims on closed contracts, new contracts, duplicates
			switch r.Weighted(2, 4, 2, 2) {
			case 0:
				claim(anyC(), true)
			case 1:
				create()
			case 2:
				duplicate()
			case 3:
				dt, ex := dtPick()
				advance(r.Range(1, 2), dt, ex)
			}
		case ne-e.Height > 3:
			switch r.Weighted(5, 5, 3, 1, 1, 2) {
			case 0: // jump close to the next expiry
				n := ne - e.Height - 1 - r.Range(0, 1)
				advance(n, r.Range(300, 2500), false)
			case 1: // claim something open (preferably incoming transfers, so that users get asset coins)
				c := open[r.Intn(len(open))]
				for _, o := range open {
					if o.st.Transfer && o.st.Sender >= 3 && r.Chance(1, 2) {
						c = o
					}
				}
				claim(c, r.Chance(7, 8))
			case 2:
				create()
			case 3:
				duplicate()
			case 4:
				claim(anyC(), r.Chance(1, 2))
			case 5:
				dt, ex := dtPick()
				advance(r.Range(1, 3), dt, ex)
			}
		default: // within 3 blocks of an expiry: single blocks and claims around it
			switch r.Weighted(5, 3, 1, 1) {
			case 0:
				dt, ex := dtPick()
				advance(1, dt, ex)
			case 1:
				claim(at[r.Intn(len(at))], true)
			case 2:
				claim(at[r.Intn(len(at))], false)
			case 3:
				claim(anyC(), true)
			}
		}
		// claims right at / after an expiry
		for _, c := range cs {
			if (c.exp == e.Height || c.exp+1 == e.Height) && c.claims < 3 && r.Chance(1, 5) {
				claim(c, true)
			}
		}
	}
	return h
}

// ---------------------------------------------------------------------------- execution

type pre struct { // pre-image of a contract id, in the model's vocabulary
	secret, lockTs int64
	sender, to     int
	amount         []Coin
}

func (p pre) key() string {
	return fmt.Sprintf("%d|%d|%d|%d|%v", p.secret, p.lockTs, p.sender, p.to, p.amount)
}

func secretBytes(n int) []byte {
	h := sha256.Sum256([]byte(fmt.Sprintf("verif-secret-%d", n)))
	return h[:]
}

// real hash lock of the model's pre-image (secret, ts)
func hashLock(secret int, ts int64) []byte {
	b := secretBytes(secret)
	if ts != 0 {
		b = append(b, sdk.Uint64ToBigEndian(uint64(ts))...)
	}
	h := sha256.Sum256(b)
	return h[:]
}

// hz prints an integer literal; large values in hexadecimal (coqc parses long decimal literals slowly).
func hz(x *big.Int) string {
	if x.Sign() < 0 {
		return "(-" + hz(new(big.Int).Neg(x)) + ")"
	}
	if x.BitLen() <= 20 {
		return x.String()
	}
	return "0x" + x.Text(16)
}
func hz64(x int64) string      { return hz(big.NewInt(x)) }
func hzi(x sdkmath.Int) string { return hz(x.BigInt()) }

func coqCoins(cs []Coin) string {
	var xs []string
	for _, c := range cs {
		a, _ := new(big.Int).SetString(c.A, 10)
		xs = append(xs, lib.Pair(lib.Z(int64(c.D)), hz(a)))
	}
	return lib.L(xs...)
}

func coqPre(p pre) string {
	return lib.Pair(lib.Pair(lib.Z(p.secret), hz64(p.lockTs)), lib.Z(int64(p.sender)), lib.Z(int64(p.to)), coqCoins(p.amount))
}

type world struct {
	e       *lib.Env
	k       htlckeeper.Keeper
	key     *storetypes.KVStoreKey
	params  []AssetP
	tbl     []pre
	tblIdx  map[string]int
	realID  map[int]string // table index -> real id (lower-case hex)
	idxOf   map[string]int // real id -> table index
	tagIdx  map[int]int    // create step tag -> table index
	created map[int]bool   // table index -> creation succeeded
	expOf   map[int]int64  // table index -> expiration height
	notes   []string
}

func newWorld(params []AssetP) *world {
	var k htlckeeper.Keeper
	w := &world{params: params, tblIdx: map[string]int{}, realID: map[int]string{}, idxOf: map[string]int{},
		tagIdx: map[int]int{}, created: map[int]bool{}, expOf: map[int]int64{}}
	start := time.Unix(T0, 0).UTC()
	big100 := new(big.Int).Lsh(big.NewInt(1), 101)
	bal := sdk.NewCoins(sdk.NewCoin("stake", sdkmath.NewInt(1000)), sdk.NewCoin("uiris", sdkmath.NewIntFromBigInt(big100)))
	w.e = lib.NewEnv(lib.EnvOpts{NActors: NA, Balances: bal, Consumers: []interface{}{&k}, StartTime: start,
		Merge: func(cdc codec.Codec, state simapp.GenesisState) simapp.GenesisState {
			gs := htlctypes.GenesisState{PreviousBlockTime: start, Htlcs: []htlctypes.HTLC{}}
			gs.Params.AssetParams = w.assetParams(params)
			for _, p := range params {
				d := denoms[p.Denom]
				z := sdk.NewCoin(d, sdkmath.ZeroInt())
				gs.Supplies = append(gs.Supplies, htlctypes.NewAssetSupply(z, z, z, z, 0))
			}
			state[htlctypes.ModuleName] = cdc.MustMarshalJSON(&gs)
			return state
		}})
	w.k = k
	w.key = w.e.App.GetKey(htlctypes.StoreKey)
	w.e.Blockers = []string{"htlc"}
	return w
}

// result of applying one step to the real chain
type result struct {
	term string // the cop term
	code int
	kind string // ok / rej / abort
	idx  int    // table index concerned (-1 for adv)
	desc string
	err  string
}

// why classifies a rejection by the module's error text (statistics only, never compared)
func why(err string) string {
	for _, k := range []string{"time-based", "supply limit", "available supply", "insufficient", "already exists", "not open",
		"invalid secret", "timestamp", "unknown HTLC", "module account", "time lock", "deputy", "amount", "asset"} {
		if strings.Contains(err, k) {
			return strings.ReplaceAll(k, " ", "-")
		}
	}
	return "other"
}

func (w *world) apply(st Step) result {
	e := w.e
	switch st.Kind {
	case "adv":
		var dts []string
		code := 0
		if st.RunN > 0 {
			for i := int64(0); i < st.RunN; i++ {
				o := e.BeginBlock(time.Duration(st.RunDtMs) * time.Millisecond)
				if !o.OK() {
					code = 2
					w.note("begin block aborted at height %d: %s", e.Height, o.Err)
				}
				w.checkRefundEvents(o)
			}
			return result{lib.App("CAdvN", lib.Z(st.RunN), hz64(st.RunDtMs*1000000)), code, "ok", -1,
				fmt.Sprintf("adv %d blocks of %d ms -> height %d", st.RunN, st.RunDtMs, e.Height), ""}
		}
		for _, d := range st.DtsMs {
			o := e.BeginBlock(time.Duration(d) * time.Millisecond)
			if !o.OK() {
				code = 2
				w.note("begin block aborted at height %d: %s", e.Height, o.Err)
			}
			w.checkRefundEvents(o)
			dts = append(dts, hz64(d*1000000))
		}
		term := lib.App("CAdv", lib.L(dts...))
		if len(st.DtsMs) > longRun {
			same := true
			for _, d := range st.DtsMs {
				same = same && d == st.DtsMs[0]
			}
			if same {
				term = lib.App("CAdvN", lib.Z(int64(len(st.DtsMs))), hz64(st.DtsMs[0]*1000000))
			}
		}
		return result{term, code, "ok", -1, fmt.Sprintf("adv %d blocks -> height %d", len(st.DtsMs), e.Height), ""}
	case "create":
		p, ts := w.createPre(st, e.Time)
		idx := w.intern(p)
		w.tagIdx[st.Tag] = idx
		msg := &htlctypes.MsgCreateHTLC{Sender: w.addr(st.Sender), To: w.addr(st.To), ReceiverOnOtherChain: "r", SenderOnOtherChain: "s",
			Amount: mkCoins(st.Amount), HashLock: hex.EncodeToString(hashLock(st.Secret, p.lockTs)), Timestamp: uint64(ts),
			TimeLock: uint64(st.Lock), Transfer: st.Transfer}
		o := e.Deliver(msg)
		if o.OK() {
			resp := o.Resp.(*htlctypes.MsgCreateHTLCResponse)
			if strings.ToLower(resp.Id) != w.realID[idx] {
				w.note("id %s is not sha256 of the model's pre-image (expected %s)", resp.Id, w.realID[idx])
			}
			w.created[idx] = true
			w.expOf[idx] = e.Height + st.Lock
		} else if o.Kind == "abort" {
			w.note("create aborted: %s", o.Err)
		}
		kind := "plain"
		if st.Transfer {
			kind = "htlt"
		}
		term := lib.App("CCreate", lib.Z(int64(idx)), lib.App("mkCreate", lib.Z(int64(st.Sender)), lib.Z(int64(st.To)), coqCoins(st.Amount),
			lib.Pair(lib.Z(p.secret), hz64(p.lockTs)), hz64(ts), lib.Z(st.Lock), lib.B(st.Transfer)))
		return result{term, o.Code(), o.Kind, idx, fmt.Sprintf("h%d create#%d %s %d->%d %v lock %d ts %d lockmode %d -> %s %s", e.Height, idx, kind, st.Sender, st.To, st.Amount, st.Lock, ts, st.LockMode, o.Kind, short(o.Err)), o.Err}
	case "setparams":
		msg := &htlctypes.MsgUpdateParams{Authority: w.addr(st.Who), Params: htlctypes.Params{AssetParams: w.assetParams(st.NewParams)}}
		o := e.Deliver(msg)
		if o.Kind == "abort" {
			w.note("update params aborted: %s", o.Err)
		}
		var ps []string
		for _, p := range st.NewParams {
			ps = append(ps, coqParam(p))
		}
		return result{lib.App("CSetParams", lib.Z(int64(st.Who)), lib.L(ps...)), o.Code(), o.Kind, -1,
			fmt.Sprintf("h%d setparams by %d %v -> %s %s", e.Height, st.Who, st.NewParams, o.Kind, short(o.Err)), o.Err}
	case "claim":
		idx, ok := w.tagIdx[st.Tag]
		if !ok {
			// the create step is not in the history (removed by shrinking): an id nobody created
			idx = w.intern(pre{secret: int64(900000 + st.Tag), sender: 0, to: 1, amount: []Coin{{3, "1"}}})
			w.tagIdx[st.Tag] = idx
		}
		sec := "00"
		if st.Secret >= 0 {
			sec = hex.EncodeToString(secretBytes(st.Secret))
		}
		o := e.Deliver(&htlctypes.MsgClaimHTLC{Sender: w.addr(st.Who), Id: w.realID[idx], Secret: sec})
		if o.Kind == "abort" {
			w.note("claim aborted: %s", o.Err)
		}
		return result{lib.App("CClaim", lib.Z(int64(st.Who)), lib.Z(int64(idx)), lib.Z(int64(st.Secret))), o.Code(), o.Kind, idx,
			fmt.Sprintf("h%d claim#%d by %d secret %d -> %s %s", e.Height, idx, st.Who, st.Secret, o.Kind, short(o.Err)), o.Err}
	}
	panic("unknown step kind " + st.Kind)
}

// checkRefundEvents: the refund events of a begin block name exactly the contracts that this
// block refunded (state Refunded, closed at this height), each once.
func (w *world) checkRefundEvents(o lib.Outcome) {
	got := map[int]int{}
	for _, ev := range o.Event {
		if ev.Type != htlctypes.EventTypeRefundHTLC {
			continue
		}
		for _, a := range ev.Attributes {
			if a.Key == htlctypes.AttributeKeyID {
				idx, ok := w.idxOf[strings.ToLower(a.Value)]
				if !ok {
					w.note("refund event for an id nobody created: %s", a.Value)
					continue
				}
				got[idx]++
			}
		}
	}
	want := map[int]bool{}
	for idx, exp := range w.expOf {
		if exp != w.e.Height && got[idx] == 0 {
			continue
		}
		resp, err := w.k.HTLC(w.e.Ctx, &htlctypes.QueryHTLCRequest{Id: w.realID[idx]})
		if err == nil && resp.Htlc != nil && resp.Htlc.State == htlctypes.Refunded && int64(resp.Htlc.ClosedBlock) == w.e.Height {
			want[idx] = true
		}
	}
	for idx, n := range got {
		if n != 1 || !want[idx] {
			w.note("height %d: %d refund event(s) for contract %d, refunded in this block: %v", w.e.Height, n, idx, want[idx])
		}
	}
	for idx := range want {
		if got[idx] == 0 {
			w.note("height %d: contract %d refunded without a refund event", w.e.Height, idx)
		}
	}
}

func (w *world) assetParams(params []AssetP) []htlctypes.AssetParam {
	var out []htlctypes.AssetParam
	for _, p := range params {
		dep := "not-an-address"
		if p.Deputy >= 0 && p.Deputy < NA {
			dep = lib.ActorAddr(p.Deputy).String()
		}
		out = append(out, htlctypes.AssetParam{
			Denom: denoms[p.Denom],
			SupplyLimit: htlctypes.SupplyLimit{Limit: sdkmath.NewInt(p.Limit), TimeLimited: p.TL,
				TimePeriod: time.Duration(p.PeriodMs) * time.Millisecond, TimeBasedLimit: sdkmath.NewInt(p.Tbl)},
			Active: p.Active, DeputyAddress: dep, FixedFee: sdkmath.NewInt(p.Fee),
			MinSwapAmount: sdkmath.NewInt(p.Min), MaxSwapAmount: sdkmath.NewInt(p.Max),
			MinBlockLock: uint64(p.MinLock), MaxBlockLock: uint64(p.MaxLock),
		})
	}
	return out
}

func (w *world) addr(i int) string {
	switch {
	case i >= 0 && i < NA:
		return w.e.Actors[i].String()
	case i == ESC:
		return lib.ModuleAddr(htlctypes.ModuleName).String()
	case i == BLK:
		return lib.ModuleAddr("fee_collector").String()
	case i == GOV:
		return lib.ModuleAddr("gov").String()
	}
	return "not-an-address"
}

func (w *world) addrBytes(i int) []byte {
	switch {
	case i >= 0 && i < NA:
		return w.e.Actors[i]
	case i == ESC:
		return lib.ModuleAddr(htlctypes.ModuleName)
	case i == BLK:
		return lib.ModuleAddr("fee_collector")
	}
	return nil
}

func mkCoins(cs []Coin) sdk.Coins {
	var out sdk.Coins
	for _, c := range cs {
		a, _ := new(big.Int).SetString(c.A, 10)
		out = append(out, sdk.Coin{Denom: denoms[c.D], Amount: sdkmath.NewIntFromBigInt(a)})
	}
	return out
}

// intern registers a pre-image and computes the id the code must derive from it:
// sha256(hashlock ++ sender ++ to ++ amount string)
func (w *world) intern(p pre) int {
	if i, ok := w.tblIdx[p.key()]; ok {
		return i
	}
	i := len(w.tbl)
	w.tbl = append(w.tbl, p)
	w.tblIdx[p.key()] = i
	b := append([]byte{}, hashLock(int(p.secret), p.lockTs)...)
	b = append(b, w.addrBytes(p.sender)...)
	b = append(b, w.addrBytes(p.to)...)
	var parts []string
	for _, c := range p.amount {
		parts = append(parts, c.A+denoms[c.D])
	}
	b = append(b, []byte(strings.Join(parts, ","))...)
	h := sha256.Sum256(b)
	id := hex.EncodeToString(h[:])
	w.realID[i] = id
	w.idxOf[id] = i
	return i
}

func (w *world) note(f string, a ...interface{}) {
	if len(w.notes) < 20 {
		w.notes = append(w.notes, fmt.Sprintf(f, a...))
	}
}

func accIndex(w *world, bech string) int {
	for _, i := range []int{0, 1, 2, 3, 4, ESC, BLK} {
		if w.addr(i) == bech {
			return i
		}
	}
	return -9
}

// observation: everything C03/C04 talk about, read through the query server, the store iterator
// of the expiry queue and the bank.  The contract list is positional over the id table as known at
// that moment (ids named later cannot exist yet) and is padded when printed.
type observation struct {
	code        int
	height      int64
	tm, prev    int64
	cons        []string
	queue       string
	rows        [][]string
	sups, bsups []string
	params      string // the stored asset parameters, through the Params query
}

func (w *world) observe(code int) observation {
	e, k := w.e, w.k
	var cons []string
	for i, p := range w.tbl {
		resp, err := k.HTLC(e.Ctx, &htlctypes.QueryHTLCRequest{Id: w.realID[i]})
		if err != nil || resp.Htlc == nil {
			cons = append(cons, "None")
			continue
		}
		c := resp.Htlc
		// static fields must be the pre-image of the id
		if strings.ToLower(c.Id) != w.realID[i] || accIndex(w, c.Sender) != p.sender || accIndex(w, c.To) != p.to ||
			!c.Amount.Equal(mkCoins(p.amount)) || strings.ToLower(c.HashLock) != hex.EncodeToString(hashLock(int(p.secret), p.lockTs)) {
			w.note("contract %d: stored fields differ from the id pre-image: %v", i, c)
		}
		tr := 0
		if c.Transfer {
			tr = 1
		}
		cons = append(cons, lib.App("Some", lib.Pair(lib.Z(int64(c.State)), lib.ZU(c.ClosedBlock), lib.ZU(c.ExpirationHeight),
			hz64(int64(c.Timestamp)), lib.Z(int64(tr)), lib.Z(int64(c.Direction)))))
	}
	// expiry queue: every key under prefix 0x02 = be64 height ++ id
	type qe struct {
		h   uint64
		idx int
	}
	var q []qe
	store := e.Ctx.KVStore(w.key)
	it := storetypes.KVStorePrefixIterator(store, htlctypes.HTLCExpiredQueueKey)
	for ; it.Valid(); it.Next() {
		key := it.Key()
		h := binary.BigEndian.Uint64(key[1:9])
		id := hex.EncodeToString(key[9:])
		idx, ok := w.idxOf[id]
		if !ok {
			idx = -1
			w.note("queue entry for an id nobody created: %s", id)
		}
		q = append(q, qe{h, idx})
	}
	it.Close()
	sort.Slice(q, func(a, b int) bool { return q[a].h < q[b].h || (q[a].h == q[b].h && q[a].idx < q[b].idx) })
	var qs []string
	for _, x := range q {
		qs = append(qs, lib.Pair(lib.ZU(x.h), lib.Z(int64(x.idx))))
	}
	// balances
	var rows [][]string
	for _, a := range []int{0, 1, 2, 3, 4, ESC, BLK} {
		var row []string
		for _, d := range denoms {
			row = append(row, hzi(e.Balance(w.addrBytes(a), d)))
		}
		rows = append(rows, row)
	}
	// asset supplies and bank supplies, in the order of the params
	var sups, bsups []string
	for _, p := range w.params {
		d := denoms[p.Denom]
		resp, err := k.AssetSupply(e.Ctx, &htlctypes.QueryAssetSupplyRequest{Denom: d})
		if err != nil || resp.AssetSupply == nil {
			sups = append(sups, "None")
		} else {
			s := resp.AssetSupply
			sups = append(sups, lib.App("Some", lib.Pair(hzi(s.IncomingSupply.Amount), hzi(s.OutgoingSupply.Amount),
				hzi(s.CurrentSupply.Amount), hzi(s.TimeLimitedCurrentSupply.Amount), hz64(int64(s.TimeElapsed)))))
		}
		bsups = append(bsups, hzi(e.Supply(d)))
	}
	prev := int64(-1)
	if t, ok := k.GetPreviousBlockTime(e.Ctx); ok {
		prev = t.UnixNano()
	}
	// the stored parameters, in the model's vocabulary
	var pstr []string
	if resp, err := k.Params(e.Ctx, &htlctypes.QueryParamsRequest{}); err == nil {
		for _, a := range resp.Params.AssetParams {
			di := -9
			for i, d := range denoms {
				if d == a.Denom {
					di = i
				}
			}
			dep := accIndex(w, a.DeputyAddress)
			if dep == -9 {
				dep = -1
			}
			pstr = append(pstr, lib.App("mkAP", lib.Z(int64(di)), hzi(a.SupplyLimit.Limit), lib.B(a.SupplyLimit.TimeLimited),
				hzi(a.SupplyLimit.TimeBasedLimit), hz64(int64(a.SupplyLimit.TimePeriod)), lib.B(a.Active), lib.Z(int64(dep)),
				hzi(a.FixedFee), hzi(a.MinSwapAmount), hzi(a.MaxSwapAmount), lib.ZU(a.MinBlockLock), lib.ZU(a.MaxBlockLock)))
		}
	} else {
		w.note("params query failed: %v", err)
	}
	return observation{code: code, height: e.Height, tm: e.Time.UnixNano(), prev: prev, cons: cons, queue: lib.L(qs...),
		rows: rows, sups: sups, bsups: bsups, params: lib.L(pstr...)}
}

func (o observation) padded(n int) []string {
	cons := append([]string{}, o.cons...)
	for len(cons) < n {
		cons = append(cons, "None")
	}
	return cons
}

// full prints the whole observation (genesis).
func (o observation) full(n int) string {
	var rows []string
	for _, r := range o.rows {
		rows = append(rows, lib.L(r...))
	}
	return lib.App("mkObs", lib.Z(int64(o.code)), lib.Z(o.height), hz64(o.tm), lib.L(o.padded(n)...), o.queue,
		lib.L(rows...), lib.L(o.sups...), lib.L(o.bsups...), hz64(o.prev), o.params)
}

// diff prints the entries of o that differ from the previous observation po.
func (o observation) diff(po observation, n int) string {
	var cons, bals, sups, bsups []string
	pc, oc := po.padded(n), o.padded(n)
	for i := range oc {
		if oc[i] != pc[i] {
			cons = append(cons, lib.Pair(lib.Z(int64(i)), oc[i]))
		}
	}
	queue := "None"
	if o.queue != po.queue {
		queue = lib.App("Some", o.queue)
	}
	for r := range o.rows {
		for c := range o.rows[r] {
			if o.rows[r][c] != po.rows[r][c] {
				bals = append(bals, lib.Pair(lib.Z(int64(r)), lib.Z(int64(c)), o.rows[r][c]))
			}
		}
	}
	for i := range o.sups {
		if o.sups[i] != po.sups[i] {
			sups = append(sups, lib.Pair(lib.Z(int64(i)), o.sups[i]))
		}
		if o.bsups[i] != po.bsups[i] {
			bsups = append(bsups, lib.Pair(lib.Z(int64(i)), o.bsups[i]))
		}
	}
	params := "None"
	if o.params != po.params {
		params = lib.App("Some", o.params)
	}
	return lib.App("mkD", lib.Z(int64(o.code)), lib.Z(o.height), hz64(o.tm), hz64(o.prev), lib.L(cons...), queue,
		lib.L(bals...), lib.L(sups...), lib.L(bsups...), params)
}

func coqParam(p AssetP) string {
	return lib.App("mkAP", lib.Z(int64(p.Denom)), lib.Z(p.Limit), lib.B(p.TL), lib.Z(p.Tbl), hz64(p.PeriodMs*1000000),
		lib.B(p.Active), lib.Z(int64(p.Deputy)), lib.Z(p.Fee), lib.Z(p.Min), lib.Z(p.Max), lib.Z(p.MinLock), lib.Z(p.MaxLock))
}

func exec(h History) lib.Case {
	w := newWorld(h.Params)
	e := w.e
	c := lib.Case{Stats: map[string]int{}}
	type pend struct {
		term string
		obs  observation
	}
	var stepTerms []pend
	closedIn := map[int]bool{}
	nearExpiry := false
	obs0 := w.observe(0)
	for _, st := range h.Steps {
		r := w.apply(st)
		switch st.Kind {
		case "adv":
			lib.Stat(c.Stats, "op:adv")
			if r.code == 0 {
				lib.Stat(c.Stats, "res:ok")
			} else {
				lib.Stat(c.Stats, "res:abort")
			}
			c.Stats["blocks"] += len(st.DtsMs) + int(st.RunN)
		case "setparams":
			lib.Stat(c.Stats, "op:setparams")
			lib.Stat(c.Stats, "res:"+r.kind)
			if r.code == 0 {
				lib.Stat(c.Stats, "ok:setparams")
			}
		case "create":
			kind := "plain"
			if st.Transfer {
				kind = "htlt"
			}
			lib.Stat(c.Stats, "op:create-"+kind)
			lib.Stat(c.Stats, "res:"+r.kind)
			if r.code == 0 {
				lib.Stat(c.Stats, "ok:create-"+kind)
			} else {
				lib.Stat(c.Stats, "rej-create:"+why(r.err))
			}
		case "claim":
			lib.Stat(c.Stats, "op:claim")
			lib.Stat(c.Stats, "res:"+r.kind)
			if r.code == 0 {
				closedIn[r.idx] = true
				lib.Stat(c.Stats, "ok:claim")
			} else {
				lib.Stat(c.Stats, "rej-claim:"+why(r.err))
			}
			if x, ok := w.expOf[r.idx]; ok && e.Height >= x-1 && e.Height <= x+1 {
				nearExpiry = true
				lib.Stat(c.Stats, fmt.Sprintf("claim-at-exp%+d:%s", e.Height-x, r.kind))
			}
		}
		c.Steps = append(c.Steps, r.desc)
		stepTerms = append(stepTerms, pend{r.term, w.observe(r.code)})
	}
	// which contracts were refunded inside the history
	nRefund := 0
	for idx := range w.created {
		resp, err := w.k.HTLC(e.Ctx, &htlctypes.QueryHTLCRequest{Id: w.realID[idx]})
		if err == nil && resp.Htlc != nil && resp.Htlc.State == htlctypes.Refunded {
			closedIn[idx] = true
			nRefund++
		}
	}
	c.Stats["st:refunded"] += nRefund
	c.Stats["st:created"] += len(w.created)
	c.Stats["st:closed"] += len(closedIn)

	var ps, ids, steps []string
	for _, p := range h.Params {
		ps = append(ps, coqParam(p))
	}
	for _, p := range w.tbl {
		ids = append(ids, coqPre(p))
	}
	n := len(w.tbl)
	po := obs0
	for _, s := range stepTerms {
		steps = append(steps, lib.Pair(s.term, s.obs.diff(po, n)))
		po = s.obs
	}
	c.Coq = lib.App("mkCase", lib.L(ps...), lib.Z(NA), lib.L(ids...), obs0.full(n), lib.L(steps...))
	c.NonTrivial = len(closedIn) > 0 || nearExpiry
	c.Notes = w.notes
	return c
}

func short(s string) string {
	if len(s) > 70 {
		return s[:70]
	}
	return s
}

// createPre resolves the pre-image of the id of a create step at block time t, and the contract timestamp.
func (w *world) createPre(st Step, t time.Time) (pre, int64) {
	ts := t.Unix() + st.TsOff
	if st.TsZero {
		ts = 0
	}
	lockTs := ts
	switch st.LockMode {
	case 1:
		lockTs = 0
	case 2:
		lockTs = ts + 1
	}
	return pre{secret: int64(st.Secret), lockTs: lockTs, sender: st.Sender, to: st.To, amount: st.Amount}, ts
}

func main() {
	lib.Main(lib.Driver[History]{Gen: gen, Exec: exec})
}
