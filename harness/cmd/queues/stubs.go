package main

import "verifharness/lib"

func genFarm(r *lib.Rand, tier string) History    { panic("todo") }
func genService(r *lib.Rand, tier string) History { panic("todo") }
func execFarm(h History) lib.Case                 { panic("todo") }
func execService(h History) lib.Case              { panic("todo") }
