package main

import "verifharness/lib"

func genRandom(r *lib.Rand, tier string) History  { panic("todo") }
func genFarm(r *lib.Rand, tier string) History    { panic("todo") }
func genService(r *lib.Rand, tier string) History { panic("todo") }
func execRandom(h History) lib.Case               { panic("todo") }
func execFarm(h History) lib.Case                 { panic("todo") }
func execService(h History) lib.Case              { panic("todo") }
