package main

import "verifharness/lib"

func genService(r *lib.Rand, tier string) History { panic("todo") }
func execService(h History) lib.Case              { panic("todo") }
