// queues: driver of property C13 (begin/end block never halts; every due item handled exactly
// once; queue hygiene) for the four scheduling modules htlc, random, farm, service.
// One stream per module; the history vocabulary is the vocabulary of coq/Queues/<Module>.v.
package main

import (
	"encoding/binary"
	"fmt"
	"sort"
	"time"

	"cosmossdk.io/core/appmodule"
	storetypes "cosmossdk.io/store/types"
	sdk "github.com/cosmos/cosmos-sdk/types"

	"verifharness/lib"
)

// Step is one operation of a history (the union of the four modules' vocabularies).
type Step struct {
	Op string `json:"op"`
	// generic small integer arguments (meaning depends on Op, see the module files)
	A int   `json:"a,omitempty"`
	B int   `json:"b,omitempty"`
	C int   `json:"c,omitempty"`
	D int   `json:"d,omitempty"`
	E int   `json:"e,omitempty"`
	F bool  `json:"f,omitempty"`
	G bool  `json:"g,omitempty"`
	N int64 `json:"n,omitempty"`
	M int64 `json:"m,omitempty"`
	L []int `json:"l,omitempty"`
	// seconds the block time advances (block steps); 0 means 5
	Dt int64 `json:"dt,omitempty"`
}

type History struct {
	Kind  string // "htlc" | "random" | "farm" | "service" | "abci"
	Steps []Step
}

func gen(r *lib.Rand, tier, stream string, i int) History {
	switch stream {
	case "htlc":
		return genHtlc(r, tier)
	case "random":
		return genRandom(r, tier)
	case "farm":
		return genFarm(r, tier)
	case "service":
		return genService(r, tier)
	case "abci":
		return genAbci(r, tier)
	}
	panic("unknown stream " + stream)
}

func exec(h History) lib.Case {
	switch h.Kind {
	case "htlc":
		return execHtlc(h)
	case "random":
		return execRandom(h)
	case "farm":
		return execFarm(h)
	case "service":
		return execService(h)
	case "abci":
		return execAbci(h)
	}
	panic("unknown history kind " + h.Kind)
}

func main() {
	lib.Main(lib.Driver[History]{Gen: gen, Exec: exec})
}

// ---- blockers, one module at a time, each under its own recover() ----

// runBlocker runs the begin (or end) blocker of one module on the block context and reports
// 0 (completed), 2 (panicked or returned an error: the chain would halt).
func runBlocker(e *lib.Env, name string, begin bool) (code int, events sdk.Events, msg string) {
	defer func() {
		if r := recover(); r != nil {
			code, msg = 2, fmt.Sprint(r)
		}
	}()
	ctx := e.Ctx.WithEventManager(sdk.NewEventManager())
	m := e.App.ModuleManager.Modules[name]
	if begin {
		if b, ok := m.(appmodule.HasBeginBlocker); ok {
			if err := b.BeginBlock(ctx); err != nil {
				return 2, nil, err.Error()
			}
		}
	} else {
		if b, ok := m.(appmodule.HasEndBlocker); ok {
			if err := b.EndBlock(ctx); err != nil {
				return 2, nil, err.Error()
			}
		}
	}
	return 0, ctx.EventManager().Events(), ""
}

// openBlock moves the environment to the next height with the block time advanced by dt
// seconds, without running any blocker.
func openBlock(e *lib.Env, dt int64) {
	if dt == 0 {
		dt = 5
	}
	e.Blockers = nil
	e.BeginBlock(time.Duration(dt) * time.Second)
}

// ---- raw queue reading: the keys of one store prefix, split into (big-endian height, rest) ----

type rawEntry struct {
	Height int64
	ID     string // remaining key bytes
	Value  []byte
}

func readQueue(e *lib.Env, storeKey string, prefix []byte) []rawEntry {
	store := e.Ctx.KVStore(e.App.GetKey(storeKey))
	it := storetypes.KVStorePrefixIterator(store, prefix)
	defer it.Close()
	var out []rawEntry
	for ; it.Valid(); it.Next() {
		k := it.Key()[len(prefix):]
		if len(k) < 8 {
			out = append(out, rawEntry{Height: -1, ID: string(k)})
			continue
		}
		v := append([]byte(nil), it.Value()...)
		out = append(out, rawEntry{Height: int64(binary.BigEndian.Uint64(k[:8])), ID: string(k[8:]), Value: v})
	}
	return out
}

// readKeys returns the key suffixes and values under a prefix.
func readKeys(e *lib.Env, storeKey string, prefix []byte) (keys []string, vals [][]byte) {
	store := e.Ctx.KVStore(e.App.GetKey(storeKey))
	it := storetypes.KVStorePrefixIterator(store, prefix)
	defer it.Close()
	for ; it.Valid(); it.Next() {
		keys = append(keys, string(it.Key()[len(prefix):]))
		vals = append(vals, append([]byte(nil), it.Value()...))
	}
	return
}

func zz(h int64, id int) string { return lib.Pair(lib.Z(h), lib.Z(int64(id))) }

func sortedStrings(m map[string]bool) []string {
	var out []string
	for k := range m {
		out = append(out, k)
	}
	sort.Strings(out)
	return out
}

func ints(xs []int) string {
	var s []string
	for _, x := range xs {
		s = append(s, lib.Z(int64(x)))
	}
	return lib.L(s...)
}
