package main

import (
	"crypto/sha256"
	"encoding/binary"
	"encoding/hex"
	"fmt"
	"math"
	"strings"

	sdkmath "cosmossdk.io/math"
	"github.com/cosmos/cosmos-sdk/codec"
	sdk "github.com/cosmos/cosmos-sdk/types"

	randomkeeper "mods.irisnet.org/modules/random/keeper"
	randomtypes "mods.irisnet.org/modules/random/types"
	servicekeeper "mods.irisnet.org/modules/service/keeper"
	servicetypes "mods.irisnet.org/modules/service/types"
	"mods.irisnet.org/simapp"

	"verifharness/lib"
)

// random vocabulary
//   req  : A consumer, N block interval (G: the interval is 2^64 - N), F oracle
//   block: Dt seconds; runs the service end-blocker of the current block (oracle requests may
//          be dropped by the callbacks), opens the next block, runs the service and random
//          begin-blockers

func genRandom(r *lib.Rand, tier string) History {
	h := History{Kind: "random"}
	nblocks := 14 + r.Intn(10)
	if tier == "thorough" {
		nblocks = 14 + r.Intn(40)
	}
	for b := 0; b < nblocks; b++ {
		nops := r.Intn(4)
		for j := 0; j < nops; j++ {
			st := Step{Op: "req", A: r.Intn(2), N: int64(r.Intn(5))}
			switch r.Weighted(12, 5, 1, 1, 1) {
			case 1:
				st.F = true
			case 2: // wraps to a height before the current one
				st.G, st.N = true, 1+int64(r.Intn(6))
			case 3: // 2^63 - small: the sum wraps
				st.G, st.N = true, math.MaxInt64-int64(r.Intn(3))
			case 4:
				st.N = int64(r.Intn(1 << 30))
			}
			h.Steps = append(h.Steps, st)
		}
		dt := int64(1 + r.Intn(20))
		if r.Chance(1, 10) {
			dt = int64(1 + r.Intn(100000))
		}
		h.Steps = append(h.Steps, Step{Op: "block", Dt: dt})
	}
	return h
}

func serviceMerge(maxTimeout int64) func(cdc codec.Codec, state simapp.GenesisState) simapp.GenesisState {
	return func(cdc codec.Codec, state simapp.GenesisState) simapp.GenesisState {
		var gs servicetypes.GenesisState
		cdc.MustUnmarshalJSON(state[servicetypes.ModuleName], &gs)
		gs.Definitions = append(gs.Definitions, servicetypes.GenOraclePriceSvcDefinition(), servicetypes.GetRandomSvcDefinition())
		gs.Params.MaxRequestTimeout = maxTimeout
		state[servicetypes.ModuleName] = cdc.MustMarshalJSON(&gs)
		return state
	}
}

func execRandom(h History) lib.Case {
	var k randomkeeper.Keeper
	var sk servicekeeper.Keeper
	bal := sdk.NewCoins(sdk.NewCoin("stake", sdkmath.NewInt(1000000000000)))
	e := lib.NewEnv(lib.EnvOpts{NActors: 3, Balances: bal, Consumers: []interface{}{&k, &sk}, Merge: serviceMerge(4)})
	c := lib.Case{Stats: map[string]int{}}
	// one provider of the "random" service
	prov := e.Actors[2].String()
	if out := e.Deliver(servicetypes.NewMsgBindService(randomtypes.ServiceName, prov,
		sdk.NewCoins(sdk.NewCoin("stake", sdkmath.NewInt(100000000))), `{"price":"2stake"}`, 3, "{}", prov)); !out.OK() {
		c.Notes = append(c.Notes, "setup: bind random service: "+out.Err)
	}

	ctxIDs := lib.NewInterner()
	ctxIDs.Id("") // 0 = none
	preimg := map[string][2]int64{}
	unknown := lib.NewInterner()
	ridTerm := func(id string) string {
		if p, ok := preimg[id]; ok {
			return lib.Pair(lib.Z(p[0]), lib.Z(p[1]))
		}
		return lib.Pair("(-1)", lib.Z(int64(unknown.Id(id))))
	}
	type qent struct {
		dest   int64
		id     string
		oracle bool
		ctx    int
		ctxHex string
	}
	readQ := func() []qent {
		var out []qent
		for _, en := range readQueue(e, randomtypes.StoreKey, randomtypes.RandomRequestQueueKey) {
			var req randomtypes.Request
			e.App.AppCodec().MustUnmarshal(en.Value, &req)
			ci := 0
			if req.Oracle {
				ci = ctxIDs.Id(strings.ToUpper(req.ServiceContextID))
			}
			out = append(out, qent{dest: en.Height, id: en.ID, oracle: req.Oracle, ctx: ci, ctxHex: req.ServiceContextID})
		}
		return out
	}
	readOreqs := func() []int {
		keys, _ := readKeys(e, randomtypes.StoreKey, randomtypes.OracleRandomRequestKey)
		var out []int
		for _, kk := range keys {
			out = append(out, ctxIDs.Id(strings.ToUpper(hex.EncodeToString([]byte(kk)))))
		}
		return out
	}
	observe := func(code int, handed []string) string {
		var q []string
		for _, en := range readQ() {
			q = append(q, lib.Pair(lib.Pair(lib.Z(en.dest), ridTerm(en.id)), lib.Pair(lib.B(en.oracle), lib.Z(int64(en.ctx)))))
		}
		var rs []string
		keys, vals := readKeys(e, randomtypes.StoreKey, randomtypes.RandomKey)
		for i, kk := range keys {
			var rnd randomtypes.Random
			e.App.AppCodec().MustUnmarshal(vals[i], &rnd)
			rs = append(rs, lib.Pair(ridTerm(kk), lib.Z(rnd.Height)))
		}
		return lib.App("mkRObs", lib.Z(int64(code)), lib.Z(e.Height), lib.L(q...), lib.L(rs...), ints(readOreqs()), lib.L(handed...))
	}

	var terms []string
	nontrivial := false
	for _, st := range h.Steps {
		switch st.Op {
		case "req":
			interval := uint64(st.N)
			if st.G {
				interval = uint64(0) - uint64(st.N)
			}
			consumer := e.Actors[st.A]
			pre := append(sdk.Uint64ToBigEndian(uint64(e.Height)), []byte(consumer.String())...)
			sum := sha256.Sum256(pre)
			preimg[string(sum[:])] = [2]int64{e.Height, int64(st.A)}
			before := map[string]bool{}
			for _, en := range readQ() {
				before[fmt.Sprintf("%d|%s", en.dest, en.id)] = true
			}
			out := e.Deliver(randomtypes.NewMsgRequestRandom(consumer.String(), interval, st.F, sdk.NewCoins(sdk.NewCoin("stake", sdkmath.NewInt(10)))))
			ctx := 0
			if out.OK() {
				// the entry written by this request: key with this id (newest context id if oracle)
				for _, en := range readQ() {
					if en.id == string(sum[:]) && en.oracle == st.F && st.F {
						if ci := en.ctx; ci > ctx {
							ctx = ci
						}
					}
				}
			}
			dest := e.Height + int64(interval) // Go wrapping arithmetic, as the keeper computes it
			modelRejects := dest < e.Height
			restOK := out.OK() || modelRejects
			ivTerm := fmt.Sprintf("%d", interval)
			terms = append(terms, lib.Pair(lib.App("Request", lib.Z(int64(st.A)), ivTerm, lib.B(st.F), lib.Z(int64(ctx)), lib.B(restOK)), observe(out.Code(), nil)))
			lib.Stat(c.Stats, "op:request")
			lib.Stat(c.Stats, "res:"+out.Kind)
			c.Steps = append(c.Steps, fmt.Sprintf("request consumer=%d interval=%d oracle=%v at %d -> %s %s", st.A, interval, st.F, e.Height, out.Kind, out.Err))
		case "block":
			// end of the current block: the service end-blocker (starts / expires oracle batches)
			o0 := readOreqs()
			code, _, msg := runBlocker(e, "service", false)
			if code != 0 {
				c.Notes = append(c.Notes, "service end-blocker aborted in the random stream: "+msg)
			}
			o1 := map[int]bool{}
			for _, x := range readOreqs() {
				o1[x] = true
			}
			var dropped []int
			for _, x := range o0 {
				if !o1[x] {
					dropped = append(dropped, x)
				}
			}
			terms = append(terms, lib.Pair(lib.App("Dropped", ints(dropped)), observe(0, nil)))
			// next block
			prev := readQ()
			openBlock(e, st.Dt)
			runBlocker(e, "service", true)
			code, _, msg = runBlocker(e, "random", true)
			var fails []int
			var handed []string
			ndue := 0
			o2 := map[int]bool{}
			for _, x := range readOreqs() {
				o2[x] = true
			}
			for _, en := range prev {
				if en.dest != e.Height-1 {
					continue
				}
				ndue++
				if en.oracle {
					if !o2[en.ctx] {
						fails = append(fails, en.ctx)
					}
					id, _ := hex.DecodeString(en.ctxHex)
					rc, found := sk.GetRequestContext(e.Ctx, id)
					ok := found && rc.State == servicetypes.RUNNING && sk.HasNewRequestBatch(e.Ctx, id)
					if ok {
						ok = false
						for _, ne := range readQueue(e, servicetypes.StoreKey, servicetypes.NewRequestBatchKey) {
							if ne.Height == e.Height && ne.ID == string(id) {
								ok = true
							}
						}
					}
					handed = append(handed, lib.Pair(lib.Z(int64(en.ctx)), lib.B(ok)))
				}
			}
			if ndue >= 2 {
				nontrivial = true
			}
			terms = append(terms, lib.Pair(lib.App("BeginBlock", lib.Z(e.Time.Unix()), ints(fails)), observe(code, handed)))
			lib.Stat(c.Stats, "op:block")
			if code != 0 {
				lib.Stat(c.Stats, "blocker:abort")
				c.Steps = append(c.Steps, fmt.Sprintf("begin-block %d ABORT %s", e.Height, msg))
			} else {
				c.Steps = append(c.Steps, fmt.Sprintf("begin-block %d (t=%d): %d due, %d start errors, %d dropped before", e.Height, e.Time.Unix(), ndue, len(fails), len(dropped)))
			}
		default:
			panic("random: unknown op " + st.Op)
		}
	}
	_ = binary.BigEndian
	c.Coq = lib.Pair("1", lib.L(terms...))
	c.NonTrivial = nontrivial
	return c
}
