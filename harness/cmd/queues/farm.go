package main

import (
	"fmt"
	"strconv"
	"strings"

	sdkmath "cosmossdk.io/math"
	sdk "github.com/cosmos/cosmos-sdk/types"

	coinswaptypes "mods.irisnet.org/modules/coinswap/types"
	farmkeeper "mods.irisnet.org/modules/farm/keeper"
	farmtypes "mods.irisnet.org/modules/farm/types"

	"verifharness/lib"
)

// farm vocabulary
//   create : A creator, N start height offset (start = current + N), M span, B reward per block,
//            C remainder added to the total, D number of reward denoms (1|2), E extra span of the
//            second denom, F editable
//   adjust : A sender, B pool (index in creation order, -1: unknown), N additional reward of
//            the first denom (0: none), M new reward per block of the first denom (0: none),
//            C additional reward of the second denom (0: none)
//   destroy: A sender, B pool
//   stake  : A sender, B pool, N amount of lpt-1
//   block  : Dt seconds — the farm end-blocker of the current block, then the next block

func genFarm(r *lib.Rand, tier string) History {
	h := History{Kind: "farm"}
	nblocks := 26 + r.Intn(8)
	if tier == "thorough" {
		nblocks = 26 + r.Intn(40)
	}
	type gp struct {
		creator    int
		start, end int64 // as predicted from the creation alone
		dead       bool
		editable   bool
	}
	var ps []gp
	for b := 0; b < nblocks; b++ {
		height := int64(b + 1)
		// a live pool (probably), preferring those about to end
		pick := func() int {
			var live []int
			for idx, p := range ps {
				if !p.dead && p.end >= height {
					live = append(live, idx)
				}
			}
			if len(live) == 0 || r.Chance(1, 10) {
				return r.Intn(len(ps))
			}
			return live[r.Intn(len(live))]
		}
		// operations aimed at pools in their last block or the one before
		for idx, p := range ps {
			if !p.dead && (height == p.end || height == p.end-1) && r.Chance(2, 5) {
				switch r.Weighted(2, 4, 3) {
				case 0:
					h.Steps = append(h.Steps, Step{Op: "destroy", A: p.creator, B: idx})
					ps[idx].dead = ps[idx].editable
				case 1:
					h.Steps = append(h.Steps, Step{Op: "adjust", A: p.creator, B: idx, N: int64(10 * (1 + r.Intn(40)))})
				case 2:
					h.Steps = append(h.Steps, Step{Op: "stake", A: r.Intn(3), B: idx, N: int64(1 + r.Intn(1000))})
				}
			}
		}
		nops := 0
		if b < 10 {
			nops = 1 + r.Intn(3)
		} else if r.Chance(1, 2) {
			nops = 1 + r.Intn(2)
		}
		for j := 0; j < nops; j++ {
			if len(ps) > 0 && r.Chance(3, 5) {
				idx := pick()
				st := Step{A: ps[idx].creator, B: idx}
				if r.Chance(1, 12) {
					st.A = r.Intn(3)
				}
				if r.Chance(1, 20) {
					st.B = -1
				}
				switch r.Weighted(5, 1, 5) {
				case 0:
					st.Op = "adjust"
					switch r.Weighted(4, 3, 2, 1, 1) {
					case 0:
						st.N = int64(10 * (1 + r.Intn(60)))
					case 1:
						st.M = int64(1 + r.Intn(40))
					case 2:
						st.N, st.M = int64(1+r.Intn(500)), int64(1+r.Intn(40))
					case 3:
						st.C = 1 + r.Intn(300)
					case 4:
						st.M = 1000000000 // the pool ends at once
					}
				case 1:
					st.Op = "destroy"
					if st.B >= 0 && st.A == ps[idx].creator {
						ps[idx].dead = ps[idx].editable
					}
				case 2:
					st.Op, st.A, st.N = "stake", r.Intn(3), int64(1+r.Intn(1000))
					if ps[idx].start > height && r.Chance(4, 5) {
						continue
					}
				}
				h.Steps = append(h.Steps, st)
				continue
			}
			st := Step{Op: "create", A: r.Intn(3), N: int64(r.Intn(3)), M: int64(2 + r.Intn(9)), B: 1 + r.Intn(50), D: 1, F: r.Chance(4, 5)}
			st.C = r.Intn(st.B)
			switch r.Weighted(12, 5, 1, 1, 1) {
			case 1:
				st.D, st.E = 2, r.Intn(3)
			case 2:
				st.N = -1 // start height in the past
			case 3:
				st.M = 0 // total below the reward per block
			case 4:
				st.M = 1 + int64(r.Intn(3000))
			}
			h.Steps = append(h.Steps, st)
			if st.N >= 0 && st.M >= 1 {
				ps = append(ps, gp{creator: st.A, start: height + st.N, end: height + st.N + st.M, editable: st.F})
			}
		}
		dt := int64(1 + r.Intn(20))
		h.Steps = append(h.Steps, Step{Op: "block", Dt: dt})
	}
	return h
}

func farmNum(id string) int64 {
	n, err := strconv.ParseInt(strings.TrimPrefix(id, farmtypes.PrefixFarmPool+"-"), 10, 64)
	if err != nil {
		return -1
	}
	return n
}

func outcomeTerm(code int) string {
	switch code {
	case 0:
		return "Ok"
	case 1:
		return "Rej"
	}
	return "Abort"
}

func execFarm(h History) lib.Case {
	var k farmkeeper.Keeper
	bal := sdk.NewCoins(sdk.NewCoin("stake", sdkmath.NewInt(1000000000000)), sdk.NewCoin("other", sdkmath.NewInt(1000000000000)))
	e := lib.NewEnv(lib.EnvOpts{NActors: 3, Balances: bal, Consumers: []interface{}{&k}})
	c := lib.Case{Stats: map[string]int{}}
	// a coinswap pool so that lpt-1 exists, every actor holding some
	for i := 0; i < 3; i++ {
		out := e.Deliver(coinswaptypes.NewMsgAddLiquidity(sdk.NewCoin("other", sdkmath.NewInt(int64(10000000+i*1000000))), sdkmath.NewInt(10000000),
			sdkmath.NewInt(1), e.Time.Unix()+1000000000, e.Actors[i].String()))
		if !out.OK() {
			c.Notes = append(c.Notes, "setup: add liquidity: "+out.Err)
		}
	}
	const lpt = "lpt-1"

	type pobs struct {
		start, end int64
		remzero    bool
		creator    string
		editable   bool
	}
	readPools := func() map[int64]pobs {
		m := map[int64]pobs{}
		k.IteratorAllPools(e.Ctx, func(p farmtypes.FarmPool) {
			z := true
			for _, r := range k.GetRewardRules(e.Ctx, p.Id) {
				if !r.RemainingReward.IsZero() {
					z = false
				}
			}
			m[farmNum(p.Id)] = pobs{p.StartHeight, p.EndHeight, z, p.Creator, p.Editable}
		})
		return m
	}
	observe := func(code int) string {
		var ps []string
		k.IteratorAllPools(e.Ctx, func(p farmtypes.FarmPool) {
			z := true
			for _, r := range k.GetRewardRules(e.Ctx, p.Id) {
				if !r.RemainingReward.IsZero() {
					z = false
				}
			}
			ps = append(ps, lib.Pair(lib.Z(farmNum(p.Id)), lib.Pair(lib.Z(p.StartHeight), lib.Z(p.EndHeight), lib.B(z))))
		})
		var q []string
		for _, en := range readQueue(e, farmtypes.StoreKey, farmtypes.ActiveFarmPoolKey) {
			q = append(q, lib.Pair(lib.Z(en.Height), lib.Z(farmNum(en.ID))))
		}
		return lib.App("mkFObs", lib.Z(int64(code)), lib.Z(e.Height), lib.L(ps...), lib.L(q...))
	}

	var created []int64 // pool numbers in creation order
	poolOf := func(idx int) int64 {
		if idx >= 0 && idx < len(created) {
			return created[idx]
		}
		return 9999
	}
	var terms []string
	nontrivial := false
	near := func(id int64) {
		if p, ok := readPools()[id]; ok && (e.Height == p.end || e.Height == p.end-1) {
			nontrivial = true
		}
	}
	for _, st := range h.Steps {
		var term string
		switch st.Op {
		case "create":
			rpb := sdk.NewCoins(sdk.NewCoin("stake", sdkmath.NewInt(int64(st.B))))
			total := sdk.NewCoins(sdk.NewCoin("stake", sdkmath.NewInt(int64(st.B)*st.M+int64(st.C))))
			span := st.M
			if st.D == 2 {
				rpb = rpb.Add(sdk.NewCoin("other", sdkmath.NewInt(7)))
				total = total.Add(sdk.NewCoin("other", sdkmath.NewInt(7*(st.M+int64(st.E))+3)))
			}
			start := e.Height + st.N
			msg := &farmtypes.MsgCreatePool{Description: "p", LptDenom: lpt, StartHeight: start, RewardPerBlock: rpb,
				TotalReward: total, Editable: st.F, Creator: e.Actors[st.A].String()}
			before := readPools()
			out := e.Deliver(msg)
			if out.OK() {
				for id := range readPools() {
					if _, ok := before[id]; !ok {
						created = append(created, id)
					}
				}
			}
			term = lib.Pair(lib.App("Create", lib.Z(start), lib.Z(span), lib.B(st.F), lib.Z(int64(st.A)), outcomeTerm(out.Code())), observe(out.Code()))
			lib.Stat(c.Stats, "op:create")
			lib.Stat(c.Stats, "res:"+out.Kind)
			c.Steps = append(c.Steps, fmt.Sprintf("create start=%d span=%d denoms=%d editable=%v at %d -> %s %s", start, span, st.D, st.F, e.Height, out.Kind, out.Err))
		case "adjust":
			id := poolOf(st.B)
			near(id)
			msg := &farmtypes.MsgAdjustPool{PoolId: fmt.Sprintf("%s-%d", farmtypes.PrefixFarmPool, id), Creator: e.Actors[st.A].String()}
			if st.N > 0 {
				msg.AdditionalReward = msg.AdditionalReward.Add(sdk.NewCoin("stake", sdkmath.NewInt(st.N)))
			}
			if st.C > 0 {
				msg.AdditionalReward = msg.AdditionalReward.Add(sdk.NewCoin("other", sdkmath.NewInt(int64(st.C))))
			}
			if st.M > 0 {
				msg.RewardPerBlock = sdk.NewCoins(sdk.NewCoin("stake", sdkmath.NewInt(st.M)))
			}
			pre := readPools()[id]
			out := e.Deliver(msg)
			avail := int64(0)
			if out.OK() {
				base := pre.start
				if pre.start <= e.Height {
					base = e.Height
				}
				avail = readPools()[id].end - base
			}
			term = lib.Pair(lib.App("Adjust", lib.Z(id), lib.Z(int64(st.A)), lib.Z(avail), outcomeTerm(out.Code())), observe(out.Code()))
			lib.Stat(c.Stats, "op:adjust")
			lib.Stat(c.Stats, "res:"+out.Kind)
			c.Steps = append(c.Steps, fmt.Sprintf("adjust farm-%d by %d add=%d/%d rpb=%d at %d (end was %d) -> %s %s", id, st.A, st.N, st.C, st.M, e.Height, pre.end, out.Kind, out.Err))
		case "destroy":
			id := poolOf(st.B)
			near(id)
			out := e.Deliver(&farmtypes.MsgDestroyPool{PoolId: fmt.Sprintf("%s-%d", farmtypes.PrefixFarmPool, id), Creator: e.Actors[st.A].String()})
			term = lib.Pair(lib.App("Destroy", lib.Z(id), lib.Z(int64(st.A)), outcomeTerm(out.Code())), observe(out.Code()))
			lib.Stat(c.Stats, "op:destroy")
			lib.Stat(c.Stats, "res:"+out.Kind)
			c.Steps = append(c.Steps, fmt.Sprintf("destroy farm-%d by %d at %d -> %s %s", id, st.A, e.Height, out.Kind, out.Err))
		case "stake":
			id := poolOf(st.B)
			near(id)
			out := e.Deliver(&farmtypes.MsgStake{PoolId: fmt.Sprintf("%s-%d", farmtypes.PrefixFarmPool, id),
				Amount: sdk.NewCoin(lpt, sdkmath.NewInt(st.N)), Sender: e.Actors[st.A].String()})
			term = lib.Pair(lib.App("Stake", lib.Z(id), outcomeTerm(out.Code())), observe(out.Code()))
			lib.Stat(c.Stats, "op:stake")
			lib.Stat(c.Stats, "res:"+out.Kind)
			c.Steps = append(c.Steps, fmt.Sprintf("stake %d in farm-%d by %d at %d -> %s %s", st.N, id, st.A, e.Height, out.Kind, out.Err))
		case "block":
			// which refunds of this block fail, and how: each due pool's Refund on a discarded cache context
			var fails1, fails2 []int
			ndue := 0
			for _, en := range readQueue(e, farmtypes.StoreKey, farmtypes.ActiveFarmPoolKey) {
				if en.Height != e.Height {
					continue
				}
				ndue++
				if p, ok := k.GetPool(e.Ctx, en.ID); ok {
					cc, _ := e.Ctx.CacheContext()
					func() {
						defer func() { recover() }()
						if _, err := k.Refund(cc, p); err != nil {
							if farmtypes.ErrInvalidRefund.Is(err) {
								fails2 = append(fails2, int(farmNum(en.ID)))
							} else {
								fails1 = append(fails1, int(farmNum(en.ID)))
							}
						}
					}()
				}
			}
			if ndue >= 2 {
				nontrivial = true
			}
			code, _, msg := runBlocker(e, "farm", false)
			openBlock(e, st.Dt)
			term = lib.Pair(lib.App("EndBlock", ints(fails1), ints(fails2)), observe(code))
			lib.Stat(c.Stats, "op:block")
			if len(fails1) > 0 {
				lib.Stat(c.Stats, "refund:update-error")
			}
			if len(fails2) > 0 {
				lib.Stat(c.Stats, "refund:nothing-left")
			}
			if code != 0 {
				lib.Stat(c.Stats, "blocker:abort")
				c.Steps = append(c.Steps, fmt.Sprintf("end-block %d ABORT %s", e.Height-1, msg))
			} else {
				c.Steps = append(c.Steps, fmt.Sprintf("end-block %d: %d due, refund errors %v %v", e.Height-1, ndue, fails1, fails2))
			}
		default:
			panic("farm: unknown op " + st.Op)
		}
		terms = append(terms, term)
	}
	c.Coq = lib.Pair("1", lib.L(terms...))
	c.NonTrivial = nontrivial
	return c
}
