package main

// The ABCI stream of C13: a mixed history of the four scheduling modules executed through the
// real ABCI surface of the full SimApp (InitChain with one genesis document, FinalizeBlock with
// SIGNED transactions through the ante handlers, Commit) — the node set-up follows
// harness/cmd/determinism/abci.go.  A panic in any begin / end blocker surfaces as a failed
// FinalizeBlock.  After every block the committed state of the four modules is read and the four
// hygiene clauses are evaluated (coq/Queues/CheckAbci.v).
//
// vocabulary (actors 0..3 with keys; 2, 3 are service providers):
//   hcreate : A sender, B receiver, C secret, N time lock, M amount
//   hclaim  : B index of a created contract
//   fcreate : A creator, N start offset, M span, B reward per block, F editable
//   fadjust : A sender, B pool number, N additional reward, M new reward per block
//   fdestroy: A sender, B pool number        fstake: A sender, B pool number, N amount
//   scall   : A consumer, N timeout, F repeated, M frequency, C total, D provider set
//   spause / sstart / skill: B context (index)        srespond: B context, D provider
//   rreq    : A consumer, N interval, F oracle
//   block   : Dt seconds — FinalizeBlock + Commit of the pending transactions

import (
	"encoding/hex"
	"encoding/json"
	"fmt"
	"math/rand"
	"os"
	"path/filepath"
	"strings"
	"sync/atomic"
	"time"

	"cosmossdk.io/log"
	sdkmath "cosmossdk.io/math"
	abci "github.com/cometbft/cometbft/abci/types"
	cmted25519 "github.com/cometbft/cometbft/crypto/ed25519"
	tmbytes "github.com/cometbft/cometbft/libs/bytes"
	tmproto "github.com/cometbft/cometbft/proto/tendermint/types"
	cmttypes "github.com/cometbft/cometbft/types"
	dbm "github.com/cosmos/cosmos-db"
	"github.com/cosmos/cosmos-sdk/baseapp"
	"github.com/cosmos/cosmos-sdk/client/flags"
	cryptotypes "github.com/cosmos/cosmos-sdk/crypto/types"
	"github.com/cosmos/cosmos-sdk/crypto/keys/secp256k1"
	"github.com/cosmos/cosmos-sdk/server"
	simtestutil "github.com/cosmos/cosmos-sdk/testutil/sims"
	sdk "github.com/cosmos/cosmos-sdk/types"
	authtypes "github.com/cosmos/cosmos-sdk/x/auth/types"
	banktypes "github.com/cosmos/cosmos-sdk/x/bank/types"
	"github.com/cosmos/gogoproto/proto"
	gogotypes "github.com/cosmos/gogoproto/types"

	"mods.irisnet.org/e2e"
	coinswaptypes "mods.irisnet.org/modules/coinswap/types"
	farmkeeper "mods.irisnet.org/modules/farm/keeper"
	farmtypes "mods.irisnet.org/modules/farm/types"
	htlckeeper "mods.irisnet.org/modules/htlc/keeper"
	htlctypes "mods.irisnet.org/modules/htlc/types"
	randomtypes "mods.irisnet.org/modules/random/types"
	servicekeeper "mods.irisnet.org/modules/service/keeper"
	servicetypes "mods.irisnet.org/modules/service/types"
	tokenkeeper "mods.irisnet.org/modules/token/keeper"
	"mods.irisnet.org/simapp"

	"verifharness/lib"
)

const abciChainID = "verif-c13"

var abciDirSeq int64

func genAbci(r *lib.Rand, tier string) History {
	h := History{Kind: "abci"}
	nblocks := 64 + r.Intn(6)
	if tier == "thorough" {
		nblocks = 64 + r.Intn(30)
	}
	nh, nf, ns := 0, 0, 0
	planned := map[int][]Step{} // pause / start pairs inside the idle gap of a repeated context (frequency = timeout + 3..9)
	for b := 0; b < nblocks; b++ {
		h.Steps = append(h.Steps, planned[b]...)
		if b == 3 || (b > 3 && b < 30 && r.Chance(1, 8)) {
			n := int64(1 + r.Intn(3))
			f := n + 3 + int64(r.Intn(7))
			h.Steps = append(h.Steps, Step{Op: "scall", A: 0, N: n, F: true, M: f, C: -1, D: 1 + r.Intn(3)})
			idx := ns
			ns++
			for k := 0; k < 3; k++ {
				p := b + 2 + r.Intn(int(2*f))
				q := p + 1 + r.Intn(int(f))
				planned[p] = append(planned[p], Step{Op: "spause", B: idx})
				planned[q] = append(planned[q], Step{Op: "sstart", B: idx})
			}
		}
		nops := r.Intn(4)
		if b < 10 {
			nops = 1 + r.Intn(4)
		}
		for j := 0; j < nops; j++ {
			switch r.Weighted(4, 2, 3, 3, 1, 2, 5, 2, 2, 1, 3, 3) {
			case 0:
				h.Steps = append(h.Steps, Step{Op: "hcreate", A: r.Intn(3), B: r.Intn(3), C: nh, N: 50 + int64(r.Intn(3)), M: 1 + int64(r.Intn(1000))})
				nh++
			case 1:
				if nh > 0 {
					h.Steps = append(h.Steps, Step{Op: "hclaim", B: r.Intn(nh)})
				}
			case 2:
				h.Steps = append(h.Steps, Step{Op: "fcreate", A: r.Intn(3), N: int64(r.Intn(3)), M: int64(2 + r.Intn(8)), B: 1 + r.Intn(40), F: r.Chance(4, 5)})
				nf++
			case 3:
				if nf > 0 {
					st := Step{Op: "fadjust", A: r.Intn(3), B: 1 + r.Intn(nf)}
					if r.Chance(1, 2) {
						st.N = int64(10 * (1 + r.Intn(30)))
					} else {
						st.M = int64(1 + r.Intn(40))
					}
					h.Steps = append(h.Steps, st)
				}
			case 4:
				if nf > 0 {
					h.Steps = append(h.Steps, Step{Op: "fdestroy", A: r.Intn(3), B: 1 + r.Intn(nf)})
				}
			case 5:
				if nf > 0 {
					h.Steps = append(h.Steps, Step{Op: "fstake", A: r.Intn(3), B: 1 + r.Intn(nf), N: int64(1 + r.Intn(500))})
				}
			case 6:
				st := Step{Op: "scall", A: r.Intn(2), N: int64(1 + r.Intn(4)), D: 1 + r.Intn(3)}
				if r.Chance(3, 5) {
					st.F, st.M, st.C = true, st.N+int64(r.Intn(3)), 1+r.Intn(4)
				}
				h.Steps = append(h.Steps, st)
				ns++
			case 7:
				if ns > 0 {
					h.Steps = append(h.Steps, Step{Op: []string{"spause", "sstart", "skill"}[r.Weighted(3, 3, 1)], B: r.Intn(ns)})
				}
			case 8:
				if ns > 0 {
					h.Steps = append(h.Steps, Step{Op: "srespond", B: ns - 1 - r.Intn(minInt(ns, 3)), D: r.Intn(2)})
				}
			case 9:
				h.Steps = append(h.Steps, Step{Op: "rreq", A: r.Intn(2), N: int64(r.Intn(4)), F: true})
			case 10:
				h.Steps = append(h.Steps, Step{Op: "rreq", A: r.Intn(2), N: int64(r.Intn(4))})
			case 11:
				if nf > 0 { // aimed at a pool in its last blocks: adjust with a reward per block only
					h.Steps = append(h.Steps, Step{Op: "fadjust", A: r.Intn(3), B: nf, M: int64(1 + r.Intn(60))})
				}
			}
		}
		h.Steps = append(h.Steps, Step{Op: "block", Dt: int64(1 + r.Intn(10))})
	}
	return h
}

type abciNode struct {
	e    *lib.Env
	db   dbm.DB
	home string
	keys map[string]cryptotypes.PrivKey
	sk   servicekeeper.Keeper
	fk   farmkeeper.Keeper
	hk   htlckeeper.Keeper
}

func abciRoot() string {
	if exe, err := os.Executable(); err == nil {
		return filepath.Dir(filepath.Dir(exe)) // <root>/build
	}
	return os.TempDir()
}

func newABCINode(start time.Time) *abciNode {
	n := &abciNode{e: &lib.Env{Blockers: lib.IrisModules}, db: dbm.NewMemDB(), keys: map[string]cryptotypes.PrivKey{}}
	n.home = filepath.Join(abciRoot(), "c13", "tmp", fmt.Sprintf("%d-%d", os.Getpid(), atomic.AddInt64(&abciDirSeq, 1)), "home")
	_ = os.MkdirAll(n.home, 0o755)
	opts := simtestutil.AppOptionsMap{flags.FlagHome: n.home, server.FlagInvCheckPeriod: uint(0)}
	n.e.App = simapp.NewSimApp(log.NewNopLogger(), n.db, nil, true,
		simapp.DepinjectOptions{Config: e2e.AppConfig,
			Providers: []interface{}{tokenkeeper.ProvideMockEVM(), tokenkeeper.ProvideMockICS20()},
			Consumers: []interface{}{&n.sk, &n.fk, &n.hk}},
		opts, baseapp.SetChainID(abciChainID))
	for i := 0; i < 4; i++ {
		k := secp256k1.GenPrivKeyFromSecret([]byte(fmt.Sprintf("verif-c13-actor-%d", i)))
		a := sdk.AccAddress(k.PubKey().Address())
		n.e.Actors = append(n.e.Actors, a)
		n.keys[a.String()] = k
	}
	n.e.Height, n.e.Time = 0, start
	return n
}

func (n *abciNode) cleanup() {
	_ = n.e.App.Close()
	_ = os.RemoveAll(filepath.Dir(n.home))
}

func (n *abciNode) readCtx() {
	n.e.Ctx = n.e.App.NewUncachedContext(false, tmproto.Header{Height: n.e.Height, Time: n.e.Time, ChainID: abciChainID})
}

func (n *abciNode) genesis() []byte {
	app := n.e.App
	gs := app.DefaultGenesis()
	valPub := cmted25519.GenPrivKeyFromSecret([]byte("verif-c13-validator")).PubKey()
	valSet := cmttypes.NewValidatorSet([]*cmttypes.Validator{cmttypes.NewValidator(valPub, 1)})
	bal := sdk.NewCoins(sdk.NewCoin("stake", sdkmath.NewInt(1_000_000_000_000)), sdk.NewCoin("other", sdkmath.NewInt(1_000_000_000_000)))
	var accs []authtypes.GenesisAccount
	var bals []banktypes.Balance
	for _, a := range n.e.Actors {
		accs = append(accs, authtypes.NewBaseAccountWithAddress(a))
		bals = append(bals, banktypes.Balance{Address: a.String(), Coins: bal})
	}
	gs2, err := simtestutil.GenesisStateWithValSet(app.AppCodec(), gs, valSet, accs, bals...)
	if err != nil {
		panic(err)
	}
	var sg servicetypes.GenesisState
	app.AppCodec().MustUnmarshalJSON(gs2[servicetypes.ModuleName], &sg)
	sg.Definitions = append(sg.Definitions, servicetypes.GenOraclePriceSvcDefinition(), servicetypes.GetRandomSvcDefinition())
	sg.Params.MaxRequestTimeout = 10
	gs2[servicetypes.ModuleName] = app.AppCodec().MustMarshalJSON(&sg)
	bz, err := json.MarshalIndent(gs2, "", " ")
	if err != nil {
		panic(err)
	}
	return bz
}

type abciTx struct {
	st  Step
	msg sdk.Msg
}

// block signs and executes the pending messages in one block.  Returns false if FinalizeBlock failed.
func (n *abciNode) block(c *lib.Case, memo *rand.Rand, pending []abciTx, dt int64, onResult func(t abciTx, data []byte)) (ok bool, errText string) {
	e := n.e
	e.Height++
	if e.Height > 1 {
		e.Time = e.Time.Add(time.Duration(dt) * time.Second)
	}
	n.readCtx()
	app := e.App
	seqs := map[string]uint64{}
	var txs [][]byte
	var done []abciTx
	for _, t := range pending {
		signers, _, err := app.AppCodec().GetMsgV1Signers(t.msg)
		if err != nil || len(signers) != 1 {
			lib.Stat(c.Stats, "res:skip")
			continue
		}
		addr := sdk.AccAddress(signers[0])
		priv, ok := n.keys[addr.String()]
		if !ok {
			lib.Stat(c.Stats, "res:skip")
			continue
		}
		acc := app.AccountKeeper.GetAccount(e.Ctx, addr)
		if _, ok := seqs[addr.String()]; !ok {
			seqs[addr.String()] = acc.GetSequence()
		}
		tx, err := simtestutil.GenSignedMockTx(memo, app.TxConfig(), []sdk.Msg{t.msg}, sdk.Coins{sdk.NewInt64Coin("stake", 0)},
			simtestutil.DefaultGenTxGas, abciChainID, []uint64{acc.GetAccountNumber()}, []uint64{seqs[addr.String()]}, priv)
		if err != nil {
			panic(err)
		}
		seqs[addr.String()]++
		bz, err := app.TxConfig().TxEncoder()(tx)
		if err != nil {
			panic(err)
		}
		txs = append(txs, bz)
		done = append(done, t)
	}
	var resp *abci.ResponseFinalizeBlock
	var err error
	func() {
		defer func() {
			if r := recover(); r != nil {
				err = fmt.Errorf("panic: %v", r)
			}
		}()
		resp, err = app.FinalizeBlock(&abci.RequestFinalizeBlock{Height: e.Height, Time: e.Time, Txs: txs})
	}()
	if err != nil {
		e.Height--
		return false, err.Error()
	}
	for i, tr := range resp.TxResults {
		lib.Stat(c.Stats, "op:"+done[i].st.Op)
		if tr.Code != 0 {
			lib.Stat(c.Stats, "res:rej")
			continue
		}
		lib.Stat(c.Stats, "res:ok")
		if onResult != nil {
			onResult(done[i], tr.Data)
		}
	}
	for _, ev := range resp.Events {
		switch ev.Type {
		case "new_batch", "complete_batch", "refund_htlc", "generate_random", "complete_context", "request_service":
			lib.Stat(c.Stats, "blk-event:"+ev.Type)
		}
	}
	if _, err := app.Commit(); err != nil {
		panic(err)
	}
	n.readCtx()
	return true, ""
}

// ---- observation of the committed state, in the shapes of the four per-module checks ----

func (n *abciNode) observe(failed bool, hids, sids *lib.Interner) string {
	e := n.e
	// HTLC
	var hobjs, hq []string
	n.hk.IterateHTLCs(e.Ctx, func(id tmbytes.HexBytes, x htlctypes.HTLC) bool {
		hobjs = append(hobjs, lib.Pair(lib.Z(int64(hids.Id(string(id)))), lib.Pair(lib.Z(int64(x.State)), lib.ZU(x.ExpirationHeight), lib.ZU(x.ClosedBlock))))
		return false
	})
	for _, en := range readQueue(e, htlctypes.StoreKey, htlctypes.HTLCExpiredQueueKey) {
		hq = append(hq, zz(en.Height, hids.Id(en.ID)))
	}
	hob := lib.App("HObs", "0", lib.Z(e.Height), lib.L(hobjs...), lib.L(hq...))
	// random: only the keys matter for the static hygiene clause; ids interned
	rids := lib.NewInterner()
	var rq []string
	for _, en := range readQueue(e, randomtypes.StoreKey, randomtypes.RandomRequestQueueKey) {
		var req randomtypes.Request
		e.App.AppCodec().MustUnmarshal(en.Value, &req)
		rq = append(rq, lib.Pair(lib.Pair(lib.Z(en.Height), lib.Pair("0", lib.Z(int64(rids.Id(en.ID))))), lib.Pair(lib.B(req.Oracle), "0")))
	}
	rob := lib.App("RObs", "0", lib.Z(e.Height), lib.L(rq...), "[]", "[]", "[]")
	// farm (observed like after its end blocker: the next height)
	var fps, fq []string
	n.fk.IteratorAllPools(e.Ctx, func(p farmtypes.FarmPool) {
		z := true
		for _, r := range n.fk.GetRewardRules(e.Ctx, p.Id) {
			if !r.RemainingReward.IsZero() {
				z = false
			}
		}
		fps = append(fps, lib.Pair(lib.Z(farmNum(p.Id)), lib.Pair(lib.Z(p.StartHeight), lib.Z(p.EndHeight), lib.B(z))))
	})
	for _, en := range readQueue(e, farmtypes.StoreKey, farmtypes.ActiveFarmPoolKey) {
		fq = append(fq, lib.Pair(lib.Z(en.Height), lib.Z(farmNum(en.ID))))
	}
	fob := lib.App("FObs", "0", lib.Z(e.Height+1), lib.L(fps...), lib.L(fq...))
	// service
	var cs, nq, xq []string
	n.sk.IterateRequestContexts(e.Ctx, func(id tmbytes.HexBytes, rc servicetypes.RequestContext) bool {
		mod := int64(0)
		switch rc.ModuleName {
		case "":
		case "oracle":
			mod = 1
		case randomtypes.ModuleName:
			mod = 2
		default:
			mod = 9
		}
		outs := len(n.sk.GetResponseOutputs(e.Ctx, id, rc.BatchCounter))
		cs = append(cs, lib.Pair(lib.Z(int64(sids.Id(string(id)))), lib.Pair(
			lib.Pair(lib.Z(int64(rc.State)), lib.B(rc.BatchState == servicetypes.BATCHCOMPLETED), lib.ZU(rc.BatchCounter)),
			lib.Pair(lib.Z(rc.Timeout), lib.ZU(rc.RepeatedFrequency), lib.Z(rc.RepeatedTotal)),
			lib.Pair(lib.Z(int64(rc.BatchRequestCount)), lib.Z(int64(rc.BatchResponseCount))),
			lib.Pair(lib.Z(mod), lib.Z(int64(len(rc.Providers))), lib.Z(int64(rc.ResponseThreshold)), lib.Z(int64(rc.BatchResponseThreshold)), lib.Z(int64(outs))))))
		return false
	})
	for _, en := range readQueue(e, servicetypes.StoreKey, servicetypes.NewRequestBatchKey) {
		nq = append(nq, zz(en.Height, sids.Id(en.ID)))
	}
	for _, en := range readQueue(e, servicetypes.StoreKey, servicetypes.ExpiredRequestBatchKey) {
		xq = append(xq, zz(en.Height, sids.Id(en.ID)))
	}
	marks := func(prefix []byte) string {
		keys, vals := readKeys(e, servicetypes.StoreKey, prefix)
		var out []string
		for i, kk := range keys {
			var v gogotypes.Int64Value
			e.App.AppCodec().MustUnmarshal(vals[i], &v)
			out = append(out, lib.Pair(lib.Z(int64(sids.Id(kk))), lib.Z(v.Value)))
		}
		return lib.L(out...)
	}
	sob := lib.App("SObs", "0", lib.Z(e.Height+1), lib.L(cs...), lib.L(nq...), lib.L(xq...),
		marks(servicetypes.NewRequestBatchHeightKey), marks(servicetypes.ExpiredRequestBatchHeightKey))
	return lib.App("mkBObs", lib.B(failed), hob, rob, fob, sob)
}

func execAbci(h History) lib.Case {
	c := lib.Case{Stats: map[string]int{}}
	n := newABCINode(time.Unix(1700000000, 0).UTC())
	defer n.cleanup()
	if _, err := n.e.App.InitChain(&abci.RequestInitChain{ChainId: abciChainID, Time: n.e.Time, InitialHeight: 1,
		Validators: []abci.ValidatorUpdate{}, ConsensusParams: simtestutil.DefaultConsensusParams, AppStateBytes: n.genesis()}); err != nil {
		panic("InitChain: " + err.Error())
	}
	memo := rand.New(rand.NewSource(13))
	e := n.e
	hids, sids := lib.NewInterner(), lib.NewInterner()
	sids.Id("")
	var terms []string
	type htlcRef struct{ id, secret string }
	var htlcs []htlcRef
	var sctxs []string // request context ids (hex) in creation order
	onResult := func(t abciTx, data []byte) {
		var td sdk.TxMsgData
		if proto.Unmarshal(data, &td) != nil || len(td.MsgResponses) != 1 {
			return
		}
		switch t.msg.(type) {
		case *servicetypes.MsgCallService:
			var cr servicetypes.MsgCallServiceResponse
			if proto.Unmarshal(td.MsgResponses[0].Value, &cr) == nil {
				sctxs = append(sctxs, cr.RequestContextId)
			}
		case *htlctypes.MsgCreateHTLC:
			var cr htlctypes.MsgCreateHTLCResponse
			if proto.Unmarshal(td.MsgResponses[0].Value, &cr) == nil {
				htlcs = append(htlcs, htlcRef{id: cr.Id, secret: hex.EncodeToString([]byte(fmt.Sprintf("secret%026d", t.st.C)))})
			}
		}
	}
	runBlock := func(pending []abciTx, dt int64) {
		ok, errText := n.block(&c, memo, pending, dt, onResult)
		lib.Stat(c.Stats, "op:block")
		if !ok {
			lib.Stat(c.Stats, "fb:error")
			c.Steps = append(c.Steps, fmt.Sprintf("block %d: FinalizeBlock FAILED: %s", e.Height+1, errText))
			n.readCtx()
		} else {
			c.Steps = append(c.Steps, fmt.Sprintf("block %d: %d transactions", e.Height, len(pending)))
		}
		terms = append(terms, n.observe(!ok, hids, sids))
	}
	// set-up blocks: genesis commit; liquidity (lpt-1) and the service definition; the bindings
	runBlock(nil, 0)
	var setup []abciTx
	for i := 0; i < 3; i++ {
		setup = append(setup, abciTx{Step{Op: "setup"}, coinswaptypes.NewMsgAddLiquidity(sdk.NewCoin("other", sdkmath.NewInt(int64(10000000+i*1000000))),
			sdkmath.NewInt(10000000), sdkmath.NewInt(1), e.Time.Unix()+1000000000, e.Actors[i].String())})
	}
	setup = append(setup, abciTx{Step{Op: "setup"}, servicetypes.NewMsgDefineService(svcName, "d", nil, e.Actors[3].String(), "a", `{"input":{"type":"object"},"output":{"type":"object"}}`)})
	runBlock(setup, 5)
	dep := sdk.NewCoins(sdk.NewCoin("stake", sdkmath.NewInt(1000000000)))
	runBlock([]abciTx{
		{Step{Op: "setup"}, servicetypes.NewMsgBindService(svcName, e.Actors[2].String(), dep, `{"price":"2stake"}`, 1, "{}", e.Actors[2].String())},
		{Step{Op: "setup"}, servicetypes.NewMsgBindService(svcName, e.Actors[3].String(), dep, `{"price":"3stake"}`, 3, "{}", e.Actors[3].String())},
		{Step{Op: "setup"}, servicetypes.NewMsgBindService(randomtypes.ServiceName, e.Actors[2].String(), sdk.NewCoins(sdk.NewCoin("stake", sdkmath.NewInt(100000000))), `{"price":"2stake"}`, 1, "{}", e.Actors[2].String())},
	}, 5)
	if c.Stats["res:rej"] > 0 {
		c.Notes = append(c.Notes, "abci: a set-up transaction was rejected")
	}

	var pending []abciTx
	nontrivial := false
	poolID := func(k int) string { return fmt.Sprintf("%s-%d", farmtypes.PrefixFarmPool, k) }
	for _, st := range h.Steps {
		var msg sdk.Msg
		switch st.Op {
		case "hcreate":
			secret := []byte(fmt.Sprintf("secret%026d", st.C))
			m := htlctypes.NewMsgCreateHTLC(e.Actors[st.A].String(), e.Actors[st.B].String(), "r", "s",
				sdk.NewCoins(sdk.NewCoin("stake", sdkmath.NewInt(st.M))), hex.EncodeToString(htlctypes.GetHashLock(secret, 0)), 0, uint64(st.N), false)
			msg = &m
		case "hclaim":
			if st.B < len(htlcs) {
				m := htlctypes.NewMsgClaimHTLC(e.Actors[1].String(), htlcs[st.B].id, htlcs[st.B].secret)
				msg = &m
			}
		case "fcreate":
			msg = &farmtypes.MsgCreatePool{Description: "p", LptDenom: "lpt-1", StartHeight: e.Height + 1 + st.N,
				RewardPerBlock: sdk.NewCoins(sdk.NewCoin("stake", sdkmath.NewInt(int64(st.B)))),
				TotalReward:    sdk.NewCoins(sdk.NewCoin("stake", sdkmath.NewInt(int64(st.B)*st.M+int64(st.B)/2))),
				Editable:       st.F, Creator: e.Actors[st.A].String()}
		case "fadjust":
			m := &farmtypes.MsgAdjustPool{PoolId: poolID(st.B), Creator: e.Actors[st.A].String()}
			if st.N > 0 {
				m.AdditionalReward = sdk.NewCoins(sdk.NewCoin("stake", sdkmath.NewInt(st.N)))
			}
			if st.M > 0 {
				m.RewardPerBlock = sdk.NewCoins(sdk.NewCoin("stake", sdkmath.NewInt(st.M)))
			}
			msg = m
		case "fdestroy":
			msg = &farmtypes.MsgDestroyPool{PoolId: poolID(st.B), Creator: e.Actors[st.A].String()}
		case "fstake":
			msg = &farmtypes.MsgStake{PoolId: poolID(st.B), Amount: sdk.NewCoin("lpt-1", sdkmath.NewInt(st.N)), Sender: e.Actors[st.A].String()}
		case "scall":
			var provs []string
			for bit, a := range []int{2, 3} {
				if st.D&(1<<bit) != 0 {
					provs = append(provs, e.Actors[a].String())
				}
			}
			msg = servicetypes.NewMsgCallService(svcName, provs, e.Actors[st.A].String(), `{"header":{},"body":{}}`,
				sdk.NewCoins(sdk.NewCoin("stake", sdkmath.NewInt(100))), st.N, st.F, uint64(st.M), int64(st.C))
		case "spause", "sstart", "skill":
			if st.B < len(sctxs) {
				id := sctxs[st.B]
				var rc servicetypes.RequestContext
				raw, _ := hex.DecodeString(id)
				if x, ok := n.sk.GetRequestContext(e.Ctx, raw); ok {
					rc = x
				}
				switch st.Op {
				case "spause":
					msg = servicetypes.NewMsgPauseRequestContext(id, rc.Consumer)
				case "sstart":
					msg = servicetypes.NewMsgStartRequestContext(id, rc.Consumer)
				case "skill":
					msg = servicetypes.NewMsgKillRequestContext(id, rc.Consumer)
				}
				if rc.Consumer == "" {
					msg = nil
				}
			}
		case "srespond":
			if st.B < len(sctxs) {
				raw, _ := hex.DecodeString(sctxs[st.B])
				if rc, ok := n.sk.GetRequestContext(e.Ctx, raw); ok {
					prov := e.Actors[2+st.D%2]
					n.sk.IterateActiveRequests(e.Ctx, raw, rc.BatchCounter, func(rid tmbytes.HexBytes, rq servicetypes.Request) {
						if rq.Provider == prov.String() {
							msg = servicetypes.NewMsgRespondService(rid.String(), prov.String(), `{"code":200,"message":""}`, `{"header":{},"body":{}}`)
						}
					})
				}
			}
		case "rreq":
			msg = randomtypes.NewMsgRequestRandom(e.Actors[st.A].String(), uint64(st.N), st.F, sdk.NewCoins(sdk.NewCoin("stake", sdkmath.NewInt(10))))
		case "block":
			if len(pending) >= 2 {
				nontrivial = true
			}
			runBlock(pending, st.Dt)
			pending = nil
			continue
		default:
			panic("abci: unknown op " + st.Op)
		}
		if msg == nil {
			lib.Stat(c.Stats, "res:skip")
			continue
		}
		pending = append(pending, abciTx{st, msg})
	}
	runBlock(pending, 5)
	_ = strings.ToUpper
	c.Coq = lib.L(terms...)
	c.NonTrivial = nontrivial
	return c
}
