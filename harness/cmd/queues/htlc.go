package main

import (
	"encoding/hex"
	"fmt"

	sdkmath "cosmossdk.io/math"
	tmbytes "github.com/cometbft/cometbft/libs/bytes"
	"github.com/cosmos/cosmos-sdk/codec"
	sdk "github.com/cosmos/cosmos-sdk/types"
	"time"

	htlckeeper "mods.irisnet.org/modules/htlc/keeper"
	htlctypes "mods.irisnet.org/modules/htlc/types"
	"mods.irisnet.org/simapp"

	"verifharness/lib"
)

// HTLC vocabulary
//   create: A sender, B to, C secret index, N time lock, M amount, F transfer (HTLT), D number of coins (1|2)
//   claim : A index of a created contract (-1: unknown id), C secret index used (-1: the right one)
//   block : Dt seconds

func genHtlc(r *lib.Rand, tier string) History {
	h := History{Kind: "htlc"}
	nblocks := 63 + r.Intn(6)
	if tier == "thorough" {
		nblocks = 63 + r.Intn(40)
	}
	created := 0
	secret := 0
	// contracts are created in the first few blocks with time locks 50..55 so that several fall
	// due at one height and all of them fall due inside the history
	var expiry []int64
	claimed := map[int]bool{}
	for b := 0; b < nblocks; b++ {
		height := int64(b + 1)
		for idx, ex := range expiry {
			if (height == ex || height == ex-1) && r.Chance(1, 4) {
				claimed[idx] = true
				h.Steps = append(h.Steps, Step{Op: "claim", A: idx, C: -1})
			}
		}
		nops := 0
		if b < 8 {
			nops = r.Intn(4)
		} else if r.Chance(1, 5) {
			nops = 1 + r.Intn(2)
		}
		for j := 0; j < nops; j++ {
			if created > 0 && (b >= 8 || r.Chance(1, 6)) && r.Chance(1, 3) {
				st := Step{Op: "claim", A: r.Intn(created), C: -1}
				for try := 0; try < 6 && (claimed[st.A] || expiry[st.A] <= height) && r.Chance(9, 10); try++ {
					st.A = r.Intn(created)
				}
				claimed[st.A] = true
				switch r.Weighted(10, 2, 1) {
				case 1:
					st.C = 900 + r.Intn(3) // wrong secret
				case 2:
					st.A = -1 // unknown id
				}
				h.Steps = append(h.Steps, st)
				continue
			}
			st := Step{Op: "create", A: r.Intn(3), B: r.Intn(3), C: secret, N: 50 + int64(r.Intn(4)), M: 1 + int64(r.Intn(100000)), D: 1}
			secret++
			switch r.Weighted(10, 4, 4, 1, 1, 1, 1, 1) {
			case 1: // incoming HTLT: deputy (actor 0) -> user
				st.F, st.A, st.B = true, 0, 1+r.Intn(2)
			case 2: // outgoing HTLT: user -> deputy
				st.F, st.A, st.B, st.M = true, 1+r.Intn(2), 0, 1001+int64(r.Intn(5000))
			case 3:
				st.N = 49 // below the minimum
			case 4:
				st.N = 34561
			case 5:
				st.D = 2 // two coins
			case 6:
				if secret > 1 { // identical to an earlier creation: id exists (or is created again after closing)
					st.C = r.Intn(secret - 1)
				}
			case 7:
				st.M = 4000000000000 // more than the sender holds
			}
			if r.Chance(1, 12) {
				st.N = 50 + int64(r.Intn(3000))
			}
			h.Steps = append(h.Steps, st)
			expiry = append(expiry, height+st.N)
			created++
		}
		dt := int64(1 + r.Intn(20))
		if r.Chance(1, 10) {
			dt = int64(1 + r.Intn(100000))
		}
		h.Steps = append(h.Steps, Step{Op: "block", Dt: dt})
	}
	return h
}

type htlcRec struct {
	id     []byte
	iid    int
	secret []byte
	ts     uint64
}

func htlcMerge(actors func() []sdk.AccAddress) func(cdc codec.Codec, state simapp.GenesisState) simapp.GenesisState {
	return func(cdc codec.Codec, state simapp.GenesisState) simapp.GenesisState {
		var gs htlctypes.GenesisState
		cdc.MustUnmarshalJSON(state[htlctypes.ModuleName], &gs)
		gs.Params.AssetParams = []htlctypes.AssetParam{{
			Denom: "htltbnb",
			SupplyLimit: htlctypes.SupplyLimit{
				Limit: sdkmath.NewInt(350000000000000), TimeLimited: false,
				TimeBasedLimit: sdkmath.ZeroInt(), TimePeriod: time.Hour,
			},
			Active: true, DeputyAddress: actors()[0].String(), FixedFee: sdkmath.NewInt(1000),
			MinSwapAmount: sdkmath.OneInt(), MaxSwapAmount: sdkmath.NewInt(1000000000000),
			MinBlockLock: htlctypes.MinTimeLock, MaxBlockLock: htlctypes.MaxTimeLock,
		}}
		z := sdk.NewCoin("htltbnb", sdkmath.ZeroInt())
		gs.Supplies = []htlctypes.AssetSupply{htlctypes.NewAssetSupply(z, z, sdk.NewCoin("htltbnb", sdkmath.NewInt(3000000000)), z, time.Duration(0))}
		state[htlctypes.ModuleName] = cdc.MustMarshalJSON(&gs)
		return state
	}
}

func execHtlc(h History) lib.Case {
	var k htlckeeper.Keeper
	var e *lib.Env
	bal := sdk.NewCoins(sdk.NewCoin("stake", sdkmath.NewInt(1000000000000)), sdk.NewCoin("htltbnb", sdkmath.NewInt(1000000000)),
		sdk.NewCoin("other", sdkmath.NewInt(1000000000000)))
	actors := func() []sdk.AccAddress { return []sdk.AccAddress{lib.ActorAddr(0), lib.ActorAddr(1), lib.ActorAddr(2)} }
	e = lib.NewEnv(lib.EnvOpts{NActors: 3, Balances: bal, Consumers: []interface{}{&k}, Merge: htlcMerge(actors)})
	c := lib.Case{Stats: map[string]int{}}
	ids := lib.NewInterner()
	var recs []htlcRec
	status := map[int]int{} // interned id -> last observed state
	expire := map[int]int64{}
	var terms []string
	nontrivial := false

	observe := func(code int) string {
		var objs []string
		k.IterateHTLCs(e.Ctx, func(id tmbytes.HexBytes, x htlctypes.HTLC) bool {
			iid := ids.Id(string(id))
			status[iid] = int(x.State)
			expire[iid] = int64(x.ExpirationHeight)
			objs = append(objs, lib.Pair(lib.Z(int64(iid)), lib.Pair(lib.Z(int64(x.State)), lib.ZU(x.ExpirationHeight), lib.ZU(x.ClosedBlock))))
			return false
		})
		var q []string
		for _, en := range readQueue(e, htlctypes.StoreKey, htlctypes.HTLCExpiredQueueKey) {
			q = append(q, zz(en.Height, ids.Id(en.ID)))
		}
		return lib.App("mkHObs", lib.Z(int64(code)), lib.Z(e.Height), lib.L(objs...), lib.L(q...))
	}

	for _, st := range h.Steps {
		var term string
		code := 0
		switch st.Op {
		case "block":
			openBlock(e, st.Dt)
			var dueIDs []int
			for _, en := range readQueue(e, htlctypes.StoreKey, htlctypes.HTLCExpiredQueueKey) {
				if en.Height == e.Height {
					dueIDs = append(dueIDs, ids.Id(en.ID))
				}
			}
			var msg string
			code, _, msg = runBlocker(e, "htlc", true)
			o := observe(code)
			var fails []int
			refunded := 0
			for _, d := range dueIDs {
				if status[d] == int(htlctypes.Open) {
					fails = append(fails, d)
				} else {
					refunded++
				}
			}
			if refunded >= 2 {
				nontrivial = true
			}
			term = lib.Pair(lib.App("BeginBlock", ints(fails)), o)
			lib.Stat(c.Stats, "op:block")
			if code != 0 {
				lib.Stat(c.Stats, "blocker:abort")
				c.Steps = append(c.Steps, fmt.Sprintf("begin-block %d ABORT %s", e.Height, msg))
			} else {
				c.Steps = append(c.Steps, fmt.Sprintf("begin-block %d: %d due, %d refund errors", e.Height, len(dueIDs), len(fails)))
			}
		case "create":
			secret := []byte(fmt.Sprintf("secret%026d", st.C))
			ts := uint64(0)
			if st.F {
				ts = uint64(e.Time.Unix())
			}
			hashLock := htlctypes.GetHashLock(secret, ts)
			denom := "stake"
			if st.F {
				denom = "htltbnb"
			}
			amount := sdk.NewCoins(sdk.NewCoin(denom, sdkmath.NewInt(st.M)))
			if st.D == 2 {
				amount = amount.Add(sdk.NewCoin("other", sdkmath.NewInt(7)))
			}
			sender, to := e.Actors[st.A], e.Actors[st.B]
			id := htlctypes.GetID(sender, to, amount, hashLock)
			iid := ids.Id(string(id))
			_, exists := status[iid]
			msg := htlctypes.NewMsgCreateHTLC(sender.String(), to.String(), "receiver-on-other-chain", "sender-on-other-chain",
				amount, hex.EncodeToString(hashLock), ts, uint64(st.N), st.F)
			out := e.Deliver(&msg)
			code = out.Code()
			modelRejects := st.N < 50 || st.N > 34560 || exists || (st.F && st.D != 1)
			restOK := out.OK() || modelRejects
			if out.OK() {
				recs = append(recs, htlcRec{id: id, iid: iid, secret: secret, ts: ts})
				if got := out.Resp.(*htlctypes.MsgCreateHTLCResponse).Id; got != tmbytes.HexBytes(id).String() {
					c.Notes = append(c.Notes, "returned id differs from GetID(sender,to,amount,hashLock)")
				}
			} else {
				recs = append(recs, htlcRec{id: id, iid: iid, secret: secret, ts: ts}) // may not exist: claim is then rejected
			}
			term = lib.Pair(lib.App("Create", lib.Z(int64(iid)), lib.Z(st.N), lib.B(st.F), lib.Z(int64(st.D)), lib.B(restOK)), observe(code))
			lib.Stat(c.Stats, "op:create")
			lib.Stat(c.Stats, "res:"+out.Kind)
			c.Steps = append(c.Steps, fmt.Sprintf("create #%d tl=%d htlt=%v coins=%d -> %s %s", iid, st.N, st.F, st.D, out.Kind, out.Err))
		case "claim":
			var rec htlcRec
			if st.A >= 0 && st.A < len(recs) {
				rec = recs[st.A]
			} else {
				rec = htlcRec{id: make([]byte, 32), iid: ids.Id(string(make([]byte, 32))), secret: []byte("secret00000000000000000000000000")}
			}
			secret := rec.secret
			if st.C >= 0 {
				secret = []byte(fmt.Sprintf("secret%026d", st.C))
			}
			stt, exists := status[rec.iid]
			if exists && (e.Height == expire[rec.iid] || e.Height == expire[rec.iid]-1) {
				nontrivial = true
			}
			msg := htlctypes.NewMsgClaimHTLC(e.Actors[1].String(), hex.EncodeToString(rec.id), hex.EncodeToString(secret))
			out := e.Deliver(&msg)
			code = out.Code()
			modelRejects := !exists || stt != int(htlctypes.Open)
			restOK := out.OK() || modelRejects
			term = lib.Pair(lib.App("Claim", lib.Z(int64(rec.iid)), lib.B(restOK)), observe(code))
			lib.Stat(c.Stats, "op:claim")
			lib.Stat(c.Stats, "res:"+out.Kind)
			c.Steps = append(c.Steps, fmt.Sprintf("claim #%d at %d -> %s %s", rec.iid, e.Height, out.Kind, out.Err))
		default:
			panic("htlc: unknown op " + st.Op)
		}
		terms = append(terms, term)
	}
	c.Coq = lib.Pair("1", lib.L(terms...))
	c.NonTrivial = nontrivial
	return c
}
