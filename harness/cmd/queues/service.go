package main

import (
	"encoding/hex"
	"fmt"
	"strings"

	sdkmath "cosmossdk.io/math"
	tmbytes "github.com/cometbft/cometbft/libs/bytes"
	gogotypes "github.com/cosmos/gogoproto/types"
	sdk "github.com/cosmos/cosmos-sdk/types"

	oraclekeeper "mods.irisnet.org/modules/oracle/keeper"
	randomtypes "mods.irisnet.org/modules/random/types"
	oracletypes "mods.irisnet.org/modules/oracle/types"
	servicekeeper "mods.irisnet.org/modules/service/keeper"
	servicetypes "mods.irisnet.org/modules/service/types"

	"verifharness/lib"
)

// service vocabulary (actors: 0, 1 consumers — 1 is poor; 2, 3 providers priced in the base
// denom, QoS 1 and 3; 4 a provider whose zero price is in a denom without exchange rate)
//   call   : A consumer, N timeout, F repeated, M frequency, C total, D provider set (bit 0: 2, bit 1: 3, bit 2: 4)
//   pause / start / kill: A sender, B context (index in creation order, -1: unknown)
//   update : A sender, B context, N timeout, M frequency, C total
//   respond: B context, D provider (0: actor 2, 1: actor 3)
//   block  : Dt seconds — the service end-blocker of the current block, then the next block
// contexts owned by modules (their callbacks run inside the end-blocker):
//   feed    : N timeout, M frequency, D provider set (bits 0, 1), C response threshold — oracle CreateFeed + StartFeed
//   frespond: B feed (index), D provider, E value (0: not a number)
//   fpause / fstart: B feed                  — oracle PauseFeed / StartFeed
//   fedit   : B feed, N timeout, M frequency, C response threshold, D provider set (0: keep) — oracle EditFeed
//   rreq    : MsgRequestRandom{oracle: true, interval 1} — a PAUSED context of the random module, started by
//             random's begin blocker two blocks later (at most one per block)
//   rrespond: B random request (index), G: the seed has the wrong length

const svcName = "queue-svc"

func genService(r *lib.Rand, tier string) History {
	h := History{Kind: "service"}
	nblocks := 30 + r.Intn(10)
	if tier == "thorough" {
		nblocks = 30 + r.Intn(50)
	}
	type gc struct {
		consumer, provs int
		repeated        bool
		born, last      int64 // creation height, estimated last height of its life
		paused, dead    bool
	}
	var cs []gc
	nfeeds, nrreq := 0, 0
	// planned operations: pause / start pairs of the "idle gap" contexts (repeated, frequency = timeout + 3..9),
	// placed uniformly over the period — in particular after a batch has expired and before the next one's
	// scheduled height, where the context has a new-batch entry in the future and no expiration entry
	planned := map[int][]Step{}
	for b := 0; b < nblocks; b++ {
		height := int64(b + 1)
		rreqThisBlock := false
		h.Steps = append(h.Steps, planned[b]...)
		if b == 0 || (b < 12 && r.Chance(1, 4)) {
			n := int64(1 + r.Intn(3))
			f := n + 3 + int64(r.Intn(7))
			st := Step{Op: "call", A: 0, N: n, F: true, M: f, C: -1, D: 1 + r.Intn(3)}
			if r.Chance(1, 3) {
				st.C = 3 + r.Intn(3)
			}
			h.Steps = append(h.Steps, st)
			idx := len(cs)
			cs = append(cs, gc{consumer: 0, provs: st.D, repeated: true, born: height, last: height + 1000})
			for k := 0; k < 3; k++ {
				p := b + 1 + r.Intn(int(2*f))
				q := p + r.Intn(int(f))
				planned[p] = append(planned[p], Step{Op: "pause", A: 0, B: idx})
				planned[q] = append(planned[q], Step{Op: "start", A: 0, B: idx})
			}
		}
		pick := func(want func(g gc) bool) int {
			var ok []int
			for i, g := range cs {
				if !g.dead && g.last >= height && want(g) {
					ok = append(ok, i)
				}
			}
			if len(ok) == 0 || r.Chance(1, 12) {
				return r.Intn(len(cs))
			}
			return ok[r.Intn(len(ok))]
		}
		nops := 0
		if b < 8 {
			nops = 1 + r.Intn(3)
		} else {
			nops = r.Intn(4)
		}
		for j := 0; j < nops; j++ {
			if len(cs) > 0 && r.Chance(7, 10) {
				st := Step{}
				switch r.Weighted(7, 3, 3, 1, 4) {
				case 0:
					st.Op = "respond"
					st.B = pick(func(g gc) bool { return g.born < height && !g.paused })
					st.D = r.Intn(2)
					if cs[st.B].provs&3 == 1 {
						st.D = 0
					} else if cs[st.B].provs&3 == 2 {
						st.D = 1
					}
				case 1:
					st.Op = "pause"
					st.B = pick(func(g gc) bool { return g.repeated && !g.paused })
					cs[st.B].paused = cs[st.B].repeated
				case 2:
					st.Op = "start"
					st.B = pick(func(g gc) bool { return g.paused })
					cs[st.B].paused = false
				case 3:
					st.Op = "kill"
					st.B = pick(func(g gc) bool { return g.repeated })
					cs[st.B].dead = cs[st.B].repeated
				case 4:
					st.Op = "update"
					st.B = pick(func(g gc) bool { return g.repeated })
					switch r.Weighted(3, 3, 2, 1, 1) {
					case 0:
						st.N = int64(1 + r.Intn(6))
						st.M = st.N + int64(r.Intn(4))
					case 1:
						st.M = int64(4 + r.Intn(8))
					case 2:
						st.C = 2 + r.Intn(6)
					case 3:
						st.N = int64(1 + r.Intn(12)) // may exceed the frequency or the maximum
					case 4:
						st.C = -1
					}
				}
				st.A = cs[st.B].consumer
				if r.Chance(1, 15) {
					st.A = 1 - st.A
				}
				if st.Op != "respond" && r.Chance(1, 14) {
					st.A, st.E = 0, 1+r.Intn(2) // a consumer message aimed at a context owned by a module
				}
				if r.Chance(1, 25) {
					st.B = -1
				}
				h.Steps = append(h.Steps, st)
				continue
			}
			if r.Chance(1, 3) {
				switch {
				case nfeeds == 0 || r.Chance(1, 5):
					n := int64(1 + r.Intn(3))
					h.Steps = append(h.Steps, Step{Op: "feed", N: n, M: n + int64(r.Intn(3)), D: 1 + r.Intn(3), C: 1 + r.Intn(2)})
					nfeeds++
				case r.Chance(4, 6):
					h.Steps = append(h.Steps, Step{Op: "frespond", B: r.Intn(nfeeds), D: r.Intn(2), E: r.Intn(50)})
				case r.Chance(1, 3):
					h.Steps = append(h.Steps, Step{Op: "fpause", B: r.Intn(nfeeds)})
				case r.Chance(1, 2):
					h.Steps = append(h.Steps, Step{Op: "fstart", B: r.Intn(nfeeds)})
				default:
					st := Step{Op: "fedit", B: r.Intn(nfeeds)}
					switch r.Intn(4) {
					case 0:
						st.C = 1 + r.Intn(2)
					case 1:
						st.N = int64(1 + r.Intn(3))
						st.M = st.N + int64(r.Intn(3))
					case 2:
						st.D, st.C = 1+r.Intn(3), 1+r.Intn(2)
					case 3:
						st.M = int64(1 + r.Intn(5))
					}
					h.Steps = append(h.Steps, st)
				}
				continue
			}
			if r.Chance(1, 6) {
				if !rreqThisBlock && (nrreq == 0 || r.Chance(1, 2)) {
					h.Steps = append(h.Steps, Step{Op: "rreq"})
					nrreq++
					rreqThisBlock = true
				} else if nrreq > 0 {
					h.Steps = append(h.Steps, Step{Op: "rrespond", B: nrreq - 1 - r.Intn(minInt(nrreq, 2)), G: r.Chance(1, 5)})
				}
				continue
			}
			st := Step{Op: "call", A: 0, N: int64(2 + r.Intn(4)), D: 1 + r.Intn(3)}
			if r.Chance(1, 6) {
				st.A = 1
			}
			if r.Chance(3, 5) {
				st.F = true
				st.M = st.N + int64(r.Intn(4))
				if r.Chance(1, 4) {
					st.M = 0 // default: the timeout
				}
				st.C = 1 + r.Intn(4)
				if r.Chance(1, 4) {
					st.C = -1
				}
			}
			switch r.Weighted(14, 2, 1, 1, 1, 1) {
			case 1:
				st.D |= 4 // a provider that cannot be priced
			case 2:
				st.N = 0
			case 3:
				st.N = 11 // above the maximum
			case 4:
				if st.F {
					st.M = st.N - 1
					if r.Chance(1, 2) {
						st.C = 0
					}
				}
			case 5:
				st.N = 1
			}
			h.Steps = append(h.Steps, st)
			if st.N >= 1 && st.N <= 10 && !(st.F && (st.M > 0 && st.M < st.N || st.C == 0)) {
				g := gc{consumer: st.A, provs: st.D, repeated: st.F, born: height, last: height + st.N}
				if st.F {
					f := st.M
					if f == 0 {
						f = st.N
					}
					if st.C < 0 {
						g.last = height + 1000
					} else {
						g.last = height + int64(st.C-1)*f + st.N
					}
				}
				cs = append(cs, g)
			}
		}
		h.Steps = append(h.Steps, Step{Op: "block", Dt: int64(1 + r.Intn(20))})
	}
	return h
}

func minInt(a, b int) int {
	if a < b {
		return a
	}
	return b
}

func execService(h History) lib.Case {
	var k servicekeeper.Keeper
	var ork oraclekeeper.Keeper
	bal := sdk.NewCoins(sdk.NewCoin("stake", sdkmath.NewInt(1000000000000)), sdk.NewCoin("other", sdkmath.NewInt(1000000000000)))
	e := lib.NewEnv(lib.EnvOpts{NActors: 5, Balances: bal, Consumers: []interface{}{&k, &ork}, Merge: serviceMerge(10)})
	c := lib.Case{Stats: map[string]int{}}
	setup := func(what string, out lib.Outcome) {
		if !out.OK() {
			c.Notes = append(c.Notes, "setup: "+what+": "+out.Err)
		}
	}
	author := e.Actors[2].String()
	setup("define", e.Deliver(servicetypes.NewMsgDefineService(svcName, "d", nil, author, "a", `{"input":{"type":"object"},"output":{"type":"object"}}`)))
	dep := sdk.NewCoins(sdk.NewCoin("stake", sdkmath.NewInt(1000000000)))
	setup("bind 2", e.Deliver(servicetypes.NewMsgBindService(svcName, e.Actors[2].String(), dep, `{"price":"2stake"}`, 1, "{}", e.Actors[2].String())))
	setup("bind 3", e.Deliver(servicetypes.NewMsgBindService(svcName, e.Actors[3].String(), dep, `{"price":"3stake"}`, 3, "{}", e.Actors[3].String())))
	setup("bind 4", e.Deliver(servicetypes.NewMsgBindService(svcName, e.Actors[4].String(), dep, `{"price":"0other"}`, 1, "{}", e.Actors[4].String())))
	// actor 1 keeps 7 stake: enough for one batch with both providers, not for two
	setup("drain", e.Try(func(ctx sdk.Context) error {
		b := e.App.BankKeeper.GetBalance(ctx, e.Actors[1], "stake")
		return e.App.BankKeeper.SendCoins(ctx, e.Actors[1], e.Actors[0], sdk.NewCoins(sdk.NewCoin("stake", b.Amount.SubRaw(7))))
	}))

	setup("bind random", e.Deliver(servicetypes.NewMsgBindService(randomtypes.ServiceName, e.Actors[2].String(),
		sdk.NewCoins(sdk.NewCoin("stake", sdkmath.NewInt(100000000))), `{"price":"2stake"}`, 1, "{}", e.Actors[2].String())))

	ids := lib.NewInterner()
	ids.Id("") // 0: none
	var created []string // ids (raw bytes) of the contexts made by MsgCallService
	var feeds []string   // feed names
	feedCtx := map[string]string{}
	var rreqs []string // contexts of the random module
	// the context a consumer message aims at: E = 1 a feed, E = 2 a random request (both refused), else a call
	target := func(st Step) string {
		switch {
		case st.E == 1 && len(feeds) > 0:
			return feedCtx[feeds[(st.B+len(feeds)*8)%len(feeds)]]
		case st.E == 2 && len(rreqs) > 0:
			return rreqs[(st.B+len(rreqs)*8)%len(rreqs)]
		case st.B >= 0 && st.B < len(created):
			return created[st.B]
		}
		return string(make([]byte, 40))
	}
	moduleCode := func(name string) int64 {
		switch name {
		case "":
			return 0
		case "oracle":
			return 1
		case randomtypes.ModuleName:
			return 2
		}
		return 9
	}
	readCtxs := func() map[string]servicetypes.RequestContext {
		m := map[string]servicetypes.RequestContext{}
		k.IterateRequestContexts(e.Ctx, func(id tmbytes.HexBytes, rc servicetypes.RequestContext) bool {
			m[string(id)] = rc
			return false
		})
		return m
	}
	readMarks := func(prefix []byte) []string {
		keys, vals := readKeys(e, servicetypes.StoreKey, prefix)
		var out []string
		for i, kk := range keys {
			var v gogotypes.Int64Value
			e.App.AppCodec().MustUnmarshal(vals[i], &v)
			out = append(out, lib.Pair(lib.Z(int64(ids.Id(kk))), lib.Z(v.Value)))
		}
		return out
	}
	observe := func(code int) string {
		var cs []string
		k.IterateRequestContexts(e.Ctx, func(id tmbytes.HexBytes, rc servicetypes.RequestContext) bool {
			outs := len(k.GetResponseOutputs(e.Ctx, id, rc.BatchCounter))
			cs = append(cs, lib.Pair(lib.Z(int64(ids.Id(string(id)))), lib.Pair(
				lib.Pair(lib.Z(int64(rc.State)), lib.B(rc.BatchState == servicetypes.BATCHCOMPLETED), lib.ZU(rc.BatchCounter)),
				lib.Pair(lib.Z(rc.Timeout), lib.ZU(rc.RepeatedFrequency), lib.Z(rc.RepeatedTotal)),
				lib.Pair(lib.Z(int64(rc.BatchRequestCount)), lib.Z(int64(rc.BatchResponseCount))),
				lib.Pair(lib.Z(moduleCode(rc.ModuleName)), lib.Z(int64(len(rc.Providers))), lib.Z(int64(rc.ResponseThreshold)),
					lib.Z(int64(rc.BatchResponseThreshold)), lib.Z(int64(outs))))))
			return false
		})
		var nq, xq []string
		for _, en := range readQueue(e, servicetypes.StoreKey, servicetypes.NewRequestBatchKey) {
			nq = append(nq, zz(en.Height, ids.Id(en.ID)))
		}
		for _, en := range readQueue(e, servicetypes.StoreKey, servicetypes.ExpiredRequestBatchKey) {
			xq = append(xq, zz(en.Height, ids.Id(en.ID)))
		}
		return lib.App("mkSObs", lib.Z(int64(code)), lib.Z(e.Height), lib.L(cs...), lib.L(nq...), lib.L(xq...),
			lib.L(readMarks(servicetypes.NewRequestBatchHeightKey)...), lib.L(readMarks(servicetypes.ExpiredRequestBatchHeightKey)...))
	}
	dueNow := func(id string) bool {
		for _, pf := range [][]byte{servicetypes.NewRequestBatchKey, servicetypes.ExpiredRequestBatchKey} {
			for _, en := range readQueue(e, servicetypes.StoreKey, pf) {
				if en.ID == id && (en.Height == e.Height || en.Height == e.Height+1) {
					return true
				}
			}
		}
		return false
	}
	// the request of the context's current batch that a provider can still answer
	activeRequest := func(raw string, prov sdk.AccAddress, anyProvider bool) (string, sdk.AccAddress) {
		reqID := strings.Repeat("00", 58)
		rc, ok := readCtxs()[raw]
		if !ok {
			return reqID, prov
		}
		k.IterateActiveRequests(e.Ctx, []byte(raw), rc.BatchCounter, func(rid tmbytes.HexBytes, rq servicetypes.Request) {
			if rq.Provider == prov.String() {
				reqID = rid.String()
			}
		})
		if reqID == strings.Repeat("00", 58) && anyProvider {
			k.IterateActiveRequests(e.Ctx, []byte(raw), rc.BatchCounter, func(rid tmbytes.HexBytes, rq servicetypes.Request) {
				reqID = rid.String()
				prov, _ = sdk.AccAddressFromBech32(rq.Provider)
			})
		}
		return reqID, prov
	}

	var terms []string
	nontrivial := false
	emit := func(term, text string) {
		terms = append(terms, term)
		c.Steps = append(c.Steps, text)
	}
	stat := func(op string, out lib.Outcome) {
		lib.Stat(c.Stats, "op:"+op)
		lib.Stat(c.Stats, "res:"+out.Kind)
	}
	for _, st := range h.Steps {
		switch st.Op {
		case "call":
			var provs []string
			for bit, a := range []int{2, 3, 4} {
				if st.D&(1<<bit) != 0 {
					provs = append(provs, e.Actors[a].String())
				}
			}
			msg := servicetypes.NewMsgCallService(svcName, provs, e.Actors[st.A].String(), `{"header":{},"body":{}}`,
				sdk.NewCoins(sdk.NewCoin("stake", sdkmath.NewInt(100))), st.N, st.F, uint64(st.M), int64(st.C))
			out := e.Deliver(msg)
			id := 0
			if out.OK() {
				raw, _ := hex.DecodeString(out.Resp.(*servicetypes.MsgCallServiceResponse).RequestContextId)
				created = append(created, string(raw))
				id = ids.Id(string(raw))
			} else {
				id = 100000 + len(terms)
			}
			stat("call", out)
			emit(lib.Pair(lib.App("Call", lib.Z(int64(id)), lib.Z(int64(st.A)), lib.Z(st.N), lib.B(st.F), lib.Z(st.M), lib.Z(int64(st.C)), lib.Z(int64(len(provs))), outcomeTerm(out.Code())), observe(out.Code())),
				fmt.Sprintf("call #%d by %d timeout=%d repeated=%v freq=%d total=%d providers=%d at %d -> %s %s", id, st.A, st.N, st.F, st.M, st.C, st.D, e.Height, out.Kind, out.Err))
		case "pause", "start", "kill":
			raw := target(st)
			if dueNow(raw) {
				nontrivial = true
			}
			hexid := strings.ToUpper(hex.EncodeToString([]byte(raw)))
			var msg sdk.Msg
			ctor := ""
			switch st.Op {
			case "pause":
				msg, ctor = servicetypes.NewMsgPauseRequestContext(hexid, e.Actors[st.A].String()), "Pause"
			case "start":
				msg, ctor = servicetypes.NewMsgStartRequestContext(hexid, e.Actors[st.A].String()), "Start"
			case "kill":
				msg, ctor = servicetypes.NewMsgKillRequestContext(hexid, e.Actors[st.A].String()), "Kill"
			}
			out := e.Deliver(msg)
			id := ids.Id(raw)
			stat(st.Op, out)
			emit(lib.Pair(lib.App(ctor, lib.Z(int64(id)), lib.Z(int64(st.A)), outcomeTerm(out.Code())), observe(out.Code())),
				fmt.Sprintf("%s #%d by %d at %d -> %s %s", st.Op, id, st.A, e.Height, out.Kind, out.Err))
		case "update":
			raw := target(st)
			if dueNow(raw) {
				nontrivial = true
			}
			hexid := strings.ToUpper(hex.EncodeToString([]byte(raw)))
			out := e.Deliver(servicetypes.NewMsgUpdateRequestContext(hexid, nil, nil, st.N, uint64(st.M), int64(st.C), e.Actors[st.A].String()))
			id := ids.Id(raw)
			stat("update", out)
			emit(lib.Pair(lib.App("Update", lib.Z(int64(id)), lib.Z(int64(st.A)), lib.Z(st.N), lib.Z(st.M), lib.Z(int64(st.C)), outcomeTerm(out.Code())), observe(out.Code())),
				fmt.Sprintf("update #%d by %d timeout=%d freq=%d total=%d at %d -> %s %s", id, st.A, st.N, st.M, st.C, e.Height, out.Kind, out.Err))
		case "respond":
			raw := target(Step{B: st.B})
			reqID, prov := activeRequest(raw, e.Actors[2+st.D%2], false)
			out := e.Deliver(servicetypes.NewMsgRespondService(reqID, prov.String(), `{"code":200,"message":""}`, `{"header":{},"body":{}}`))
			id := ids.Id(raw)
			stat("respond", out)
			emit(lib.Pair(lib.App("Respond", lib.Z(int64(id)), "true", "true", outcomeTerm(out.Code())), observe(out.Code())),
				fmt.Sprintf("respond #%d provider %d at %d -> %s %s", id, 2+st.D%2, e.Height, out.Kind, out.Err))
		case "feed":
			creator := e.Actors[0].String()
			name := fmt.Sprintf("feed%d", len(feeds))
			var provs []string
			for bit, a := range []int{2, 3} {
				if st.D&(1<<bit) != 0 {
					provs = append(provs, e.Actors[a].String())
				}
			}
			thr := st.C
			if thr > len(provs) {
				thr = len(provs)
			}
			out := e.Deliver(&oracletypes.MsgCreateFeed{FeedName: name, LatestHistory: 3, Description: "f", Creator: creator,
				ServiceName: svcName, Providers: provs, Input: `{"header":{},"body":{}}`, Timeout: st.N,
				ServiceFeeCap: sdk.NewCoins(sdk.NewCoin("stake", sdkmath.NewInt(100))), RepeatedFrequency: uint64(st.M),
				AggregateFunc: []string{"avg", "max", "min"}[len(feeds)%3], ValueJsonPath: "last", ResponseThreshold: uint32(thr)})
			id := 100000 + len(terms)
			raw := ""
			if out.OK() {
				feeds = append(feeds, name)
				if f, ok := ork.GetFeed(e.Ctx, name); ok {
					rb, _ := hex.DecodeString(f.RequestContextID)
					raw = string(rb)
					feedCtx[name] = raw
					id = ids.Id(raw)
				}
			}
			stat("feed", out)
			emit(lib.Pair(lib.App("CallM", lib.Z(int64(id)), "0", "1", lib.Z(st.N), "true", lib.Z(st.M), "(-1)", lib.Z(int64(thr)), lib.Z(int64(len(provs))), outcomeTerm(out.Code())), observe(out.Code())),
				fmt.Sprintf("create feed #%d timeout=%d freq=%d providers=%d threshold=%d at %d -> %s %s", id, st.N, st.M, len(provs), thr, e.Height, out.Kind, out.Err))
			if out.OK() {
				out = e.Deliver(&oracletypes.MsgStartFeed{FeedName: name, Creator: creator})
				stat("fstart", out)
				emit(lib.Pair(lib.App("MStart", lib.Z(int64(id)), "0", outcomeTerm(out.Code())), observe(out.Code())),
					fmt.Sprintf("start feed #%d at %d -> %s %s", id, e.Height, out.Kind, out.Err))
			}
		case "frespond":
			if len(feeds) == 0 {
				continue
			}
			raw := feedCtx[feeds[st.B%len(feeds)]]
			reqID, prov := activeRequest(raw, e.Actors[2+st.D%2], true)
			val := fmt.Sprintf("%d.5", st.E)
			if st.E == 0 {
				val = "not-a-number"
			}
			out := e.Deliver(servicetypes.NewMsgRespondService(reqID, prov.String(), `{"code":200,"message":""}`,
				fmt.Sprintf(`{"header":{},"body":{"last":"%s"}}`, val)))
			id := ids.Id(raw)
			stat("frespond", out)
			emit(lib.Pair(lib.App("Respond", lib.Z(int64(id)), "true", "true", outcomeTerm(out.Code())), observe(out.Code())),
				fmt.Sprintf("respond to feed #%d value %s at %d -> %s %s", id, val, e.Height, out.Kind, out.Err))
		case "fpause", "fstart":
			if len(feeds) == 0 {
				continue
			}
			name := feeds[st.B%len(feeds)]
			raw := feedCtx[name]
			if dueNow(raw) {
				nontrivial = true
			}
			var out lib.Outcome
			ctor := "MPause"
			if st.Op == "fpause" {
				out = e.Deliver(&oracletypes.MsgPauseFeed{FeedName: name, Creator: e.Actors[0].String()})
			} else {
				ctor = "MStart"
				out = e.Deliver(&oracletypes.MsgStartFeed{FeedName: name, Creator: e.Actors[0].String()})
			}
			id := ids.Id(raw)
			stat(st.Op, out)
			emit(lib.Pair(lib.App(ctor, lib.Z(int64(id)), "0", outcomeTerm(out.Code())), observe(out.Code())),
				fmt.Sprintf("%s feed #%d at %d -> %s %s", st.Op[1:], id, e.Height, out.Kind, out.Err))
		case "fedit":
			if len(feeds) == 0 {
				continue
			}
			name := feeds[st.B%len(feeds)]
			raw := feedCtx[name]
			if dueNow(raw) {
				nontrivial = true
			}
			var provs []string
			for bit, a := range []int{2, 3} {
				if st.D&(1<<bit) != 0 {
					provs = append(provs, e.Actors[a].String())
				}
			}
			out := e.Deliver(&oracletypes.MsgEditFeed{FeedName: name, Description: "do-not-modify", Providers: provs, Timeout: st.N,
				RepeatedFrequency: uint64(st.M), ResponseThreshold: uint32(st.C), Creator: e.Actors[0].String()})
			id := ids.Id(raw)
			stat("fedit", out)
			emit(lib.Pair(lib.App("MUpdate", lib.Z(int64(id)), "0", lib.Z(int64(st.C)), lib.Z(int64(len(provs))), lib.Z(st.N), lib.Z(st.M), outcomeTerm(out.Code())), observe(out.Code())),
				fmt.Sprintf("edit feed #%d threshold=%d providers=%d timeout=%d freq=%d at %d -> %s %s", id, st.C, len(provs), st.N, st.M, e.Height, out.Kind, out.Err))
		case "rreq":
			before := readCtxs()
			out := e.Deliver(randomtypes.NewMsgRequestRandom(e.Actors[0].String(), 1, true, sdk.NewCoins(sdk.NewCoin("stake", sdkmath.NewInt(10)))))
			id := 100000 + len(terms)
			if out.OK() {
				for raw, rc := range readCtxs() {
					if _, ok := before[raw]; !ok && rc.ModuleName == randomtypes.ModuleName {
						rreqs = append(rreqs, raw)
						id = ids.Id(raw)
					}
				}
			}
			stat("rreq", out)
			emit(lib.Pair(lib.App("CallM", lib.Z(int64(id)), "0", "2", "10", "false", "0", "0", "1", "1", outcomeTerm(out.Code())), observe(out.Code())),
				fmt.Sprintf("random oracle request #%d at %d -> %s %s", id, e.Height, out.Kind, out.Err))
		case "rrespond":
			if len(rreqs) == 0 {
				continue
			}
			raw := rreqs[st.B%len(rreqs)]
			reqID, prov := activeRequest(raw, e.Actors[2], true)
			seed := strings.Repeat("ab", 32)
			if st.G {
				seed = strings.Repeat("ab", 16) // decodes, wrong length: random's HandlerResponse dereferences a nil error
			}
			out := e.Deliver(servicetypes.NewMsgRespondService(reqID, prov.String(), `{"code":200,"message":""}`,
				fmt.Sprintf(`{"header":{},"body":{"seed":"%s"}}`, seed)))
			id := ids.Id(raw)
			stat("rrespond", out)
			emit(lib.Pair(lib.App("Respond", lib.Z(int64(id)), "true", lib.B(!st.G), outcomeTerm(out.Code())), observe(out.Code())),
				fmt.Sprintf("respond to random request #%d (bad seed: %v) at %d -> %s %s", id, st.G, e.Height, out.Kind, out.Err))
		case "block":
			// which providers pass the filter, per context, on the state before the blocker
			pre := readCtxs()
			nProv := map[string]int{}
			filterErr := 0
			for raw, rc := range pre {
				var provs []sdk.AccAddress
				for _, p := range rc.Providers {
					a, _ := sdk.AccAddressFromBech32(p)
					provs = append(provs, a)
				}
				consumer, _ := sdk.AccAddressFromBech32(rc.Consumer)
				cc, _ := e.Ctx.CacheContext()
				ps, _, _, err := k.FilterServiceProviders(cc, rc.ServiceName, provs, rc.Timeout, rc.ServiceFeeCap, consumer)
				if err != nil {
					filterErr++
					nProv[raw] = 0
				} else if len(ps) > 0 && len(ps) >= int(rc.ResponseThreshold) {
					nProv[raw] = len(ps)
				}
			}
			ndue := 0
			for _, pf := range [][]byte{servicetypes.NewRequestBatchKey, servicetypes.ExpiredRequestBatchKey} {
				for _, en := range readQueue(e, servicetypes.StoreKey, pf) {
					if en.Height == e.Height {
						ndue++
					}
				}
			}
			if ndue >= 2 {
				nontrivial = true
			}
			code, _, msg := runBlocker(e, "service", false)
			post := readCtxs()
			var res []string
			for raw, rc := range pre {
				id := ids.Id(raw)
				if p, ok := post[raw]; ok && rc.State == servicetypes.RUNNING && p.State == servicetypes.PAUSED {
					res = append(res, lib.Pair(lib.Z(int64(id)), "NBNoFunds"))
					lib.Stat(c.Stats, "batch:no-funds")
				} else {
					res = append(res, lib.Pair(lib.Z(int64(id)), lib.App("NBStart", lib.Z(int64(nProv[raw])))))
				}
			}
			openBlock(e, st.Dt)
			runBlocker(e, "service", true)
			lib.Stat(c.Stats, "op:block")
			if filterErr > 0 {
				lib.Stat(c.Stats, "filter:no-exchange-rate")
			}
			text := fmt.Sprintf("end-block %d: %d due, %d contexts", e.Height-1, ndue, len(post))
			if code != 0 {
				lib.Stat(c.Stats, "blocker:abort")
				text = fmt.Sprintf("end-block %d ABORT %s", e.Height-1, msg)
			}
			emit(lib.Pair(lib.App("EndBlock", lib.L(res...)), observe(code)), text)
			// random's begin blocker starts the oracle requests that fell due in the previous block
			var starting []string
			for _, en := range readQueue(e, randomtypes.StoreKey, randomtypes.RandomRequestQueueKey) {
				if en.Height != e.Height-1 {
					continue
				}
				var req randomtypes.Request
				e.App.AppCodec().MustUnmarshal(en.Value, &req)
				if req.Oracle {
					rb, _ := hex.DecodeString(req.ServiceContextID)
					starting = append(starting, string(rb))
				}
			}
			bcode, _, bmsg := runBlocker(e, "random", true)
			if bcode != 0 {
				c.Notes = append(c.Notes, "random begin-blocker aborted in the service stream: "+bmsg)
			}
			if len(starting) > 1 {
				c.Notes = append(c.Notes, "more than one random oracle request started in one block (generator bug)")
			}
			for _, raw := range starting {
				oc := 1
				if rc, ok := readCtxs()[raw]; ok && rc.State == servicetypes.RUNNING {
					oc = 0
				}
				lib.Stat(c.Stats, "op:rstart")
				emit(lib.Pair(lib.App("MStart", lib.Z(int64(ids.Id(raw))), "0", outcomeTerm(oc)), observe(oc)),
					fmt.Sprintf("random begin-block %d starts #%d -> %d", e.Height, ids.Id(raw), oc))
			}
		default:
			panic("service: unknown op " + st.Op)
		}
	}
	c.Coq = lib.Pair("1", lib.L(terms...))
	c.NonTrivial = nontrivial
	return c
}
