// A small extractor for the text of proto/irismod/**/*.proto (there is no protoc / buf / Go
// .proto parser in this sandbox).  It understands the proto3 subset used in the repository:
// syntax, package, import, option, message { field | map field | option | reserved | nested },
// enum { value | option }, service { option | rpc }.  Comments are stripped, the rest is
// tokenised; anything it does not understand is a translator error (never guessed).
//
// Output: the rows of Proto/Desc.v's [srow] table in the order [desc_rows] produces them from
// descriptors (per file: messages with their signer options and fields, then enums, then
// services), so that the comparison in Coq is a plain equality of lists.
package main

import (
	"encoding/hex"
	"fmt"
	"os"
	"path/filepath"
	"sort"
	"strconv"
	"strings"
	"unicode"

	"google.golang.org/protobuf/types/descriptorpb"
)

// srcOpt is one option as written: NAME is `(pkg.ext)` or a built-in name; a value written as an
// aggregate `{...}` or addressed through a sub-field (`(google.api.http).get = ...`) is message
// valued: only its presence is compared.
type srcOpt struct {
	Name string
	Val  string
	Agg  bool
}

type srcField struct {
	Opts []srcOpt
	Name string
	Num  int
	Type string // scalar keyword or unresolved type reference
	Rep  bool
	Map  *[2]string // key, value type for map fields
}

type srcMsg struct {
	Opts    []srcOpt
	Full    string
	Signers []string
	Fields  []srcField
	Nested  []*srcMsg
	Enums   []*srcEnum
}

type srcEnumVal struct {
	Name string
	Num  int
	Opts []srcOpt
}
type srcEnum struct {
	Opts   []srcOpt
	Full   string
	Values []srcEnumVal
}
type srcMethod struct {
	Name, In, Out string
	CS, SS        bool
	Opts          []srcOpt
}
type srcSvc struct {
	Opts    []srcOpt
	Full    string
	MsgSvc  bool
	Methods []srcMethod
}
type srcFile struct {
	Name      string
	Pkg       string
	GoPackage bool
	Msgs      []*srcMsg
	Enums     []*srcEnum
	Svcs      []*srcSvc
}

func tokenize(src string) []string {
	var toks []string
	i := 0
	n := len(src)
	for i < n {
		c := src[i]
		switch {
		case c == '/' && i+1 < n && src[i+1] == '/':
			for i < n && src[i] != '\n' {
				i++
			}
		case c == '/' && i+1 < n && src[i+1] == '*':
			j := strings.Index(src[i+2:], "*/")
			if j < 0 {
				i = n
			} else {
				i += j + 4
			}
		case c == '"' || c == '\'':
			j := i + 1
			for j < n && src[j] != c {
				if src[j] == '\\' {
					j++
				}
				j++
			}
			toks = append(toks, src[i:j+1])
			i = j + 1
		case unicode.IsSpace(rune(c)):
			i++
		case c == '_' || c == '.' || unicode.IsLetter(rune(c)) || unicode.IsDigit(rune(c)) || c == '-':
			j := i
			for j < n && (src[j] == '_' || src[j] == '.' || src[j] == '-' || unicode.IsLetter(rune(src[j])) || unicode.IsDigit(rune(src[j]))) {
				j++
			}
			toks = append(toks, src[i:j])
			i = j
		default:
			toks = append(toks, string(c))
			i++
		}
	}
	return toks
}

type parser struct {
	toks []string
	pos  int
	file string
}

func (p *parser) peek() string {
	if p.pos < len(p.toks) {
		return p.toks[p.pos]
	}
	return ""
}
func (p *parser) next() string {
	t := p.peek()
	p.pos++
	return t
}
func (p *parser) expect(t string) {
	if g := p.next(); g != t {
		panic(fmt.Sprintf("%s: expected %q, got %q (token %d)", p.file, t, g, p.pos))
	}
}

// skipBalanced skips a bracketed group starting at the current token (which must be open).
func (p *parser) skipBalanced(open, close string) {
	p.expect(open)
	depth := 1
	for depth > 0 {
		t := p.next()
		if t == "" {
			panic(p.file + ": unbalanced " + open)
		}
		if t == open {
			depth++
		} else if t == close {
			depth--
		}
	}
}

// option statement: `option NAME = VALUE ;` where NAME may be `(ext.name)` possibly followed by
// `.sub`, VALUE a constant or an aggregate `{ ... }`.  Returns name and value text.
func (p *parser) option() (string, string) {
	o := p.optionStmt()
	return o.Name, o.Val
}

func (p *parser) optionStmt() srcOpt {
	p.expect("option")
	o := p.optAssign()
	p.expect(";")
	return o
}

// optAssign parses `NAME = VALUE`.
func (p *parser) optAssign() srcOpt {
	o := srcOpt{}
	if p.peek() == "(" {
		p.next()
		o.Name = "(" + p.next() + ")"
		p.expect(")")
		for strings.HasPrefix(p.peek(), ".") {
			p.next() // a sub-field of a message-valued option
			o.Agg = true
		}
	} else {
		o.Name = p.next()
	}
	p.expect("=")
	if p.peek() == "{" {
		start := p.pos
		p.skipBalanced("{", "}")
		o.Val = strings.Join(p.toks[start:p.pos], " ")
		o.Agg = true
	} else {
		o.Val = p.next()
		// adjacent string literals are concatenated
		for isStr(o.Val) && isStr(p.peek()) {
			t := p.next()
			o.Val = `"` + unquote(o.Val) + unquote(t) + `"`
		}
	}
	return o
}

// bracketOpts parses `[ NAME = VALUE, ... ]` after a field or enum value.
func (p *parser) bracketOpts() []srcOpt {
	var out []srcOpt
	p.expect("[")
	for {
		out = append(out, p.optAssign())
		if p.peek() == "," {
			p.next()
			continue
		}
		break
	}
	p.expect("]")
	return out
}

func isStr(t string) bool { return len(t) >= 2 && (t[0] == '"' || t[0] == '\'') }

func unquote(s string) string {
	if len(s) >= 2 && (s[0] == '"' || s[0] == '\'') {
		return s[1 : len(s)-1]
	}
	return s
}

func (p *parser) message(prefix string) *srcMsg {
	p.expect("message")
	m := &srcMsg{Full: prefix + p.next()}
	p.expect("{")
	for p.peek() != "}" {
		switch t := p.peek(); t {
		case "":
			panic(p.file + ": unterminated message " + m.Full)
		case ";":
			p.next()
		case "option":
			o := p.optionStmt()
			m.Opts = append(m.Opts, o)
			if o.Name == "(cosmos.msg.v1.signer)" {
				m.Signers = append(m.Signers, unquote(o.Val))
			}
		case "message":
			m.Nested = append(m.Nested, p.message(m.Full+"."))
		case "enum":
			m.Enums = append(m.Enums, p.enum(m.Full+"."))
		case "reserved", "extensions":
			for p.next() != ";" {
			}
		case "oneof", "extend", "group":
			panic(p.file + ": unsupported construct " + t + " in " + m.Full)
		default:
			f := srcField{}
			if t == "repeated" {
				f.Rep = true
				p.next()
			} else if t == "optional" || t == "required" {
				panic(p.file + ": unsupported label " + t + " in " + m.Full)
			}
			if p.peek() == "map" {
				p.next()
				p.expect("<")
				k := p.next()
				p.expect(",")
				v := p.next()
				p.expect(">")
				f.Map = &[2]string{k, v}
			} else {
				f.Type = p.next()
			}
			f.Name = p.next()
			p.expect("=")
			num, err := strconv.Atoi(p.next())
			if err != nil {
				panic(fmt.Sprintf("%s: field number of %s.%s: %v", p.file, m.Full, f.Name, err))
			}
			f.Num = num
			if p.peek() == "[" {
				f.Opts = p.bracketOpts()
			}
			p.expect(";")
			m.Fields = append(m.Fields, f)
		}
	}
	p.expect("}")
	return m
}

func (p *parser) enum(prefix string) *srcEnum {
	p.expect("enum")
	e := &srcEnum{Full: prefix + p.next()}
	p.expect("{")
	for p.peek() != "}" {
		switch p.peek() {
		case "":
			panic(p.file + ": unterminated enum")
		case ";":
			p.next()
		case "option":
			e.Opts = append(e.Opts, p.optionStmt())
		case "reserved":
			for p.next() != ";" {
			}
		default:
			name := p.next()
			p.expect("=")
			num, err := strconv.Atoi(p.next())
			if err != nil {
				panic(fmt.Sprintf("%s: enum value %s: %v", p.file, name, err))
			}
			var os []srcOpt
			if p.peek() == "[" {
				os = p.bracketOpts()
			}
			p.expect(";")
			e.Values = append(e.Values, srcEnumVal{name, num, os})
		}
	}
	p.expect("}")
	return e
}

func (p *parser) service(prefix string) *srcSvc {
	p.expect("service")
	s := &srcSvc{Full: prefix + p.next()}
	p.expect("{")
	for p.peek() != "}" {
		switch p.peek() {
		case "":
			panic(p.file + ": unterminated service")
		case ";":
			p.next()
		case "option":
			o := p.optionStmt()
			s.Opts = append(s.Opts, o)
			if o.Name == "(cosmos.msg.v1.service)" && o.Val == "true" {
				s.MsgSvc = true
			}
		case "rpc":
			p.next()
			md := srcMethod{Name: p.next()}
			p.expect("(")
			if p.peek() == "stream" {
				md.CS = true
				p.next()
			}
			md.In = p.next()
			p.expect(")")
			p.expect("returns")
			p.expect("(")
			if p.peek() == "stream" {
				md.SS = true
				p.next()
			}
			md.Out = p.next()
			p.expect(")")
			if p.peek() == "{" {
				p.next()
				for p.peek() != "}" {
					switch p.peek() {
					case ";":
						p.next()
					case "option":
						md.Opts = append(md.Opts, p.optionStmt())
					default:
						panic(p.file + ": unexpected token in rpc body: " + p.peek())
					}
				}
				p.expect("}")
				if p.peek() == ";" {
					p.next()
				}
			} else {
				p.expect(";")
			}
			s.Methods = append(s.Methods, md)
		default:
			panic(p.file + ": unexpected token in service: " + p.peek())
		}
	}
	p.expect("}")
	return s
}

func parseProto(name, text string) *srcFile {
	p := &parser{toks: tokenize(text), file: name}
	f := &srcFile{Name: name}
	prefix := func() string {
		if f.Pkg == "" {
			return ""
		}
		return f.Pkg + "."
	}
	for p.peek() != "" {
		switch p.peek() {
		case ";":
			p.next()
		case "syntax":
			p.next()
			p.expect("=")
			if s := unquote(p.next()); s != "proto3" {
				panic(name + ": syntax " + s + " is outside the supported subset")
			}
			p.expect(";")
		case "package":
			p.next()
			f.Pkg = p.next()
			p.expect(";")
		case "import":
			p.next()
			if p.peek() == "public" || p.peek() == "weak" {
				p.next()
			}
			p.next()
			p.expect(";")
		case "option":
			n, _ := p.option()
			if n == "go_package" {
				f.GoPackage = true
			}
		case "message":
			f.Msgs = append(f.Msgs, p.message(prefix()))
		case "enum":
			f.Enums = append(f.Enums, p.enum(prefix()))
		case "service":
			f.Svcs = append(f.Svcs, p.service(prefix()))
		default:
			panic(name + ": unexpected top-level token " + p.peek())
		}
	}
	return f
}

var scalarKinds = map[string]bool{"double": true, "float": true, "int64": true, "uint64": true, "int32": true, "fixed64": true,
	"fixed32": true, "bool": true, "string": true, "bytes": true, "uint32": true, "sfixed32": true, "sfixed64": true, "sint32": true, "sint64": true}

func camel(s string) string {
	// protoc's map entry name: CamelCase of the field name + "Entry"
	out := ""
	up := true
	for _, c := range s {
		if c == '_' {
			up = true
			continue
		}
		if up {
			out += strings.ToUpper(string(c))
			up = false
		} else {
			out += string(c)
		}
	}
	return out
}

// readSources parses every .proto file under root/irismod.
func readSources(root string) []*srcFile {
	var names []string
	_ = filepath.Walk(filepath.Join(root, "irismod"), func(p string, info os.FileInfo, err error) error {
		if err == nil && !info.IsDir() && strings.HasSuffix(p, ".proto") {
			rel, _ := filepath.Rel(root, p)
			names = append(names, filepath.ToSlash(rel))
		}
		return nil
	})
	sort.Strings(names)
	var out []*srcFile
	for _, n := range names {
		bz, err := os.ReadFile(filepath.Join(root, n))
		if err != nil {
			panic(err)
		}
		out = append(out, parseProto(n, string(bz)))
	}
	return out
}

// ---- options: names as written in the .proto text -> (extension number, type) ----

type extInfo struct {
	Num  int32
	Type int32 // descriptorpb.FieldDescriptorProto_Type
}

// optTable maps an options message (".google.protobuf.FieldOptions", ...) and an option name as
// written (`(gogoproto.nullable)`, `deprecated`) to the field/extension number and type.  It is
// read from the file descriptors both registries hold (gogo.proto, cosmos.proto, msg.proto,
// amino.proto, annotations.proto, ..., and descriptor.proto for the built-in options), never
// from a hand-written list.
func optTable() map[string]map[string]extInfo {
	t := map[string]map[string]extInfo{}
	put := func(extendee, name string, e extInfo) {
		if t[extendee] == nil {
			t[extendee] = map[string]extInfo{}
		}
		if old, ok := t[extendee][name]; ok && old != e {
			panic(fmt.Sprintf("option %s of %s is declared with two numbers/types: %v and %v", name, extendee, old, e))
		}
		t[extendee][name] = e
	}
	for _, all := range []map[string]*descriptorpb.FileDescriptorProto{gogoFDs(), pulsarFDs()} {
		for _, fd := range all {
			pkg := fd.GetPackage()
			for _, x := range fd.Extension {
				put(x.GetExtendee(), "("+pkg+"."+x.GetName()+")", extInfo{x.GetNumber(), int32(x.GetType())})
			}
			if fd.GetName() == "google/protobuf/descriptor.proto" {
				for _, m := range fd.MessageType {
					if strings.HasSuffix(m.GetName(), "Options") {
						for _, f := range m.Field {
							put(".google.protobuf."+m.GetName(), f.GetName(), extInfo{f.GetNumber(), int32(f.GetType())})
						}
					}
				}
			}
		}
	}
	return t
}

// aggregateOpts lists, per kind of declaration, the option numbers whose value is a message
// (compared by presence only).
func aggregateOpts() [][2]string {
	kinds := map[string]string{".google.protobuf.MessageOptions": "msg", ".google.protobuf.FieldOptions": "field",
		".google.protobuf.EnumOptions": "enum", ".google.protobuf.EnumValueOptions": "enumval",
		".google.protobuf.ServiceOptions": "svc", ".google.protobuf.MethodOptions": "method"}
	var out [][2]string
	for ext, m := range optTable() {
		k, ok := kinds[ext]
		if !ok {
			continue
		}
		for _, e := range m {
			if e.Type == 11 {
				out = append(out, [2]string{k, strconv.Itoa(int(e.Num))})
			}
		}
	}
	sort.Slice(out, func(i, j int) bool {
		if out[i][0] != out[j][0] {
			return out[i][0] < out[j][0]
		}
		a, _ := strconv.Atoi(out[i][1])
		b, _ := strconv.Atoi(out[j][1])
		return a < b
	})
	return out
}

// unescape interprets the escapes of a .proto string literal body.
func unescape(s string) string {
	var b []byte
	for i := 0; i < len(s); i++ {
		c := s[i]
		if c != '\\' || i+1 >= len(s) {
			b = append(b, c)
			continue
		}
		i++
		switch s[i] {
		case 'n':
			b = append(b, '\n')
		case 't':
			b = append(b, '\t')
		case 'r':
			b = append(b, '\r')
		case '\\', '"', '\'', '?':
			b = append(b, s[i])
		case 'x', 'X':
			j := i + 1
			for j < len(s) && j < i+3 && strings.ContainsRune("0123456789abcdefABCDEF", rune(s[j])) {
				j++
			}
			n, err := strconv.ParseUint(s[i+1:j], 16, 8)
			if err != nil {
				panic("source extractor: bad \\x escape in " + s)
			}
			b = append(b, byte(n))
			i = j - 1
		default:
			if s[i] >= '0' && s[i] <= '7' {
				j := i
				for j < len(s) && j < i+3 && s[j] >= '0' && s[j] <= '7' {
					j++
				}
				n, _ := strconv.ParseUint(s[i:j], 8, 16)
				b = append(b, byte(n))
				i = j - 1
			} else {
				panic("source extractor: unsupported escape in string literal " + s)
			}
		}
	}
	return string(b)
}

var optTab map[string]map[string]extInfo

// optRows renders the options of one declaration as ROpt rows, sorted by option number (stable),
// in the wire form the descriptors carry them: bool -> varint 0/1, string -> bytes, integer ->
// varint; message-valued options by presence only.
func optRows(owner, extendee string, opts []srcOpt) []string {
	if optTab == nil {
		optTab = optTable()
	}
	type row struct {
		num int32
		txt string
	}
	var rows []row
	for _, o := range opts {
		e, ok := optTab[extendee][o.Name]
		if !ok {
			panic(fmt.Sprintf("source extractor: option %s of %s is not declared by any linked .proto file (owner %s)", o.Name, extendee, owner))
		}
		wt, hx := 2, ""
		switch {
		case o.Agg || e.Type == 11:
			if e.Type != 11 {
				panic(fmt.Sprintf("source extractor: aggregate value for scalar option %s (%s)", o.Name, owner))
			}
		case e.Type == 8:
			wt = 0
			switch o.Val {
			case "true":
				hx = "01"
			case "false":
				hx = "00"
			default:
				panic(fmt.Sprintf("source extractor: option %s (%s): %q is not a bool", o.Name, owner, o.Val))
			}
		case e.Type == 9 || e.Type == 12:
			if len(o.Val) < 2 || (o.Val[0] != '"' && o.Val[0] != '\'') {
				panic(fmt.Sprintf("source extractor: option %s (%s): %q is not a string literal", o.Name, owner, o.Val))
			}
			hx = hex.EncodeToString([]byte(unescape(unquote(o.Val))))
		case e.Type == 3 || e.Type == 4 || e.Type == 5 || e.Type == 13:
			n, err := strconv.ParseInt(o.Val, 0, 64)
			if err != nil {
				panic(fmt.Sprintf("source extractor: option %s (%s): %q is not an integer", o.Name, owner, o.Val))
			}
			wt = 0
			hx = hex.EncodeToString(appendVarint(nil, uint64(n)))
		default:
			panic(fmt.Sprintf("source extractor: option %s (%s) has a type outside the supported subset (%d)", o.Name, owner, e.Type))
		}
		rows = append(rows, row{e.Num, fmt.Sprintf("ROpt %s %d %d %s", coqStr(owner), e.Num, wt, coqStr(hx))})
	}
	sort.SliceStable(rows, func(i, j int) bool { return rows[i].num < rows[j].num })
	var out []string
	for _, r := range rows {
		out = append(out, r.txt)
	}
	return out
}

// sourceRows renders the srow table.
func sourceRows(files []*srcFile) []string {
	declared := map[string]bool{}
	var decl func(m *srcMsg)
	decl = func(m *srcMsg) {
		declared[m.Full] = true
		for _, e := range m.Enums {
			declared[e.Full] = true
		}
		for _, n := range m.Nested {
			decl(n)
		}
	}
	for _, f := range files {
		for _, m := range f.Msgs {
			decl(m)
		}
		for _, e := range f.Enums {
			declared[e.Full] = true
		}
	}
	// protobuf name resolution: innermost scope outwards; a name that is not declared under
	// proto/irismod must be a fully qualified external one (cosmos.*, google.protobuf.*)
	resolve := func(scope, t string) string {
		if scalarKinds[t] {
			return t
		}
		if strings.HasPrefix(t, ".") {
			return t
		}
		first := strings.SplitN(t, ".", 2)[0]
		sc := scope
		for {
			cand := t
			if sc != "" {
				cand = sc + "." + t
			}
			// the first component decides the scope (protoc rule), then the whole name must exist
			fc := first
			if sc != "" {
				fc = sc + "." + first
			}
			if declared[cand] {
				return "." + cand
			}
			_ = fc
			if sc == "" {
				break
			}
			if i := strings.LastIndex(sc, "."); i >= 0 {
				sc = sc[:i]
			} else {
				sc = ""
			}
		}
		if !strings.Contains(t, ".") {
			panic("source extractor: unresolved type " + t + " in scope " + scope)
		}
		return "." + t
	}
	var rows []string
	q := func(s string) string { return coqStr(s) }
	var emitMsg func(fn string, m *srcMsg)
	emitMsg = func(fn string, m *srcMsg) {
		rows = append(rows, fmt.Sprintf("RMsg %s %s", q(fn), q(m.Full)))
		for _, s := range m.Signers {
			rows = append(rows, fmt.Sprintf("RSigner %s %s", q(m.Full), q(s)))
		}
		rows = append(rows, optRows("msg "+m.Full, ".google.protobuf.MessageOptions", m.Opts)...)
		var entries []*srcMsg
		for _, f := range m.Fields {
			ty := f.Type
			rep := f.Rep
			if f.Map != nil {
				en := &srcMsg{Full: m.Full + "." + camel(f.Name) + "Entry"}
				en.Fields = []srcField{{Name: "key", Num: 1, Type: f.Map[0]}, {Name: "value", Num: 2, Type: f.Map[1]}}
				entries = append(entries, en)
				declared[en.Full] = true
				ty = "." + en.Full
				rep = true
			} else {
				ty = resolve(m.Full, ty)
			}
			rows = append(rows, fmt.Sprintf("RField %s %s %d %s %s", q(m.Full), q(f.Name), f.Num, q(ty), coqBool(rep)))
			rows = append(rows, optRows("field "+m.Full+"."+f.Name, ".google.protobuf.FieldOptions", f.Opts)...)
		}
		// descriptor order of nested types: declared nested messages and map entries in order of
		// appearance; the repository declares no nested messages, so entries follow directly
		for _, n := range m.Nested {
			emitMsg(fn, n)
		}
		for _, en := range entries {
			// entry fields resolve in the scope of the parent message
			rows = append(rows, fmt.Sprintf("RMsg %s %s", q(fn), q(en.Full)))
			// protoc marks the synthesised entry message with the built-in option map_entry = true
			rows = append(rows, optRows("msg "+en.Full, ".google.protobuf.MessageOptions", []srcOpt{{Name: "map_entry", Val: "true"}})...)
			for _, f := range en.Fields {
				rows = append(rows, fmt.Sprintf("RField %s %s %d %s false", q(en.Full), q(f.Name), f.Num, q(resolve(m.Full, f.Type))))
			}
		}
	}
	for _, f := range files {
		rows = append(rows, fmt.Sprintf("RFile %s %s", q(f.Name), q(f.Pkg)))
		for _, m := range f.Msgs {
			emitMsg(f.Name, m)
		}
		var enums []*srcEnum
		var coll func(m *srcMsg)
		coll = func(m *srcMsg) {
			enums = append(enums, m.Enums...)
			for _, n := range m.Nested {
				coll(n)
			}
		}
		for _, m := range f.Msgs {
			coll(m)
		}
		enums = append(enums, f.Enums...)
		for _, e := range enums {
			rows = append(rows, fmt.Sprintf("REnum %s %s", q(f.Name), q(e.Full)))
			rows = append(rows, optRows("enum "+e.Full, ".google.protobuf.EnumOptions", e.Opts)...)
			for _, v := range e.Values {
				rows = append(rows, fmt.Sprintf("REnumVal %s %s %s", q(e.Full), q(v.Name), coqZ(int64(v.Num))))
				rows = append(rows, optRows("enumval "+e.Full+"."+v.Name, ".google.protobuf.EnumValueOptions", v.Opts)...)
			}
		}
		for _, s := range f.Svcs {
			rows = append(rows, fmt.Sprintf("RSvc %s %s %s", q(f.Name), q(s.Full), coqBool(s.MsgSvc)))
			rows = append(rows, optRows("svc "+s.Full, ".google.protobuf.ServiceOptions", s.Opts)...)
			for _, md := range s.Methods {
				rows = append(rows, fmt.Sprintf("RMethod %s %s %s %s %s %s", q(s.Full), q(md.Name), q(resolve(s.Full, md.In)), q(resolve(s.Full, md.Out)), coqBool(md.CS), coqBool(md.SS)))
				rows = append(rows, optRows("method "+s.Full+"."+md.Name, ".google.protobuf.MethodOptions", md.Opts)...)
			}
		}
	}
	return rows
}
