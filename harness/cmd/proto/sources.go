// A small extractor for the text of proto/irismod/**/*.proto (there is no protoc / buf / Go
// .proto parser in this sandbox).  It understands the proto3 subset used in the repository:
// syntax, package, import, option, message { field | map field | option | reserved | nested },
// enum { value | option }, service { option | rpc }.  Comments are stripped, the rest is
// tokenised; anything it does not understand is a translator error (never guessed).
//
// Output: the rows of Proto/Desc.v's [srow] table in the order [desc_rows] produces them from
// descriptors (per file: messages with their signer options and fields, then enums, then
// services), so that the comparison in Coq is a plain equality of lists.
package main

import (
	"fmt"
	"os"
	"path/filepath"
	"sort"
	"strconv"
	"strings"
	"unicode"
)

type srcField struct {
	Name string
	Num  int
	Type string // scalar keyword or unresolved type reference
	Rep  bool
	Map  *[2]string // key, value type for map fields
}

type srcMsg struct {
	Full    string
	Signers []string
	Fields  []srcField
	Nested  []*srcMsg
	Enums   []*srcEnum
}

type srcEnumVal struct {
	Name string
	Num  int
}
type srcEnum struct {
	Full   string
	Values []srcEnumVal
}
type srcMethod struct {
	Name, In, Out string
	CS, SS        bool
}
type srcSvc struct {
	Full    string
	MsgSvc  bool
	Methods []srcMethod
}
type srcFile struct {
	Name      string
	Pkg       string
	GoPackage bool
	Msgs      []*srcMsg
	Enums     []*srcEnum
	Svcs      []*srcSvc
}

func tokenize(src string) []string {
	var toks []string
	i := 0
	n := len(src)
	for i < n {
		c := src[i]
		switch {
		case c == '/' && i+1 < n && src[i+1] == '/':
			for i < n && src[i] != '\n' {
				i++
			}
		case c == '/' && i+1 < n && src[i+1] == '*':
			j := strings.Index(src[i+2:], "*/")
			if j < 0 {
				i = n
			} else {
				i += j + 4
			}
		case c == '"' || c == '\'':
			j := i + 1
			for j < n && src[j] != c {
				if src[j] == '\\' {
					j++
				}
				j++
			}
			toks = append(toks, src[i:j+1])
			i = j + 1
		case unicode.IsSpace(rune(c)):
			i++
		case c == '_' || c == '.' || unicode.IsLetter(rune(c)) || unicode.IsDigit(rune(c)) || c == '-':
			j := i
			for j < n && (src[j] == '_' || src[j] == '.' || src[j] == '-' || unicode.IsLetter(rune(src[j])) || unicode.IsDigit(rune(src[j]))) {
				j++
			}
			toks = append(toks, src[i:j])
			i = j
		default:
			toks = append(toks, string(c))
			i++
		}
	}
	return toks
}

type parser struct {
	toks []string
	pos  int
	file string
}

func (p *parser) peek() string {
	if p.pos < len(p.toks) {
		return p.toks[p.pos]
	}
	return ""
}
func (p *parser) next() string {
	t := p.peek()
	p.pos++
	return t
}
func (p *parser) expect(t string) {
	if g := p.next(); g != t {
		panic(fmt.Sprintf("%s: expected %q, got %q (token %d)", p.file, t, g, p.pos))
	}
}

// skipBalanced skips a bracketed group starting at the current token (which must be open).
func (p *parser) skipBalanced(open, close string) {
	p.expect(open)
	depth := 1
	for depth > 0 {
		t := p.next()
		if t == "" {
			panic(p.file + ": unbalanced " + open)
		}
		if t == open {
			depth++
		} else if t == close {
			depth--
		}
	}
}

// option statement: `option NAME = VALUE ;` where NAME may be `(ext.name)` possibly followed by
// `.sub`, VALUE a constant or an aggregate `{ ... }`.  Returns name and value text.
func (p *parser) option() (string, string) {
	p.expect("option")
	name := ""
	if p.peek() == "(" {
		p.next()
		name = "(" + p.next() + ")"
		p.expect(")")
		for strings.HasPrefix(p.peek(), ".") {
			name += p.next()
		}
	} else {
		name = p.next()
	}
	p.expect("=")
	val := ""
	if p.peek() == "{" {
		start := p.pos
		p.skipBalanced("{", "}")
		val = strings.Join(p.toks[start:p.pos], " ")
	} else {
		val = p.next()
	}
	p.expect(";")
	return name, val
}

func unquote(s string) string {
	if len(s) >= 2 && (s[0] == '"' || s[0] == '\'') {
		return s[1 : len(s)-1]
	}
	return s
}

func (p *parser) message(prefix string) *srcMsg {
	p.expect("message")
	m := &srcMsg{Full: prefix + p.next()}
	p.expect("{")
	for p.peek() != "}" {
		switch t := p.peek(); t {
		case "":
			panic(p.file + ": unterminated message " + m.Full)
		case ";":
			p.next()
		case "option":
			name, val := p.option()
			if name == "(cosmos.msg.v1.signer)" {
				m.Signers = append(m.Signers, unquote(val))
			}
		case "message":
			m.Nested = append(m.Nested, p.message(m.Full+"."))
		case "enum":
			m.Enums = append(m.Enums, p.enum(m.Full+"."))
		case "reserved", "extensions":
			for p.next() != ";" {
			}
		case "oneof", "extend", "group":
			panic(p.file + ": unsupported construct " + t + " in " + m.Full)
		default:
			f := srcField{}
			if t == "repeated" {
				f.Rep = true
				p.next()
			} else if t == "optional" || t == "required" {
				panic(p.file + ": unsupported label " + t + " in " + m.Full)
			}
			if p.peek() == "map" {
				p.next()
				p.expect("<")
				k := p.next()
				p.expect(",")
				v := p.next()
				p.expect(">")
				f.Map = &[2]string{k, v}
			} else {
				f.Type = p.next()
			}
			f.Name = p.next()
			p.expect("=")
			num, err := strconv.Atoi(p.next())
			if err != nil {
				panic(fmt.Sprintf("%s: field number of %s.%s: %v", p.file, m.Full, f.Name, err))
			}
			f.Num = num
			if p.peek() == "[" {
				p.skipBalanced("[", "]")
			}
			p.expect(";")
			m.Fields = append(m.Fields, f)
		}
	}
	p.expect("}")
	return m
}

func (p *parser) enum(prefix string) *srcEnum {
	p.expect("enum")
	e := &srcEnum{Full: prefix + p.next()}
	p.expect("{")
	for p.peek() != "}" {
		switch p.peek() {
		case "":
			panic(p.file + ": unterminated enum")
		case ";":
			p.next()
		case "option":
			p.option()
		case "reserved":
			for p.next() != ";" {
			}
		default:
			name := p.next()
			p.expect("=")
			num, err := strconv.Atoi(p.next())
			if err != nil {
				panic(fmt.Sprintf("%s: enum value %s: %v", p.file, name, err))
			}
			if p.peek() == "[" {
				p.skipBalanced("[", "]")
			}
			p.expect(";")
			e.Values = append(e.Values, srcEnumVal{name, num})
		}
	}
	p.expect("}")
	return e
}

func (p *parser) service(prefix string) *srcSvc {
	p.expect("service")
	s := &srcSvc{Full: prefix + p.next()}
	p.expect("{")
	for p.peek() != "}" {
		switch p.peek() {
		case "":
			panic(p.file + ": unterminated service")
		case ";":
			p.next()
		case "option":
			name, val := p.option()
			if name == "(cosmos.msg.v1.service)" && val == "true" {
				s.MsgSvc = true
			}
		case "rpc":
			p.next()
			md := srcMethod{Name: p.next()}
			p.expect("(")
			if p.peek() == "stream" {
				md.CS = true
				p.next()
			}
			md.In = p.next()
			p.expect(")")
			p.expect("returns")
			p.expect("(")
			if p.peek() == "stream" {
				md.SS = true
				p.next()
			}
			md.Out = p.next()
			p.expect(")")
			if p.peek() == "{" {
				p.skipBalanced("{", "}")
				if p.peek() == ";" {
					p.next()
				}
			} else {
				p.expect(";")
			}
			s.Methods = append(s.Methods, md)
		default:
			panic(p.file + ": unexpected token in service: " + p.peek())
		}
	}
	p.expect("}")
	return s
}

func parseProto(name, text string) *srcFile {
	p := &parser{toks: tokenize(text), file: name}
	f := &srcFile{Name: name}
	prefix := func() string {
		if f.Pkg == "" {
			return ""
		}
		return f.Pkg + "."
	}
	for p.peek() != "" {
		switch p.peek() {
		case ";":
			p.next()
		case "syntax":
			p.next()
			p.expect("=")
			if s := unquote(p.next()); s != "proto3" {
				panic(name + ": syntax " + s + " is outside the supported subset")
			}
			p.expect(";")
		case "package":
			p.next()
			f.Pkg = p.next()
			p.expect(";")
		case "import":
			p.next()
			if p.peek() == "public" || p.peek() == "weak" {
				p.next()
			}
			p.next()
			p.expect(";")
		case "option":
			n, _ := p.option()
			if n == "go_package" {
				f.GoPackage = true
			}
		case "message":
			f.Msgs = append(f.Msgs, p.message(prefix()))
		case "enum":
			f.Enums = append(f.Enums, p.enum(prefix()))
		case "service":
			f.Svcs = append(f.Svcs, p.service(prefix()))
		default:
			panic(name + ": unexpected top-level token " + p.peek())
		}
	}
	return f
}

var scalarKinds = map[string]bool{"double": true, "float": true, "int64": true, "uint64": true, "int32": true, "fixed64": true,
	"fixed32": true, "bool": true, "string": true, "bytes": true, "uint32": true, "sfixed32": true, "sfixed64": true, "sint32": true, "sint64": true}

func camel(s string) string {
	// protoc's map entry name: CamelCase of the field name + "Entry"
	out := ""
	up := true
	for _, c := range s {
		if c == '_' {
			up = true
			continue
		}
		if up {
			out += strings.ToUpper(string(c))
			up = false
		} else {
			out += string(c)
		}
	}
	return out
}

// readSources parses every .proto file under root/irismod.
func readSources(root string) []*srcFile {
	var names []string
	_ = filepath.Walk(filepath.Join(root, "irismod"), func(p string, info os.FileInfo, err error) error {
		if err == nil && !info.IsDir() && strings.HasSuffix(p, ".proto") {
			rel, _ := filepath.Rel(root, p)
			names = append(names, filepath.ToSlash(rel))
		}
		return nil
	})
	sort.Strings(names)
	var out []*srcFile
	for _, n := range names {
		bz, err := os.ReadFile(filepath.Join(root, n))
		if err != nil {
			panic(err)
		}
		out = append(out, parseProto(n, string(bz)))
	}
	return out
}

// sourceRows renders the srow table.
func sourceRows(files []*srcFile) []string {
	declared := map[string]bool{}
	var decl func(m *srcMsg)
	decl = func(m *srcMsg) {
		declared[m.Full] = true
		for _, e := range m.Enums {
			declared[e.Full] = true
		}
		for _, n := range m.Nested {
			decl(n)
		}
	}
	for _, f := range files {
		for _, m := range f.Msgs {
			decl(m)
		}
		for _, e := range f.Enums {
			declared[e.Full] = true
		}
	}
	// protobuf name resolution: innermost scope outwards; a name that is not declared under
	// proto/irismod must be a fully qualified external one (cosmos.*, google.protobuf.*)
	resolve := func(scope, t string) string {
		if scalarKinds[t] {
			return t
		}
		if strings.HasPrefix(t, ".") {
			return t
		}
		first := strings.SplitN(t, ".", 2)[0]
		sc := scope
		for {
			cand := t
			if sc != "" {
				cand = sc + "." + t
			}
			// the first component decides the scope (protoc rule), then the whole name must exist
			fc := first
			if sc != "" {
				fc = sc + "." + first
			}
			if declared[cand] {
				return "." + cand
			}
			_ = fc
			if sc == "" {
				break
			}
			if i := strings.LastIndex(sc, "."); i >= 0 {
				sc = sc[:i]
			} else {
				sc = ""
			}
		}
		if !strings.Contains(t, ".") {
			panic("source extractor: unresolved type " + t + " in scope " + scope)
		}
		return "." + t
	}
	var rows []string
	q := func(s string) string { return coqStr(s) }
	var emitMsg func(fn string, m *srcMsg)
	emitMsg = func(fn string, m *srcMsg) {
		rows = append(rows, fmt.Sprintf("RMsg %s %s", q(fn), q(m.Full)))
		for _, s := range m.Signers {
			rows = append(rows, fmt.Sprintf("RSigner %s %s", q(m.Full), q(s)))
		}
		var entries []*srcMsg
		for _, f := range m.Fields {
			ty := f.Type
			rep := f.Rep
			if f.Map != nil {
				en := &srcMsg{Full: m.Full + "." + camel(f.Name) + "Entry"}
				en.Fields = []srcField{{Name: "key", Num: 1, Type: f.Map[0]}, {Name: "value", Num: 2, Type: f.Map[1]}}
				entries = append(entries, en)
				declared[en.Full] = true
				ty = "." + en.Full
				rep = true
			} else {
				ty = resolve(m.Full, ty)
			}
			rows = append(rows, fmt.Sprintf("RField %s %s %d %s %s", q(m.Full), q(f.Name), f.Num, q(ty), coqBool(rep)))
		}
		// descriptor order of nested types: declared nested messages and map entries in order of
		// appearance; the repository declares no nested messages, so entries follow directly
		for _, n := range m.Nested {
			emitMsg(fn, n)
		}
		for _, en := range entries {
			// entry fields resolve in the scope of the parent message
			rows = append(rows, fmt.Sprintf("RMsg %s %s", q(fn), q(en.Full)))
			for _, f := range en.Fields {
				rows = append(rows, fmt.Sprintf("RField %s %s %d %s false", q(en.Full), q(f.Name), f.Num, q(resolve(m.Full, f.Type))))
			}
		}
	}
	for _, f := range files {
		rows = append(rows, fmt.Sprintf("RFile %s %s", q(f.Name), q(f.Pkg)))
		for _, m := range f.Msgs {
			emitMsg(f.Name, m)
		}
		var enums []*srcEnum
		var coll func(m *srcMsg)
		coll = func(m *srcMsg) {
			enums = append(enums, m.Enums...)
			for _, n := range m.Nested {
				coll(n)
			}
		}
		for _, m := range f.Msgs {
			coll(m)
		}
		enums = append(enums, f.Enums...)
		for _, e := range enums {
			rows = append(rows, fmt.Sprintf("REnum %s %s", q(f.Name), q(e.Full)))
			for _, v := range e.Values {
				rows = append(rows, fmt.Sprintf("REnumVal %s %s %s", q(e.Full), q(v.Name), coqZ(int64(v.Num))))
			}
		}
		for _, s := range f.Svcs {
			rows = append(rows, fmt.Sprintf("RSvc %s %s %s", q(f.Name), q(s.Full), coqBool(s.MsgSvc)))
			for _, md := range s.Methods {
				rows = append(rows, fmt.Sprintf("RMethod %s %s %s %s %s %s", q(s.Full), q(md.Name), q(resolve(s.Full, md.In)), q(resolve(s.Full, md.Out)), coqBool(md.CS), coqBool(md.SS)))
			}
		}
	}
	return rows
}
