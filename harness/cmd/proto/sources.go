// A small extractor for the text of proto/irismod/**/*.proto (there is no protoc / buf / Go
// .proto parser in this sandbox).  It understands the proto3 subset used in the repository:
// syntax, package, import, option, message { field | map field | option | reserved | nested },
// enum { value | option }, service { option | rpc }.  Comments are stripped, the rest is
// tokenised; anything it does not understand is a translator error (never guessed).
//
// Output: the rows of Proto/Desc.v's [srow] table in the order [desc_rows] produces them from
// descriptors (per file: messages with their signer options and fields, then enums, then
// services), so that the comparison in Coq is a plain equality of lists.
package main

import (
	"encoding/hex"
	"fmt"
	"os"
	"path/filepath"
	"sort"
	"strconv"
	"strings"
	"unicode"

	"google.golang.org/protobuf/types/descriptorpb"
)

// srcOpt is one option as written: NAME is `(pkg.ext)` or a built-in name; a value written as an
// aggregate `{...}` or addressed through a sub-field (`(google.api.http).get = ...`) is message
// valued: only its presence is compared.
type srcOpt struct {
	Name string
	Val  string
	Agg  bool
	Line int
}

// srcErr is a construct the extractor does not understand: it is never guessed and never fatal -
// it becomes an [RUnsupported file line what] row of the source table, which no descriptor row
// equals, so the per-file static case fails with a replay that names file and line.
type srcErr struct {
	Line int
	Msg  string
}

type srcField struct {
	Opts []srcOpt
	Line int
	Json string // explicit json_name (a pseudo-option of the field syntax), "" when not written
	Name string
	Num  int
	Type string // scalar keyword or unresolved type reference
	Rep  bool
	Map  *[2]string // key, value type for map fields
}

type srcMsg struct {
	Opts    []srcOpt
	Full    string
	Signers []string
	Fields  []srcField
	Nested  []*srcMsg
	Enums   []*srcEnum
}

type srcEnumVal struct {
	Name string
	Num  int
	Opts []srcOpt
}
type srcEnum struct {
	Opts   []srcOpt
	Full   string
	Values []srcEnumVal
}
type srcMethod struct {
	Name, In, Out string
	CS, SS        bool
	Opts          []srcOpt
}
type srcSvc struct {
	Opts    []srcOpt
	Full    string
	MsgSvc  bool
	Methods []srcMethod
}
type srcFile struct {
	Unsupported []srcErr
	Name        string
	Pkg         string
	GoPackage   bool
	Msgs        []*srcMsg
	Enums       []*srcEnum
	Svcs        []*srcSvc
}

func tokenize(src string) ([]string, []int) {
	var toks []string
	var lines []int
	i := 0
	n := len(src)
	lineOf := func(pos int) int { return 1 + strings.Count(src[:pos], "\n") }
	for i < n {
		for len(lines) < len(toks) {
			lines = append(lines, lineOf(i-1))
		}
		c := src[i]
		switch {
		case c == '/' && i+1 < n && src[i+1] == '/':
			for i < n && src[i] != '\n' {
				i++
			}
		case c == '/' && i+1 < n && src[i+1] == '*':
			j := strings.Index(src[i+2:], "*/")
			if j < 0 {
				i = n
			} else {
				i += j + 4
			}
		case c == '"' || c == '\'':
			j := i + 1
			for j < n && src[j] != c {
				if src[j] == '\\' {
					j++
				}
				j++
			}
			if j >= n {
				j = n - 1 // unterminated literal: the parser will stumble over the rest
			}
			toks = append(toks, src[i:j+1])
			i = j + 1
		case unicode.IsSpace(rune(c)):
			i++
		case c == '_' || c == '.' || unicode.IsLetter(rune(c)) || unicode.IsDigit(rune(c)) || c == '-':
			j := i
			for j < n && (src[j] == '_' || src[j] == '.' || src[j] == '-' || unicode.IsLetter(rune(src[j])) || unicode.IsDigit(rune(src[j]))) {
				j++
			}
			toks = append(toks, src[i:j])
			i = j
		default:
			toks = append(toks, string(c))
			i++
		}
	}
	for len(lines) < len(toks) {
		lines = append(lines, lineOf(n))
	}
	return toks, lines
}

type parser struct {
	toks  []string
	lines []int
	pos   int
	file  string
}

// line of the token consumed last (or of the first token)
func (p *parser) line() int {
	i := p.pos - 1
	if i < 0 {
		i = 0
	}
	if i >= len(p.lines) {
		i = len(p.lines) - 1
	}
	if i < 0 {
		return 0
	}
	return p.lines[i]
}

// line of the token about to be consumed
func (p *parser) lineNext() int {
	if p.pos < len(p.lines) {
		return p.lines[p.pos]
	}
	return p.line()
}

func (p *parser) fail(format string, args ...interface{}) {
	panic(srcErr{p.line(), fmt.Sprintf(format, args...)})
}

func (p *parser) peek() string {
	if p.pos < len(p.toks) {
		return p.toks[p.pos]
	}
	return ""
}
func (p *parser) next() string {
	t := p.peek()
	p.pos++
	return t
}
func (p *parser) expect(t string) {
	if g := p.next(); g != t {
		p.fail("expected %q, got %q", t, g)
	}
}

// skipBalanced skips a bracketed group starting at the current token (which must be open).
func (p *parser) skipBalanced(open, close string) {
	p.expect(open)
	depth := 1
	for depth > 0 {
		t := p.next()
		if t == "" {
			p.fail("unbalanced %s", open)
		}
		if t == open {
			depth++
		} else if t == close {
			depth--
		}
	}
}

// option statement: `option NAME = VALUE ;` where NAME may be `(ext.name)` possibly followed by
// `.sub`, VALUE a constant or an aggregate `{ ... }`.  Returns name and value text.
func (p *parser) option() (string, string) {
	o := p.optionStmt()
	return o.Name, o.Val
}

func (p *parser) optionStmt() srcOpt {
	p.expect("option")
	o := p.optAssign()
	p.expect(";")
	return o
}

// optAssign parses `NAME = VALUE`.
func (p *parser) optAssign() (o srcOpt) {
	o.Line = p.lineNext()
	if p.peek() == "(" {
		p.next()
		o.Name = "(" + p.next() + ")"
		p.expect(")")
		for strings.HasPrefix(p.peek(), ".") {
			p.next() // a sub-field of a message-valued option
			o.Agg = true
		}
	} else {
		o.Name = p.next()
	}
	p.expect("=")
	if p.peek() == "{" {
		start := p.pos
		p.skipBalanced("{", "}")
		o.Val = strings.Join(p.toks[start:p.pos], " ")
		o.Agg = true
	} else {
		o.Val = p.next()
		// adjacent string literals are concatenated
		for isStr(o.Val) && isStr(p.peek()) {
			t := p.next()
			o.Val = `"` + unquote(o.Val) + unquote(t) + `"`
		}
	}
	return o
}

// bracketOpts parses `[ NAME = VALUE, ... ]` after a field or enum value.
func (p *parser) bracketOpts() []srcOpt {
	var out []srcOpt
	p.expect("[")
	for {
		out = append(out, p.optAssign())
		if p.peek() == "," {
			p.next()
			continue
		}
		break
	}
	p.expect("]")
	return out
}

func isStr(t string) bool { return len(t) >= 2 && (t[0] == '"' || t[0] == '\'') }

func unquote(s string) string {
	if len(s) >= 2 && (s[0] == '"' || s[0] == '\'') {
		return s[1 : len(s)-1]
	}
	return s
}

func (p *parser) message(prefix string) *srcMsg {
	p.expect("message")
	m := &srcMsg{Full: prefix + p.next()}
	p.expect("{")
	for p.peek() != "}" {
		switch t := p.peek(); t {
		case "":
			p.fail("unterminated message %s", m.Full)
		case ";":
			p.next()
		case "option":
			o := p.optionStmt()
			m.Opts = append(m.Opts, o)
			if o.Name == "(cosmos.msg.v1.signer)" {
				m.Signers = append(m.Signers, unquote(o.Val))
			}
		case "message":
			m.Nested = append(m.Nested, p.message(m.Full+"."))
		case "enum":
			m.Enums = append(m.Enums, p.enum(m.Full+"."))
		case "reserved", "extensions":
			for p.next() != ";" {
			}
		case "oneof", "extend", "group":
			p.next()
			p.fail("construct %q in message %s is outside the supported proto3 subset", t, m.Full)
		default:
			f := srcField{Line: p.lineNext()}
			if t == "repeated" {
				f.Rep = true
				p.next()
			} else if t == "optional" || t == "required" {
				p.next()
				p.fail("field label %q in message %s is outside the supported proto3 subset", t, m.Full)
			}
			if p.peek() == "map" {
				p.next()
				p.expect("<")
				k := p.next()
				p.expect(",")
				v := p.next()
				p.expect(">")
				f.Map = &[2]string{k, v}
			} else {
				f.Type = p.next()
			}
			f.Name = p.next()
			p.expect("=")
			num, err := strconv.Atoi(p.next())
			if err != nil {
				p.fail("field number of %s.%s: %v", m.Full, f.Name, err)
			}
			f.Num = num
			if p.peek() == "[" {
				for _, o := range p.bracketOpts() {
					// json_name is a pseudo-option of the field syntax: it sets the field's json
					// name in the descriptor, it is neither an extension nor a FieldOptions member
					if o.Name == "json_name" && !o.Agg && isStr(o.Val) {
						f.Json = unescape(unquote(o.Val))
						continue
					}
					f.Opts = append(f.Opts, o)
				}
			}
			p.expect(";")
			m.Fields = append(m.Fields, f)
		}
	}
	p.expect("}")
	return m
}

func (p *parser) enum(prefix string) *srcEnum {
	p.expect("enum")
	e := &srcEnum{Full: prefix + p.next()}
	p.expect("{")
	for p.peek() != "}" {
		switch p.peek() {
		case "":
			p.fail("unterminated enum %s", e.Full)
		case ";":
			p.next()
		case "option":
			e.Opts = append(e.Opts, p.optionStmt())
		case "reserved":
			for p.next() != ";" {
			}
		default:
			name := p.next()
			p.expect("=")
			num, err := strconv.Atoi(p.next())
			if err != nil {
				p.fail("number of enum value %s: %v", name, err)
			}
			var os []srcOpt
			if p.peek() == "[" {
				os = p.bracketOpts()
			}
			p.expect(";")
			e.Values = append(e.Values, srcEnumVal{name, num, os})
		}
	}
	p.expect("}")
	return e
}

func (p *parser) service(prefix string) *srcSvc {
	p.expect("service")
	s := &srcSvc{Full: prefix + p.next()}
	p.expect("{")
	for p.peek() != "}" {
		switch p.peek() {
		case "":
			p.fail("unterminated service %s", s.Full)
		case ";":
			p.next()
		case "option":
			o := p.optionStmt()
			s.Opts = append(s.Opts, o)
			if o.Name == "(cosmos.msg.v1.service)" && o.Val == "true" {
				s.MsgSvc = true
			}
		case "rpc":
			p.next()
			md := srcMethod{Name: p.next()}
			p.expect("(")
			if p.peek() == "stream" {
				md.CS = true
				p.next()
			}
			md.In = p.next()
			p.expect(")")
			p.expect("returns")
			p.expect("(")
			if p.peek() == "stream" {
				md.SS = true
				p.next()
			}
			md.Out = p.next()
			p.expect(")")
			if p.peek() == "{" {
				p.next()
				for p.peek() != "}" {
					switch p.peek() {
					case ";":
						p.next()
					case "option":
						md.Opts = append(md.Opts, p.optionStmt())
					default:
						p.next()
						p.fail("unexpected token %q in the body of rpc %s", p.toks[p.pos-1], md.Name)
					}
				}
				p.expect("}")
				if p.peek() == ";" {
					p.next()
				}
			} else {
				p.expect(";")
			}
			s.Methods = append(s.Methods, md)
		default:
			p.next()
			p.fail("unexpected token %q in service %s", p.toks[p.pos-1], s.Full)
		}
	}
	p.expect("}")
	return s
}

func parseProto(name, text string) (f *srcFile) {
	f = &srcFile{Name: name}
	p := &parser{file: name}
	// whatever the extractor does not understand ends the parse of THIS file at that point and is
	// recorded (with what was parsed before it); it never stops the translator
	defer func() {
		if r := recover(); r != nil {
			if e, ok := r.(srcErr); ok {
				f.Unsupported = append(f.Unsupported, e)
			} else {
				f.Unsupported = append(f.Unsupported, srcErr{p.line(), fmt.Sprintf("extractor failure: %v", r)})
			}
		}
	}()
	p.toks, p.lines = tokenize(text)
	prefix := func() string {
		if f.Pkg == "" {
			return ""
		}
		return f.Pkg + "."
	}
	for p.peek() != "" {
		switch p.peek() {
		case ";":
			p.next()
		case "syntax":
			p.next()
			p.expect("=")
			if s := unquote(p.next()); s != "proto3" {
				p.fail("syntax %q is outside the supported subset (proto3)", s)
			}
			p.expect(";")
		case "package":
			p.next()
			f.Pkg = p.next()
			p.expect(";")
		case "import":
			p.next()
			if p.peek() == "public" || p.peek() == "weak" {
				p.next()
			}
			p.next()
			p.expect(";")
		case "option":
			n, _ := p.option()
			if n == "go_package" {
				f.GoPackage = true
			}
		case "message":
			f.Msgs = append(f.Msgs, p.message(prefix()))
		case "enum":
			f.Enums = append(f.Enums, p.enum(prefix()))
		case "service":
			f.Svcs = append(f.Svcs, p.service(prefix()))
		default:
			p.next()
			p.fail("unexpected top-level token %q", p.toks[p.pos-1])
		}
	}
	return f
}

var scalarKinds = map[string]bool{"double": true, "float": true, "int64": true, "uint64": true, "int32": true, "fixed64": true,
	"fixed32": true, "bool": true, "string": true, "bytes": true, "uint32": true, "sfixed32": true, "sfixed64": true, "sint32": true, "sint64": true}

func camel(s string) string {
	// protoc's map entry name: CamelCase of the field name + "Entry"
	out := ""
	up := true
	for _, c := range s {
		if c == '_' {
			up = true
			continue
		}
		if up {
			out += strings.ToUpper(string(c))
			up = false
		} else {
			out += string(c)
		}
	}
	return out
}

// readSources parses every .proto file under root/irismod.
func readSources(root string) []*srcFile {
	var names []string
	_ = filepath.Walk(filepath.Join(root, "irismod"), func(p string, info os.FileInfo, err error) error {
		if err == nil && !info.IsDir() && strings.HasSuffix(p, ".proto") {
			rel, _ := filepath.Rel(root, p)
			names = append(names, filepath.ToSlash(rel))
		}
		return nil
	})
	sort.Strings(names)
	var out []*srcFile
	for _, n := range names {
		bz, err := os.ReadFile(filepath.Join(root, n))
		if err != nil {
			panic(err)
		}
		out = append(out, parseProto(n, string(bz)))
	}
	return out
}

// ---- options: names as written in the .proto text -> (extension number, type) ----

type extInfo struct {
	Num  int32
	Type int32 // descriptorpb.FieldDescriptorProto_Type
}

// optTable maps an options message (".google.protobuf.FieldOptions", ...) and an option name as
// written (`(gogoproto.nullable)`, `deprecated`) to the field/extension number and type.  It is
// read from the file descriptors both registries hold (gogo.proto, cosmos.proto, msg.proto,
// amino.proto, annotations.proto, ..., and descriptor.proto for the built-in options), never
// from a hand-written list.
func optTable() map[string]map[string]extInfo {
	t := map[string]map[string]extInfo{}
	put := func(extendee, name string, e extInfo) {
		if t[extendee] == nil {
			t[extendee] = map[string]extInfo{}
		}
		if old, ok := t[extendee][name]; ok && old != e {
			panic(fmt.Sprintf("option %s of %s is declared with two numbers/types: %v and %v", name, extendee, old, e))
		}
		t[extendee][name] = e
	}
	for _, all := range []map[string]*descriptorpb.FileDescriptorProto{gogoFDs(), pulsarFDs()} {
		for _, fd := range all {
			pkg := fd.GetPackage()
			for _, x := range fd.Extension {
				put(x.GetExtendee(), "("+pkg+"."+x.GetName()+")", extInfo{x.GetNumber(), int32(x.GetType())})
			}
			if fd.GetName() == "google/protobuf/descriptor.proto" {
				for _, m := range fd.MessageType {
					if strings.HasSuffix(m.GetName(), "Options") {
						for _, f := range m.Field {
							put(".google.protobuf."+m.GetName(), f.GetName(), extInfo{f.GetNumber(), int32(f.GetType())})
						}
					}
				}
			}
		}
	}
	return t
}

// aggregateOpts lists, per kind of declaration, the option numbers whose value is a message
// (compared by presence only).
func aggregateOpts() [][2]string {
	kinds := map[string]string{".google.protobuf.MessageOptions": "msg", ".google.protobuf.FieldOptions": "field",
		".google.protobuf.EnumOptions": "enum", ".google.protobuf.EnumValueOptions": "enumval",
		".google.protobuf.ServiceOptions": "svc", ".google.protobuf.MethodOptions": "method"}
	var out [][2]string
	for ext, m := range optTable() {
		k, ok := kinds[ext]
		if !ok {
			continue
		}
		for _, e := range m {
			if e.Type == 11 {
				out = append(out, [2]string{k, strconv.Itoa(int(e.Num))})
			}
		}
	}
	sort.Slice(out, func(i, j int) bool {
		if out[i][0] != out[j][0] {
			return out[i][0] < out[j][0]
		}
		a, _ := strconv.Atoi(out[i][1])
		b, _ := strconv.Atoi(out[j][1])
		return a < b
	})
	return out
}

// unescape interprets the escapes of a .proto string literal body.
func unescape(s string) string {
	var b []byte
	for i := 0; i < len(s); i++ {
		c := s[i]
		if c != '\\' || i+1 >= len(s) {
			b = append(b, c)
			continue
		}
		i++
		switch s[i] {
		case 'n':
			b = append(b, '\n')
		case 't':
			b = append(b, '\t')
		case 'r':
			b = append(b, '\r')
		case '\\', '"', '\'', '?':
			b = append(b, s[i])
		case 'x', 'X':
			j := i + 1
			for j < len(s) && j < i+3 && strings.ContainsRune("0123456789abcdefABCDEF", rune(s[j])) {
				j++
			}
			n, err := strconv.ParseUint(s[i+1:j], 16, 8)
			if err != nil {
				panic("source extractor: bad \\x escape in " + s)
			}
			b = append(b, byte(n))
			i = j - 1
		default:
			if s[i] >= '0' && s[i] <= '7' {
				j := i
				for j < len(s) && j < i+3 && s[j] >= '0' && s[j] <= '7' {
					j++
				}
				n, _ := strconv.ParseUint(s[i:j], 8, 16)
				b = append(b, byte(n))
				i = j - 1
			} else {
				panic("source extractor: unsupported escape in string literal " + s)
			}
		}
	}
	return string(b)
}

var optTab map[string]map[string]extInfo

// optRows renders the options of one declaration as ROpt rows, sorted by option number (stable),
// in the wire form the descriptors carry them: bool -> varint 0/1, string -> bytes, integer ->
// varint; message-valued options by presence only.
func optRows(fn, owner, extendee string, opts []srcOpt) []string {
	if optTab == nil {
		optTab = optTable()
	}
	type row struct {
		num int32
		txt string
	}
	var rows []row
	var bad []string
	// one option -> (number, wire type, hex payload); a panic here is an unknown construct
	encode := func(o srcOpt) (r row, err error) {
		defer func() {
			if x := recover(); x != nil {
				err = fmt.Errorf("%v", x)
			}
		}()
		e, ok := optTab[extendee][o.Name]
		if !ok {
			return r, fmt.Errorf("option %s (%s) is not declared for %s by any linked .proto file", o.Name, owner, strings.TrimPrefix(extendee, ".google.protobuf."))
		}
		wt, hx := 2, ""
		switch {
		case o.Agg || e.Type == 11:
			if e.Type != 11 {
				return r, fmt.Errorf("aggregate value for scalar option %s (%s)", o.Name, owner)
			}
		case e.Type == 8:
			wt = 0
			switch o.Val {
			case "true":
				hx = "01"
			case "false":
				hx = "00"
			default:
				return r, fmt.Errorf("option %s (%s): %s is not a bool", o.Name, owner, o.Val)
			}
		case e.Type == 9 || e.Type == 12:
			if !isStr(o.Val) {
				return r, fmt.Errorf("option %s (%s): %s is not a string literal", o.Name, owner, o.Val)
			}
			hx = hex.EncodeToString([]byte(unescape(unquote(o.Val))))
		case e.Type == 3 || e.Type == 4 || e.Type == 5 || e.Type == 13:
			n, perr := strconv.ParseInt(o.Val, 0, 64)
			if perr != nil {
				return r, fmt.Errorf("option %s (%s): %s is not an integer", o.Name, owner, o.Val)
			}
			wt = 0
			hx = hex.EncodeToString(appendVarint(nil, uint64(n)))
		default:
			return r, fmt.Errorf("option %s (%s) has a type outside the supported subset (%d)", o.Name, owner, e.Type)
		}
		return row{e.Num, fmt.Sprintf("ROpt %s %d %d %s", coqStr(owner), e.Num, wt, coqStr(hx))}, nil
	}
	for _, o := range opts {
		r, err := encode(o)
		if err != nil {
			bad = append(bad, unsupportedRow(fn, o.Line, err.Error()))
			continue
		}
		rows = append(rows, r)
	}
	sort.SliceStable(rows, func(i, j int) bool { return rows[i].num < rows[j].num })
	var out []string
	for _, r := range rows {
		out = append(out, r.txt)
	}
	return append(out, bad...)
}

// unsupportedRow renders a construct the extractor does not understand; no descriptor row equals
// it, so the static case of the file fails and names file, line and construct.
func unsupportedRow(fn string, line int, what string) string {
	b := []byte(what)
	for i, c := range b {
		if c < 32 || c > 126 {
			b[i] = '?'
		}
	}
	if len(b) > 200 {
		b = b[:200]
	}
	return fmt.Sprintf("RUnsupported %s %d %s", coqStr(fn), line, coqStr(string(b)))
}

// sourceRows renders the srow table.
func sourceRows(files []*srcFile) []string {
	declared := map[string]bool{}
	var decl func(m *srcMsg)
	decl = func(m *srcMsg) {
		declared[m.Full] = true
		for _, e := range m.Enums {
			declared[e.Full] = true
		}
		for _, n := range m.Nested {
			decl(n)
		}
	}
	for _, f := range files {
		for _, m := range f.Msgs {
			decl(m)
		}
		for _, e := range f.Enums {
			declared[e.Full] = true
		}
	}
	// protobuf name resolution: innermost scope outwards; a name that is not declared under
	// proto/irismod must be a fully qualified external one (cosmos.*, google.protobuf.*)
	var unresolved []string // type names that resolve to nothing declared (reported per use)
	resolve := func(scope, t string) string {
		if scalarKinds[t] {
			return t
		}
		if strings.HasPrefix(t, ".") {
			return t
		}
		first := strings.SplitN(t, ".", 2)[0]
		sc := scope
		for {
			cand := t
			if sc != "" {
				cand = sc + "." + t
			}
			// the first component decides the scope (protoc rule), then the whole name must exist
			fc := first
			if sc != "" {
				fc = sc + "." + first
			}
			if declared[cand] {
				return "." + cand
			}
			_ = fc
			if sc == "" {
				break
			}
			if i := strings.LastIndex(sc, "."); i >= 0 {
				sc = sc[:i]
			} else {
				sc = ""
			}
		}
		if !strings.Contains(t, ".") {
			unresolved = append(unresolved, t)
		}
		return "." + t
	}
	var rows []string
	q := func(s string) string { return coqStr(s) }
	var emitMsg func(fn string, m *srcMsg)
	emitMsg = func(fn string, m *srcMsg) {
		rows = append(rows, fmt.Sprintf("RMsg %s %s", q(fn), q(m.Full)))
		for _, s := range m.Signers {
			rows = append(rows, fmt.Sprintf("RSigner %s %s", q(m.Full), q(s)))
		}
		rows = append(rows, optRows(fn, "msg "+m.Full, ".google.protobuf.MessageOptions", m.Opts)...)
		var entries []*srcMsg
		for _, f := range m.Fields {
			ty := f.Type
			rep := f.Rep
			if f.Map != nil {
				en := &srcMsg{Full: m.Full + "." + camel(f.Name) + "Entry"}
				en.Fields = []srcField{{Name: "key", Num: 1, Type: f.Map[0]}, {Name: "value", Num: 2, Type: f.Map[1]}}
				entries = append(entries, en)
				declared[en.Full] = true
				ty = "." + en.Full
				rep = true
			} else {
				ty = resolve(m.Full, ty)
			}
			for _, u := range unresolved {
				rows = append(rows, unsupportedRow(fn, f.Line, "type "+u+" of field "+m.Full+"."+f.Name+" is not declared under proto/irismod and is not fully qualified"))
			}
			unresolved = nil
			rows = append(rows, fmt.Sprintf("RField %s %s %d %s %s %s", q(m.Full), q(f.Name), f.Num, q(ty), coqBool(rep), q(f.Json)))
			rows = append(rows, optRows(fn, "field "+m.Full+"."+f.Name, ".google.protobuf.FieldOptions", f.Opts)...)
		}
		// descriptor order of nested types: declared nested messages and map entries in order of
		// appearance; the repository declares no nested messages, so entries follow directly
		for _, n := range m.Nested {
			emitMsg(fn, n)
		}
		for _, en := range entries {
			// entry fields resolve in the scope of the parent message
			rows = append(rows, fmt.Sprintf("RMsg %s %s", q(fn), q(en.Full)))
			// protoc marks the synthesised entry message with the built-in option map_entry = true
			rows = append(rows, optRows(fn, "msg "+en.Full, ".google.protobuf.MessageOptions", []srcOpt{{Name: "map_entry", Val: "true"}})...)
			for _, f := range en.Fields {
				rows = append(rows, fmt.Sprintf("RField %s %s %d %s false %s", q(en.Full), q(f.Name), f.Num, q(resolve(m.Full, f.Type)), q("")))
				unresolved = nil
			}
		}
	}
	for _, f := range files {
		f := f
		func() {
			// a name the table cannot carry (non-ASCII identifier, ...) is an unknown construct too
			defer func() {
				if r := recover(); r != nil {
					rows = append(rows, unsupportedRow(f.Name, 0, fmt.Sprint(r)))
				}
			}()
			rows = append(rows, fmt.Sprintf("RFile %s %s", q(f.Name), q(f.Pkg)))
			for _, u := range f.Unsupported {
				rows = append(rows, unsupportedRow(f.Name, u.Line, u.Msg))
			}
			for _, m := range f.Msgs {
				emitMsg(f.Name, m)
			}
			var enums []*srcEnum
			var coll func(m *srcMsg)
			coll = func(m *srcMsg) {
				enums = append(enums, m.Enums...)
				for _, n := range m.Nested {
					coll(n)
				}
			}
			for _, m := range f.Msgs {
				coll(m)
			}
			enums = append(enums, f.Enums...)
			for _, e := range enums {
				rows = append(rows, fmt.Sprintf("REnum %s %s", q(f.Name), q(e.Full)))
				rows = append(rows, optRows(f.Name, "enum "+e.Full, ".google.protobuf.EnumOptions", e.Opts)...)
				for _, v := range e.Values {
					rows = append(rows, fmt.Sprintf("REnumVal %s %s %s", q(e.Full), q(v.Name), coqZ(int64(v.Num))))
					rows = append(rows, optRows(f.Name, "enumval "+e.Full+"."+v.Name, ".google.protobuf.EnumValueOptions", v.Opts)...)
				}
			}
			for _, s := range f.Svcs {
				rows = append(rows, fmt.Sprintf("RSvc %s %s %s", q(f.Name), q(s.Full), coqBool(s.MsgSvc)))
				rows = append(rows, optRows(f.Name, "svc "+s.Full, ".google.protobuf.ServiceOptions", s.Opts)...)
				for _, md := range s.Methods {
					rows = append(rows, fmt.Sprintf("RMethod %s %s %s %s %s %s", q(s.Full), q(md.Name), q(resolve(s.Full, md.In)), q(resolve(s.Full, md.Out)), coqBool(md.CS), coqBool(md.SS)))
					for _, u := range unresolved {
						rows = append(rows, unsupportedRow(f.Name, 0, "type "+u+" of rpc "+s.Full+"."+md.Name+" is not declared under proto/irismod and is not fully qualified"))
					}
					unresolved = nil
					rows = append(rows, optRows(f.Name, "method "+s.Full+"."+md.Name, ".google.protobuf.MethodOptions", md.Opts)...)
				}
			}
		}()
	}
	return rows
}
