// Case streams of C20.
//
//	static    one case per file / message / enum / service / tx message / source file / imported
//	          message: the Coq side re-evaluates the descriptor comparison item by item, the
//	          harness side renders the difference it sees (for the replay file).
//	populated values generated from the descriptors with every non-nullable field present:
//	          both families must produce the same bytes and cross-decode/re-encode identically.
//	absent    the same with non-nullable fields left out at random (known inherent difference).
//	maporder  map fields with 2-3 entries (the gogoproto marshaller iterates a Go map).
//	mismatch  messages holding a customtype numeral on a message-typed field.
package main

import (
	"encoding/hex"
	"fmt"
	"path/filepath"
	"reflect"
	"sort"
	"strconv"
	"strings"

	gogoproto "github.com/cosmos/gogoproto/proto"
	"google.golang.org/protobuf/proto"
	"google.golang.org/protobuf/reflect/protoreflect"
	"google.golang.org/protobuf/reflect/protoregistry"

	"verifharness/lib"
)

// ---- value trees (the model's vocabulary) ----

type Val struct {
	K string   `json:"k"`           // i: varint, b: bytes/string, p: packed varints, m: message
	N string   `json:"n,omitempty"` // decimal, the 64-bit two's complement pattern
	B string   `json:"b,omitempty"` // hex
	P []string `json:"p,omitempty"`
	F []FV     `json:"f,omitempty"`
}
type FV struct {
	Num int32 `json:"num"`
	V   Val   `json:"v"`
}

type History struct {
	Kind string `json:"kind"` // static | wire
	// static
	Item string `json:"item,omitempty"` // file | msg | enum | svc | tx | src | dep | none
	File string `json:"file,omitempty"`
	Name string `json:"name,omitempty"`
	// wire
	Mode string `json:"mode,omitempty"` // populated | absent | maporder | mismatch
	Msg  string `json:"msg,omitempty"`
	// the top-level fields of the value (a list, so that check.py's shrinker can drop them one by one)
	Fields []FV `json:"fields,omitempty"`
}

func vInt(n uint64) Val     { return Val{K: "i", N: strconv.FormatUint(n, 10)} }
func vBytes(b []byte) Val   { return Val{K: "b", B: hex.EncodeToString(b)} }
func vMsg(fs ...FV) Val     { return Val{K: "m", F: fs} }
func (v Val) bytes() []byte { b, _ := hex.DecodeString(v.B); return b }
func (v Val) u64() uint64   { n, _ := strconv.ParseUint(v.N, 10, 64); return n }

func (v Val) coq() string {
	switch v.K {
	case "i":
		return "(VInt " + v.N + ")"
	case "b":
		return "(VY " + coqChunks(v.bytes()) + ")"
	case "p":
		return "(VPacked [" + strings.Join(v.P, "; ") + "])"
	default:
		var xs []string
		for _, f := range v.F {
			xs = append(xs, fmt.Sprintf("(%d, %s)", f.Num, f.V.coq()))
		}
		return "(VMsg [" + strings.Join(xs, "; ") + "])"
	}
}

// coqChunks prints a byte string as the arguments of Proto/Check.v [BY] / [VY]: the length and
// the bytes in big-endian chunks of 7 held in primitive 63-bit integers.
func coqChunks(b []byte) string {
	if len(b) == 0 {
		return "0 []"
	}
	var sb strings.Builder
	sb.WriteString(strconv.Itoa(len(b)))
	sb.WriteString(" [")
	for i := 0; i < len(b); i += 7 {
		var n uint64
		for j := i; j < i+7 && j < len(b); j++ {
			n = n<<8 | uint64(b[j])
		}
		if i > 0 {
			sb.WriteString("; ")
		}
		sb.WriteString(strconv.FormatUint(n, 10))
	}
	sb.WriteString("]%uint63")
	return sb.String()
}

// goEnc is the harness-side rendering of a tree as wire bytes (used to embed a message in an Any
// value and for the mismatch stream, where the tree cannot be set through protobuf-go reflection).
func appendVarint(b []byte, n uint64) []byte {
	for n >= 128 {
		b = append(b, byte(n&127)|128)
		n >>= 7
	}
	return append(b, byte(n))
}
func goEnc(v Val) []byte {
	switch v.K {
	case "i":
		return appendVarint(nil, v.u64())
	case "b":
		return v.bytes()
	case "p":
		var out []byte
		for _, s := range v.P {
			n, _ := strconv.ParseUint(s, 10, 64)
			out = appendVarint(out, n)
		}
		return out
	}
	var out []byte
	for _, f := range v.F {
		if f.V.K == "i" {
			out = appendVarint(out, uint64(f.Num)<<3)
			out = append(out, goEnc(f.V)...)
		} else {
			out = appendVarint(out, uint64(f.Num)<<3|2)
			p := goEnc(f.V)
			out = appendVarint(out, uint64(len(p)))
			out = append(out, p...)
		}
	}
	return out
}

// ---- descriptor index (neutral model, read from the gogoproto registry: it carries the options) ----

type index struct {
	gogo, pulsar Family
	msgs         map[string]Msg // full name -> message (irismod + dependencies), gogoproto family
	enums        map[string]Enum
	order        []string // irismod messages that are not map entries, in file order
	mismatch     map[string]bool
	hasMap       []string
	srcs         []*srcFile
}

var idx *index

func getIndex() *index {
	if idx != nil {
		return idx
	}
	x := &index{gogo: family(gogoFDs()), pulsar: family(pulsarFDs()), msgs: map[string]Msg{}, enums: map[string]Enum{}, mismatch: map[string]bool{}}
	for _, set := range [][]File{x.gogo.Files, x.gogo.Deps} {
		for _, f := range set {
			for _, m := range f.Msgs {
				x.msgs[m.Full] = m
			}
			for _, e := range f.Enums {
				x.enums[e.Full] = e
			}
		}
	}
	for _, f := range x.gogo.Files {
		for _, m := range f.Msgs {
			if _, ok := hasOpt(m.Opts, optMapEntry); !ok {
				x.order = append(x.order, m.Full)
			}
		}
	}
	// messages that (transitively) hold a customtype numeral on a non-string field
	var mm func(name string, seen map[string]bool) bool
	mm = func(name string, seen map[string]bool) bool {
		if seen[name] {
			return false
		}
		seen[name] = true
		for _, f := range x.msgs[name].Fields {
			if kindMismatch(f) {
				return true
			}
			if f.Kind == 11 && mm(strings.TrimPrefix(f.Type, "."), seen) {
				return true
			}
		}
		return false
	}
	for _, n := range x.order {
		if mm(n, map[string]bool{}) {
			x.mismatch[n] = true
		}
		for _, f := range x.msgs[n].Fields {
			if x.isMapField(f) {
				x.hasMap = append(x.hasMap, n)
				break
			}
		}
	}
	x.srcs = readSources(filepath.Join(repoRoot(), "proto"))
	idx = x
	return x
}

func (x *index) isMapField(f Field) bool {
	if f.Kind != 11 || f.Label != 3 {
		return false
	}
	m, ok := x.msgs[strings.TrimPrefix(f.Type, ".")]
	if !ok {
		return false
	}
	_, e := hasOpt(m.Opts, optMapEntry)
	return e
}

func customType(f Field) string {
	v := optVals(f.Opts, optCustomType)
	if len(v) == 0 {
		return ""
	}
	return v[0]
}
func numeralCustom(f Field) bool {
	switch customType(f) {
	case "cosmossdk.io/math.Int", "cosmossdk.io/math.LegacyDec", "github.com/cosmos/cosmos-sdk/types.Int", "github.com/cosmos/cosmos-sdk/types.Dec":
		return true
	}
	return false
}
func kindMismatch(f Field) bool { return numeralCustom(f) && f.Kind != 9 && f.Kind != 12 }
func nullableFalse(f Field) bool {
	h, ok := hasOpt(f.Opts, optNullable)
	return ok && h == "00"
}

// nonNullable mirrors Proto/WireEnv.v [nn_of] (used only to steer generation; the check itself
// uses the Coq definition).
func nonNullable(f Field) bool {
	if f.Label == 3 || !nullableFalse(f) {
		return false
	}
	return numeralCustom(f) || f.Kind == 11
}

// ---- generators ----

type style int

const (
	stEmpty style = iota
	stMax
	stRandom
)

type gen struct {
	r    *lib.Rand
	x    *index
	mode string
	st   style
	nt   bool // non-trivial: a nested, repeated, map or Any field was set
	// maporder: one map field has been given two entries already
	twoDone bool
}

func lastMap(x *index, fields []Field, f Field) bool {
	last := int32(-1)
	for _, g := range fields {
		if x.isMapField(g) {
			last = g.Num
		}
	}
	return last == f.Num
}

var utf8Pool = []string{"a", "Z", "0", " ", "/", "é", "ß", "語", "🙂", "x1", "iaa1", "stake", "-", "_", "\""}

func (g *gen) str(min int) []byte {
	n := min + g.r.Intn(12)
	if g.st == stMax {
		n = 40 + g.r.Intn(200)
	}
	var b []byte
	for len(b) < n || len(b) == 0 && min > 0 {
		b = append(b, utf8Pool[g.r.Intn(len(utf8Pool))]...)
		if n == 0 {
			break
		}
	}
	if min == 0 && n == 0 {
		return nil
	}
	return b
}

func (g *gen) numeral(dec bool) []byte {
	// canonical decimal numerals (what the custom types print): no sign for zero, no leading zeros
	nd := 1 + g.r.Intn(30)
	if g.st == stMax {
		nd = 70
	}
	if g.r.Chance(1, 8) {
		return []byte("0")
	}
	s := string(rune('1' + g.r.Intn(9)))
	for i := 1; i < nd; i++ {
		s += string(rune('0' + g.r.Intn(10)))
	}
	if g.r.Chance(1, 6) {
		s = "-" + s
	}
	return []byte(s)
}

func (g *gen) scalar(f Field) uint64 {
	k := f.Kind
	if g.st == stMax {
		switch k {
		case 3:
			return uint64(1<<63 - 1)
		case 4:
			return ^uint64(0)
		case 5:
			return uint64(1<<31 - 1)
		case 13:
			return uint64(1<<32 - 1)
		}
	}
	switch k {
	case 8:
		return 1
	case 14:
		e := g.x.enums[strings.TrimPrefix(f.Type, ".")]
		var nz []int32
		for _, v := range e.Values {
			if v.Num != 0 {
				nz = append(nz, v.Num)
			}
		}
		if len(nz) == 0 || g.r.Chance(1, 10) {
			return 7
		}
		return uint64(int64(nz[g.r.Intn(len(nz))]))
	case 3: // int64
		switch g.r.Intn(5) {
		case 0:
			return uint64(int64(-1) - int64(g.r.U64()>>uint(1+g.r.Intn(62))))
		case 1:
			return 1 << 63 // min int64
		default:
			return 1 + g.r.U64()>>uint(1+g.r.Intn(63))
		}
	case 4:
		return 1 + (g.r.U64()-1)>>uint(g.r.Intn(64))
	case 5: // int32
		switch g.r.Intn(5) {
		case 0:
			return uint64(int64(-1 - int32(g.r.U64()>>uint(33+g.r.Intn(30)))))
		case 1:
			m := int64(-1) << 31
			return uint64(m)
		default:
			return 1 + uint64(uint32(g.r.U64())>>uint(1+g.r.Intn(31)))
		}
	case 13:
		return 1 + uint64(uint32(g.r.U64()-1)>>uint(g.r.Intn(32)))
	}
	panic(fmt.Sprintf("generator: kind %d of %s outside the fragment", k, f.Name))
}

func (g *gen) timestamp() Val {
	var fs []FV
	sec := g.r.Range(-62135596800, 253402300799)
	if g.r.Chance(1, 2) {
		sec = g.r.Range(0, 2000000000)
	}
	if g.st == stMax {
		sec = 253402300799
	}
	if sec != 0 {
		fs = append(fs, FV{1, vInt(uint64(sec))})
	}
	nanos := g.r.Range(0, 999999999)
	if g.r.Chance(1, 3) {
		nanos = 0
	}
	if nanos != 0 {
		fs = append(fs, FV{2, vInt(uint64(nanos))})
	}
	return vMsg(fs...)
}

func (g *gen) duration() Val {
	d := int64(g.r.U64())
	if g.r.Chance(1, 2) {
		d = g.r.Range(-100000000000, 100000000000)
	}
	if g.st == stMax {
		d = 1<<63 - 1
	}
	sec, nanos := d/1000000000, d%1000000000
	var fs []FV
	if sec != 0 {
		fs = append(fs, FV{1, vInt(uint64(sec))})
	}
	if nanos != 0 {
		fs = append(fs, FV{2, vInt(uint64(int64(int32(nanos))))})
	}
	return vMsg(fs...)
}

func (g *gen) anyVal(depth int) Val {
	// an Any wrapping a generated irismod message (type URL + its encoding)
	cands := []string{"irismod.nft.DenomMetadata", "irismod.nft.NFTMetadata", "irismod.record.Content", "irismod.coinswap.MsgAddLiquidity", "irismod.token.v1.Token"}
	name := cands[g.r.Intn(len(cands))]
	if _, ok := g.x.msgs[name]; !ok {
		name = g.x.order[g.r.Intn(len(g.x.order))]
	}
	var fs []FV
	fs = append(fs, FV{1, vBytes([]byte("/" + name))})
	sub := *g
	sub.mode = "populated"
	inner := sub.message(name, depth+1)
	if bz := goEnc(inner); len(bz) > 0 {
		fs = append(fs, FV{2, vBytes(bz)})
	}
	g.nt = true
	return vMsg(fs...)
}

func (g *gen) msgValue(f Field, depth int) Val {
	t := strings.TrimPrefix(f.Type, ".")
	switch t {
	case "google.protobuf.Timestamp":
		return g.timestamp()
	case "google.protobuf.Duration":
		return g.duration()
	case "google.protobuf.Any":
		return g.anyVal(depth)
	}
	return g.message(t, depth+1)
}

func (g *gen) message(name string, depth int) Val {
	m, ok := g.x.msgs[name]
	if !ok {
		panic("generator: unknown message " + name)
	}
	fields := append([]Field{}, m.Fields...)
	sort.SliceStable(fields, func(i, j int) bool { return fields[i].Num < fields[j].Num })
	var out []FV
	for _, f := range fields {
		nn := nonNullable(f)
		present := false
		switch {
		case nn && g.mode != "absent":
			present = true
		case nn:
			present = g.r.Chance(1, 2)
		case g.st == stEmpty:
			present = false
		case g.st == stMax:
			present = depth < 4 || f.Kind != 11
		default:
			present = g.r.Chance(3, 5) && (depth < 4 || f.Kind != 11)
		}
		if !present {
			continue
		}
		if kindMismatch(f) {
			if g.mode != "mismatch" {
				panic("generator: kind-mismatch field outside the mismatch stream: " + name + "." + f.Name)
			}
			out = append(out, FV{f.Num, vBytes(g.numeral(true))})
			continue
		}
		one := func() Val {
			switch f.Kind {
			case 9:
				if numeralCustom(f) {
					return vBytes(g.numeral(customType(f) == "cosmossdk.io/math.LegacyDec"))
				}
				if f.Label == 3 && g.r.Chance(1, 6) {
					return vBytes(nil)
				}
				return vBytes(g.str(1))
			case 12:
				n := 1 + g.r.Intn(40)
				b := make([]byte, n)
				for i := range b {
					b[i] = byte(g.r.U64())
				}
				return vBytes(b)
			case 11:
				if depth > 0 || true {
					g.nt = true
				}
				return g.msgValue(f, depth)
			default:
				return vInt(g.scalar(f))
			}
		}
		switch {
		case g.x.isMapField(f):
			n := g.r.Intn(2)
			if g.st == stMax {
				n = 1
			}
			if g.mode == "maporder" && !g.twoDone && (g.r.Chance(1, 2) || lastMap(g.x, fields, f)) {
				// exactly one map field gets two entries: two possible orders
				n = 2
				g.twoDone = true
			}
			entry := g.x.msgs[strings.TrimPrefix(f.Type, ".")]
			var keys []string
			seen := map[string]bool{}
			for len(keys) < n {
				k := string(g.str(0))
				if !seen[k] {
					seen[k] = true
					keys = append(keys, k)
				}
			}
			sort.Strings(keys) // protobuf-go's deterministic order
			for _, k := range keys {
				var vf Field
				for _, ef := range entry.Fields {
					if ef.Num == 2 {
						vf = ef
					}
				}
				var vv Val
				if vf.Kind == 11 {
					vv = g.msgValue(vf, depth)
				} else if vf.Kind == 9 {
					vv = vBytes(g.str(0))
				} else {
					panic("generator: map value kind outside the fragment")
				}
				out = append(out, FV{f.Num, vMsg(FV{1, vBytes([]byte(k))}, FV{2, vv})})
				g.nt = true
			}
		case f.Label == 3:
			n := 1 + g.r.Intn(3)
			if g.st == stMax {
				n = 3
			}
			if f.Kind != 9 && f.Kind != 12 && f.Kind != 11 {
				var ps []string
				for i := 0; i < n; i++ {
					ps = append(ps, strconv.FormatUint(g.scalar(f), 10))
				}
				out = append(out, FV{f.Num, Val{K: "p", P: ps}})
			} else {
				for i := 0; i < n; i++ {
					out = append(out, FV{f.Num, one()})
				}
			}
			g.nt = true
		default:
			out = append(out, FV{f.Num, one()})
		}
	}
	return vMsg(out...)
}

// ---- static items ----

type staticItem struct{ item, file, name string }

func staticItems(x *index) []staticItem {
	var out []staticItem
	seenFile := map[string]bool{}
	type key struct{ item, name string }
	seen := map[key]bool{}
	add := func(it, file, name string) {
		if !seen[key{it, name}] {
			seen[key{it, name}] = true
			out = append(out, staticItem{it, file, name})
		}
	}
	for _, fam := range []Family{x.gogo, x.pulsar} {
		for _, f := range fam.Files {
			if !seenFile[f.Name] {
				seenFile[f.Name] = true
				out = append(out, staticItem{"file", f.Name, f.Name})
			}
			for _, m := range f.Msgs {
				add("msg", f.Name, m.Full)
			}
			for _, e := range f.Enums {
				add("enum", f.Name, e.Full)
			}
			for _, s := range f.Services {
				add("svc", f.Name, s.Full)
				add("grpc", f.Name, s.Full)
			}
		}
		for _, f := range fam.Deps {
			for _, m := range f.Msgs {
				add("dep", f.Name, m.Full)
			}
		}
	}
	// transaction messages: request types of the Msg services, in either family
	for _, fam := range []Family{x.gogo, x.pulsar} {
		for _, f := range fam.Files {
			for _, s := range f.Services {
				if h, ok := hasOpt(s.Opts, optMsgService); ok && h == "01" {
					for _, md := range s.Methods {
						add("tx", f.Name, strings.TrimPrefix(md.In, "."))
					}
				}
			}
		}
	}
	for _, s := range x.srcs {
		out = append(out, staticItem{"src", s.Name, s.Name})
	}
	return out
}

func findFile(fs []File, name string) *File {
	for i := range fs {
		if fs[i].Name == name {
			return &fs[i]
		}
	}
	return nil
}

func findMsgIn(fam Family, full string) (*Msg, string) {
	for _, set := range [][]File{fam.Files, fam.Deps} {
		for i := range set {
			for j := range set[i].Msgs {
				if set[i].Msgs[j].Full == full {
					return &set[i].Msgs[j], set[i].Name
				}
			}
		}
	}
	return nil, ""
}

// describeStatic renders what the harness itself sees for an item (for replay files; the verdict
// is the Coq evaluation).
func describeStatic(x *index, it staticItem) []string {
	var out []string
	switch it.item {
	case "msg", "dep":
		a, fa := findMsgIn(x.gogo, it.name)
		b, fb := findMsgIn(x.pulsar, it.name)
		if a == nil || b == nil {
			if a == nil && b != nil && !isGogoScope(x, fb) {
				return nil
			}
			out = append(out, fmt.Sprintf("message %s: gogoproto family file=%q present=%v, api family file=%q present=%v", it.name, fa, a != nil, fb, b != nil))
			return out
		}
		if !reflect.DeepEqual(a.Opts, b.Opts) && it.item == "msg" {
			out = append(out, fmt.Sprintf("file %s message %s: message options differ: gogoproto %v, api %v", fa, it.name, a.Opts, b.Opts))
		}
		n := len(a.Fields)
		if len(b.Fields) > n {
			n = len(b.Fields)
		}
		for i := 0; i < n; i++ {
			switch {
			case i >= len(a.Fields):
				out = append(out, fmt.Sprintf("file %s message %s field %s (#%d): missing in the gogoproto family", fb, it.name, b.Fields[i].Name, b.Fields[i].Num))
			case i >= len(b.Fields):
				out = append(out, fmt.Sprintf("file %s message %s field %s (#%d): missing in the api family", fa, it.name, a.Fields[i].Name, a.Fields[i].Num))
			default:
				fa_, fb_ := a.Fields[i], b.Fields[i]
				if it.item == "dep" {
					fa_.Opts, fb_.Opts, fa_.Json, fb_.Json, fa_.Name, fb_.Name = nil, nil, "", "", "", ""
				}
				if !reflect.DeepEqual(fa_, fb_) {
					out = append(out, fmt.Sprintf("file %s message %s field %s: gogoproto %+v, api %+v", fa, it.name, a.Fields[i].Name, a.Fields[i], b.Fields[i]))
				}
			}
		}
	case "tx":
		a, fa := findMsgIn(x.gogo, it.name)
		if a == nil {
			out = append(out, "transaction message "+it.name+" has no descriptor in the gogoproto family")
			return out
		}
		reg := false
		for _, u := range registered() {
			if u == "/"+it.name {
				reg = true
			}
		}
		if !reg {
			out = append(out, fmt.Sprintf("file %s message %s: not registered as sdk.Msg in the interface registry", fa, it.name))
		}
		for _, fam := range []struct {
			n string
			f Family
		}{{"gogoproto", x.gogo}, {"api", x.pulsar}} {
			m, fn := findMsgIn(fam.f, it.name)
			if m == nil {
				continue
			}
			if len(m.Signers) == 0 {
				out = append(out, fmt.Sprintf("file %s message %s (%s family): no cosmos.msg.v1.signer option", fn, it.name, fam.n))
			}
			for _, sg := range m.Signers {
				ok := false
				for _, f := range m.Fields {
					if f.Name == sg && (f.Kind == 9 || f.Kind == 11) {
						ok = true
					}
				}
				if !ok {
					out = append(out, fmt.Sprintf("file %s message %s (%s family): signer option names field %q, which does not exist or is not a string/message", fn, it.name, fam.n, sg))
				}
			}
		}
	case "grpc":
		gg, pg := grpcDescs()
		var want *Service
		for _, fam := range []Family{x.pulsar, x.gogo} {
			if f := findFile(fam.Files, it.file); f != nil && want == nil {
				for i := range f.Services {
					if f.Services[i].Full == it.name {
						want = &f.Services[i]
					}
				}
			}
		}
		for _, side := range []struct {
			n string
			l []GSvc
		}{{"gogoproto", gg}, {"api", pg}} {
			var got *GSvc
			for i := range side.l {
				if side.l[i].Name == it.name {
					got = &side.l[i]
				}
			}
			switch {
			case got == nil:
				out = append(out, fmt.Sprintf("service %s: the %s family's Go code has no grpc.ServiceDesc of that name", it.name, side.n))
			case want != nil:
				if got.Metadata != it.file {
					out = append(out, fmt.Sprintf("service %s (%s family): grpc.ServiceDesc.Metadata = %q, declared in %q", it.name, side.n, got.Metadata, it.file))
				}
				for i, m := range want.Methods {
					if i >= len(got.Methods) {
						out = append(out, fmt.Sprintf("service %s (%s family): method %s missing from the grpc.ServiceDesc", it.name, side.n, m.Name))
						continue
					}
					gm := got.Methods[i]
					if gm.Name != m.Name || (!m.CS && !m.SS && "."+gm.In != m.In) || gm.CS != m.CS || gm.SS != m.SS {
						out = append(out, fmt.Sprintf("service %s (%s family): grpc.ServiceDesc method #%d is %+v, the descriptor declares %s(%s)", it.name, side.n, i, gm, m.Name, m.In))
					}
				}
				if len(got.Methods) > len(want.Methods) {
					out = append(out, fmt.Sprintf("service %s (%s family): grpc.ServiceDesc has %d methods, the descriptor %d", it.name, side.n, len(got.Methods), len(want.Methods)))
				}
			}
		}
	case "src":
		// the rows of the table extracted from the text of this file, numbered as the Coq check
		// numbers them (the classification key ends in .at<row>)
		on := false
		i := 0
		for _, r := range sourceRows(x.srcs) {
			if strings.HasPrefix(r, "RFile ") {
				on = r == "RFile "+coqStr(it.file)+" "+coqStr(srcPkg(x, it.file))
			}
			if on {
				out = append(out, fmt.Sprintf("source row %d: %s", i, r))
				i++
			}
		}
	case "file", "enum", "svc":
		// rendered generically
		ga, pa := renderItem(x.gogo, it), renderItem(x.pulsar, it)
		if ga != pa && (isGogoScope(x, it.file) || ga != "") {
			out = append(out, fmt.Sprintf("file %s %s %s: gogoproto family says %s; api family says %s", it.file, it.item, it.name, ga, pa))
		}
	}
	return out
}

func srcPkg(x *index, file string) string {
	for _, s := range x.srcs {
		if s.Name == file {
			return s.Pkg
		}
	}
	return ""
}

func isGogoScope(x *index, file string) bool {
	for _, s := range x.srcs {
		if s.Name == file {
			return s.GoPackage
		}
	}
	return true
}

func renderItem(fam Family, it staticItem) string {
	f := findFile(fam.Files, it.file)
	if f == nil {
		return ""
	}
	switch it.item {
	case "file":
		return fmt.Sprintf("pkg=%s syntax=%s deps=%v", f.Pkg, f.Syntax, f.Deps)
	case "enum":
		for _, e := range f.Enums {
			if e.Full == it.name {
				return fmt.Sprintf("%+v", e)
			}
		}
	case "svc":
		for _, s := range f.Services {
			if s.Full == it.name {
				return fmt.Sprintf("%+v", s)
			}
		}
	}
	return ""
}

var regCache []string

func registered() []string {
	if regCache == nil {
		regCache = registeredMsgs()
		if regCache == nil {
			regCache = []string{}
		}
	}
	return regCache
}

// ---- executing a wire case against both families ----

const (
	errPulsarBuild = 1 << iota
	errPulsarMarshal
	errGogoType
	errGogoUnmarshal
	errGogoMarshal
	errPulsarUnmarshal
	errGogoUnmarshal2
	errPulsarMarshal2
)

func setPulsar(m protoreflect.Message, fs []FV) error {
	md := m.Descriptor()
	for _, fv := range fs {
		fd := md.Fields().ByNumber(protoreflect.FieldNumber(fv.Num))
		if fd == nil {
			return fmt.Errorf("message %s: field number %d does not exist in the api family", md.FullName(), fv.Num)
		}
		scalar := func(fd protoreflect.FieldDescriptor, v Val) (protoreflect.Value, error) {
			switch fd.Kind() {
			case protoreflect.StringKind:
				if v.K != "b" {
					break
				}
				return protoreflect.ValueOfString(string(v.bytes())), nil
			case protoreflect.BytesKind:
				if v.K != "b" {
					break
				}
				return protoreflect.ValueOfBytes(v.bytes()), nil
			case protoreflect.BoolKind:
				if v.K != "i" {
					break
				}
				return protoreflect.ValueOfBool(v.u64() != 0), nil
			case protoreflect.Int32Kind:
				if v.K != "i" {
					break
				}
				return protoreflect.ValueOfInt32(int32(int64(v.u64()))), nil
			case protoreflect.Int64Kind:
				if v.K != "i" {
					break
				}
				return protoreflect.ValueOfInt64(int64(v.u64())), nil
			case protoreflect.Uint32Kind:
				if v.K != "i" {
					break
				}
				return protoreflect.ValueOfUint32(uint32(v.u64())), nil
			case protoreflect.Uint64Kind:
				if v.K != "i" {
					break
				}
				return protoreflect.ValueOfUint64(v.u64()), nil
			case protoreflect.EnumKind:
				if v.K != "i" {
					break
				}
				return protoreflect.ValueOfEnum(protoreflect.EnumNumber(int32(int64(v.u64())))), nil
			}
			return protoreflect.Value{}, fmt.Errorf("message %s field %s: api family declares kind %v, the value is %q", md.FullName(), fd.Name(), fd.Kind(), v.K)
		}
		switch {
		case fd.IsMap():
			if fv.V.K != "m" || len(fv.V.F) != 2 {
				return fmt.Errorf("message %s field %s: map entry expected", md.FullName(), fd.Name())
			}
			mp := m.Mutable(fd).Map()
			k, err := scalar(fd.MapKey(), fv.V.F[0].V)
			if err != nil {
				return err
			}
			var val protoreflect.Value
			if fd.MapValue().Kind() == protoreflect.MessageKind {
				val = mp.NewValue()
				if err := setPulsar(val.Message(), fv.V.F[1].V.F); err != nil {
					return err
				}
			} else if val, err = scalar(fd.MapValue(), fv.V.F[1].V); err != nil {
				return err
			}
			mp.Set(k.MapKey(), val)
		case fd.IsList():
			l := m.Mutable(fd).List()
			if fv.V.K == "p" {
				for _, s := range fv.V.P {
					e, err := scalar(fd, Val{K: "i", N: s})
					if err != nil {
						return err
					}
					l.Append(e)
				}
			} else if fd.Kind() == protoreflect.MessageKind {
				if fv.V.K != "m" {
					return fmt.Errorf("message %s field %s: api family declares a message, the value is %q", md.FullName(), fd.Name(), fv.V.K)
				}
				e := l.NewElement()
				if err := setPulsar(e.Message(), fv.V.F); err != nil {
					return err
				}
				l.Append(e)
			} else {
				e, err := scalar(fd, fv.V)
				if err != nil {
					return err
				}
				l.Append(e)
			}
		case fd.Kind() == protoreflect.MessageKind:
			if fv.V.K != "m" {
				return fmt.Errorf("message %s field %s: api family declares a message, the value is %q", md.FullName(), fd.Name(), fv.V.K)
			}
			if err := setPulsar(m.Mutable(fd).Message(), fv.V.F); err != nil {
				return err
			}
		default:
			e, err := scalar(fd, fv.V)
			if err != nil {
				return err
			}
			m.Set(fd, e)
		}
	}
	return nil
}

var detMarshal = proto.MarshalOptions{Deterministic: true}

func gogoNew(name string) gogoproto.Message {
	t := gogoproto.MessageType(name)
	if t == nil {
		return nil
	}
	g, _ := reflect.New(t.Elem()).Interface().(gogoproto.Message)
	return g
}

func safely(f func() error) (err error) {
	defer func() {
		if r := recover(); r != nil {
			err = fmt.Errorf("panic: %v", r)
		}
	}()
	return f()
}

func execWire(h History) lib.Case {
	c := lib.Case{Stats: map[string]int{}}
	lib.Stat(c.Stats, "mode:"+h.Mode)
	mode := map[string]int{"populated": 0, "absent": 1, "maporder": 2, "mismatch": 3}[h.Mode]
	var pb, gb, g2b, p2b []byte
	errs := 0
	eqp, unstable := false, false
	note := func(bit int, what string, err error) {
		errs |= bit
		c.Steps = append(c.Steps, fmt.Sprintf("%s: %v", what, err))
	}
	mt, err := protoregistry.GlobalTypes.FindMessageByName(protoreflect.FullName(h.Msg))
	var P proto.Message
	if err != nil {
		note(errPulsarBuild, "api family has no type "+h.Msg, err)
	} else if mode != 3 {
		pm := mt.New()
		if err := safely(func() error { return setPulsar(pm, h.Fields) }); err != nil {
			note(errPulsarBuild, "api family cannot hold the value", err)
		} else {
			P = pm.Interface()
			if pb, err = detMarshal.Marshal(P); err != nil {
				note(errPulsarMarshal, "api family marshal", err)
			}
		}
	}
	if mode == 3 {
		pb = goEnc(vMsg(h.Fields...)) // the bytes as the gogoproto family lays the message out
	}
	gogoRound := func(in []byte, bit int, what string) []byte {
		g := gogoNew(h.Msg)
		if g == nil {
			note(errGogoType, "gogoproto family has no type "+h.Msg, fmt.Errorf("not registered"))
			return nil
		}
		if err := safely(func() error { return gogoproto.Unmarshal(in, g) }); err != nil {
			note(bit, what+": gogoproto family unmarshal", err)
			return nil
		}
		var out []byte
		if err := safely(func() (e error) { out, e = gogoproto.Marshal(g); return }); err != nil {
			note(errGogoMarshal, what+": gogoproto family marshal", err)
			return nil
		}
		if mode == 2 {
			// the generated marshaller ranges over Go maps: look for an order different from the first
			for i := 0; i < 256; i++ {
				o2, _ := gogoproto.Marshal(g)
				if string(o2) != string(out) {
					unstable = true
					if string(o2) == string(in) {
						out = o2
					}
				}
				if unstable && string(out) == string(in) {
					break
				}
			}
		}
		return out
	}
	if errs == 0 {
		gb = gogoRound(pb, errGogoUnmarshal, "bytes of the api family")
	}
	if errs == 0 {
		g2b = gogoRound(gb, errGogoUnmarshal2, "its own bytes")
		if mode == 2 && string(g2b) != string(gb) {
			// several orders are possible; stability is reported by `unstable`
			g2b = gb
		}
	}
	if errs == 0 && mt != nil {
		p2 := mt.New().Interface()
		if err := safely(func() error { return proto.Unmarshal(gb, p2) }); err != nil {
			note(errPulsarUnmarshal, "bytes of the gogoproto family: api family unmarshal", err)
		} else {
			if len(p2.ProtoReflect().GetUnknown()) > 0 {
				c.Steps = append(c.Steps, "api family kept unknown fields when decoding the gogoproto family's bytes")
			}
			if p2b, err = detMarshal.Marshal(p2); err != nil {
				note(errPulsarMarshal2, "api family re-marshal", err)
			}
			if P != nil {
				eqp = proto.Equal(P, p2)
			} else if mode == 3 {
				eqp = len(p2.ProtoReflect().GetUnknown()) == 0 && string(p2b) == string(gb)
			}
		}
	}
	// every distinct byte string is bound once; the whole case is read in N_scope
	var lets strings.Builder
	names := map[string]string{}
	hx := func(b []byte) string {
		if n, ok := names[string(b)]; ok {
			return n
		}
		n := fmt.Sprintf("b%d", len(names))
		names[string(b)] = n
		lets.WriteString("let " + n + " := BY " + coqChunks(b) + " in ")
		return n
	}
	a1, a2, a3, a4 := hx(pb), hx(gb), hx(g2b), hx(p2b)
	c.Coq = fmt.Sprintf("(%smkW %d %s %s %s %s %s %s %s %s %d)%%N", lets.String(), mode, coqStr(h.Msg), vMsg(h.Fields...).coq(), a1, a2, a3, a4, lib.B(eqp), lib.B(unstable), errs)
	c.Steps = append([]string{fmt.Sprintf("%s %s value=%s", h.Mode, h.Msg, vMsg(h.Fields...).coq()),
		"api bytes        " + hex.EncodeToString(pb), "gogo bytes       " + hex.EncodeToString(gb),
		"gogo re-encoded  " + hex.EncodeToString(g2b), "api re-encoded   " + hex.EncodeToString(p2b),
		fmt.Sprintf("api decoded equal=%v unstable=%v errors=%d", eqp, unstable, errs)}, c.Steps...)
	if string(pb) != string(gb) {
		lib.Stat(c.Stats, "res:differ")
	} else {
		lib.Stat(c.Stats, "res:ok")
	}
	if errs != 0 {
		lib.Stat(c.Stats, "res:error")
	}
	lib.Stat(c.Stats, fmt.Sprintf("bytes:2^%d", bitlen(len(pb))))
	c.NonTrivial = hasStructure(vMsg(h.Fields...))
	return c
}

func bitlen(n int) int {
	k := 0
	for n > 0 {
		k++
		n >>= 1
	}
	return k
}

// non-trivial (DESIGN appendix A): the value sets a nested, repeated, map or Any field
func hasStructure(v Val) bool {
	for i, f := range v.F {
		if f.V.K == "m" || f.V.K == "p" {
			return true
		}
		if i > 0 && v.F[i-1].Num == f.Num {
			return true
		}
	}
	return false
}

func execStatic(h History) lib.Case {
	x := getIndex()
	c := lib.Case{Stats: map[string]int{}}
	lib.Stat(c.Stats, "static:"+h.Item)
	it := staticItem{h.Item, h.File, h.Name}
	switch h.Item {
	case "file":
		c.Coq = "SFile " + coqStr(h.Name)
	case "msg":
		c.Coq = fmt.Sprintf("SMsg %s %s", coqStr(h.File), coqStr(h.Name))
	case "enum":
		c.Coq = fmt.Sprintf("SEnum %s %s", coqStr(h.File), coqStr(h.Name))
	case "svc":
		c.Coq = fmt.Sprintf("SSvc %s %s", coqStr(h.File), coqStr(h.Name))
	case "tx":
		c.Coq = "STx " + coqStr(h.Name)
	case "src":
		c.Coq = "SSrc " + coqStr(h.Name)
	case "dep":
		c.Coq = "SDep " + coqStr(h.Name)
	case "grpc":
		c.Coq = "SGrpc " + coqStr(h.Name)
	default:
		c.Coq = "SNone"
	}
	c.Steps = append([]string{fmt.Sprintf("static %s %s (%s)", h.Item, h.Name, h.File)}, describeStatic(x, it)...)
	return c
}

func genHistory(r *lib.Rand, tier, stream string, i int) History {
	x := getIndex()
	if stream == "static" {
		items := staticItems(x)
		if i >= len(items) {
			return History{Kind: "static", Item: "none"}
		}
		return History{Kind: "static", Item: items[i].item, File: items[i].file, Name: items[i].name}
	}
	var pool []string
	switch stream {
	case "mismatch":
		for _, n := range x.order {
			if x.mismatch[n] {
				pool = append(pool, n)
			}
		}
	case "maporder":
		for _, n := range x.hasMap {
			if !x.mismatch[n] {
				pool = append(pool, n)
			}
		}
	default:
		for _, n := range x.order {
			if !x.mismatch[n] {
				pool = append(pool, n)
			}
		}
	}
	if len(pool) == 0 {
		return History{Kind: "static", Item: "none"}
	}
	// round 0 visits every message type once (maximal value); later rounds skip the types that
	// have no field at all (MsgXxxResponse {}), whose only value is the empty one
	name := ""
	round := 0
	if i < len(pool) {
		name = pool[i]
	} else {
		var rich []string
		for _, n := range pool {
			if len(x.msgs[n].Fields) > 0 {
				rich = append(rich, n)
			}
		}
		if len(rich) == 0 {
			rich = pool
		}
		j := i - len(pool)
		name = rich[j%len(rich)]
		round = 1 + j/len(rich)
	}
	g := &gen{r: r, x: x, mode: stream}
	switch round % 4 {
	case 0:
		g.st = stMax
	case 3:
		g.st = stEmpty
	default:
		g.st = stRandom
	}
	if stream == "maporder" || stream == "mismatch" {
		g.st = stRandom
	}
	v := g.message(name, 0)
	return History{Kind: "wire", Mode: stream, Msg: name, Fields: v.F}
}

func runStreams() {
	lib.Main(lib.Driver[History]{
		Gen: genHistory,
		Exec: func(h History) lib.Case {
			if h.Kind == "wire" {
				return execWire(h)
			}
			return execStatic(h)
		},
	})
}
