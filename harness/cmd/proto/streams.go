package main

func runStreams() {}
