// Gallina rendering of the descriptor model (coq/Gen/Descriptors.v).
package main

import (
	"fmt"
	"os"
	"path/filepath"
	"sort"
	"strings"

	codectypes "github.com/cosmos/cosmos-sdk/codec/types"
	sdk "github.com/cosmos/cosmos-sdk/types"

	coinswaptypes "mods.irisnet.org/modules/coinswap/types"
	farmtypes "mods.irisnet.org/modules/farm/types"
	htlctypes "mods.irisnet.org/modules/htlc/types"
	mttypes "mods.irisnet.org/modules/mt/types"
	nfttypes "mods.irisnet.org/modules/nft/types"
	oracletypes "mods.irisnet.org/modules/oracle/types"
	randomtypes "mods.irisnet.org/modules/random/types"
	recordtypes "mods.irisnet.org/modules/record/types"
	servicetypes "mods.irisnet.org/modules/service/types"
	tokenv1 "mods.irisnet.org/modules/token/types/v1"
	tokenv1beta1 "mods.irisnet.org/modules/token/types/v1beta1"

	"verifharness/lib"
)

func coqStr(s string) string {
	for _, c := range []byte(s) {
		if c < 32 || c > 126 {
			panic(fmt.Sprintf("non-printable byte in descriptor string %q", s))
		}
	}
	return `"` + strings.ReplaceAll(s, `"`, `""`) + `"`
}
func coqBool(b bool) string {
	if b {
		return "true"
	}
	return "false"
}
func coqZ(x int64) string {
	if x < 0 {
		return fmt.Sprintf("(%d)", x)
	}
	return fmt.Sprintf("%d", x)
}
func coqList(items []string, sep string) string { return "[" + strings.Join(items, sep) + "]" }

func coqOpts(os []Opt) string {
	var xs []string
	for _, o := range os {
		xs = append(xs, fmt.Sprintf("mkOpt %d %d %s", o.Num, o.Wt, coqStr(o.Hex)))
	}
	return coqList(xs, "; ")
}
func coqStrs(ss []string) string {
	var xs []string
	for _, s := range ss {
		xs = append(xs, coqStr(s))
	}
	return coqList(xs, "; ")
}

func coqField(f Field) string {
	one := "None"
	if f.Oneof >= 0 {
		one = fmt.Sprintf("(Some %d%%N)", f.Oneof)
	}
	return fmt.Sprintf("mkField %s %d %d %d %s %s %s %s %s %s", coqStr(f.Name), f.Num, f.Kind, f.Label, coqStr(f.Type),
		coqStr(f.Json), coqBool(f.P3Opt), one, coqStr(f.Defval), coqOpts(f.Opts))
}

func coqFile(f File) string {
	var b strings.Builder
	fmt.Fprintf(&b, "  mkFile %s %s %s %s\n", coqStr(f.Name), coqStr(f.Pkg), coqStr(f.Syntax), coqStrs(f.Deps))
	var ms []string
	for _, m := range f.Msgs {
		var fs []string
		for _, x := range m.Fields {
			fs = append(fs, "\n        "+coqField(x))
		}
		ms = append(ms, fmt.Sprintf("\n      mkMsg %s %s %s %s", coqStr(m.Full), coqList(fs, ";"), coqStrs(m.Oneofs), coqOpts(m.Opts)))
	}
	fmt.Fprintf(&b, "    %s\n", coqList(ms, ";"))
	var es []string
	for _, e := range f.Enums {
		var vs []string
		for _, v := range e.Values {
			vs = append(vs, fmt.Sprintf("mkEV %s %s %s", coqStr(v.Name), coqZ(int64(v.Num)), coqOpts(v.Opts)))
		}
		es = append(es, fmt.Sprintf("\n      mkEnum %s %s %s", coqStr(e.Full), coqList(vs, "; "), coqOpts(e.Opts)))
	}
	fmt.Fprintf(&b, "    %s\n", coqList(es, ";"))
	var ss []string
	for _, s := range f.Services {
		var mds []string
		for _, m := range s.Methods {
			mds = append(mds, fmt.Sprintf("\n        mkMethod %s %s %s %s %s %s", coqStr(m.Name), coqStr(m.In), coqStr(m.Out), coqBool(m.CS), coqBool(m.SS), coqOpts(m.Opts)))
		}
		ss = append(ss, fmt.Sprintf("\n      mkSvc %s %s %s", coqStr(s.Full), coqList(mds, ";"), coqOpts(s.Opts)))
	}
	fmt.Fprintf(&b, "    %s\n", coqList(ss, ";"))
	fmt.Fprintf(&b, "    %s", coqOpts(f.Opts))
	return b.String()
}

func coqFiles(name string, fs []File) string {
	var xs []string
	for _, f := range fs {
		xs = append(xs, coqFile(f))
	}
	return fmt.Sprintf("Definition %s : list file := [\n%s\n].\n\n", name, strings.Join(xs, ";\n"))
}

func repoRoot() string {
	r := os.Getenv("VERIF_REPO")
	if r == "" {
		r = "/repo"
	}
	return r
}

// registeredMsgs lists the type URLs that the application's interface registry (the one the
// SimApp builds from the ten modules' RegisterInterfaces) resolves as sdk.Msg implementations.
func registeredMsgs() []string {
	urls, err := appRegistered()
	if err != nil {
		// the application does not even start (baseapp's MsgServiceRouter refuses a service whose
		// request type is not registered): fall back to what the modules' RegisterInterfaces
		// functions register on a fresh registry, so that the unregistered message can be named
		fmt.Fprintln(os.Stderr, "proto: application does not start, using the modules' RegisterInterfaces directly:", err)
		urls = directRegistered()
	}
	var out []string
	for _, u := range urls {
		if strings.HasPrefix(u, "/irismod.") {
			out = append(out, u)
		}
	}
	sort.Strings(out)
	return out
}

func appRegistered() (urls []string, err error) {
	defer func() {
		if r := recover(); r != nil {
			err = fmt.Errorf("%v", r)
		}
	}()
	e := lib.NewEnv(lib.EnvOpts{NActors: 1})
	return e.App.InterfaceRegistry().ListImplementations(sdk.MsgInterfaceProtoName), nil
}

func directRegistered() []string {
	reg := codectypes.NewInterfaceRegistry()
	sdk.RegisterInterfaces(reg) // declares the interface cosmos.base.v1beta1.Msg itself
	for _, f := range []func(codectypes.InterfaceRegistry){
		coinswaptypes.RegisterInterfaces, farmtypes.RegisterInterfaces, htlctypes.RegisterInterfaces,
		mttypes.RegisterInterfaces, nfttypes.RegisterInterfaces, oracletypes.RegisterInterfaces,
		randomtypes.RegisterInterfaces, recordtypes.RegisterInterfaces, servicetypes.RegisterInterfaces,
		tokenv1.RegisterInterfaces, tokenv1beta1.RegisterInterfaces,
	} {
		func() {
			defer func() { _ = recover() }()
			f(reg)
		}()
	}
	return reg.ListImplementations(sdk.MsgInterfaceProtoName)
}

func gallinaAll() string {
	g := family(gogoFDs())
	p := family(pulsarFDs())
	srcs := readSources(filepath.Join(repoRoot(), "proto"))
	var b strings.Builder
	b.WriteString("(** GENERATED by `harness/cmd/proto descriptors` on every check run - do not edit.\n")
	b.WriteString("    The descriptors that the two generated protobuf families of irismod register, read from\n")
	b.WriteString("    the gogoproto registry and from protobuf-go's global registry in one process; the sdk.Msg\n")
	b.WriteString("    implementations the application's interface registry knows; the table extracted from the\n")
	b.WriteString("    text of proto/irismod/**/*.proto. *)\n")
	b.WriteString("From Irismod Require Import Proto.Desc.\nLocal Open Scope string_scope.\nLocal Open Scope N_scope.\n\n")
	b.WriteString(coqFiles("gogo_files", g.Files))
	b.WriteString(coqFiles("pulsar_files", p.Files))
	b.WriteString(coqFiles("gogo_deps", g.Deps))
	b.WriteString(coqFiles("pulsar_deps", p.Deps))
	gg, pg := grpcDescs()
	b.WriteString("(** the grpc.ServiceDesc values of the generated Go code (service name, .proto file named in the\n    metadata, methods: name, request type the handler decodes, client/server streaming) *)\n")
	b.WriteString(coqGSvcs("gogo_grpc", orderLike(gg, g.Files)))
	b.WriteString(coqGSvcs("pulsar_grpc", orderLike(pg, p.Files)))
	b.WriteString("(** type URLs registered as sdk.Msg (cosmos.base.v1beta1.Msg) implementations *)\n")
	b.WriteString("Definition registered_msgs : list string := " + coqList(mapStr(registeredMsgs(), func(s string) string { return "\n  " + coqStr(s) }), ";") + ".\n\n")
	var all, scoped []string
	for _, s := range srcs {
		all = append(all, "\n  "+coqStr(s.Name))
		if s.GoPackage {
			scoped = append(scoped, "\n  "+coqStr(s.Name))
		}
	}
	b.WriteString("(** every .proto file under proto/irismod; those declaring [option go_package] (the rule of\n    scripts/protocgen.sh for generating the gogoproto family) *)\n")
	b.WriteString("Definition source_files : list string := " + coqList(all, ";") + ".\n")
	b.WriteString("Definition gogo_scope : list string := " + coqList(scoped, ";") + ".\n\n")
	var agg []string
	for _, n := range aggregateOpts() {
		agg = append(agg, fmt.Sprintf("(%s, %s)", coqStr(n[0]), n[1]))
	}
	b.WriteString("(** option numbers whose value is a message (google.api.http, cosmos.app.v1alpha1.module, ...): the\n    .proto text is compared with the descriptors on their presence only *)\n")
	b.WriteString("Definition aggregate_opts : list (string * N) := " + coqList(agg, "; ") + ".\n\n")
	rows := sourceRows(srcs)
	b.WriteString("Definition source_rows : list srow := " + coqList(mapStr(rows, func(s string) string { return "\n  " + s }), ";") + ".\n")
	return b.String()
}

func mapStr(xs []string, f func(string) string) []string {
	out := make([]string, len(xs))
	for i, x := range xs {
		out[i] = f(x)
	}
	return out
}
