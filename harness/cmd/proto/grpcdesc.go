// The gRPC service descriptors (grpc.ServiceDesc) that the two generated families hand to a gRPC
// server: modules/*/types/{tx,query}.pb.go (_Msg_serviceDesc, _Query_serviceDesc) and
// api/irismod/**/{tx,query}_grpc.pb.go (Msg_ServiceDesc, Query_ServiceDesc).  They are Go values,
// not part of the embedded file descriptors, and route requests by the names they carry; the
// translator prints them next to the descriptors and Props/C20.v [grpc_descs_agree] compares them
// with the services the descriptors declare.  A package added to the repository must be added here
// (all_sources_generated notices a .proto file whose generated code is not linked).
package main

import (
	"context"
	"errors"
	"fmt"
	"sort"

	gogoproto "github.com/cosmos/gogoproto/proto"
	"google.golang.org/grpc"
	"google.golang.org/protobuf/proto"

	coinswapapi "mods.irisnet.org/api/irismod/coinswap"
	farmapi "mods.irisnet.org/api/irismod/farm"
	htlcapi "mods.irisnet.org/api/irismod/htlc"
	mtapi "mods.irisnet.org/api/irismod/mt"
	nftapi "mods.irisnet.org/api/irismod/nft"
	oracleapi "mods.irisnet.org/api/irismod/oracle"
	randomapi "mods.irisnet.org/api/irismod/random"
	recordapi "mods.irisnet.org/api/irismod/record"
	serviceapi "mods.irisnet.org/api/irismod/service"
	tokenv1api "mods.irisnet.org/api/irismod/token/v1"
	tokenv1beta1api "mods.irisnet.org/api/irismod/token/v1beta1"
	coinswaptypes "mods.irisnet.org/modules/coinswap/types"
	farmtypes "mods.irisnet.org/modules/farm/types"
	htlctypes "mods.irisnet.org/modules/htlc/types"
	mttypes "mods.irisnet.org/modules/mt/types"
	nfttypes "mods.irisnet.org/modules/nft/types"
	oracletypes "mods.irisnet.org/modules/oracle/types"
	randomtypes "mods.irisnet.org/modules/random/types"
	recordtypes "mods.irisnet.org/modules/record/types"
	servicetypes "mods.irisnet.org/modules/service/types"
	tokenv1 "mods.irisnet.org/modules/token/types/v1"
	tokenv1beta1 "mods.irisnet.org/modules/token/types/v1beta1"
)

// GMethod is one entry of a grpc.ServiceDesc: the method name it routes, the request type its
// handler decodes (full protobuf name), and the streaming flags.
type GMethod struct {
	Name   string
	In     string
	CS, SS bool
}

type GSvc struct {
	Name     string
	Methods  []GMethod
	Metadata string // the .proto file the generated code names
}

type capture struct{ descs []*grpc.ServiceDesc }

func (c *capture) RegisterService(sd *grpc.ServiceDesc, _ interface{}) { c.descs = append(c.descs, sd) }

var errStop = errors.New("stop")

// requestType runs a unary handler with a decoder that only records the request object the
// generated handler allocates.
func requestType(h func(srv interface{}, ctx context.Context, dec func(interface{}) error, interceptor grpc.UnaryServerInterceptor) (interface{}, error)) (name string) {
	defer func() {
		if r := recover(); r != nil {
			name = fmt.Sprintf("<handler panicked: %v>", r)
		}
	}()
	_, _ = h(nil, context.Background(), func(in interface{}) error {
		switch m := in.(type) {
		case proto.Message:
			name = string(m.ProtoReflect().Descriptor().FullName())
		case gogoproto.Message:
			name = gogoproto.MessageName(m)
		default:
			name = fmt.Sprintf("<%T>", in)
		}
		return errStop
	}, nil)
	return name
}

func convSvc(sd *grpc.ServiceDesc) GSvc {
	s := GSvc{Name: sd.ServiceName, Metadata: fmt.Sprint(sd.Metadata)}
	for _, m := range sd.Methods {
		s.Methods = append(s.Methods, GMethod{Name: m.MethodName, In: requestType(m.Handler)})
	}
	for _, m := range sd.Streams {
		s.Methods = append(s.Methods, GMethod{Name: m.StreamName, CS: m.ClientStreams, SS: m.ServerStreams})
	}
	return s
}

// grpcDescs returns the service descriptors of the gogoproto family and of the api family.
func grpcDescs() (gogo, pulsar []GSvc) {
	g, p := &capture{}, &capture{}
	coinswaptypes.RegisterMsgServer(g, nil)
	coinswaptypes.RegisterQueryServer(g, nil)
	farmtypes.RegisterMsgServer(g, nil)
	farmtypes.RegisterQueryServer(g, nil)
	htlctypes.RegisterMsgServer(g, nil)
	htlctypes.RegisterQueryServer(g, nil)
	mttypes.RegisterMsgServer(g, nil)
	mttypes.RegisterQueryServer(g, nil)
	nfttypes.RegisterMsgServer(g, nil)
	nfttypes.RegisterQueryServer(g, nil)
	oracletypes.RegisterMsgServer(g, nil)
	oracletypes.RegisterQueryServer(g, nil)
	randomtypes.RegisterMsgServer(g, nil)
	randomtypes.RegisterQueryServer(g, nil)
	recordtypes.RegisterMsgServer(g, nil)
	recordtypes.RegisterQueryServer(g, nil)
	servicetypes.RegisterMsgServer(g, nil)
	servicetypes.RegisterQueryServer(g, nil)
	tokenv1.RegisterMsgServer(g, nil)
	tokenv1.RegisterQueryServer(g, nil)
	tokenv1beta1.RegisterMsgServer(g, nil)
	tokenv1beta1.RegisterQueryServer(g, nil)
	coinswapapi.RegisterMsgServer(p, nil)
	coinswapapi.RegisterQueryServer(p, nil)
	farmapi.RegisterMsgServer(p, nil)
	farmapi.RegisterQueryServer(p, nil)
	htlcapi.RegisterMsgServer(p, nil)
	htlcapi.RegisterQueryServer(p, nil)
	mtapi.RegisterMsgServer(p, nil)
	mtapi.RegisterQueryServer(p, nil)
	nftapi.RegisterMsgServer(p, nil)
	nftapi.RegisterQueryServer(p, nil)
	oracleapi.RegisterMsgServer(p, nil)
	oracleapi.RegisterQueryServer(p, nil)
	randomapi.RegisterMsgServer(p, nil)
	randomapi.RegisterQueryServer(p, nil)
	recordapi.RegisterMsgServer(p, nil)
	recordapi.RegisterQueryServer(p, nil)
	serviceapi.RegisterMsgServer(p, nil)
	serviceapi.RegisterQueryServer(p, nil)
	tokenv1api.RegisterMsgServer(p, nil)
	tokenv1api.RegisterQueryServer(p, nil)
	tokenv1beta1api.RegisterMsgServer(p, nil)
	tokenv1beta1api.RegisterQueryServer(p, nil)
	for _, sd := range g.descs {
		gogo = append(gogo, convSvc(sd))
	}
	for _, sd := range p.descs {
		pulsar = append(pulsar, convSvc(sd))
	}
	return gogo, pulsar
}

// orderLike sorts the service descriptors in the order in which the descriptor files declare the
// services (unknown ones last, by name), so that the Coq side can compare lists.
func orderLike(svcs []GSvc, files []File) []GSvc {
	rank := map[string]int{}
	for _, f := range files {
		for _, s := range f.Services {
			rank[s.Full] = len(rank)
		}
	}
	out := append([]GSvc{}, svcs...)
	sort.SliceStable(out, func(i, j int) bool {
		ri, oi := rank[out[i].Name]
		rj, oj := rank[out[j].Name]
		if oi != oj {
			return oi
		}
		if oi {
			return ri < rj
		}
		return out[i].Name < out[j].Name
	})
	return out
}

func coqGSvcs(name string, svcs []GSvc) string {
	var xs []string
	for _, s := range svcs {
		var ms []string
		for _, m := range s.Methods {
			ms = append(ms, fmt.Sprintf("(%s, %s, %s, %s)", coqStr(m.Name), coqStr(m.In), coqBool(m.CS), coqBool(m.SS)))
		}
		xs = append(xs, fmt.Sprintf("\n  mkGSvc %s %s %s", coqStr(s.Name), coqStr(s.Metadata), coqList(ms, "; ")))
	}
	return fmt.Sprintf("Definition %s : list gsvc := %s.\n\n", name, coqList(xs, ";"))
}
