// Descriptor extraction for C20: the file descriptor sets of BOTH generated protobuf families,
// linked into this one process, are read from their registries and turned into one neutral
// data model (printed as Gallina by gallina.go, compared by the Coq development).
//
//   - gogoproto family  (modules/*/types/*.pb.go): github.com/cosmos/gogoproto/proto.AllFileDescriptors()
//     = the gzipped FileDescriptorProto each generated file registers in its init();
//   - protobuf-go "pulsar" family (api/irismod/**/*.pulsar.go): protoregistry.GlobalFiles.
package main

import (
	"bytes"
	"compress/gzip"
	"encoding/hex"
	"fmt"
	"io"
	"sort"
	"strings"

	gogoproto "github.com/cosmos/gogoproto/proto"
	"google.golang.org/protobuf/encoding/protowire"
	"google.golang.org/protobuf/proto"
	"google.golang.org/protobuf/reflect/protodesc"
	"google.golang.org/protobuf/reflect/protoreflect"
	"google.golang.org/protobuf/reflect/protoregistry"
	"google.golang.org/protobuf/types/descriptorpb"
)

// Opt is one option, normalised to its wire form: (field number, wire type, payload).
type Opt struct {
	Num uint64
	Wt  int
	Hex string
}

type Field struct {
	Name   string
	Num    int32
	Kind   int32 // descriptorpb.FieldDescriptorProto_Type
	Label  int32 // 1 optional, 2 required, 3 repeated
	Type   string
	Json   string
	P3Opt  bool
	Oneof  int32 // -1: none
	Defval string
	Opts   []Opt
}

type EnumVal struct {
	Name string
	Num  int32
	Opts []Opt
}

type Enum struct {
	Full   string
	Values []EnumVal
	Opts   []Opt
}

type Msg struct {
	Full    string
	Fields  []Field
	Oneofs  []string
	Opts    []Opt
	Signers []string // cosmos.msg.v1.signer values (extension 11110000 of MessageOptions)
}

type Method struct {
	Name   string
	In     string
	Out    string
	CS, SS bool
	Opts   []Opt
}

type Service struct {
	Full    string
	Methods []Method
	Opts    []Opt
}

type File struct {
	Name     string
	Pkg      string
	Syntax   string
	Deps     []string
	Msgs     []Msg  // flattened, pre-order, full names
	Enums    []Enum // flattened, full names
	Services []Service
	Opts     []Opt // file-level options (dropped by [norm] in Coq)
}

const (
	optSigner      = 11110000 // cosmos.msg.v1.signer   (MessageOptions, repeated string)
	optMsgService  = 11110000 // cosmos.msg.v1.service  (ServiceOptions, bool)
	optNullable    = 65001
	optEmbed       = 65002
	optCustomType  = 65003
	optCastType    = 65007
	optStdTime     = 65010
	optStdDuration = 65011
	optMapEntry    = 7
)

// rawOpts marshals an options message and splits it into its top-level wire fields, so that
// known fields, registered extensions and unknown fields all get the same representation.
func rawOpts(m proto.Message) []Opt {
	if m == nil || !m.ProtoReflect().IsValid() {
		return nil
	}
	bz, err := proto.MarshalOptions{Deterministic: true}.Marshal(m)
	if err != nil {
		panic(err)
	}
	var out []Opt
	for len(bz) > 0 {
		num, typ, n := protowire.ConsumeTag(bz)
		if n < 0 {
			panic("bad options bytes")
		}
		bz = bz[n:]
		var payload []byte
		switch typ {
		case protowire.VarintType:
			_, k := protowire.ConsumeVarint(bz)
			payload, bz = bz[:k], bz[k:]
		case protowire.BytesType:
			v, k := protowire.ConsumeBytes(bz)
			payload, bz = v, bz[k:]
		case protowire.Fixed32Type:
			payload, bz = bz[:4], bz[4:]
		case protowire.Fixed64Type:
			payload, bz = bz[:8], bz[8:]
		default:
			k := protowire.ConsumeFieldValue(num, typ, bz)
			payload, bz = bz[:k], bz[k:]
		}
		out = append(out, Opt{Num: uint64(num), Wt: int(typ), Hex: hex.EncodeToString(payload)})
	}
	sort.SliceStable(out, func(i, j int) bool { return out[i].Num < out[j].Num })
	return out
}

func optVals(opts []Opt, num uint64) []string {
	var out []string
	for _, o := range opts {
		if o.Num == num {
			b, _ := hex.DecodeString(o.Hex)
			out = append(out, string(b))
		}
	}
	return out
}

func hasOpt(opts []Opt, num uint64) (string, bool) {
	for _, o := range opts {
		if o.Num == num {
			return o.Hex, true
		}
	}
	return "", false
}

func convField(f *descriptorpb.FieldDescriptorProto) Field {
	x := Field{Name: f.GetName(), Num: f.GetNumber(), Kind: int32(f.GetType()), Label: int32(f.GetLabel()),
		Type: f.GetTypeName(), Json: f.GetJsonName(), P3Opt: f.GetProto3Optional(), Oneof: -1, Defval: f.GetDefaultValue()}
	if f.OneofIndex != nil {
		x.Oneof = f.GetOneofIndex()
	}
	if f.Options != nil {
		x.Opts = rawOpts(f.Options)
	}
	return x
}

func convEnum(prefix string, e *descriptorpb.EnumDescriptorProto) Enum {
	x := Enum{Full: prefix + e.GetName()}
	for _, v := range e.Value {
		ev := EnumVal{Name: v.GetName(), Num: v.GetNumber()}
		if v.Options != nil {
			ev.Opts = rawOpts(v.Options)
		}
		x.Values = append(x.Values, ev)
	}
	if e.Options != nil {
		x.Opts = rawOpts(e.Options)
	}
	return x
}

func convMsg(prefix string, m *descriptorpb.DescriptorProto, f *File) {
	x := Msg{Full: prefix + m.GetName()}
	for _, fd := range m.Field {
		x.Fields = append(x.Fields, convField(fd))
	}
	for _, fd := range m.Extension {
		ff := convField(fd)
		ff.Name = "[ext]" + ff.Name
		x.Fields = append(x.Fields, ff)
	}
	for _, o := range m.OneofDecl {
		x.Oneofs = append(x.Oneofs, o.GetName())
	}
	if m.Options != nil {
		x.Opts = rawOpts(m.Options)
		x.Signers = optVals(x.Opts, optSigner)
	}
	f.Msgs = append(f.Msgs, x)
	for _, e := range m.EnumType {
		f.Enums = append(f.Enums, convEnum(x.Full+".", e))
	}
	for _, n := range m.NestedType {
		convMsg(x.Full+".", n, f)
	}
}

func convFile(fd *descriptorpb.FileDescriptorProto) File {
	f := File{Name: fd.GetName(), Pkg: fd.GetPackage(), Syntax: fd.GetSyntax(), Deps: append([]string{}, fd.Dependency...)}
	prefix := ""
	if f.Pkg != "" {
		prefix = f.Pkg + "."
	}
	for _, m := range fd.MessageType {
		convMsg(prefix, m, &f)
	}
	for _, e := range fd.EnumType {
		f.Enums = append(f.Enums, convEnum(prefix, e))
	}
	for _, s := range fd.Service {
		sv := Service{Full: prefix + s.GetName()}
		for _, m := range s.Method {
			md := Method{Name: m.GetName(), In: m.GetInputType(), Out: m.GetOutputType(), CS: m.GetClientStreaming(), SS: m.GetServerStreaming()}
			if m.Options != nil {
				md.Opts = rawOpts(m.Options)
			}
			sv.Methods = append(sv.Methods, md)
		}
		if s.Options != nil {
			sv.Opts = rawOpts(s.Options)
		}
		f.Services = append(f.Services, sv)
	}
	if fd.Options != nil {
		f.Opts = rawOpts(fd.Options)
	}
	return f
}

// gogoFDs returns every FileDescriptorProto registered with the gogoproto registry.
func gogoFDs() map[string]*descriptorpb.FileDescriptorProto {
	out := map[string]*descriptorpb.FileDescriptorProto{}
	for name, gz := range gogoproto.AllFileDescriptors() {
		r, err := gzip.NewReader(bytes.NewReader(gz))
		if err != nil {
			panic(fmt.Sprintf("gogoproto descriptor of %s: %v", name, err))
		}
		raw, err := io.ReadAll(r)
		if err != nil {
			panic(fmt.Sprintf("gogoproto descriptor of %s: %v", name, err))
		}
		fd := &descriptorpb.FileDescriptorProto{}
		if err := proto.Unmarshal(raw, fd); err != nil {
			panic(fmt.Sprintf("gogoproto descriptor of %s: %v", name, err))
		}
		out[name] = fd
	}
	return out
}

// pulsarFDs returns every FileDescriptorProto registered with protobuf-go's global registry.
func pulsarFDs() map[string]*descriptorpb.FileDescriptorProto {
	out := map[string]*descriptorpb.FileDescriptorProto{}
	protoregistry.GlobalFiles.RangeFiles(func(fd protoreflect.FileDescriptor) bool {
		out[fd.Path()] = protodesc.ToFileDescriptorProto(fd)
		return true
	})
	return out
}

func isIrismod(name string) bool { return strings.HasPrefix(name, "irismod/") }

// Family is what one registry says: the files under irismod/ and the transitive
// dependencies outside (needed by the wire model: Coin, PageRequest, Any, Timestamp, ...).
type Family struct {
	Files []File // irismod/**, sorted by name
	Deps  []File // dependency closure outside irismod/ restricted to files that define a message
	//              type referenced (transitively) from an irismod field; sorted by name
}

func family(all map[string]*descriptorpb.FileDescriptorProto) Family {
	var fam Family
	var names []string
	for n := range all {
		if isIrismod(n) {
			names = append(names, n)
		}
	}
	sort.Strings(names)
	conv := map[string]File{}
	for n, fd := range all {
		_ = n
		conv[fd.GetName()] = convFile(fd)
	}
	for _, n := range names {
		fam.Files = append(fam.Files, conv[n])
	}
	// message full name -> defining file
	where := map[string]string{}
	msgs := map[string]Msg{}
	for fn, f := range conv {
		for _, m := range f.Msgs {
			where["."+m.Full] = fn
			msgs["."+m.Full] = m
		}
	}
	need := map[string]bool{}
	var visit func(t string)
	visit = func(t string) {
		m, ok := msgs[t]
		if !ok {
			return
		}
		if fn := where[t]; !isIrismod(fn) {
			if need[t] {
				return
			}
			need[t] = true
		}
		for _, f := range m.Fields {
			if f.Kind == int32(descriptorpb.FieldDescriptorProto_TYPE_MESSAGE) {
				if isIrismod(where[f.Type]) && isIrismod(where[t]) {
					continue // visited from the outer loop
				}
				visit(f.Type)
			}
		}
	}
	for _, f := range fam.Files {
		for _, m := range f.Msgs {
			visit("." + m.Full)
		}
	}
	depFiles := map[string]bool{}
	for t := range need {
		depFiles[where[t]] = true
	}
	var dn []string
	for n := range depFiles {
		dn = append(dn, n)
	}
	sort.Strings(dn)
	for _, n := range dn {
		f := conv[n]
		// keep only the needed messages of a dependency file (and none of its services/enums)
		g := File{Name: f.Name, Pkg: f.Pkg, Syntax: f.Syntax}
		for _, m := range f.Msgs {
			if need["."+m.Full] {
				g.Msgs = append(g.Msgs, m)
			}
		}
		fam.Deps = append(fam.Deps, g)
	}
	return fam
}
