// proto: driver of property C20 (two protobuf families).
//
//	proto descriptors -out FILE   translator: writes coq/Gen/Descriptors.v
//	proto dump gogo|pulsar        debugging: plain-text rendering of one family's descriptors
//	proto gen|replay ...          case streams (lib.Main)
package main

import (
	"flag"
	"fmt"
	"os"
)

func main() {
	if len(os.Args) >= 2 {
		switch os.Args[1] {
		case "descriptors":
			fs := flag.NewFlagSet("descriptors", flag.ExitOnError)
			out := fs.String("out", "", "")
			_ = fs.Parse(os.Args[2:])
			txt := gallinaAll()
			if *out == "" {
				fmt.Print(txt)
				return
			}
			if err := os.WriteFile(*out, []byte(txt), 0o644); err != nil {
				panic(err)
			}
			return
		case "dump":
			var fam Family
			if len(os.Args) > 2 && os.Args[2] == "pulsar" {
				fam = family(pulsarFDs())
			} else {
				fam = family(gogoFDs())
			}
			dump(fam)
			return
		}
	}
	runStreams()
}

func dump(fam Family) {
	for _, set := range [][]File{fam.Files, fam.Deps} {
		for _, f := range set {
			fmt.Printf("FILE %s pkg=%s syntax=%s deps=%v opts=%v\n", f.Name, f.Pkg, f.Syntax, f.Deps, f.Opts)
			for _, m := range f.Msgs {
				fmt.Printf(" MSG %s opts=%v oneofs=%v signers=%v\n", m.Full, m.Opts, m.Oneofs, m.Signers)
				for _, x := range m.Fields {
					fmt.Printf("  F %s=%d kind=%d label=%d type=%s json=%s p3=%v oneof=%d def=%q opts=%v\n", x.Name, x.Num, x.Kind, x.Label, x.Type, x.Json, x.P3Opt, x.Oneof, x.Defval, x.Opts)
				}
			}
			for _, e := range f.Enums {
				fmt.Printf(" ENUM %s opts=%v\n", e.Full, e.Opts)
				for _, v := range e.Values {
					fmt.Printf("  V %s=%d opts=%v\n", v.Name, v.Num, v.Opts)
				}
			}
			for _, s := range f.Services {
				fmt.Printf(" SVC %s opts=%v\n", s.Full, s.Opts)
				for _, m := range s.Methods {
					fmt.Printf("  M %s(%s)->%s cs=%v ss=%v opts=%v\n", m.Name, m.In, m.Out, m.CS, m.SS, m.Opts)
				}
			}
		}
		fmt.Println("----- deps")
	}
}
