// Links BOTH generated protobuf families into this process (their init() functions register
// the descriptors).  A package that is added to the repository must be added here; the
// source-vs-descriptor comparison (proto_sources_agree / all_sources_generated) notices a
// .proto file under proto/irismod whose generated code is not linked.
package main

import (
	// gogoproto family
	_ "mods.irisnet.org/modules/coinswap/types"
	_ "mods.irisnet.org/modules/farm/types"
	_ "mods.irisnet.org/modules/htlc/types"
	_ "mods.irisnet.org/modules/mt/types"
	_ "mods.irisnet.org/modules/nft/types"
	_ "mods.irisnet.org/modules/oracle/types"
	_ "mods.irisnet.org/modules/random/types"
	_ "mods.irisnet.org/modules/record/types"
	_ "mods.irisnet.org/modules/service/types"
	_ "mods.irisnet.org/modules/token/types/v1"
	_ "mods.irisnet.org/modules/token/types/v1beta1"

	// protobuf-go (pulsar) family
	_ "mods.irisnet.org/api/irismod/coinswap"
	_ "mods.irisnet.org/api/irismod/coinswap/module/v1"
	_ "mods.irisnet.org/api/irismod/farm"
	_ "mods.irisnet.org/api/irismod/farm/module/v1"
	_ "mods.irisnet.org/api/irismod/htlc"
	_ "mods.irisnet.org/api/irismod/htlc/module/v1"
	_ "mods.irisnet.org/api/irismod/mt"
	_ "mods.irisnet.org/api/irismod/mt/module/v1"
	_ "mods.irisnet.org/api/irismod/nft"
	_ "mods.irisnet.org/api/irismod/nft/module/v1"
	_ "mods.irisnet.org/api/irismod/oracle"
	_ "mods.irisnet.org/api/irismod/oracle/module/v1"
	_ "mods.irisnet.org/api/irismod/random"
	_ "mods.irisnet.org/api/irismod/random/module/v1"
	_ "mods.irisnet.org/api/irismod/record"
	_ "mods.irisnet.org/api/irismod/record/module/v1"
	_ "mods.irisnet.org/api/irismod/service"
	_ "mods.irisnet.org/api/irismod/service/module/v1"
	_ "mods.irisnet.org/api/irismod/token/module/v1"
	_ "mods.irisnet.org/api/irismod/token/v1"
	_ "mods.irisnet.org/api/irismod/token/v1beta1"
)
