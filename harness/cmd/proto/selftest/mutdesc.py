#!/usr/bin/env python3
"""Self-test helper of C20: edit the file descriptor embedded in a generated Go file.

  mutdesc.py FILE.go VAR FIND_HEX REPLACE_HEX [--gzip] [--nth K]

VAR is the Go variable holding the descriptor (`file_..._rawDesc` in *.pulsar.go, raw;
`fileDescriptor_<hash>` in *.pb.go, gzipped -> --gzip).  The K-th (default first) occurrence of
FIND_HEX in the (decompressed) descriptor is replaced by REPLACE_HEX (same length, so that no
enclosing length prefix changes) and the Go literal is rewritten.  This simulates regenerating ONE
family after a .proto edit.  Undo with `git checkout -- FILE.go`.
"""
import gzip, re, sys

def main():
    args = [a for a in sys.argv[1:] if not a.startswith("--")]
    gz = "--gzip" in sys.argv
    nth = 0
    if "--nth" in sys.argv:
        nth = int(sys.argv[sys.argv.index("--nth") + 1])
        args.remove(str(nth))
    path, var, find, repl = args
    find, repl = bytes.fromhex(find), bytes.fromhex(repl)
    if len(find) != len(repl):
        sys.exit("FIND and REPLACE must have the same length")
    src = open(path).read()
    m = re.search(r"(var\s+" + re.escape(var) + r"\s*=\s*\[\]byte\{)(.*?)(\n\})", src, re.S)
    if not m:
        sys.exit("variable %s not found in %s" % (var, path))
    body = re.sub(r"//[^\n]*", "", m.group(2))
    data = bytes(int(x, 16) for x in re.findall(r"0x([0-9a-fA-F]{2})", body))
    if gz:
        data = gzip.decompress(data)
    pos = -1
    for _ in range(nth + 1):
        pos = data.find(find, pos + 1)
        if pos < 0:
            sys.exit("pattern not found")
    data = data[:pos] + repl + data[pos + len(find):]
    if gz:
        data = gzip.compress(data, mtime=0)
    lines = []
    for i in range(0, len(data), 16):
        lines.append("\t" + " ".join("0x%02x," % b for b in data[i:i + 16]))
    src = src[:m.start(2)] + "\n" + "\n".join(lines) + src[m.end(2):]
    open(path, "w").write(src)
    print("%s: %s patched at offset %d" % (path, var, pos))

main()
