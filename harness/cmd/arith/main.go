// arith: differential stream validating coq/Base/Dec.v against cosmossdk.io/math (LegacyDec, Int).
package main

import (
	"fmt"
	"math/big"

	sdkmath "cosmossdk.io/math"

	"verifharness/lib"
)

type Op struct {
	Op   int
	A, B string // decimal strings of the raw scaled integers (LegacyDec) or plain integers
}
type History struct{ Ops []Op }

const nOps = 11

func gen(r *lib.Rand, tier, stream string, i int) History {
	var h History
	p18 := new(big.Int).Exp(big.NewInt(10), big.NewInt(18), nil)
	for k := 0; k < 40; k++ {
		op := r.Intn(nOps)
		a := r.Big(150)
		b := r.Big(150)
		switch r.Intn(6) {
		case 0: // exact multiples and half-way cases
			a = new(big.Int).Mul(r.Big(60), p18)
			b = new(big.Int).Add(new(big.Int).Mul(r.Big(30), p18), new(big.Int).Div(p18, big.NewInt(2)))
		case 1:
			b = new(big.Int).Set(p18)
		case 2:
			a = r.Big(70)
			b = r.Big(20)
		case 3: // products that land exactly on .5 of the last digit
			a = new(big.Int).Add(new(big.Int).Mul(r.Big(40), big.NewInt(2)), big.NewInt(1))
			b = new(big.Int).Div(p18, big.NewInt(2))
		}
		if r.Chance(1, 4) {
			a.Neg(a)
		}
		if r.Chance(1, 6) {
			b.Neg(b)
		}
		if r.Chance(1, 40) {
			b = big.NewInt(0)
		}
		h.Ops = append(h.Ops, Op{op, a.String(), b.String()})
	}
	return h
}

func dec(s string) sdkmath.LegacyDec {
	x, _ := new(big.Int).SetString(s, 10)
	return sdkmath.LegacyNewDecFromBigIntWithPrec(x, 18)
}

func apply(o Op) (res string, ok bool) {
	defer func() {
		if r := recover(); r != nil {
			ok = false
		}
	}()
	a := dec(o.A)
	bi, _ := new(big.Int).SetString(o.B, 10)
	switch o.Op {
	case 0:
		return a.Mul(dec(o.B)).BigInt().String(), true
	case 1:
		return a.MulTruncate(dec(o.B)).BigInt().String(), true
	case 2:
		return a.MulRoundUp(dec(o.B)).BigInt().String(), true
	case 3:
		return a.Quo(dec(o.B)).BigInt().String(), true
	case 4:
		return a.QuoTruncate(dec(o.B)).BigInt().String(), true
	case 5:
		return a.QuoRoundUp(dec(o.B)).BigInt().String(), true
	case 6:
		return a.QuoInt(sdkmath.NewIntFromBigInt(bi)).BigInt().String(), true
	case 7:
		return a.MulInt(sdkmath.NewIntFromBigInt(bi)).BigInt().String(), true
	case 8:
		return a.TruncateInt().BigInt().String(), true
	case 9:
		return a.RoundInt().BigInt().String(), true
	case 10:
		return a.Ceil().BigInt().String(), true
	}
	panic("op")
}

func zs(s string) string {
	if len(s) > 0 && s[0] == '-' {
		return "(" + s + ")"
	}
	return s
}

func exec(h History) lib.Case {
	c := lib.Case{Stats: map[string]int{}, NonTrivial: true}
	var items []string
	for _, o := range h.Ops {
		res, ok := apply(o)
		r := "None"
		if ok {
			r = "(Some " + zs(res) + ")"
			lib.Stat(c.Stats, "res:ok")
		} else {
			lib.Stat(c.Stats, "res:panic")
		}
		lib.Stat(c.Stats, fmt.Sprintf("op:%d", o.Op))
		items = append(items, lib.Pair(lib.Z(int64(o.Op)), zs(o.A), zs(o.B), r))
	}
	c.Coq = lib.L(items...)
	c.Steps = []string{fmt.Sprintf("%d LegacyDec operations", len(h.Ops))}
	return c
}

func main() { lib.Main(lib.Driver[History]{Gen: gen, Exec: exec}) }
