// nft: NFT module driver (property C14).
//
// History vocabulary = the vocabulary of coq/Nft/Model.v: class ids, token ids, addresses and
// strings are small integers which the driver translates to real strings (and back, for what
// the queries return).
package main

import (
	"fmt"
	"sort"
	"strings"
	"time"

	sdknft "cosmossdk.io/x/nft"
	sdk "github.com/cosmos/cosmos-sdk/types"

	nftkeeper "mods.irisnet.org/modules/nft/keeper"
	nfttypes "mods.irisnet.org/modules/nft/types"

	"verifharness/lib"
)

type Step struct {
	K  string `json:"k"`           // issue | mint | edit | transfer | burn | handover | block
	S  int    `json:"s"`           // sender (actor index; -1 empty, -2 not an address)
	C  int    `json:"c,omitempty"` // class (>0 well-formed, 0 malformed, <0 reserved keyword)
	T  int    `json:"t,omitempty"` // token (>0 well-formed, <=0 malformed)
	N  int    `json:"n,omitempty"` // name
	U  int    `json:"u,omitempty"` // uri
	H  int    `json:"h,omitempty"` // uri hash
	D  int    `json:"d,omitempty"` // data
	R  int    `json:"r,omitempty"` // recipient
	MR bool   `json:"mr,omitempty"`
	UR bool   `json:"ur,omitempty"`
	O  []int  `json:"o,omitempty"` // issue: name, schema, symbol, description, uri, uri_hash
}
type History struct {
	Steps []Step
	ABCI  bool `json:"abci,omitempty"` // execute through InitChain / FinalizeBlock(signed txs) / Commit instead of the direct driver
}

const nActors = 4

// strings: 0 empty, 1 the sentinel, >= 2 valid JSON; -1 too long and not JSON, other negatives short and not JSON
var strs = []string{"", "[do-not-modify]", `"alpha"`, `"beta"`, `{"k":1}`, `7`, `[1,2]`, `"uri://x"`}
var longStr = strings.Repeat("x", 257)

func str(i int) string {
	switch {
	case i >= 0 && i < len(strs):
		return strs[i]
	case i == -1:
		return longStr
	case i < 0:
		return fmt.Sprintf("not json %d", -i)
	}
	return fmt.Sprintf(`"s%d"`, i)
}
func sidx(s string) int {
	for i, x := range strs {
		if x == s {
			return i
		}
	}
	if s == longStr {
		return -1
	}
	var n int
	if _, err := fmt.Sscanf(s, "not json %d", &n); err == nil {
		return -n
	}
	if _, err := fmt.Sscanf(s, `"s%d"`, &n); err == nil {
		return n
	}
	return 999
}

func classStr(n int) string {
	switch {
	case n > 0:
		if n%2 == 0 {
			return fmt.Sprintf("kind/c%d", n) // '/' is allowed inside an id
		}
		return fmt.Sprintf("class%d", n)
	case n == 0:
		return "A!"
	case n == -1:
		return "pegged1"
	case n == -2:
		return "ibc/abcdef"
	case n == -3:
		return "tibc-xyz"
	}
	return fmt.Sprintf("htlt%d", -n)
}
func classIdx(s string) int {
	var n int
	if _, err := fmt.Sscanf(s, "kind/c%d", &n); err == nil && classStr(n) == s {
		return n
	}
	if _, err := fmt.Sscanf(s, "class%d", &n); err == nil && classStr(n) == s {
		return n
	}
	for _, k := range []int{-1, -2, -3} {
		if classStr(k) == s {
			return k
		}
	}
	return -9999
}
func tokenStr(n int) string {
	switch {
	case n > 0:
		return fmt.Sprintf("tok%d", n)
	case n == 0:
		return ""
	case n == -1:
		return "T1x"
	}
	return "ab"
}
func tokenIdx(s string) int {
	var n int
	if _, err := fmt.Sscanf(s, "tok%d", &n); err == nil && tokenStr(n) == s {
		return n
	}
	return -9999
}

// ---------------------------------------------------------------- generator

type shClass struct {
	creator int
	mr, ur  bool
}
type shadow struct {
	classes map[int]*shClass
	owner   map[[2]int]int
}

func (sh *shadow) apply(st Step) {
	validData := func(d int, lax bool) bool { return d == 0 || d >= 2 || (lax && d == 1) }
	switch st.K {
	case "issue":
		if st.C > 0 && st.S >= 0 && validData(st.D, false) && sh.classes[st.C] == nil {
			sh.classes[st.C] = &shClass{st.S, st.MR, st.UR}
		}
	case "mint":
		cl := sh.classes[st.C]
		if cl == nil || st.S < 0 || st.R < 0 || st.T <= 0 || st.U == -1 || !validData(st.D, false) {
			return
		}
		if cl.mr && cl.creator != st.S {
			return
		}
		if _, ok := sh.owner[[2]int{st.C, st.T}]; ok {
			return
		}
		sh.owner[[2]int{st.C, st.T}] = st.R
	case "transfer":
		cl := sh.classes[st.C]
		o, ok := sh.owner[[2]int{st.C, st.T}]
		if cl == nil || !ok || o != st.S || st.R < 0 || st.U == -1 || !validData(st.D, true) {
			return
		}
		if cl.ur && !(st.N == 1 && st.U == 1 && st.H == 1 && st.D == 1) {
			return
		}
		sh.owner[[2]int{st.C, st.T}] = st.R
	case "burn":
		if o, ok := sh.owner[[2]int{st.C, st.T}]; ok && o == st.S {
			delete(sh.owner, [2]int{st.C, st.T})
		}
	case "handover":
		if cl := sh.classes[st.C]; cl != nil && cl.creator == st.S && st.R >= 0 {
			cl.creator = st.R
		}
	}
}

func gen(r *lib.Rand, tier, stream string, i int) History {
	n := 12 + r.Intn(24)
	if tier == "thorough" {
		n = 12 + r.Intn(64)
	}
	sh := &shadow{classes: map[int]*shClass{}, owner: map[[2]int]int{}}
	var h History
	push := func(st Step) {
		h.Steps = append(h.Steps, st)
		sh.apply(st)
	}
	const maxClass, maxToken = 4, 5
	actor := func() int {
		if r.Chance(1, 40) {
			return -1 - r.Intn(2)
		}
		return r.Intn(nActors)
	}
	existingClasses := func() []int {
		var cs []int
		for c := range sh.classes {
			cs = append(cs, c)
		}
		sort.Ints(cs)
		return cs
	}
	pickClass := func() int {
		cs := existingClasses()
		if len(cs) > 0 && r.Chance(14, 15) {
			return cs[r.Intn(len(cs))]
		}
		switch r.Weighted(3, 1, 2) {
		case 1:
			return 0
		case 2:
			return -1 - r.Intn(3)
		}
		return 1 + r.Intn(maxClass+1)
	}
	existingTokens := func() [][2]int {
		var ts [][2]int
		for k := range sh.owner {
			ts = append(ts, k)
		}
		sort.Slice(ts, func(i, j int) bool {
			if ts[i][0] != ts[j][0] {
				return ts[i][0] < ts[j][0]
			}
			return ts[i][1] < ts[j][1]
		})
		return ts
	}
	pickToken := func() (int, int) {
		ts := existingTokens()
		if len(ts) > 0 && r.Chance(11, 12) {
			x := ts[r.Intn(len(ts))]
			return x[0], x[1]
		}
		c := pickClass()
		if r.Chance(1, 6) {
			return c, -r.Intn(3)
		}
		return c, 1 + r.Intn(maxToken)
	}
	ownerish := func(c, t int) int {
		if o, ok := sh.owner[[2]int{c, t}]; ok && r.Chance(4, 5) {
			return o
		}
		return actor()
	}
	creatorish := func(c int) int {
		if cl := sh.classes[c]; cl != nil && r.Chance(3, 4) {
			return cl.creator
		}
		return actor()
	}
	anyStr := func() int {
		if r.Chance(1, 25) {
			return -1 - r.Intn(2)
		}
		return r.Intn(len(strs))
	}
	// a field of an edit / transfer: the sentinel or a new value
	field := func(keep bool) int {
		if keep {
			return 1
		}
		return anyStr()
	}
	dataStrict := func() int {
		switch r.Weighted(20, 1, 1) {
		case 1:
			return 1 // the sentinel is not JSON: rejected where no sentinel is allowed
		case 2:
			return -2
		}
		x := r.Intn(len(strs) - 1)
		if x >= 1 {
			x++
		}
		return x
	}
	issue := func(c int, mr, ur bool) {
		o := make([]int, 6)
		for k := range o {
			o[k] = r.Intn(len(strs))
		}
		push(Step{K: "issue", S: actor(), C: c, MR: mr, UR: ur, D: dataStrict(), O: o})
	}
	// start with two classes whose flags differ; later issues draw the flags at random
	f := r.Intn(4)
	issue(1, f&1 != 0, f&2 != 0)
	f = (f + 1 + r.Intn(3)) % 4
	issue(2, f&1 != 0, f&2 != 0)
	for len(h.Steps) < n {
		kind := r.Weighted(2, 8, 5, 8, 3, 3, 1)
		if len(sh.owner) == 0 && kind >= 2 && kind <= 4 && r.Chance(4, 5) {
			kind = 1
		}
		switch kind {
		case 0:
			c := 1 + len(sh.classes)
			if r.Chance(1, 5) {
				c = pickClass() // usually an id already issued
			}
			issue(c, r.Chance(1, 2), r.Chance(1, 2))
		case 1:
			c := pickClass()
			t := 1 + r.Intn(maxToken)
			if r.Chance(1, 5) {
				_, t = pickToken()
			}
			s := actor()
			if cl := sh.classes[c]; cl != nil && cl.mr {
				s = creatorish(c)
			}
			rc := r.Intn(nActors)
			if r.Chance(1, 40) {
				rc = -2
			}
			push(Step{K: "mint", S: s, C: c, T: t, N: anyStr(), U: anyStr(), H: anyStr(), D: dataStrict(), R: rc})
		case 2:
			c, t := pickToken()
			for try := 0; try < 3; try++ { // mostly aim edits at classes where editing is allowed at all
				if cl := sh.classes[c]; cl != nil && cl.ur && r.Chance(3, 4) {
					c, t = pickToken()
				}
			}
			keepAll := r.Chance(1, 8)
			d := field(keepAll || r.Chance(1, 2))
			if d < 0 && r.Chance(2, 3) {
				d = 0
			}
			push(Step{K: "edit", S: ownerish(c, t), C: c, T: t, N: field(keepAll || r.Chance(1, 2)), U: field(keepAll || r.Chance(1, 2)),
				H: field(keepAll || r.Chance(1, 2)), D: d})
		case 3:
			c, t := pickToken()
			s := ownerish(c, t)
			rc := r.Intn(nActors)
			if r.Chance(1, 8) {
				rc = s
			}
			if r.Chance(1, 40) {
				rc = -2
			}
			plain := r.Chance(3, 5)
			d := field(plain || r.Chance(2, 3))
			if d < 0 && r.Chance(2, 3) {
				d = 0
			}
			push(Step{K: "transfer", S: s, C: c, T: t, N: field(plain || r.Chance(2, 3)), U: field(plain || r.Chance(2, 3)),
				H: field(plain || r.Chance(2, 3)), D: d, R: rc})
		case 4:
			c, t := pickToken()
			push(Step{K: "burn", S: ownerish(c, t), C: c, T: t})
		case 5:
			c := pickClass()
			rc := r.Intn(nActors)
			if r.Chance(1, 30) {
				rc = -2
			}
			push(Step{K: "handover", S: creatorish(c), C: c, R: rc})
		case 6:
			push(Step{K: "block"})
		}
	}
	h.ABCI = stream == "abci"
	return h
}

// ---------------------------------------------------------------- execution

func addrStr(e *lib.Env, a int) string {
	switch {
	case a >= 0 && a < len(e.Actors):
		return e.Actors[a].String()
	case a == -1:
		return ""
	}
	return "not-an-address"
}

func actorIdx(e *lib.Env, s string) int {
	for i, a := range e.Actors {
		if a.String() == s {
			return i
		}
	}
	return -77
}

type world struct {
	e     *lib.Env
	k     nftkeeper.Keeper
	notes []string
}

func (w *world) note(f string, a ...interface{}) { w.notes = append(w.notes, fmt.Sprintf(f, a...)) }

type kv struct {
	key []int
	val string
}

func sortKV(xs []kv) {
	sort.Slice(xs, func(i, j int) bool {
		a, b := xs[i].key, xs[j].key
		for k := range a {
			if a[k] != b[k] {
				return a[k] < b[k]
			}
		}
		return false
	})
}
func keyTerm(k []int) string {
	var xs []string
	for _, x := range k {
		xs = append(xs, lib.Z(int64(x)))
	}
	if len(xs) == 1 {
		return xs[0]
	}
	return lib.Pair(xs...)
}
func kvList(xs []kv) string {
	sortKV(xs)
	var out []string
	for _, x := range xs {
		if x.val == "" {
			out = append(out, keyTerm(x.key))
		} else {
			out = append(out, lib.Pair(keyTerm(x.key), x.val))
		}
	}
	return lib.L(out...)
}
func z(x int) string { return lib.Z(int64(x)) }

func metaTerm(n, u, h, d int) string { return lib.Pair(z(n), z(u), z(h), z(d)) }

// observe reads everything C14 talks about through the module's query server.
func (w *world) observe(code int) string {
	e, k := w.e, w.k
	var classes, tokens, supply, bal, owned []kv
	dres, err := k.Denoms(e.Ctx, &nfttypes.QueryDenomsRequest{})
	if err != nil {
		w.note("Denoms query failed: %v", err)
		dres = &nfttypes.QueryDenomsResponse{}
	}
	ntok := 0
	for _, d := range dres.Denoms {
		c := classIdx(d.Id)
		if c == -9999 {
			w.note("class id %q is not in the vocabulary", d.Id)
		}
		other := lib.L(z(sidx(d.Name)), z(sidx(d.Schema)), z(sidx(d.Symbol)), z(sidx(d.Description)), z(sidx(d.Uri)), z(sidx(d.UriHash)))
		classes = append(classes, kv{[]int{c}, lib.Pair(z(actorIdx(e, d.Creator)), lib.B(d.MintRestricted), lib.B(d.UpdateRestricted), z(sidx(d.Data)), other)})
		// the single-class query must agree with the list
		if one, err := k.Denom(e.Ctx, &nfttypes.QueryDenomRequest{DenomId: d.Id}); err != nil || !one.Denom.Equal(d) {
			w.note("Denom query disagrees with Denoms query for %s", d.Id)
		}
		sres, err := k.Supply(e.Ctx, &nfttypes.QuerySupplyRequest{DenomId: d.Id})
		if err != nil {
			w.note("Supply query failed: %v", err)
		} else {
			supply = append(supply, kv{[]int{c}, lib.ZU(sres.Amount)})
			// the SDK module's own query service (registered next to irismod's) must say the same
			if s2, err := k.NFTkeeper().Supply(e.Ctx, &sdknft.QuerySupplyRequest{ClassId: d.Id}); err != nil || s2.Amount != sres.Amount {
				w.note("x/nft Supply query disagrees with the irismod Supply query for %s", d.Id)
			}
		}
		cres, err := k.Collection(e.Ctx, &nfttypes.QueryCollectionRequest{DenomId: d.Id})
		if err != nil {
			w.note("Collection query failed: %v", err)
			continue
		}
		for _, t := range cres.Collection.NFTs {
			ti := tokenIdx(t.Id)
			if ti == -9999 {
				w.note("token id %q is not in the vocabulary", t.Id)
			}
			ntok++
			tokens = append(tokens, kv{[]int{c, ti}, lib.Pair(z(actorIdx(e, t.Owner)), metaTerm(sidx(t.Name), sidx(t.URI), sidx(t.UriHash), sidx(t.Data)))})
			// single-token query and the SDK keeper's owner record must agree with the collection
			one, err := k.NFT(e.Ctx, &nfttypes.QueryNFTRequest{DenomId: d.Id, TokenId: t.Id})
			if err != nil || *one.NFT != t {
				w.note("NFT query disagrees with Collection query for %s/%s", d.Id, t.Id)
			}
			if o := k.NFTkeeper().GetOwner(e.Ctx, d.Id, t.Id); o.String() != t.Owner {
				w.note("x/nft owner record of %s/%s differs from the collection", d.Id, t.Id)
			}
			if o2, err := k.NFTkeeper().Owner(e.Ctx, &sdknft.QueryOwnerRequest{ClassId: d.Id, Id: t.Id}); err != nil || o2.Owner != t.Owner {
				w.note("x/nft Owner query of %s/%s differs from the collection", d.Id, t.Id)
			}
		}
		for ai, a := range e.Actors {
			bres, err := k.Supply(e.Ctx, &nfttypes.QuerySupplyRequest{DenomId: d.Id, Owner: a.String()})
			if err != nil {
				w.note("Supply(owner) query failed: %v", err)
				continue
			}
			bal = append(bal, kv{[]int{ai, c}, lib.ZU(bres.Amount)})
			if b2, err := k.NFTkeeper().Balance(e.Ctx, &sdknft.QueryBalanceRequest{ClassId: d.Id, Owner: a.String()}); err != nil || b2.Amount != bres.Amount {
				w.note("x/nft Balance query disagrees with the irismod Supply(owner) query for %s", d.Id)
			}
		}
	}
	for ai, a := range e.Actors {
		ores, err := k.NFTsOfOwner(e.Ctx, &nfttypes.QueryNFTsOfOwnerRequest{Owner: a.String()})
		if err != nil {
			w.note("NFTsOfOwner query failed: %v", err)
			continue
		}
		for _, idc := range ores.Owner.IDCollections {
			for _, id := range idc.TokenIds {
				owned = append(owned, kv{[]int{ai, classIdx(idc.DenomId), tokenIdx(id)}, ""})
			}
		}
	}
	// nothing may hide outside the classes listed: the exported genesis must hold the same number of tokens
	if cs, err := k.GetCollections(e.Ctx); err != nil {
		w.note("GetCollections failed: %v", err)
	} else {
		n := 0
		for _, c := range cs {
			n += len(c.NFTs)
		}
		if n != ntok || len(cs) != len(dres.Denoms) {
			w.note("export has %d classes / %d tokens, queries returned %d / %d", len(cs), n, len(dres.Denoms), ntok)
		}
	}
	_, broken := nftkeeper.SupplyInvariant(k)(e.Ctx)
	return lib.App("mkObs", z(code), kvList(classes), kvList(tokens), kvList(supply), kvList(bal), kvList(owned), lib.B(broken))
}

func exec(h History) lib.Case {
	var k nftkeeper.Keeper
	var e *lib.Env
	deliver := func(msg sdk.Msg) lib.Outcome { return e.Deliver(msg) }
	nextBlock := func() {
		e.EndBlock()
		e.BeginBlock(5 * time.Second)
	}
	if h.ABCI {
		ae := lib.NewABCIEnv(nActors, []interface{}{&k})
		defer ae.Close()
		e = ae.Env
		// one signed transaction per message, one block per transaction
		deliver = func(msg sdk.Msg) lib.Outcome { return ae.DeliverBlock(5*time.Second, msg)[0] }
		nextBlock = func() { ae.DeliverBlock(5 * time.Second) }
	} else {
		e = lib.NewEnv(lib.EnvOpts{NActors: nActors, Consumers: []interface{}{&k}})
		e.Blockers = []string{"nft"}
	}
	w := &world{e: e, k: k}
	c := lib.Case{Stats: map[string]int{}}
	var terms []string
	strangerTried := map[string]bool{} // object -> a non-entitled actor attempted an operation on it
	entitledDid := map[string]bool{}   // object -> the entitled actor succeeded with one
	for _, st := range h.Steps {
		var msg sdk.Msg
		var term string
		switch st.K {
		case "issue":
			o := append([]int{}, st.O...)
			for len(o) < 6 {
				o = append(o, 0)
			}
			msg = &nfttypes.MsgIssueDenom{Id: classStr(st.C), Name: str(o[0]), Schema: str(o[1]), Symbol: str(o[2]), Description: str(o[3]),
				Uri: str(o[4]), UriHash: str(o[5]), Data: str(st.D), MintRestricted: st.MR, UpdateRestricted: st.UR, Sender: addrStr(e, st.S)}
			term = lib.App("IssueDenom", z(st.S), z(st.C), lib.B(st.MR), lib.B(st.UR), z(st.D), lib.L(z(o[0]), z(o[1]), z(o[2]), z(o[3]), z(o[4]), z(o[5])))
		case "mint":
			msg = &nfttypes.MsgMintNFT{Id: tokenStr(st.T), DenomId: classStr(st.C), Name: str(st.N), URI: str(st.U), UriHash: str(st.H), Data: str(st.D),
				Sender: addrStr(e, st.S), Recipient: addrStr(e, st.R)}
			term = lib.App("Mint", z(st.S), z(st.C), z(st.T), z(st.N), z(st.U), z(st.H), z(st.D), z(st.R))
		case "edit":
			msg = &nfttypes.MsgEditNFT{Id: tokenStr(st.T), DenomId: classStr(st.C), Name: str(st.N), URI: str(st.U), UriHash: str(st.H), Data: str(st.D),
				Sender: addrStr(e, st.S)}
			term = lib.App("Edit", z(st.S), z(st.C), z(st.T), z(st.N), z(st.U), z(st.H), z(st.D))
		case "transfer":
			msg = &nfttypes.MsgTransferNFT{Id: tokenStr(st.T), DenomId: classStr(st.C), Name: str(st.N), URI: str(st.U), UriHash: str(st.H), Data: str(st.D),
				Sender: addrStr(e, st.S), Recipient: addrStr(e, st.R)}
			term = lib.App("Transfer", z(st.S), z(st.C), z(st.T), z(st.N), z(st.U), z(st.H), z(st.D), z(st.R))
		case "burn":
			msg = &nfttypes.MsgBurnNFT{Id: tokenStr(st.T), DenomId: classStr(st.C), Sender: addrStr(e, st.S)}
			term = lib.App("Burn", z(st.S), z(st.C), z(st.T))
		case "handover":
			msg = &nfttypes.MsgTransferDenom{Id: classStr(st.C), Sender: addrStr(e, st.S), Recipient: addrStr(e, st.R)}
			term = lib.App("TransferDenom", z(st.S), z(st.C), z(st.R))
		default:
			nextBlock()
			lib.Stat(c.Stats, "op:block")
			c.Steps = append(c.Steps, "block")
			terms = append(terms, lib.Pair("Block", w.observe(0)))
			continue
		}
		lib.Stat(c.Stats, "op:"+st.K)
		// who is entitled right now (for the non-triviality rule and the statistics)
		entitled, obj := -99, ""
		restricted := false
		if den, err := k.GetDenomInfo(e.Ctx, classStr(st.C)); err == nil {
			switch st.K {
			case "handover":
				entitled, obj = actorIdx(e, den.Creator), fmt.Sprintf("class %d", st.C)
			case "mint":
				if den.MintRestricted {
					entitled, obj = actorIdx(e, den.Creator), fmt.Sprintf("mint %d", st.C)
				}
			case "edit", "transfer", "burn":
				if k.HasNFT(e.Ctx, classStr(st.C), tokenStr(st.T)) {
					entitled, obj = actorIdx(e, k.NFTkeeper().GetOwner(e.Ctx, classStr(st.C), tokenStr(st.T)).String()), fmt.Sprintf("token %d/%d", st.C, st.T)
				}
				restricted = den.UpdateRestricted
			}
		}
		out := deliver(msg)
		lib.Stat(c.Stats, "res:"+out.Kind)
		if entitled >= 0 && st.S >= 0 {
			if st.S != entitled {
				strangerTried[obj] = true
				lib.Stat(c.Stats, "by:stranger")
			} else {
				lib.Stat(c.Stats, "by:entitled")
				if out.OK() {
					entitledDid[obj] = true
				}
			}
		}
		if st.K == "edit" || st.K == "transfer" {
			changes := !(st.N == 1 && st.U == 1 && st.H == 1 && st.D == 1)
			lib.Stat(c.Stats, fmt.Sprintf("%s:restricted=%v,changes=%v,%s", st.K, restricted, changes, out.Kind))
		}
		c.Steps = append(c.Steps, fmt.Sprintf("%s s=%d c=%d t=%d n=%d u=%d h=%d d=%d r=%d mr=%v ur=%v -> %s", st.K, st.S, st.C, st.T, st.N, st.U, st.H, st.D, st.R, st.MR, st.UR, out.Kind))
		terms = append(terms, lib.Pair(lib.App("Msg", term), w.observe(out.Code())))
	}
	c.Coq = lib.L(terms...)
	c.Notes = w.notes
	for o := range strangerTried {
		if entitledDid[o] {
			c.NonTrivial = true
		}
	}
	return c
}

func main() {
	lib.Main(lib.Driver[History]{Gen: gen, Exec: exec})
}
