package main

import (
	"math/big"

	sdkmath "cosmossdk.io/math"
	sdk "github.com/cosmos/cosmos-sdk/types"

	coinswapkeeper "mods.irisnet.org/modules/coinswap/keeper"
	coinswaptypes "mods.irisnet.org/modules/coinswap/types"

	"verifharness/lib"
)

type CSParams struct {
	Fee ON
	PCF Coin
	Tax ON
	Uni ON
}

func csGo(p CSParams) coinswaptypes.Params {
	var b []byte
	b = append(b, pbNum(1, p.Fee)...)
	b = append(b, pbCoin(2, p.PCF)...)
	b = append(b, pbNum(3, p.Tax)...)
	b = append(b, pbNum(4, p.Uni)...)
	var gp coinswaptypes.Params
	if err := gp.Unmarshal(b); err != nil {
		panic("coinswap params do not decode: " + err.Error())
	}
	return gp
}

func csTerm(p coinswaptypes.Params) string {
	return lib.App("mkCs", coqDec(p.Fee), coqSdkCoin(p.PoolCreationFee), coqDec(p.TaxRate), coqDec(p.UnilateralLiquidityFee))
}

func csDefaultsTerm() string { return csTerm(coinswaptypes.DefaultParams()) }

type csMod struct {
	p CSParams
	k map[*lib.Env]*coinswapkeeper.Keeper
}

func (m *csMod) submitted() string {
	return lib.App("mkCs", coqON(m.p.Fee), coqCoin(m.p.PCF), coqON(m.p.Tax), coqON(m.p.Uni))
}
func (m *csMod) differs() bool { return m.submitted() != csDefaultsTerm() }
func (m *csMod) caseCtor() string { return "CaseCS" }
func (m *csMod) validate() (int, string) {
	gp := csGo(m.p)
	return errCode(func() error { return gp.Validate() })
}
func (m *csMod) updateMsg(auth string) sdk.Msg {
	return &coinswaptypes.MsgUpdateParams{Authority: auth, Params: csGo(m.p)}
}
func (m *csMod) newEnv() *lib.Env {
	k := new(coinswapkeeper.Keeper)
	e := lib.NewEnv(lib.EnvOpts{NActors: nActors, Balances: balances(), Consumers: []interface{}{k}})
	if m.k == nil {
		m.k = map[*lib.Env]*coinswapkeeper.Keeper{}
	}
	m.k[e] = k
	return e
}
func (m *csMod) setup(e *lib.Env) {}
func (m *csMod) initGenesis(e *lib.Env) lib.Outcome {
	gs := coinswaptypes.GenesisState{Params: csGo(m.p), StandardDenom: "stake", Sequence: 1}
	return e.Try(func(ctx sdk.Context) error { m.k[e].InitGenesis(ctx, gs); return nil })
}
func (m *csMod) genesisStages(e *lib.Env) (int, int) {
	gs := coinswaptypes.GenesisState{Params: csGo(m.p), StandardDenom: "stake", Sequence: 1}
	vg, _ := errCode(func() error { return coinswaptypes.ValidateGenesis(gs) })
	cctx, _ := e.Ctx.CacheContext()
	sp, _ := errCode(func() error { return m.k[e].SetParams(cctx, gs.Params) })
	return vg, sp
}
func (m *csMod) stored(e *lib.Env) string { return csTerm(m.k[e].GetParams(e.Ctx)) }

var csTokens = []string{"btc", "eth", "usdt"}

const farFuture = int64(4000000000)

func poolState(e *lib.Env, k *coinswapkeeper.Keeper, denom string) (exists bool, std, tok, lpt sdkmath.Int, lptDenom string) {
	pool, ok := k.GetPool(e.Ctx, coinswaptypes.GetPoolId(denom))
	if !ok {
		return false, sdkmath.ZeroInt(), sdkmath.ZeroInt(), sdkmath.ZeroInt(), ""
	}
	addr, _ := sdk.AccAddressFromBech32(pool.EscrowAddress)
	return true, e.Balance(addr, "stake"), e.Balance(addr, denom), e.Supply(pool.LptDenom), pool.LptDenom
}

// op kinds: create_pool [j s t]; sell [x]; buy [y]; add_uni [x]; remove_uni [d]   (swaps on pool 0 = btc)
func (m *csMod) op(e *lib.Env, st Step) (string, lib.Outcome) {
	k := m.k[e]
	a0 := e.Actors[0]
	a1 := e.Actors[1]
	n := func(i int) sdkmath.Int { return sdkmath.NewIntFromBigInt(bi(st.N[i])) }
	switch st.K {
	case "create_pool":
		j := int(bi(st.N[0]).Int64()) % len(csTokens)
		denom := csTokens[j]
		exists, _, _, _, _ := poolState(e, k, denom)
		fee := k.GetParams(e.Ctx).PoolCreationFee
		balFee := sdkmath.ZeroInt()
		if sdk.ValidateDenom(fee.Denom) == nil {
			balFee = e.Balance(a0, fee.Denom)
		}
		term := lib.App("CsCreatePool", lib.ZI(e.Balance(a0, "stake")), lib.ZI(balFee), lib.ZI(e.Balance(a0, denom)), lib.ZI(n(1)), lib.ZI(n(2)))
		out := e.Deliver(&coinswaptypes.MsgAddLiquidity{MaxToken: sdk.NewCoin(denom, n(2)), ExactStandardAmt: n(1),
			MinLiquidity: sdkmath.OneInt(), Deadline: farFuture, Sender: a0.String()})
		if exists {
			term = "CsOther"
		}
		return term, out
	case "sell": // sell exactly x btc for stake
		exists, std, tok, _, _ := poolState(e, k, "btc")
		term := lib.App("CsSell", lib.ZI(n(0)), lib.ZI(tok), lib.ZI(std), lib.ZI(e.Balance(a1, "btc")))
		out := e.Deliver(&coinswaptypes.MsgSwapOrder{
			Input:  coinswaptypes.Input{Address: a1.String(), Coin: sdk.NewCoin("btc", n(0))},
			Output: coinswaptypes.Output{Address: a1.String(), Coin: sdk.NewCoin("stake", sdkmath.OneInt())},
			Deadline: farFuture, IsBuyOrder: false})
		if !exists {
			term = "CsOther"
		}
		return term, out
	case "buy": // buy exactly y btc paying stake
		exists, std, tok, _, _ := poolState(e, k, "btc")
		maxIn := e.Balance(a1, "stake")
		term := lib.App("CsBuy", lib.ZI(n(0)), lib.ZI(std), lib.ZI(tok), lib.ZI(maxIn))
		out := e.Deliver(&coinswaptypes.MsgSwapOrder{
			Input:  coinswaptypes.Input{Address: a1.String(), Coin: sdk.NewCoin("stake", maxIn)},
			Output: coinswaptypes.Output{Address: a1.String(), Coin: sdk.NewCoin("btc", n(0))},
			Deadline: farFuture, IsBuyOrder: true})
		if !exists {
			term = "CsOther"
		}
		return term, out
	case "add_uni": // add x btc unilaterally
		exists, _, tok, lpt, _ := poolState(e, k, "btc")
		term := lib.App("CsAddUni", lib.ZI(n(0)), lib.ZI(tok), lib.ZI(lpt), lib.ZI(e.Balance(a1, "btc")))
		out := e.Deliver(&coinswaptypes.MsgAddUnilateralLiquidity{CounterpartyDenom: "btc", ExactToken: sdk.NewCoin("btc", n(0)),
			MinLiquidity: sdkmath.OneInt(), Deadline: farFuture, Sender: a1.String()})
		if !exists || tok.IsZero() {
			term = "CsOther"
		}
		return term, out
	case "remove_uni": // burn d lpt for btc (by the pool creator, who holds lpt)
		exists, _, tok, lpt, lptDenom := poolState(e, k, "btc")
		held := sdkmath.ZeroInt()
		if exists {
			held = e.Balance(a0, lptDenom)
		}
		term := lib.App("CsRemoveUni", lib.ZI(n(0)), lib.ZI(tok), lib.ZI(lpt), lib.ZI(held))
		out := e.Deliver(&coinswaptypes.MsgRemoveUnilateralLiquidity{CounterpartyDenom: "btc", MinToken: sdk.NewCoin("btc", sdkmath.OneInt()),
			ExactLiquidity: n(0), Deadline: farFuture, Sender: a0.String()})
		if !exists {
			term = "CsOther"
		}
		return term, out
	}
	if st.K == "remove_liq" { // not modelled (CsOther): only the abort clause applies
		_, _, _, _, lptDenom := poolState(e, k, "btc")
		if lptDenom == "" {
			lptDenom = "lpt-1"
		}
		return "CsOther", e.Deliver(&coinswaptypes.MsgRemoveLiquidity{WithdrawLiquidity: sdk.NewCoin(lptDenom, n(0)), MinToken: sdkmath.OneInt(),
			MinStandardAmt: sdkmath.OneInt(), Deadline: farFuture, Sender: a0.String()})
	}
	panic("coinswap: unknown op " + st.K)
}

func csSweep() []func(*CSParams) {
	var fs []func(*CSParams)
	for _, v := range sweepRates() {
		v := v
		fs = append(fs, func(p *CSParams) { p.Fee = v }, func(p *CSParams) { p.Tax = v }, func(p *CSParams) { p.Uni = v })
	}
	for _, v := range sweepAmounts() {
		v := v
		fs = append(fs, func(p *CSParams) { p.PCF.A = v })
	}
	for _, d := range []int{0, 2, 3} {
		d := d
		fs = append(fs, func(p *CSParams) { p.PCF.D = d })
	}
	return fs
}

func genCS(r *lib.Rand, h *History, i int) {
	p := CSParams{Fee: sp("3000000000000000"), PCF: Coin{1, sp("5000")}, Tax: sp("400000000000000000"), Uni: sp("2000000000000000")}
	if j := i - len(csSweep()); j >= 0 && j < 7 { // boundary x repetition: every rate at its valid extremes, three pool creations, repeated swaps
		eps, almost := "1", new(big.Int).Sub(p18, big.NewInt(1)).String()
		[]func(){func() { p.Fee = sp(eps) }, func() { p.Fee = sp(almost) }, func() { p.Tax = sp(eps) }, func() { p.Tax = sp(almost) },
			func() { p.Uni = sp("0") }, func() { p.Uni = sp(almost) }, func() { p.Fee = sp(almost); p.Tax = sp(almost); p.Uni = sp(almost); p.PCF.A = sp("1") }}[j]()
		h.CS = &p
		h.Via = sweepVia(j)
		amt := func(lo, hi int64) string { return big.NewInt(r.Range(lo, hi)).String() }
		h.Steps = []Step{{"create_pool", []string{"0", amt(100000, 1000000000000), amt(100000, 1000000000000)}},
			{"create_pool", []string{"1", amt(1000, 1000000), amt(1000, 1000000)}}, {"create_pool", []string{"2", amt(1000, 1000000), amt(1000, 1000000)}},
			{"sell", []string{amt(1, 100000000)}}, {"sell", []string{"1"}}, {"buy", []string{amt(1, 90000)}}, {"buy", []string{"1"}},
			{"add_uni", []string{amt(1, 10000000000)}}, {"add_uni", []string{"1"}}, {"remove_uni", []string{amt(1, 90000)}}, {"remove_uni", []string{"1"}},
			{"sell", []string{r.Big(36).Add(r.Big(36), big.NewInt(1)).String()}}}
		return
	}
	if sw := csSweep(); i < len(sw) {
		sw[i](&p)
		h.CS = &p
		h.Via = sweepVia(i)
		amt := func(lo, hi int64) string { return big.NewInt(r.Range(lo, hi)).String() }
		h.Steps = []Step{{"create_pool", []string{"0", amt(100000, 1000000000000), amt(100000, 1000000000000)}},
			{"add_uni", []string{amt(1, 10000000000)}}, {"sell", []string{amt(1, 100000000)}}, {"buy", []string{amt(1, 90000)}},
			{"remove_uni", []string{amt(1, 90000)}}, {"create_pool", []string{"1", amt(1000, 1000000), amt(1000, 1000000)}},
			{"sell", []string{r.Big(36).Add(r.Big(36), big.NewInt(1)).String()}}, {"remove_liq", []string{amt(1, 90000)}}}
		return
	}
	// vary one field mostly, sometimes several
	nvar := 1 + r.Weighted(6, 2, 1)
	if r.Chance(1, 10) {
		nvar = 0
	}
	for v := 0; v < nvar; v++ {
		switch r.Intn(5) {
		case 0:
			p.Fee = genRate(r, "3000000000000000")
		case 1:
			p.PCF.A = genAmount(r, "5000")
		case 2:
			p.PCF.D = genDenom(r, 1)
		case 3:
			p.Tax = genRate(r, "400000000000000000")
		case 4:
			p.Uni = genRate(r, "2000000000000000")
		}
	}
	h.CS = &p
	amt := func(lo, hi int64) string { return big.NewInt(r.Range(lo, hi)).String() }
	h.Steps = append(h.Steps, Step{"create_pool", []string{"0", amt(100000, 1000000000000), amt(100000, 1000000000000)}})
	n := 3 + r.Intn(5)
	for i := 0; i < n; i++ {
		switch r.Weighted(3, 3, 2, 2, 1, 1) {
		case 5:
			h.Steps = append(h.Steps, Step{"remove_liq", []string{amt(1, 90000)}})
		case 0:
			h.Steps = append(h.Steps, Step{"sell", []string{r.Big(36).Add(r.Big(36), big.NewInt(1)).String()}})
		case 1:
			h.Steps = append(h.Steps, Step{"buy", []string{amt(1, 90000)}})
		case 2:
			h.Steps = append(h.Steps, Step{"add_uni", []string{amt(1, 10000000000)}})
		case 3:
			h.Steps = append(h.Steps, Step{"remove_uni", []string{amt(1, 90000)}})
		case 4:
			h.Steps = append(h.Steps, Step{"create_pool", []string{amt(1, 2), amt(1000, 1000000), amt(1000, 1000000)}})
		}
	}
}
