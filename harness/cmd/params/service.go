package main

import (
	"encoding/hex"
	"fmt"
	"math/big"
	"strings"
	"time"

	sdkmath "cosmossdk.io/math"
	tmbytes "github.com/cometbft/cometbft/libs/bytes"
	sdk "github.com/cosmos/cosmos-sdk/types"
	authtypes "github.com/cosmos/cosmos-sdk/x/auth/types"

	"mods.irisnet.org/modules/service"
	servicekeeper "mods.irisnet.org/modules/service/keeper"
	servicetypes "mods.irisnet.org/modules/service/types"

	"verifharness/lib"
)

type SVParams struct {
	MaxTO      int64
	Mult       int64
	MinDep     []Coin
	Tax        ON
	Slash      ON
	Complaint  int64 // ns
	Arbitr     int64 // ns
	TxSize     uint64
	Base       int
	Restricted bool
}

func svGo(p SVParams) servicetypes.Params {
	var b []byte
	b = append(b, pbVarint(1, uint64(p.MaxTO))...)
	b = append(b, pbVarint(2, uint64(p.Mult))...)
	for _, c := range p.MinDep {
		b = append(b, pbCoin(3, c)...)
	}
	b = append(b, pbNum(4, p.Tax)...)
	b = append(b, pbNum(5, p.Slash)...)
	b = append(b, pbDuration(6, p.Complaint)...)
	b = append(b, pbDuration(7, p.Arbitr)...)
	b = append(b, pbVarint(8, p.TxSize)...)
	b = append(b, pbStr(9, denomStr(p.Base))...)
	b = append(b, pbBool(10, p.Restricted)...)
	var gp servicetypes.Params
	if err := gp.Unmarshal(b); err != nil {
		panic("service params do not decode: " + err.Error())
	}
	return gp
}

func svTerm(p servicetypes.Params) string {
	var cs []string
	for _, c := range p.MinDeposit {
		cs = append(cs, coqSdkCoin(c))
	}
	return lib.App("mkSv", lib.Z(p.MaxRequestTimeout), lib.Z(p.MinDepositMultiple), lib.L(cs...), coqDec(p.ServiceFeeTax), coqDec(p.SlashFraction),
		lib.Z(int64(p.ComplaintRetrospect)), lib.Z(int64(p.ArbitrationTimeLimit)), lib.ZU(p.TxSizeLimit), lib.Z(int64(denomClass(p.BaseDenom))), lib.B(p.RestrictedServiceFeeDenom))
}
func svDefaultsTerm() string { return svTerm(servicetypes.DefaultParams()) }

type svReq struct {
	id       tmbytes.HexBytes
	provider sdk.AccAddress
}
type svMod struct {
	p    SVParams
	k    map[*lib.Env]*servicekeeper.Keeper
	ctxs map[*lib.Env][]tmbytes.HexBytes
	reqs map[*lib.Env][]svReq
	seen map[*lib.Env]map[string]bool
}

func (m *svMod) submitted() string {
	var cs []string
	for _, c := range m.p.MinDep {
		cs = append(cs, coqCoin(c))
	}
	return lib.App("mkSv", lib.Z(m.p.MaxTO), lib.Z(m.p.Mult), lib.L(cs...), coqON(m.p.Tax), coqON(m.p.Slash), lib.Z(m.p.Complaint), lib.Z(m.p.Arbitr),
		lib.ZU(m.p.TxSize), lib.Z(int64(m.p.Base)), lib.B(m.p.Restricted))
}
func (m *svMod) differs() bool {
	d := servicetypes.DefaultParams()
	d.TxSizeLimit = m.p.TxSize
	d.ComplaintRetrospect = time.Duration(m.p.Complaint)
	d.ArbitrationTimeLimit = time.Duration(m.p.Arbitr)
	return m.submitted() != svTerm(d) // tx size limit and the two durations are not read by the operations run here
}
func (m *svMod) caseCtor() string { return "CaseSV" }
func (m *svMod) validate() (int, string) {
	gp := svGo(m.p)
	return errCode(func() error { return gp.Validate() })
}
func (m *svMod) updateMsg(auth string) sdk.Msg {
	return &servicetypes.MsgUpdateParams{Authority: auth, Params: svGo(m.p)}
}
func (m *svMod) newEnv() *lib.Env {
	k := new(servicekeeper.Keeper)
	e := lib.NewEnv(lib.EnvOpts{NActors: nActors, Balances: balances(), Consumers: []interface{}{k}})
	e.Blockers = []string{"service"}
	if m.k == nil {
		m.k = map[*lib.Env]*servicekeeper.Keeper{}
		m.ctxs = map[*lib.Env][]tmbytes.HexBytes{}
		m.reqs = map[*lib.Env][]svReq{}
		m.seen = map[*lib.Env]map[string]bool{}
	}
	m.k[e] = k
	m.seen[e] = map[string]bool{}
	return e
}

const svName = "svc"

func (m *svMod) setup(e *lib.Env) {
	out := e.Deliver(&servicetypes.MsgDefineService{Name: svName, Description: "d", Author: e.Actors[0].String(),
		Schemas: `{"input":{"type":"object"},"output":{"type":"object"}}`})
	if !out.OK() {
		panic("service setup: " + out.Err)
	}
}
func (m *svMod) initGenesis(e *lib.Env) lib.Outcome {
	gs := servicetypes.GenesisState{Params: svGo(m.p)}
	return e.Try(func(ctx sdk.Context) error { service.InitGenesis(ctx, *m.k[e], gs); return nil })
}
func (m *svMod) genesisStages(e *lib.Env) (int, int) {
	gs := servicetypes.GenesisState{Params: svGo(m.p)}
	vg, _ := errCode(func() error { return servicetypes.ValidateGenesis(gs) })
	cctx, _ := e.Ctx.CacheContext()
	sp, _ := errCode(func() error { return m.k[e].SetParams(cctx, gs.Params) })
	return vg, sp
}
func (m *svMod) stored(e *lib.Env) string { return svTerm(m.k[e].GetParams(e.Ctx)) }

// deposits of the bindings whose requests expire in the end-blocker of the current block, in processing order
func (m *svMod) expiring(e *lib.Env) []string {
	k := m.k[e]
	var ds []string
	k.IterateExpiredRequestBatch(e.Ctx, e.Height, func(id tmbytes.HexBytes, rc servicetypes.RequestContext) {
		if rc.BatchState != servicetypes.BATCHCOMPLETED {
			k.IterateActiveRequests(e.Ctx, id, rc.BatchCounter, func(rid tmbytes.HexBytes, r servicetypes.Request) {
				prov, _ := sdk.AccAddressFromBech32(r.Provider)
				b, _ := k.GetServiceBinding(e.Ctx, r.ServiceName, prov)
				ds = append(ds, lib.Pair(lib.Z(int64(deputyIdx(r.Provider))), lib.ZI(b.Deposit.AmountOf(k.BaseDenom(e.Ctx)))))
			})
		}
	})
	return ds
}

func (m *svMod) collect(e *lib.Env) {
	k := m.k[e]
	for _, id := range m.ctxs[e] {
		rc, ok := k.GetRequestContext(e.Ctx, id)
		if !ok {
			continue
		}
		k.IterateActiveRequests(e.Ctx, id, rc.BatchCounter, func(rid tmbytes.HexBytes, r servicetypes.Request) {
			if !m.seen[e][rid.String()] {
				m.seen[e][rid.String()] = true
				prov, _ := sdk.AccAddressFromBech32(r.Provider)
				m.reqs[e] = append(m.reqs[e], svReq{id: rid, provider: prov})
			}
		})
	}
}

// op kinds: bind [provider price deposit qos]; call [mask cap timeout]; respond; block [n]
func (m *svMod) op(e *lib.Env, st Step) (string, lib.Outcome) {
	k := m.k[e]
	n := func(i int) sdkmath.Int { return sdkmath.NewIntFromBigInt(bi(st.N[i])) }
	switch st.K {
	case "bind": // N = [provider price deposit qos (priceDenomClass)]
		pi := 1 + int(n(0).Int64())%2
		prov := e.Actors[pi]
		_, exists := k.GetServiceBinding(e.Ctx, svName, prov)
		pd := 1
		if len(st.N) > 4 {
			pd = int(n(4).Int64())
		}
		term := lib.App("SvBind", lib.ZI(n(1)), lib.ZI(n(2)), lib.ZI(n(3)), lib.ZI(e.Balance(prov, "stake")), lib.Z(int64(pd)))
		out := e.Deliver(&servicetypes.MsgBindService{ServiceName: svName, Provider: prov.String(), Deposit: sdk.NewCoins(sdk.NewCoin("stake", n(2))),
			Pricing: fmt.Sprintf(`{"price":"%s%s"}`, n(1).String(), denomStr(pd)), QoS: n(3).Uint64(), Options: "{}", Owner: prov.String()})
		if exists {
			term = "SvOther"
		}
		return term, out
	case "call":
		mask := int(n(0).Int64())
		var provs []string
		for i := 0; i < 2; i++ {
			if mask&(1<<i) != 0 {
				provs = append(provs, e.Actors[1+i].String())
			}
		}
		term := lib.App("SvCall", lib.ZI(n(2)))
		call := &servicetypes.MsgCallService{ServiceName: svName, Providers: provs, Consumer: e.Actors[3].String(), Input: `{"header":{},"body":{}}`,
			ServiceFeeCap: sdk.NewCoins(sdk.NewCoin("stake", n(1))), Timeout: n(2).Int64()}
		if len(st.N) > 4 { // repeated context
			call.Repeated, call.RepeatedFrequency, call.RepeatedTotal = true, n(3).Uint64(), n(4).Int64()
		}
		out := e.Deliver(call)
		if out.OK() {
			id, _ := hex.DecodeString(out.Resp.(*servicetypes.MsgCallServiceResponse).RequestContextId)
			m.ctxs[e] = append(m.ctxs[e], id)
		}
		return term, out
	case "respond":
		// the oldest request we know of that is still active
		for len(m.reqs[e]) > 0 && !k.IsRequestActive(e.Ctx, m.reqs[e][0].id) {
			m.reqs[e] = m.reqs[e][1:]
		}
		if len(m.reqs[e]) == 0 {
			out := e.Deliver(&servicetypes.MsgRespondService{RequestId: strings.Repeat("00", 58), Provider: e.Actors[1].String(),
				Result: `{"code":200,"message":""}`, Output: `{"header":{},"body":{}}`})
			return "SvOther", out
		}
		rq := m.reqs[e][0]
		m.reqs[e] = m.reqs[e][1:]
		r, _ := k.GetRequest(e.Ctx, rq.id)
		esc := e.Balance(authtypes.NewModuleAddress(servicetypes.RequestAccName), "stake")
		term := lib.App("SvRespond", lib.ZI(r.ServiceFee.AmountOf("stake")), lib.ZI(esc))
		out := e.Deliver(&servicetypes.MsgRespondService{RequestId: rq.id.String(), Provider: rq.provider.String(),
			Result: `{"code":200,"message":""}`, Output: `{"header":{},"body":{}}`})
		return term, out
	case "update_binding": // N = [provider add qos]: adds to the deposit, changes the QoS
		prov := e.Actors[1+int(n(0).Int64())%2]
		b, exists := k.GetServiceBinding(e.Ctx, svName, prov)
		term := "SvOther"
		if exists {
			term = lib.App("SvUpdate", lib.B(b.Available), lib.ZI(k.GetPricing(e.Ctx, svName, prov).Price.AmountOf("stake")),
				lib.ZI(b.Deposit.AmountOf("stake")), lib.ZI(n(1)), lib.ZI(n(2)), lib.ZI(e.Balance(prov, "stake")))
		}
		return term, e.Deliver(&servicetypes.MsgUpdateServiceBinding{ServiceName: svName, Provider: prov.String(),
			Deposit: sdk.NewCoins(sdk.NewCoin("stake", n(1))), QoS: n(2).Uint64(), Owner: prov.String()})
	case "disable": // no parameter is read: SvOther
		prov := e.Actors[1+int(n(0).Int64())%2]
		return "SvOther", e.Deliver(&servicetypes.MsgDisableServiceBinding{ServiceName: svName, Provider: prov.String(), Owner: prov.String()})
	case "enable": // N = [provider add]
		prov := e.Actors[1+int(n(0).Int64())%2]
		b, exists := k.GetServiceBinding(e.Ctx, svName, prov)
		term := "SvOther"
		if exists {
			term = lib.App("SvEnable", lib.B(b.Available), lib.ZI(k.GetPricing(e.Ctx, svName, prov).Price.AmountOf("stake")),
				lib.ZI(b.Deposit.AmountOf("stake")), lib.ZI(n(1)), lib.ZI(e.Balance(prov, "stake")))
		}
		return term, e.Deliver(&servicetypes.MsgEnableServiceBinding{ServiceName: svName, Provider: prov.String(),
			Deposit: sdk.NewCoins(sdk.NewCoin("stake", n(1))), Owner: prov.String()})
	case "refund":
		prov := e.Actors[1+int(n(0).Int64())%2]
		b, exists := k.GetServiceBinding(e.Ctx, svName, prov)
		term := "SvOther"
		if exists && len(b.Deposit) <= 1 {
			term = lib.App("SvRefund", lib.B(b.Available), lib.ZI(b.Deposit.AmountOf("stake")), lib.Z(b.DisabledTime.UnixNano()), lib.Z(e.Time.UnixNano()))
		}
		return term, e.Deliver(&servicetypes.MsgRefundServiceDeposit{ServiceName: svName, Provider: prov.String(), Owner: prov.String()})
	case "withdraw": // no parameter is read: SvOther
		prov := e.Actors[1+int(n(0).Int64())%2]
		return "SvOther", e.Deliver(&servicetypes.MsgWithdrawEarnedFees{Owner: prov.String(), Provider: prov.String()})
	case "update_ctx", "pause", "start", "kill":
		if len(m.ctxs[e]) == 0 {
			return "SvOther", lib.Outcome{Kind: "rej", Err: "no request context yet"}
		}
		idb := m.ctxs[e][len(m.ctxs[e])-1]
		id := idb.String()
		cons := e.Actors[3].String()
		switch st.K {
		case "update_ctx": // N = [cap timeout]
			term := "SvOther"
			if rc, ok := k.GetRequestContext(e.Ctx, idb); ok {
				term = lib.App("SvUpdateCtx", lib.B(rc.State == servicetypes.COMPLETED), lib.ZI(n(0)), lib.ZI(n(1)), lib.Z(rc.Timeout),
					lib.ZU(rc.RepeatedFrequency), lib.Z(0), lib.ZU(rc.BatchCounter))
			}
			return term, e.Deliver(&servicetypes.MsgUpdateRequestContext{RequestContextId: id, Consumer: cons,
				ServiceFeeCap: sdk.NewCoins(sdk.NewCoin("stake", n(0))), Timeout: n(1).Int64()})
		case "pause":
			return "SvOther", e.Deliver(&servicetypes.MsgPauseRequestContext{RequestContextId: id, Consumer: cons})
		case "start":
			return "SvOther", e.Deliver(&servicetypes.MsgStartRequestContext{RequestContextId: id, Consumer: cons})
		default:
			return "SvOther", e.Deliver(&servicetypes.MsgKillRequestContext{RequestContextId: id, Consumer: cons})
		}
	case "block":
		var out lib.Outcome
		var deps []string
		cnt := n(0).Int64()
		for i := int64(0); i < cnt; i++ {
			deps = append(deps, m.expiring(e)...)
			out = e.EndBlock()
			if !out.OK() {
				break
			}
			m.collect(e)
			out = e.BeginBlock(5 * time.Second)
			if !out.OK() {
				break
			}
		}
		return lib.App("SvBlocks", lib.L(deps...)), out
	}
	panic("service: unknown op " + st.K)
}

func svSweep() []func(*SVParams) {
	var fs []func(*SVParams)
	for _, v := range sweepRates() {
		v := v
		fs = append(fs, func(p *SVParams) { p.Tax = v }, func(p *SVParams) { p.Slash = v })
	}
	for _, v := range []int64{0, -1, 1, 5, 1 << 62, -(1 << 62)} {
		v := v
		fs = append(fs, func(p *SVParams) { p.MaxTO = v }, func(p *SVParams) { p.Mult = v })
	}
	for _, v := range sweepAmounts() {
		v := v
		fs = append(fs, func(p *SVParams) { p.MinDep = []Coin{{1, v}} })
	}
	for _, d := range []int{0, 2, 3} {
		d := d
		fs = append(fs, func(p *SVParams) { p.Base = d })
	}
	fs = append(fs, func(p *SVParams) { p.MinDep = nil }, func(p *SVParams) { p.Restricted = true })
	return fs
}

// Boundary x repetition: every fraction parameter at exactly its valid extremes, followed by a scenario that
// consumes the affected path SEVERAL times on the same object (four requests to one binding of which three time
// out, two of them in the same end blocker; the blocks run past every expiry).
func svBoundary() []func(*SVParams) {
	one := p18.String()
	almost := new(big.Int).Sub(p18, big.NewInt(1)).String()
	return []func(*SVParams){
		func(p *SVParams) { p.Slash = sp(one) },
		func(p *SVParams) { p.Slash = sp("0") },
		func(p *SVParams) { p.Tax = sp("0") },
		func(p *SVParams) { p.Tax = sp(almost) },
		func(p *SVParams) { p.Slash = sp(one); p.Tax = sp(almost); p.MinDep = nil },
		func(p *SVParams) { p.Slash = sp(one); p.Mult = 1 },
	}
}

func genSV(r *lib.Rand, h *History, i int) {
	if j := i - len(svSweep()); j >= 0 && j < len(svBoundary()) {
		p := SVParams{MaxTO: 100, Mult: 1000, MinDep: []Coin{{1, sp("5000")}}, Tax: sp("50000000000000000"), Slash: sp("1000000000000000"),
			Complaint: int64(15 * 24 * time.Hour), Arbitr: int64(5 * 24 * time.Hour), TxSize: 4000, Base: 1, Restricted: false}
		svBoundary()[j](&p)
		h.SV = &p
		h.Via = sweepVia(j)
		price := r.Range(1, 50)
		h.Steps = []Step{{"bind", []string{"0", fmt.Sprint(price), fmt.Sprint(price*1000 + 5000), "1"}},
			{"call", []string{"1", "100", "2"}}, {"call", []string{"1", "100", "2"}}, {"call", []string{"1", "100", "3"}}, {"call", []string{"1", "100", "3"}},
			{"block", []string{"1"}}, {"respond", nil}, {"block", []string{"6"}}, // three requests time out, two of them in one end blocker
			{"call", []string{"1", "100", "2"}}, {"withdraw", []string{"0"}},
			{"bind", []string{"1", fmt.Sprint(price), fmt.Sprint(price*1000 + 5000), "1"}},
			{"call", []string{"3", "100", "2", "2", "3"}}, {"call", []string{"2", "100", "1"}}, {"block", []string{"2"}}, {"respond", nil}, {"respond", nil},
			{"block", []string{"12"}}}
		return
	}
	sweep := -1
	if i < len(svSweep()) {
		sweep = i
	}
	genSVat(r, h, sweep)
}

func genSVat(r *lib.Rand, h *History, sweep int) {
	p := SVParams{MaxTO: 100, Mult: 1000, MinDep: []Coin{{1, sp("5000")}}, Tax: sp("50000000000000000"), Slash: sp("1000000000000000"),
		Complaint: int64(15 * 24 * time.Hour), Arbitr: int64(5 * 24 * time.Hour), TxSize: 4000, Base: 1, Restricted: false}
	nvar := 1 + r.Weighted(6, 2, 1)
	if r.Chance(1, 10) {
		nvar = 0
	}
	if sweep >= 0 {
		nvar = 0
		svSweep()[sweep](&p)
		h.Via = sweepVia(sweep)
	}
	for v := 0; v < nvar; v++ {
		switch r.Weighted(2, 3, 3, 4, 4, 1, 1, 1, 2, 1) {
		case 0:
			p.MaxTO = []int64{0, -1, 1, 5, 100, 1 << 62, -(1 << 62)}[r.Intn(7)]
		case 1:
			p.Mult = []int64{0, -1, 1, 2, 1000, 1001, 1 << 62, -(1 << 62)}[r.Intn(8)]
		case 2:
			switch r.Intn(7) {
			case 0:
				p.MinDep = nil
			case 1:
				p.MinDep = []Coin{{1, genAmount(r, "5000")}}
			case 2:
				p.MinDep = []Coin{{1, sp("5000")}, {2, genAmount(r, "7")}}
			case 3:
				p.MinDep = []Coin{{2, sp("7")}, {1, sp("5000")}} // unsorted
			case 4:
				p.MinDep = []Coin{{1, sp("5000")}, {1, sp("6000")}} // duplicate
			case 5:
				p.MinDep = []Coin{{genDenom(r, 1), sp("5000")}}
			case 6:
				p.MinDep = []Coin{{1, sp(r.Big(100).String())}}
			}
		case 3:
			p.Tax = genRate(r, "50000000000000000")
		case 4:
			p.Slash = genRate(r, "1000000000000000")
		case 5:
			p.Complaint = []int64{0, -1, 1, int64(time.Hour)}[r.Intn(4)]
		case 6:
			p.Arbitr = []int64{0, -1, 1, int64(time.Hour)}[r.Intn(4)]
		case 7:
			p.TxSize = []uint64{0, 1, 4000, 1 << 63}[r.Intn(4)]
		case 8:
			p.Base = genDenom(r, 1)
		case 9:
			p.Restricted = !p.Restricted
		}
	}
	h.SV = &p
	amt := func(lo, hi int64) string { return big.NewInt(r.Range(lo, hi)).String() }
	// a typical life: two bindings, calls, responses, blocks up to the expiry of unanswered requests
	price := r.Range(1, 50)
	qos0 := amt(1, 5)
	if sweep >= 0 {
		qos0 = "1" // acceptable under every positive maximum request timeout
	}
	h.Steps = append(h.Steps, Step{"bind", []string{"0", fmt.Sprint(price), fmt.Sprint(price*1000 + r.Range(0, 5000)), qos0}})
	if sweep >= 0 || r.Chance(1, 5) {
		// an extreme price (2^200 or 2^190): under the default multiple an ordinary rejection (deposit too small)
		huge := new(big.Int).Lsh(big.NewInt(1), uint(190+10*r.Intn(2)))
		h.Steps = append(h.Steps, Step{"bind", []string{"1", huge.String(), "5000", "3"}})
	}
	if r.Chance(2, 3) {
		h.Steps = append(h.Steps, Step{"bind", []string{"1", fmt.Sprint(price + 1), fmt.Sprint((price+1)*1000 + 5000), amt(1, 5)}})
	}
	nn := 4 + r.Intn(6)
	for i := 0; i < nn; i++ {
		switch r.Weighted(3, 3, 4, 1, 3) {
		case 4: // messages whose parameter use is not modelled: only the abort clause applies
			switch r.Intn(9) {
			case 0:
				h.Steps = append(h.Steps, Step{"update_binding", []string{amt(0, 1), amt(0, 100000), amt(0, 120)}})
			case 1:
				h.Steps = append(h.Steps, Step{"disable", []string{amt(0, 1)}})
			case 2:
				h.Steps = append(h.Steps, Step{"enable", []string{amt(0, 1), amt(0, 100000)}})
			case 3:
				h.Steps = append(h.Steps, Step{"refund", []string{amt(0, 1)}})
			case 4:
				h.Steps = append(h.Steps, Step{"withdraw", []string{amt(0, 1)}})
			case 5:
				h.Steps = append(h.Steps, Step{"update_ctx", []string{amt(0, 300), amt(0, 12)}})
			case 6:
				h.Steps = append(h.Steps, Step{"pause", nil})
			case 7:
				h.Steps = append(h.Steps, Step{"start", nil})
			case 8:
				h.Steps = append(h.Steps, Step{"kill", nil})
			}
		case 0:
			if r.Chance(1, 3) { // repeated
				to := r.Range(1, 6)
				h.Steps = append(h.Steps, Step{"call", []string{amt(1, 3), amt(40, 200), fmt.Sprint(to), fmt.Sprint(to + r.Range(0, 3)), []string{"-1", "2", "5"}[r.Intn(3)]}})
			} else {
				h.Steps = append(h.Steps, Step{"call", []string{amt(1, 3), amt(40, 200), amt(5, 8)}})
			}
		case 1:
			h.Steps = append(h.Steps, Step{"respond", nil})
		case 2:
			h.Steps = append(h.Steps, Step{"block", []string{amt(1, 4)}})
		case 3:
			h.Steps = append(h.Steps, Step{"bind", []string{amt(0, 1), amt(1, 100), amt(1, 200000), amt(1, 120)}})
		}
	}
	if sweep >= 0 { // one instance of every message whose parameter use is not modelled
		h.Steps = append(h.Steps, Step{"bind", []string{"1", "10", "20000", "1", "4"}}, Step{"call", []string{"1", "100", "1", "3", "-1"}},
			Step{"update_ctx", []string{"150", "1"}}, Step{"update_ctx", []string{"0", "0"}}, Step{"pause", nil}, Step{"start", nil},
			Step{"update_binding", []string{"0", "1000", "1"}}, Step{"withdraw", []string{"0"}}, Step{"disable", []string{"0"}},
			Step{"refund", []string{"0"}}, Step{"enable", []string{"0", "1000"}}, Step{"kill", nil})
	}
	h.Steps = append(h.Steps, Step{"block", []string{"9"}})
}
