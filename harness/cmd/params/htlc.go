package main

import (
	"crypto/sha256"
	"encoding/binary"
	"encoding/hex"
	"fmt"
	"math/big"
	"time"

	sdkmath "cosmossdk.io/math"
	sdk "github.com/cosmos/cosmos-sdk/types"

	"mods.irisnet.org/modules/htlc"
	htlckeeper "mods.irisnet.org/modules/htlc/keeper"
	htlctypes "mods.irisnet.org/modules/htlc/types"

	"verifharness/lib"
)

// Asset in the model's vocabulary. Deputy: actor index, or -1 = not a bech32 address.
type Asset struct {
	D       int
	Limit   ON
	TL      bool
	Period  int64 // nanoseconds
	TBL     ON
	Active  bool
	Deputy  int
	Fixed   ON
	Min     ON
	Max     ON
	MinLock uint64
	MaxLock uint64
}

func deputyStr(d int) string {
	if d < 0 {
		return "not-an-address"
	}
	return lib.ActorAddr(d).String()
}
func deputyIdx(s string) int {
	for i := 0; i < nActors; i++ {
		if lib.ActorAddr(i).String() == s {
			return i
		}
	}
	return -1
}

func htGo(as []Asset) htlctypes.Params {
	var b []byte
	for _, a := range as {
		var sl []byte
		sl = append(sl, pbNum(1, a.Limit)...)
		sl = append(sl, pbBool(2, a.TL)...)
		sl = append(sl, pbDuration(3, a.Period)...)
		sl = append(sl, pbNum(4, a.TBL)...)
		var ab []byte
		ab = append(ab, pbStr(1, denomStr(a.D))...)
		ab = append(ab, pbBytes(2, sl)...)
		ab = append(ab, pbBool(3, a.Active)...)
		ab = append(ab, pbStr(4, deputyStr(a.Deputy))...)
		ab = append(ab, pbNum(5, a.Fixed)...)
		ab = append(ab, pbNum(6, a.Min)...)
		ab = append(ab, pbNum(7, a.Max)...)
		ab = append(ab, pbVarint(8, a.MinLock)...)
		ab = append(ab, pbVarint(9, a.MaxLock)...)
		b = append(b, pbBytes(1, ab)...)
	}
	var gp htlctypes.Params
	if err := gp.Unmarshal(b); err != nil {
		panic("htlc params do not decode: " + err.Error())
	}
	return gp
}

func htAssetTerm(a htlctypes.AssetParam) string {
	return lib.App("mkAsset", lib.Z(int64(denomClass(a.Denom))), coqInt(a.SupplyLimit.Limit), lib.B(a.SupplyLimit.TimeLimited),
		lib.Z(int64(a.SupplyLimit.TimePeriod)), coqInt(a.SupplyLimit.TimeBasedLimit), lib.B(a.Active), lib.Z(int64(deputyIdx(a.DeputyAddress))),
		coqInt(a.FixedFee), coqInt(a.MinSwapAmount), coqInt(a.MaxSwapAmount), lib.ZU(a.MinBlockLock), lib.ZU(a.MaxBlockLock))
}
func htTerm(p htlctypes.Params) string {
	var xs []string
	for _, a := range p.AssetParams {
		xs = append(xs, htAssetTerm(a))
	}
	return lib.L(xs...)
}
func htDefaultsTerm() string { return htTerm(htlctypes.DefaultParams()) }

type htOpen struct {
	id, secret string
	incoming   bool
	denom      int
	amt        string
}
type htMod struct {
	p    []Asset
	k    map[*lib.Env]*htlckeeper.Keeper
	open map[*lib.Env][]htOpen
	seq  map[*lib.Env]int
}

func (m *htMod) submitted() string {
	var xs []string
	for _, a := range m.p {
		xs = append(xs, lib.App("mkAsset", lib.Z(int64(a.D)), coqON(a.Limit), lib.B(a.TL), lib.Z(a.Period), coqON(a.TBL), lib.B(a.Active),
			lib.Z(int64(a.Deputy)), coqON(a.Fixed), coqON(a.Min), coqON(a.Max), lib.ZU(a.MinLock), lib.ZU(a.MaxLock)))
	}
	return lib.L(xs...)
}
func (m *htMod) differs() bool    { return len(m.p) > 0 }
func (m *htMod) caseCtor() string { return "CaseHT" }
func (m *htMod) validate() (int, string) {
	gp := htGo(m.p)
	return errCode(func() error { return gp.Validate() })
}
func (m *htMod) updateMsg(auth string) sdk.Msg {
	return &htlctypes.MsgUpdateParams{Authority: auth, Params: htGo(m.p)}
}
func (m *htMod) newEnv() *lib.Env {
	k := new(htlckeeper.Keeper)
	e := lib.NewEnv(lib.EnvOpts{NActors: nActors, Balances: balances(), Consumers: []interface{}{k}})
	e.Blockers = []string{"htlc"}
	if m.k == nil {
		m.k = map[*lib.Env]*htlckeeper.Keeper{}
		m.open = map[*lib.Env][]htOpen{}
		m.seq = map[*lib.Env]int{}
	}
	m.k[e] = k
	return e
}
func (m *htMod) setup(e *lib.Env) {}
func (m *htMod) initGenesis(e *lib.Env) lib.Outcome {
	gs := htlctypes.GenesisState{Params: htGo(m.p), PreviousBlockTime: e.Time}
	return e.Try(func(ctx sdk.Context) error { htlc.InitGenesis(ctx, *m.k[e], gs); return nil })
}
func (m *htMod) genesisStages(e *lib.Env) (int, int) {
	gs := htlctypes.GenesisState{Params: htGo(m.p), PreviousBlockTime: e.Time}
	vg, _ := errCode(func() error { return htlctypes.ValidateGenesis(gs) })
	cctx, _ := e.Ctx.CacheContext()
	sp, _ := errCode(func() error { return m.k[e].SetParams(cctx, gs.Params) })
	return vg, sp
}
func (m *htMod) stored(e *lib.Env) string { return htTerm(m.k[e].GetParams(e.Ctx)) }

func (m *htMod) supplyTerm(e *lib.Env, denom string) string {
	s, found := m.k[e].GetAssetSupply(e.Ctx, denom)
	if !found {
		return "None"
	}
	return "(Some " + lib.Pair(lib.ZI(s.IncomingSupply.Amount), lib.ZI(s.OutgoingSupply.Amount), lib.ZI(s.CurrentSupply.Amount), lib.ZI(s.TimeLimitedCurrentSupply.Amount)) + ")"
}

// op kinds: block [n]; create [denomClass amt sender to lock]; claim; plain [amt]
func (m *htMod) op(e *lib.Env, st Step) (string, lib.Outcome) {
	switch st.K {
	case "block":
		var out lib.Outcome
		n := bi(st.N[0]).Int64()
		for i := int64(0); i < n; i++ {
			out = e.EndBlock()
			if !out.OK() {
				return "HtBegin", out
			}
			out = e.BeginBlock(5 * time.Second)
			if !out.OK() {
				return "HtBegin", out
			}
		}
		// blocks may have refunded expired contracts: forget those that are no longer open
		var still []htOpen
		for _, o := range m.open[e] {
			idb, _ := hex.DecodeString(o.id)
			if h, ok := m.k[e].GetHTLC(e.Ctx, idb); ok && h.State == htlctypes.Open {
				still = append(still, o)
			}
		}
		m.open[e] = still
		return "HtBegin", out
	case "create":
		d := int(bi(st.N[0]).Int64())
		amt := sdkmath.NewIntFromBigInt(bi(st.N[1]))
		sender := int(bi(st.N[2]).Int64())
		to := int(bi(st.N[3]).Int64())
		lock := bi(st.N[4]).Uint64()
		m.seq[e]++
		secret := sha256.Sum256([]byte(fmt.Sprintf("secret-%d", m.seq[e])))
		ts := uint64(e.Time.Unix())
		tsb := make([]byte, 8)
		binary.BigEndian.PutUint64(tsb, ts)
		hl := sha256.Sum256(append(append([]byte{}, secret[:]...), tsb...))
		denom := denomStr(d)
		bal := e.Balance(e.Actors[sender], denom)
		term := lib.App("HtCreate", lib.Z(int64(d)), lib.ZI(amt), lib.Z(int64(sender)), lib.Z(int64(to)), lib.ZU(lock), m.supplyTerm(e, denom), lib.ZI(bal))
		out := e.Deliver(&htlctypes.MsgCreateHTLC{Sender: e.Actors[sender].String(), To: e.Actors[to].String(), ReceiverOnOtherChain: "r", SenderOnOtherChain: "s",
			Amount: sdk.NewCoins(sdk.NewCoin(denom, amt)), HashLock: hex.EncodeToString(hl[:]), Timestamp: ts, TimeLock: lock, Transfer: true})
		if out.OK() {
			resp := out.Resp.(*htlctypes.MsgCreateHTLCResponse)
			h, _ := m.k[e].GetHTLC(e.Ctx, mustHex(resp.Id))
			m.open[e] = append(m.open[e], htOpen{id: resp.Id, secret: hex.EncodeToString(secret[:]), incoming: h.Direction == htlctypes.Incoming, denom: d, amt: st.N[1]})
		}
		return term, out
	case "claim":
		if len(m.open[e]) == 0 {
			return "HtOther", e.Deliver(&htlctypes.MsgClaimHTLC{Sender: e.Actors[1].String(), Id: hex.EncodeToString(make([]byte, 32)), Secret: hex.EncodeToString(make([]byte, 32))})
		}
		o := m.open[e][0]
		m.open[e] = m.open[e][1:]
		term := "HtOther"
		if o.incoming {
			term = lib.App("HtClaimIn", lib.Z(int64(o.denom)), zs(o.amt), m.supplyTerm(e, denomStr(o.denom)))
		}
		out := e.Deliver(&htlctypes.MsgClaimHTLC{Sender: e.Actors[1].String(), Id: o.id, Secret: o.secret})
		return term, out
	case "plain":
		amt := sdkmath.NewIntFromBigInt(bi(st.N[0]))
		m.seq[e]++
		secret := sha256.Sum256([]byte(fmt.Sprintf("secret-%d", m.seq[e])))
		hl := sha256.Sum256(secret[:])
		out := e.Deliver(&htlctypes.MsgCreateHTLC{Sender: e.Actors[0].String(), To: e.Actors[1].String(),
			Amount: sdk.NewCoins(sdk.NewCoin("stake", amt)), HashLock: hex.EncodeToString(hl[:]), Timestamp: 0, TimeLock: 50, Transfer: false})
		return "HtOther", out
	}
	panic("htlc: unknown op " + st.K)
}

func mustHex(s string) []byte {
	b, err := hex.DecodeString(s)
	if err != nil {
		panic(err)
	}
	return b
}

func genAsset(r *lib.Rand, d int) Asset {
	a := Asset{D: d, Limit: sp("1000000000"), TL: r.Chance(1, 2), Period: int64(time.Hour), TBL: sp("50000000"), Active: true, Deputy: 2,
		Fixed: sp("1000"), Min: sp("2000"), Max: sp("100000000"), MinLock: 50, MaxLock: 34560}
	nvar := r.Weighted(3, 5, 2, 1)
	for v := 0; v < nvar; v++ {
		switch r.Intn(12) {
		case 0:
			a.D = []int{0, 2, 3, 10, 11, 12, 12}[r.Intn(7)]
		case 1:
			a.Limit = genAmount(r, "1000000000")
		case 2:
			a.Period = []int64{0, 1, -1, int64(7 * time.Second), int64(time.Hour), 1 << 62}[r.Intn(6)]
		case 3:
			a.TBL = genAmount(r, "50000000")
		case 4:
			a.Active = !a.Active
		case 5:
			a.Deputy = []int{-1, 0, 1, 2}[r.Intn(4)]
		case 6:
			a.Fixed = genAmount(r, "1000")
		case 7:
			a.Min = genAmount(r, "2000")
		case 8:
			a.Max = genAmount(r, "100000000")
		case 9:
			a.MinLock = []uint64{0, 49, 50, 51, 34560, 34561}[r.Intn(6)]
		case 10:
			a.MaxLock = []uint64{0, 49, 50, 60, 34560, 34561, 1 << 63}[r.Intn(7)]
		case 11:
			a.TL = !a.TL
		}
	}
	return a
}

func htSweep() []func(*Asset) {
	var fs []func(*Asset)
	for _, v := range sweepAmounts() {
		v := v
		fs = append(fs, func(a *Asset) { a.Limit = v }, func(a *Asset) { a.TBL = v }, func(a *Asset) { a.Fixed = v },
			func(a *Asset) { a.Min = v }, func(a *Asset) { a.Max = v })
	}
	for _, d := range []int{0, 2, 3, 12} {
		d := d
		fs = append(fs, func(a *Asset) { a.D = d })
	}
	for _, v := range []uint64{0, 49, 51, 34560, 34561} {
		v := v
		fs = append(fs, func(a *Asset) { a.MinLock = v }, func(a *Asset) { a.MaxLock = v })
	}
	fs = append(fs, func(a *Asset) { a.Deputy = -1 }, func(a *Asset) { a.Active = false }, func(a *Asset) { a.Period = 0 },
		func(a *Asset) { a.Period = -1 }, func(a *Asset) { a.TL = !a.TL })
	return fs
}

func genHT(r *lib.Rand, h *History, i int) {
	if j := i - len(htSweep()); j >= 0 && j < 6 { // boundary x repetition: fee / amount / limit relations at their edges, repeated swaps, blocks past every expiry
		a := Asset{D: 10, Limit: sp("1000000000"), TL: true, Period: int64(time.Hour), TBL: sp("50000000"), Active: true, Deputy: 2,
			Fixed: sp("1000"), Min: sp("2000"), Max: sp("100000000"), MinLock: 50, MaxLock: 34560}
		[]func(){func() { a.Fixed = sp("0") }, func() { a.Fixed = sp("5000") }, // fixed fee above the minimum: amounts in [min, fixed)
			func() { a.Min = sp("3000"); a.Max = sp("3000") }, func() { a.TBL = sp("1000000000") },
			func() { a.Limit = sp("5000"); a.TBL = sp("5000") }, func() { a.Fixed = sp("100000000"); a.Min = sp("1") }}[j]()
		h.HT = []Asset{a}
		h.Via = sweepVia(j)
		h.Steps = []Step{{"block", []string{"1"}}, {"create", []string{"10", "3000", "2", "1", "50"}}, {"create", []string{"10", "3000", "2", "1", "50"}}, {"claim", nil},
			{"create", []string{"10", "3000", "1", "2", "50"}}, {"create", []string{"10", "2000", "1", "2", "50"}}, {"create", []string{"10", "2999", "1", "2", "51"}},
			{"create", []string{"10", "6000", "1", "2", "50"}}, {"claim", nil}, {"block", []string{"2"}}, {"create", []string{"10", "3000", "2", "1", "50"}},
			{"block", []string{"56"}}}
		return
	}
	if sw := htSweep(); i < len(sw) {
		a := Asset{D: 10, Limit: sp("1000000000"), TL: i%2 == 0, Period: int64(time.Hour), TBL: sp("50000000"), Active: true, Deputy: 2,
			Fixed: sp("1000"), Min: sp("2000"), Max: sp("100000000"), MinLock: 50, MaxLock: 34560}
		sw[i](&a)
		h.HT = []Asset{a}
		h.Via = sweepVia(i)
		amt := func(lo, hi int64) string { return big.NewInt(r.Range(lo, hi)).String() }
		h.Steps = []Step{{"block", []string{"1"}}, {"create", []string{"10", amt(3000, 60000000), "2", "1", "50"}}, {"claim", nil},
			{"create", []string{"10", amt(3000, 100000), "1", "2", "55"}}, {"block", []string{"2"}},
			{"create", []string{"10", amt(3000, 60000000), "2", "1", "50"}}, {"create", []string{"10", amt(3000, 100000), "1", "2", "50"}}, {"claim", nil}}
		return
	}
	na := r.Weighted(1, 5, 3)
	for i := 0; i < na; i++ {
		d := 10 + i
		if i == 1 && r.Chance(1, 6) {
			d = 10 // duplicate denom
		}
		h.HT = append(h.HT, genAsset(r, d))
	}
	amt := func(lo, hi int64) string { return big.NewInt(r.Range(lo, hi)).String() }
	h.Steps = append(h.Steps, Step{"block", []string{"1"}})
	n := 4 + r.Intn(6)
	for i := 0; i < n; i++ {
		d := fmt.Sprint(10 + r.Intn(2))
		switch r.Weighted(4, 3, 3, 2, 1, 1) {
		case 0: // incoming: the deputy creates for actor 1
			h.Steps = append(h.Steps, Step{"create", []string{d, amt(1000, 60000000), "2", "1", "50"}})
		case 1:
			h.Steps = append(h.Steps, Step{"claim", nil})
		case 2: // outgoing: actor 1 sends to the deputy
			h.Steps = append(h.Steps, Step{"create", []string{d, amt(1000, 100000), "1", "2", fmt.Sprint(r.Range(50, 61))}})
		case 3:
			h.Steps = append(h.Steps, Step{"block", []string{amt(1, 3)}})
		case 4:
			h.Steps = append(h.Steps, Step{"plain", []string{amt(1, 1000000)}})
		case 5: // odd parties
			h.Steps = append(h.Steps, Step{"create", []string{d, amt(1000, 100000), fmt.Sprint(r.Intn(3)), fmt.Sprint(r.Intn(3)), "50"}})
		}
	}
	if r.Chance(1, 4) {
		h.Steps = append(h.Steps, Step{"block", []string{"55"}})
	}
}
