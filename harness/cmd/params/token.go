package main

import (
	"fmt"
	"math"
	"math/big"
	"strconv"

	sdkmath "cosmossdk.io/math"
	sdk "github.com/cosmos/cosmos-sdk/types"
	"github.com/ethereum/go-ethereum/common"

	"mods.irisnet.org/modules/token"
	tokenkeeper "mods.irisnet.org/modules/token/keeper"
	tokenv1 "mods.irisnet.org/modules/token/types/v1"

	"verifharness/lib"
)

type TKParams struct {
	Tax    ON
	Fee    Coin
	Ratio  ON
	Erc20  bool
	Beacon int // 0 "", 1 a hex address, 2 not a hex address
}

func beaconStr(b int) string {
	switch b {
	case 1:
		return "0x00000000000000000000000000000000000000aa"
	case 2:
		return "not-hex"
	}
	return ""
}
func beaconClass(s string) int {
	for b := 0; b < 3; b++ {
		if beaconStr(b) == s {
			return b
		}
	}
	return 9
}

func tkGo(p TKParams) tokenv1.Params {
	var b []byte
	b = append(b, pbNum(1, p.Tax)...)
	b = append(b, pbCoin(2, p.Fee)...)
	b = append(b, pbNum(3, p.Ratio)...)
	b = append(b, pbBool(4, p.Erc20)...)
	b = append(b, pbStr(5, beaconStr(p.Beacon))...)
	var gp tokenv1.Params
	if err := gp.Unmarshal(b); err != nil {
		panic("token params do not decode: " + err.Error())
	}
	return gp
}

func tkTerm(p tokenv1.Params) string {
	return lib.App("mkTk", coqDec(p.TokenTaxRate), coqSdkCoin(p.IssueTokenBaseFee), coqDec(p.MintTokenFeeRatio), lib.B(p.EnableErc20), lib.Z(int64(beaconClass(p.Beacon))))
}
func tkDefaultsTerm() string { return tkTerm(tokenv1.DefaultParams()) }

type tkMod struct {
	p TKParams
	k map[*lib.Env]*tokenkeeper.Keeper
	n map[*lib.Env]int
}

func (m *tkMod) submitted() string {
	return lib.App("mkTk", coqON(m.p.Tax), coqCoin(m.p.Fee), coqON(m.p.Ratio), lib.B(m.p.Erc20), lib.Z(int64(m.p.Beacon)))
}
func (m *tkMod) differs() bool {
	d := tokenv1.DefaultParams()
	d.EnableErc20 = m.p.Erc20
	d.Beacon = beaconStr(m.p.Beacon)
	return m.submitted() != tkTerm(d) // erc20 switch / beacon are not read by issue / mint
}
func (m *tkMod) caseCtor() string { return "CaseTK" }
func (m *tkMod) validate() (int, string) {
	gp := tkGo(m.p)
	return errCode(func() error { return gp.Validate() })
}
func (m *tkMod) updateMsg(auth string) sdk.Msg {
	return &tokenv1.MsgUpdateParams{Authority: auth, Params: tkGo(m.p)}
}
func (m *tkMod) newEnv() *lib.Env {
	k := new(tokenkeeper.Keeper)
	e := lib.NewEnv(lib.EnvOpts{NActors: nActors, Balances: balances(), Consumers: []interface{}{k}})
	if m.k == nil {
		m.k = map[*lib.Env]*tokenkeeper.Keeper{}
		m.n = map[*lib.Env]int{}
	}
	m.k[e] = k
	return e
}
// a second possible fee token, of scale 6, issued under the default parameters
func (m *tkMod) setup(e *lib.Env) {
	out := e.Deliver(&tokenv1.MsgIssueToken{Symbol: "feetok", Name: "fee token", Scale: 6, MinUnit: "ufeetok",
		InitialSupply: 100000000000, MaxSupply: 1000000000000, Mintable: true, Owner: e.Actors[0].String()})
	if !out.OK() {
		panic("token setup: " + out.Err)
	}
}
func (m *tkMod) initGenesis(e *lib.Env) lib.Outcome {
	gs := tokenv1.GenesisState{Params: tkGo(m.p)}
	return e.Try(func(ctx sdk.Context) error { token.InitGenesis(ctx, *m.k[e], gs); return nil })
}
func (m *tkMod) genesisStages(e *lib.Env) (int, int) {
	gs := tokenv1.GenesisState{Params: tkGo(m.p)}
	vg, _ := errCode(func() error { return tokenv1.ValidateGenesis(gs) })
	cctx, _ := e.Ctx.CacheContext()
	sp, _ := errCode(func() error { return m.k[e].SetParams(cctx, gs.Params) })
	return vg, sp
}
func (m *tkMod) stored(e *lib.Env) string { return tkTerm(m.k[e].GetParams(e.Ctx)) }

// feeToken: scale of the token named by the stored base fee's denom and the payer's balance in its min unit
// (scale 0 / the stake balance when that token does not exist: the model rejects before using them).
func (m *tkMod) feeToken(e *lib.Env) (int64, sdkmath.Int) {
	fee := m.k[e].GetParams(e.Ctx).IssueTokenBaseFee
	if sdk.ValidateDenom(fee.Denom) == nil {
		if t, err := m.k[e].GetToken(e.Ctx, fee.Denom); err == nil {
			return int64(t.GetScale()), e.Balance(e.Actors[0], t.GetMinUnit())
		}
	}
	return 0, e.Balance(e.Actors[0], "stake")
}

// feeFactor restates keeper.calcFeeFactor (unexported): (ln(len)/ln 3)^4 printed with 2 decimals.
func feeFactor(symbol string) *big.Int {
	f := math.Pow(math.Log(float64(len(symbol)))/math.Log(3), 4)
	d := sdkmath.LegacyMustNewDecFromStr(strconv.FormatFloat(f, 'f', 2, 64))
	return d.BigInt()
}

func tkSymbol(idx, extra int) string {
	s := "k" + string(rune('a'+idx%26)) + string(rune('a'+(idx/26)%26))
	for i := 0; i < extra; i++ {
		s += "x"
	}
	return s
}

// op kinds: issue [extraLen]; mint [amount]
func (m *tkMod) op(e *lib.Env, st Step) (string, lib.Outcome) {
	k := m.k[e]
	a0 := e.Actors[0]
	switch st.K {
	case "issue":
		extra := int(bi(st.N[0]).Int64())
		m.n[e]++
		sym := tkSymbol(m.n[e], extra)
		scale, feeBal := m.feeToken(e)
		term := lib.App("TkIssue", lib.ZB(feeFactor(sym)), lib.Z(scale), lib.ZI(feeBal))
		out := e.Deliver(&tokenv1.MsgIssueToken{Symbol: sym, Name: "n" + sym, Scale: 6, MinUnit: "u" + sym,
			InitialSupply: 1000, MaxSupply: 1000000000, Mintable: true, Owner: a0.String()})
		return term, out
	case "mint":
		// mint on the most recently issued token of this environment (if any)
		var sym string
		for i := m.n[e]; i >= 1 && sym == ""; i-- {
			for extra := 0; extra < 8; extra++ {
				if k.HasSymbol(e.Ctx, tkSymbol(i, extra)) {
					sym = tkSymbol(i, extra)
					break
				}
			}
		}
		if sym == "" {
			out := e.Deliver(&tokenv1.MsgMintToken{Coin: sdk.NewCoin("ukaaq", sdkmath.NewIntFromBigInt(bi(st.N[0]))), Owner: a0.String()})
			return "TkOther", out
		}
		scale, feeBal := m.feeToken(e)
		term := lib.App("TkMint", lib.ZB(feeFactor(sym)), lib.Z(scale), lib.ZI(feeBal))
		if tok, err := k.GetToken(e.Ctx, sym); err != nil || !tok.GetOwner().Equals(a0) {
			term = "TkOther" // ownership was transferred away: the mint is rejected before any fee is computed
		}
		out := e.Deliver(&tokenv1.MsgMintToken{Coin: sdk.NewCoin("u"+sym, sdkmath.NewIntFromBigInt(bi(st.N[0]))), Owner: a0.String()})
		return term, out
	}
	// not modelled (TkOther): only the abort clause applies; on the most recently issued symbol slot
	sym := tkSymbol(m.n[e], 0)
	for extra := 0; extra < 8; extra++ {
		if k.HasSymbol(e.Ctx, tkSymbol(m.n[e], extra)) {
			sym = tkSymbol(m.n[e], extra)
			break
		}
	}
	hasContract := false
	var contract common.Address
	if tok, err := k.GetToken(e.Ctx, sym); err == nil && len(tok.GetContract()) > 0 {
		hasContract, contract = true, common.HexToAddress(tok.GetContract())
	}
	exists := k.HasSymbol(e.Ctx, sym)
	evmUser := common.HexToAddress("0x00000000000000000000000000000000000000bb") // not an account of the chain
	switch st.K {
	case "deploy": // MsgDeployERC20 by the authority for the most recent token
		term := "TkOther"
		if exists {
			term = lib.App("TkDeploy", lib.B(hasContract))
		}
		return term, e.Deliver(&tokenv1.MsgDeployERC20{Symbol: sym, Name: "n" + sym, Scale: 6, MinUnit: "u" + sym, Authority: govAddr})
	case "swap_to":
		amt := sdkmath.NewIntFromBigInt(bi(st.N[0]))
		term := "TkOther"
		if exists {
			term = lib.App("TkSwapTo", lib.B(hasContract), lib.ZI(amt), lib.ZI(e.Balance(a0, "u"+sym)))
		}
		return term, e.Deliver(&tokenv1.MsgSwapToERC20{Amount: sdk.NewCoin("u"+sym, amt), Sender: a0.String(), Receiver: evmUser.Hex()})
	case "swap_from":
		amt := sdkmath.NewIntFromBigInt(bi(st.N[0]))
		term := "TkOther"
		if exists {
			ebal := big.NewInt(0)
			if hasContract {
				if b, err := k.BalanceOf(e.Ctx, contract, evmUser); err == nil {
					ebal = b
				}
			}
			term = lib.App("TkSwapFrom", lib.B(hasContract), lib.ZI(amt), lib.ZB(ebal))
		}
		return term, e.Deliver(&tokenv1.MsgSwapFromERC20{WantedAmount: sdk.NewCoin("u"+sym, amt), Sender: sdk.AccAddress(evmUser.Bytes()).String(), Receiver: a0.String()})
	case "edit":
		return "TkOther", e.Deliver(&tokenv1.MsgEditToken{Symbol: sym, Name: "renamed", MaxSupply: bi(st.N[0]).Uint64(), Mintable: "true", Owner: a0.String()})
	case "burn":
		return "TkOther", e.Deliver(&tokenv1.MsgBurnToken{Coin: sdk.NewCoin("u"+sym, sdkmath.NewIntFromBigInt(bi(st.N[0]))), Sender: a0.String()})
	case "transfer_owner":
		return "TkOther", e.Deliver(&tokenv1.MsgTransferTokenOwner{SrcOwner: a0.String(), DstOwner: e.Actors[1].String(), Symbol: sym})
	}
	panic("token: unknown op " + st.K)
}

func tkSweep() []func(*TKParams) {
	var fs []func(*TKParams)
	for _, v := range sweepRates() {
		v := v
		fs = append(fs, func(p *TKParams) { p.Tax = v }, func(p *TKParams) { p.Ratio = v })
	}
	for _, v := range sweepAmounts() {
		v := v
		fs = append(fs, func(p *TKParams) { p.Fee.A = v })
	}
	// fee denoms: invalid (0, 3), valid but unregistered (2), a registered symbol (5), a registered min unit only (6)
	for _, d := range []int{0, 2, 3, 5, 6} {
		d := d
		fs = append(fs, func(p *TKParams) { p.Fee.D = d })
	}
	// the fee token of scale 6: small, large and the largest validated amount (2^195 - 1), and just beyond
	b195 := new(big.Int).Lsh(big.NewInt(1), 195)
	for _, a := range []string{"1", "3", "60000", new(big.Int).Lsh(big.NewInt(1), 150).String(), new(big.Int).Sub(b195, big.NewInt(1)).String(), b195.String()} {
		a := a
		fs = append(fs, func(p *TKParams) { p.Fee = Coin{5, sp(a)} })
	}
	return fs
}

func genTK(r *lib.Rand, h *History, i int) {
	p := TKParams{Tax: sp("400000000000000000"), Fee: Coin{1, sp("60000")}, Ratio: sp("100000000000000000"), Erc20: true, Beacon: 0}
	if j := i - len(tkSweep()); j >= 0 && j < 5 { // boundary x repetition: rates exactly 0 and exactly 1, several issues and mints
		one := p18.String()
		[]func(){func() { p.Tax = sp("0") }, func() { p.Tax = sp(one) }, func() { p.Ratio = sp("0") }, func() { p.Ratio = sp(one) },
			func() { p.Tax = sp(one); p.Ratio = sp(one); p.Fee = Coin{5, sp("7")} }}[j]()
		h.TK = &p
		h.Via = sweepVia(j)
		h.Steps = []Step{{"issue", []string{"0"}}, {"issue", []string{"1"}}, {"mint", []string{"1000"}}, {"mint", []string{"7"}},
			{"issue", []string{"5"}}, {"mint", []string{"1"}}, {"issue", []string{"0"}}}
		return
	}
	if sw := tkSweep(); i < len(sw) {
		sw[i](&p)
		h.TK = &p
		h.Via = sweepVia(i)
		h.Steps = []Step{{"issue", []string{"0"}}, {"mint", []string{"1000"}}, {"issue", []string{fmt.Sprint(1 + r.Intn(5))}}, {"mint", []string{"5"}},
			{"swap_to", []string{"100"}}, {"deploy", nil}, {"swap_to", []string{"100"}}, {"swap_from", []string{"40"}}, {"swap_from", []string{"100"}}, {"deploy", nil},
			{"edit", []string{"2000000"}}, {"burn", []string{"10"}}, {"transfer_owner", nil}}
		return
	}
	nvar := 1 + r.Weighted(6, 2, 1)
	if r.Chance(1, 10) {
		nvar = 0
	}
	for v := 0; v < nvar; v++ {
		switch r.Weighted(4, 3, 2, 4, 1, 1) {
		case 0:
			p.Tax = genRate(r, "400000000000000000")
		case 1:
			p.Fee.A = genAmount(r, "60000")
		case 2:
			p.Fee.D = genDenom(r, 1)
			if r.Chance(1, 2) {
				p.Fee.D = []int{5, 5, 6, 2}[r.Intn(4)]
			}
		case 3:
			p.Ratio = genRate(r, "100000000000000000")
		case 4:
			p.Erc20 = !p.Erc20
		case 5:
			p.Beacon = r.Intn(3)
		}
	}
	h.TK = &p
	n := 3 + r.Intn(4)
	h.Steps = append(h.Steps, Step{"issue", []string{fmt.Sprint(r.Intn(6))}})
	for i := 0; i < n; i++ {
		if r.Chance(1, 4) {
			switch r.Intn(3) {
			case 0:
				h.Steps = append(h.Steps, Step{"deploy", nil})
			case 1:
				h.Steps = append(h.Steps, Step{"swap_to", []string{big.NewInt(r.Range(1, 2000)).String()}})
			case 2:
				h.Steps = append(h.Steps, Step{"swap_from", []string{big.NewInt(r.Range(1, 2000)).String()}})
			}
		} else if r.Chance(1, 5) {
			switch r.Intn(3) {
			case 0:
				h.Steps = append(h.Steps, Step{"edit", []string{big.NewInt(r.Range(2000, 2000000000)).String()}})
			case 1:
				h.Steps = append(h.Steps, Step{"burn", []string{big.NewInt(r.Range(1, 1000)).String()}})
			case 2:
				h.Steps = append(h.Steps, Step{"transfer_owner", nil})
			}
		} else if r.Chance(1, 2) {
			h.Steps = append(h.Steps, Step{"issue", []string{fmt.Sprint(r.Intn(6))}})
		} else {
			h.Steps = append(h.Steps, Step{"mint", []string{big.NewInt(r.Range(1, 1000000)).String()}})
		}
	}
}
