package main

import (
	"fmt"
	"math/big"
	"time"

	sdkmath "cosmossdk.io/math"
	sdk "github.com/cosmos/cosmos-sdk/types"
	distrtypes "github.com/cosmos/cosmos-sdk/x/distribution/types"

	coinswaptypes "mods.irisnet.org/modules/coinswap/types"
	"mods.irisnet.org/modules/farm"
	farmkeeper "mods.irisnet.org/modules/farm/keeper"
	farmtypes "mods.irisnet.org/modules/farm/types"

	"verifharness/lib"
)

type FMParams struct {
	PCF    Coin
	MaxCat uint32
	Tax    ON
}

func fmGo(p FMParams) farmtypes.Params {
	var b []byte
	b = append(b, pbCoin(1, p.PCF)...)
	b = append(b, pbVarint(2, uint64(p.MaxCat))...)
	b = append(b, pbNum(3, p.Tax)...)
	var gp farmtypes.Params
	if err := gp.Unmarshal(b); err != nil {
		panic("farm params do not decode: " + err.Error())
	}
	return gp
}

func fmTerm(p farmtypes.Params) string {
	return lib.App("mkFm", coqSdkCoin(p.PoolCreationFee), lib.ZU(uint64(p.MaxRewardCategories)), coqDec(p.TaxRate))
}
func fmDefaultsTerm() string { return fmTerm(farmtypes.DefaultParams()) }

type fmMod struct {
	p FMParams
	k map[*lib.Env]*farmkeeper.Keeper
}

func (m *fmMod) submitted() string {
	return lib.App("mkFm", coqCoin(m.p.PCF), lib.ZU(uint64(m.p.MaxCat)), coqON(m.p.Tax))
}
func (m *fmMod) differs() bool    { return m.submitted() != fmDefaultsTerm() }
func (m *fmMod) caseCtor() string { return "CaseFM" }
func (m *fmMod) validate() (int, string) {
	gp := fmGo(m.p)
	return errCode(func() error { return gp.Validate() })
}
func (m *fmMod) updateMsg(auth string) sdk.Msg {
	return &farmtypes.MsgUpdateParams{Authority: auth, Params: fmGo(m.p)}
}
func (m *fmMod) newEnv() *lib.Env {
	k := new(farmkeeper.Keeper)
	e := lib.NewEnv(lib.EnvOpts{NActors: nActors, Balances: balances(), Consumers: []interface{}{k}})
	if m.k == nil {
		m.k = map[*lib.Env]*farmkeeper.Keeper{}
	}
	m.k[e] = k
	return e
}

// a coinswap pool (under the default coinswap parameters) provides the LP token lpt-1
func (m *fmMod) setup(e *lib.Env) {
	out := e.Deliver(&coinswaptypes.MsgAddLiquidity{MaxToken: sdk.NewCoin("btc", sdkmath.NewInt(1000000000)), ExactStandardAmt: sdkmath.NewInt(1000000000),
		MinLiquidity: sdkmath.OneInt(), Deadline: farFuture, Sender: e.Actors[0].String()})
	if !out.OK() {
		panic("farm setup: " + out.Err)
	}
	// community pool funds for MsgCreatePoolWithCommunityPool
	amt := sdkmath.NewInt(1000000000)
	out = e.Deliver(&distrtypes.MsgFundCommunityPool{Amount: sdk.NewCoins(sdk.NewCoin("btc", amt), sdk.NewCoin("eth", amt), sdk.NewCoin("usdt", amt)),
		Depositor: e.Actors[2].String()})
	if !out.OK() {
		panic("farm setup (community pool): " + out.Err)
	}
}
func (m *fmMod) initGenesis(e *lib.Env) lib.Outcome {
	gs := farmtypes.GenesisState{Params: fmGo(m.p), Sequence: m.k[e].GetSequence(e.Ctx)}
	return e.Try(func(ctx sdk.Context) error { farm.InitGenesis(ctx, *m.k[e], gs); return nil })
}
func (m *fmMod) genesisStages(e *lib.Env) (int, int) {
	gs := farmtypes.GenesisState{Params: fmGo(m.p), Sequence: m.k[e].GetSequence(e.Ctx)}
	vg, _ := errCode(func() error { return farmtypes.ValidateGenesis(gs) })
	cctx, _ := e.Ctx.CacheContext()
	sp, _ := errCode(func() error { return m.k[e].SetParams(cctx, gs.Params) })
	return vg, sp
}
func (m *fmMod) stored(e *lib.Env) string { return fmTerm(m.k[e].GetParams(e.Ctx)) }

var fmRewardDenoms = []string{"btc", "eth", "usdt"}

// op kinds: create_pool [ncat total perblock]; stake [amt]; unstake [amt]; harvest; blocks [n]
func (m *fmMod) op(e *lib.Env, st Step) (string, lib.Outcome) {
	k := m.k[e]
	a0 := e.Actors[0]
	n := func(i int) sdkmath.Int { return sdkmath.NewIntFromBigInt(bi(st.N[i])) }
	poolID := fmt.Sprintf("farm-%d", k.GetSequence(e.Ctx))
	switch st.K {
	case "create_pool":
		ncat := int(n(0).Int64())
		var total, per sdk.Coins
		for i := 0; i < ncat; i++ {
			total = total.Add(sdk.NewCoin(fmRewardDenoms[i], n(1)))
			per = per.Add(sdk.NewCoin(fmRewardDenoms[i], n(2)))
		}
		fee := k.GetParams(e.Ctx).PoolCreationFee
		balFee := sdkmath.ZeroInt()
		if sdk.ValidateDenom(fee.Denom) == nil {
			balFee = e.Balance(a0, fee.Denom)
		}
		term := lib.App("FmCreatePool", lib.Z(int64(ncat)), lib.ZI(balFee))
		out := e.Deliver(&farmtypes.MsgCreatePool{Description: "p", LptDenom: "lpt-1", StartHeight: e.Height,
			RewardPerBlock: per, TotalReward: total, Editable: true, Creator: a0.String()})
		return term, out
	case "stake":
		return "FmOther", e.Deliver(&farmtypes.MsgStake{PoolId: poolID, Amount: sdk.NewCoin("lpt-1", n(0)), Sender: a0.String()})
	case "unstake":
		return "FmOther", e.Deliver(&farmtypes.MsgUnstake{PoolId: poolID, Amount: sdk.NewCoin("lpt-1", n(0)), Sender: a0.String()})
	case "harvest":
		return "FmOther", e.Deliver(&farmtypes.MsgHarvest{PoolId: poolID, Sender: a0.String()})
	case "create_cp": // MsgCreatePoolWithCommunityPool: N = [ncat]; self-bonded funds only, so that only the category limit can reject
		ncat := int(n(0).Int64())
		var bond, applied, per sdk.Coins
		for i := 0; i < ncat; i++ {
			if i == 0 { // the first category comes from the community pool, the others are bonded by the proposer
				applied = applied.Add(sdk.NewCoin(fmRewardDenoms[i], sdkmath.NewInt(100000)))
			} else {
				bond = bond.Add(sdk.NewCoin(fmRewardDenoms[i], sdkmath.NewInt(100000)))
			}
			per = per.Add(sdk.NewCoin(fmRewardDenoms[i], sdkmath.NewInt(10)))
		}
		term := lib.App("FmCreateCP", lib.Z(int64(ncat)))
		if uint32(ncat) <= k.GetParams(e.Ctx).MaxRewardCategories {
			// beyond the category limit the handler sends to the module account "escrow_collector", which the repo's
			// SimApp does not register (panic of the bank keeper under EVERY parameter set): not executed
			return "FmOther", lib.Outcome{Kind: "rej", Err: "skipped: escrow_collector is not a module account of the SimApp"}
		}
		out := e.Deliver(&farmtypes.MsgCreatePoolWithCommunityPool{
			Content: farmtypes.CommunityPoolCreateFarmProposal{Title: "farm", Description: "community farm", PoolDescription: "p", LptDenom: "lpt-1",
				RewardPerBlock: per, FundApplied: applied, FundSelfBond: bond},
			InitialDeposit: sdk.NewCoins(sdk.NewCoin("stake", sdkmath.NewInt(1000))), Proposer: a0.String()})
		return term, out
	case "adjust": // not modelled (FmOther): only the abort clause applies
		return "FmOther", e.Deliver(&farmtypes.MsgAdjustPool{PoolId: poolID, AdditionalReward: sdk.NewCoins(sdk.NewCoin("btc", n(0))),
			RewardPerBlock: sdk.NewCoins(sdk.NewCoin("btc", n(1))), Creator: a0.String()})
	case "destroy":
		return "FmOther", e.Deliver(&farmtypes.MsgDestroyPool{PoolId: poolID, Creator: a0.String()})
	case "blocks":
		var out lib.Outcome
		for i := int64(0); i < n(0).Int64(); i++ {
			out = e.EndBlock()
			if !out.OK() {
				return "FmOther", out
			}
			out = e.BeginBlock(5 * time.Second)
			if !out.OK() {
				return "FmOther", out
			}
		}
		return "FmOther", out
	}
	panic("farm: unknown op " + st.K)
}

func fmSweep() []func(*FMParams) {
	var fs []func(*FMParams)
	for _, v := range sweepRates() {
		v := v
		fs = append(fs, func(p *FMParams) { p.Tax = v })
	}
	for _, v := range sweepAmounts() {
		v := v
		fs = append(fs, func(p *FMParams) { p.PCF.A = v })
	}
	for _, d := range []int{0, 2, 3} {
		d := d
		fs = append(fs, func(p *FMParams) { p.PCF.D = d })
	}
	for _, c := range []uint32{0, 1, 3, 4294967295} {
		c := c
		fs = append(fs, func(p *FMParams) { p.MaxCat = c })
	}
	return fs
}

func genFM(r *lib.Rand, h *History, i int) {
	p := FMParams{PCF: Coin{1, sp("5000")}, MaxCat: 2, Tax: sp("400000000000000000")}
	if j := i - len(fmSweep()); j >= 0 && j < 4 { // boundary x repetition: tax rate at its valid extremes, fee 0 / 1, four pool creations
		eps, almost := "1", new(big.Int).Sub(p18, big.NewInt(1)).String()
		[]func(){func() { p.Tax = sp(eps) }, func() { p.Tax = sp(almost) }, func() { p.Tax = sp(almost); p.PCF.A = sp("0") },
			func() { p.Tax = sp(eps); p.PCF.A = sp("1"); p.MaxCat = 1 }}[j]()
		h.FM = &p
		h.Via = sweepVia(j)
		amt := func(lo, hi int64) string { return big.NewInt(r.Range(lo, hi)).String() }
		h.Steps = []Step{{"create_pool", []string{"1", amt(100000, 1000000), amt(1, 1000)}}, {"create_pool", []string{"2", amt(100000, 1000000), amt(1, 1000)}},
			{"create_pool", []string{"1", amt(100000, 1000000), amt(1, 1000)}}, {"stake", []string{amt(1, 1000000)}}, {"blocks", []string{"3"}}, {"harvest", nil},
			{"create_pool", []string{"1", amt(100000, 1000000), amt(1, 1000)}}, {"unstake", []string{amt(1, 1000)}}, {"blocks", []string{"2"}}}
		return
	}
	if sw := fmSweep(); i < len(sw) {
		sw[i](&p)
		h.FM = &p
		h.Via = sweepVia(i)
		amt := func(lo, hi int64) string { return big.NewInt(r.Range(lo, hi)).String() }
		h.Steps = []Step{{"create_pool", []string{"1", amt(100000, 1000000), amt(1, 1000)}}, {"stake", []string{amt(1, 1000000)}},
			{"blocks", []string{"2"}}, {"harvest", nil}, {"create_pool", []string{"2", amt(100000, 1000000), amt(1, 1000)}},
			{"create_pool", []string{"3", amt(100000, 1000000), amt(1, 1000)}}, {"unstake", []string{amt(1, 1000)}},
			{"create_cp", []string{"1"}}, {"create_cp", []string{"2"}}, {"create_cp", []string{"3"}},
			{"adjust", []string{amt(1, 100000), amt(1, 1000)}}, {"destroy", nil}}
		return
	}
	nvar := 1 + r.Weighted(6, 2, 1)
	if r.Chance(1, 10) {
		nvar = 0
	}
	for v := 0; v < nvar; v++ {
		switch r.Weighted(3, 2, 2, 5) {
		case 0:
			p.PCF.A = genAmount(r, "5000")
		case 1:
			p.PCF.D = genDenom(r, 1)
		case 2:
			p.MaxCat = []uint32{0, 1, 2, 3, 4294967295}[r.Intn(5)]
		case 3:
			p.Tax = genRate(r, "400000000000000000")
		}
	}
	h.FM = &p
	amt := func(lo, hi int64) string { return big.NewInt(r.Range(lo, hi)).String() }
	n := 3 + r.Intn(5)
	h.Steps = append(h.Steps, Step{"create_pool", []string{amt(1, 2), amt(100000, 1000000), amt(1, 1000)}})
	for i := 0; i < n; i++ {
		switch r.Weighted(2, 3, 2, 2, 2, 1, 1) {
		case 5:
			if r.Chance(1, 2) {
				h.Steps = append(h.Steps, Step{"create_cp", []string{amt(1, 3)}})
			} else {
				h.Steps = append(h.Steps, Step{"adjust", []string{amt(1, 100000), amt(1, 1000)}})
			}
		case 6:
			h.Steps = append(h.Steps, Step{"destroy", nil})
		case 0:
			h.Steps = append(h.Steps, Step{"create_pool", []string{amt(1, 3), amt(100000, 1000000), amt(1, 1000)}})
		case 1:
			h.Steps = append(h.Steps, Step{"stake", []string{amt(1, 1000000)}})
		case 2:
			h.Steps = append(h.Steps, Step{"unstake", []string{amt(1, 1000)}})
		case 3:
			h.Steps = append(h.Steps, Step{"harvest", nil})
		case 4:
			h.Steps = append(h.Steps, Step{"blocks", []string{amt(1, 3)}})
		}
	}
}
