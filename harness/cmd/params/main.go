// params: driver of property C16 (parameters of coinswap, farm, htlc, service, token).
//
// One history = one module, one generated parameter set in the MODEL's vocabulary (absent
// decimals / integers are really absent: the Go params value is obtained by decoding hand-encoded
// protobuf bytes), one way of submitting it (MsgUpdateParams from the authority, from a stranger,
// or the module's InitGenesis), and a list of operations of that module executed afterwards --
// on the environment holding the submitted set and, identically, on a second environment that
// keeps the default parameters (the reference).
//
// Sub-command `defaults -out FILE` is the translator: it runs each module's DefaultParams() and
// writes coq/Gen/ParamsDefaults.v.
package main

import (
	"fmt"
	"math/big"
	"os"
	"strings"

	sdkmath "cosmossdk.io/math"
	sdk "github.com/cosmos/cosmos-sdk/types"
	authtypes "github.com/cosmos/cosmos-sdk/x/auth/types"

	"verifharness/lib"
)

// ---------------------------------------------------------------- model vocabulary (JSON side)

// ON is an optional big number: nil = the field is absent (nil LegacyDec / Int).
// Decimals are given as the integer scaled by 10^18.
type ON = *string

// Coin in the model's vocabulary. D is a denom class:
//
//	0 ""  (absent, invalid)   1 "stake" (held by everybody, a registered token)
//	2 "tcoin" (valid, nobody holds it)   3 "!bad" (invalid characters)   4 "btc" (valid, held by everybody)
//	10 "htltbnb"  11 "htltinc" (htlc asset denoms)   12 "htlt!x" (htlc prefix, invalid characters)
type Coin struct {
	D int
	A ON
}

type Step struct {
	K string   // operation kind
	N []string `json:",omitempty"` // numeric arguments (decimal strings)
}

type History struct {
	Module string
	Via    int // 0 MsgUpdateParams from the authority, 1 from a stranger, 2 InitGenesis
	CS     *CSParams `json:",omitempty"`
	FM     *FMParams `json:",omitempty"`
	HT     []Asset   `json:",omitempty"`
	SV     *SVParams `json:",omitempty"`
	TK     *TKParams `json:",omitempty"`
	Steps  []Step
}

func denomStr(d int) string {
	switch d {
	case 0:
		return ""
	case 1:
		return "stake"
	case 2:
		return "tcoin"
	case 3:
		return "!bad"
	case 4:
		return "btc" // valid, held by everybody, not the bond denom
	case 5:
		return "feetok" // symbol of a token of scale 6 issued by the token driver's setup (min unit "ufeetok")
	case 6:
		return "ufeetok" // that token's MIN UNIT: a valid denom and a registered min unit, but not a symbol
	case 10:
		return "htltbnb"
	case 11:
		return "htltinc"
	case 12:
		return "htlt!x" // carries the htlc prefix but is not a valid denom
	}
	return fmt.Sprintf("zz%d", d)
}

func denomClass(s string) int {
	for _, d := range []int{0, 1, 2, 3, 4, 5, 6, 10, 11, 12} {
		if denomStr(d) == s {
			return d
		}
	}
	if sdk.ValidateDenom(s) == nil {
		return 99
	}
	return 98
}

func sp(s string) ON { return &s }
func bi(s string) *big.Int {
	x, ok := new(big.Int).SetString(s, 10)
	if !ok {
		panic("bad number " + s)
	}
	return x
}

// ---------------------------------------------------------------- raw protobuf encoding

func pbVarintRaw(v uint64) []byte {
	var b []byte
	for v >= 0x80 {
		b = append(b, byte(v)|0x80)
		v >>= 7
	}
	return append(b, byte(v))
}
func pbBytes(field int, p []byte) []byte {
	b := pbVarintRaw(uint64(field<<3 | 2))
	b = append(b, pbVarintRaw(uint64(len(p)))...)
	return append(b, p...)
}
func pbVarint(field int, v uint64) []byte {
	if v == 0 {
		return nil
	}
	return append(pbVarintRaw(uint64(field<<3|0)), pbVarintRaw(v)...)
}
func pbBool(field int, v bool) []byte {
	if v {
		return pbVarint(field, 1)
	}
	return nil
}

// pbNum encodes an optional Dec / Int custom-type field: absent when nil.
func pbNum(field int, n ON) []byte {
	if n == nil {
		return nil
	}
	return pbBytes(field, []byte(*n))
}
func pbStr(field int, s string) []byte {
	if s == "" {
		return nil
	}
	return pbBytes(field, []byte(s))
}
func coinBytes(c Coin) []byte {
	var b []byte
	b = append(b, pbStr(1, denomStr(c.D))...)
	b = append(b, pbNum(2, c.A)...)
	return b
}
func pbCoin(field int, c Coin) []byte { return pbBytes(field, coinBytes(c)) }

// pbDuration encodes a google.protobuf.Duration given in nanoseconds.
func pbDuration(field int, ns int64) []byte {
	sec := ns / 1e9
	nanos := ns % 1e9
	var b []byte
	b = append(b, pbVarint(1, uint64(sec))...)
	b = append(b, pbVarint(2, uint64(int64(int32(nanos))))...)
	return pbBytes(field, b)
}

// ---------------------------------------------------------------- Coq printing

func zs(s string) string {
	if strings.HasPrefix(s, "-") {
		return "(" + s + ")"
	}
	return s
}
func coqON(n ON) string {
	if n == nil {
		return "None"
	}
	return "(Some " + zs(*n) + ")"
}
func coqCoin(c Coin) string { return lib.App("mkCoin", lib.Z(int64(c.D)), coqON(c.A)) }
func coqDec(d sdkmath.LegacyDec) string {
	if d.IsNil() {
		return "None"
	}
	return "(Some " + lib.ZB(d.BigInt()) + ")"
}
func coqInt(i sdkmath.Int) string {
	if i.IsNil() {
		return "None"
	}
	return "(Some " + lib.ZB(i.BigInt()) + ")"
}
func coqSdkCoin(c sdk.Coin) string {
	return lib.App("mkCoin", lib.Z(int64(denomClass(c.Denom))), coqInt(c.Amount))
}

// ---------------------------------------------------------------- common execution skeleton

var govAddr = authtypes.NewModuleAddress("gov").String()

const nActors = 4

func strangerAddr() string { return lib.ActorAddr(3).String() }

func balances() sdk.Coins {
	big24, _ := sdkmath.NewIntFromString("1000000000000000000000000000000")
	return sdk.NewCoins(sdk.NewCoin("stake", big24), sdk.NewCoin("btc", big24), sdk.NewCoin("eth", big24), sdk.NewCoin("usdt", big24))
}

// code of a call that may panic: 0 nil error, 1 error, 2 panic
func errCode(f func() error) (code int, msg string) {
	defer func() {
		if r := recover(); r != nil {
			code = 2
			msg = fmt.Sprint(r)
		}
	}()
	if err := f(); err != nil {
		return 1, err.Error()
	}
	return 0, ""
}

// module is what each module file provides.
type module interface {
	// params term of the submitted set (model vocabulary)
	submitted() string
	// nontrivial: the set differs from the default in a field a handler reads
	differs() bool
	validate() (int, string)
	updateMsg(authority string) sdk.Msg
	initGenesis(e *lib.Env) lib.Outcome
	// genesisStages: result codes (0 nil, 1 error, 2 panic) of types.ValidateGenesis and of keeper.SetParams
	// (on a discarded cache context) for the submitted set
	genesisStages(e *lib.Env) (int, int)
	newEnv() *lib.Env
	// setup run on both environments before the update (under default parameters)
	setup(e *lib.Env)
	stored(e *lib.Env) string
	// op executes one step; term = the model's operation with the state inputs read before it
	op(e *lib.Env, st Step) (term string, out lib.Outcome)
	caseCtor() string
}

func run(h History, m module) lib.Case {
	c := lib.Case{Stats: map[string]int{}}
	es := m.newEnv()
	ed := m.newEnv()
	m.setup(es)
	m.setup(ed)
	before := m.stored(es)
	val, vmsg := m.validate()
	var upd lib.Outcome
	switch h.Via {
	case 0:
		upd = es.Deliver(m.updateMsg(govAddr))
	case 1:
		upd = es.Deliver(m.updateMsg(strangerAddr()))
	default:
		// the two guards of InitGenesis observed separately (evidence only: which stage does the rejecting)
		vg, sp := m.genesisStages(es)
		lib.Stat(c.Stats, fmt.Sprintf("genesis:%s:validate=%d,ValidateGenesis=%d,SetParams=%d", h.Module, val, vg, sp))
		c.Steps = append(c.Steps, fmt.Sprintf("genesis stages: ValidateGenesis=%d SetParams=%d", vg, sp))
		upd = m.initGenesis(es)
	}
	after := m.stored(es)
	lib.Stat(c.Stats, fmt.Sprintf("%s:via%d", h.Module, h.Via))
	lib.Stat(c.Stats, fmt.Sprintf("validate:%d", val))
	lib.Stat(c.Stats, "update:"+upd.Kind)
	c.Steps = append(c.Steps, fmt.Sprintf("%s via=%d validate=%d(%s) update=%s(%s)", h.Module, h.Via, val, short(vmsg), upd.Kind, short(upd.Err)))
	c.Steps = append(c.Steps, "submitted "+m.submitted())
	c.Steps = append(c.Steps, "stored    "+after)
	var ops []string
	if upd.OK() {
		for _, st := range h.Steps {
			ts, os_ := m.op(es, st)
			td, od := m.op(ed, st)
			lib.Stat(c.Stats, "op:"+h.Module+"."+st.K)
			lib.Stat(c.Stats, "res:"+os_.Kind)
			lib.Stat(c.Stats, "ref:"+od.Kind)
			ops = append(ops, lib.Pair(ts, lib.Z(int64(os_.Code())), td, lib.Z(int64(od.Code()))))
			c.Steps = append(c.Steps, fmt.Sprintf("%s %v -> %s(%s) | default %s(%s)", st.K, st.N, os_.Kind, short(os_.Err), od.Kind, short(od.Err)))
		}
	}
	c.Coq = lib.App(m.caseCtor(), lib.App("mkCase", lib.Z(int64(h.Via)), m.submitted(), lib.Z(int64(val)),
		lib.Z(int64(upd.Code())), before, after, lib.L(ops...)))
	c.NonTrivial = m.differs() && (upd.OK() && len(ops) > 0 || !upd.OK())
	return c
}

func short(s string) string {
	s = strings.ReplaceAll(s, "\n", " ")
	if len(s) > 90 {
		return s[:90] + "..."
	}
	return s
}

func exec(h History) lib.Case {
	switch h.Module {
	case "coinswap":
		return run(h, &csMod{p: *h.CS})
	case "farm":
		return run(h, &fmMod{p: *h.FM})
	case "htlc":
		return run(h, &htMod{p: h.HT})
	case "service":
		return run(h, &svMod{p: *h.SV})
	case "token":
		return run(h, &tkMod{p: *h.TK})
	}
	panic("unknown module " + h.Module)
}

func gen(r *lib.Rand, tier, stream string, i int) History {
	mod := stream
	if stream == "main" {
		mod = []string{"coinswap", "farm", "htlc", "service", "token"}[i%5]
	}
	h := History{Module: mod, Via: r.Weighted(6, 2, 2)}
	switch mod {
	case "coinswap":
		genCS(r, &h, i)
	case "farm":
		genFM(r, &h, i)
	case "htlc":
		genHT(r, &h, i)
	case "service":
		genSV(r, &h, i)
	case "token":
		genTK(r, &h, i)
	}
	return h
}

// ---------------------------------------------------------------- generators of field values

var p18 = new(big.Int).Exp(big.NewInt(10), big.NewInt(18), nil)

// genRate draws a decimal field around the interval [0,1]: default, zero, boundaries, just
// outside, extreme magnitudes, negative, absent.
func genRate(r *lib.Rand, def string) ON {
	one := p18.String()
	switch r.Weighted(5, 2, 2, 2, 2, 2, 2, 2, 2, 3, 1, 1) {
	case 0:
		return sp(def)
	case 1:
		return sp("0")
	case 2:
		return sp(one)
	case 3:
		return sp("1") // smallest positive decimal
	case 4:
		return sp(new(big.Int).Sub(p18, big.NewInt(1)).String()) // 1 - 10^-18
	case 5:
		return sp(new(big.Int).Add(p18, big.NewInt(1)).String()) // 1 + 10^-18
	case 6:
		return sp("-1")
	case 7:
		return sp(new(big.Int).Mul(p18, big.NewInt(2)).String()) // 2
	case 8:
		return nil // absent
	case 9:
		return sp(r.BigRange(big.NewInt(1), new(big.Int).Sub(p18, big.NewInt(1))).String()) // inside (0,1)
	case 10:
		return sp(new(big.Int).Lsh(big.NewInt(1), uint(200+r.Intn(110))).String()) // huge
	default:
		return sp(new(big.Int).Neg(new(big.Int).Lsh(big.NewInt(1), uint(100+r.Intn(200)))).String())
	}
}

// Boundary sweep: the first cases of every stream are deterministic -- the default set with ONE
// field set to each value of a fixed table (valid boundaries such as 0 / 1 - 10^-18 / 1, values just
// outside, absent, extreme magnitudes), submitted by the authority (every 5th: through genesis) and
// followed by one instance of every operation kind.  The random cases come after.
func sweepRates() []ON {
	one := new(big.Int).Set(p18)
	return []ON{sp("0"), sp("1"), sp(new(big.Int).Sub(one, big.NewInt(1)).String()), sp(one.String()),
		sp(new(big.Int).Add(one, big.NewInt(1)).String()), sp(new(big.Int).Mul(one, big.NewInt(2)).String()), sp("-1"), nil,
		sp(new(big.Int).Lsh(big.NewInt(1), 300).String()), sp(new(big.Int).Neg(new(big.Int).Lsh(big.NewInt(1), 200)).String()),
		sp("500000000000000000")}
}
func sweepAmounts() []ON {
	max := new(big.Int).Lsh(big.NewInt(1), 256)
	max.Sub(max, big.NewInt(1))
	return []ON{sp("0"), sp("1"), sp("-1"), nil, sp(max.String()), sp(new(big.Int).Lsh(big.NewInt(1), 255).String()),
		sp(new(big.Int).Lsh(big.NewInt(1), 254).String()), sp("123456789012345678901234567890")}
}
func sweepVia(i int) int {
	if i%5 == 4 {
		return 2
	}
	return 0
}

// genAmount draws an integer amount field: default, zero, one, negative, extreme, absent.
func genAmount(r *lib.Rand, def string) ON {
	switch r.Weighted(6, 2, 2, 2, 2, 2, 2, 2) {
	case 0:
		return sp(def)
	case 1:
		return sp("0")
	case 2:
		return sp("1")
	case 3:
		return sp("-1")
	case 4:
		return nil
	case 5:
		return sp(r.Big(80).String())
	case 6: // extreme magnitude: close to 2^256
		x := new(big.Int).Lsh(big.NewInt(1), 256)
		x.Sub(x, big.NewInt(1))
		x.Rsh(x, uint(r.Intn(3)))
		return sp(x.String())
	default:
		return sp(new(big.Int).Add(bi(def), big.NewInt(int64(r.Range(-3, 3)))).String())
	}
}

func genDenom(r *lib.Rand, def int) int {
	switch r.Weighted(8, 1, 1, 1) {
	case 0:
		return def
	case 1:
		return 0
	case 2:
		return 2
	default:
		return 3
	}
}

// ---------------------------------------------------------------- translator

func defaultsCmd(out string) {
	var b strings.Builder
	b.WriteString("(* GENERATED by `params defaults` from the modules' DefaultParams() -- do not edit. *)\n")
	b.WriteString("From Irismod Require Import Params.Model.\nOpen Scope Z_scope.\n\n")
	b.WriteString("Definition cs_defaults : cs_params := " + csDefaultsTerm() + ".\n")
	b.WriteString("Definition fm_defaults : fm_params := " + fmDefaultsTerm() + ".\n")
	b.WriteString("Definition ht_defaults : ht_params := " + htDefaultsTerm() + ".\n")
	b.WriteString("Definition sv_defaults : sv_params := " + svDefaultsTerm() + ".\n")
	b.WriteString("Definition tk_defaults : tk_params := " + tkDefaultsTerm() + ".\n")
	if err := os.WriteFile(out, []byte(b.String()), 0o644); err != nil {
		panic(err)
	}
}

func main() {
	if len(os.Args) >= 2 && os.Args[1] == "defaults" {
		out := ""
		for i := 2; i+1 < len(os.Args); i++ {
			if os.Args[i] == "-out" {
				out = os.Args[i+1]
			}
		}
		if out == "" {
			fmt.Fprintln(os.Stderr, "usage: params defaults -out FILE")
			os.Exit(2)
		}
		defaultsCmd(out)
		return
	}
	lib.Main(lib.Driver[History]{Gen: gen, Exec: exec})
}
