// coinswap: driver of the coinswap module (properties C01, C02).
//
// Streams: "c01", "c02" = message histories (same vocabulary as coq/Coinswap/Model.v),
// "kernels" = GetInputPrice / GetOutputPrice called as pure functions.
package main

import (
	"fmt"
	"math/big"
	"time"

	sdkmath "cosmossdk.io/math"
	"github.com/cosmos/cosmos-sdk/codec"
	sdk "github.com/cosmos/cosmos-sdk/types"
	authtypes "github.com/cosmos/cosmos-sdk/x/auth/types"
	banktypes "github.com/cosmos/cosmos-sdk/x/bank/types"

	coinswapkeeper "mods.irisnet.org/modules/coinswap/keeper"
	coinswaptypes "mods.irisnet.org/modules/coinswap/types"
	"mods.irisnet.org/simapp"

	"verifharness/lib"
)

// ---- vocabulary (must agree with coq/Coinswap/Model.v) ----

const (
	acctModule = 100
	acctFeeCol = 101
	acctGov    = 102 // x/gov module account: the authority of MsgUpdateParams
	acctOthers = 999 // everything outside the universe: supply minus the universe's balances
	nActors    = 4   // 0,1,2 users; 3 a separate recipient
	maxPools   = 3
)

var denomNames = []string{"stake", "btc", "eth", "usdt"}

func denomName(d int) string {
	if d >= 0 && d < len(denomNames) {
		return denomNames[d]
	}
	if d > 1000 {
		return fmt.Sprintf("lpt-%d", d-1000)
	}
	return fmt.Sprintf("x%d", d)
}

func denomIdx(s string) int {
	for i, n := range denomNames {
		if n == s {
			return i
		}
	}
	var n int
	if _, err := fmt.Sscanf(s, "lpt-%d", &n); err == nil {
		return 1000 + n
	}
	return -7
}

var uniAccts = []int{0, 1, 2, 3, acctModule, acctFeeCol, 1001, 1002, 1003}
var uniDenoms = []int{0, 1, 2, 3, 1001, 1002, 1003}

func acctAddr(a int) sdk.AccAddress {
	switch {
	case a >= 0 && a < nActors:
		return lib.ActorAddr(a)
	case a == acctModule:
		return authtypes.NewModuleAddress(coinswaptypes.ModuleName)
	case a == acctFeeCol:
		return authtypes.NewModuleAddress(authtypes.FeeCollectorName)
	case a == acctGov:
		return authtypes.NewModuleAddress("gov")
	case a > 1000:
		return coinswaptypes.GetReservePoolAddr(fmt.Sprintf("lpt-%d", a-1000))
	}
	return nil
}

func acctStr(a int) string {
	ad := acctAddr(a)
	if ad == nil {
		return "not-an-address"
	}
	return ad.String()
}

type Params struct {
	Fee, UFee, Tax string // decimals scaled by 10^18
	CDenom         int
	CAmt           string
	Init           string // genesis balance of every actor in each of the four bank denoms
}

// Step: one message in the model's vocabulary.
//
//	swap: A sender, B recipient, D1/X1 input coin, D2/X2 output coin
//	add:  A, D1 token, X1 max token, X2 exact standard, X3 min liquidity
//	rem:  A, D1 lpt denom, X1 liquidity, X2 min standard, X3 min token
//	addu: A, D1 counterparty, D2 token, X1 exact, X2 min liquidity
//	remu: A, D1 counterparty, D2 token, X1 min token, X2 exact liquidity
//	send: A from, B to, D1/X1 coin
//	block: Dt seconds
//	params: A authority, P the new parameters (MsgUpdateParams)
type Step struct {
	K        string
	Buy      bool   `json:",omitempty"`
	A        int    `json:",omitempty"`
	B        int    `json:",omitempty"`
	D1       int    `json:",omitempty"`
	D2       int    `json:",omitempty"`
	X1       string `json:",omitempty"`
	X2       string `json:",omitempty"`
	X3       string `json:",omitempty"`
	Deadline int64  `json:",omitempty"`
	Dt       int64  `json:",omitempty"`
	P        *Params `json:",omitempty"`
}

type Kernel struct {
	Out          bool
	Amt, X, Y, F string
}

type History struct {
	Stream string
	Params Params
	Steps  []Step
	Kern   *Kernel `json:",omitempty"`
}

func bi(s string) *big.Int {
	x, ok := new(big.Int).SetString(s, 10)
	if !ok {
		return big.NewInt(0)
	}
	return x
}
func si(s string) sdkmath.Int { return sdkmath.NewIntFromBigInt(bi(s)) }

var p18 = new(big.Int).Exp(big.NewInt(10), big.NewInt(18), nil)

func decOf(s string) sdkmath.LegacyDec { return sdkmath.LegacyNewDecFromBigIntWithPrec(bi(s), 18) }

// ---- the world: one chain instance plus the observation of the universe ----

type world struct {
	e   *lib.Env
	k   coinswapkeeper.Keeper
	led map[[2]int]*big.Int
	sup map[int]*big.Int
}

func newWorld(p Params) *world {
	w := &world{}
	bal := sdk.Coins{}
	huge, _ := new(big.Int).SetString("100000000000000000000000000000000000000000", 10) // 10^41 > 2^136
	if p.Init != "" {
		huge = bi(p.Init)
	}
	for _, d := range denomNames {
		bal = bal.Add(sdk.NewCoin(d, sdkmath.NewIntFromBigInt(huge)))
	}
	w.e = lib.NewEnv(lib.EnvOpts{NActors: nActors, Balances: bal, Consumers: []interface{}{&w.k},
		Merge: func(cdc codec.Codec, st simapp.GenesisState) simapp.GenesisState {
			var gs coinswaptypes.GenesisState
			cdc.MustUnmarshalJSON(st[coinswaptypes.ModuleName], &gs)
			gs.Params = coinswaptypes.NewParams(decOf(p.Fee), decOf(p.Tax), decOf(p.UFee), sdk.NewCoin(denomName(p.CDenom), si(p.CAmt)))
			st[coinswaptypes.ModuleName] = cdc.MustMarshalJSON(&gs)
			return st
		}})
	w.led, w.sup = w.read()
	return w
}

func (w *world) read() (map[[2]int]*big.Int, map[int]*big.Int) {
	led := map[[2]int]*big.Int{}
	sup := map[int]*big.Int{}
	for _, d := range uniDenoms {
		dn := denomName(d)
		s := w.e.Supply(dn).BigInt()
		sup[d] = s
		rest := new(big.Int).Set(s)
		for _, a := range uniAccts {
			b := w.e.Balance(acctAddr(a), dn).BigInt()
			led[[2]int{a, d}] = b
			rest.Sub(rest, b)
		}
		led[[2]int{acctOthers, d}] = rest
	}
	return led, sup
}

func (w *world) pools() [][2]int {
	var ps [][2]int
	for _, p := range w.k.GetAllPools(w.e.Ctx) {
		ps = append(ps, [2]int{denomIdx(p.CounterpartyDenom), denomIdx(p.LptDenom) - 1000})
	}
	return ps
}

func (w *world) poolOf(cp int) int {
	for _, p := range w.pools() {
		if p[0] == cp {
			return p[1]
		}
	}
	return 0
}

func (w *world) bal(a, d int) *big.Int {
	if acctAddr(a) == nil {
		return big.NewInt(0)
	}
	return w.e.Balance(acctAddr(a), denomName(d)).BigInt()
}
func (w *world) supply(d int) *big.Int { return w.e.Supply(denomName(d)).BigInt() }

func coin(d int, x string) sdk.Coin {
	// built field by field: invalid denoms / amounts must reach ValidateBasic, not panic here
	return sdk.Coin{Denom: denomName(d), Amount: si(x)}
}

func (st Step) msg() sdk.Msg {
	switch st.K {
	case "swap":
		return &coinswaptypes.MsgSwapOrder{
			Input:    coinswaptypes.Input{Address: acctStr(st.A), Coin: coin(st.D1, st.X1)},
			Output:   coinswaptypes.Output{Address: acctStr(st.B), Coin: coin(st.D2, st.X2)},
			Deadline: st.Deadline, IsBuyOrder: st.Buy}
	case "add":
		return &coinswaptypes.MsgAddLiquidity{MaxToken: coin(st.D1, st.X1), ExactStandardAmt: si(st.X2),
			MinLiquidity: si(st.X3), Deadline: st.Deadline, Sender: acctStr(st.A)}
	case "rem":
		return &coinswaptypes.MsgRemoveLiquidity{WithdrawLiquidity: coin(st.D1, st.X1), MinStandardAmt: si(st.X2),
			MinToken: si(st.X3), Deadline: st.Deadline, Sender: acctStr(st.A)}
	case "addu":
		return &coinswaptypes.MsgAddUnilateralLiquidity{CounterpartyDenom: denomName(st.D1), ExactToken: coin(st.D2, st.X1),
			MinLiquidity: si(st.X2), Deadline: st.Deadline, Sender: acctStr(st.A)}
	case "remu":
		return &coinswaptypes.MsgRemoveUnilateralLiquidity{CounterpartyDenom: denomName(st.D1), MinToken: coin(st.D2, st.X1),
			ExactLiquidity: si(st.X2), Deadline: st.Deadline, Sender: acctStr(st.A)}
	case "send":
		return &banktypes.MsgSend{FromAddress: acctStr(st.A), ToAddress: acctStr(st.B), Amount: sdk.Coins{coin(st.D1, st.X1)}}
	case "params":
		// built field by field: out-of-range values must reach ValidateBasic / SetParams
		return &coinswaptypes.MsgUpdateParams{Authority: acctStr(st.A), Params: coinswaptypes.Params{
			Fee: decOf(st.P.Fee), TaxRate: decOf(st.P.Tax), UnilateralLiquidityFee: decOf(st.P.UFee),
			PoolCreationFee: coin(st.P.CDenom, st.P.CAmt)}}
	}
	return nil
}

func coqParams(p Params) string {
	return lib.App("mkParams", lib.ZB(bi(p.Fee)), lib.ZB(bi(p.UFee)), lib.ZB(bi(p.Tax)), lib.Z(int64(p.CDenom)), lib.ZB(bi(p.CAmt)))
}

// the module parameters as stored now, in the model's vocabulary
func (w *world) params() Params {
	q := w.k.GetParams(w.e.Ctx)
	return Params{Fee: q.Fee.BigInt().String(), UFee: q.UnilateralLiquidityFee.BigInt().String(), Tax: q.TaxRate.BigInt().String(),
		CDenom: denomIdx(q.PoolCreationFee.Denom), CAmt: q.PoolCreationFee.Amount.BigInt().String()}
}

func (st Step) coq() string {
	z := func(s string) string { return lib.ZB(bi(s)) }
	i := func(x int) string { return lib.Z(int64(x)) }
	switch st.K {
	case "swap":
		return lib.App("MSwap", lib.B(st.Buy), i(st.A), i(st.B), i(st.D1), z(st.X1), i(st.D2), z(st.X2), lib.Z(st.Deadline))
	case "add":
		return lib.App("MAdd", i(st.A), i(st.D1), z(st.X1), z(st.X2), z(st.X3), lib.Z(st.Deadline))
	case "rem":
		return lib.App("MRemove", i(st.A), i(st.D1), z(st.X1), z(st.X2), z(st.X3), lib.Z(st.Deadline))
	case "addu":
		return lib.App("MAddUni", i(st.A), i(st.D1), i(st.D2), z(st.X1), z(st.X2), lib.Z(st.Deadline))
	case "remu":
		return lib.App("MRemoveUni", i(st.A), i(st.D1), i(st.D2), z(st.X1), z(st.X2), lib.Z(st.Deadline))
	case "send":
		return lib.App("MSend", i(st.A), i(st.B), i(st.D1), z(st.X1))
	case "params":
		return lib.App("MUpdateParams", i(st.A), coqParams(*st.P))
	}
	return lib.App("MBlock", lib.Z(st.Dt))
}

func (st Step) String() string {
	switch st.K {
	case "swap":
		kind := "sell"
		if st.Buy {
			kind = "buy"
		}
		return fmt.Sprintf("swap %s %d->%d in %s%s out %s%s dl %d", kind, st.A, st.B, st.X1, denomName(st.D1), st.X2, denomName(st.D2), st.Deadline)
	case "add":
		return fmt.Sprintf("add %d max %s%s std %s minliq %s dl %d", st.A, st.X1, denomName(st.D1), st.X2, st.X3, st.Deadline)
	case "rem":
		return fmt.Sprintf("remove %d %s%s minstd %s mintok %s dl %d", st.A, st.X1, denomName(st.D1), st.X2, st.X3, st.Deadline)
	case "addu":
		return fmt.Sprintf("add-uni %d pool %s exact %s%s minliq %s dl %d", st.A, denomName(st.D1), st.X1, denomName(st.D2), st.X2, st.Deadline)
	case "remu":
		return fmt.Sprintf("remove-uni %d pool %s min %s%s liq %s dl %d", st.A, denomName(st.D1), st.X1, denomName(st.D2), st.X2, st.Deadline)
	case "send":
		return fmt.Sprintf("send %d->%d %s%s", st.A, st.B, st.X1, denomName(st.D1))
	case "params":
		return fmt.Sprintf("update-params by %d fee %s ufee %s tax %s creation %s%s", st.A, st.P.Fee, st.P.UFee, st.P.Tax, st.P.CAmt, denomName(st.P.CDenom))
	}
	return fmt.Sprintf("block +%ds", st.Dt)
}

// apply executes one step for real.
func (w *world) apply(st Step) lib.Outcome {
	if st.K == "block" {
		w.e.EndBlock()
		return w.e.BeginBlock(time.Duration(st.Dt) * time.Second)
	}
	return w.e.Deliver(st.msg())
}

var errRollback = fmt.Errorf("rollback")

// trial runs a message on a scratch context and reports (ok, balance deltas asked for).
func (w *world) trial(st Step, probes [][2]int) (bool, []*big.Int) {
	m := st.msg()
	ok := false
	var res []*big.Int
	w.e.Try(func(ctx sdk.Context) error {
		if v, is := m.(interface{ ValidateBasic() error }); is {
			if v.ValidateBasic() != nil {
				return errRollback
			}
		}
		h := w.e.App.MsgServiceRouter().Handler(m)
		before := make([]*big.Int, len(probes))
		for i, p := range probes {
			before[i] = w.e.App.BankKeeper.GetBalance(ctx, acctAddr(p[0]), denomName(p[1])).Amount.BigInt()
		}
		if _, err := h(ctx, m); err != nil {
			return errRollback
		}
		ok = true
		for i, p := range probes {
			after := w.e.App.BankKeeper.GetBalance(ctx, acctAddr(p[0]), denomName(p[1])).Amount.BigInt()
			res = append(res, new(big.Int).Sub(after, before[i]))
		}
		return errRollback
	})
	return ok, res
}

// ---- execution of a history, with observation ----

func coqLed(ch map[[2]int]*big.Int, order [][2]int) string {
	var xs []string
	for _, k := range order {
		if v, ok := ch[k]; ok {
			xs = append(xs, lib.Pair(lib.Pair(lib.Z(int64(k[0])), lib.Z(int64(k[1]))), lib.ZB(v)))
		}
	}
	return lib.L(xs...)
}

func ledOrder() [][2]int {
	var o [][2]int
	for _, a := range append(append([]int{}, uniAccts...), acctOthers) {
		for _, d := range uniDenoms {
			o = append(o, [2]int{a, d})
		}
	}
	return o
}

func respAmounts(w *world, st Step, o lib.Outcome) []string {
	if !o.OK() || o.Resp == nil {
		return nil
	}
	switch r := o.Resp.(type) {
	case *coinswaptypes.MsgAddLiquidityResponse:
		return []string{lib.ZI(r.MintToken.Amount)}
	case *coinswaptypes.MsgAddUnilateralLiquidityResponse:
		return []string{lib.ZI(r.MintToken.Amount)}
	case *coinswaptypes.MsgRemoveLiquidityResponse:
		cp := -7
		for _, p := range w.pools() {
			if 1000+p[1] == st.D1 {
				cp = p[0]
			}
		}
		return []string{lib.ZI(sdk.Coins(r.WithdrawCoins).AmountOf("stake")), lib.ZI(sdk.Coins(r.WithdrawCoins).AmountOf(denomName(cp)))}
	case *coinswaptypes.MsgRemoveUnilateralLiquidityResponse:
		return []string{lib.ZI(sdk.Coins(r.WithdrawCoins).AmountOf(denomName(st.D2)))}
	}
	return nil
}

func exec(h History) lib.Case {
	if h.Kern != nil {
		return execKernel(h)
	}
	c := lib.Case{Stats: map[string]int{}}
	w := newWorld(h.Params)
	order := ledOrder()
	nz := func(m map[[2]int]*big.Int) map[[2]int]*big.Int {
		r := map[[2]int]*big.Int{}
		for k, v := range m {
			if v.Sign() != 0 {
				r[k] = v
			}
		}
		return r
	}
	var supInit []string
	for _, d := range uniDenoms {
		if w.sup[d].Sign() != 0 {
			supInit = append(supInit, lib.Pair(lib.Z(int64(d)), lib.ZB(w.sup[d])))
		}
	}
	header := []string{
		coqParams(h.Params),
		lib.Z(w.e.Time.Unix()), coqLed(nz(w.led), order), lib.L(supInit...),
	}
	phi := new(big.Int).Sub(p18, bi(h.Params.Fee))
	var steps []string
	okSwap, okLiq, remainder := false, false, false
	c02nt := false
	for _, st := range h.Steps {
		poolsBefore := w.pools()
		ledBefore := w.led
		supBefore := w.sup
		o := w.apply(st)
		led, sup := w.read()
		chL := map[[2]int]*big.Int{}
		for k, v := range led {
			if v.Cmp(w.led[k]) != 0 {
				chL[k] = new(big.Int).Sub(v, w.led[k])
			}
		}
		var chS []string
		for _, d := range uniDenoms {
			if sup[d].Cmp(w.sup[d]) != 0 {
				chS = append(chS, lib.Pair(lib.Z(int64(d)), lib.ZB(new(big.Int).Sub(sup[d], w.sup[d]))))
			}
		}
		w.led, w.sup = led, sup
		var ps []string
		for _, p := range w.pools() {
			ps = append(ps, lib.Pair(lib.Z(int64(p[0])), lib.Z(int64(p[1]))))
		}
		parNow := w.params()
		obs := lib.App("mkObs", lib.Z(int64(o.Code())), lib.L(respAmounts(w, st, o)...), coqLed(chL, order), lib.L(chS...), lib.L(ps...), coqParams(parNow))
		phi = new(big.Int).Sub(p18, bi(parNow.Fee)) // the fee in force for the next step
		steps = append(steps, lib.Pair(st.coq(), obs))
		lib.Stat(c.Stats, "op:"+st.K)
		lib.Stat(c.Stats, "res:"+o.Kind)
		lib.Stat(c.Stats, "res:"+st.K+":"+o.Kind)
		if (st.K == "addu" || st.K == "remu") && st.D2 != 0 && st.D2 != st.D1 {
			lib.Stat(c.Stats, "uni:foreign-denom:"+o.Kind)
		}
		c.Steps = append(c.Steps, fmt.Sprintf("%s -> %s %s", st.String(), o.Kind, short(o.Err)))
		// non-triviality bookkeeping
		if o.OK() {
			poolN := func(cp int) int {
				for _, p := range poolsBefore {
					if p[0] == cp {
						return p[1]
					}
				}
				return 0
			}
			switch st.K {
			case "swap":
				okSwap = true
				double := st.D1 != 0 && st.D2 != 0
				if st.A != st.B || double {
					c02nt = true
				}
				if st.B > 1000 {
					lib.Stat(c.Stats, "swap:recipient-is-a-pool")
				}
				lib.Stat(c.Stats, fmt.Sprintf("swap:double=%v,other-recipient=%v", double, st.A != st.B))
				// remainder of the (first) leg's division, from the observed reserves
				din, dout := st.D1, st.D2
				if double {
					dout = 0
				}
				cp := din
				if cp == 0 {
					cp = dout
				}
				if n := poolN(cp); n > 0 {
					x := ledBefore[[2]int{1000 + n, din}]
					y := ledBefore[[2]int{1000 + n, dout}]
					paid := new(big.Int).Sub(led[[2]int{1000 + n, din}], x)
					recv := new(big.Int).Sub(y, led[[2]int{1000 + n, dout}])
					var num, den *big.Int
					if st.Buy {
						num = new(big.Int).Mul(new(big.Int).Mul(x, recv), p18)
						den = new(big.Int).Mul(new(big.Int).Sub(y, recv), phi)
					} else {
						ap := new(big.Int).Mul(paid, phi)
						num = new(big.Int).Mul(ap, y)
						den = new(big.Int).Add(new(big.Int).Mul(x, p18), ap)
					}
					if den.Sign() > 0 && new(big.Int).Mod(num, den).Sign() != 0 {
						remainder = true
					}
				}
			case "params":
				lib.Stat(c.Stats, "params:changed")
			case "send":
				if st.B > 1000 && st.D1 >= 1 && st.D1 <= 3 {
					foreign := true
					for _, pp := range poolsBefore {
						if 1000+pp[1] == st.B && pp[0] == st.D1 {
							foreign = false
						}
					}
					if foreign {
						lib.Stat(c.Stats, "donation:unrelated-denom")
					}
				}
			case "add", "rem", "addu", "remu":
				cp := st.D1
				if st.K == "rem" {
					cp = -1
					for _, p := range poolsBefore {
						if 1000+p[1] == st.D1 {
							cp = p[0]
						}
					}
				}
				if n := poolN(cp); n > 0 && supBefore[1000+n] != nil && supBefore[1000+n].Sign() > 0 {
					okLiq = true
				}
			}
			if st.K != "block" && st.K != "send" && st.K != "params" && boundTight(st, ledBefore, led, supBefore, sup, poolsBefore, w.pools()) {
				c02nt = true
				lib.Stat(c.Stats, "bound:tight")
			}
		}
	}
	header = append(header, lib.L(steps...))
	c.Coq = lib.App("mkCase", header...)
	if h.Stream == "c02" {
		c.NonTrivial = c02nt
	} else {
		c.NonTrivial = okSwap && okLiq && remainder
	}
	return c
}

func short(s string) string {
	if len(s) > 90 {
		return s[:90]
	}
	return s
}

// boundTight: the user's bound of a successful message is within 1 of the amount that moved.
func boundTight(st Step, l0, l1 map[[2]int]*big.Int, s0, s1 map[int]*big.Int, p0, p1 [][2]int) bool {
	near := func(a, b *big.Int) bool {
		d := new(big.Int).Sub(a, b)
		return d.CmpAbs(big.NewInt(1)) <= 0
	}
	delta := func(a, d int) *big.Int { return new(big.Int).Sub(l1[[2]int{a, d}], l0[[2]int{a, d}]) }
	neg := func(x *big.Int) *big.Int { return new(big.Int).Neg(x) }
	switch st.K {
	case "swap":
		if st.Buy {
			return near(neg(delta(st.A, st.D1)), bi(st.X1))
		}
		return near(delta(st.B, st.D2), bi(st.X2))
	case "add":
		n := 0
		for _, p := range p1 {
			if p[0] == st.D1 {
				n = p[1]
			}
		}
		return near(delta(1000+n, st.D1), bi(st.X1)) || near(new(big.Int).Sub(s1[1000+n], s0[1000+n]), bi(st.X3))
	case "rem":
		n := st.D1 - 1000
		cp := 0
		for _, p := range p0 {
			if p[1] == n {
				cp = p[0]
			}
		}
		return near(neg(delta(1000+n, 0)), bi(st.X2)) || near(neg(delta(1000+n, cp)), bi(st.X3))
	case "addu":
		n := 0
		for _, p := range p0 {
			if p[0] == st.D1 {
				n = p[1]
			}
		}
		return near(new(big.Int).Sub(s1[1000+n], s0[1000+n]), bi(st.X2))
	case "remu":
		return near(delta(st.A, st.D2), bi(st.X1))
	}
	return false
}

func main() {
	lib.Main(lib.Driver[History]{Gen: gen, Exec: exec})
}
