package main

import (
	"math/big"

	"verifharness/lib"
)

// The generator drives a scratch chain instance while it draws the history, so that amounts can be
// chosen relative to the real reserves and bounds relative to the amounts a message really moves
// (exact, exact±1).  The history it returns is then executed again from genesis by exec.

func one() *big.Int { return big.NewInt(1) }
func add(a, b *big.Int) *big.Int { return new(big.Int).Add(a, b) }
func sub(a, b *big.Int) *big.Int { return new(big.Int).Sub(a, b) }
func mul(a, b *big.Int) *big.Int { return new(big.Int).Mul(a, b) }
func quo(a, b *big.Int) *big.Int { return new(big.Int).Quo(a, b) }
func pos(x *big.Int) *big.Int {
	if x.Sign() <= 0 {
		return one()
	}
	return x
}

var hugeBound = new(big.Int).Lsh(big.NewInt(1), 135)

func genParams(r *lib.Rand) Params {
	p := Params{Fee: "3000000000000000", UFee: "2000000000000000", Tax: "400000000000000000", CDenom: 0, CAmt: "5000"}
	top := sub(p18, one())
	switch r.Weighted(10, 6, 1, 1, 2) {
	case 1:
		p.Fee = add(r.BigRange(one(), top), big.NewInt(0)).String()
	case 2:
		p.Fee = "1"
	case 3:
		p.Fee = top.String()
	case 4:
		p.Fee = mul(big.NewInt(int64(1+r.Intn(300))), new(big.Int).Exp(big.NewInt(10), big.NewInt(15), nil)).String() // 0.001 .. 0.3
	}
	switch r.Weighted(10, 5, 2, 1) {
	case 1:
		p.UFee = r.BigRange(big.NewInt(0), top).String()
	case 2:
		p.UFee = "0"
	case 3:
		p.UFee = top.String()
	}
	switch r.Weighted(10, 5, 1, 1) {
	case 1:
		p.Tax = r.BigRange(one(), top).String()
	case 2:
		p.Tax = "1"
	case 3:
		p.Tax = top.String()
	}
	if r.Chance(1, 5) {
		p.CDenom = 3
	}
	switch r.Weighted(10, 5, 1) {
	case 1:
		p.CAmt = add(r.Big(64), one()).String()
	case 2:
		p.CAmt = "1"
	}
	return p
}

type genState struct {
	r     *lib.Rand
	w     *world
	bits  int // magnitude class of this history
	steps []Step
}

func (g *genState) now() int64 { return g.w.e.Time.Unix() }

func (g *genState) deadline() int64 {
	switch g.r.Weighted(70, 3, 2, 1) {
	case 1:
		return g.now() // boundary: still allowed
	case 2:
		return g.now() - 1 // passed
	case 3:
		return 0 // invalid
	}
	return g.now() + int64(10+g.r.Intn(1000))
}

// amount of the history's magnitude class, at least 1
func (g *genState) amount() *big.Int {
	b := g.bits
	if g.r.Chance(1, 14) {
		b = 1 + g.r.Intn(128)
	}
	lo := b - 12
	if lo < 1 {
		lo = 1
	}
	n := lo + g.r.Intn(b-lo+1)
	x := g.r.Big(n)
	x.SetBit(x, n-1, 1)
	return x
}

// a fraction of x (between 1/10000 and 1/2), or a tiny amount, at least 1
func (g *genState) part(x *big.Int) *big.Int {
	switch g.r.Weighted(10, 2, 1) {
	case 1:
		return big.NewInt(int64(1 + g.r.Intn(5)))
	case 2:
		return pos(quo(mul(x, big.NewInt(int64(5000+g.r.Intn(5000)))), big.NewInt(10000)))
	}
	return pos(quo(mul(x, big.NewInt(int64(1+g.r.Intn(3000)))), big.NewInt(10000)))
}

func (g *genState) user() int { return g.r.Intn(3) }

func (g *genState) recipient(sender int) int {
	switch g.r.Weighted(30, 28, 1, 1, 4) {
	case 1:
		o := g.r.Intn(4)
		if o == sender {
			o = 3
		}
		return o
	case 2:
		return acctFeeCol // blocked
	case 3:
		return -1 // not an address
	case 4:
		return 1001 + g.r.Intn(maxPools) // a pool escrow address (of this swap or of another pool)
	}
	return sender
}

func (g *genState) push(st Step) {
	g.steps = append(g.steps, st)
	g.w.apply(st)
}

// pick the bound relative to the exact amount: dir=+1 the bound is a minimum (exact+1 fails),
// dir=-1 the bound is a maximum (exact-1 fails); loose is the value that never binds
func (g *genState) bound(exact *big.Int, dir int, loose *big.Int) *big.Int {
	switch g.r.Weighted(6, 5, 2, 2, 1) {
	case 1:
		return new(big.Int).Set(exact)
	case 2: // failing side
		return add(exact, big.NewInt(int64(dir)))
	case 3: // passing side
		x := sub(exact, big.NewInt(int64(dir)))
		if x.Sign() < 0 {
			return big.NewInt(0)
		}
		return x
	case 4:
		if dir > 0 {
			return g.r.BigRange(big.NewInt(0), exact)
		}
		return add(exact, g.r.Big(40))
	}
	return new(big.Int).Set(loose)
}

func (g *genState) existing() []int {
	var cps []int
	for _, p := range g.w.pools() {
		cps = append(cps, p[0])
	}
	return cps
}

// pools with liquidity
func (g *genState) live() []int {
	var cps []int
	for _, p := range g.w.pools() {
		if g.w.supply(1000+p[1]).Sign() > 0 && g.w.bal(1000+p[1], 0).Sign() > 0 && g.w.bal(1000+p[1], p[0]).Sign() > 0 {
			cps = append(cps, p[0])
		}
	}
	return cps
}

// capBits: an amount of at most n bits (n >= 1), so that products with the reserves stay below 2^256
func (g *genState) capBits(x *big.Int, n int) *big.Int {
	if n < 1 {
		n = 1
	}
	if x.BitLen() <= n || g.r.Chance(1, 8) {
		return x
	}
	y := g.r.Big(n)
	return pos(y)
}

func (g *genState) genSwap() {
	cps := g.live()
	if len(cps) == 0 || g.r.Chance(1, 25) {
		cps = g.existing()
	}
	a := g.user()
	b := g.recipient(a)
	var din, dout int
	switch {
	case len(cps) >= 2 && g.r.Chance(1, 2): // double hop
		i := g.r.Intn(len(cps))
		j := g.r.Intn(len(cps) - 1)
		if j >= i {
			j++
		}
		din, dout = cps[i], cps[j]
	case len(cps) >= 1 && !g.r.Chance(1, 12):
		cp := cps[g.r.Intn(len(cps))]
		if g.r.Chance(1, 2) {
			din, dout = 0, cp
		} else {
			din, dout = cp, 0
		}
	default: // possibly no such pool
		din = g.r.Intn(4)
		dout = g.r.Intn(4)
	}
	buy := g.r.Chance(1, 2)
	st := Step{K: "swap", Buy: buy, A: a, B: b, D1: din, D2: dout, Deadline: g.deadline()}
	// reserves of the pool that pays out / takes in
	inPool, outPool := din, dout
	if inPool == 0 {
		inPool = dout
	}
	if outPool == 0 {
		outPool = din
	}
	tb := b
	if tb < 0 || tb == acctFeeCol || tb > 1000 {
		tb = a
	}
	if !buy {
		x := g.w.bal(1000+g.w.poolOf(inPool), din)
		amt := g.part(pos(x))
		if g.r.Chance(1, 10) {
			amt = g.amount()
		}
		yb := g.w.bal(1000+g.w.poolOf(inPool), map[bool]int{true: 0, false: dout}[din != 0 && dout != 0]).BitLen()
		amt = g.capBits(amt, 194-yb)
		st.X1 = amt.String()
		st.X2 = "1"
		trialSt := st
		trialSt.B = tb
		trialSt.Deadline = g.now() + 5
		if ok, d := g.w.trial(trialSt, [][2]int{{tb, dout}}); ok {
			st.X2 = pos(g.bound(d[0], +1, one())).String()
		} else if g.r.Chance(1, 2) {
			st.X2 = g.amount().String()
		}
	} else {
		y := g.w.bal(1000+g.w.poolOf(outPool), dout)
		amt := g.part(pos(y))
		switch g.r.Weighted(20, 1, 1, 1) {
		case 1:
			amt = pos(sub(y, one()))
		case 2:
			amt = pos(y) // exactly the reserve: refused
		case 3:
			amt = g.amount()
		}
		xb := g.w.bal(1000+g.w.poolOf(outPool), map[bool]int{true: 0, false: din}[din != 0 && dout != 0]).BitLen()
		amt = g.capBits(amt, 194-xb)
		st.X2 = amt.String()
		st.X1 = hugeBound.String()
		trialSt := st
		trialSt.B = tb
		trialSt.Deadline = g.now() + 5
		if ok, d := g.w.trial(trialSt, [][2]int{{a, din}}); ok {
			st.X1 = pos(g.bound(new(big.Int).Neg(d[0]), -1, hugeBound)).String()
		} else if g.r.Chance(1, 2) {
			st.X1 = g.amount().String()
		}
	}
	g.push(st)
}

func (g *genState) genAdd(forceNew bool) {
	a := g.user()
	cps := g.existing()
	has := map[int]bool{}
	for _, c := range cps {
		has[c] = true
	}
	var d int
	if forceNew || len(cps) == 0 {
		var free []int
		for _, c := range []int{1, 2, 3} {
			if !has[c] {
				free = append(free, c)
			}
		}
		if len(free) == 0 {
			d = cps[g.r.Intn(len(cps))]
		} else {
			d = free[g.r.Intn(len(free))]
		}
	} else {
		d = cps[g.r.Intn(len(cps))]
	}
	if g.r.Chance(1, 40) {
		d = 0 // the standard denom itself: refused
	}
	st := Step{K: "add", A: a, D1: d, Deadline: g.deadline()}
	n := g.w.poolOf(d)
	if !has[d] || g.w.supply(1000+n).Sign() == 0 {
		std := g.amount()
		st.X2 = std.String()
		st.X1 = g.amount().String()
		st.X3 = g.bound(std, +1, big.NewInt(0)).String()
		g.push(st)
		return
	}
	S := g.w.bal(1000+n, 0)
	std := g.part(pos(S))
	if g.r.Chance(1, 10) {
		std = g.amount()
	}
	st.X2 = std.String()
	st.X1 = hugeBound.String()
	st.X3 = "0"
	trialSt := st
	trialSt.Deadline = g.now() + 5
	if ok, dl := g.w.trial(trialSt, [][2]int{{1000 + n, d}, {a, 1000 + n}}); ok {
		st.X1 = pos(g.bound(dl[0], -1, hugeBound)).String()
		st.X3 = g.bound(dl[1], +1, big.NewInt(0)).String()
	}
	g.push(st)
}

func (g *genState) holder(n int) (int, *big.Int) {
	a := g.user()
	for k := 0; k < 3; k++ {
		b := g.w.bal((a+k)%3, 1000+n)
		if b.Sign() > 0 {
			return (a + k) % 3, b
		}
	}
	return a, big.NewInt(0)
}

func (g *genState) genRemove() {
	ps := g.w.pools()
	if len(ps) == 0 {
		g.push(Step{K: "rem", A: g.user(), D1: 1001, X1: "5", X2: "0", X3: "0", Deadline: g.deadline()})
		return
	}
	p := ps[g.r.Intn(len(ps))]
	a, have := g.holder(p[1])
	var wd *big.Int
	switch g.r.Weighted(10, 3, 1, 1) {
	case 1:
		wd = pos(have) // everything this holder has
	case 2:
		wd = add(have, one()) // more than held
	case 3:
		wd = add(g.w.supply(1000+p[1]), one()) // more than exists
	default:
		wd = g.part(pos(have))
	}
	st := Step{K: "rem", A: a, D1: 1000 + p[1], X1: wd.String(), X2: "0", X3: "0", Deadline: g.deadline()}
	if g.r.Chance(1, 40) {
		st.D1 = p[0] // not an lpt denom
	}
	trialSt := st
	trialSt.Deadline = g.now() + 5
	if ok, dl := g.w.trial(trialSt, [][2]int{{a, 0}, {a, p[0]}}); ok {
		st.X2 = g.bound(dl[0], +1, big.NewInt(0)).String()
		st.X3 = g.bound(dl[1], +1, big.NewInt(0)).String()
		if g.r.Chance(1, 2) { // bind at most one of the two
			if g.r.Chance(1, 2) {
				st.X2 = "0"
			} else {
				st.X3 = "0"
			}
		}
	}
	g.push(st)
}

func (g *genState) genAddUni() {
	ps := g.w.pools()
	a := g.user()
	if len(ps) == 0 || g.r.Chance(1, 30) {
		g.push(Step{K: "addu", A: a, D1: 1 + g.r.Intn(3), D2: g.r.Intn(4), X1: g.amount().String(), X2: "0", Deadline: g.deadline()})
		return
	}
	p := ps[g.r.Intn(len(ps))]
	d := 0
	if g.r.Chance(1, 2) {
		d = p[0]
	}
	if g.r.Chance(1, 16) {
		d = g.foreignDenom(p[0])
	}
	T := g.w.bal(1000+p[1], d)
	x := g.part(pos(T))
	if g.r.Chance(1, 10) {
		x = g.amount()
	}
	st := Step{K: "addu", A: a, D1: p[0], D2: d, X1: x.String(), X2: "0", Deadline: g.deadline()}
	trialSt := st
	trialSt.Deadline = g.now() + 5
	if ok, dl := g.w.trial(trialSt, [][2]int{{a, 1000 + p[1]}}); ok {
		st.X2 = g.bound(dl[0], +1, big.NewInt(0)).String()
	}
	g.push(st)
}

func (g *genState) genRemoveUni() {
	ps := g.w.pools()
	if len(ps) == 0 || g.r.Chance(1, 30) {
		g.push(Step{K: "remu", A: g.user(), D1: 1 + g.r.Intn(3), D2: g.r.Intn(4), X1: "1", X2: g.amount().String(), Deadline: g.deadline()})
		return
	}
	p := ps[g.r.Intn(len(ps))]
	a, have := g.holder(p[1])
	d := 0
	if g.r.Chance(1, 2) {
		d = p[0]
	}
	var liq *big.Int
	switch g.r.Weighted(12, 2, 1, 1) {
	case 1:
		liq = pos(have)
	case 2:
		liq = g.w.supply(1000 + p[1]) // all of it: forbidden
	case 3:
		liq = big.NewInt(0)
	default:
		liq = g.part(pos(have))
	}
	st := Step{K: "remu", A: a, D1: p[0], D2: d, X1: "1", X2: liq.String(), Deadline: g.deadline()}
	trialSt := st
	trialSt.Deadline = g.now() + 5
	if ok, dl := g.w.trial(trialSt, [][2]int{{a, d}}); ok {
		st.X1 = pos(g.bound(dl[0], +1, one())).String()
	}
	g.push(st)
}

func (g *genState) genSend() {
	a := g.user()
	st := Step{K: "send", A: a}
	switch g.r.Weighted(8, 3, 2, 1) {
	case 0: // donation of a reserve coin (or an unrelated one) to a pool address, created or not
		st.B = 1001 + g.r.Intn(maxPools)
		st.D1 = g.r.Intn(4)
		if ps := g.w.pools(); len(ps) > 0 && g.r.Chance(3, 4) {
			p := ps[g.r.Intn(len(ps))]
			st.B = 1000 + p[1]
			switch g.r.Weighted(4, 4, 3) {
			case 0:
				st.D1 = p[0]
			case 1:
				st.D1 = 0
			case 2:
				st.D1 = g.foreignDenom(p[0]) // a denom this pool does not trade
			}
		}
		st.X1 = g.part(pos(g.w.bal(st.B, st.D1))).String()
		if g.r.Chance(1, 4) {
			st.X1 = g.amount().String()
		}
	case 1: // between actors
		st.B = g.r.Intn(4)
		st.D1 = g.r.Intn(4)
		st.X1 = g.amount().String()
	case 2: // liquidity tokens to a pool address or another actor
		n := 1 + g.r.Intn(maxPools)
		st.D1 = 1000 + n
		st.A, _ = g.holder(n)
		st.B = 1000 + n
		if g.r.Chance(1, 2) {
			st.B = g.r.Intn(4)
		}
		st.X1 = g.part(pos(g.w.bal(st.A, st.D1))).String()
	case 3:
		st.B = acctFeeCol // blocked
		st.D1 = 0
		st.X1 = "10"
	}
	g.push(st)
}

// a bank denom that is neither the standard denom nor the counterparty denom cp
func (g *genState) foreignDenom(cp int) int {
	d := 1 + g.r.Intn(3)
	if d == cp {
		d = 1 + d%3
	}
	return d
}

// a denom that is not the pool's: somebody sends an unrelated coin to a pool escrow address (a donation)
// and then a one-sided add / remove, a two-sided add or a swap names a denom the pool does not trade
func (g *genState) genForeignDenom() {
	ps := g.w.pools()
	if len(ps) == 0 {
		g.genSend()
		return
	}
	p := ps[g.r.Intn(len(ps))]
	u := g.foreignDenom(p[0])
	if g.w.bal(1000+p[1], u).Sign() == 0 || g.r.Chance(1, 3) {
		amt := g.amount()
		if g.r.Chance(1, 3) {
			amt = big.NewInt(int64(1 + g.r.Intn(3)))
		}
		g.push(Step{K: "send", A: g.user(), B: 1000 + p[1], D1: u, X1: amt.String()})
	}
	held := pos(g.w.bal(1000+p[1], u))
	switch g.r.Weighted(10, 4, 2, 2) {
	case 0: // one-sided add offering the unrelated denom
		x := g.part(held)
		if g.r.Chance(1, 2) {
			x = g.amount()
		}
		g.push(Step{K: "addu", A: g.user(), D1: p[0], D2: u, X1: x.String(), X2: "0", Deadline: g.now() + 50})
	case 1: // one-sided remove asking for the unrelated denom
		a, have := g.holder(p[1])
		g.push(Step{K: "remu", A: a, D1: p[0], D2: u, X1: "1", X2: g.part(pos(have)).String(), Deadline: g.now() + 50})
	case 2: // two-sided add naming the standard denom or an LPT denom as the token
		d := 0
		if g.r.Chance(1, 2) {
			d = 1000 + p[1]
		}
		g.push(Step{K: "add", A: g.user(), D1: d, X1: g.amount().String(), X2: g.amount().String(), X3: "0", Deadline: g.now() + 50})
	case 3: // swap with an LPT denom, or the same denom on both sides
		st := Step{K: "swap", Buy: g.r.Chance(1, 2), A: g.user(), D1: p[0], D2: 1000 + p[1], X1: g.amount().String(), X2: "1", Deadline: g.now() + 50}
		st.B = st.A
		switch g.r.Intn(3) {
		case 0:
			st.D1, st.D2 = 1000+p[1], 0
		case 1:
			st.D2 = p[0]
		}
		g.push(st)
	}
}

// MsgUpdateParams mid-history: mostly by the authority with valid parameters, sometimes by a
// stranger, sometimes with a value out of range
func (g *genState) genParamsStep() {
	p := genParams(g.r)
	if bi(p.CAmt).BitLen() > g.bits+4 {
		p.CAmt = add(g.r.Big(g.bits+4), one()).String()
	}
	st := Step{K: "params", A: acctGov, P: &p}
	switch g.r.Weighted(12, 3, 1, 4) {
	case 1:
		st.A = g.user() // not the authority
	case 2:
		st.A = -1 // not an address
	case 3:
		switch g.r.Intn(7) {
		case 6:
			p.CAmt = new(big.Int).Lsh(big.NewInt(1), 255).String() // 256 bits: refused since the 255-bit fix
		case 0:
			p.Fee = "0"
		case 1:
			p.Fee = p18.String()
		case 2:
			p.Tax = "0"
		case 3:
			p.UFee = p18.String()
		case 4:
			p.CAmt = "0"
		case 5:
			p.Tax = p18.String()
		}
	}
	g.push(st)
}

func gen(r *lib.Rand, tier, stream string, i int) History {
	if stream == "kernels" {
		return genKernel(r, i)
	}
	h := History{Stream: stream, Params: genParams(r)}
	g := &genState{r: r}
	switch r.Weighted(3, 8, 3, 2) {
	case 0:
		g.bits = 4 + r.Intn(20)
	case 1:
		g.bits = 24 + r.Intn(40)
	case 2:
		g.bits = 64 + r.Intn(40)
	case 3:
		g.bits = 104 + r.Intn(25)
	}
	// genesis balances: comfortably above the magnitude class (2^(bits+10) or more)
	if bi(h.Params.CAmt).BitLen() > g.bits+4 {
		h.Params.CAmt = add(r.Big(g.bits+4), one()).String()
	}
	h.Params.Init = new(big.Int).Exp(big.NewInt(10), big.NewInt(int64((g.bits+10)*30103/100000+2)), nil).String()
	g.w = newWorld(h.Params)
	n := 10 + r.Intn(30)
	if tier == "thorough" {
		n = 10 + r.Intn(70)
	}
	// sometimes one user is poor in one denom
	if r.Chance(1, 4) {
		d := r.Intn(4)
		keep := g.amount()
		have := g.w.bal(2, d)
		if have.Cmp(keep) > 0 {
			g.push(Step{K: "send", A: 2, B: 3, D1: d, X1: sub(have, keep).String()})
		}
	}
	// sometimes a pool address is funded before the pool exists
	if r.Chance(1, 6) {
		g.push(Step{K: "send", A: g.user(), B: 1001 + r.Intn(2), D1: r.Intn(4), X1: g.amount().String()})
	}
	for len(g.steps) < n {
		np := len(g.existing())
		if np == 0 && !r.Chance(1, 8) {
			g.genAdd(true)
			continue
		}
		if np == 1 && r.Chance(1, 3) {
			g.genAdd(true)
			continue
		}
		if r.Chance(1, 22) {
			g.genParamsStep()
			continue
		}
		if r.Chance(1, 14) {
			g.genForeignDenom()
			continue
		}
		switch r.Weighted(40, 10, 9, 8, 8, 7, 5, 2) {
		case 0:
			g.genSwap()
		case 1:
			g.genAdd(false)
		case 2:
			g.genRemove()
		case 3:
			g.genAddUni()
		case 4:
			g.genRemoveUni()
		case 5:
			g.genSend()
		case 6:
			g.push(Step{K: "block", Dt: int64(1 + r.Intn(20))})
		case 7:
			g.genAdd(true)
		}
	}
	h.Steps = g.steps
	return h
}
