package main

import (
	"math/big"

	sdkmath "cosmossdk.io/math"

	coinswapkeeper "mods.irisnet.org/modules/coinswap/keeper"

	"verifharness/lib"
)

// Stream "kernels": GetInputPrice / GetOutputPrice as pure functions on generated
// (amount, x, y, fee), with 128-bit operands and operands placed so that the division
// leaves a residue of 0, small, or just below the divisor.

func genKernel(r *lib.Rand, i int) History {
	top := sub(p18, one())
	fee := big.NewInt(3000000000000000)
	switch r.Weighted(6, 6, 1, 1) {
	case 1:
		fee = r.BigRange(one(), top)
	case 2:
		fee = one()
	case 3:
		fee = top
	}
	phi := sub(p18, fee)
	bits := 128
	if r.Chance(1, 3) {
		bits = 8 + r.Intn(60)
	}
	k := &Kernel{Out: r.Chance(1, 2), F: fee.String()}
	amt := add(r.Big(bits), one())
	x := add(r.Big(bits), one())
	y := add(r.Big(bits), one())
	e := big.NewInt(int64(r.Intn(3) - 1))
	if !k.Out {
		// numerator a*phi*y, divisor x*10^18 + a*phi
		switch r.Weighted(4, 4, 2, 1) {
		case 1: // y = k*den + e: residue 0, a*phi, den - a*phi
			den := add(mul(x, p18), mul(amt, phi))
			y = pos(add(mul(add(r.Big(40), one()), den), e))
		case 2: // tiny amounts against huge reserves and the reverse
			if r.Chance(1, 2) {
				amt = big.NewInt(int64(1 + r.Intn(3)))
			} else {
				x = big.NewInt(int64(1 + r.Intn(3)))
			}
		case 3: // overflow edge: a*phi*y around 2^256
			amt = add(r.Big(100), one())
			y = quo(new(big.Int).Lsh(one(), 256), mul(amt, phi))
			y = pos(add(y, e))
		}
	} else {
		// numerator x*b*10^18, divisor (y-b)*phi
		switch r.Weighted(4, 4, 2, 1, 1) {
		case 1: // x = phi*t, y - b = t: exact; then x±1
			t := add(r.Big(60), one())
			amt = add(r.Big(60), one())
			y = add(amt, t)
			x = pos(add(mul(phi, t), e))
		case 2:
			if r.Chance(1, 2) {
				amt = big.NewInt(int64(1 + r.Intn(3)))
				y = add(y, amt)
			} else {
				y = add(amt, big.NewInt(int64(1+r.Intn(3)))) // almost everything is bought
			}
		case 3: // outside the guard: amt >= y (the keeper refuses these before calling)
			y = pos(sub(amt, big.NewInt(int64(r.Intn(2)))))
		case 4: // overflow edge
			x = add(r.Big(120), one())
			amt = pos(add(quo(new(big.Int).Lsh(one(), 196), x), e))
			y = add(amt, add(r.Big(100), one()))
		default:
			if y.Cmp(amt) <= 0 {
				y = add(amt, add(r.Big(bits), one()))
			}
		}
	}
	k.Amt, k.X, k.Y = amt.String(), x.String(), y.String()
	return History{Stream: "kernels", Kern: k}
}

func execKernel(h History) (c lib.Case) {
	k := h.Kern
	c.Stats = map[string]int{}
	fee := decOf(k.F)
	var res *sdkmath.Int
	func() {
		defer func() {
			if r := recover(); r != nil {
				res = nil
			}
		}()
		var v sdkmath.Int
		if k.Out {
			v = coinswapkeeper.GetOutputPrice(si(k.Amt), si(k.X), si(k.Y), fee)
		} else {
			v = coinswapkeeper.GetInputPrice(si(k.Amt), si(k.X), si(k.Y), fee)
		}
		res = &v
	}()
	name := "in"
	if k.Out {
		name = "out"
	}
	lib.Stat(c.Stats, "op:kernel-"+name)
	opt := "None"
	if res != nil {
		opt = "(Some " + lib.ZI(*res) + ")"
		lib.Stat(c.Stats, "res:ok")
		// non-trivial: the division leaves a remainder
		phi := sub(p18, bi(k.F))
		var num, den *big.Int
		if k.Out {
			num = mul(mul(bi(k.X), bi(k.Amt)), p18)
			den = mul(sub(bi(k.Y), bi(k.Amt)), phi)
		} else {
			ap := mul(bi(k.Amt), phi)
			num = mul(ap, bi(k.Y))
			den = add(mul(bi(k.X), p18), ap)
		}
		if den.Sign() > 0 && new(big.Int).Mod(num, den).Sign() != 0 {
			c.NonTrivial = true
			lib.Stat(c.Stats, "kernel:remainder")
		} else {
			lib.Stat(c.Stats, "kernel:exact")
		}
	} else {
		lib.Stat(c.Stats, "res:abort")
	}
	c.Coq = lib.App("mkK", lib.B(k.Out), lib.ZB(bi(k.Amt)), lib.ZB(bi(k.X)), lib.ZB(bi(k.Y)), lib.ZB(bi(k.F)), opt)
	c.Steps = []string{name + " amt=" + k.Amt + " x=" + k.X + " y=" + k.Y + " fee=" + k.F + " -> " + opt}
	return c
}
